(* C04 — attributes, attribute values and processing instructions:
   Spec.den_val / den_vals / den_astart / den_attr / den_attrs / den_pi against the parser. *)
From Coq Require Import String Ascii.
From Coq Require Import List NArith ZArith Lia Bool ZifyBool ZifyN.
From Wbxml Require Import Base.Bits Model.Codec Model.TablesDefs Model.Parser Model.Spec
     Proofs.CodecProofs Proofs.ParserProofsBase Proofs.ParserProofsStr.
Import ListNotations.
Local Open Scope N_scope.

(* ---- is_attr_value on a known first byte ---- *)

Definition iav1 (b : N) : bool :=
  (N.land b 128 =? 128) || ((b =? 3) || (b =? 131)) || is_ext_token b || (b =? 2) || (b =? 195).
Definition iav0 (t : N) : bool := (N.land t 128 =? 128) || is_ext_token t.

Lemma is_attr_value_nz b x : (b =? 0) = false -> is_attr_value (b :: x) = iav1 b.
Proof.
  intros H. unfold is_attr_value, iav1, is_string, is_extension. cbn [is_token nth_error]. rewrite H. reflexivity.
Qed.

Lemma is_attr_value_sw p t x : is_attr_value (0 :: p :: t :: x) = iav0 t.
Proof.
  unfold is_attr_value, iav0, is_string, is_extension. cbn [is_token nth_error N.eqb].
  change (N.land 0 128) with 0. cbn [N.eqb orb].
  destruct (N.land t 128 =? 128), (is_ext_token t); reflexivity.
Qed.

(* ---- token classes (finite sweeps) ---- *)

Definition val_tok_facts (t : N) : bool :=
  negb (is_ext_token t) && negb (t =? 0) && negb (t =? 1) && negb (t =? 2) && negb (t =? 3) && negb (t =? 4)
  && negb (t =? 131) && negb (t =? 195) && (N.land t 128 =? 128) && iav1 t && iav0 t.
Lemma val_tok_sweep : forallb (fun t => implb (aval_tok_okb t) (val_tok_facts t)) (N_range 256) = true.
Proof. vm_compute. reflexivity. Qed.
Lemma val_tok t : aval_tok_okb t = true -> val_tok_facts t = true.
Proof.
  intros H. assert (Ht : t < 256) by (unfold aval_tok_okb in H; lia).
  pose proof (sweep1 _ 256 val_tok_sweep t Ht) as S. cbn beta in S. rewrite H in S. exact S.
Qed.

Definition start_tok_facts (t : N) : bool :=
  negb (is_ext_token t) && negb (t =? 0) && negb (t =? 1) && negb (t =? 2) && negb (t =? 3) && negb (t =? 4)
  && negb (t =? 131) && negb (t =? 195) && negb (N.land t 128 =? 128) && negb (iav1 t) && negb (iav0 t).
Lemma start_tok_sweep : forallb (fun t => implb (astart_tok_okb t) (start_tok_facts t)) (N_range 256) = true.
Proof. vm_compute. reflexivity. Qed.
Lemma start_tok t : astart_tok_okb t = true -> start_tok_facts t = true.
Proof.
  intros H. assert (Ht : t < 256) by (unfold astart_tok_okb in H; lia).
  pose proof (sweep1 _ 256 start_tok_sweep t Ht) as S. cbn beta in S. rewrite H in S. exact S.
Qed.

Ltac split_facts H :=
  repeat match type of H with
         | (_ && _) = true => let H1 := fresh "F" in let H2 := fresh "F" in
                              apply andb_prop in H; destruct H as [H1 H2]; split_facts H1; split_facts H2
         | negb _ = true => apply negb_true_iff in H
         end.

Ltac andb_all H :=
  repeat match type of H with
         | (_ && _) = true => let H2 := fresh in apply andb_prop in H; destruct H as [H H2]; revert H2
         end.

Lemma val_tok_props t : aval_tok_okb t = true ->
  is_ext_token t = false /\ (t =? 0) = false /\ (t =? 1) = false /\ (t =? 2) = false /\ (t =? 3) = false /\
  (t =? 4) = false /\ (t =? 131) = false /\ (t =? 195) = false /\ (N.land t 128 =? 128) = true /\
  iav1 t = true /\ iav0 t = true.
Proof.
  intros H. pose proof (val_tok t H) as F. unfold val_tok_facts in F.
  rewrite !andb_true_iff, !negb_true_iff in F. tauto.
Qed.

Lemma start_tok_props t : astart_tok_okb t = true ->
  is_ext_token t = false /\ (t =? 0) = false /\ (t =? 1) = false /\ (t =? 2) = false /\ (t =? 3) = false /\
  (t =? 4) = false /\ (t =? 131) = false /\ (t =? 195) = false /\ (N.land t 128 =? 128) = false /\
  iav1 t = false /\ iav0 t = false.
Proof.
  intros H. pose proof (start_tok t H) as F. unfold start_tok_facts in F.
  rewrite !andb_true_iff, !negb_true_iff in F. tauto.
Qed.

(* ---- table lookups ---- *)

Lemma find_val_eq t page tok :
  find_val t page tok = find (fun r => (v_page r =? page) && (v_tok r =? tok)) t.
Proof.
  induction t as [|r t IH]; cbn [find_val find]; [reflexivity|].
  rewrite (andb_comm (v_tok r =? tok)). destruct ((v_page r =? page) && (v_tok r =? tok)); [reflexivity|exact IH].
Qed.
Lemma find_attr_eq t page tok :
  find_attr t page tok = find (fun r => (a_page r =? page) && (a_tok r =? tok)) t.
Proof.
  induction t as [|r t IH]; cbn [find_attr find]; [reflexivity|].
  rewrite (andb_comm (a_tok r =? tok)). destruct ((a_page r =? page) && (a_tok r =? tok)); [reflexivity|exact IH].
Qed.
Lemma find_tag_eq t page tok :
  find_tag t page tok = find (fun r => (t_page r =? page) && (t_tok r =? tok)) t.
Proof.
  induction t as [|r t IH]; cbn [find_tag find]; [reflexivity|].
  rewrite (andb_comm (t_tok r =? tok)). destruct ((t_page r =? page) && (t_tok r =? tok)); [reflexivity|exact IH].
Qed.

Lemma until_nul_free l : Forall (fun b => b <> 0) (until_nul l).
Proof.
  induction l as [|b l IH]; cbn [until_nul]; [constructor|].
  destruct (b =? 0) eqn:E; [constructor|]. constructor; [lia|exact IH].
Qed.

Lemma str_at_cstr tb i s : str_at tb i = Some s -> cstr s = s.
Proof.
  unfold str_at. destruct (i <? blen tb); [|discriminate]. intros H. injection H as <-.
  apply cstr_nonzero. apply until_nul_free.
Qed.

Lemma nul_free_cstr v : nul_free v = true -> cstr v = v.
Proof.
  intros H. apply cstr_nonzero. apply Forall_forall. intros x Hx.
  unfold nul_free in H. rewrite forallb_forall in H. specialize (H x Hx). lia.
Qed.

Ltac ev' := cbn [is_token is_string is_extension is_literal nth_error N.eqb Pos.eqb orb andb negb
                 tl app s_rest s_cur s_tagcp s_attrcp pst parse_uint8 hd opt_switch_page parse_switch_page set_rest
                 e_lang e_charset e_strtbl e_strtbl_len penv_of apply_sw ds_attrcp ds_tagcp ds_cur].

Section Attr.
Variables (l : lang) (tb : bytes) (ver cs : N).
Hypothesis Hcs : cs_ok cs.
Hypothesis Hdt : typed_datetime_agree.
Let env := penv_of l tb ver cs.
Let denv := mk_denv l tb.

(* ---- one attribute value ---- *)

Lemma attrval_str_ok s dst o dst' r :
  den_str denv AttrSpace None s dst = Some (o, dst') ->
  exists ro, parse_attr_value env (pst dst (ser_str s ++ r)) = POk (ro, pst dst' r) /\ opt_bytes ro = o.
Proof.
  unfold env in *. intros H. destruct s as [s|i|c|d|sw x]; cbn [den_str] in H.
  - destruct (str_okb s) eqn:Es; [|discriminate]. injection H as <- <-.
    destruct (str_okb_split s Es) as [_ Hn].
    unfold parse_attr_value. cbn [ser_str]. ev. rewrite <- app_assoc. ev.
    rewrite (parse_string_I l tb ver cs Hcs s r Hn). eexists. split; reflexivity.
  - destruct (u32_okb i) eqn:Ei; [|discriminate].
    destruct (str_at (de_strtbl denv) i) as [s|] eqn:Es; [|discriminate]. injection H as <- <-.
    unfold parse_attr_value. cbn [ser_str]. ev.
    rewrite (parse_string_T l tb ver cs Hcs i s r Ei Es). eexists. split; reflexivity.
  - destruct (is_scalar c && negb (c =? 0)) eqn:E; [|discriminate]. apply andb_prop in E. destruct E as [Hs Hc].
    injection H as <- <-.
    unfold parse_attr_value. cbn [ser_str]. ev.
    rewrite (parse_entity_ok c r Hs) by lia. eexists. split; reflexivity.
  - destruct (bytes_okb d && u32_okb (blen d)) eqn:E; [|discriminate]. apply andb_prop in E. destruct E as [Hb Hu].
    cbn [de_lang denv] in H.
    unfold parse_attr_value. cbn [ser_str]. ev. rewrite <- app_assoc.
    rewrite (parse_opaque_ok d r Hu). unfold decode_opaque_attr_value. cbn [e_lang env penv_of].
    destruct (l_id l =? 1901).
    + destruct (spec_base64 d) as [o'|] eqn:Eo; [|discriminate]. injection H as <- <-.
      rewrite (base64_ok d o' Hb Eo). eexists. split; reflexivity.
    + injection H as <- <-. eexists. split; reflexivity.
  - destruct (sw_okb sw) eqn:Esw; [|discriminate].
    destruct (den_ext denv x) as [o'|] eqn:Ex; [|discriminate]. injection H as <- <-.
    destruct (parse_extension_ok l tb ver cs Hcs AttrSpace sw x o' dst r Esw Ex) as [ro [Hp Ho]].
    unfold parse_attr_value. cbn [ser_str pst s_rest]. rewrite <- app_assoc.
    assert (Hext : is_extension (ser_sw sw ++ ser_ext x ++ r) = true).
    { unfold den_ext in Ex. cbn [de_lang denv] in Ex.
      assert (Hk : exists t r', ser_ext x ++ r = t :: r' /\ is_ext_token t = true).
      { destruct x as [k s|k v|k]; cbn [ser_ext app];
          destruct (is_wml_family (l_id l)); destruct (is_wv_family (l_id l)); try discriminate;
          try (destruct ((k <? 3) && str_okb s) eqn:E; [|discriminate]; apply andb_prop in E; destruct E as [Ek _]);
          try (destruct ((k <? 3) && u32_okb v) eqn:E; [|discriminate]; apply andb_prop in E; destruct E as [Ek _]);
          try (destruct (k <? 3) eqn:Ek; [|discriminate]);
          try (destruct (k_lt3 k Ek) as [-> | [-> | ->]]; eexists; eexists; split; reflexivity);
          try (destruct k; [|discriminate]; eexists; eexists; split; reflexivity). }
      destruct Hk as [t [r' [E Ht]]]. rewrite E.
      destruct sw as [p|]; cbn [ser_sw app]; unfold is_extension; cbn [is_token nth_error].
      - cbn. exact Ht.
      - destruct (t =? 0) eqn:E0; [apply N.eqb_eq in E0; subst t; discriminate|]. cbn. exact Ht. }
    rewrite Hext. rewrite Hp. exists ro. split; [reflexivity|exact Ho].
Qed.

Lemma l_vals_some page t row : lookup_val l page t = Some row ->
  exists tbl, l_vals l = Some tbl /\ find_val tbl page t = Some row.
Proof.
  unfold lookup_val. destruct (l_vals l) as [tbl|]; cbn [opt_list]; [|discriminate].
  intros H. exists tbl. split; [reflexivity|]. rewrite find_val_eq. exact H.
Qed.

Lemma attrval_ok v dst o dst' r :
  den_val denv v dst = Some (o, dst') ->
  exists ro, parse_attr_value env (pst dst (ser_val v ++ r)) = POk (ro, pst dst' r) /\ opt_bytes ro = o.
Proof.
  unfold env in *. intros H. destruct v as [sw t|s]; cbn [den_val] in H.
  - destruct (sw_okb sw && aval_tok_okb t) eqn:E; [|discriminate]. apply andb_prop in E. destruct E as [Hsw Ht].
    cbn [de_lang denv] in H.
    destruct (lookup_val l (ds_attrcp (apply_sw AttrSpace sw dst)) t) as [row|] eqn:El; [|discriminate].
    injection H as <- <-.
    destruct (l_vals_some _ _ _ El) as [tbl [Etbl Ef]].
    destruct (val_tok_props t Ht) as (Fx & F0 & F1 & F2 & F3 & F4 & F131 & F195 & F128 & Fi1 & Fi0).
    unfold parse_attr_value. cbn [ser_val]. rewrite <- app_assoc. cbn [app].
    destruct sw as [p|]; cbn [ser_sw app pst s_rest].
    + unfold is_extension, is_string, opt_switch_page, parse_switch_page.
      do 3 (ev'; rewrite ?F0, ?Fx, ?F1, ?F2, ?F3, ?F4, ?F131, ?F195, ?F128). ev'. rewrite Etbl.
      cbn [apply_sw ds_attrcp] in Ef. rewrite Ef. eexists. split; reflexivity.
    + unfold is_extension, is_string, opt_switch_page, parse_switch_page.
      do 3 (ev'; rewrite ?F0, ?Fx, ?F1, ?F2, ?F3, ?F4, ?F131, ?F195, ?F128). ev'. rewrite Etbl.
      cbn [apply_sw ds_attrcp] in Ef. rewrite Ef. eexists. split; reflexivity.
  - apply attrval_str_ok. exact H.
Qed.

(* the first byte of a serialized value: it is recognised as a value, and it is not END *)
Lemma ser_val_head v dst o dst' x : den_val denv v dst = Some (o, dst') ->
  is_attr_value (ser_val v ++ x) = true /\ is_token (ser_val v ++ x) 1 = false /\ (1 <= length (ser_val v))%nat.
Proof.
  unfold env in *. intros H. destruct v as [sw t|s]; cbn [den_val] in H.
  - destruct (sw_okb sw && aval_tok_okb t) eqn:E; [|discriminate]. apply andb_prop in E. destruct E as [Hsw Ht].
    destruct (val_tok_props t Ht) as (Fx & F0 & F1 & F2 & F3 & F4 & F131 & F195 & F128 & Fi1 & Fi0).
    cbn [ser_val]. rewrite <- app_assoc. destruct sw as [p|]; cbn [ser_sw app].
    + rewrite is_attr_value_sw. cbn [is_token N.eqb length]. repeat split; [assumption|lia].
    + rewrite (is_attr_value_nz t x F0). cbn [is_token length]. rewrite F1. repeat split; [assumption|lia].
  - destruct s as [s|i|c|d|sw x0]; cbn [ser_val ser_str app].
    + rewrite is_attr_value_nz by reflexivity. cbn. repeat split; lia.
    + rewrite is_attr_value_nz by reflexivity. cbn. repeat split; lia.
    + rewrite is_attr_value_nz by reflexivity. cbn. repeat split; lia.
    + rewrite is_attr_value_nz by reflexivity. cbn. repeat split; lia.
    + cbn [den_val den_str] in H. destruct (sw_okb sw); [|discriminate].
      destruct (den_ext denv x0) as [o'|] eqn:Ex; [|discriminate].
      assert (Hk : exists t r', ser_ext x0 ++ x = t :: r' /\ is_ext_token t = true /\ (1 <= length (ser_ext x0))%nat).
      { unfold den_ext in Ex. cbn [de_lang denv] in Ex.
        destruct x0 as [k s|k v|k]; cbn [ser_ext app length];
          destruct (is_wml_family (l_id l)); destruct (is_wv_family (l_id l)); try discriminate;
          try (destruct ((k <? 3) && str_okb s) eqn:E; [|discriminate]; apply andb_prop in E; destruct E as [Ek _]);
          try (destruct ((k <? 3) && u32_okb v) eqn:E; [|discriminate]; apply andb_prop in E; destruct E as [Ek _]);
          try (destruct (k <? 3) eqn:Ek; [|discriminate]);
          try (destruct (k_lt3 k Ek) as [-> | [-> | ->]]; eexists; eexists; repeat split; try reflexivity; lia);
          try (destruct k; [|discriminate]; eexists; eexists; repeat split; try reflexivity; lia). }
      destruct Hk as [t [r' [E [Ht Hl]]]]. rewrite <- app_assoc. rewrite E.
      destruct sw as [p|]; cbn [ser_sw app].
      * rewrite is_attr_value_sw. unfold iav0. rewrite Ht, orb_true_r. cbn [is_token N.eqb].
        repeat split. cbn [length]. lia.
      * assert (E0 : (t =? 0) = false) by (destruct (t =? 0) eqn:E0; [apply N.eqb_eq in E0; subst t; discriminate|reflexivity]).
        assert (E1 : (t =? 1) = false) by (destruct (t =? 1) eqn:E1; [apply N.eqb_eq in E1; subst t; discriminate|reflexivity]).
        rewrite (is_attr_value_nz t r' E0). unfold iav1. rewrite Ht. cbn [is_token]. rewrite E1.
        repeat split; [rewrite !orb_true_r; try reflexivity; destruct (N.land t 128 =? 128); reflexivity | cbn [app]; exact Hl].
Qed.

(* ---- value lists ---- *)

Lemma vals_loop_ok vs : forall dst o dst' fuel acc r,
  den_vals denv vs dst = Some (o, dst') -> is_attr_value r = false ->
  (length (flat_map ser_val vs) < fuel)%nat ->
  attr_values_loop fuel env (pst dst (flat_map ser_val vs ++ r)) acc = POk (acc ++ o, pst dst' r).
Proof.
  unfold env. induction vs as [|v vs IH]; intros dst o dst' fuel acc r H Hr Hf.
  - cbn [den_vals] in H. injection H as <- <-. destruct fuel as [|f]; [cbn in Hf; lia|].
    cbn [flat_map app attr_values_loop pst s_rest]. rewrite Hr. rewrite app_nil_r. reflexivity.
  - cbn [den_vals] in H. destruct (den_val denv v dst) as [[b st1]|] eqn:Ev; [|discriminate].
    destruct (den_vals denv vs st1) as [[b' st2]|] eqn:Evs; [|discriminate]. injection H as <- <-.
    destruct fuel as [|f]; [cbn in Hf; lia|].
    cbn [flat_map] in *. rewrite <- app_assoc. rewrite app_length in Hf.
    destruct (ser_val_head v dst b st1 (flat_map ser_val vs ++ r) Ev) as (Hav & _ & Hl).
    cbn [attr_values_loop pst s_rest]. rewrite Hav.
    destruct (attrval_ok v dst b st1 (flat_map ser_val vs ++ r) Ev) as [ro [Hp Ho]].
    unfold env in Hp. rewrite Hp. rewrite app_opt_bytes, Ho.
    rewrite (IH st1 b' st2 f (acc ++ b) r Evs Hr) by lia. rewrite app_assoc. reflexivity.
Qed.

Lemma pi_vals_loop_ok vs : forall dst o dst' fuel acc r,
  den_vals denv vs dst = Some (o, dst') ->
  (length (flat_map ser_val vs) < fuel)%nat ->
  pi_values_loop fuel env (pst dst (flat_map ser_val vs ++ 1 :: r)) acc = POk (acc ++ o, pst dst' (1 :: r)).
Proof.
  unfold env. induction vs as [|v vs IH]; intros dst o dst' fuel acc r H Hf.
  - cbn [den_vals] in H. injection H as <- <-. destruct fuel as [|f]; [cbn in Hf; lia|].
    cbn [flat_map app pi_values_loop pst s_rest is_token N.eqb Pos.eqb]. rewrite app_nil_r. reflexivity.
  - cbn [den_vals] in H. destruct (den_val denv v dst) as [[b st1]|] eqn:Ev; [|discriminate].
    destruct (den_vals denv vs st1) as [[b' st2]|] eqn:Evs; [|discriminate]. injection H as <- <-.
    destruct fuel as [|f]; [cbn in Hf; lia|].
    cbn [flat_map] in *. rewrite <- app_assoc. rewrite app_length in Hf.
    destruct (ser_val_head v dst b st1 (flat_map ser_val vs ++ 1 :: r) Ev) as (_ & H1 & Hl).
    cbn [pi_values_loop pst s_rest]. rewrite H1.
    destruct (attrval_ok v dst b st1 (flat_map ser_val vs ++ 1 :: r) Ev) as [ro [Hp Ho]].
    unfold env in Hp. rewrite Hp. rewrite app_opt_bytes, Ho.
    rewrite (IH st1 b' st2 f (acc ++ b) r Evs) by lia. rewrite app_assoc. reflexivity.
Qed.

(* ---- attribute start ---- *)

Lemma l_attrs_some page t row : lookup_attr l page t = Some row ->
  exists tbl, l_attrs l = Some tbl /\ find_attr tbl page t = Some row.
Proof.
  unfold lookup_attr. destruct (l_attrs l) as [tbl|]; cbn [opt_list]; [|discriminate].
  intros H. exists tbl. split; [reflexivity|]. rewrite find_attr_eq. exact H.
Qed.

Lemma astart_ok a dst name prefix dst1 r :
  den_astart denv a dst = Some (name, prefix, dst1) ->
  exists start, parse_attr_start env (pst dst (ser_astart a ++ r)) = POk (name, start, pst dst1 r)
                /\ opt_bytes start = prefix.
Proof.
  unfold env. intros H. destruct a as [sw t|i]; cbn [den_astart] in H.
  - destruct (sw_okb sw && astart_tok_okb t) eqn:E; [|discriminate]. apply andb_prop in E. destruct E as [Hsw Ht].
    cbn [de_lang denv] in H.
    destruct (lookup_attr l (ds_attrcp (apply_sw AttrSpace sw dst)) t) as [row|] eqn:El; [|discriminate].
    injection H as <- <- <-.
    destruct (l_attrs_some _ _ _ El) as [tbl [Etbl Ef]].
    destruct (start_tok_props t Ht) as (Fx & F0 & F1 & F2 & F3 & F4 & F131 & F195 & F128 & Fi1 & Fi0).
    unfold parse_attr_start. cbn [ser_astart]. rewrite <- app_assoc. cbn [app].
    destruct sw as [p|]; cbn [ser_sw app pst s_rest].
    + unfold opt_switch_page, parse_switch_page.
      do 3 (ev'; rewrite ?F0, ?Fx, ?F1, ?F2, ?F3, ?F4, ?F131, ?F195, ?F128). ev'. rewrite Etbl.
      cbn [apply_sw ds_attrcp] in Ef. rewrite Ef.
      exists (match a_value row with Some v => Some (B v) | None => None end).
      split; [reflexivity|]. destruct (a_value row); reflexivity.
    + unfold opt_switch_page, parse_switch_page.
      do 3 (ev'; rewrite ?F0, ?Fx, ?F1, ?F2, ?F3, ?F4, ?F131, ?F195, ?F128). ev'. rewrite Etbl.
      cbn [apply_sw ds_attrcp] in Ef. rewrite Ef.
      exists (match a_value row with Some v => Some (B v) | None => None end).
      split; [reflexivity|]. destruct (a_value row); reflexivity.
  - destruct (u32_okb i) eqn:Ei; [|discriminate].
    destruct (str_at (de_strtbl denv) i) as [s|] eqn:Es; [|discriminate]. injection H as <- <- <-.
    unfold parse_attr_start, parse_literal. cbn [ser_astart]. ev'.
    rewrite parse_mb_ok by (apply u32_okb_lt; exact Ei).
    rewrite (strtbl_ref_ok l tb ver cs i s Hcs Es). ev'.
    rewrite (str_at_cstr tb i s Es). exists None. split; reflexivity.
Qed.

Lemma ser_astart_head' a dst name prefix dst1 x :
  den_astart denv a dst = Some (name, prefix, dst1) ->
  is_attr_value (ser_astart a ++ x) = false /\ is_token (ser_astart a ++ x) 1 = false
  /\ (1 <= length (ser_astart a))%nat.
Proof.
  intros H. destruct a as [sw t|i]; cbn [den_astart] in H.
  - destruct (sw_okb sw && astart_tok_okb t) eqn:E; [|discriminate]. apply andb_prop in E. destruct E as [Hsw Ht].
    destruct (start_tok_props t Ht) as (Fx & F0 & F1 & F2 & F3 & F4 & F131 & F195 & F128 & Fi1 & Fi0).
    cbn [ser_astart]. rewrite <- app_assoc. destruct sw as [p|]; cbn [ser_sw app].
    + rewrite is_attr_value_sw. cbn [is_token N.eqb length]. repeat split; [assumption|lia].
    + rewrite (is_attr_value_nz t x F0). cbn [is_token length]. rewrite F1. repeat split; [assumption|lia].
  - cbn [ser_astart app]. rewrite is_attr_value_nz by reflexivity. cbn. repeat split; lia.
Qed.

(* ---- one attribute ---- *)

Lemma attr_raw_split a dst name v dst' :
  den_attr_raw denv a dst = Some (name, v, dst') ->
  exists prefix st1 vs, den_astart denv (wa_start a) dst = Some (name, prefix, st1)
                        /\ den_vals denv (wa_vals a) st1 = Some (vs, dst') /\ v = prefix ++ vs.
Proof.
  unfold den_attr_raw. intros H.
  destruct (den_astart denv (wa_start a) dst) as [[[n p] st1]|] eqn:E1; [|discriminate].
  destruct (den_vals denv (wa_vals a) st1) as [[vs st2]|] eqn:E2; [|discriminate].
  injection H as <- <- <-. exists p, st1, vs. repeat split; [exact E2].
Qed.

Lemma attr_ok a dst name v dst' fuel r :
  den_attr denv a dst = Some (name, v, dst') -> is_attr_value r = false ->
  (length (ser_attr a) <= fuel)%nat ->
  parse_attribute fuel env (pst dst (ser_attr a ++ r)) = POk (name, v, pst dst' r).
Proof.
  unfold env. intros H Hr Hf. unfold den_attr in H.
  destruct (den_attr_raw denv a dst) as [[[n v0] st']|] eqn:Er; [|discriminate].
  destruct (attr_raw_split a dst n v0 st' Er) as (prefix & st1 & vs & Hs & Hv & ->).
  unfold parse_attribute, ser_attr. rewrite <- app_assoc.
  destruct (astart_ok (wa_start a) dst n prefix st1 (flat_map ser_val (wa_vals a) ++ r) Hs) as [start [Hp Ho]].
  unfold env in Hp. rewrite Hp.
  destruct (ser_astart_head' (wa_start a) dst n prefix st1 [] Hs) as (_ & _ & Hl).
  unfold ser_attr in Hf. rewrite app_length in Hf.
  pose proof (vals_loop_ok (wa_vals a) st1 vs st' fuel (opt_bytes start) r Hv Hr) as Hloop.
  unfold env in Hloop. rewrite Hloop by lia. rewrite Ho.
  unfold attr_typed. cbn [e_lang penv_of de_lang denv] in *.
  destruct n as [p t nm|nm].
  - destruct (prefix ++ vs) as [|b0 v1] eqn:Epv.
    + injection H as <- <- <-. reflexivity.
    + unfold is_datetime_attr in H.
      destruct ((l_id l =? 1301) && (p =? 0) && ((t =? 10) || (t =? 16))) eqn:E1.
      * cbn [orb] in H. destruct (spec_datetime (b0 :: v1)) as [v'|] eqn:Ed; [|discriminate].
        injection H as <- <- <-. rewrite (Hdt _ _ Ed). reflexivity.
      * cbn [orb] in H. destruct ((l_id l =? 1701) && (p =? 0) && (t =? 5)) eqn:E2.
        -- destruct (spec_datetime (b0 :: v1)) as [v'|] eqn:Ed; [|discriminate].
           injection H as <- <- <-. rewrite (Hdt _ _ Ed). reflexivity.
        -- injection H as <- <- <-. reflexivity.
  - destruct (prefix ++ vs); injection H as <- <- <-; reflexivity.
Qed.

Lemma ser_attr_head a dst name v dst' x :
  den_attr denv a dst = Some (name, v, dst') ->
  is_attr_value (ser_attr a ++ x) = false /\ is_token (ser_attr a ++ x) 1 = false
  /\ (1 <= length (ser_attr a))%nat.
Proof.
  intros H. unfold den_attr in H.
  destruct (den_attr_raw denv a dst) as [[[n v0] st']|] eqn:Er; [|discriminate].
  destruct (attr_raw_split a dst n v0 st' Er) as (prefix & st1 & vs & Hs & Hv & ->).
  unfold ser_attr. rewrite <- app_assoc.
  destruct (ser_astart_head' (wa_start a) dst n prefix st1 (flat_map ser_val (wa_vals a) ++ x) Hs) as (A & B0 & C).
  repeat split; try assumption. rewrite app_length. lia.
Qed.

(* ---- 1*attribute END ---- *)

Lemma attrs_loop_ok al : forall dst res dst' fuel acc r,
  den_attrs denv al dst = Some (res, dst') -> al <> [] ->
  (length (flat_map ser_attr al) < fuel)%nat ->
  attrs_loop fuel env (pst dst (flat_map ser_attr al ++ 1 :: r)) acc = POk (acc ++ res, pst dst' r).
Proof.
  unfold env. induction al as [|a al IH]; intros dst res dst' fuel acc r H Hne Hf; [congruence|].
  cbn [den_attrs] in H. destruct (den_attr denv a dst) as [[[n v] st1]|] eqn:Ea; [|discriminate].
  destruct (den_attrs denv al st1) as [[res' st2]|] eqn:Eal; [|discriminate]. injection H as <- <-.
  destruct fuel as [|f]; [cbn in Hf; lia|].
  cbn [flat_map] in *. rewrite <- app_assoc. rewrite app_length in Hf.
  destruct (ser_attr_head a dst n v st1 [] Ea) as (_ & _ & Hl).
  cbn [attrs_loop].
  destruct al as [|a2 al'].
  - cbn [den_attrs] in Eal. injection Eal as <- <-. cbn [flat_map app].
    pose proof (attr_ok a dst n v st1 f (1 :: r) Ea) as Hp. unfold env in Hp.
    rewrite Hp; [|rewrite is_attr_value_nz by reflexivity; reflexivity|cbn [flat_map length] in Hf; lia].
    cbn [pst s_rest is_token N.eqb Pos.eqb tl set_rest]. reflexivity.
  - cbn [den_attrs] in Eal.
    destruct (den_attr denv a2 st1) as [[[n2 v2] st1']|] eqn:Ea2; [|discriminate].
    destruct (ser_attr_head a2 st1 n2 v2 st1' (flat_map ser_attr al' ++ 1 :: r) Ea2) as (Hav & H1 & _).
    assert (Eal' : den_attrs denv (a2 :: al') st1 = Some (res', st2)).
    { cbn [den_attrs]. rewrite Ea2. exact Eal. }
    pose proof (attr_ok a dst n v st1 f (flat_map ser_attr (a2 :: al') ++ 1 :: r) Ea) as Hp. unfold env in Hp.
    assert (Hav' : is_attr_value (flat_map ser_attr (a2 :: al') ++ 1 :: r) = false)
      by (cbn [flat_map]; rewrite <- app_assoc; exact Hav).
    assert (H1' : is_token (flat_map ser_attr (a2 :: al') ++ 1 :: r) 1 = false)
      by (cbn [flat_map]; rewrite <- app_assoc; exact H1).
    rewrite Hp; [|exact Hav'|lia].
    cbn [pst s_rest]. rewrite H1'.
    pose proof (IH st1 res' st2 f (acc ++ [(n, v)]) r Eal') as Hi.
    rewrite Hi; [|discriminate|lia].
    rewrite <- app_assoc. reflexivity.
Qed.

(* ---- processing instruction ---- *)

Lemma pi_ok p dst evs dst' fuel r :
  den_pi denv p dst = Some (evs, dst') -> (length (ser_attr p) <= fuel)%nat ->
  parse_pi fuel env (pst dst (ser_pi p ++ r)) = POk (evs, pst dst' r).
Proof.
  unfold env. intros H Hf. unfold den_pi in H.
  destruct (den_attr_raw denv p dst) as [[[n v0] st']|] eqn:Er; [|discriminate].
  destruct (nul_free v0) eqn:En; [|discriminate]. injection H as <- <-.
  destruct (attr_raw_split p dst n v0 st' Er) as (prefix & st1 & vs & Hs & Hv & ->).
  unfold parse_pi, ser_pi, ser_attr. cbn [app pst s_rest tl set_rest]. rewrite <- !app_assoc.
  destruct (astart_ok (wa_start p) dst n prefix st1 (flat_map ser_val (wa_vals p) ++ [1] ++ r) Hs) as [start [Hp Ho]].
  unfold env in Hp. change (mk_pstate ?a ?b ?c ?d) with (mk_pstate a b c d). 
  change (set_rest (pst dst (67 :: ser_astart (wa_start p) ++ flat_map ser_val (wa_vals p) ++ [1] ++ r))
                   (ser_astart (wa_start p) ++ flat_map ser_val (wa_vals p) ++ [1] ++ r))
    with (pst dst (ser_astart (wa_start p) ++ flat_map ser_val (wa_vals p) ++ [1] ++ r)).
  rewrite Hp.
  destruct (ser_astart_head' (wa_start p) dst n prefix st1 [] Hs) as (_ & _ & Hl).
  unfold ser_attr in Hf. rewrite app_length in Hf.
  pose proof (pi_vals_loop_ok (wa_vals p) st1 vs st' fuel (opt_bytes start) r Hv) as Hloop.
  unfold env in Hloop. cbn [app]. rewrite Hloop by lia. rewrite Ho.
  cbn [pst s_rest tl set_rest]. rewrite (nul_free_cstr _ En). reflexivity.
Qed.

End Attr.
