(* C07 (XML half) — compact and canonical generation are read back as the SAME document, for every node kind of
   the main theorem (elements, text, base64 content, CDATA nodes, embedded documents). *)
From Coq Require Import List NArith Arith Lia Bool.
From Wbxml Require Import Model.Codec Model.EncXml Model.XmlRead Proofs.EncXmlProofs Proofs.EncXmlIndent.
Import ListNotations.
Local Open Scope N_scope.

Lemma text_item_keep l o1 o2 parent s c :
  same_reading o1 o2 -> text_item l o1 parent s c = text_item l o2 parent s c.
Proof.
  intros (A & B & C & D). unfold text_item, text_policy. rewrite A, B, C, D. cbn [andb].
  destruct (negb (e_in_cdata s) && negb (tag_is_binary (text_tag s parent)) && negb (is_canonical o1)),
           (negb (e_in_cdata s) && negb (tag_is_binary (text_tag s parent)) && negb (is_canonical o2)); reflexivity.
Qed.

Lemma noindent_pieces o ch nm s s4 : is_indent o = false ->
  w0 o s = [] /\ w1 o ch = [] /\ w2 o ch s4 = [] /\ nl_if o = [] /\
  s_in o ch nm s = set_cur (cur_of nm) s /\ s_out o ch s4 = mk_est (e_indent s4) false (e_in_cdata s4) (e_cur_tag s4).
Proof. intros H. unfold w0, w1, w2, nl_if, s_in, s_out, ind_after, hc. rewrite H. cbn [andb]. repeat split; reflexivity. Qed.

(* no TAB, LF or CR in attribute values (non-canonical generation leaves them to XML's attribute-value
   normalisation), also inside embedded documents *)
Fixpoint plain_attrs_g (n : node) : bool :=
  match n with
  | Elt _ attrs ch =>
    forallb (fun a => no_byte 9 (attr_value_bytes a) && no_byte 10 (attr_value_bytes a) && no_byte 13 (attr_value_bytes a)) attrs
    && forallb plain_attrs_g ch
  | SubTree _ roots => forallb plain_attrs_g roots
  | _ => true
  end.

Lemma info_list_g_ext (f g : est -> node -> option (list xitem * est)) ch :
  Forall (fun n => forall s, f s n = g s n) ch -> forall s, info_list_g f ch s = info_list_g g ch s.
Proof.
  induction 1 as [|x r Hx _ IH]; intros s; [reflexivity|]. cbn [info_list_g]. rewrite Hx.
  destruct (g s x) as [[a s1]|]; [|reflexivity].
  fold (info_list_g f). fold (info_list_g g). now rewrite IH.
Qed.

Lemma c07_xml_info_g_indep : forall n l o1 o2 parent s,
  is_indent o1 = false -> is_indent o2 = false -> same_reading o1 o2 -> plain_attrs_g n = true ->
  info_g l o1 parent s n = info_g l o2 parent s n.
Proof.
  induction n as [nm attrs ch IHch|t|ch _| |sl roots IHr] using node_ind2; intros l o1 o2 parent s H1 H2 HS HP; try reflexivity.
  - cbn [plain_attrs_g] in HP. apply andb_true_iff in HP as [HA HC]. cbn [info_g].
    rewrite (c07_xml_info_attrs_indep l o1 o2 parent nm attrs HA).
    destruct ch as [|c0 ch0].
    + destruct (noindent_pieces o1 [] nm s s H1) as (A1 & _ & _ & A4 & _), (noindent_pieces o2 [] nm s s H2) as (B1 & _ & _ & B4 & _).
      now rewrite A1, A4, B1, B4.
    + assert (E : forall s0, info_list_g (info_g l o1 (pinfo_below parent nm)) (c0 :: ch0) s0 =
                             info_list_g (info_g l o2 (pinfo_below parent nm)) (c0 :: ch0) s0).
      { apply info_list_g_ext. rewrite forallb_forall in HC. rewrite Forall_forall in IHch |- *.
        intros x Hx s0. apply (IHch x Hx); auto. }
      destruct (noindent_pieces o1 (c0 :: ch0) nm s s H1) as (A1 & A2 & _ & A4 & A5 & _),
               (noindent_pieces o2 (c0 :: ch0) nm s s H2) as (B1 & B2 & _ & B4 & B5 & _).
      rewrite A5, B5, E.
      destruct (info_list_g (info_g l o2 (pinfo_below parent nm)) (c0 :: ch0) (set_cur (cur_of nm) s)) as [[its s4]|]; [|reflexivity].
      destruct (noindent_pieces o1 (c0 :: ch0) nm s s4 H1) as (_ & _ & A3 & _ & _ & A6),
               (noindent_pieces o2 (c0 :: ch0) nm s s4 H2) as (_ & _ & B3 & _ & _ & B6).
      now rewrite A1, A2, A3, A4, A6, B1, B2, B3, B4, B6.
  - cbn [info_g]. now apply text_item_keep.
  - cbn [info_g]. destruct sl as [l'|]; [|reflexivity]. cbn [plain_attrs_g] in HP.
    assert (E : forall s0, info_list_g (info_g l' o1 proot) roots s0 = info_list_g (info_g l' o2 proot) roots s0).
    { apply info_list_g_ext. rewrite forallb_forall in HP. rewrite Forall_forall in IHr |- *.
      intros x Hx s0. apply (IHr x Hx); auto. }
    now rewrite E.
Qed.

(* compact and canonical generation of one tree (white space kept; no TAB, LF, CR in attribute values) are read back
   as the SAME document — every node kind of the main theorem *)
Theorem c07_xml_compact_canonical_g l i1 i2 nm attrs ch out1 out2 :
  lang_ok l = true -> plain_attrs_g (Elt nm attrs ch) = true ->
  node_ok_g l (opts_of_params Compact i1 true) proot None (Elt nm attrs ch) = true ->
  node_ok_g l (opts_of_params Canonical i2 true) proot None (Elt nm attrs ch) = true ->
  enc_xml l Compact i1 true [Elt nm attrs ch] = XOk out1 ->
  enc_xml l Canonical i2 true [Elt nm attrs ch] = XOk out2 ->
  forall fuel, (node_fuel (Elt nm attrs ch) + 2 <= fuel)%nat ->
    exists d, read_xml fuel out1 = ROk d /\ read_xml fuel out2 = ROk d.
Proof.
  intros HL HP K1 K2 E1 E2 fuel Hf.
  destruct (read_enc_g l _ nm attrs ch out1 HL K1 E1) as (c1 & s1 & I1 & R1).
  destruct (read_enc_g l _ nm attrs ch out2 HL K2 E2) as (c2 & s2 & I2 & R2).
  rewrite (c07_xml_info_g_indep _ l _ (opts_of_params Canonical i2 true) proot (est0 0)) in I1;
    [|reflexivity|reflexivity|repeat split|exact HP].
  rewrite I2 in I1. injection I1 as EA EC _.
  exists (doc_of l [XE (tname_bytes nm) (spec_attrs l (opts_of_params Canonical i2 true) proot nm attrs) c2]).
  split; [|apply R2; exact Hf]. rewrite (R1 fuel Hf). now rewrite EA, EC.
Qed.
