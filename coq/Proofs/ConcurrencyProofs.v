(* C14 (a) — under the read-only premise every interleaving gives every thread its solo outputs *)
From Coq Require Import List Arith Bool Lia.
From Wbxml Require Import Model.Concurrency.
Import ListNotations.

Section Proofs.
  Variables G L Op Out Loc : Type.
  Variable step : G -> L -> Op -> @effect G L Out Loc.
  Hypothesis RO : readonly G L Op Out Loc step.

  Notation run := (run G L Op Out Loc step).
  Notation solo := (solo G L Op Out Loc step).
  Notation interleaving := (interleaving Op).

  Lemma solo_store : forall ops g l, fst (fst (solo g l ops)) = g.
  Proof.
    induction ops as [|op r IH]; intros g l; cbn [Concurrency.solo]; [reflexivity|].
    destruct (RO g l op) as [Hg _].
    specialize (IH (e_g (step g l op)) (e_l (step g l op))).
    destruct (solo (e_g (step g l op)) (e_l (step g l op)) r) as [[g' l'] outs]. cbn in *. congruence.
  Qed.

  Lemma upd_same : forall A (f : nat -> A) i a, upd f i a i = a.
  Proof. intros. unfold upd. rewrite Nat.eqb_refl. reflexivity. Qed.

  Lemma upd_other : forall A (f : nat -> A) i j a, j <> i -> upd f i a j = f j.
  Proof. intros. unfold upd. destruct (Nat.eqb_spec j i); congruence. Qed.

  (* induction on the schedule *)
  Theorem interleaving_noninterference : forall progs sched, interleaving progs sched ->
    forall g ls,
      let '(g', ls', evs) := run g ls sched in
      g' = g /\
      forall i, let '(_, li, outs) := solo g (ls i) (progs i) in
                outputs_of i evs = outs /\ ls' i = li.
  Proof.
    intros progs sched H. induction H as [progs Hnil | progs i op rest sched Hp Hil IH]; intros g ls.
    - cbn. split; [reflexivity|]. intros i. rewrite Hnil. cbn. auto.
    - cbn [Concurrency.run].
      destruct (RO g (ls i) op) as [Hg Hw].
      specialize (IH (e_g (step g (ls i) op)) (upd ls i (e_l (step g (ls i) op)))).
      destruct (run (e_g (step g (ls i) op)) (upd ls i (e_l (step g (ls i) op))) sched) as [[g' ls'] evs].
      destruct IH as [IHg IHi]. split; [congruence|].
      intros j. specialize (IHi j).
      destruct (Nat.eq_dec j i) as [->|Hne].
      + rewrite !upd_same in IHi. rewrite Hp. cbn [Concurrency.solo].
        rewrite Hg in *.
        destruct (solo g (e_l (step g (ls i) op)) rest) as [[g2 l2] outs].
        destruct IHi as [IHo IHl]. split; [|exact IHl].
        unfold outputs_of. cbn [filter ev_tid]. rewrite Nat.eqb_refl. cbn [map ev_out]. f_equal. exact IHo.
      + rewrite !upd_other in IHi by exact Hne. rewrite Hg in IHi.
        destruct (solo g (ls j) (progs j)) as [[g2 l2] outs].
        destruct IHi as [IHo IHl]. split; [|exact IHl].
        unfold outputs_of. cbn [filter ev_tid].
        destruct (Nat.eqb_spec i j) as [E|_]; [congruence|]. exact IHo.
  Qed.

  Lemma run_no_writes : forall sched g ls e, In e (snd (run g ls sched)) -> ev_writes e = [].
  Proof.
    induction sched as [|[i op] r IH]; intros g ls e H; cbn [Concurrency.run] in H; [contradiction|].
    specialize (IH (e_g (step g (ls i) op)) (upd ls i (e_l (step g (ls i) op))) e).
    destruct (run (e_g (step g (ls i) op)) (upd ls i (e_l (step g (ls i) op))) r) as [[g' ls'] evs].
    cbn [snd] in *. destruct H as [<-|H]; [|auto].
    cbn. apply (proj2 (RO g (ls i) op)).
  Qed.

  (* no step writes the shared store, hence no two steps conflict — for any schedule at all *)
  Theorem no_conflicts : forall sched g ls e1 e2,
    In e1 (snd (run g ls sched)) -> In e2 (snd (run g ls sched)) -> ~ conflict e1 e2.
  Proof.
    intros sched g ls e1 e2 H1 H2 [_ [loc [[W _]|[W _]]]].
    - rewrite (run_no_writes _ _ _ _ H1) in W. contradiction.
    - rewrite (run_no_writes _ _ _ _ H2) in W. contradiction.
  Qed.

  Theorem store_unchanged : forall sched g ls, fst (fst (run g ls sched)) = g.
  Proof.
    induction sched as [|[i op] r IH]; intros g ls; cbn [Concurrency.run]; [reflexivity|].
    specialize (IH (e_g (step g (ls i) op)) (upd ls i (e_l (step g (ls i) op)))).
    destruct (run (e_g (step g (ls i) op)) (upd ls i (e_l (step g (ls i) op))) r) as [[g' ls'] evs].
    cbn in *. rewrite IH. apply (proj1 (RO g (ls i) op)).
  Qed.
End Proofs.

(* without the premise the conclusion fails: one shared cell, a step that adds its operand to the cell and
   returns the sum (a cached/static scratch value) *)
Definition bad_step (g : nat) (l : unit) (op : nat) : @effect nat unit nat unit :=
  mkEff (g + op) tt (g + op) [tt] [tt].

Definition bad_progs : nat -> list nat := fun i => match i with 0 => [1] | 1 => [2] | _ => [] end.

Lemma bad_interleaving : interleaving nat bad_progs [(0, 1); (1, 2)].
Proof.
  eapply il_cons; [reflexivity|]. eapply il_cons; [reflexivity|].
  apply il_nil. intros [|[|i]]; reflexivity.
Qed.

Lemma premise_needed :
  exists sched, interleaving nat bad_progs sched /\
    outputs_of 1 (snd (run nat unit nat nat unit bad_step 0 (fun _ => tt) sched)) <>
    snd (solo nat unit nat nat unit bad_step 0 tt (bad_progs 1)).
Proof.
  exists [(0, 1); (1, 2)]. split; [exact bad_interleaving|]. cbn. discriminate.
Qed.
