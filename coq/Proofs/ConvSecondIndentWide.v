(* C03 (second iteration, INDENTED generation, WIDE fragment, encoder keep_ws off) — attributes, literal tags and
   namespaces: the front-end tree of the indented XML (with the white space between markup as text nodes) is a
   canonical tree of the wide fragment whose normal form is R2, so the second trip reproduces the indented XML.
   Route: the infoset with qualified names (qual: what an XML parser in namespace mode reports) commutes with C07's
   normal form modulo blank text (nb); the predicates on items of Proofs/ConvSecondIndent.v are reused on the
   qualified items. *)
From Coq Require Import String Ascii.
From Coq Require Import List NArith ZArith Lia Bool.
From Wbxml Require Import Model.Codec Model.TablesDefs Model.Tables Model.Parser Model.TreeBuild Model.TreeConv Model.Conv Model.ConvConcrete
     Proofs.TreeBuildProofs Proofs.TreeBuildProofs3 Proofs.TreeRoundTrip Proofs.TreeRoundTripWide Proofs.ConvRoundTrip
     Proofs.ConvRoundTripWide Proofs.ConvWideUnforced Proofs.ConvSecondIter Proofs.ConvSecondNs Proofs.ConvFirstToSecond
     Proofs.ConvSecondIndent Proofs.ConvSecondIterWide Proofs.ConvFirstToSecondWide.
From Wbxml Require Model.EncWbxml Model.TreeNorm Proofs.TreeNormProofs Proofs.EncWbxmlProofs Proofs.EncWbxmlAbs Proofs.EncWbxmlDenote2
     Proofs.EncWbxmlTblOk Proofs.EncWbxmlDenote3.
From Wbxml Require Model.EncXml Model.XmlRead Proofs.EncXmlProofs Proofs.EncXmlIndent.
From Wbxml Require Model.XmlFront Model.XmlFrontEvents Model.ConvXml2Wbxml Proofs.FrontSimple Proofs.XmlFrontInverse.
Import ListNotations.
Local Open Scope N_scope.

(* ---- the infoset as a parser in namespace mode reports it: qualified names, no xmlns attributes ---- *)
Fixpoint qual (cur : option E.bytes) (it : XR.xitem) : XR.xitem :=
  match it with
  | XR.XE name attrs c =>
    let ns := match find is_xmlns attrs with Some kv => Some (snd kv) | None => cur end in
    let qn := match ns with Some v => v ++ [XF.SEP] ++ name | None => name end in
    XR.XE qn (filter (fun kv => negb (is_xmlns kv)) attrs) (map (qual ns) c)
  | XR.XT t => XR.XT t
  end.

Lemma ev_item_qual : forall it cur, ev_item (qual cur it) = ev_item_ns cur it.
Proof.
  fix IH 1. intros it cur. destruct it as [n a c|t]; [|reflexivity]. cbn [qual ev_item ev_item_ns]. f_equal. f_equal.
  generalize (match find is_xmlns a with Some kv => Some (snd kv) | None => cur end) as ns. intros ns.
  induction c as [|x r IHr]; [reflexivity|]. cbn [map flat_map]. rewrite (IH x ns), IHr. reflexivity.
Qed.

Lemma is_xe_qual cur it : XI.is_xe (qual cur it) = XI.is_xe it.
Proof. destruct it; reflexivity. Qed.

Lemma existsb_xe_qual cur l : existsb XI.is_xe (map (qual cur) l) = existsb XI.is_xe l.
Proof. induction l as [|x r IH]; [reflexivity|]. cbn [map existsb]. rewrite is_xe_qual, IH. reflexivity. Qed.

Lemma strip_items_qual cur l : map (qual cur) (XI.strip_items l) = XI.strip_items (map (qual cur) l).
Proof.
  unfold XI.strip_items. induction l as [|x r IH]; [reflexivity|]. cbn [flat_map map]. rewrite map_app, IH. f_equal.
  destruct x as [n a c|t]; [reflexivity|]. cbn [qual]. unfold XI.emit. destruct (XI.xstrip t); reflexivity.
Qed.

Lemma qual_nb : forall it cur, qual cur (XI.nb it) = XI.nb (qual cur it).
Proof.
  fix IH 1. intros it cur. destruct it as [n a c|t]; [|reflexivity].
  rewrite XI.nb_xe. cbn [qual]. rewrite XI.nb_xe. f_equal.
  generalize (match find is_xmlns a with Some kv => Some (snd kv) | None => cur end) as ns. intros ns.
  unfold XI.nb_list. rewrite existsb_xe_qual.
  assert (Hm : map (qual ns) (map XI.nb c) = map XI.nb (map (qual ns) c)).
  { induction c as [|x r IHr]; [reflexivity|]. cbn [map]. rewrite (IH x ns), IHr. reflexivity. }
  destruct (existsb XI.is_xe c); [rewrite strip_items_qual|]; rewrite Hm; reflexivity.
Qed.

(* ---- the tree the front end makes of a qualified item, and its normal form ---- *)
Section ItemsW.
Variable L : lang.

Fixpoint etq (it : XR.xitem) : E.node :=
  match it with
  | XR.XE n a c => E.NElt (fst (XF.resolve_tag L n)) (map (XF.resolve_attr L) a) (map etq c)
  | XR.XT t => E.NText t
  end.

Definition NNq (it : XR.xitem) : list E.node := TN.norm_node false false (etq it).

Lemma NNq_xe n a c : NNq (XR.XE n a c) = [E.NElt (fst (XF.resolve_tag L n)) (map (XF.resolve_attr L) a) (flat_map NNq c)].
Proof. unfold NNq. cbn [etq TN.norm_node]. rewrite flat_map_concat_map, map_map, <- flat_map_concat_map. reflexivity. Qed.

Lemma NNq_strip_items l : flat_map NNq (XI.strip_items l) = flat_map NNq l.
Proof.
  unfold XI.strip_items. induction l as [|x r IH]; [reflexivity|]. cbn [flat_map]. rewrite flat_map_app, IH. f_equal.
  destruct x as [n a c|t]; [cbn [flat_map]; apply app_nil_r|].
  unfold XI.emit. change (NNq (XR.XT t)) with (TN.norm_text false false t). rewrite <- norm_text_xstrip.
  destruct (XI.xstrip t) as [|b0 br]; [reflexivity|]. cbn [flat_map]. rewrite app_nil_r. reflexivity.
Qed.

Lemma NNq_nb : forall it, NNq (XI.nb it) = NNq it.
Proof.
  fix IH 1. intros it. destruct it as [n a ch|t]; [|reflexivity].
  rewrite XI.nb_xe, !NNq_xe. f_equal. f_equal. unfold XI.nb_list.
  assert (Hm : flat_map NNq (map XI.nb ch) = flat_map NNq ch).
  { induction ch as [|x r IHr]; [reflexivity|]. cbn [map flat_map]. rewrite (IH x), IHr. reflexivity. }
  destruct (existsb XI.is_xe ch); [rewrite NNq_strip_items|]; exact Hm.
Qed.
End ItemsW.

(* ---- texts made of octets 1..255, at every level; not disturbed by nb ---- *)
Definition qok (b : E.bytes) : bool := forallb TK.okc b.

Fixpoint Tq (it : XR.xitem) : Prop :=
  match it with
  | XR.XE _ _ c => (fix all (l : list XR.xitem) : Prop := match l with [] => True | x :: r => Tq x /\ all r end) c
  | XR.XT t => qok t = true
  end.
Fixpoint TqL (l : list XR.xitem) : Prop := match l with [] => True | x :: r => Tq x /\ TqL r end.
Lemma Tq_xe n a c : Tq (XR.XE n a c) <-> TqL c.
Proof. cbn [Tq]. induction c as [|x r IH]; [tauto|]. cbn [TqL]. rewrite IH. tauto. Qed.
Lemma TqL_app a b : TqL (a ++ b) <-> TqL a /\ TqL b.
Proof. induction a as [|x r IH]; cbn [app TqL]; [tauto|]. rewrite IH. tauto. Qed.

Lemma allws_qok a : XI.allws a = true -> qok a = true.
Proof.
  unfold XI.allws, qok. induction a as [|c r IH]; [reflexivity|]. cbn [forallb]. intros H. apply andb_prop in H. destruct H as [H1 H2].
  rewrite (IH H2), andb_true_r. unfold XR.is_ws in H1. repeat (apply orb_true_iff in H1; destruct H1 as [H1|H1]); apply N.eqb_eq in H1; subst; reflexivity.
Qed.

Lemma qok_xstrip t : qok (XI.xstrip t) = qok t.
Proof.
  destruct (xstrip_decomp t) as (a & b & Et & Ha & Hb). rewrite Et at 2. unfold qok. rewrite !forallb_app.
  fold (qok a) (qok b). rewrite (allws_qok a Ha), (allws_qok b Hb), andb_true_r. reflexivity.
Qed.

Lemma TqL_strip l : TqL (XI.strip_items l) <-> TqL l.
Proof.
  unfold XI.strip_items. induction l as [|x r IH]; [tauto|]. cbn [flat_map TqL]. rewrite TqL_app, IH.
  destruct x as [n a c|t]; [cbn [TqL]; tauto|]. unfold XI.emit. cbn [Tq]. rewrite <- (qok_xstrip t).
  destruct (XI.xstrip t) as [|b0 br]; cbn [TqL Tq]; [|tauto]. change (qok []) with true. intuition reflexivity.
Qed.

Lemma Tq_nb : forall it, Tq (XI.nb it) <-> Tq it.
Proof.
  fix IH 1. intros it. destruct it as [n a ch|t]; [|tauto].
  rewrite XI.nb_xe, !Tq_xe. unfold XI.nb_list.
  assert (Hm : TqL (map XI.nb ch) <-> TqL ch).
  { induction ch as [|x r IHr]; [tauto|]. cbn [map TqL]. rewrite (IH x), IHr. tauto. }
  destruct (existsb XI.is_xe ch); [rewrite TqL_strip|]; rewrite Hm; tauto.
Qed.

(* ---- the element predicate of the wide fragment on a qualified item, and what it gives for the tree of the item ---- *)
Section PredsW.
Variable L : lang.

Definition eok3 (depth : N) (tg : E.tagname) (at_ : list E.attr) : bool := TK.tree_ok3 L depth (E.NElt tg at_ []).

Lemma tree_ok3_elt depth tg a ch : TK.tree_ok3 L depth (E.NElt tg a ch) = eok3 depth tg a && forallb (TK.tree_ok3 L (depth + 1)) ch.
Proof. unfold eok3. cbn [TK.tree_ok3 forallb]. rewrite andb_true_r. reflexivity. Qed.

Definition peW (d : nat) (n : E.bytes) (a : list (E.bytes * E.bytes)) : Prop :=
  let tg := fst (XF.resolve_tag L n) in
  let at_ := map (XF.resolve_attr L) a in
  XE.ev_name L tg = n /\ map XE.ev_attr at_ = a /\
  XE.tag_canon L tg = true /\ (d = 0%nat \/ XE.tag_not_embedded L tg = true) /\ XE.attrs_canon L at_ = true /\
  (N.of_nat d <? XF.WBXML_MAX_NESTING_DEPTH) = true /\ E.beq (E.tag_xml_name tg) XF.s_Data = false /\ XE.tag_binary tg = false /\
  eok3 (N.of_nat d) tg at_ = true.

(* no empty text, at every level *)
Fixpoint NE (it : XR.xitem) : Prop :=
  match it with
  | XR.XE _ _ c => (fix all (l : list XR.xitem) : Prop := match l with [] => True | x :: r => NE x /\ all r end) c
  | XR.XT t => t <> []
  end.
Fixpoint NEL (l : list XR.xitem) : Prop := match l with [] => True | x :: r => NE x /\ NEL r end.
Lemma NE_xe n a c : NE (XR.XE n a c) <-> NEL c.
Proof. cbn [NE]. induction c as [|x r IH]; [tauto|]. cbn [NEL]. rewrite IH. tauto. Qed.

Lemma good_eventsW : forall it d, Pall peW d it -> ev_item it = XE.ev_node L false (etq L it).
Proof.
  fix IH 1. intros it d Hp. destruct it as [n a ch|t]; [|reflexivity].
  apply (proj1 (Pall_xe _ _ _ _ _)) in Hp. destruct Hp as [(Hn & Ha & _ & _ & _ & _ & _ & Hb & _) Hch].
  cbn [ev_item etq XE.ev_node]. rewrite Hn, Ha, Hb. f_equal. f_equal.
  induction ch as [|x r IHr]; [reflexivity|]. destruct Hch as [Hx Hr]. cbn [flat_map map]. rewrite (IH x (S d) Hx), (IHr Hr). reflexivity.
Qed.

Lemma good_tree_ok3 : forall it d, Pall peW d it -> Tq it -> TK.tree_ok3 L (N.of_nat d) (etq L it) = true.
Proof.
  fix IH 1. intros it d Hp Ht. destruct it as [n a ch|t].
  - apply (proj1 (Pall_xe _ _ _ _ _)) in Hp. destruct Hp as [(_ & _ & _ & _ & _ & _ & _ & _ & Hok) Hch]. apply (proj1 (Tq_xe _ _ _)) in Ht.
    cbn [etq]. rewrite tree_ok3_elt, Hok. cbn [andb].
    replace (N.of_nat d + 1) with (N.of_nat (S d)) by lia.
    induction ch as [|x r IHr]; [reflexivity|]. destruct Hch as [Hx Hr]. destruct Ht as [Htx Htr]. cbn [map forallb].
    rewrite (IH x (S d) Hx Htx), (IHr Hr Htr). reflexivity.
  - cbn [etq TK.tree_ok3]. rewrite TK.okb_forall. exact Ht.
Qed.

Lemma is_text_etq it : FS.is_text (etq L it) = is_xt it.
Proof. destruct it; reflexivity. Qed.

Lemma kids_direct up k : forall c,
  Forall (fun x => forall rdone, (is_xt x = true -> XE.head_is_text rdone = false) -> XE.node_canon L XV.no_emb up k rdone (etq L x) = true) c ->
  xnoadj c = true ->
  forall rd, (match c with x :: _ => is_xt x && XE.head_is_text rd = false | [] => True end) ->
  XE.kids_canon L XV.no_emb up k rd (map (etq L) c) = true.
Proof.
  induction c as [|x r IH]; intros HF Hna rd HP; [reflexivity|].
  inversion HF as [|? ? Hx Hr]; subst. cbn [xnoadj] in Hna. apply andb_prop in Hna. destruct Hna as [Hn1 Hn2]. apply negb_true_iff in Hn1.
  cbn [map XE.kids_canon]. rewrite Hx.
  - cbn [andb]. apply (IH Hr Hn2). destruct r as [|y r']; [exact I|].
    assert (Hh : XE.head_is_text (etq L x :: rd) = is_xt x) by (destruct x; reflexivity). rewrite Hh.
    destruct (is_xt x), (is_xt y); try reflexivity. discriminate.
  - intros Hxt. rewrite Hxt in HP. exact HP.
Qed.

Lemma good_canon_node : forall it d, Pall peW d it -> deepok it -> NE it -> forall up tg a rdone, S (length up) = d ->
  E.beq (E.tag_xml_name tg) XF.s_Data = false -> XE.tag_binary tg = false ->
  (is_xt it = true -> XE.head_is_text rdone = false) ->
  XE.node_canon L XV.no_emb up (XF.FElt tg a None) rdone (etq L it) = true.
Proof.
  fix IH 1. intros it d Hp Hd Hne up tg a rdone Hlen Hnd Hnb Hh. destruct it as [n a' ch|t].
  - apply (proj1 (Pall_xe _ _ _ _ _)) in Hp. destruct Hp as [(_ & _ & Htc & Hemb & Hac & Hdep & Hnd' & Hb' & _) Hch].
    apply (proj1 (deepok_xe _ _ _)) in Hd. destruct Hd as [Hna Hdl]. apply (proj1 (NE_xe _ _ _)) in Hne.
    cbn [etq XE.node_canon]. rewrite XV.kids_fix, Htc, Hac. cbn [length]. rewrite Hlen, Hdep.
    destruct Hemb as [H0|Hemb]; [subst d; discriminate|]. rewrite Hemb, Hb'. cbn [negb orb andb].
    apply kids_direct; [|exact Hna|destruct ch; [exact I|apply andb_false_r]].
    clear Hna Hh. induction ch as [|x r IHr]; [constructor|]. destruct Hch as [Hx Hr]. destruct Hdl as [Hdx Hdr]. destruct Hne as [Hnx Hnr].
    constructor; [|exact (IHr Hr Hdr Hnr)]. intros rd0 Hh0.
    apply (IH x (S d) Hx Hdx Hnx); [cbn [length]; rewrite Hlen; reflexivity|exact Hnd'|exact Hb'|exact Hh0].
  - cbn [etq XE.node_canon]. apply canon_text; [exact Hnd|exact Hnb|exact Hne|exact (Hh eq_refl)].
Qed.

Lemma good_root_canon n a c : Pall peW 0 (XR.XE n a c) -> deepok (XR.XE n a c) -> NE (XR.XE n a c) ->
  XE.root_canon L XV.no_emb (etq L (XR.XE n a c)) = true.
Proof.
  intros Hp Hd Hne.
  apply (proj1 (Pall_xe _ _ _ _ _)) in Hp. destruct Hp as [(_ & _ & Htc & _ & Hac & _ & Hnd & Hb & _) Hch].
  apply (proj1 (deepok_xe _ _ _)) in Hd. destruct Hd as [Hna Hdl]. apply (proj1 (NE_xe _ _ _)) in Hne.
  cbn [etq]. unfold XE.root_canon. rewrite Htc, Hac, Hb. cbn [negb orb andb].
  apply kids_direct; [|exact Hna|destruct c; [exact I|apply andb_false_r]].
  clear Hna. induction c as [|x r IHr]; [constructor|]. destruct Hch as [Hx Hr]. destruct Hdl as [Hdx Hdr]. destruct Hne as [Hnx Hnr].
  constructor; [|exact (IHr Hr Hdr Hnr)]. intros rd0 Hh0.
  apply (good_canon_node x 1%nat Hx Hdx Hnx); [reflexivity|exact Hnd|exact Hb|exact Hh0].
Qed.
End PredsW.

(* ---- qual keeps texts and shape ---- *)
Lemma is_xt_qual cur it : is_xt (qual cur it) = is_xt it.
Proof. destruct it; reflexivity. Qed.
Lemma xnoadj_qual cur l : xnoadj (map (qual cur) l) = xnoadj l.
Proof.
  induction l as [|x r IH]; [reflexivity|]. cbn [map xnoadj]. rewrite IH, is_xt_qual. destruct r as [|y r']; [reflexivity|].
  cbn [map]. rewrite is_xt_qual. reflexivity.
Qed.
Lemma deepok_qual : forall it cur, deepok it -> deepok (qual cur it).
Proof.
  fix IH 1. intros it cur H. destruct it as [n a c|t]; [|exact I].
  apply (proj1 (deepok_xe _ _ _)) in H. destruct H as [Hna Hd]. cbn [qual]. apply (proj2 (deepok_xe _ _ _)).
  rewrite xnoadj_qual. split; [exact Hna|]. clear Hna.
  generalize (match find is_xmlns a with Some kv => Some (snd kv) | None => cur end) as ns. intros ns.
  induction c as [|x r IHr]; [exact I|]. destruct Hd as [Hx Hr]. cbn [map deepL]. split; [exact (IH x ns Hx)|exact (IHr Hr)].
Qed.

Lemma NE_qual : forall it cur, NE it -> NE (qual cur it).
Proof.
  fix IH 1. intros it cur H. destruct it as [n a c|t]; [|exact H].
  apply (proj1 (NE_xe _ _ _)) in H. cbn [qual]. apply (proj2 (NE_xe _ _ _)).
  generalize (match find is_xmlns a with Some kv => Some (snd kv) | None => cur end) as ns. intros ns.
  induction c as [|x r IHr]; [exact I|]. destruct H as [Hx Hr]. cbn [map NEL]. split; [exact (IH x ns Hx)|exact (IHr Hr)].
Qed.

(* ---- the reading of ANY generated XML has no empty text below the root element (merge_items) ---- *)
Definition NEe (it : XR.xitem) : Prop := match it with XR.XE _ _ _ => NE it | XR.XT _ => True end.
Fixpoint NEeL (l : list XR.xitem) : Prop := match l with [] => True | x :: r => NEe x /\ NEeL r end.
Lemma NEeL_app a b : NEeL (a ++ b) <-> NEeL a /\ NEeL b.
Proof. induction a as [|x r IH]; cbn [app NEeL]; [tauto|]. rewrite IH. tauto. Qed.

Lemma push_ne acc it : NEL acc -> NEe it -> NEL (XP.push_item acc it).
Proof.
  intros Ha Hi. destruct it as [n a c|t]; cbn [XP.push_item]; [split; assumption|].
  unfold XR.push_text. destruct t as [|b0 br]; [exact Ha|]. destruct acc as [|[n1 a1 c1|u] r]; cbn [NEL NE] in *.
  - split; [discriminate|exact I].
  - split; [discriminate|exact Ha].
  - destruct Ha as [_ Hr]. split; [|exact Hr]. intros E0. apply app_eq_nil in E0. destruct E0 as [_ E0]. discriminate.
Qed.
Lemma NEL_rev l : NEL l -> NEL (rev l).
Proof.
  assert (Ap : forall a b, NEL a -> NEL b -> NEL (a ++ b)) by (induction a as [|x r IH]; intros b Ha Hb; [exact Hb|destruct Ha; split; [assumption|apply IH; assumption]]).
  induction l as [|x r IH]; intros H; [exact I|]. destruct H as [Hx Hr]. cbn [rev]. apply Ap; [exact (IH Hr)|split; [exact Hx|exact I]].
Qed.
Lemma merge_ne l : NEeL l -> NEL (XP.merge_items l).
Proof.
  unfold XP.merge_items. intros H. apply NEL_rev.
  assert (G : forall l acc, NEeL l -> NEL acc -> NEL (fold_left XP.push_item l acc)).
  { induction l0 as [|x r IH]; intros acc Hl Ha; [exact Ha|]. destruct Hl as [Hx Hr]. cbn [fold_left]. apply IH; [exact Hr|apply push_ne; assumption]. }
  apply G; [exact H|exact I].
Qed.

Lemma info_g_ne l o : forall n parent s its s', simple n = true -> XI.info_g l o parent s n = Some (its, s') -> NEeL its.
Proof.
  fix IH 1. intros n parent s its s' Hs. destruct n as [nm attrs ch|c|ch| |sl roots]; cbn [simple] in Hs; try discriminate.
  - cbn [XI.info_g]. destruct ch as [|c0 cr].
    + intros H. injection H as <- _. cbn [NEeL NEe NE]. tauto.
    + assert (HL : forall ns st its0 st', forallb simple ns = true ->
                     XI.info_list_g (XI.info_g l o (X.pinfo_below parent nm)) ns st = Some (its0, st') -> NEeL its0).
      { induction ns as [|x r IHr]; intros st its0 st' Hsx; cbn [XI.info_list_g].
        - intros H. injection H as <- _. exact I.
        - cbn [forallb] in Hsx. apply andb_prop in Hsx. destruct Hsx as [Hx Hr].
          destruct (XI.info_g l o (X.pinfo_below parent nm) st x) as [[a s1]|] eqn:Ea; [|discriminate].
          destruct (XI.info_list_g _ r (X.reset_cur s1)) as [[b s2]|] eqn:Eb; [|discriminate].
          intros H. injection H as <- _. apply NEeL_app. split; [exact (IH x _ _ _ _ Hx Ea)|exact (IHr _ _ _ Hr Eb)]. }
      destruct (XI.info_list_g _ (c0 :: cr) _) as [[its0 s4]|] eqn:El; [|discriminate].
      intros H. injection H as <- _. cbn [NEeL NEe]. split; [exact I|]. split; [|tauto].
      apply (proj2 (NE_xe _ _ _)). apply merge_ne. cbn [NEeL NEe]. split; [exact I|].
      apply NEeL_app. split; [exact (HL _ _ _ _ Hs El)|cbn; tauto].
  - cbn [XI.info_g]. unfold XI.text_item. destruct (X.text_policy o parent s c); [|intros H; injection H as <- _; exact I].
    destruct (X.tag_is_binary _); [destruct (b64_enc _)|]; intros H; try discriminate; injection H as <- _; cbn; tauto.
Qed.

(* ---- the compact reading: the qualified items of an already normalised tree R are R's own ---- *)
Section CompactW.
Variables (L : lang) (xo : X.opts) (wa : bool).

Fixpoint cokW (d : nat) (n : E.node) : Prop :=
  match n with
  | E.NElt tg attrs ch =>
    XE.tag_canon L tg = true /\ (d = 0%nat \/ XE.tag_not_embedded L tg = true) /\ XE.attrs_canon L attrs = true /\
    (N.of_nat d <? XF.WBXML_MAX_NESTING_DEPTH) = true /\ E.beq (E.tag_xml_name tg) XF.s_Data = false /\
    elt_ok L xo wa tg attrs /\ eok3 L (N.of_nat d) tg attrs = true /\
    (fix all (l : list E.node) : Prop := match l with [] => True | x :: r => cokW (S d) x /\ all r end) ch
  | E.NText c => qok c = true
  | _ => False
  end.

Lemma items_goodW : forall R d parent cur, cokW d R -> cur_ok L parent cur ->
  PallL (peW L) d (map (qual cur) (item_ofW L xo parent (tnodeW wa R))) /\
  TqL (map (qual cur) (item_ofW L xo parent (tnodeW wa R))) /\
  map (etq L) (map (qual cur) (item_ofW L xo parent (tnodeW wa R))) = [R].
Proof.
  fix IH 1. intros R d parent cur Hc Hcur. destruct R as [tg a ch|c|ch| |lid roots]; cbn [cokW] in Hc; try contradiction.
  - destruct Hc as (Htc & Hemb & Hac & Hdep & Hnd & He & Hok3 & Hall).
    destruct (elt_event L xo wa parent cur tg a He Hcur) as (Hq & Hf & Hcc). cbv zeta in Hq, Hf, Hcc.
    destruct He as (Hb & _).
    cbn [tnodeW item_ofW map qual]. rewrite Hq, Hf.
    assert (Htg : fst (XF.resolve_tag L (XE.ev_name L tg)) = tg) by (apply XV.tagname_eqb_eq; exact Htc).
    assert (Hat : map (XF.resolve_attr L) (map XE.ev_attr a) = a) by (apply (XV.list_eqb_eq _ XV.attr_eqb_eq); exact Hac).
    revert Hcc. generalize (match find is_xmlns (XP.spec_attrs (X.xlang_of L) xo parent (to_tname L (TK.tag_event tg)) (map to_attr (if wa then map D2.attr_event a else []))) with
                            | Some kv => Some (snd kv) | None => cur end) as cur'.
    intros cur' Hcc.
    set (parent' := X.pinfo_below parent (to_tname L (TK.tag_event tg))) in *.
    assert (Hch : PallL (peW L) (S d) (map (qual cur') (flat_map (item_ofW L xo parent') (map (tnodeW wa) ch))) /\
                  TqL (map (qual cur') (flat_map (item_ofW L xo parent') (map (tnodeW wa) ch))) /\
                  map (etq L) (map (qual cur') (flat_map (item_ofW L xo parent') (map (tnodeW wa) ch))) = ch).
    { induction ch as [|x r IHr]; [repeat split|]. destruct Hall as [Hx Hr].
      destruct (IH x (S d) parent' cur' Hx Hcc) as (P1 & T1 & E1). destruct (IHr Hr) as (P2 & T2 & E2).
      cbn [map flat_map]. rewrite !map_app, PallL_app, TqL_app, E1, E2. repeat split; assumption. }
    destruct Hch as (P & T & Ee). cbn [PallL TqL map]. split; [split; [|exact I]|split; [split; [|exact I]|]].
    + apply (proj2 (Pall_xe _ _ _ _ _)). split; [|exact P]. unfold peW. cbv zeta. rewrite Htg, Hat. repeat split; assumption.
    + apply (proj2 (Tq_xe _ _ _)). exact T.
    + cbn [etq]. rewrite Htg, Hat, Ee. reflexivity.
  - cbn [tnodeW item_ofW map qual PallL TqL Pall Tq etq]. repeat split; exact Hc.
Qed.

Lemma norm_fixEW : forall R, enormalW false R -> TN.norm_node false false R = [R].
Proof.
  fix IH 1. intros R Hn. destruct R as [tg a ch|c|ch| |lid roots]; cbn [enormalW] in Hn; try contradiction.
  - destruct Hn as [_ Hall]. cbn [TN.norm_node]. f_equal. f_equal.
    induction ch as [|x r IHr]; [reflexivity|]. destruct Hall as [Hx Hr]. cbn [flat_map]. rewrite (IH x Hx), (IHr Hr). reflexivity.
  - destruct Hn as (_ & _ & [Hk|[Hw Hs]]); [discriminate|]. cbn [TN.norm_node]. unfold TN.norm_text. cbn [orb]. rewrite Hw, Hs. reflexivity.
Qed.

Lemma tgoodW_tsimple : forall T, tgoodW L xo T -> tsimple T = true.
Proof.
  fix IH 1. intros T HT. destruct T as [tag a ch|c|ch|lid cs root]; cbn [tgoodW] in HT; try contradiction.
  - destruct HT as (_ & _ & Hall). cbn [tsimple].
    induction ch as [|x r IHr]; [reflexivity|]. destruct Hall as [Hx Hr]. cbn [forallb]. rewrite (IH x Hx), (IHr Hr). reflexivity.
  - destruct HT as (Hne & _). cbn [tsimple]. destruct c; [congruence|reflexivity].
Qed.

(* cokW of the normalised source *)
Lemma norm_cokW keep : forall n d, src_okW L xo wa d n -> TK.tree_ok3 L (N.of_nat d) n = true -> Forall (cokW d) (TN.norm_node keep false n).
Proof.
  fix IH 1. intros n d Hn Ht. destruct n as [tg a ch|c|ch| |lid roots]; cbn [src_okW] in Hn; try contradiction.
  - destruct Hn as (Htc & Hemb & Hac & Hdep & Hnd & _ & He & _ & Hall). rewrite tree_ok3_elt in Ht. apply andb_prop in Ht. destruct Ht as [Hok Hch].
    cbn [TN.norm_node]. constructor; [|constructor]. cbn [cokW].
    split; [exact Htc|]. split; [exact Hemb|]. split; [exact Hac|]. split; [exact Hdep|]. split; [exact Hnd|]. split; [exact He|]. split; [exact Hok|].
    assert (HF : Forall (cokW (S d)) (flat_map (TN.norm_node keep false) ch)).
    { replace (N.of_nat d + 1) with (N.of_nat (S d)) in Hch by lia.
      induction ch as [|x r IHr]; [constructor|]. destruct Hall as [Hx Hr]. cbn [flat_map forallb] in *. apply andb_prop in Hch. destruct Hch as [Hcx Hcr].
      apply Forall_app. split; [exact (IH x (S d) Hx Hcx)|exact (IHr Hr Hcr)]. }
    clear -HF. induction HF as [|y ys Hy _ IHy]; [exact I|]. split; [exact Hy|exact IHy].
  - cbn [TK.tree_ok3] in Ht. cbn [TN.norm_node]. unfold TN.norm_text. destruct (keep || false); [|destruct (E.only_ws c)]; repeat constructor; cbn [cokW].
    + rewrite <- TK.okb_forall. exact Ht.
    + rewrite <- TK.okb_forall. apply TK.okb_strip. exact Ht.
Qed.
End CompactW.

Lemma cokW_wok L xo wa : forall R d, cokW L xo wa d R -> wok L xo wa R.
Proof.
  fix IH 1. intros R d H. destruct R as [tg a ch|c|ch| |lid roots]; cbn [cokW] in H; try contradiction; [|exact I].
  destruct H as (_ & _ & _ & _ & _ & He & _ & Hall). cbn [wok]. split; [exact He|].
  induction ch as [|x r IHr]; [exact I|]. destruct Hall as [Hx Hr]. split; [exact (IH x (S d) Hx)|exact (IHr Hr)].
Qed.

Definition qns (cur : option E.bytes) (a : list (E.bytes * E.bytes)) : option E.bytes :=
  match find is_xmlns a with Some kv => Some (snd kv) | None => cur end.
Definition qtag (L : lang) (cur : option E.bytes) (n : E.bytes) (a : list (E.bytes * E.bytes)) : E.tagname :=
  fst (XF.resolve_tag L (match qns cur a with Some v => v ++ [XF.SEP] ++ n | None => n end)).
Definition qattrs (L : lang) (a : list (E.bytes * E.bytes)) : list E.attr :=
  map (XF.resolve_attr L) (filter (fun kv => negb (is_xmlns kv)) a).
Lemma etq_qual_xe L cur n a c :
  etq L (qual cur (XR.XE n a c)) = E.NElt (qtag L cur n a) (qattrs L a) (map (etq L) (map (qual (qns cur a)) c)).
Proof. reflexivity. Qed.

(* ---- the second trip on INDENTED XML, wide fragment, encoder keep_ws off ---- *)
Section SecondIndentW.
Variables (main TBL : list lang) (btbl : list E.blang) (sub : E.bytes -> XF.xtree + N).

Theorem second_iteration_indent_wide (L : lang) o o' tag attrs ch2 x :
  let e := E.enc_env (D2.to_blang L) o in
  let wa := E.has_attr_table e in
  let R2 := E.NElt tag attrs ch2 in
  let root' := tnodeW wa R2 in
  let xl := X.xlang_of L in
  let xoc := X.opts_of_params X.Compact 0 (wo_keep_ws o') in
  let nmx := to_tname L (TK.tag_event tag) in
  let ax := map to_attr (if wa then map D2.attr_event attrs else []) in
  let sa := XP.spec_attrs xl xoc X.proot nmx ax in
  (* x is the INDENTED XML of the first trip *)
  gen_of (wo_gen o') = X.Indent ->
  X.enc_xml xl X.Indent (wo_indent o') (wo_keep_ws o') [to_xnode TBL L root'] = X.XOk x ->
  (* the next XML -> WBXML conversion drops ignorable white space *)
  E.o_keep_ws o = false ->
  XP.lang_ok xl = true -> XI.node_ok_g xl xoc X.proot None (to_xnode TBL L root') = true ->
  X.is_syncml xl = false ->
  tgoodW L xoc root' -> cokW L xoc wa 0 R2 ->
  LangSelect.search_table main (option_map XF.str (X.xl_pub xl)) (Some (XF.str (X.xl_dtd xl))) None = Some L ->
  enormalW false R2 ->
  E.find_lang btbl (l_id L) = Some (D2.to_blang L) ->
  Proofs.EncWbxmlAbs.plain_env e = true -> D2.vals_ok L = true -> l_exts L = None ->
  find (fun y => l_id y =? l_id L) TBL = Some L ->
  lang_choiceW TBL L e (wo_lang o') -> wo_charset o' = 0 ->
  E.o_version o < 4 -> E.header_public_id e < 4294967296 -> E.header_public_id e <> 0 ->
  (match Proofs.EncWbxmlAbs.header_pid e with Some p => D2.okb p = true | None => True end) ->
  no_data (D3.doc_events3 L e false R2) = true ->
  exists ci d,
    d = XP.doc_of xl [XR.XE (X.tname_bytes nmx) sa ci] /\
    (forall fuel, (XP.node_fuel (to_xnode TBL L root') + 2 <= fuel)%nat -> XR.read_xml fuel x = XR.ROk d) /\
    let Tind := etq L (qual None (XR.XE (X.tname_bytes nmx) sa ci)) in
    (* the front-end tree of the indented XML: R2 with white space between markup; its normal form is R2 *)
    TN.norm false [Tind] = [R2] /\
    events_of_info_ns d = XV.doc_events L (X.xl_root xl) (Some (X.xl_dtd xl)) (X.xl_pub xl) Tind /\
    forall doc2, doc2 <> [] ->
      XF.tree_from_xml main sub doc2 (events_of_info_ns d) true = inl (XF.mk_xtree (l_id L) 0 [Tind]) /\
      forall w2, E.enc_wbxml btbl (D2.to_blang L) o [Tind] = E.EOk w2 -> E.len w2 < 4294967296 ->
        r_out (ConvXml2Wbxml.xml2wbxml_events main btbl sub (events_of_info_ns d) true o doc2) = Some w2 /\
        wbxml2xml_model TBL o' w2 = mk_res ST_OK (Some (x ++ [0])) (N.of_nat (length x)).
Proof.
  intros e wa R2 root' xl xoc nmx ax sa Hgen Hx Hkeep Hlok Hokc Hsyn Htg Hcok Hst Hen Hfl HP HV HX HFind Hch Hcs Hv Hp1 Hp0 Hpid Hnd.
  set (chx := map (to_xnode TBL L) (map (tnodeW wa) ch2)).
  assert (Hroot : to_xnode TBL L root' = X.Elt nmx ax chx) by reflexivity.
  rewrite Hroot in Hx, Hokc.
  set (xoi := X.opts_of_params X.Indent (wo_indent o') (wo_keep_ws o')).
  (* the compact XML of the same tree *)
  assert (Hsim : forallb simple [X.Elt nmx ax chx] = true).
  { cbn [forallb]. rewrite andb_true_r. rewrite <- Hroot. apply to_xnode_simple. exact (tgoodW_tsimple L xoc root' Htg). }
  destruct (enc_xml_simple_ok xl X.Compact 0 (wo_keep_ws o') [X.Elt nmx ax chx] Hsim) as [xc Hxc].
  (* both readings *)
  assert (Hoki : XI.node_ok_g xl xoi X.proot None (X.Elt nmx ax chx) = true)
    by (rewrite (XI.node_ok_opts _ xl xoi xoc); [exact Hokc|reflexivity]).
  destruct (XI.read_enc_g xl xoi nmx ax chx x Hlok Hoki Hx) as (ci & si & Ii & Ri).
  destruct (XI.read_enc_g xl xoc nmx ax chx xc Hlok Hokc Hxc) as (cc & sc & Ic & Rc).
  assert (Hsai : XP.spec_attrs xl xoi X.proot nmx ax = sa) by (apply XI.spec_attrs_opts; reflexivity).
  rewrite Hsai in Ii, Ri. fold sa in Ic, Rc.
  (* the compact reading is the tree itself *)
  assert (Hb0 : X.tag_is_binary (X.text_tag (X.est0 0) X.proot) = false) by reflexivity.
  destruct (info_compactW TBL L xoc eq_refl Hsyn root' Htg X.proot (X.est0 0) eq_refl Hb0) as (s2 & Hi2 & _).
  rewrite Hroot in Hi2. fold xl in Hi2. rewrite Hi2 in Ic. cbn [items_forW item_ofW tnodeW root' R2 app] in Ic. fold nmx ax xl sa in Ic.
  injection Ic as Hcc _.
  (* equal modulo blank text between markup *)
  set (fuel0 := (XP.node_fuel (X.Elt nmx ax chx) + 2)%nat).
  destruct (XI.c07_xml_indent_compact xl (wo_indent o') 0 (wo_keep_ws o') nmx ax chx x xc Hlok Hokc Hx Hxc fuel0 (Nat.le_refl _))
    as (ri & rc & Hri & Hrc & Hnb).
  rewrite (Ri fuel0 (Nat.le_refl _)) in Hri. rewrite (Rc fuel0 (Nat.le_refl _)) in Hrc.
  unfold XP.doc_of in Hri, Hrc. injection Hri as Hri. injection Hrc as Hrc. subst ri rc.
  set (nm := X.tname_bytes nmx) in *.
  set (qi := qual None (XR.XE nm sa ci)). set (qc := qual None (XR.XE nm sa cc)).
  assert (Hqnb : XI.nb qi = XI.nb qc) by (unfold qi, qc; rewrite <- !qual_nb, Hnb; reflexivity).
  (* the predicates: from the tree to the compact reading, through nb to the indented reading *)
  assert (Hcur0 : cur_ok L X.proot None) by (unfold cur_ok; destruct (X.xl_ns (X.xlang_of L)); [intros pg Hpg; discriminate|reflexivity]).
  destruct (items_goodW L xoc wa R2 0%nat X.proot None Hcok Hcur0) as (Pc & Tc & Ec).
  assert (Hitem : item_ofW L xoc X.proot (tnodeW wa R2) = [XR.XE nm sa cc]).
  { cbn [tnodeW item_ofW R2]. fold nmx ax xl sa nm. rewrite Hcc. reflexivity. }
  rewrite Hitem in Pc, Tc, Ec. cbn [map] in Pc, Tc, Ec. fold qc in Pc, Tc, Ec.
  cbn [PallL TqL] in Pc, Tc. destruct Pc as [Pc _]. destruct Tc as [Tc _].
  assert (Ec' : etq L qc = R2) by congruence.
  assert (Pi : Pall (peW L) 0 qi) by (apply (Pall_nb (peW L)); rewrite Hqnb; apply (Pall_nb (peW L)); exact Pc).
  assert (Ti : Tq qi) by (apply Tq_nb; rewrite Hqnb; apply Tq_nb; exact Tc).
  assert (Di : deepok qi).
  { apply deepok_qual. pose proof (info_g_deep _ _ (X.Elt nmx ax chx) X.proot (X.est0 0) _ _ (proj1 (andb_prop _ _ Hsim)) Ii) as Hd.
    cbn [deepL] in Hd. tauto. }
  assert (Ni : NE qi).
  { apply NE_qual. pose proof (info_g_ne _ _ (X.Elt nmx ax chx) X.proot (X.est0 0) _ _ (proj1 (andb_prop _ _ Hsim)) Ii) as Hd.
    cbn [NEeL NEe] in Hd. tauto. }
  assert (Hnn : NNq L qi = [R2]).
  { rewrite <- (NNq_nb L), Hqnb, (NNq_nb L). unfold NNq. rewrite Ec'. exact (norm_fixEW R2 Hen). }
  set (Tind := etq L qi) in *.
  assert (Hnorm : TN.norm false [Tind] = [R2]) by (unfold TN.norm; cbn [flat_map]; rewrite app_nil_r; exact Hnn).
  (* the shape of Tind: the root element of R2 with other children *)
  assert (Hshape : exists chi, Tind = E.NElt tag attrs chi).
  { unfold Tind, qi. unfold qc in Ec'. rewrite etq_qual_xe in Ec' |- *. unfold R2 in Ec'. injection Ec' as E1 E2 _.
    rewrite E1, E2. eexists. reflexivity. }
  destruct Hshape as (chi & Hshape).
  assert (HcanT : XE.root_canon L XV.no_emb Tind = true) by (unfold Tind, qi; cbn [qual]; apply good_root_canon; [exact Pi|exact Di|exact Ni]).
  assert (HTT : TK.tree_ok3 L 0 Tind = true) by exact (good_tree_ok3 L qi 0%nat Pi Ti).
  exists ci, (XP.doc_of xl [XR.XE nm sa ci]). split; [reflexivity|]. split; [rewrite Hroot; exact Ri|]. cbv zeta. fold qi. fold Tind.
  split; [exact Hnorm|].
  assert (Hev : events_of_info_ns (XP.doc_of xl [XR.XE nm sa ci]) = XV.doc_events L (X.xl_root xl) (Some (X.xl_dtd xl)) (X.xl_pub xl) Tind).
  { unfold events_of_info_ns, XV.doc_events, XP.doc_of. cbn [XR.d_root_name XR.d_system XR.d_public XR.d_items flat_map]. rewrite app_nil_r.
    f_equal. rewrite <- ev_item_qual. exact (good_eventsW L qi 0%nat Pi). }
  split; [exact Hev|]. intros doc2 Hd2. rewrite Hev.
  pose proof (XV.front_inverts_doc main sub doc2 L XV.no_emb (XV.no_emb_ok main sub doc2 L) (X.xl_root xl) (Some (X.xl_dtd xl)) (X.xl_pub xl) Tind Hd2 Hst HcanT) as Hfront.
  split; [exact Hfront|]. intros w2 He Hlen.
  rewrite Hshape in Hfront, He, HTT, Hnorm.
  assert (Hout : r_out (ConvXml2Wbxml.xml2wbxml_events main btbl sub (XV.doc_events L (X.xl_root xl) (Some (X.xl_dtd xl)) (X.xl_pub xl) Tind) true o doc2) = Some w2).
  { unfold ConvXml2Wbxml.xml2wbxml_events, conv_run. destruct doc2 as [|d0 dr]; [congruence|]. cbv beta. rewrite Hshape, Hfront.
    unfold ConvXml2Wbxml.encode_tree. cbn [XF.xt_lang XF.xt_roots]. rewrite Hfl, He. reflexivity. }
  split; [exact Hout|].
  assert (HndT : no_data (D3.doc_events3 L e (E.o_keep_ws o) (E.NElt tag attrs chi)) = true).
  { rewrite Hkeep. unfold D3.doc_events3 in *. rewrite Hnorm.
    assert (E1 : TN.norm false [R2] = [R2]) by (unfold TN.norm; cbn [flat_map]; rewrite app_nil_r; exact (norm_fixEW R2 Hen)).
    rewrite E1 in Hnd. exact Hnd. }
  rewrite Hshape in Hout.
  destruct (conversion_roundtrip_wide_choice main TBL btbl sub _ true o doc2 w2 L tag attrs chi o' Hout Hlen) as (x2 & Hm2 & Hx2 & _); try assumption.
  { intros t0 Ht0. rewrite Hfront in Ht0. injection Ht0 as <-. cbn [XF.xt_lang XF.xt_roots]. split; [exact Hfl|reflexivity]. }
  cbv zeta in Hx2. fold e wa in Hx2. rewrite Hkeep in Hx2.
  assert (Hch2 : flat_map (TN.norm_node false false) chi = ch2).
  { unfold TN.norm in Hnorm. cbn [flat_map TN.norm_node app] in Hnorm. injection Hnorm as Hn. exact Hn. }
  pose proof (normal_fixW wa false R2 Hen) as Hfix. rewrite (norm_fixEW R2 Hen) in Hfix. cbn [flat_map tnw tnodeW app R2] in Hfix. injection Hfix as Hfix.
  rewrite Hch2, Hfix, Hgen in Hx2.
  assert (Hxx : X.XOk x = X.XOk x2).
  { transitivity (X.enc_xml_opts xl xoi [X.Elt nmx ax chx]); [symmetry; exact Hx|exact Hx2]. }
  injection Hxx as <-. exact Hm2.
Qed.
End SecondIndentW.

(* ---- from the source: first trip with INDENTED generation, encoder keep_ws off, and the second trip ---- *)
Section EndToEndIndentW.
Variables (main TBL : list lang) (btbl : list E.blang) (sub : E.bytes -> XF.xtree + N).

Theorem roundtrip_and_idempotence_indent_wide evs expat_ok o doc w (L : lang) tag attrs ch o' :
  let e := E.enc_env (D2.to_blang L) o in
  let wa := E.has_attr_table e in
  let root := E.NElt tag attrs ch in
  let R2 := E.NElt tag attrs (flat_map (TN.norm_node false false) ch) in
  let root' := tnodeW wa R2 in
  let xl := X.xlang_of L in
  let xoc := X.opts_of_params X.Compact 0 (wo_keep_ws o') in
  let nmx := to_tname L (TK.tag_event tag) in
  let ax := map to_attr (if wa then map D2.attr_event attrs else []) in
  let sa := XP.spec_attrs xl xoc X.proot nmx ax in
  r_out (ConvXml2Wbxml.xml2wbxml_events main btbl sub evs expat_ok o doc) = Some w -> E.len w < 4294967296 ->
  (forall t0, XF.tree_from_xml main sub doc evs expat_ok = inl t0 ->
     E.find_lang btbl (XF.xt_lang t0) = Some (D2.to_blang L) /\ XF.xt_roots t0 = [root]) ->
  Proofs.EncWbxmlAbs.plain_env e = true -> D2.vals_ok L = true -> l_exts L = None ->
  TK.tree_ok3 L 0 root = true ->
  find (fun y => l_id y =? l_id L) TBL = Some L ->
  lang_choiceW TBL L e (wo_lang o') -> wo_charset o' = 0 ->
  E.o_version o < 4 -> E.header_public_id e < 4294967296 -> E.header_public_id e <> 0 ->
  (match Proofs.EncWbxmlAbs.header_pid e with Some p => D2.okb p = true | None => True end) ->
  no_data (D3.doc_events3 L e (E.o_keep_ws o) root) = true ->
  src_okW L xoc wa 0 root -> E.find_lang btbl (l_id L) = Some (D2.to_blang L) ->
  LangSelect.search_table main (option_map XF.str (X.xl_pub xl)) (Some (XF.str (X.xl_dtd xl))) None = Some L ->
  (* indented generation; the encoder drops ignorable white space *)
  gen_of (wo_gen o') = X.Indent -> E.o_keep_ws o = false ->
  X.is_syncml xl = false ->
  XP.lang_ok xl = true -> XI.node_ok_g xl xoc X.proot None (to_xnode TBL L root') = true ->
  exists x ci d,
    wbxml2xml_model TBL o' w = mk_res ST_OK (Some (x ++ [0])) (N.of_nat (length x)) /\
    X.enc_xml xl X.Indent (wo_indent o') (wo_keep_ws o') [to_xnode TBL L root'] = X.XOk x /\
    d = XP.doc_of xl [XR.XE (X.tname_bytes nmx) sa ci] /\
    (forall fuel, (XP.node_fuel (to_xnode TBL L root') + 2 <= fuel)%nat -> XR.read_xml fuel x = XR.ROk d) /\
    let Tind := etq L (qual None (XR.XE (X.tname_bytes nmx) sa ci)) in
    TN.norm false [Tind] = [R2] /\
    events_of_info_ns d = XV.doc_events L (X.xl_root xl) (Some (X.xl_dtd xl)) (X.xl_pub xl) Tind /\
    forall doc2, doc2 <> [] ->
      XF.tree_from_xml main sub doc2 (events_of_info_ns d) true = inl (XF.mk_xtree (l_id L) 0 [Tind]) /\
      forall w2, E.enc_wbxml btbl (D2.to_blang L) o [Tind] = E.EOk w2 -> E.len w2 < 4294967296 ->
        r_out (ConvXml2Wbxml.xml2wbxml_events main btbl sub (events_of_info_ns d) true o doc2) = Some w2 /\
        wbxml2xml_model TBL o' w2 = mk_res ST_OK (Some (x ++ [0])) (N.of_nat (length x)).
Proof.
  intros e wa root R2 root' xl xoc nmx ax sa H1 Hlen Hfront HP HV HX HT HFind Hch Hcs Hv Hp1 Hp0 Hpid Hnd Hsrc Hfl Hst Hgen Hkeep Hsyn Hlok Hok.
  rewrite Hkeep in Hnd.
  set (ch2 := flat_map (TN.norm_node false false) ch) in *.
  assert (Hnorm : TN.norm_node false false root = [R2]) by reflexivity.
  assert (Hen : enormalW false R2).
  { pose proof (norm_enormalW L xoc wa false root 0%nat Hsrc) as H. rewrite Hnorm in H. inversion H. assumption. }
  assert (Htg : tgoodW L xoc root').
  { pose proof (norm_tgoodW L xoc wa false (or_intror eq_refl) root 0%nat Hsrc) as H. rewrite Hnorm in H. inversion H. assumption. }
  assert (Hcok : cokW L xoc wa 0 R2).
  { pose proof (norm_cokW L xoc wa false root 0%nat Hsrc HT) as H. rewrite Hnorm in H. inversion H. assumption. }
  assert (Hnd2 : no_data (D3.doc_events3 L e false R2) = true).
  { unfold D3.doc_events3 in *.
    assert (E1 : TN.norm false [root] = [R2]) by (unfold TN.norm; cbn [flat_map]; rewrite app_nil_r; reflexivity).
    pose proof (TNP.norm_idempotent false [root]) as Hi. rewrite E1 in Hi. rewrite Hi. rewrite <- E1. exact Hnd. }
  rewrite <- Hkeep in Hnd.
  destruct (conversion_roundtrip_wide_choice main TBL btbl sub evs expat_ok o doc w L tag attrs ch o' H1 Hlen Hfront HP HV HX HT HFind Hch Hcs Hv Hp1 Hp0 Hpid Hnd)
    as (x & Hm & Hx & _).
  cbv zeta in Hx. fold e wa in Hx. rewrite Hkeep in Hx. fold ch2 in Hx.
  pose proof (normal_fixW wa false R2 Hen) as Hfix. rewrite (norm_fixEW R2 Hen) in Hfix. cbn [flat_map tnw tnodeW app R2] in Hfix. injection Hfix as Hfix.
  fold ch2 in Hfix. rewrite Hfix, Hgen in Hx. fold xl in Hx.
  assert (Hx' : X.enc_xml xl X.Indent (wo_indent o') (wo_keep_ws o') [to_xnode TBL L root'] = X.XOk x) by exact Hx.
  destruct (second_iteration_indent_wide main TBL btbl sub L o o' tag attrs ch2 x Hgen Hx' Hkeep Hlok Hok Hsyn Htg Hcok Hst Hen Hfl
              HP HV HX HFind Hch Hcs Hv Hp1 Hp0 Hpid Hnd2) as (ci & d & Hd & Hread & Hrest).
  exists x, ci, d. split; [exact Hm|]. split; [exact Hx'|]. split; [exact Hd|]. split; [exact Hread|]. exact Hrest.
Qed.
End EndToEndIndentW.
