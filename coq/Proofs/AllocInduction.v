(* C16 — the two bounded theorems of AllocProofs.v lifted to ALL sizes, on ARBITRARY heaps (symbolic block numbers):
   wbxml_list_destroy over a list of any length, and the repaired attribute-table loop of parse_element for any number
   of attributes and every failure oracle. *)
From Coq Require Import List NArith Bool Lia PeanoNat Arith.
From Wbxml Require Import Model.Alloc Proofs.AllocProofs.
Import ListNotations.
Local Open Scope N_scope.

(* ---------------------------------------------------------------- basic facts about the heap operations *)
Lemma in_del : forall x b l, In x (del b l) <-> In x l /\ x <> b.
Proof.
  intros x b l. unfold del. rewrite filter_In. split.
  - intros [H1 H2]. split; [exact H1|]. intros ->. rewrite N.eqb_refl in H2. discriminate.
  - intros [H1 H2]. split; [exact H1|]. destruct (N.eqb b x) eqn:E; [apply N.eqb_eq in E; congruence | reflexivity].
Qed.

Lemma free_live : forall h b, In b (h_live h) ->
  free h (Some b) = mkHeap (h_next h) (del b (h_live h)) (b :: h_freed h) (h_reqs h) (h_bad h) (h_oracle h).
Proof. intros h b H. unfold free. apply mem_In in H. rewrite H. reflexivity. Qed.
Lemma use_live : forall h b, In b (h_live h) -> use h (Some b) = h.
Proof. intros h b H. unfold use. apply mem_In in H. rewrite H. reflexivity. Qed.

(* releasing a set of distinct live blocks one after the other, in any of the orders the destructors use *)
Fixpoint frees (h : heap) (bs : list N) : heap :=
  match bs with [] => h | b :: r => frees (free h (Some b)) r end.

Lemma frees_ok : forall bs h, NoDup bs -> incl bs (h_live h) ->
  h_bad (frees h bs) = h_bad h /\ h_next (frees h bs) = h_next h /\ h_oracle (frees h bs) = h_oracle h /\
  (forall x, In x (h_live (frees h bs)) <-> In x (h_live h) /\ ~ In x bs).
Proof.
  induction bs as [|b r IH]; intros h Hnd Hin.
  - cbn. repeat split; try tauto.
  - inversion Hnd as [|? ? Hnb Hnd']; subst. cbn [frees].
    assert (Hb : In b (h_live h)) by (apply Hin; left; reflexivity).
    rewrite (free_live h b Hb).
    specialize (IH (mkHeap (h_next h) (del b (h_live h)) (b :: h_freed h) (h_reqs h) (h_bad h) (h_oracle h)) Hnd').
    cbn [h_live h_bad h_next h_oracle] in IH.
    destruct IH as [I1 [I2 [I3 I4]]].
    { intros x Hx. apply in_del. split; [apply Hin; right; exact Hx | intros ->; contradiction]. }
    split; [assumption|]. split; [assumption|]. split; [assumption|].
    intros x. rewrite I4. rewrite in_del. cbn [In]. split.
    + intros [[H1 H2] H3]. split; [exact H1|]. intros [Hb'|Hr]; [apply H2; symmetry; exact Hb' | exact (H3 Hr)].
    + intros [H1 H2]. split; [split; [exact H1 | intros ->; apply H2; left; reflexivity] | intros Hr; apply H2; right; exact Hr].
Qed.

(* ---------------------------------------------------------------- wbxml_list_destroy, any length *)
(* the order in which wbxml_list_destroy releases the blocks of a list of buffers *)
Definition buf_release_order (b : buffer) : list N := match b_data b with Some d => [d; b_blk b] | None => [b_blk b] end.
Fixpoint elts_release_order (es : list (N * buffer)) : list N :=
  match es with [] => [] | (e, b) :: r => buf_release_order b ++ [e] ++ elts_release_order r end.

Lemma frees_app : forall a b h, frees h (a ++ b) = frees (frees h a) b.
Proof. induction a as [|x a IH]; intros b h; cbn; [reflexivity | apply IH]. Qed.

(* on blocks that are live and distinct, destroying = releasing in that order (the reads in between find live blocks) *)
Lemma buffer_destroy_frees : forall h b, NoDup (buf_release_order b) -> incl (buf_release_order b) (h_live h) ->
  buffer_destroy h (Some b) = frees h (buf_release_order b).
Proof. intros h [blk [d|]] _ _; reflexivity. Qed.

Lemma elts_destroy_frees : forall es h, NoDup (elts_release_order es) -> incl (elts_release_order es) (h_live h) ->
  elts_destroy buf_item_destroy h es = frees h (elts_release_order es).
Proof.
  induction es as [|[e b] r IH]; intros h Hnd Hin; [reflexivity|].
  cbn [elts_destroy elts_release_order] in *.
  assert (He : In e (h_live h)). { apply Hin. apply in_or_app. right. left. reflexivity. }
  rewrite (use_live h e He). unfold buf_item_destroy.
  assert (Hnd2 : NoDup ([e] ++ elts_release_order r)).
  { clear - Hnd. induction (buf_release_order b) as [|x l IHl]; [exact Hnd | inversion Hnd; subst; apply IHl; assumption]. }
  assert (Hnd1 : NoDup (buf_release_order b)).
  { clear - Hnd. induction (buf_release_order b) as [|x l IHl]; [constructor|].
    inversion Hnd; subst. constructor; [intros Hx; apply H1; apply in_or_app; left; exact Hx | apply IHl; exact H2]. }
  rewrite buffer_destroy_frees; [| exact Hnd1 | intros x Hx; apply Hin; apply in_or_app; left; exact Hx].
  rewrite !frees_app. cbn [frees app].
  f_equal.
  (* the rest: apply IH on the heap after releasing the buffer and the element *)
  set (h1 := frees h (buf_release_order b)).
  destruct (frees_ok (buf_release_order b) h Hnd1) as [_ [_ [_ Hl1]]].
  { intros x Hx; apply Hin; apply in_or_app; left; exact Hx. }
  assert (He1 : In e (h_live h1)).
  { apply Hl1. split; [exact He|]. intros Hx. clear - Hnd Hx.
    induction (buf_release_order b) as [|y l IHl]; [contradiction|].
    cbn in Hnd. inversion Hnd; subst. destruct Hx as [->|Hx]; [apply H1; apply in_or_app; right; left; reflexivity | apply IHl; assumption]. }
  change (frees (free h1 (Some e)) (elts_release_order r)) with (frees (free h1 (Some e)) (elts_release_order r)).
  symmetry. rewrite <- IH.
  - reflexivity.
  - inversion Hnd2; assumption.
  - intros x Hx. rewrite (free_live h1 e He1). cbn [h_live]. apply in_del. split.
    + apply Hl1. split; [apply Hin; apply in_or_app; right; right; exact Hx|].
      intros Hxb. clear - Hnd Hx Hxb.
      induction (buf_release_order b) as [|y l IHl]; [contradiction|].
      cbn in Hnd. inversion Hnd; subst. destruct Hxb as [->|Hxb];
        [apply H1; apply in_or_app; right; right; exact Hx | apply IHl; assumption].
    + intros ->. inversion Hnd2; subst. contradiction.
Qed.

(* wbxml_list_destroy(list, wbxml_buffer_destroy_item) on a list of ANY length whose blocks are distinct and live:
   no violation, and exactly the blocks of the list leave the live set *)
Theorem list_destroy_all : forall (l : wlist buffer) h,
  clean h ->
  NoDup (elts_release_order (l_elts l) ++ [l_blk l]) -> incl (elts_release_order (l_elts l) ++ [l_blk l]) (h_live h) ->
  clean (list_destroy buf_item_destroy h (Some l)) /\
  forall x, In x (h_live (list_destroy buf_item_destroy h (Some l))) <->
            In x (h_live h) /\ ~ In x (elts_release_order (l_elts l) ++ [l_blk l]).
Proof.
  intros l h Hc Hnd Hin. unfold list_destroy.
  assert (Hl : In (l_blk l) (h_live h)) by (apply Hin; apply in_or_app; right; left; reflexivity).
  rewrite (use_live h _ Hl).
  rewrite elts_destroy_frees.
  - change (free (frees h (elts_release_order (l_elts l))) (Some (l_blk l)))
      with (frees (frees h (elts_release_order (l_elts l))) [l_blk l]).
    rewrite <- frees_app.
    destruct (frees_ok _ h Hnd Hin) as [H1 [_ [_ H4]]]. split; [unfold clean; rewrite H1; exact Hc | exact H4].
  - clear - Hnd. induction (elts_release_order (l_elts l)) as [|x r IH]; [constructor|].
    cbn in Hnd. inversion Hnd; subst. constructor; [intros Hx; apply H1; apply in_or_app; left; exact Hx | apply IH; exact H2].
  - intros x Hx. apply Hin. apply in_or_app. left. exact Hx.
Qed.

(* ---------------------------------------------------------------- parse_element's attribute table, any number of attributes *)
Definition fresh (h : heap) : Prop := forall b, In b (h_live h) -> b < h_next h.
Definition otable (t : option N) : list N := match t with Some t => [t] | None => [] end.

Lemma alloc_spec : forall h, let '(h', p) := alloc h in
  h_bad h' = h_bad h /\
  ((p = None /\ h_live h' = h_live h /\ h_next h' = h_next h) \/
   (p = Some (h_next h) /\ h_live h' = h_next h :: h_live h /\ h_next h' = h_next h + 1)).
Proof.
  intros h. unfold alloc, next_answer. destruct (h_oracle h) as [|[|] o]; cbn; split; auto.
Qed.
Lemma realloc_spec : forall h t, (forall b, t = Some b -> In b (h_live h)) ->
  let '(h', p) := realloc h t in
  h_bad h' = h_bad h /\
  ((p = None /\ h_live h' = h_live h /\ h_next h' = h_next h) \/
   (p = Some (h_next h) /\ h_next h' = h_next h + 1 /\
    h_live h' = h_next h :: match t with Some b => del b (h_live h) | None => h_live h end)).
Proof.
  intros h t Ht. unfold realloc, next_answer.
  destruct (h_oracle h) as [|[|] o]; cbn; try (split; auto; fail);
    (destruct t as [b|]; [specialize (Ht b eq_refl); apply mem_In in Ht; rewrite Ht|]; cbn; split; auto).
Qed.

Lemma fold_free_frees : forall es h, fold_left (fun h a => free h (Some a)) es h = frees h es.
Proof. induction es as [|a r IH]; intros h; cbn; [reflexivity | apply IH]. Qed.

(* releasing the element tag, the attribute being added (if any), the table and its entries
   (free_attrs_table does nothing without a table: there are no entries then) *)
Lemma cleanup_frees : forall h element extra table entries,
  (table = None -> entries = []) ->
  NoDup ((element :: extra) ++ entries ++ otable table) -> incl ((element :: extra) ++ entries ++ otable table) (h_live h) ->
  free_attrs_table (frees h (element :: extra)) table entries = frees h ((element :: extra) ++ entries ++ otable table).
Proof.
  intros h element extra table entries Hte Hnd Hin.
  rewrite frees_app. set (h1 := frees h (element :: extra)).
  destruct table as [t|]; cbn [free_attrs_table otable].
  - assert (Hnd1 : NoDup (element :: extra)).
    { clear - Hnd. induction (element :: extra) as [|x l IHl]; [constructor|]. cbn in Hnd. inversion Hnd; subst.
      constructor; [intros Hx; apply H1; apply in_or_app; left; exact Hx | apply IHl; exact H2]. }
    destruct (frees_ok (element :: extra) h Hnd1) as [_ [_ [_ Hl]]].
    { intros x Hx. apply Hin. apply in_or_app. left. exact Hx. }
    assert (Ht : In t (h_live h1)).
    { apply Hl. split; [apply Hin; apply in_or_app; right; apply in_or_app; right; left; reflexivity|].
      intros Hx. clear - Hnd Hx. induction (element :: extra) as [|y l IHl]; [contradiction|].
      cbn in Hnd. inversion Hnd; subst. destruct Hx as [->|Hx];
        [apply H1; apply in_or_app; right; apply in_or_app; right; left; reflexivity | apply IHl; assumption]. }
    rewrite (use_live h1 t Ht), fold_free_frees.
    change (free (frees h1 entries) (Some t)) with (frees (frees h1 entries) [t]). rewrite <- frees_app. reflexivity.
  - rewrite (Hte eq_refl). reflexivity.
Qed.

Lemma nodup_app_disj : forall (x : N) l1 l2, NoDup (l1 ++ l2) -> In x l1 -> In x l2 -> False.
Proof.
  intros x l1 l2. induction l1 as [|y l IH]; intros Hnd H1 H2; [contradiction|].
  cbn in Hnd. inversion Hnd; subst. destruct H1 as [->|H1]; [apply H3; apply in_or_app; right; exact H2 | exact (IH H4 H1 H2)].
Qed.

(* the heap outside a set of owned blocks *)
Definition outside (h : heap) (owned : list N) (x : N) : Prop := In x (h_live h) /\ ~ In x owned.

Ltac memb := repeat (rewrite in_app_iff in * || rewrite in_del in * ); cbn [In otable] in *.

Theorem parse_element_attrs_fixed_all : forall n h element table entries,
  clean h -> fresh h -> (table = None -> entries = []) ->
  NoDup ((element :: []) ++ entries ++ otable table) -> incl ((element :: []) ++ entries ++ otable table) (h_live h) ->
  let '(h', r, st) := attrs_loop true n h element table entries in
  clean h' /\
  match st with
  | ERR => r = None /\ forall x, In x (h_live h') <-> outside h ((element :: []) ++ entries ++ otable table) x
  | OK => let owned' := (element :: []) ++ match r with Some (t, es) => es ++ [t] | None => [] end in
          NoDup owned' /\ incl owned' (h_live h') /\
          (match r with Some (t, es) => length es = (length entries + n)%nat | None => n = 0%nat /\ table = None end) /\
          forall x, outside h' owned' x <-> outside h ((element :: []) ++ entries ++ otable table) x
  end.
Proof.
  induction n as [|n IH]; intros h element table entries Hc Hf Hte Hnd Hin.
  - cbn [attrs_loop]. split; [exact Hc|].
    destruct table as [t|].
    + cbn [otable] in *. split; [exact Hnd|]. split; [exact Hin|]. split; [lia|]. intros x; tauto.
    + rewrite (Hte eq_refl) in *. cbn [otable app] in *. split; [exact Hnd|]. split; [exact Hin|]. split; [split; reflexivity|]. intros x; tauto.
  - cbn [attrs_loop].
    pose proof (alloc_spec h) as Ha. destruct (alloc h) as [h1 a].
    destruct Ha as [Hb1 [[-> [Hl1 Hn1]] | [-> [Hl1 Hn1]]]].
    + (* the attribute itself cannot be allocated *)
      change (free h1 (Some element)) with (frees h1 (element :: [])).
      rewrite cleanup_frees; [| exact Hte | exact Hnd | rewrite Hl1; exact Hin].
      destruct (frees_ok _ h1 Hnd) as [F1 [_ [_ F4]]]; [rewrite Hl1; exact Hin|].
      split; [unfold clean; rewrite F1, Hb1; exact Hc|]. split; [reflexivity|].
      intros x. rewrite F4, Hl1. unfold outside. tauto.
    + set (a := h_next h) in *.
      assert (Hafresh : ~ In a (h_live h)) by (intros Hx; apply Hf in Hx; unfold a in Hx; lia).
      assert (HaO : ~ In a ((element :: []) ++ entries ++ otable table)) by (intros Hx; apply Hafresh, Hin, Hx).
      assert (Htl : forall b, table = Some b -> In b (h_live h1)).
      { intros b ->. rewrite Hl1. right. apply Hin. apply in_or_app. right. apply in_or_app. right. left. reflexivity. }
      pose proof (realloc_spec h1 table Htl) as Hr. destruct (realloc h1 table) as [h2 t'].
      destruct Hr as [Hb2 [[-> [Hl2 Hn2]] | [-> [Hn2 Hl2]]]].
      * (* the table cannot grow: everything is released, the OLD table included *)
        change (free (free h2 (Some element)) (Some a)) with (frees h2 (element :: [a])).
        assert (Hnd' : NoDup ((element :: [a]) ++ entries ++ otable table)).
        { cbn in Hnd |- *. inversion Hnd; subst. constructor.
          - cbn. intros [Hx|Hx]; [apply HaO; left; symmetry; exact Hx | contradiction].
          - constructor; [intros Hx; apply HaO; right; exact Hx | assumption]. }
        assert (Hin' : incl ((element :: [a]) ++ entries ++ otable table) (h_live h2)).
        { rewrite Hl2, Hl1. intros x Hx. cbn in Hx. destruct Hx as [<-|[<-|Hx]];
            [right; apply Hin; left; reflexivity | left; reflexivity | right; apply Hin; right; exact Hx]. }
        rewrite cleanup_frees; [| exact Hte | exact Hnd' | exact Hin'].
        destruct (frees_ok _ h2 Hnd' Hin') as [F1 [_ [_ F4]]].
        split; [unfold clean; rewrite F1, Hb2, Hb1; exact Hc|]. split; [reflexivity|].
        intros x. rewrite F4, Hl2, Hl1. unfold outside. cbn [In app]. cbn [In app] in HaO. intuition (subst; tauto).
      * (* the table has grown *)
        set (t2 := h_next h1) in *.
        assert (Ht2 : In t2 (h_live h2)) by (rewrite Hl2; left; reflexivity).
        rewrite (use_live h2 t2 Ht2).
        assert (Hlt : forall x, In x (h_live h) -> x <> a /\ x <> t2).
        { intros x Hx. apply Hf in Hx. rewrite Hn1. unfold a in *. lia. }
        assert (Hat2 : a <> t2) by (rewrite Hn1; lia).
        specialize (IH h2 element (Some t2) (entries ++ [a])).
        cbn [app] in HaO, Hin.
        assert (Hl2' : forall x, In x (h_live h2) <-> x = t2 \/ ((x = a \/ In x (h_live h)) /\ ~ In x (otable table))).
        { intros x. rewrite Hl2. destruct table as [t|]; cbn [In otable]; rewrite ?in_del, Hl1; cbn [In]; intuition. }
        destruct (attrs_loop true n h2 element (Some t2) (entries ++ [a])) as [[h' r] st].
        destruct IH as [I1 I2].
        { unfold clean. rewrite Hb2, Hb1. exact Hc. }
        { intros x Hx. rewrite Hn2. apply Hl2' in Hx.
          destruct Hx as [->|[[->|Hx] _]]; [lia | rewrite Hn1; lia |].
          apply Hf in Hx. rewrite Hn1. unfold a in *. lia. }
        { discriminate. }
        { cbn [otable]. cbn in Hnd |- *. inversion Hnd as [|? ? Hne Hnd0]; subst.
          constructor.
          - destruct (Hlt element) as [Hel1 Hel2]; [apply Hin; left; reflexivity|].
            memb. intuition congruence.
          - rewrite <- app_assoc. cbn [app].
            assert (Hnd1 : NoDup entries).
            { clear - Hnd0. induction entries as [|y l IHl]; [constructor|]. cbn in Hnd0. inversion Hnd0; subst.
              constructor; [intros Hy; apply H1; apply in_or_app; left; exact Hy | apply IHl; exact H2]. }
            assert (Hea : ~ In a entries) by (intros Hx; apply HaO; right; apply in_or_app; left; exact Hx).
            assert (Het : ~ In t2 entries).
            { intros Hx. destruct (Hlt t2) as [_ H]; [apply Hin; right; apply in_or_app; left; exact Hx | apply H; reflexivity]. }
            clear - Hnd1 Hea Het Hat2.
            induction entries as [|y l IHl].
            + cbn. constructor; [cbn; intros [H|[]]; apply Hat2; symmetry; exact H | constructor; [intros [] | constructor]].
            + cbn. inversion Hnd1; subst. constructor.
              * memb. intros [Hy|[Hy|[Hy|[]]]]; [contradiction | apply Hea; left; symmetry; exact Hy | apply Het; left; symmetry; exact Hy].
              * apply IHl; [assumption | intros Hx; apply Hea; right; exact Hx | intros Hx; apply Het; right; exact Hx]. }
        { cbn [otable]. intros x Hx. apply Hl2'.
          assert (Hnd2 := Hnd). cbn [app] in Hnd2. inversion Hnd2 as [|? ? Hne Hnd0]; subst.
          assert (D : forall y, In y (otable table) -> y <> element /\ ~ In y entries /\ y <> a).
          { intros y Hy. repeat split.
            - intros ->. apply Hne. apply in_or_app. right. exact Hy.
            - intros Hye. exact (nodup_app_disj _ _ _ Hnd0 Hye Hy).
            - intros ->. apply HaO. right. apply in_or_app. right. exact Hy. }
          cbn [app In] in Hx. rewrite !in_app_iff in Hx. cbn [In] in Hx.
          destruct Hx as [Hx|[[Hx|[Hx|[]]]|[Hx|[]]]]; subst.
          - right. split; [right; apply Hin; left; reflexivity | intros Hy; destruct (D _ Hy) as [H _]; apply H; reflexivity].
          - right. split; [right; apply Hin; right; apply in_or_app; left; exact Hx | intros Hy; destruct (D _ Hy) as [_ [H _]]; exact (H Hx)].
          - right. split; [left; reflexivity | intros Hy; destruct (D _ Hy) as [_ [_ H]]; apply H; reflexivity].
          - left. reflexivity. }
        split; [exact I1|].
        assert (Hout : forall x, outside h2 ((element :: []) ++ (entries ++ [a]) ++ otable (Some t2)) x <->
                                 outside h ((element :: []) ++ entries ++ otable table) x).
        { intros x. unfold outside. rewrite Hl2'. memb.
          split.
          - intros [[Hx|[[Hx|Hx] Hnt]] Hno]; [exfalso; apply Hno; right; right; left; symmetry; exact Hx
                                              | exfalso; apply Hno; right; left; right; left; symmetry; exact Hx |].
            split; [exact Hx|]. intros [He|[He|He]]; [apply Hno; left; exact He | apply Hno; right; left; left; exact He | exact (Hnt He)].
          - intros [Hx Hno]. destruct (Hlt x Hx) as [Hxa Hxt].
            split; [right; split; [right; exact Hx | intros He; apply Hno; right; right; exact He]|].
            intros [He|[[He|[He|[]]]|[He|[]]]]; [apply Hno; left; exact He | apply Hno; right; left; exact He
                                                  | apply Hxa; symmetry; exact He | apply Hxt; symmetry; exact He]. }
        destruct st.
        -- destruct I2 as [J1 [J2 [J3 J4]]]. split; [exact J1|]. split; [exact J2|]. split.
           ++ destruct r as [[t es]|]; [rewrite J3, app_length; cbn; lia | destruct J3 as [_ J3]; discriminate].
           ++ intros x. rewrite J4. apply Hout.
        -- destruct I2 as [J1 J2]. split; [exact J1|]. intros x. rewrite J2. apply Hout.
Qed.
