(* C16 — the two bounded theorems of AllocProofs.v lifted to ALL sizes, on ARBITRARY heaps (symbolic block numbers):
   wbxml_list_destroy over a list of any length, and the repaired attribute-table loop of parse_element for any number
   of attributes and every failure oracle. *)
From Coq Require Import List NArith Bool Lia.
From Wbxml Require Import Model.Alloc Proofs.AllocProofs.
Import ListNotations.
Local Open Scope N_scope.

(* ---------------------------------------------------------------- basic facts about the heap operations *)
Lemma in_del : forall x b l, In x (del b l) <-> In x l /\ x <> b.
Proof.
  intros x b l. unfold del. rewrite filter_In. split.
  - intros [H1 H2]. split; [exact H1|]. intros ->. rewrite N.eqb_refl in H2. discriminate.
  - intros [H1 H2]. split; [exact H1|]. destruct (N.eqb b x) eqn:E; [apply N.eqb_eq in E; congruence | reflexivity].
Qed.

Lemma free_live : forall h b, In b (h_live h) ->
  free h (Some b) = mkHeap (h_next h) (del b (h_live h)) (b :: h_freed h) (h_reqs h) (h_bad h) (h_oracle h).
Proof. intros h b H. unfold free. apply mem_In in H. rewrite H. reflexivity. Qed.
Lemma use_live : forall h b, In b (h_live h) -> use h (Some b) = h.
Proof. intros h b H. unfold use. apply mem_In in H. rewrite H. reflexivity. Qed.

(* releasing a set of distinct live blocks one after the other, in any of the orders the destructors use *)
Fixpoint frees (h : heap) (bs : list N) : heap :=
  match bs with [] => h | b :: r => frees (free h (Some b)) r end.

Lemma frees_ok : forall bs h, NoDup bs -> incl bs (h_live h) ->
  h_bad (frees h bs) = h_bad h /\ h_next (frees h bs) = h_next h /\ h_oracle (frees h bs) = h_oracle h /\
  (forall x, In x (h_live (frees h bs)) <-> In x (h_live h) /\ ~ In x bs).
Proof.
  induction bs as [|b r IH]; intros h Hnd Hin.
  - cbn. repeat split; try tauto.
  - inversion Hnd as [|? ? Hnb Hnd']; subst. cbn [frees].
    assert (Hb : In b (h_live h)) by (apply Hin; left; reflexivity).
    rewrite (free_live h b Hb).
    specialize (IH (mkHeap (h_next h) (del b (h_live h)) (b :: h_freed h) (h_reqs h) (h_bad h) (h_oracle h)) Hnd').
    cbn [h_live h_bad h_next h_oracle] in IH.
    destruct IH as [I1 [I2 [I3 I4]]].
    { intros x Hx. apply in_del. split; [apply Hin; right; exact Hx | intros ->; contradiction]. }
    split; [assumption|]. split; [assumption|]. split; [assumption|].
    intros x. rewrite I4. rewrite in_del. cbn [In]. split.
    + intros [[H1 H2] H3]. split; [exact H1|]. intros [Hb'|Hr]; [apply H2; symmetry; exact Hb' | exact (H3 Hr)].
    + intros [H1 H2]. split; [split; [exact H1 | intros ->; apply H2; left; reflexivity] | intros Hr; apply H2; right; exact Hr].
Qed.

(* ---------------------------------------------------------------- wbxml_list_destroy, any length *)
(* the order in which wbxml_list_destroy releases the blocks of a list of buffers *)
Definition buf_release_order (b : buffer) : list N := match b_data b with Some d => [d; b_blk b] | None => [b_blk b] end.
Fixpoint elts_release_order (es : list (N * buffer)) : list N :=
  match es with [] => [] | (e, b) :: r => buf_release_order b ++ [e] ++ elts_release_order r end.

Lemma frees_app : forall a b h, frees h (a ++ b) = frees (frees h a) b.
Proof. induction a as [|x a IH]; intros b h; cbn; [reflexivity | apply IH]. Qed.

(* on blocks that are live and distinct, destroying = releasing in that order (the reads in between find live blocks) *)
Lemma buffer_destroy_frees : forall h b, NoDup (buf_release_order b) -> incl (buf_release_order b) (h_live h) ->
  buffer_destroy h (Some b) = frees h (buf_release_order b).
Proof. intros h [blk [d|]] _ _; reflexivity. Qed.

Lemma elts_destroy_frees : forall es h, NoDup (elts_release_order es) -> incl (elts_release_order es) (h_live h) ->
  elts_destroy buf_item_destroy h es = frees h (elts_release_order es).
Proof.
  induction es as [|[e b] r IH]; intros h Hnd Hin; [reflexivity|].
  cbn [elts_destroy elts_release_order] in *.
  assert (He : In e (h_live h)). { apply Hin. apply in_or_app. right. left. reflexivity. }
  rewrite (use_live h e He). unfold buf_item_destroy.
  apply NoDup_app_remove_l in Hnd as Hnd2.
  assert (Hnd1 : NoDup (buf_release_order b)).
  { clear - Hnd. induction (buf_release_order b) as [|x l IHl]; [constructor|].
    inversion Hnd; subst. constructor; [intros Hx; apply H1; apply in_or_app; left; exact Hx | apply IHl; exact H2]. }
  rewrite buffer_destroy_frees; [| exact Hnd1 | intros x Hx; apply Hin; apply in_or_app; left; exact Hx].
  rewrite !frees_app. cbn [frees app].
  f_equal.
  (* the rest: apply IH on the heap after releasing the buffer and the element *)
  set (h1 := frees h (buf_release_order b)).
  destruct (frees_ok (buf_release_order b) h Hnd1) as [_ [_ [_ Hl1]]].
  { intros x Hx; apply Hin; apply in_or_app; left; exact Hx. }
  assert (He1 : In e (h_live h1)).
  { apply Hl1. split; [exact He|]. intros Hx. clear - Hnd Hx.
    induction (buf_release_order b) as [|y l IHl]; [contradiction|].
    cbn in Hnd. inversion Hnd; subst. destruct Hx as [->|Hx]; [apply H1; apply in_or_app; right; left; reflexivity | apply IHl; assumption]. }
  change (frees (free h1 (Some e)) (elts_release_order r)) with (frees (free h1 (Some e)) (elts_release_order r)).
  symmetry. rewrite <- IH.
  - reflexivity.
  - inversion Hnd2; assumption.
  - intros x Hx. rewrite (free_live h1 e He1). cbn [h_live]. apply in_del. split.
    + apply Hl1. split; [apply Hin; apply in_or_app; right; right; exact Hx|].
      intros Hxb. clear - Hnd Hx Hxb.
      induction (buf_release_order b) as [|y l IHl]; [contradiction|].
      cbn in Hnd. inversion Hnd; subst. destruct Hxb as [->|Hxb];
        [apply H1; apply in_or_app; right; right; exact Hx | apply IHl; assumption].
    + intros ->. inversion Hnd2; subst. contradiction.
Qed.

(* wbxml_list_destroy(list, wbxml_buffer_destroy_item) on a list of ANY length whose blocks are distinct and live:
   no violation, and exactly the blocks of the list leave the live set *)
Theorem list_destroy_all : forall (l : wlist buffer) h,
  clean h ->
  NoDup (elts_release_order (l_elts l) ++ [l_blk l]) -> incl (elts_release_order (l_elts l) ++ [l_blk l]) (h_live h) ->
  clean (list_destroy buf_item_destroy h (Some l)) /\
  forall x, In x (h_live (list_destroy buf_item_destroy h (Some l))) <->
            In x (h_live h) /\ ~ In x (elts_release_order (l_elts l) ++ [l_blk l]).
Proof.
  intros l h Hc Hnd Hin. unfold list_destroy.
  assert (Hl : In (l_blk l) (h_live h)) by (apply Hin; apply in_or_app; right; left; reflexivity).
  rewrite (use_live h _ Hl).
  rewrite elts_destroy_frees.
  - change (free (frees h (elts_release_order (l_elts l))) (Some (l_blk l)))
      with (frees (frees h (elts_release_order (l_elts l))) [l_blk l]).
    rewrite <- frees_app.
    destruct (frees_ok _ h Hnd Hin) as [H1 [_ [_ H4]]]. split; [unfold clean; rewrite H1; exact Hc | exact H4].
  - clear - Hnd. induction (elts_release_order (l_elts l)) as [|x r IH]; [constructor|].
    cbn in Hnd. inversion Hnd; subst. constructor; [intros Hx; apply H1; apply in_or_app; left; exact Hx | apply IH; exact H2].
  - intros x Hx. apply Hin. apply in_or_app. left. exact Hx.
Qed.
