(* C02 (front end) — the tree the front end builds is linear in the volume of the events Expat delivers: one unit per node,
   the names, attribute names and values, the text octets (embedded trees count as one node here: each is the front end's
   tree for its own event list). *)
From Coq Require Import List NArith PeanoNat Lia Bool String Ascii.
From Wbxml Require Import Model.TablesDefs Model.Tables Model.Codec Model.LangSelect Model.EncWbxml Model.XmlFront.
From Wbxml Require Import Proofs.XmlFrontProofs Proofs.XmlFrontTree Proofs.EncWbxmlSize Proofs.EncWbxmlSize2.
Import ListNotations.
Local Open Scope nat_scope.

(* ------------------------------------------------------------------ measures *)

Fixpoint nsz (n : node) : nat :=
  match n with
  | NElt tag attrs kids =>
    1 + L (tag_xml_name tag) + attrs_size attrs +
    (fix sum (l : list node) : nat := match l with [] => 0 | x :: r => nsz x + sum r end) kids
  | NText c => 1 + L c
  | NCData kids => 1 + (fix sum (l : list node) : nat := match l with [] => 0 | x :: r => nsz x + sum r end) kids
  | NPi => 1
  | NTree _ _ => 1
  end.
Fixpoint nszs (l : list node) : nat := match l with [] => 0 | x :: r => nsz x + nszs r end.

Lemma sum_nszs l : (fix sum (l : list node) : nat := match l with [] => 0 | x :: r => nsz x + sum r end) l = nszs l.
Proof. induction l as [|x r IH]; [reflexivity|]. cbn [nszs]. now rewrite IH. Qed.

Lemma nszs_app a b : nszs (a ++ b) = nszs a + nszs b.
Proof. induction a as [|x a IH]; cbn [nszs app]; lia. Qed.
Lemma nszs_rev l : nszs (rev l) = nszs l.
Proof. induction l as [|x r IH]; [reflexivity|]. cbn [rev nszs]. rewrite nszs_app. cbn [nszs]. lia. Qed.

(* what the embedded documents add to the weighted size of Proofs/EncWbxmlSize2.v *)
Fixpoint emb (h : nat) (n : node) : nat :=
  match n with
  | NElt _ _ kids => (fix sum (l : list node) : nat := match l with [] => 0 | x :: r => emb h x + sum r end) kids
  | NCData kids => (fix sum (l : list node) : nat := match l with [] => 0 | x :: r => emb h x + sum r end) kids
  | NTree _ roots => h + 2 * wsizes h roots
  | NText _ | NPi => 0
  end.
Fixpoint embs (h : nat) (l : list node) : nat := match l with [] => 0 | x :: r => emb h x + embs h r end.

Lemma wsize_split h : forall n, wsize h n = nsz n + emb h n.
Proof.
  fix IH 1. intros n. destruct n as [tag attrs kids|c|kids| |lid roots]; cbn [wsize nsz emb]; try lia.
  - assert (G : forall ks, (fix sum (l : list node) : nat := match l with [] => 0 | x :: r => wsize h x + sum r end) ks =
                           (fix sum (l : list node) : nat := match l with [] => 0 | x :: r => nsz x + sum r end) ks +
                           (fix sum (l : list node) : nat := match l with [] => 0 | x :: r => emb h x + sum r end) ks).
    { induction ks as [|x r IHk]; [reflexivity|]. rewrite IHk, (IH x). lia. }
    rewrite (G kids). lia.
  - assert (G : forall ks, (fix sum (l : list node) : nat := match l with [] => 0 | x :: r => wsize h x + sum r end) ks =
                           (fix sum (l : list node) : nat := match l with [] => 0 | x :: r => nsz x + sum r end) ks +
                           (fix sum (l : list node) : nat := match l with [] => 0 | x :: r => emb h x + sum r end) ks).
    { induction ks as [|x r IHk]; [reflexivity|]. rewrite IHk, (IH x). lia. }
    rewrite (G kids). lia.
  - rewrite sum_wsizes. lia.
Qed.

Lemma wsizes_split h l : wsizes h l = nszs l + embs h l.
Proof. induction l as [|x r IH]; [reflexivity|]. cbn [wsizes nszs embs]. rewrite IH, wsize_split. lia. Qed.

(* the volume of an event *)
Definition pairs_size (l : list (bytes * bytes)) : nat := fold_right (fun nv n => 1 + L (fst nv) + L (snd nv) + n) 0 l.
Definition evcost (e : event) : nat :=
  match e with
  | EvStartElement name attrs _ => 2 + L name + pairs_size attrs
  | EvEndElement _ _ => 2
  | EvCharacters ch => L ch + 3
  | EvStartCdata => 1
  | _ => 0
  end.
Fixpoint evvol (evs : list event) : nat := match evs with [] => 0 | e :: r => evcost e + evvol r end.

(* ------------------------------------------------------------------ names keep their length *)

Lemma bs_str_len b : L (bs (str b)) = L b.
Proof.
  unfold bs, str, bytes_of_string. rewrite map_length. induction b as [|x r IH]; [reflexivity|].
  cbn [string_of_bytes fold_right list_ascii_of_string List.length]. now rewrite <- IH.
Qed.

Lemma streq_eq a b : streq a b = true -> a = b.
Proof. unfold streq. apply String.eqb_eq. Qed.

Lemma tag_pass1_name rows : forall c name fc e, tag_pass1 rows c name fc = Some e -> t_name e = name.
Proof.
  induction rows as [|x r IH]; intros c name fc e; cbn [tag_pass1]; [discriminate|].
  destruct (N.eqb (t_page x) c).
  - destruct (streq (t_name x) name) eqn:SE; [intros H; injection H as <-; now apply streq_eq|]. apply IH.
  - destruct fc; [discriminate|]. apply IH.
Qed.

Lemma tag_from_xml_name l cur name e : tag_from_xml l cur name = Some e -> t_name e = name.
Proof.
  unfold tag_from_xml. destruct (l_tags l) as [rows|]; [|discriminate].
  destruct (match cur with Some c => tag_pass1 rows c name false | None => None end) as [e1|] eqn:P1.
  - intros H; injection H as <-. destruct cur; [eapply tag_pass1_name; eassumption|discriminate].
  - unfold tag_pass2. intros H. apply find_some in H. destruct H as [_ H]. apply andb_true_iff in H. apply streq_eq. tauto.
Qed.

Lemma split_last_len sep : forall s a b, split_last sep s = Some (a, b) -> L b < L s.
Proof.
  induction s as [|x r IH]; intros a b; cbn [split_last]; [discriminate|].
  destruct (split_last sep r) as [[a' b']|] eqn:SL.
  - intros H; injection H as <- <-. specialize (IH _ _ eq_refl). cbn [List.length]. lia.
  - destruct (N.eqb x sep); [|discriminate]. intros H; injection H as <- <-. cbn [List.length]. lia.
Qed.

Lemma resolve_tag_len l name : L (tag_xml_name (fst (resolve_tag l name))) <= L name.
Proof.
  unfold resolve_tag. destruct (split_last SEP name) as [[a b]|] eqn:SL.
  - pose proof (split_last_len _ _ _ _ SL). destruct (tag_from_xml l _ (str b)) as [row|] eqn:T; cbn; [|lia].
    rewrite (tag_from_xml_name _ _ _ _ T), bs_str_len. lia.
  - destruct (tag_from_xml l _ (str name)) as [row|] eqn:T; cbn; [|lia].
    rewrite (tag_from_xml_name _ _ _ _ T), bs_str_len. lia.
Qed.

Lemma attr_loop_name rows : forall name value found comp r,
  fst (Tables.attr_loop rows name value found comp) = Some r -> found = Some r \/ a_name r = name.
Proof.
  induction rows as [|x rest IH]; intros name value found comp r; cbn [Tables.attr_loop].
  - destruct found; cbn; intros H; [left; exact H|discriminate].
  - destruct (streq (a_name x) name) eqn:SE.
    + apply streq_eq in SE. destruct (a_value x) as [ev|].
      * destruct value as [v|].
        -- destruct (streq ev v); [cbn; intros H; injection H as <-; now right|].
           destruct (_ && _ && _).
           ++ intros H. destruct (IH _ _ _ _ _ H) as [X|X]; [injection X as <-; now right|now right].
           ++ apply IH.
        -- apply IH.
      * destruct value as [v|].
        -- intros H. destruct (IH _ _ _ _ _ H) as [X|X]; [|now right].
           destruct found; [now left|injection X as <-; now right].
        -- cbn. intros H; injection H as <-. now right.
    + apply IH.
Qed.

Lemma resolve_attr_size l nv : asz (resolve_attr l nv) = 1 + L (fst nv) + L (snd nv).
Proof.
  destruct nv as [name value]. unfold resolve_attr, asz, attr_xml_name.
  destruct (fst (attr_from_xml l (str name) (Some (str value)))) as [row|] eqn:A; cbn; [|lia].
  unfold attr_from_xml in A. destruct (l_attrs l) as [rows|]; [|discriminate].
  destruct (attr_loop_name _ _ _ _ _ _ A) as [X|X]; [discriminate|]. rewrite X, bs_str_len. lia.
Qed.

Lemma resolve_attrs_size l attrs : attrs_size (map (resolve_attr l) attrs) = pairs_size attrs.
Proof.
  induction attrs as [|nv r IH]; [reflexivity|]. cbn [map]. change (attrs_size (?a :: ?r)) with (asz a + attrs_size r).
  change (pairs_size (nv :: r)) with (1 + L (fst nv) + L (snd nv) + pairs_size r). rewrite IH, resolve_attr_size. lia.
Qed.

Lemma filter_len {A} (f : A -> bool) l : List.length (filter f l) <= List.length l.
Proof. induction l as [|x r IH]; [cbn; lia|]. cbn [filter]. destruct (f x); cbn [List.length]; lia. Qed.

Lemma buffer_b64_dec_len b d : buffer_b64_dec b = Some d -> L d <= L b.
Proof.
  unfold buffer_b64_dec, b64_dec. destruct (N.eqb _ 0); [discriminate|]. intros H; injection H as <-.
  rewrite firstn_length. pose proof (b64_dec_body_len (take_b64 (filter (fun c => negb (is_cspace c)) b))).
  pose proof (take_b64_len (filter (fun c => negb (is_cspace c)) b)). pose proof (filter_len (fun c => negb (is_cspace c)) b). lia.
Qed.

(* ------------------------------------------------------------------ the potential *)

Definition frame_w (f : frame) : nat :=
  match f_kind f with
  | FElt tag attrs content => 1 + L (tag_xml_name tag) + attrs_size attrs + match content with Some b => L b | None => 0 end
  | FCData => 1
  end + nszs (f_rkids f).

Fixpoint spine_w (sp : list frame) : nat := match sp with [] => 0 | f :: up => frame_w f + spine_w up end.

Definition Omega (c : ctx) : nat := spine_w (c_spine c) + match c_root c with Some r => nsz r | None => 0 end.

Lemma reify_w f : nsz (reify f) <= frame_w f.
Proof.
  unfold reify, frame_w. destruct (f_kind f) as [tag attrs content|]; cbn [nsz]; rewrite sum_nszs, kids_of_rev, nszs_rev; lia.
Qed.

Lemma add_kid_w f n : frame_w (add_kid f n) = frame_w f + nsz n.
Proof. unfold frame_w, add_kid. cbn. lia. Qed.

Lemma add_text_kid_w f t : frame_w (add_text_kid f t) <= frame_w f + 1 + L t.
Proof.
  unfold add_text_kid. destruct (f_rkids f) as [|[] r] eqn:E; try (rewrite add_kid_w; cbn; lia).
  unfold frame_w. cbn. rewrite E. cbn. rewrite app_length. lia.
Qed.

Section Sz.
  Variable main : list lang.
  Variable sub : bytes -> xtree + N.
  Variable input : bytes.
  Notation step := (step main sub input).
  Notation run := (run main sub input).

  Lemma go_up_w c : Omega (go_up c) <= Omega c.
  Proof.
    unfold Omega, go_up. destruct (c_spine c) as [|f [|p r]] eqn:S; cbn [c_spine c_root set_spine set_root]; rewrite ?S; cbn [spine_w]; [lia| |].
    - pose proof (reify_w f). destruct (c_root c); lia.
    - rewrite add_kid_w. pose proof (reify_w f). lia.
  Qed.

  Lemma push_frame_w c f err : Omega (push_frame c f err) <= Omega c + frame_w f.
  Proof.
    unfold Omega, push_frame. destruct (c_spine c) as [|g up] eqn:S; [destruct (c_root c) eqn:R|]; cbn [c_spine c_root set_spine set_error]; rewrite ?S, ?R; cbn [spine_w]; lia.
  Qed.

  Lemma add_text_w c t : Omega (add_text c t) <= Omega c + 1 + L t.
  Proof.
    unfold Omega, add_text. destruct (c_spine c) as [|g up] eqn:S; [destruct (c_root c) eqn:R|]; cbn [c_spine c_root set_spine set_error set_root]; rewrite ?S, ?R; cbn [spine_w nsz]; try lia.
    pose proof (add_text_kid_w g t). lia.
  Qed.

  Lemma flush_w c : Omega (flush_binary c) <= Omega c + 1.
  Proof.
    unfold flush_binary. destruct (c_spine c) as [|f up] eqn:S; [lia|].
    destruct (f_kind f) as [[p t o nm|nm] attrs [content|]|] eqn:K; try lia.
    destruct (negb (N.eqb (N.land o WBXML_TAG_OPTION_BINARY) 0)); [|lia].
    assert (W0 : frame_w (mk_frame (FElt (TagTok p t o nm) attrs None) (f_rkids f)) + L content = frame_w f).
    { unfold frame_w. cbn. rewrite K. cbn. lia. }
    destruct (buffer_b64_dec content) as [d|] eqn:B; unfold Omega; cbn [c_spine c_root set_spine set_error spine_w]; rewrite S; cbn [spine_w].
    - pose proof (add_text_kid_w (mk_frame (FElt (TagTok p t o nm) attrs None) (f_rkids f)) d). pose proof (buffer_b64_dec_len _ _ B). lia.
    - lia.
  Qed.

  Lemma leave_current_w c : Omega (leave_current c) <= Omega c.
  Proof.
    unfold leave_current. destruct (c_spine c) as [|f [|p r]] eqn:S; try (unfold Omega; cbn; lia).
    destruct (is_cdata_frame f); [pose proof (go_up_w (go_up c)); pose proof (go_up_w c); lia|apply go_up_w].
  Qed.

  Lemma Omega_set_error c e : Omega (set_error c e) = Omega c. Proof. reflexivity. Qed.

  Theorem Omega_step c e : Omega (step c e) <= Omega c + evcost e.
  Proof.
    destruct e as [version encoding|dname sysid pubid| |name attrs byte_index|name byte_index|ch| | |target data]; cbn [XmlFront.step evcost].
    - unfold on_xml_decl. destruct version, encoding; try lia. destruct (charset_get_mib b0); unfold Omega; cbn; lia.
    - unfold on_start_doctype. destruct (search_table main _ _ None); unfold Omega; cbn; lia.
    - lia.
    - (* start element *)
      unfold on_start_element.
      destruct (negb (N.eqb (c_error c) WBXML_OK)); [lia|].
      destruct (N.ltb 0 (c_skip_lvl c)); [unfold Omega; cbn; lia|].
      match goal with |- context [if negb (N.eqb (c_error ?x) WBXML_OK) then _ else _] => set (c1 := x) end.
      assert (H1 : Omega c1 = Omega c) by (subst c1; destruct (c_spine c); [destruct (c_lang c); [reflexivity|destruct (search_table _ _ _ _); reflexivity]|reflexivity]).
      clearbody c1.
      destruct (negb (N.eqb (c_error c1) WBXML_OK)); [lia|].
      destruct (is_embedded_name name && _); [unfold Omega in *; cbn; lia|].
      pose proof (flush_w c1) as FW. set (cf := flush_binary c1) in *. clearbody cf. unfold start_child.
      destruct (negb (N.eqb (c_error cf) WBXML_OK)); [lia|].
      destruct (N.leb WBXML_MAX_NESTING_DEPTH _); [rewrite Omega_set_error; lia|].
      destruct (c_lang cf) as [l|]; [|rewrite Omega_set_error; lia].
      pose proof (resolve_tag_len l name) as TL. destruct (resolve_tag l name) as [tag page]. cbn [fst] in TL.
      match goal with |- Omega (push_frame ?c2 ?f ?err) <= _ => pose proof (push_frame_w c2 f err) as PW end.
      assert (FWW : frame_w (mk_frame (FElt tag (map (resolve_attr l) attrs) None) []) = 1 + L (tag_xml_name tag) + pairs_size attrs).
      { unfold frame_w. cbn. rewrite resolve_attrs_size. lia. }
      change (Omega (set_page cf page)) with (Omega cf) in PW. lia.
    - (* end element *)
      unfold on_end_element. pose proof (flush_w c) as FW. set (cf := flush_binary c) in *. clearbody cf.
      pose proof (leave_current_w cf) as LV.
      destruct (negb (N.eqb (c_error cf) WBXML_OK)); [lia|].
      destruct (N.ltb 0 (c_skip_lvl cf)); [|lia].
      destruct (N.eqb (c_skip_lvl cf) 1); [|unfold Omega in *; cbn; lia].
      destruct (is_embedded_name name); [|lia].
      destruct (c_lang cf) as [tl|]; [|rewrite Omega_set_error; lia].
      destruct (beq name n_MgmtTree && negb (N.eqb (l_id tl) LANG_SYNCML12)); [rewrite Omega_set_error; lia|].
      match goal with |- context [match ?t with Some _ => _ | None => _ end] => destruct t as [id|] end; [|rewrite Omega_set_error; lia].
      destruct (get_table main id) as [el|]; [|rewrite Omega_set_error; lia].
      destruct (embedded_doc _ _ _ _ _) as [doc|]; [|rewrite Omega_set_error; lia].
      destruct (sub doc) as [t|e]; [|rewrite Omega_set_error; lia].
      destruct (c_spine cf) as [|f up] eqn:S; [destruct (c_root cf); rewrite Omega_set_error; lia|].
      unfold Omega in *. cbn [c_spine c_root set_spine set_skip spine_w]. rewrite S in FW. cbn [spine_w] in FW. rewrite add_kid_w. cbn [nsz]. lia.
    - (* characters *)
      unfold on_characters.
      destruct (negb (N.eqb (c_error c) WBXML_OK)); [lia|].
      destruct (N.ltb 0 (c_skip_lvl c)); [lia|].
      destruct (syncml_data_type (c_spine c)) as [dt|]; [|rewrite Omega_set_error; lia].
      match goal with |- Omega (let '(ch1, want_cdata) := ?p in _) <= _ => destruct p as [ch1 want] eqn:P end.
      assert (CL : L ch1 <= L ch + 1).
      { destruct dt; injection P as <- _; try lia; destruct ch as [|x [|y r]]; cbn [List.length]; try lia;
          destruct x as [|q]; cbn [List.length]; try lia;
          repeat (destruct q as [q|q|]; cbn [List.length]; try lia); destruct (prev_ends_cr _); cbn [List.length]; lia. }
      match goal with |- context [match c_spine ?x with _ => _ end] => set (c1 := x) end.
      assert (H1 : Omega c1 <= Omega c + 1).
      { subst c1. destruct (c_spine c) as [|f up]; [lia|]. destruct (want && _ && _); [|lia].
        match goal with |- Omega (push_frame ?c2 ?f ?err) <= _ => pose proof (push_frame_w c2 f err) as PW end.
        unfold frame_w in PW. cbn in PW. lia. }
      clearbody c1.
      destruct (c_spine c1) as [|f up] eqn:S; [pose proof (add_text_w c1 ch1); lia|].
      destruct (is_binary_frame f); [|pose proof (add_text_w c1 ch1); lia].
      destruct (f_kind f) as [tag at0 content|] eqn:K; [|lia].
      unfold Omega in *. cbn [c_spine c_root set_spine spine_w]. rewrite S in H1. cbn [spine_w] in H1.
      assert (FW : frame_w (mk_frame (FElt tag at0 (Some match content with Some b => (b ++ ch1)%list | None => ch1 end)) (f_rkids f)) <= frame_w f + L ch1).
      { unfold frame_w. cbn. rewrite K. destruct content; rewrite ?app_length; lia. }
      lia.
    - unfold on_start_cdata. destruct (negb (N.eqb (c_error c) WBXML_OK)); [lia|]. destruct (N.ltb 0 (c_skip_lvl c)); [lia|].
      match goal with |- Omega (push_frame ?c2 ?f ?err) <= _ => pose proof (push_frame_w c2 f err) as PW end.
      unfold frame_w in PW. cbn in PW. lia.
    - unfold on_end_cdata. destruct (negb (N.eqb (c_error c) WBXML_OK)); [lia|]. destruct (N.ltb 0 (c_skip_lvl c)); [lia|].
      destruct (c_spine c) as [|f [|p r]] eqn:S; try (rewrite ?Omega_set_error; lia). pose proof (go_up_w c). lia.
    - unfold on_pi. lia.
  Qed.

  Theorem Omega_run evs : forall c, Omega (run c evs) <= Omega c + evvol evs.
  Proof.
    induction evs as [|e r IH]; intros c; [cbn; lia|]. rewrite run_cons. cbn [evvol]. pose proof (IH (step c e)). pose proof (Omega_step c e). lia.
  Qed.

  Lemma close_spine_w sp : forall child,
    match close_spine child sp with
    | Some r => nsz r <= spine_w sp + match child with Some n => nsz n | None => 0 end
    | None => True
    end.
  Proof.
    induction sp as [|f up IH]; intros child; [cbn; destruct child; [lia|exact I]|].
    cbn [close_spine spine_w]. specialize (IH (Some (reify match child with Some n => add_kid f n | None => f end))).
    destruct (close_spine _ up); [|exact I].
    pose proof (reify_w match child with Some n => add_kid f n | None => f end) as RW.
    destruct child; [rewrite add_kid_w in RW|]; lia.
  Qed.

  (* the tree is no bigger than the events it was built from (embedded trees counted as single nodes) *)
  Theorem tree_size_linear evs ok t : tree_from_xml main sub input evs ok = inl t -> nszs (xt_roots t) <= evvol evs.
  Proof.
    unfold tree_from_xml. destruct input eqn:EI; [discriminate|]. rewrite <- EI. destruct ok; cbn [negb]; [|discriminate].
    destruct (negb (N.eqb (c_error (run init_ctx evs)) WBXML_OK)); [discriminate|].
    intros E. injection E as <-. unfold tree_of_ctx. cbn [xt_roots].
    pose proof (Omega_run evs init_ctx) as OR. change (Omega init_ctx) with 0 in OR. unfold Omega in OR. unfold root_of.
    destruct (c_spine (run init_ctx evs)) as [|f up] eqn:S.
    - cbn [spine_w] in OR. destruct (c_root (run init_ctx evs)); cbn [nszs]; lia.
    - pose proof (close_spine_w (f :: up) None) as CW. destruct (close_spine None (f :: up)); cbn [nszs]; lia.
  Qed.
End Sz.
