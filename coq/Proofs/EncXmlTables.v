(* C05 — facts about the regenerated tables (Gen/TablesData.v) used by the XML-generation theorems, and the
   concrete witnesses of the open defects (computed with the real SyncML 1.1 rows). *)
From Coq Require Import List NArith Arith Lia Bool.
From Coq Require Import String.
From Wbxml Require Import Model.TablesDefs Model.Codec Model.EncXml Model.XmlRead Gen.TablesData Proofs.EncXmlProofs Proofs.EncXmlIndent Proofs.EncXmlSize.
Import ListNotations.
Local Open Scope N_scope.

Definition xmain : list xlang := map xlang_of main_table.

(* every language entry is fit for the header / namespace text that is written without escaping *)
Lemma lang_ok_main : forallb lang_ok xmain = true.
Proof. vm_compute. reflexivity. Qed.

Lemma lang_ok_in l : In l xmain -> lang_ok l = true.
Proof. intros H. pose proof lang_ok_main as A. rewrite forallb_forall in A. now apply A. Qed.

(* SyncML 1.1 and the rows of the reproducers (row indices as dumped by the harness) *)
Definition dummy_lang : xlang := mk_xlang 0 [] None [] None false [] [].
Definition dummy_row : trow := mk_trow [] 0 0 0.
Definition syncml11 : xlang :=
  match find (fun l => l_id l =? 2101) main_table with Some l => xlang_of l | None => dummy_lang end.

Lemma syncml11_in_tables : exists l0, In l0 main_table /\ l_id l0 = 2101 /\ syncml11 = xlang_of l0.
Proof.
  unfold syncml11. destruct (find (fun l => l_id l =? 2101) main_table) as [l0|] eqn:E.
  - apply find_some in E as [E1 E2]. apply N.eqb_eq in E2. exists l0. auto.
  - exfalso. revert E. vm_compute. discriminate.
Qed.
Definition row (i : nat) : tname := TTok (nth i (xl_tags syncml11) dummy_row).
Definition txt (s : list N) : node := Text s.

(* <SyncML><SyncBody><Add><Meta><Type>text/x-vcard</Type></Meta><Item><Data> payload </Data></Item></Add></SyncBody></SyncML> *)
Definition vcard_doc (payload : list node) : node :=
  Elt (row 40) [] [Elt (row 38) [] [Elt (row 0) []
    [Elt (row 21) [] [Elt (row 63) [] [txt [116;101;120;116;47;120;45;118;99;97;114;100]]];
     Elt (row 15) [] [Elt (row 10) [] payload]]]].

(* D8: the tree the WBXML tree builder makes for two content items ("A", "B") in that <Data> *)
Definition d8_tree : node := vcard_doc [CData [txt [65]; CData [txt [66]]]].
(* D9: one content item "x]]>y" *)
Definition d9_tree : node := vcard_doc [CData [txt [120; 93; 93; 62; 121]]].

Lemma d8_rows_are_the_expected_ones :
  map (fun i => match row i with TTok r => tr_name r | TLit s => s end) (40 :: 38 :: 0 :: 21 :: 63 :: 15 :: 10 :: nil)%nat
  = map bs ("SyncML" :: "SyncBody" :: "Add" :: "Meta" :: "Type" :: "Item" :: "Data" :: nil)%string.
Proof. vm_compute. reflexivity. Qed.

Lemma d8_nested_cdata_not_well_formed :
  exists out, enc_xml syncml11 Compact 0 false [d8_tree] = XOk out /\ read_xml_auto out = RErr.
Proof. eexists. split; [vm_compute; reflexivity|]. vm_compute. reflexivity. Qed.

(* D9 repaired: the section is split at the three bytes, the document is read back (payload text "x]]>y") *)
Lemma d9_cdata_end_in_text_split :
  exists out d, enc_xml syncml11 Canonical 0 true [d9_tree] = XOk out /\ read_xml_auto out = ROk d.
Proof. eexists. eexists. split; [vm_compute; reflexivity|]. vm_compute. reflexivity. Qed.

(* the same payloads as plain text of an ordinary element are read back exactly: a satisfiable instance of the
   hypotheses of read_enc_compact_canonical, with awkward characters *)
Definition awkward : list N := [60; 62; 38; 34; 39; 93; 93; 62; 9; 10; 32; 195; 169].
Definition ok_tree : node :=
  Elt (row 40) [] [Elt (row 38) [] [Elt (row 21) [] [Elt (row 63) [] [txt awkward]]; Elt (row 12) [] []]].

Example ok_tree_hypotheses :
  node_ok syncml11 (opts_of_params Compact 0 true) proot None ok_tree = true /\
  node_ok syncml11 (opts_of_params Canonical 0 true) proot None ok_tree = true /\
  plain_attrs ok_tree = true.
Proof. vm_compute. auto. Qed.

Example ok_tree_reads_back :
  exists out d, enc_xml syncml11 Canonical 0 true [ok_tree] = XOk out /\ read_xml_auto out = ROk d.
Proof. eexists. eexists. split; [vm_compute; reflexivity|]. vm_compute. reflexivity. Qed.

(* a tree with a CDATA payload (containing a CDATA end) and an embedded DevInf 1.1 document *)
Definition devinf11 : xlang :=
  match find (fun l => l_id l =? 2102) main_table with Some l => xlang_of l | None => dummy_lang end.
Definition drow (i : nat) : tname := TTok (nth i (xl_tags devinf11) dummy_row).
Definition full_tree : node :=
  Elt (row 40) [] [Elt (row 38) [] [Elt (row 0) []
    [Elt (row 21) [] [Elt (row 63) [] [txt [116;101;120;116;47;120;45;118;99;97;114;100]]];
     Elt (row 15) [] [Elt (row 10) [] [CData [txt [120; 93; 93; 62; 121]]]];
     Elt (row 15) [] [Elt (row 10) [] [SubTree (Some devinf11) [Elt (drow 0) [] [Elt (drow 1) [] [txt [49; 46; 49]]]]]]]]].

Example full_tree_ok :
  node_ok_g syncml11 (opts_of_params Indent 2 false) proot None full_tree = true /\
  exists out d, enc_xml syncml11 Indent 2 false [full_tree] = XOk out /\ read_xml_auto out = ROk d.
Proof. split; [vm_compute; reflexivity|]. eexists. eexists. split; [vm_compute; reflexivity|]. vm_compute. reflexivity. Qed.

(* the longest namespace name of the regenerated tables (bound K of the size theorem) *)
Definition ns_len_max : nat := fold_right (fun l m => Nat.max (ns_len l) m) 0%nat xmain.

Lemma ns_len_max_value : ns_len_max = 54%nat.
Proof. vm_compute. reflexivity. Qed.

Lemma ns_len_main l : In l xmain -> (ns_len l <= ns_len_max)%nat.
Proof.
  unfold ns_len_max. induction xmain as [|x r IH]; [contradiction|]. intros [->|H]; cbn [fold_right].
  - lia.
  - specialize (IH H). lia.
Qed.
