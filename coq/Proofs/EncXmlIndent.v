(* C05 / C07 (XML half) — the reader inverts the generator in EVERY generation mode (compact, indented with any
   width, canonical): exact infoset including the white space the indented generation writes (info_g), and the
   C07 lemma: indented and compact generation are read back as the same document modulo blank text between
   markup (section 4). *)
From Coq Require Import List NArith Arith Lia Bool.
From Wbxml Require Import Model.Codec Model.EncXml Model.XmlRead Proofs.EncXmlProofs.
Import ListNotations.
Local Open Scope N_scope.

Arguments N.add : simpl never.
Arguments N.mul : simpl never.
Arguments N.sub : simpl never.

(* ------------------------------------------------------------------ *)
(* 1. white space written by the indented generation                   *)

Definition is_sp_nl (c : N) : bool := (c =? 32) || (c =? 10).

Lemma sp_nl_facts c : is_sp_nl c = true ->
  is_xml_byte c = true /\ negb (c =? 60) = true /\ negb (c =? 62) = true /\ negb (c =? 13) = true /\ negb (c =? 38) = true.
Proof.
  unfold is_sp_nl. intros H. apply orb_true_iff in H as [H|H]; apply N.eqb_eq in H; subst; repeat split; reflexivity.
Qed.

Lemma ws_run_ok w : forallb is_sp_nl w = true -> run_ok w w.
Proof.
  intros H.
  assert (A : forallb is_xml_byte w = true /\ no_byte 60 w = true /\ no_byte 62 w = true /\ no_byte 13 w = true /\ no_byte 38 w = true).
  { unfold no_byte. induction w as [|c w IH]; [repeat split; reflexivity|]. cbn [forallb] in *.
    apply andb_true_iff in H as [H1 H2]. destruct (IH H2) as (I1 & I2 & I3 & I4 & I5).
    destruct (sp_nl_facts c H1) as (F1 & F2 & F3 & F4 & F5). rewrite I1, I2, I3, I4, I5, F1, F2, F3, F4, F5. repeat split; reflexivity. }
  destruct A as (A1 & A2 & A3 & A4 & A5). constructor; auto. intros r. now apply unesc_plain_id.
Qed.

Lemma spaces_sp n : forallb is_sp_nl (spaces n) = true.
Proof. unfold spaces. induction (N.to_nat n) as [|k IH]; [reflexivity|]. cbn [repeat forallb]. now rewrite IH. Qed.

Lemma forallb_app_sp a b : forallb is_sp_nl a = true -> forallb is_sp_nl b = true -> forallb is_sp_nl (a ++ b) = true.
Proof. intros A B. now rewrite forallb_app, A, B. Qed.

(* the pieces *)
Definition hc (o : opts) (ch : list node) : bool := is_indent o && have_child_elt ch.
Definition w0 (o : opts) (s : est) : bytes := if is_indent o then indent_bytes o s else [].
Definition w1 (o : opts) (ch : list node) : bytes := if hc o ch then nl else [].
Definition ind_after (o : opts) (ch : list node) (s4 : est) : N := if hc o ch then u8 (e_indent s4 + 255) else e_indent s4.
Definition w2 (o : opts) (ch : list node) (s4 : est) : bytes :=
  if hc o ch then (if e_in_content s4 then nl else []) ++ spaces (ind_after o ch s4 * o_delta o) else [].
Definition s_in (o : opts) (ch : list node) (nm : tname) (s : est) : est :=
  if hc o ch then mk_est (u8 (e_indent s + 1)) (e_in_content s) (e_in_cdata s) (cur_of nm) else set_cur (cur_of nm) s.
Definition s_out (o : opts) (ch : list node) (s4 : est) : est := mk_est (ind_after o ch s4) false (e_in_cdata s4) (e_cur_tag s4).

Lemma w0_sp o s : forallb is_sp_nl (w0 o s) = true.
Proof. unfold w0, indent_bytes. destruct (is_indent o); [apply spaces_sp|reflexivity]. Qed.
Lemma w1_sp o ch : forallb is_sp_nl (w1 o ch) = true.
Proof. unfold w1. destruct (hc o ch); reflexivity. Qed.
Lemma w2_sp o ch s4 : forallb is_sp_nl (w2 o ch s4) = true.
Proof. unfold w2. destruct (hc o ch); [|reflexivity]. apply forallb_app_sp; [destruct (e_in_content s4); reflexivity|apply spaces_sp]. Qed.
Lemma nl_if_sp o : forallb is_sp_nl (nl_if o) = true.
Proof. unfold nl_if. destruct (is_indent o); reflexivity. Qed.

(* the element case of the generator in every mode *)
Lemma enc_elt_gen l o parent s nm attrs ch :
  enc_node l o parent s (Elt nm attrs ch) =
  match ch with
  | [] => XOk (w0 o s ++ elt_open l o parent nm attrs ++ 47 :: 62 :: nl_if o, set_cur (cur_of nm) s)
  | _ =>
    match seq_nodes (enc_node l o (pinfo_below parent nm)) ch (s_in o ch nm s) with
    | XOk (b4, s4) =>
      XOk (w0 o s ++ elt_open l o parent nm attrs ++ 62 :: w1 o ch ++ b4 ++ w2 o ch s4 ++ 60 :: 47 :: tname_bytes nm ++ 62 :: nl_if o,
           s_out o ch s4)
    | XErr e => XErr e
    end
  end.
Proof.
  rewrite enc_node_elt.
  unfold xml_encode_tag, xml_encode_end_attrs, xml_encode_end_tag, elt_open, w0, w1, w2, s_in, s_out, ind_after, hc, set_cur.
  change (match nm with TTok r => Some r | TLit _ => None end) with (cur_of nm).
  destruct ch as [|c0 ch0].
  - destruct (is_indent o); cbn [app]; repeat (rewrite <- app_assoc || rewrite <- app_comm_cons); reflexivity.
  - destruct (is_indent o); cbn [andb]; [destruct (have_child_elt (c0 :: ch0))|]; cbn [e_indent e_in_content e_in_cdata e_cur_tag];
      match goal with |- context [seq_nodes ?f ?c ?st] => destruct (seq_nodes f c st) as [[b4 s4]|e] end; try reflexivity;
      cbn [app]; repeat (rewrite <- app_assoc || rewrite <- app_comm_cons); reflexivity.
Qed.

(* ------------------------------------------------------------------ *)
(* 2. specification for every mode: the infoset INCLUDING the white space of the indented generation, with the
      encoder state (depth counter mod 256, in_content) threaded exactly as the generator does              *)

Definition info_list_g (f : est -> node -> option (list xitem * est)) : list node -> est -> option (list xitem * est) :=
  fix go (ns : list node) (s : est) : option (list xitem * est) :=
    match ns with
    | [] => Some ([], s)
    | n :: r =>
      match f s n with
      | Some (a, s1) =>
        match go r (reset_cur s1) with
        | Some (b, s2) => Some (a ++ b, s2)
        | None => None
        end
      | None => None
      end
    end.

Definition text_item (l : xlang) (o : opts) (parent : pinfo) (s : est) (c : bytes) : option (list xitem * est) :=
  match text_policy o parent s c with
  | None => Some ([], s)
  | Some c' =>
    let tmp := syncml_type_rewrite l (e_cur_tag s) c' in
    let s' := mk_est (e_indent s) true (e_in_cdata s) (e_cur_tag s) in
    if tag_is_binary (text_tag s parent)
    then match b64_enc tmp with Some e => Some ([XT e], s') | None => None end
    else Some ([XT tmp], s')
  end.

Fixpoint info_g (l : xlang) (o : opts) (parent : pinfo) (s : est) (n : node) {struct n} : option (list xitem * est) :=
  match n with
  | Elt nm attrs ch =>
    match ch with
    | [] => Some ([XT (w0 o s); XE (tname_bytes nm) (spec_attrs l o parent nm attrs) []; XT (nl_if o)], set_cur (cur_of nm) s)
    | _ =>
      match info_list_g (info_g l o (pinfo_below parent nm)) ch (s_in o ch nm s) with
      | Some (its, s4) =>
        Some ([XT (w0 o s);
               XE (tname_bytes nm) (spec_attrs l o parent nm attrs) (merge_items (XT (w1 o ch) :: its ++ [XT (w2 o ch s4)]));
               XT (nl_if o)], s_out o ch s4)
      | None => None
      end
    end
  | Text c => text_item l o parent s c
  | _ => None
  end.

(* ------------------------------------------------------------------ *)
(* 3. reading                                                           *)

(* a start tag (after '<' has been seen to start an element) *)
Lemma elt_open_read l o parent nm attrs :
  lang_ok l = true ->
  is_xml_name (tname_bytes nm) = true -> forallb (attr_ok o) attrs = true ->
  nodup_bytes (map fst (spec_attrs l o parent nm attrs)) = true ->
  forall tailc tailr flag r0,
    (tailc :: tailr = 62 :: r0 /\ flag = false) \/ (tailc :: tailr = 47 :: 62 :: r0 /\ flag = true) ->
    forall f acc0 x,
      (if flag then p_content f r0 (XE (tname_bytes nm) (spec_attrs l o parent nm attrs) [] :: acc0)
       else match p_content f r0 [] with
            | ROk (ch', r3) =>
              match p_name r3 with
              | Some (nm', r4) =>
                if bytes_eqb (tname_bytes nm) nm' then
                  match skip_ws r4 with
                  | c5 :: r5 => if c5 =? 62 then p_content f r5 (XE (tname_bytes nm) (spec_attrs l o parent nm attrs) ch' :: acc0) else RErr
                  | [] => RErr
                  end
                else RErr
              | None => RErr
              end
            | RErr => RErr
            | RFuel => RFuel
            end) = ROk x ->
      p_content (S f) (elt_open l o parent nm attrs ++ tailc :: tailr) acc0 = ROk x.
Proof.
  intros HL Hok1 Hok2 Hok3 tailc tailr flag r0 HT f acc0 x Hk.
  pose proof (ok_triples l o parent nm attrs HL Hok2) as HF.
  pose proof (keys_triples l o parent nm attrs) as HK.
  unfold elt_open. rewrite <- app_comm_cons. cbn [p_content]. change (60 =? 60) with true. cbn match.
  destruct (name_not_special _ Hok1) as (c1 & rn & En & Hs1).
  rewrite En. cbn [app].
  assert (c1 =? 47 = false) as ->.
  { apply N.eqb_neq. intros ->. discriminate. }
  assert (c1 =? 33 = false) as ->.
  { apply N.eqb_neq. intros ->. discriminate. }
  rewrite <- !app_assoc. rewrite app_comm_cons, <- En.
  rewrite (app_assoc (xmlns_part l parent nm)), emit_triples.
  assert (Hfirst : exists c2 r2, flat_map emit_attr (attr_triples l o parent nm attrs) ++ tailc :: tailr = c2 :: r2 /\ is_name_char c2 = false).
  { destruct (attr_triples l o parent nm attrs) as [|[[k raw] v] kvs].
    - cbn [flat_map app]. exists tailc, tailr. split; [reflexivity|].
      destruct HT as [[E _]|[E _]]; injection E as -> _; reflexivity.
    - cbn [flat_map emit_attr app]. eexists _, _. split; [reflexivity|reflexivity]. }
  destruct Hfirst as (c2 & r2 & E2 & Hc2). rewrite E2.
  rewrite (p_name_app _ c2 r2 Hok1 Hc2). rewrite <- E2.
  rewrite (p_attrs_ok (attr_triples l o parent nm attrs) _ [] (tailc :: tailr) flag r0 HF).
  - cbn [rev app]. rewrite proj_triples. destruct flag; exact Hk.
  - rewrite HK. exact Hok3.
  - intros; reflexivity.
  - rewrite app_length. cbn [length].
    pose proof (length_flat_emit (attr_triples l o parent nm attrs)). lia.
  - exact HT.
Qed.

Definition reads_list_g (ch : list node) (b : bytes) (its : list xitem) : Prop :=
  forall pre tpre post acc rest f,
    run_ok pre tpre -> run_ok post post ->
    p_content (list_fuel ch + f) (pre ++ b ++ post ++ 60 :: 47 :: rest) acc =
    ROk (rev (fold_left push_item (its ++ [XT post]) (push_text tpre acc)), rest).

Definition node_main_g_stmt (n : node) : Prop :=
  forall l o parent s b s',
    lang_ok l = true -> e_in_cdata s = false ->
    node_ok l o parent (e_cur_tag s) n = true ->
    enc_node l o parent s n = XOk (b, s') ->
    e_in_cdata s' = false /\ exists its, info_g l o parent s n = Some (its, s') /\ reads_node n b its.

Lemma list_main_g ch :
  Forall node_main_g_stmt ch ->
  forall l o parent s b s',
    lang_ok l = true -> e_in_cdata s = false ->
    nodes_ok l o parent (e_cur_tag s) ch = true ->
    seq_nodes (enc_node l o parent) ch s = XOk (b, s') ->
    e_in_cdata s' = false /\ exists its, info_list_g (info_g l o parent) ch s = Some (its, s') /\ reads_list_g ch b its.
Proof.
  induction 1 as [|n ch Hn Hch IH]; intros l o parent s b s' HL Hc Hok Henc.
  - cbn in Henc. injection Henc as <- <-. split; [exact Hc|]. exists []. split; [reflexivity|].
    intros pre tpre post acc rest f Hrun Hpost. cbn [app fold_left list_fuel fold_right Nat.add push_item].
    rewrite app_assoc.
    apply (flush_run (pre ++ post) (tpre ++ post) (S f) _ acc _ (run_ok_app _ _ _ _ Hrun Hpost)).
    rewrite push_text_app. reflexivity.
  - cbn [seq_nodes] in Henc.
    destruct (enc_node l o parent s n) as [[b1 s1]|e] eqn:E1; [|discriminate].
    cbn [nodes_ok] in Hok. apply andb_true_iff in Hok as [Hok1 Hok2].
    destruct (Hn l o parent s b1 s1 HL Hc Hok1 E1) as (Hc1 & its1 & Hi1 & Hr1).
    match type of Henc with context [?g ch (reset_cur s1)] =>
      destruct (g ch (reset_cur s1)) as [[b2 s2]|e] eqn:E2; [|discriminate] end.
    injection Henc as <- <-.
    destruct (IH l o parent (reset_cur s1) b2 s2 HL Hc1 Hok2 E2) as (Hc2 & its2 & Hi2 & Hr2).
    split; [exact Hc2|]. exists (its1 ++ its2). split.
    + cbn [info_list_g]. rewrite Hi1. cbn [info_list_g] in Hi2. rewrite Hi2. reflexivity.
    + intros pre tpre post acc rest f Hrun Hpost.
      replace (list_fuel (n :: ch) + f)%nat with (node_fuel n + (list_fuel ch + f))%nat by (unfold list_fuel; cbn [fold_right]; lia).
      rewrite <- app_assoc.
      apply (Hr1 pre tpre acc (b2 ++ post ++ 60 :: 47 :: rest) (list_fuel ch + f)%nat _ Hrun).
      intros pre2 tpre2 acc2 Hrun2 Heq.
      rewrite (Hr2 pre2 tpre2 post acc2 rest f Hrun2 Hpost). rewrite Heq, <- app_assoc, !fold_left_app. reflexivity.
Qed.

Lemma node_main_g : forall n, node_main_g_stmt n.
Proof.
  induction n as [nm attrs ch IHch|t|ch _| |sl roots _] using node_ind2;
    intros l o parent s b s' HL Hc Hok Henc; try discriminate.
  - (* element *)
    rewrite (enc_elt_gen l o parent s nm attrs ch) in Henc.
    cbn [node_ok] in Hok.
    change ((fix go (cur0 : option trow) (ns : list node) {struct ns} : bool :=
               match ns with [] => true | x :: r => node_ok l o (pinfo_below parent nm) cur0 x && go None r end) (cur_of nm) ch)
      with (nodes_ok l o (pinfo_below parent nm) (cur_of nm) ch) in Hok.
    apply andb_true_iff in Hok as [Hok Hok4]. apply andb_true_iff in Hok as [Hok Hok3].
    apply andb_true_iff in Hok as [Hok1 Hok2].
    pose proof (elt_open_read l o parent nm attrs HL Hok1 Hok2 Hok3) as Hopen.
    pose proof (ws_run_ok _ (w0_sp o s)) as Rw0.
    pose proof (ws_run_ok _ (nl_if_sp o)) as Rnl.
    destruct ch as [|c0 ch0].
    + (* empty element *)
      assert (Hb : b = w0 o s ++ elt_open l o parent nm attrs ++ 47 :: 62 :: nl_if o) by congruence.
      assert (Hs' : s' = set_cur (cur_of nm) s) by congruence. subst b s'. clear Henc.
      split; [exact Hc|].
      eexists. split; [reflexivity|].
      intros pre tpre acc tail f x Hrun Hk.
      cbn [node_fuel fold_right].
      replace (pre ++ (w0 o s ++ elt_open l o parent nm attrs ++ 47 :: 62 :: nl_if o) ++ tail)
        with ((pre ++ w0 o s) ++ 60 :: (tname_bytes nm ++ xmlns_part l parent nm ++ parse_attributes l o attrs) ++ 47 :: 62 :: nl_if o ++ tail)
        by (unfold elt_open; repeat (rewrite <- app_assoc || rewrite <- app_comm_cons); reflexivity).
      replace (4 + 0 + f)%nat with (S (S (2 + f))) by lia.
      apply (flush_run (pre ++ w0 o s) (tpre ++ w0 o s) _ _ acc x (run_ok_app _ _ _ _ Hrun Rw0)).
      change (60 :: (tname_bytes nm ++ xmlns_part l parent nm ++ parse_attributes l o attrs) ++ 47 :: 62 :: nl_if o ++ tail)
        with (elt_open l o parent nm attrs ++ 47 :: 62 :: nl_if o ++ tail).
      apply (Hopen 47 (62 :: nl_if o ++ tail) true (nl_if o ++ tail)); [right; auto|].
      eapply p_content_mono; [apply (Hk (nl_if o) (nl_if o) _ Rnl)|lia].
      cbn [fold_left push_item]. now rewrite push_text_app.
    + (* element with content *)
      destruct (seq_nodes (enc_node l o (pinfo_below parent nm)) (c0 :: ch0) (s_in o (c0 :: ch0) nm s)) as [[b4 s4]|e] eqn:E4; [|discriminate].
      assert (Hb : b = w0 o s ++ elt_open l o parent nm attrs ++ 62 :: w1 o (c0 :: ch0) ++ b4 ++ w2 o (c0 :: ch0) s4 ++
                         60 :: 47 :: tname_bytes nm ++ 62 :: nl_if o) by congruence.
      assert (Hs' : s' = s_out o (c0 :: ch0) s4) by congruence. subst b s'. clear Henc.
      assert (Hcin : e_in_cdata (s_in o (c0 :: ch0) nm s) = false) by (unfold s_in; destruct (hc o (c0 :: ch0)); exact Hc).
      assert (Hcur : e_cur_tag (s_in o (c0 :: ch0) nm s) = cur_of nm) by (unfold s_in; destruct (hc o (c0 :: ch0)); reflexivity).
      rewrite <- Hcur in Hok4.
      destruct (list_main_g (c0 :: ch0) IHch l o (pinfo_below parent nm) (s_in o (c0 :: ch0) nm s) b4 s4 HL Hcin Hok4 E4)
        as (Hc4 & its & Hinfo & Hread).
      split; [exact Hc4|].
      eexists. split.
      { cbn [info_g]. rewrite Hinfo. reflexivity. }
      intros pre tpre acc tail f x Hrun Hk.
      replace (pre ++ (w0 o s ++ elt_open l o parent nm attrs ++ 62 :: w1 o (c0 :: ch0) ++ b4 ++ w2 o (c0 :: ch0) s4 ++
                          60 :: 47 :: tname_bytes nm ++ 62 :: nl_if o) ++ tail)
        with ((pre ++ w0 o s) ++ 60 :: (tname_bytes nm ++ xmlns_part l parent nm ++ parse_attributes l o attrs) ++
                  62 :: w1 o (c0 :: ch0) ++ b4 ++ w2 o (c0 :: ch0) s4 ++ 60 :: 47 :: tname_bytes nm ++ 62 :: nl_if o ++ tail)
        by (unfold elt_open; repeat (rewrite <- app_assoc || rewrite <- app_comm_cons); reflexivity).
      assert (Hnf : (node_fuel (Elt nm attrs (c0 :: ch0)) + f = S (S (list_fuel (c0 :: ch0) + f)))%nat)
        by (unfold list_fuel; cbn [node_fuel]; lia).
      rewrite Hnf.
      apply (flush_run (pre ++ w0 o s) (tpre ++ w0 o s) _ _ acc x (run_ok_app _ _ _ _ Hrun Rw0)).
      change (60 :: (tname_bytes nm ++ xmlns_part l parent nm ++ parse_attributes l o attrs) ++
                 62 :: w1 o (c0 :: ch0) ++ b4 ++ w2 o (c0 :: ch0) s4 ++ 60 :: 47 :: tname_bytes nm ++ 62 :: nl_if o ++ tail)
        with (elt_open l o parent nm attrs ++ 62 :: w1 o (c0 :: ch0) ++ b4 ++ w2 o (c0 :: ch0) s4 ++ 60 :: 47 :: tname_bytes nm ++ 62 :: nl_if o ++ tail).
      apply (Hopen 62 (w1 o (c0 :: ch0) ++ b4 ++ w2 o (c0 :: ch0) s4 ++ 60 :: 47 :: tname_bytes nm ++ 62 :: nl_if o ++ tail) false
                   (w1 o (c0 :: ch0) ++ b4 ++ w2 o (c0 :: ch0) s4 ++ 60 :: 47 :: tname_bytes nm ++ 62 :: nl_if o ++ tail)); [left; auto|].
      pose proof (Hread (w1 o (c0 :: ch0)) (w1 o (c0 :: ch0)) (w2 o (c0 :: ch0) s4) [] (tname_bytes nm ++ 62 :: nl_if o ++ tail) f
                        (ws_run_ok _ (w1_sp o _)) (ws_run_ok _ (w2_sp o _ s4))) as HR.
      rewrite HR.
      rewrite (p_name_app _ 62 (nl_if o ++ tail) Hok1 eq_refl), bytes_eqb_refl. cbn [skip_ws is_ws].
      change (62 =? 32) with false. change (62 =? 9) with false. change (62 =? 10) with false. change (62 =? 13) with false.
      cbn [orb]. change (62 =? 62) with true. cbn match.
      eapply p_content_mono; [apply (Hk (nl_if o) (nl_if o) _ Rnl)|lia].
      cbn [fold_left push_item merge_items]. now rewrite push_text_app.
  - (* text *)
    cbn [node_ok] in Hok. apply andb_true_iff in Hok as [Hok1 Hok2]. apply negb_true_iff in Hok2.
    rewrite (text_tag_ext (mk_est 0 false false (e_cur_tag s)) s parent) in Hok2 by reflexivity.
    cbn [enc_node] in Henc. unfold parse_text in Henc. cbn [info_g]. unfold text_item.
    destruct (text_policy o parent s t) as [c|] eqn:EP.
    + unfold xml_encode_text in Henc. rewrite Hc, Hok2 in Henc. injection Henc as <- <-.
      split; [reflexivity|]. rewrite Hok2, Hc. eexists. split; [reflexivity|].
      intros pre tpre acc tail f x Hrun Hk. cbn [node_fuel Nat.add].
      pose proof (text_policy_chars o parent s t c Hok1 EP) as Hch.
      pose proof (chars_ok_rewrite l o (e_cur_tag s) c Hch) as Hch2.
      pose proof (escape_run_ok o _ Hch2) as Hrun2.
      rewrite app_assoc. apply (Hk _ _ acc (run_ok_app _ _ _ _ Hrun Hrun2)).
      cbn [fold_left push_item]. apply push_text_app.
    + injection Henc as <- <-. split; [exact Hc|]. eexists. split; [reflexivity|].
      intros pre tpre acc tail f x Hrun Hk. cbn [node_fuel Nat.add app].
      apply (Hk pre tpre acc Hrun). reflexivity.
Qed.

(* ------------------------------------------------------------------ *)
(* whole documents, every generation mode                               *)

Lemma header_read_g l o fuel body :
  lang_ok l = true ->
  read_xml fuel (xml_header l o ++ body) =
  match p_root fuel (skip_ws body) with
  | ROk items => ROk (doc_of l items)
  | RErr => RErr
  | RFuel => RFuel
  end.
Proof.
  intros HL. destruct (is_indent o) eqn:Hi; [|now apply header_read].
  unfold lang_ok in HL.
  apply andb_true_iff in HL as [HL Hns]. apply andb_true_iff in HL as [HL Hpub]. apply andb_true_iff in HL as [Hroot Hdtd].
  apply raw_ok_quote in Hdtd.
  unfold read_xml, xml_header, nl_if. rewrite Hi.
  rewrite <- !app_assoc. rewrite expect_app.
  assert (Hsk : forall x, skip_ws (nl ++ s_doctype ++ x) = s_doctype ++ x) by reflexivity. rewrite Hsk.
  rewrite expect_app.
  assert (Hd : forall x, s_dtd_close ++ x = 34 :: 62 :: x) by reflexivity.
  assert (Hsk2 : skip_ws (nl ++ body) = skip_ws body) by reflexivity.
  destruct (xl_pub l) as [p|] eqn:EP.
  - apply raw_ok_quote in Hpub.
    rewrite <- !app_assoc.
    assert (Hp : forall x, s_public ++ x = 32 :: (80 :: 85 :: 66 :: 76 :: 73 :: 67 :: 32 :: 34 :: x)) by reflexivity.
    rewrite Hp. rewrite (p_name_app _ 32 _ Hroot eq_refl). rewrite <- Hp.
    change s_pub_kw with s_public. rewrite expect_app.
    cbn [app]. rewrite (span_app not_quote p 34 _ Hpub eq_refl).
    rewrite expect_app, Hd. rewrite (span_app not_quote (xl_dtd l) 34 _ Hdtd eq_refl).
    rewrite <- Hd, expect_app. change (10 :: body) with (nl ++ body). rewrite Hsk2. unfold doc_of. rewrite EP. reflexivity.
  - assert (Hs : forall x, s_system ++ x = 32 :: (83 :: 89 :: 83 :: 84 :: 69 :: 77 :: x)) by reflexivity.
    rewrite Hs. rewrite (p_name_app _ 32 _ Hroot eq_refl).
    assert (He1 : forall x, expect s_pub_kw (32 :: 83 :: 89 :: 83 :: 84 :: 69 :: 77 :: x) = None) by reflexivity.
    rewrite He1. rewrite <- Hs. change s_sys_kw with s_system. rewrite expect_app.
    rewrite expect_app, Hd. rewrite (span_app not_quote (xl_dtd l) 34 _ Hdtd eq_refl).
    rewrite <- Hd, expect_app. rewrite Hsk2. unfold doc_of. rewrite EP. reflexivity.
Qed.

Lemma w0_root o : w0 o (est0 0) = [].
Proof. unfold w0, indent_bytes, est0. cbn [e_indent]. rewrite N.mul_0_l. destruct (is_indent o); reflexivity. Qed.

Lemma info_g_elt_shape l o parent s nm attrs ch its s' :
  info_g l o parent s (Elt nm attrs ch) = Some (its, s') ->
  exists c, its = [XT (w0 o s); XE (tname_bytes nm) (spec_attrs l o parent nm attrs) c; XT (nl_if o)].
Proof.
  cbn [info_g]. destruct ch as [|c0 ch0].
  - intros E. injection E as <- _. eauto.
  - destruct (info_list_g _ _ _) as [[its4 s4]|]; [|discriminate]. intros E. injection E as <- _. eauto.
Qed.

(* THE READER INVERTS THE GENERATOR, every generation mode and indent width: the document is accepted, the
   DOCTYPE is the language's, the root element is the specified one (info_g: exact, including the white space
   that indented generation writes between markup) *)
Theorem read_enc_g l o nm attrs ch out :
  lang_ok l = true ->
  node_ok l o proot None (Elt nm attrs ch) = true ->
  enc_xml_opts l o [Elt nm attrs ch] = XOk out ->
  exists c s',
    info_g l o proot (est0 0) (Elt nm attrs ch) =
      Some ([XT []; XE (tname_bytes nm) (spec_attrs l o proot nm attrs) c; XT (nl_if o)], s') /\
    forall fuel, (node_fuel (Elt nm attrs ch) + 2 <= fuel)%nat ->
      read_xml fuel out = ROk (doc_of l [XE (tname_bytes nm) (spec_attrs l o proot nm attrs) c]).
Proof.
  intros HL Hok Henc. unfold enc_xml_opts, enc_nodes in Henc. cbn [seq_nodes] in Henc.
  destruct (enc_node l o proot (est0 0) (Elt nm attrs ch)) as [[b s1]|e] eqn:E; [|discriminate].
  assert (Hout : out = xml_header l o ++ b ++ []) by congruence. subst out. clear Henc.
  destruct (node_main_g (Elt nm attrs ch) l o proot (est0 0) b s1 HL eq_refl Hok E) as (_ & its & Hinfo & Hread).
  destruct (info_g_elt_shape _ _ _ _ _ _ _ _ _ Hinfo) as (c & Eits). rewrite w0_root in Eits. subst its.
  exists c, s1. split; [exact Hinfo|]. intros fuel Hfuel.
  rewrite app_nil_r. rewrite (header_read_g l o fuel b HL).
  assert (Hb : exists c1 rb, b = 60 :: c1 :: rb /\ is_name_start c1 = true).
  { rewrite (enc_elt_gen l o proot (est0 0) nm attrs ch) in E. rewrite w0_root in E.
    cbn [node_ok] in Hok. apply andb_true_iff in Hok as [Hok _]. apply andb_true_iff in Hok as [Hok _].
    apply andb_true_iff in Hok as [Hok _]. destruct (name_not_special _ Hok) as (c1 & rn & En & Hs).
    destruct ch as [|c0 ch0].
    - injection E as <- _. unfold elt_open. rewrite En. cbn [app]. eauto.
    - destruct (seq_nodes _ _ _) as [[b4 s4]|]; [|discriminate].
      injection E as <- _. unfold elt_open. rewrite En. cbn [app]. eauto. }
  destruct Hb as (c1 & rb & Eb & Hs1).
  assert (Hskip : skip_ws b = b) by (rewrite Eb; reflexivity). rewrite Hskip.
  unfold p_root. rewrite Eb, Hs1. rewrite <- Eb.
  replace fuel with (node_fuel (Elt nm attrs ch) + (fuel - node_fuel (Elt nm attrs ch)))%nat by lia.
  pose proof (Hread [] [] [] [60; 47] (fuel - node_fuel (Elt nm attrs ch))%nat
                    (rev (push_text (nl_if o) [XE (tname_bytes nm) (spec_attrs l o proot nm attrs) c]), []) run_ok_nil) as HR.
  cbn [app] in HR. rewrite HR.
  - unfold nl_if. destruct (is_indent o); reflexivity.
  - intros pre2 tpre2 acc2 Hrun2 Heq. cbn [fold_left push_item push_text] in Heq.
    destruct (fuel - node_fuel (Elt nm attrs ch))%nat as [|[|f2]] eqn:Ef; [lia|lia|].
    apply (flush_run pre2 tpre2 (S f2) [47] acc2 _ Hrun2). cbn [p_content]. cbn. now rewrite Heq.
Qed.
