(* C05 / C07 (XML half) — the reader inverts the generator in EVERY generation mode (compact, indented with any
   width, canonical): exact infoset including the white space the indented generation writes (info_g), and the
   C07 lemma: indented and compact generation are read back as the same document modulo blank text between
   markup (section 4). *)
From Coq Require Import List NArith Arith Lia Bool.
From Wbxml Require Import Model.Codec Model.EncXml Model.XmlRead Proofs.CodecProofs Proofs.EncXmlProofs Proofs.EncXmlCdata.
Import ListNotations.
Local Open Scope N_scope.

Arguments N.add : simpl never.
Arguments N.mul : simpl never.
Arguments N.sub : simpl never.

(* ------------------------------------------------------------------ *)
(* 1. white space written by the indented generation                   *)

Definition is_sp_nl (c : N) : bool := (c =? 32) || (c =? 10).

Lemma sp_nl_facts c : is_sp_nl c = true ->
  is_xml_byte c = true /\ negb (c =? 60) = true /\ negb (c =? 62) = true /\ negb (c =? 13) = true /\ negb (c =? 38) = true.
Proof.
  unfold is_sp_nl. intros H. apply orb_true_iff in H as [H|H]; apply N.eqb_eq in H; subst; repeat split; reflexivity.
Qed.

Lemma ws_run_ok w : forallb is_sp_nl w = true -> run_ok w w.
Proof.
  intros H.
  assert (A : forallb is_xml_byte w = true /\ no_byte 60 w = true /\ no_byte 62 w = true /\ no_byte 13 w = true /\ no_byte 38 w = true).
  { unfold no_byte. induction w as [|c w IH]; [repeat split; reflexivity|]. cbn [forallb] in *.
    apply andb_true_iff in H as [H1 H2]. destruct (IH H2) as (I1 & I2 & I3 & I4 & I5).
    destruct (sp_nl_facts c H1) as (F1 & F2 & F3 & F4 & F5). rewrite I1, I2, I3, I4, I5, F1, F2, F3, F4, F5. repeat split; reflexivity. }
  destruct A as (A1 & A2 & A3 & A4 & A5). constructor; auto. intros r. now apply unesc_plain_id.
Qed.

Lemma spaces_sp n : forallb is_sp_nl (spaces n) = true.
Proof. unfold spaces. induction (N.to_nat n) as [|k IH]; [reflexivity|]. cbn [repeat forallb]. now rewrite IH. Qed.

Lemma forallb_app_sp a b : forallb is_sp_nl a = true -> forallb is_sp_nl b = true -> forallb is_sp_nl (a ++ b) = true.
Proof. intros A B. now rewrite forallb_app, A, B. Qed.

(* the pieces *)
Definition hc (o : opts) (ch : list node) : bool := is_indent o && have_child_elt ch.
Definition w0 (o : opts) (s : est) : bytes := if is_indent o then indent_bytes o s else [].
Definition w1 (o : opts) (ch : list node) : bytes := if hc o ch then nl else [].
Definition ind_after (o : opts) (ch : list node) (s4 : est) : N := if hc o ch then u8 (e_indent s4 + 255) else e_indent s4.
Definition w2 (o : opts) (ch : list node) (s4 : est) : bytes :=
  if hc o ch then (if e_in_content s4 then nl else []) ++ spaces (ind_after o ch s4 * o_delta o) else [].
Definition s_in (o : opts) (ch : list node) (nm : tname) (s : est) : est :=
  if hc o ch then mk_est (u8 (e_indent s + 1)) (e_in_content s) (e_in_cdata s) (cur_of nm) else set_cur (cur_of nm) s.
Definition s_out (o : opts) (ch : list node) (s4 : est) : est := mk_est (ind_after o ch s4) false (e_in_cdata s4) (e_cur_tag s4).

Lemma w0_sp o s : forallb is_sp_nl (w0 o s) = true.
Proof. unfold w0, indent_bytes. destruct (is_indent o); [apply spaces_sp|reflexivity]. Qed.
Lemma w1_sp o ch : forallb is_sp_nl (w1 o ch) = true.
Proof. unfold w1. destruct (hc o ch); reflexivity. Qed.
Lemma w2_sp o ch s4 : forallb is_sp_nl (w2 o ch s4) = true.
Proof. unfold w2. destruct (hc o ch); [|reflexivity]. apply forallb_app_sp; [destruct (e_in_content s4); reflexivity|apply spaces_sp]. Qed.
Lemma nl_if_sp o : forallb is_sp_nl (nl_if o) = true.
Proof. unfold nl_if. destruct (is_indent o); reflexivity. Qed.

(* the element case of the generator in every mode *)
Lemma enc_elt_gen l o parent s nm attrs ch :
  enc_node l o parent s (Elt nm attrs ch) =
  match ch with
  | [] => XOk (w0 o s ++ elt_open l o parent nm attrs ++ 47 :: 62 :: nl_if o, set_cur (cur_of nm) s)
  | _ =>
    match seq_nodes (enc_node l o (pinfo_below parent nm)) ch (s_in o ch nm s) with
    | XOk (b4, s4) =>
      XOk (w0 o s ++ elt_open l o parent nm attrs ++ 62 :: w1 o ch ++ b4 ++ w2 o ch s4 ++ 60 :: 47 :: tname_bytes nm ++ 62 :: nl_if o,
           s_out o ch s4)
    | XErr e => XErr e
    end
  end.
Proof.
  rewrite enc_node_elt.
  unfold xml_encode_tag, xml_encode_end_attrs, xml_encode_end_tag, elt_open, w0, w1, w2, s_in, s_out, ind_after, hc, set_cur.
  change (match nm with TTok r => Some r | TLit _ => None end) with (cur_of nm).
  destruct ch as [|c0 ch0].
  - destruct (is_indent o); cbn [app]; repeat (rewrite <- app_assoc || rewrite <- app_comm_cons); reflexivity.
  - destruct (is_indent o); cbn [andb]; [destruct (have_child_elt (c0 :: ch0))|]; cbn [e_indent e_in_content e_in_cdata e_cur_tag];
      match goal with |- context [seq_nodes ?f ?c ?st] => destruct (seq_nodes f c st) as [[b4 s4]|e] end; try reflexivity;
      cbn [app]; repeat (rewrite <- app_assoc || rewrite <- app_comm_cons); reflexivity.
Qed.

(* ------------------------------------------------------------------ *)
(* 2. specification for every mode: the infoset INCLUDING the white space of the indented generation, with the
      encoder state (depth counter mod 256, in_content) threaded exactly as the generator does              *)

Definition info_list_g (f : est -> node -> option (list xitem * est)) : list node -> est -> option (list xitem * est) :=
  fix go (ns : list node) (s : est) : option (list xitem * est) :=
    match ns with
    | [] => Some ([], s)
    | n :: r =>
      match f s n with
      | Some (a, s1) =>
        match go r (reset_cur s1) with
        | Some (b, s2) => Some (a ++ b, s2)
        | None => None
        end
      | None => None
      end
    end.

Definition text_item (l : xlang) (o : opts) (parent : pinfo) (s : est) (c : bytes) : option (list xitem * est) :=
  match text_policy o parent s c with
  | None => Some ([], s)
  | Some c' =>
    let tmp := syncml_type_rewrite l (e_cur_tag s) c' in
    let s' := mk_est (e_indent s) true (e_in_cdata s) (e_cur_tag s) in
    if tag_is_binary (text_tag s parent)
    then match b64_enc tmp with Some e => Some ([XT e], s') | None => None end
    else Some ([XT tmp], s')
  end.

Fixpoint info_g (l : xlang) (o : opts) (parent : pinfo) (s : est) (n : node) {struct n} : option (list xitem * est) :=
  match n with
  | Elt nm attrs ch =>
    match ch with
    | [] => Some ([XT (w0 o s); XE (tname_bytes nm) (spec_attrs l o parent nm attrs) []; XT (nl_if o)], set_cur (cur_of nm) s)
    | _ =>
      match info_list_g (info_g l o (pinfo_below parent nm)) ch (s_in o ch nm s) with
      | Some (its, s4) =>
        Some ([XT (w0 o s);
               XE (tname_bytes nm) (spec_attrs l o parent nm attrs) (merge_items (XT (w1 o ch) :: its ++ [XT (w2 o ch s4)]));
               XT (nl_if o)], s_out o ch s4)
      | None => None
      end
    end
  | Text c => text_item l o parent s c
  | CData ch =>
    (* one CDATA node = its payload as character data (the sections the generator splits it into are put together) *)
    match ch with
    | [] => Some ([], set_cdata false (set_cdata true s))
    | [Text t] => Some ([XT t], mk_est (e_indent s) true false None)
    | _ => None
    end
  | Pi => None
  | SubTree sl roots =>
    (* an embedded document: its root element(s) appear in place, generated with the embedded language, the
       current depth and a fresh in_content *)
    match sl with
    | Some l' =>
      match info_list_g (info_g l' o proot) roots (est0 (e_indent s)) with
      | Some (its, _) => Some (its, s)
      | None => None
      end
    | None => None
    end
  end.

(* hypotheses of the property for every kind of node the WBXML tree builder makes.  A CDATA node holds one text
   (the builder joins adjacent texts; after the repair of D8 it never nests CDATA nodes or puts elements inside):
   XML characters and no raw CR (inside a section CR is written raw in every mode). *)
Definition cdata_ok (t : bytes) : bool := forallb is_xml_byte t && no_byte 13 t.

Fixpoint node_ok_g (l : xlang) (o : opts) (parent : pinfo) (cur : option trow) (n : node) {struct n} : bool :=
  match n with
  | Elt nm attrs ch =>
    is_xml_name (tname_bytes nm) &&
    forallb (attr_ok o) attrs &&
    nodup_bytes (map fst (spec_attrs l o parent nm attrs)) &&
    (fix go (cur : option trow) (ns : list node) : bool :=
       match ns with
       | [] => true
       | x :: r => node_ok_g l o (pinfo_below parent nm) cur x && go None r
       end) (cur_of nm) ch
  | Text s =>
    (* content of a binary-flagged element: arbitrary octets (rendered as base64); otherwise XML characters *)
    if tag_is_binary (text_tag (mk_est 0 false false cur) parent)
    then forallb (fun c => c <? 256) s && negb (tag_is_type cur)
    else chars_ok o s
  | CData ch => match ch with [] => true | [Text t] => cdata_ok t | _ => false end
  | Pi => false
  | SubTree sl roots =>
    match sl with
    | Some l' =>
      lang_ok l' &&
      (fix go (cur : option trow) (ns : list node) : bool :=
         match ns with
         | [] => true
         | x :: r => node_ok_g l' o proot cur x && go None r
         end) None roots
    | None => false
    end
  end.

Definition nodes_ok_g (l : xlang) (o : opts) (parent : pinfo) : option trow -> list node -> bool :=
  fix go (cur : option trow) (ns : list node) : bool :=
    match ns with
    | [] => true
    | x :: r => node_ok_g l o parent cur x && go None r
    end.

(* ------------------------------------------------------------------ *)
(* 3. reading                                                           *)

(* a start tag (after '<' has been seen to start an element) *)
Lemma elt_open_read l o parent nm attrs :
  lang_ok l = true ->
  is_xml_name (tname_bytes nm) = true -> forallb (attr_ok o) attrs = true ->
  nodup_bytes (map fst (spec_attrs l o parent nm attrs)) = true ->
  forall tailc tailr flag r0,
    (tailc :: tailr = 62 :: r0 /\ flag = false) \/ (tailc :: tailr = 47 :: 62 :: r0 /\ flag = true) ->
    forall f acc0 x,
      (if flag then p_content f r0 (XE (tname_bytes nm) (spec_attrs l o parent nm attrs) [] :: acc0)
       else match p_content f r0 [] with
            | ROk (ch', r3) =>
              match p_name r3 with
              | Some (nm', r4) =>
                if bytes_eqb (tname_bytes nm) nm' then
                  match skip_ws r4 with
                  | c5 :: r5 => if c5 =? 62 then p_content f r5 (XE (tname_bytes nm) (spec_attrs l o parent nm attrs) ch' :: acc0) else RErr
                  | [] => RErr
                  end
                else RErr
              | None => RErr
              end
            | RErr => RErr
            | RFuel => RFuel
            end) = ROk x ->
      p_content (S f) (elt_open l o parent nm attrs ++ tailc :: tailr) acc0 = ROk x.
Proof.
  intros HL Hok1 Hok2 Hok3 tailc tailr flag r0 HT f acc0 x Hk.
  pose proof (ok_triples l o parent nm attrs HL Hok2) as HF.
  pose proof (keys_triples l o parent nm attrs) as HK.
  unfold elt_open. rewrite <- app_comm_cons. cbn [p_content]. change (60 =? 60) with true. cbn match.
  destruct (name_not_special _ Hok1) as (c1 & rn & En & Hs1).
  rewrite En. cbn [app].
  assert (c1 =? 47 = false) as ->.
  { apply N.eqb_neq. intros ->. discriminate. }
  assert (c1 =? 33 = false) as ->.
  { apply N.eqb_neq. intros ->. discriminate. }
  rewrite <- !app_assoc. rewrite app_comm_cons, <- En.
  rewrite (app_assoc (xmlns_part l parent nm)), emit_triples.
  assert (Hfirst : exists c2 r2, flat_map emit_attr (attr_triples l o parent nm attrs) ++ tailc :: tailr = c2 :: r2 /\ is_name_char c2 = false).
  { destruct (attr_triples l o parent nm attrs) as [|[[k raw] v] kvs].
    - cbn [flat_map app]. exists tailc, tailr. split; [reflexivity|].
      destruct HT as [[E _]|[E _]]; injection E as -> _; reflexivity.
    - cbn [flat_map emit_attr app]. eexists _, _. split; [reflexivity|reflexivity]. }
  destruct Hfirst as (c2 & r2 & E2 & Hc2). rewrite E2.
  rewrite (p_name_app _ c2 r2 Hok1 Hc2). rewrite <- E2.
  rewrite (p_attrs_ok (attr_triples l o parent nm attrs) _ [] (tailc :: tailr) flag r0 HF).
  - cbn [rev app]. rewrite proj_triples. destruct flag; exact Hk.
  - rewrite HK. exact Hok3.
  - intros; reflexivity.
  - rewrite app_length. cbn [length].
    pose proof (length_flat_emit (attr_triples l o parent nm attrs)). lia.
  - exact HT.
Qed.

(* bytes the generator writes are XML bytes (in particular never NUL: an embedded document is appended as a C string) *)
Lemma name_char_xml c : is_name_char c = true -> is_xml_byte c = true.
Proof.
  unfold is_xml_byte. destruct (32 <=? c) eqn:E; [reflexivity|]. apply N.leb_gt in E. intros H. exfalso.
  unfold is_name_char, is_name_start in H.
  replace (65 <=? c) with false in H by (symmetry; apply N.leb_gt; lia).
  replace (97 <=? c) with false in H by (symmetry; apply N.leb_gt; lia).
  replace (128 <=? c) with false in H by (symmetry; apply N.leb_gt; lia).
  replace (48 <=? c) with false in H by (symmetry; apply N.leb_gt; lia).
  replace (c =? 95) with false in H by (symmetry; apply N.eqb_neq; lia).
  replace (c =? 58) with false in H by (symmetry; apply N.eqb_neq; lia).
  replace (c =? 45) with false in H by (symmetry; apply N.eqb_neq; lia).
  replace (c =? 46) with false in H by (symmetry; apply N.eqb_neq; lia).
  discriminate.
Qed.

Lemma xml_name_bytes n : is_xml_name n = true -> forallb is_xml_byte n = true.
Proof.
  destruct n as [|c r]; [discriminate|]. cbn [is_xml_name forallb]. intros H. apply andb_true_iff in H as [H1 H2].
  rewrite (name_char_xml c) by (unfold is_name_char; now rewrite H1). cbn [andb].
  induction r as [|d r IH]; [reflexivity|]. cbn [forallb] in *. apply andb_true_iff in H2 as [A B].
  now rewrite (name_char_xml d A), (IH B).
Qed.

Lemma sp_bytes w : forallb is_sp_nl w = true -> forallb is_xml_byte w = true.
Proof. intros H. exact (ro_bytes _ _ (ws_run_ok w H)). Qed.

Lemma emit_bytes kvs :
  Forall (fun kv : bytes * bytes * bytes => let '(k, raw, v) := kv in is_xml_name k = true /\ aval_ok raw v) kvs ->
  forallb is_xml_byte (flat_map emit_attr kvs) = true.
Proof.
  induction 1 as [|[[k raw] v] r [Hk Hv] _ IH]; [reflexivity|].
  cbn [flat_map emit_attr]. rewrite forallb_app, IH, andb_true_r. cbn [forallb]. rewrite !forallb_app.
  rewrite (xml_name_bytes k Hk), (av_bytes _ _ Hv). reflexivity.
Qed.

Lemma elt_open_bytes l o parent nm attrs :
  lang_ok l = true -> is_xml_name (tname_bytes nm) = true -> forallb (attr_ok o) attrs = true ->
  forallb is_xml_byte (elt_open l o parent nm attrs) = true.
Proof.
  intros HL H1 H2. unfold elt_open. cbn [forallb]. rewrite forallb_app, (xml_name_bytes _ H1), emit_triples.
  now rewrite (emit_bytes _ (ok_triples l o parent nm attrs HL H2)).
Qed.

Lemma split_bytes t : forallb is_xml_byte t = true -> forallb is_xml_byte (split_cdata_end t) = true.
Proof.
  assert (G : forall n t, (length t <= n)%nat -> forallb is_xml_byte t = true -> forallb is_xml_byte (split_cdata_end t) = true).
  { induction n as [|n IH]; intros u Hl Hb; [destruct u; [reflexivity|cbn in Hl; lia]|].
    destruct u as [|a [|b [|c r]]]; try exact Hb.
    rewrite split_3. cbn [forallb length] in Hb, Hl. destruct (is_end a b c).
    + rewrite forallb_app. apply andb_true_iff in Hb as [_ Hb]. apply andb_true_iff in Hb as [_ Hb]. apply andb_true_iff in Hb as [_ Hb].
      rewrite (IH r) by (auto; lia). reflexivity.
    + apply andb_true_iff in Hb as [Ha Hb]. cbn [forallb]. rewrite Ha. apply (IH (b :: c :: r)); [cbn [length]; lia|exact Hb]. }
  intros H. exact (G (length t) t (le_n _) H).
Qed.

Lemma cstr_xml b : forallb is_xml_byte b = true -> cstr b = b.
Proof.
  intros H. apply cstr_nonzero. rewrite forallb_forall in H. apply Forall_forall. intros x Hx E. subst.
  specialize (H 0 Hx). discriminate.
Qed.

(* base64 text is made of XML characters *)
Definition b64_safe (c : N) : bool := is_xml_byte c && negb (c =? 13).
Lemma basis_safe_sweep : forallb (fun i => b64_safe (basis i)) (Bits.N_range 64) = true.
Proof. vm_compute. reflexivity. Qed.

Lemma b64_chars_ok o bs e : forallb (fun c => c <? 256) bs = true -> b64_enc bs = Some e -> chars_ok o e = true.
Proof.
  intros H E. assert (HF : Forall (fun b => b < 256) bs).
  { rewrite forallb_forall in H. apply Forall_forall. intros x Hx. apply N.ltb_lt. now apply H. }
  destruct bs as [|b0 br]; [discriminate|].
  assert (He : e = b64_enc_body (b0 :: br)) by (change (b64_enc (b0 :: br)) with (Some (b64_enc_body (b0 :: br))) in E; congruence).
  subst e. clear E. rewrite (enc_body_shape _ HF).
  assert (S : forallb b64_safe (map basis (sextets (b0 :: br)) ++ pad (b0 :: br)) = true).
  { rewrite forallb_app. apply andb_true_iff. split.
    - pose proof (sextets_lt _ HF) as HS. induction HS as [|x r Hx _ IH]; [reflexivity|]. cbn [map forallb].
      rewrite IH, andb_true_r. exact (Bits.sweep1 _ 64 basis_safe_sweep x Hx).
    - unfold pad. destruct (length (b0 :: br) mod 3)%nat as [|[|[|?]]]; reflexivity. }
  unfold chars_ok. apply andb_true_iff. split.
  - rewrite forallb_forall in S |- *. intros x Hx. specialize (S x Hx). unfold b64_safe in S. now apply andb_true_iff in S as [S _].
  - apply orb_true_iff. right. unfold no_byte. rewrite forallb_forall in S |- *. intros x Hx. specialize (S x Hx).
    unfold b64_safe in S. now apply andb_true_iff in S as [_ S].
Qed.

Lemma rewrite_not_type l cur s : tag_is_type cur = false -> syncml_type_rewrite l cur s = s.
Proof. intros H. unfold syncml_type_rewrite. rewrite H, !andb_false_r. reflexivity. Qed.

Definition seq_fuel (ch : list node) : nat := fold_right (fun x a => node_fuel x + a)%nat 0%nat ch.

(* reading a sequence of sibling nodes, in continuation form (as reads_node) *)
Definition reads_seq (ch : list node) (b : bytes) (its : list xitem) : Prop :=
  forall pre tpre acc tail f x,
    run_ok pre tpre ->
    (forall pre2 tpre2 acc2,
        run_ok pre2 tpre2 ->
        push_text tpre2 acc2 = fold_left push_item its (push_text tpre acc) ->
        p_content f (pre2 ++ tail) acc2 = ROk x) ->
    p_content (seq_fuel ch + f) (pre ++ b ++ tail) acc = ROk x.

(* the children of an element, up to its end tag, with the white space [post] written before the end tag *)
Definition reads_list_g (ch : list node) (b : bytes) (its : list xitem) : Prop :=
  forall pre tpre post acc rest f,
    run_ok pre tpre -> run_ok post post ->
    p_content (list_fuel ch + f) (pre ++ b ++ post ++ 60 :: 47 :: rest) acc =
    ROk (rev (fold_left push_item (its ++ [XT post]) (push_text tpre acc)), rest).

Lemma seq_to_list ch b its : reads_seq ch b its -> reads_list_g ch b its.
Proof.
  intros Hs pre tpre post acc rest f Hrun Hpost.
  replace (list_fuel ch + f)%nat with (seq_fuel ch + (2 + f))%nat by (unfold list_fuel, seq_fuel; lia).
  apply (Hs pre tpre acc (post ++ 60 :: 47 :: rest) (2 + f)%nat _ Hrun).
  intros pre2 tpre2 acc2 Hrun2 Heq. rewrite app_assoc.
  apply (flush_run (pre2 ++ post) (tpre2 ++ post) (S f) _ acc2 _ (run_ok_app _ _ _ _ Hrun2 Hpost)).
  rewrite push_text_app, Heq, fold_left_app. reflexivity.
Qed.

Definition node_main_g_stmt (n : node) : Prop :=
  forall l o parent s b s',
    lang_ok l = true -> e_in_cdata s = false ->
    node_ok_g l o parent (e_cur_tag s) n = true ->
    enc_node l o parent s n = XOk (b, s') ->
    e_in_cdata s' = false /\ forallb is_xml_byte b = true /\
    exists its, info_g l o parent s n = Some (its, s') /\ reads_node n b its.

Lemma seq_main ch :
  Forall node_main_g_stmt ch ->
  forall l o parent s b s',
    lang_ok l = true -> e_in_cdata s = false ->
    nodes_ok_g l o parent (e_cur_tag s) ch = true ->
    seq_nodes (enc_node l o parent) ch s = XOk (b, s') ->
    e_in_cdata s' = false /\ forallb is_xml_byte b = true /\
    exists its, info_list_g (info_g l o parent) ch s = Some (its, s') /\ reads_seq ch b its.
Proof.
  induction 1 as [|n ch Hn Hch IH]; intros l o parent s b s' HL Hc Hok Henc.
  - cbn in Henc. injection Henc as <- <-. split; [exact Hc|]. split; [reflexivity|]. exists []. split; [reflexivity|].
    intros pre tpre acc tail f x Hrun Hk. cbn [app seq_fuel fold_right Nat.add]. apply (Hk pre tpre acc Hrun). reflexivity.
  - cbn [seq_nodes] in Henc.
    destruct (enc_node l o parent s n) as [[b1 s1]|e] eqn:E1; [|discriminate].
    cbn [nodes_ok_g] in Hok. apply andb_true_iff in Hok as [Hok1 Hok2].
    destruct (Hn l o parent s b1 s1 HL Hc Hok1 E1) as (Hc1 & Hb1 & its1 & Hi1 & Hr1).
    match type of Henc with context [?g ch (reset_cur s1)] =>
      destruct (g ch (reset_cur s1)) as [[b2 s2]|e] eqn:E2; [|discriminate] end.
    injection Henc as <- <-.
    destruct (IH l o parent (reset_cur s1) b2 s2 HL Hc1 Hok2 E2) as (Hc2 & Hb2 & its2 & Hi2 & Hr2).
    split; [exact Hc2|]. split; [now rewrite forallb_app, Hb1, Hb2|]. exists (its1 ++ its2). split.
    + cbn [info_list_g]. rewrite Hi1. cbn [info_list_g] in Hi2. rewrite Hi2. reflexivity.
    + intros pre tpre acc tail f x Hrun Hk.
      replace (seq_fuel (n :: ch) + f)%nat with (node_fuel n + (seq_fuel ch + f))%nat by (unfold seq_fuel; cbn [fold_right]; lia).
      rewrite <- app_assoc.
      apply (Hr1 pre tpre acc (b2 ++ tail) (seq_fuel ch + f)%nat _ Hrun).
      intros pre2 tpre2 acc2 Hrun2 Heq.
      apply (Hr2 pre2 tpre2 acc2 tail f x Hrun2).
      intros pre3 tpre3 acc3 Hrun3 Heq3. apply (Hk pre3 tpre3 acc3 Hrun3). now rewrite Heq3, Heq, fold_left_app.
Qed.

Lemma list_main_g ch :
  Forall node_main_g_stmt ch ->
  forall l o parent s b s',
    lang_ok l = true -> e_in_cdata s = false ->
    nodes_ok_g l o parent (e_cur_tag s) ch = true ->
    seq_nodes (enc_node l o parent) ch s = XOk (b, s') ->
    e_in_cdata s' = false /\ forallb is_xml_byte b = true /\
    exists its, info_list_g (info_g l o parent) ch s = Some (its, s') /\ reads_list_g ch b its.
Proof.
  intros HF l o parent s b s' HL Hc Hok Henc.
  destruct (seq_main ch HF l o parent s b s' HL Hc Hok Henc) as (A & B & its & C & D).
  split; [exact A|]. split; [exact B|]. exists its. split; [exact C|now apply seq_to_list].
Qed.

Lemma node_main_g : forall n, node_main_g_stmt n.
Proof.
  induction n as [nm attrs ch IHch|t|ch _| |sl roots IHr] using node_ind2;
    intros l o parent s b s' HL Hc Hok Henc; try discriminate.
  - (* element *)
    rewrite (enc_elt_gen l o parent s nm attrs ch) in Henc.
    cbn [node_ok_g] in Hok.
    change ((fix go (cur0 : option trow) (ns : list node) {struct ns} : bool :=
               match ns with [] => true | x :: r => node_ok_g l o (pinfo_below parent nm) cur0 x && go None r end) (cur_of nm) ch)
      with (nodes_ok_g l o (pinfo_below parent nm) (cur_of nm) ch) in Hok.
    apply andb_true_iff in Hok as [Hok Hok4]. apply andb_true_iff in Hok as [Hok Hok3].
    apply andb_true_iff in Hok as [Hok1 Hok2].
    pose proof (elt_open_read l o parent nm attrs HL Hok1 Hok2 Hok3) as Hopen.
    pose proof (elt_open_bytes l o parent nm attrs HL Hok1 Hok2) as Bopen.
    pose proof (xml_name_bytes _ Hok1) as Bname.
    pose proof (ws_run_ok _ (w0_sp o s)) as Rw0.
    pose proof (ws_run_ok _ (nl_if_sp o)) as Rnl.
    destruct ch as [|c0 ch0].
    + (* empty element *)
      assert (Hb : b = w0 o s ++ elt_open l o parent nm attrs ++ 47 :: 62 :: nl_if o) by congruence.
      assert (Hs' : s' = set_cur (cur_of nm) s) by congruence. subst b s'. clear Henc.
      split; [exact Hc|].
      split; [rewrite !forallb_app, (sp_bytes _ (w0_sp o s)), Bopen; cbn [forallb]; now rewrite (sp_bytes _ (nl_if_sp o))|].
      eexists. split; [reflexivity|].
      intros pre tpre acc tail f x Hrun Hk.
      cbn [node_fuel fold_right].
      replace (pre ++ (w0 o s ++ elt_open l o parent nm attrs ++ 47 :: 62 :: nl_if o) ++ tail)
        with ((pre ++ w0 o s) ++ 60 :: (tname_bytes nm ++ xmlns_part l parent nm ++ parse_attributes l o attrs) ++ 47 :: 62 :: nl_if o ++ tail)
        by (unfold elt_open; repeat (rewrite <- app_assoc || rewrite <- app_comm_cons); reflexivity).
      replace (4 + 0 + f)%nat with (S (S (2 + f))) by lia.
      apply (flush_run (pre ++ w0 o s) (tpre ++ w0 o s) _ _ acc x (run_ok_app _ _ _ _ Hrun Rw0)).
      change (60 :: (tname_bytes nm ++ xmlns_part l parent nm ++ parse_attributes l o attrs) ++ 47 :: 62 :: nl_if o ++ tail)
        with (elt_open l o parent nm attrs ++ 47 :: 62 :: nl_if o ++ tail).
      apply (Hopen 47 (62 :: nl_if o ++ tail) true (nl_if o ++ tail)); [right; auto|].
      eapply p_content_mono; [apply (Hk (nl_if o) (nl_if o) _ Rnl)|lia].
      cbn [fold_left push_item]. now rewrite push_text_app.
    + (* element with content *)
      destruct (seq_nodes (enc_node l o (pinfo_below parent nm)) (c0 :: ch0) (s_in o (c0 :: ch0) nm s)) as [[b4 s4]|e] eqn:E4; [|discriminate].
      assert (Hb : b = w0 o s ++ elt_open l o parent nm attrs ++ 62 :: w1 o (c0 :: ch0) ++ b4 ++ w2 o (c0 :: ch0) s4 ++
                         60 :: 47 :: tname_bytes nm ++ 62 :: nl_if o) by congruence.
      assert (Hs' : s' = s_out o (c0 :: ch0) s4) by congruence. subst b s'. clear Henc.
      assert (Hcin : e_in_cdata (s_in o (c0 :: ch0) nm s) = false) by (unfold s_in; destruct (hc o (c0 :: ch0)); exact Hc).
      assert (Hcur : e_cur_tag (s_in o (c0 :: ch0) nm s) = cur_of nm) by (unfold s_in; destruct (hc o (c0 :: ch0)); reflexivity).
      rewrite <- Hcur in Hok4.
      destruct (list_main_g (c0 :: ch0) IHch l o (pinfo_below parent nm) (s_in o (c0 :: ch0) nm s) b4 s4 HL Hcin Hok4 E4)
        as (Hc4 & Bb4 & its & Hinfo & Hread).
      split; [exact Hc4|].
      split.
      { rewrite !forallb_app, (sp_bytes _ (w0_sp o s)), Bopen. cbn [forallb andb]. rewrite !forallb_app, (sp_bytes _ (w1_sp o _)), Bb4,
          (sp_bytes _ (w2_sp o _ s4)). cbn [forallb andb]. rewrite !forallb_app, Bname. cbn [forallb andb]. now rewrite (sp_bytes _ (nl_if_sp o)). }
      eexists. split.
      { cbn [info_g]. rewrite Hinfo. reflexivity. }
      intros pre tpre acc tail f x Hrun Hk.
      replace (pre ++ (w0 o s ++ elt_open l o parent nm attrs ++ 62 :: w1 o (c0 :: ch0) ++ b4 ++ w2 o (c0 :: ch0) s4 ++
                          60 :: 47 :: tname_bytes nm ++ 62 :: nl_if o) ++ tail)
        with ((pre ++ w0 o s) ++ 60 :: (tname_bytes nm ++ xmlns_part l parent nm ++ parse_attributes l o attrs) ++
                  62 :: w1 o (c0 :: ch0) ++ b4 ++ w2 o (c0 :: ch0) s4 ++ 60 :: 47 :: tname_bytes nm ++ 62 :: nl_if o ++ tail)
        by (unfold elt_open; repeat (rewrite <- app_assoc || rewrite <- app_comm_cons); reflexivity).
      assert (Hnf : (node_fuel (Elt nm attrs (c0 :: ch0)) + f = S (S (list_fuel (c0 :: ch0) + f)))%nat)
        by (unfold list_fuel; cbn [node_fuel]; lia).
      rewrite Hnf.
      apply (flush_run (pre ++ w0 o s) (tpre ++ w0 o s) _ _ acc x (run_ok_app _ _ _ _ Hrun Rw0)).
      change (60 :: (tname_bytes nm ++ xmlns_part l parent nm ++ parse_attributes l o attrs) ++
                 62 :: w1 o (c0 :: ch0) ++ b4 ++ w2 o (c0 :: ch0) s4 ++ 60 :: 47 :: tname_bytes nm ++ 62 :: nl_if o ++ tail)
        with (elt_open l o parent nm attrs ++ 62 :: w1 o (c0 :: ch0) ++ b4 ++ w2 o (c0 :: ch0) s4 ++ 60 :: 47 :: tname_bytes nm ++ 62 :: nl_if o ++ tail).
      apply (Hopen 62 (w1 o (c0 :: ch0) ++ b4 ++ w2 o (c0 :: ch0) s4 ++ 60 :: 47 :: tname_bytes nm ++ 62 :: nl_if o ++ tail) false
                   (w1 o (c0 :: ch0) ++ b4 ++ w2 o (c0 :: ch0) s4 ++ 60 :: 47 :: tname_bytes nm ++ 62 :: nl_if o ++ tail)); [left; auto|].
      pose proof (Hread (w1 o (c0 :: ch0)) (w1 o (c0 :: ch0)) (w2 o (c0 :: ch0) s4) [] (tname_bytes nm ++ 62 :: nl_if o ++ tail) f
                        (ws_run_ok _ (w1_sp o _)) (ws_run_ok _ (w2_sp o _ s4))) as HR.
      rewrite HR.
      rewrite (p_name_app _ 62 (nl_if o ++ tail) Hok1 eq_refl), bytes_eqb_refl. cbn [skip_ws is_ws].
      change (62 =? 32) with false. change (62 =? 9) with false. change (62 =? 10) with false. change (62 =? 13) with false.
      cbn [orb]. change (62 =? 62) with true. cbn match.
      eapply p_content_mono; [apply (Hk (nl_if o) (nl_if o) _ Rnl)|lia].
      cbn [fold_left push_item merge_items]. now rewrite push_text_app.
  - (* text *)
    cbn [node_ok_g] in Hok.
    rewrite (text_tag_ext (mk_est 0 false false (e_cur_tag s)) s parent) in Hok by reflexivity.
    cbn [enc_node] in Henc. unfold parse_text in Henc. cbn [info_g]. unfold text_item.
    destruct (tag_is_binary (text_tag s parent)) eqn:EB.
    + (* content of a binary-flagged element: base64 *)
      apply andb_true_iff in Hok as [Hok1 Hok2]. apply negb_true_iff in Hok2.
      assert (EP : text_policy o parent s t = Some t) by (unfold text_policy; rewrite Hc, EB; reflexivity).
      rewrite EP in *. unfold xml_encode_text in Henc. rewrite Hc, EB in Henc.
      rewrite (rewrite_not_type l _ t Hok2) in *.
      destruct (b64_enc t) as [e|] eqn:E64; [|discriminate]. injection Henc as <- <-.
      pose proof (b64_chars_ok o t e Hok1 E64) as Hch.
      pose proof (escape_run_ok o _ Hch) as Hrun2.
      split; [reflexivity|]. split; [exact (ro_bytes _ _ Hrun2)|]. rewrite Hc. eexists. split; [reflexivity|].
      intros pre tpre acc tail f x Hrun Hk. cbn [node_fuel Nat.add].
      rewrite app_assoc. apply (Hk _ _ acc (run_ok_app _ _ _ _ Hrun Hrun2)).
      cbn [fold_left push_item]. apply push_text_app.
    + destruct (text_policy o parent s t) as [c|] eqn:EP.
      * unfold xml_encode_text in Henc. rewrite Hc, EB in Henc. injection Henc as <- <-.
        pose proof (text_policy_chars o parent s t c Hok EP) as Hch.
        pose proof (chars_ok_rewrite l o (e_cur_tag s) c Hch) as Hch2.
        pose proof (escape_run_ok o _ Hch2) as Hrun2.
        split; [reflexivity|]. split; [exact (ro_bytes _ _ Hrun2)|]. rewrite Hc. eexists. split; [reflexivity|].
        intros pre tpre acc tail f x Hrun Hk. cbn [node_fuel Nat.add].
        rewrite app_assoc. apply (Hk _ _ acc (run_ok_app _ _ _ _ Hrun Hrun2)).
        cbn [fold_left push_item]. apply push_text_app.
      * injection Henc as <- <-. split; [exact Hc|]. split; [reflexivity|]. eexists. split; [reflexivity|].
        intros pre tpre acc tail f x Hrun Hk. cbn [node_fuel Nat.add app].
        apply (Hk pre tpre acc Hrun). reflexivity.
  - (* CDATA node *)
    cbn [node_ok_g] in Hok. destruct ch as [|[| t | | |] [|c1 ch1]]; try discriminate.
    + (* empty section *)
      cbn [enc_node seq_nodes] in Henc. injection Henc as <- <-.
      split; [reflexivity|]. split; [reflexivity|]. eexists. split; [reflexivity|].
      intros pre tpre acc tail f x Hrun Hk. cbn [node_fuel fold_right Nat.add].
      replace (pre ++ (s_cdata_open ++ [] ++ s_cdata_close) ++ tail)
        with (pre ++ 60 :: 33 :: s_cdata_tail ++ split_cdata_end [] ++ 93 :: 93 :: 62 :: tail) by reflexivity.
      change (2 + 0 + f)%nat with (S (1 + f)).
      apply (flush_run pre tpre _ _ acc x Hrun).
      apply (cdata_read 0 [] (le_n _) eq_refl eq_refl).
      cbn [push_text]. apply (Hk [] [] _ run_ok_nil). reflexivity.
    + (* one payload text *)
      unfold cdata_ok in Hok. apply andb_true_iff in Hok as [Hb13 Hcr].
      cbn [enc_node seq_nodes] in Henc. unfold parse_text, text_policy, xml_encode_text in Henc.
      cbn [set_cdata e_in_cdata negb andb] in Henc.
      match type of Henc with XOk (?bb, ?ss) = _ => assert (Hb' : b = bb) by congruence; assert (Hs' : s' = ss) by congruence end.
      subst b s'. clear Henc.
      split; [reflexivity|].
      split; [rewrite !forallb_app, (split_bytes t Hb13); reflexivity|].
      eexists. split; [reflexivity|].
      intros pre tpre acc tail f x Hrun Hk. cbn [node_fuel fold_right].
      replace (pre ++ (s_cdata_open ++ (split_cdata_end t ++ []) ++ s_cdata_close) ++ tail)
        with (pre ++ 60 :: 33 :: s_cdata_tail ++ split_cdata_end t ++ 93 :: 93 :: 62 :: tail)
        by (rewrite app_nil_r; unfold s_cdata_open, s_cdata_close; repeat (rewrite <- app_assoc || rewrite <- app_comm_cons); reflexivity).
      replace (2 + (length t + 0) + f)%nat with (S (S (length t) + f)) by lia.
      apply (flush_run pre tpre _ _ acc x Hrun).
      apply (cdata_read (length t) t (le_n _) Hb13 Hcr).
      apply (Hk [] [] _ run_ok_nil). reflexivity.
  - (* embedded document *)
    cbn [node_ok_g] in Hok. destruct sl as [l'|]; [|discriminate]. apply andb_true_iff in Hok as [HL' Hok].
    change ((fix go (cur0 : option trow) (ns : list node) {struct ns} : bool :=
               match ns with [] => true | x :: r => node_ok_g l' o proot cur0 x && go None r end) None roots)
      with (nodes_ok_g l' o proot None roots) in Hok.
    cbn [enc_node] in Henc.
    destruct (seq_nodes (enc_node l' o proot) roots (est0 (e_indent s))) as [[b0 s0]|e] eqn:E0; [|discriminate].
    injection Henc as <- <-.
    destruct (seq_main roots IHr l' o proot (est0 (e_indent s)) b0 s0 HL' eq_refl Hok E0) as (_ & Bb0 & its & Hinfo & Hseq).
    rewrite (cstr_xml b0 Bb0).
    split; [exact Hc|]. split; [exact Bb0|]. exists its. split.
    { cbn [info_g]. rewrite Hinfo. reflexivity. }
    intros pre tpre acc tail f x Hrun Hk. cbn [node_fuel]. exact (Hseq pre tpre acc tail f x Hrun Hk).
Qed.

(* ------------------------------------------------------------------ *)
(* whole documents, every generation mode                               *)

Lemma header_read_g l o fuel body :
  lang_ok l = true ->
  read_xml fuel (xml_header l o ++ body) =
  match p_root fuel (skip_ws body) with
  | ROk items => ROk (doc_of l items)
  | RErr => RErr
  | RFuel => RFuel
  end.
Proof.
  intros HL. destruct (is_indent o) eqn:Hi; [|now apply header_read].
  unfold lang_ok in HL.
  apply andb_true_iff in HL as [HL Hns]. apply andb_true_iff in HL as [HL Hpub]. apply andb_true_iff in HL as [Hroot Hdtd].
  apply raw_ok_quote in Hdtd.
  unfold read_xml, xml_header, nl_if. rewrite Hi.
  rewrite <- !app_assoc. rewrite expect_app.
  assert (Hsk : forall x, skip_ws (nl ++ s_doctype ++ x) = s_doctype ++ x) by reflexivity. rewrite Hsk.
  rewrite expect_app.
  assert (Hd : forall x, s_dtd_close ++ x = 34 :: 62 :: x) by reflexivity.
  assert (Hsk2 : skip_ws (nl ++ body) = skip_ws body) by reflexivity.
  destruct (xl_pub l) as [p|] eqn:EP.
  - apply raw_ok_quote in Hpub.
    rewrite <- !app_assoc.
    assert (Hp : forall x, s_public ++ x = 32 :: (80 :: 85 :: 66 :: 76 :: 73 :: 67 :: 32 :: 34 :: x)) by reflexivity.
    rewrite Hp. rewrite (p_name_app _ 32 _ Hroot eq_refl). rewrite <- Hp.
    change s_pub_kw with s_public. rewrite expect_app.
    cbn [app]. rewrite (span_app not_quote p 34 _ Hpub eq_refl).
    rewrite expect_app, Hd. rewrite (span_app not_quote (xl_dtd l) 34 _ Hdtd eq_refl).
    rewrite <- Hd, expect_app. change (10 :: body) with (nl ++ body). rewrite Hsk2. unfold doc_of. rewrite EP. reflexivity.
  - assert (Hs : forall x, s_system ++ x = 32 :: (83 :: 89 :: 83 :: 84 :: 69 :: 77 :: x)) by reflexivity.
    rewrite Hs. rewrite (p_name_app _ 32 _ Hroot eq_refl).
    assert (He1 : forall x, expect s_pub_kw (32 :: 83 :: 89 :: 83 :: 84 :: 69 :: 77 :: x) = None) by reflexivity.
    rewrite He1. rewrite <- Hs. change s_sys_kw with s_system. rewrite expect_app.
    rewrite expect_app, Hd. rewrite (span_app not_quote (xl_dtd l) 34 _ Hdtd eq_refl).
    rewrite <- Hd, expect_app. rewrite Hsk2. unfold doc_of. rewrite EP. reflexivity.
Qed.

Lemma w0_root o : w0 o (est0 0) = [].
Proof. unfold w0, indent_bytes, est0. cbn [e_indent]. rewrite N.mul_0_l. destruct (is_indent o); reflexivity. Qed.

Lemma info_g_elt_shape l o parent s nm attrs ch its s' :
  info_g l o parent s (Elt nm attrs ch) = Some (its, s') ->
  exists c, its = [XT (w0 o s); XE (tname_bytes nm) (spec_attrs l o parent nm attrs) c; XT (nl_if o)].
Proof.
  cbn [info_g]. destruct ch as [|c0 ch0].
  - intros E. injection E as <- _. eauto.
  - destruct (info_list_g _ _ _) as [[its4 s4]|]; [|discriminate]. intros E. injection E as <- _. eauto.
Qed.

(* THE READER INVERTS THE GENERATOR, every generation mode and indent width: the document is accepted, the
   DOCTYPE is the language's, the root element is the specified one (info_g: exact, including the white space
   that indented generation writes between markup) *)
Theorem read_enc_g l o nm attrs ch out :
  lang_ok l = true ->
  node_ok_g l o proot None (Elt nm attrs ch) = true ->
  enc_xml_opts l o [Elt nm attrs ch] = XOk out ->
  exists c s',
    info_g l o proot (est0 0) (Elt nm attrs ch) =
      Some ([XT []; XE (tname_bytes nm) (spec_attrs l o proot nm attrs) c; XT (nl_if o)], s') /\
    forall fuel, (node_fuel (Elt nm attrs ch) + 2 <= fuel)%nat ->
      read_xml fuel out = ROk (doc_of l [XE (tname_bytes nm) (spec_attrs l o proot nm attrs) c]).
Proof.
  intros HL Hok Henc. unfold enc_xml_opts, enc_nodes in Henc. cbn [seq_nodes] in Henc.
  destruct (enc_node l o proot (est0 0) (Elt nm attrs ch)) as [[b s1]|e] eqn:E; [|discriminate].
  assert (Hout : out = xml_header l o ++ b ++ []) by congruence. subst out. clear Henc.
  destruct (node_main_g (Elt nm attrs ch) l o proot (est0 0) b s1 HL eq_refl Hok E) as (_ & _ & its & Hinfo & Hread).
  destruct (info_g_elt_shape _ _ _ _ _ _ _ _ _ Hinfo) as (c & Eits). rewrite w0_root in Eits. subst its.
  exists c, s1. split; [exact Hinfo|]. intros fuel Hfuel.
  rewrite app_nil_r. rewrite (header_read_g l o fuel b HL).
  assert (Hb : exists c1 rb, b = 60 :: c1 :: rb /\ is_name_start c1 = true).
  { rewrite (enc_elt_gen l o proot (est0 0) nm attrs ch) in E. rewrite w0_root in E.
    cbn [node_ok_g] in Hok. apply andb_true_iff in Hok as [Hok _]. apply andb_true_iff in Hok as [Hok _].
    apply andb_true_iff in Hok as [Hok _]. destruct (name_not_special _ Hok) as (c1 & rn & En & Hs).
    destruct ch as [|c0 ch0].
    - injection E as <- _. unfold elt_open. rewrite En. cbn [app]. eauto.
    - destruct (seq_nodes _ _ _) as [[b4 s4]|]; [|discriminate].
      injection E as <- _. unfold elt_open. rewrite En. cbn [app]. eauto. }
  destruct Hb as (c1 & rb & Eb & Hs1).
  assert (Hskip : skip_ws b = b) by (rewrite Eb; reflexivity). rewrite Hskip.
  unfold p_root. rewrite Eb, Hs1. rewrite <- Eb.
  replace fuel with (node_fuel (Elt nm attrs ch) + (fuel - node_fuel (Elt nm attrs ch)))%nat by lia.
  pose proof (Hread [] [] [] [60; 47] (fuel - node_fuel (Elt nm attrs ch))%nat
                    (rev (push_text (nl_if o) [XE (tname_bytes nm) (spec_attrs l o proot nm attrs) c]), []) run_ok_nil) as HR.
  cbn [app] in HR. rewrite HR.
  - unfold nl_if. destruct (is_indent o); reflexivity.
  - intros pre2 tpre2 acc2 Hrun2 Heq. cbn [fold_left push_item push_text] in Heq.
    destruct (fuel - node_fuel (Elt nm attrs ch))%nat as [|[|f2]] eqn:Ef; [lia|lia|].
    apply (flush_run pre2 tpre2 (S f2) [47] acc2 _ Hrun2). cbn [p_content]. cbn. now rewrite Heq.
Qed.

(* ------------------------------------------------------------------ *)
(* 4. C07: equality modulo blank text between markup                    *)

Fixpoint dropw (s : bytes) : bytes :=
  match s with
  | c :: r => if is_ws c then dropw r else s
  | [] => []
  end.
(* trim XML white space at both ends *)
Definition xstrip (t : bytes) : bytes := dropw (rev (dropw (rev t))).
Definition emit (t : bytes) : list xitem := match t with [] => [] | _ => [XT t] end.
Definition is_xe (it : xitem) : bool := match it with XE _ _ _ => true | XT _ => false end.
Definition strip_items (l : list xitem) : list xitem :=
  flat_map (fun it => match it with XT t => emit (xstrip t) | e => [e] end) l.

(* the normal form "modulo blank text between markup": in every element that has an element child, each run of
   character data is trimmed and blank runs are dropped; elements with only character data are left alone *)
Fixpoint nb (it : xitem) : xitem :=
  match it with
  | XT t => XT t
  | XE n a ch => let ch' := map nb ch in XE n a (if existsb is_xe ch then strip_items ch' else ch')
  end.
Definition nb_list (l : list xitem) : list xitem :=
  let l' := map nb l in if existsb is_xe l then strip_items l' else l'.

Lemma nb_xe n a ch : nb (XE n a ch) = XE n a (nb_list ch).
Proof. reflexivity. Qed.

Definition allws (w : bytes) : bool := forallb is_ws w.

Lemma dropw_app a b : dropw (a ++ b) = if allws a then dropw b else dropw a ++ b.
Proof.
  induction a as [|c a IH]; [reflexivity|]. cbn [app dropw allws forallb]. destruct (is_ws c); [exact IH|reflexivity].
Qed.

Lemma allws_rev w : allws w = true -> allws (rev w) = true.
Proof. apply forallb_rev'. Qed.

Lemma dropw_allws w : allws w = true -> dropw w = [].
Proof. induction w as [|c w IH]; [reflexivity|]. cbn [allws forallb dropw]. intros H. apply andb_true_iff in H as [H1 H2]. rewrite H1. now apply IH. Qed.

Lemma xstrip_trail c w : allws w = true -> xstrip (c ++ w) = xstrip c.
Proof. intros H. unfold xstrip. rewrite rev_app_distr, dropw_app, (allws_rev _ H). reflexivity. Qed.

Lemma xstrip_lead w c : allws w = true -> xstrip (w ++ c) = xstrip c.
Proof.
  intros H. unfold xstrip. rewrite rev_app_distr, dropw_app.
  destruct (allws (rev c)) eqn:E.
  - rewrite (dropw_allws _ (allws_rev _ H)). cbn [rev dropw]. now rewrite (dropw_allws _ E).
  - rewrite rev_app_distr, rev_involutive, dropw_app, H. reflexivity.
Qed.

(* normal form computed on an UNMERGED item list, with the pending run [cur] *)
Fixpoint nf (cur : bytes) (l : list xitem) : list xitem :=
  match l with
  | [] => emit (xstrip cur)
  | XT t :: r => nf (cur ++ t) r
  | (XE _ _ _ as e) :: r => emit (xstrip cur) ++ nb e :: nf [] r
  end.

Fixpoint mrg (cur : bytes) (l : list xitem) : list xitem :=
  match l with
  | [] => emit cur
  | XT t :: r => mrg (cur ++ t) r
  | (XE _ _ _ as e) :: r => emit cur ++ e :: mrg [] r
  end.

Definition acc_of (cur : bytes) (a : list xitem) : list xitem := match cur with [] => a | _ => XT cur :: a end.
Definition head_not_text (a : list xitem) : Prop := match a with XT _ :: _ => False | _ => True end.

Lemma push_text_acc_of t cur a : head_not_text a -> push_text t (acc_of cur a) = acc_of (cur ++ t) a.
Proof.
  intros H. destruct t as [|x t]; [now rewrite app_nil_r|].
  destruct cur as [|y cur]; cbn [acc_of push_text app].
  - destruct a as [|[|u] a']; try reflexivity. contradiction.
  - reflexivity.
Qed.

Lemma merge_mrg_gen l : forall cur a, head_not_text a ->
  rev (fold_left push_item l (acc_of cur a)) = rev a ++ mrg cur l.
Proof.
  induction l as [|[n at' ch|t] r IH]; intros cur a H.
  - cbn [fold_left mrg]. destruct cur; cbn [acc_of emit rev]; [now rewrite app_nil_r|reflexivity].
  - cbn [fold_left push_item mrg]. change (XE n at' ch :: acc_of cur a) with (acc_of [] (XE n at' ch :: acc_of cur a)).
    rewrite IH by exact I. cbn [rev].
    assert (E : rev (acc_of cur a) = rev a ++ emit cur)
      by (destruct cur; cbn [acc_of emit rev]; [now rewrite app_nil_r|reflexivity]).
    rewrite E, <- !app_assoc. reflexivity.
  - cbn [fold_left push_item mrg]. rewrite push_text_acc_of by exact H. now apply IH.
Qed.

Lemma merge_mrg l : merge_items l = mrg [] l.
Proof. unfold merge_items. change (@nil xitem) with (acc_of [] []) at 1. now rewrite merge_mrg_gen. Qed.

Lemma existsb_xe_emit t : existsb is_xe (emit t) = false.
Proof. destruct t; reflexivity. Qed.

Lemma existsb_xe_mrg l : forall cur, existsb is_xe (mrg cur l) = existsb is_xe l.
Proof.
  induction l as [|[n a ch|t] r IH]; intros cur; cbn [mrg existsb is_xe].
  - apply existsb_xe_emit.
  - rewrite existsb_app, existsb_xe_emit. reflexivity.
  - apply IH.
Qed.

Lemma strip_mrg l : forall cur, strip_items (map nb (mrg cur l)) = nf cur l.
Proof.
  induction l as [|[n a ch|t] r IH]; intros cur; cbn [mrg nf].
  - destruct cur; [reflexivity|]. cbn [emit map nb strip_items flat_map]. now rewrite app_nil_r.
  - rewrite map_app. unfold strip_items. rewrite flat_map_app. fold (strip_items (map nb (XE n a ch :: mrg [] r))).
    cbn [map strip_items flat_map app]. fold (strip_items (map nb (mrg [] r))). rewrite IH. f_equal.
    destruct cur; [reflexivity|]. cbn [emit map nb flat_map]. now rewrite app_nil_r.
  - apply IH.
Qed.

Lemma nb_merge l : existsb is_xe l = true -> nb_list (merge_items l) = nf [] l.
Proof. intros H. unfold nb_list. rewrite merge_mrg, existsb_xe_mrg, H. apply strip_mrg. Qed.

Lemma nf_lead u c l : allws u = true -> nf (u ++ c) l = nf c l.
Proof.
  intros H. revert c. induction l as [|[n a ch|t] r IH]; intros c; cbn [nf].
  - now rewrite xstrip_lead.
  - now rewrite xstrip_lead.
  - rewrite <- app_assoc. apply IH.
Qed.

(* two item lists that differ only by white-space text around elements (and by children that are equal modulo
   blank text) *)
Inductive wsrel : list xitem -> list xitem -> Prop :=
| wr_nil : wsrel [] []
| wr_text t r1 r2 : wsrel r1 r2 -> wsrel (XT t :: r1) (XT t :: r2)
| wr_elt u1 v1 u2 v2 n a c1 c2 r1 r2 :
    allws u1 = true -> allws v1 = true -> allws u2 = true -> allws v2 = true ->
    nb (XE n a c1) = nb (XE n a c2) -> wsrel r1 r2 ->
    wsrel (XT u1 :: XE n a c1 :: XT v1 :: r1) (XT u2 :: XE n a c2 :: XT v2 :: r2).

Lemma wsrel_app a b c d : wsrel a b -> wsrel c d -> wsrel (a ++ c) (b ++ d).
Proof. induction 1; intros H'; cbn [app]; [exact H'|constructor; auto|constructor; auto]. Qed.

Lemma wsrel_nf l1 l2 : wsrel l1 l2 -> forall v1 v2 c, allws v1 = true -> allws v2 = true ->
  nf c (l1 ++ [XT v1]) = nf c (l2 ++ [XT v2]).
Proof.
  induction 1 as [|t r1 r2 H IH|u1 w1 u2 w2 n a c1 c2 r1 r2 A1 A2 A3 A4 E H IH]; intros v1 v2 c V1 V2.
  - cbn [app nf]. now rewrite !xstrip_trail.
  - cbn [app nf]. now apply IH.
  - cbn [app nf]. rewrite !xstrip_trail by assumption. rewrite E.
    rewrite <- (app_nil_r w1), <- (app_nil_r w2). rewrite !nf_lead by assumption. now rewrite (IH v1 v2 [] V1 V2).
Qed.

Lemma wsrel_no_xe l1 l2 : wsrel l1 l2 -> existsb is_xe l2 = false -> l1 = l2.
Proof.
  induction 1; intros E; [reflexivity| |cbn in E; discriminate].
  cbn [existsb is_xe orb] in E. f_equal. auto.
Qed.

Lemma sp_allws w : forallb is_sp_nl w = true -> allws w = true.
Proof.
  unfold allws. induction w as [|c w IH]; [reflexivity|]. cbn [forallb]. intros H. apply andb_true_iff in H as [H1 H2].
  rewrite (IH H2), andb_true_r. unfold is_sp_nl in H1. unfold is_ws.
  apply orb_true_iff in H1 as [H|H]; apply N.eqb_eq in H; subst; reflexivity.
Qed.

Definition st_rel (s1 s2 : est) : Prop := e_cur_tag s1 = e_cur_tag s2 /\ e_in_cdata s1 = e_in_cdata s2.

Definition rel_res (r1 r2 : option (list xitem * est)) : Prop :=
  match r1, r2 with
  | Some (i1, s1), Some (i2, s2) => wsrel i1 i2 /\ st_rel s1 s2
  | None, None => True
  | _, _ => False
  end.

Lemma list_xe l o p ch : forall s its s',
  info_list_g (info_g l o p) ch s = Some (its, s') -> have_child_elt ch = true -> existsb is_xe its = true.
Proof.
  induction ch as [|n r IH]; intros s its s' H HC; [discriminate|].
  cbn [info_list_g] in H. destruct (info_g l o p s n) as [[a s1]|] eqn:E1; [|discriminate].
  fold (info_list_g (info_g l o p)) in H.
  destruct (info_list_g (info_g l o p) r (reset_cur s1)) as [[b s2]|] eqn:E2; [|discriminate].
  injection H as <- _. rewrite existsb_app. unfold have_child_elt in HC. cbn [existsb] in HC.
  destruct n; cbn [orb] in HC; try (rewrite (IH _ _ _ E2 HC); apply orb_true_r).
  destruct (info_g_elt_shape _ _ _ _ _ _ _ _ _ E1) as (c & ->). reflexivity.
Qed.

Lemma wsrel_xe l1 l2 : wsrel l1 l2 -> existsb is_xe l1 = existsb is_xe l2.
Proof. induction 1; cbn [existsb is_xe orb]; auto. Qed.

Section IndentVsCompact.
  Variables (d d' : N) (ig rb : bool).
  Let oi : opts := mk_opts Indent d ig rb.
  Let oc : opts := mk_opts Compact d' ig rb.

  Lemma spec_attrs_ic l parent nm attrs : spec_attrs l oi parent nm attrs = spec_attrs l oc parent nm attrs.
  Proof. reflexivity. Qed.

  Lemma text_item_rel l parent s1 s2 c : st_rel s1 s2 -> rel_res (text_item l oi parent s1 c) (text_item l oc parent s2 c).
  Proof.
    intros [Hc Hd]. unfold text_item.
    assert (EP : text_policy oi parent s1 c = text_policy oc parent s2 c).
    { unfold text_policy. rewrite Hd, (text_tag_ext s1 s2 parent Hc). reflexivity. }
    rewrite EP, Hc, (text_tag_ext s1 s2 parent Hc).
    destruct (text_policy oc parent s2 c) as [c'|]; [|cbn; split; [constructor|split; assumption]].
    destruct (tag_is_binary (text_tag s2 parent)); [destruct (b64_enc _); [|exact I]|];
      (cbn; split; [repeat constructor|split; [reflexivity|exact Hd]]).
  Qed.

  Definition rel_node_stmt (n : node) : Prop :=
    forall l parent s1 s2, st_rel s1 s2 -> rel_res (info_g l oi parent s1 n) (info_g l oc parent s2 n).

  Lemma rel_list ch : Forall rel_node_stmt ch ->
    forall l parent s1 s2, st_rel s1 s2 ->
      rel_res (info_list_g (info_g l oi parent) ch s1) (info_list_g (info_g l oc parent) ch s2).
  Proof.
    induction 1 as [|n r Hn Hr IH]; intros l parent s1 s2 Hs.
    - cbn. split; [constructor|exact Hs].
    - cbn [info_list_g]. specialize (Hn l parent s1 s2 Hs). unfold rel_res in Hn.
      destruct (info_g l oi parent s1 n) as [[a1 t1]|], (info_g l oc parent s2 n) as [[a2 t2]|]; try contradiction; [|exact I].
      destruct Hn as [Hw [Hc Hd]].
      fold (info_list_g (info_g l oi parent)). fold (info_list_g (info_g l oc parent)).
      assert (Hs' : st_rel (reset_cur t1) (reset_cur t2)) by (split; [reflexivity|exact Hd]).
      specialize (IH l parent _ _ Hs'). unfold rel_res in IH.
      destruct (info_list_g (info_g l oi parent) r (reset_cur t1)) as [[b1 u1]|],
               (info_list_g (info_g l oc parent) r (reset_cur t2)) as [[b2 u2]|]; try contradiction; [|exact I].
      destruct IH as [Hw2 Hs2]. cbn. split; [now apply wsrel_app|exact Hs2].
  Qed.

  Lemma rel_node : forall n, rel_node_stmt n.
  Proof.
    induction n as [nm attrs ch IHch|t|ch _| |sl roots IHr] using node_ind2; intros l parent s1 s2 Hs; try exact I.
    - cbn [info_g]. destruct ch as [|c0 ch0].
      + unfold rel_res. split.
        * apply wr_elt; try (apply sp_allws; first [apply w0_sp|apply nl_if_sp]); [reflexivity|constructor].
        * destruct Hs as [_ Hd]. split; [reflexivity|exact Hd].
      + assert (Hin : st_rel (s_in oi (c0 :: ch0) nm s1) (s_in oc (c0 :: ch0) nm s2)).
        { destruct Hs as [_ Hd]. unfold s_in. destruct (hc oi (c0 :: ch0)), (hc oc (c0 :: ch0)); (split; [reflexivity|exact Hd]). }
        pose proof (rel_list (c0 :: ch0) IHch l (pinfo_below parent nm) _ _ Hin) as HL. unfold rel_res in HL.
        destruct (info_list_g (info_g l oi (pinfo_below parent nm)) (c0 :: ch0) (s_in oi (c0 :: ch0) nm s1)) as [[i1 t1]|] eqn:E1,
                 (info_list_g (info_g l oc (pinfo_below parent nm)) (c0 :: ch0) (s_in oc (c0 :: ch0) nm s2)) as [[i2 t2]|] eqn:E2;
          try contradiction; [|exact I].
        destruct HL as [Hw [Hc Hd]]. unfold rel_res. split.
        * apply wr_elt; try (apply sp_allws; first [apply w0_sp|apply nl_if_sp]); [|constructor].
          rewrite !nb_xe. f_equal.
          pose proof (wsrel_xe _ _ Hw) as HX.
          destruct (existsb is_xe i2) eqn:X2.
          -- rewrite !nb_merge by (cbn [existsb is_xe orb]; rewrite existsb_app; first [rewrite HX|rewrite X2]; reflexivity).
             cbn [nf]. cbn [app].
             rewrite <- (app_nil_r (w1 oi (c0 :: ch0))), <- (app_nil_r (w1 oc (c0 :: ch0))).
             rewrite !nf_lead by (apply sp_allws, w1_sp).
             apply wsrel_nf; [exact Hw| |]; apply sp_allws, w2_sp.
          -- assert (i1 = i2) by (apply wsrel_no_xe; [exact Hw|exact X2]). subst i2.
             assert (HC : have_child_elt (c0 :: ch0) = false).
             { destruct (have_child_elt (c0 :: ch0)) eqn:HC; [|reflexivity].
               rewrite (list_xe _ _ _ _ _ _ _ E2 HC) in X2. discriminate. }
             unfold w1, w2, hc. rewrite HC, !andb_false_r. reflexivity.
        * unfold s_out. split; [exact Hc|exact Hd].
    - cbn [info_g]. now apply text_item_rel.
    - (* CDATA node: the payload, identical in both modes *)
      cbn [info_g]. destruct ch as [|[| t | | |] [|c1 ch1]]; try exact I.
      + unfold rel_res. split; [constructor|]. destruct Hs as [Hc Hd]. split; [exact Hc|reflexivity].
      + unfold rel_res. split; [repeat constructor|]. split; reflexivity.
    - (* embedded document *)
      cbn [info_g]. destruct sl as [l'|]; [|exact I].
      assert (H0 : st_rel (est0 (e_indent s1)) (est0 (e_indent s2))) by (split; reflexivity).
      pose proof (rel_list roots IHr l' proot _ _ H0) as HL. unfold rel_res in HL.
      destruct (info_list_g (info_g l' oi proot) roots (est0 (e_indent s1))) as [[i1 t1]|],
               (info_list_g (info_g l' oc proot) roots (est0 (e_indent s2))) as [[i2 t2]|]; try contradiction; [|exact I].
      destruct HL as [Hw _]. unfold rel_res. split; [exact Hw|exact Hs].
  Qed.
End IndentVsCompact.

(* the hypotheses do not depend on the generation mode beyond "canonical or not" *)
Lemma chars_ok_opts o1 o2 s : is_canonical o1 = is_canonical o2 -> chars_ok o1 s = chars_ok o2 s.
Proof. intros H. unfold chars_ok. now rewrite H. Qed.

Lemma spec_attrs_opts l o1 o2 parent nm attrs : is_canonical o1 = is_canonical o2 ->
  spec_attrs l o1 parent nm attrs = spec_attrs l o2 parent nm attrs.
Proof.
  intros H. unfold spec_attrs. f_equal. destruct (xl_has_attrs l); [|reflexivity].
  apply map_ext. intros a. unfold spec_attr_value. now rewrite H.
Qed.

Lemma node_ok_opts : forall n l o1 o2 parent cur, is_canonical o1 = is_canonical o2 ->
  node_ok_g l o1 parent cur n = node_ok_g l o2 parent cur n.
Proof.
  induction n as [nm attrs ch IHch|t|ch _| |sl roots IHr] using node_ind2; intros l o1 o2 parent cur H; try reflexivity.
  - cbn [node_ok_g]. rewrite (spec_attrs_opts l o1 o2 parent nm attrs H).
    assert (A : forallb (attr_ok o1) attrs = forallb (attr_ok o2) attrs).
    { induction attrs as [|a r IHa]; [reflexivity|]. cbn [forallb]. rewrite IHa. f_equal. unfold attr_ok. now rewrite (chars_ok_opts o1 o2 _ H). }
    rewrite A. f_equal.
    generalize (cur_of nm). induction IHch as [|x r Hx Hr IH]; intros c; [reflexivity|].
    rewrite (Hx l o1 o2 (pinfo_below parent nm) c H). f_equal. apply IH.
  - cbn [node_ok_g]. now rewrite (chars_ok_opts o1 o2 t H).
  - cbn [node_ok_g]. destruct sl as [l'|]; [|reflexivity]. f_equal.
    generalize (@None trow). induction IHr as [|x r Hx Hr IH]; intros c; [reflexivity|].
    rewrite (Hx l' o1 o2 proot c H). f_equal. apply IH.
Qed.

Lemma wsrel_root_inv u1 n1 a1 c1 v1 u2 n2 a2 c2 v2 :
  wsrel [XT u1; XE n1 a1 c1; XT v1] [XT u2; XE n2 a2 c2; XT v2] -> nb (XE n1 a1 c1) = nb (XE n2 a2 c2).
Proof.
  intros H. inversion H as [|t r1 r2 H'|]; subst; [inversion H'|assumption].
Qed.

(* C07, XML half: indented generation (ANY indent width 0..255 — the width is an arbitrary N reduced mod 256 —
   and any nesting depth: the encoder's 8-bit depth counter is threaded mod 256 in info_g) and compact generation
   of one tree are both accepted by the reader, carry the same DOCTYPE, and denote the same element tree modulo
   blank text between markup (nb). *)
Theorem c07_xml_indent_compact l indent indent' keep_ws nm attrs ch out_i out_c :
  lang_ok l = true ->
  node_ok_g l (opts_of_params Compact indent' keep_ws) proot None (Elt nm attrs ch) = true ->
  enc_xml l Indent indent keep_ws [Elt nm attrs ch] = XOk out_i ->
  enc_xml l Compact indent' keep_ws [Elt nm attrs ch] = XOk out_c ->
  forall fuel, (node_fuel (Elt nm attrs ch) + 2 <= fuel)%nat ->
    exists ri rc,
      read_xml fuel out_i = ROk (doc_of l [ri]) /\ read_xml fuel out_c = ROk (doc_of l [rc]) /\ nb ri = nb rc.
Proof.
  intros HL Hokc Ei Ec fuel Hf.
  assert (Hoki : node_ok_g l (opts_of_params Indent indent keep_ws) proot None (Elt nm attrs ch) = true)
    by (rewrite (node_ok_opts _ l _ (opts_of_params Compact indent' keep_ws)); [exact Hokc|reflexivity]).
  destruct (read_enc_g l _ nm attrs ch out_i HL Hoki Ei) as (ci & si & Ii & Ri).
  destruct (read_enc_g l _ nm attrs ch out_c HL Hokc Ec) as (cc & sc & Ic & Rc).
  eexists _, _. split; [apply Ri; exact Hf|]. split; [apply Rc; exact Hf|].
  pose proof (rel_node (u8 indent) 1 (negb keep_ws) (negb keep_ws) (Elt nm attrs ch) l proot (est0 0) (est0 0)
                       (conj eq_refl eq_refl)) as HR.
  unfold opts_of_params in Ii, Ic. rewrite Ii, Ic in HR. destruct HR as [HW _].
  exact (wsrel_root_inv _ _ _ _ _ _ _ _ _ _ HW).
Qed.
