(* C01 (whole conversion) / C03 (tree builder) — two facts about build_from:
   (1) the embedded-document fuel only matters when it runs out: a result other than BFuel is the result for every
       larger fuel;
   (2) when fuel 1 suffices (no character data was recognised as an embedded document), every additive measure of
       the tree is bounded by the same measure of the events: an element costs what its start event costs, a text
       what its character-data events cost (merging adjacent texts does not add anything), a CDATA node is charged
       to the character data that opened it. *)
From Coq Require Import String Ascii.
From Coq Require Import List NArith ZArith Lia Bool.
From Wbxml Require Import Model.Codec Model.TablesDefs Model.Parser Model.TreeBuild
     Proofs.ParserTotal Proofs.TreeBuildProofs Proofs.TreeBuildProofs2.
Import ListNotations.
Local Open Scope N_scope.

Lemma list_sum_cons_nat x l : list_sum (x :: l) = (x + list_sum l)%nat.
Proof. reflexivity. Qed.

(* ---- (1) monotonicity in the fuel ---- *)
Lemma build_from_cons tbl ef e r st :
  build_from tbl ef (e :: r) st =
  match build_from tbl ef [e] st with BOk st1 => build_from tbl ef r st1 | BErr x => BErr x | BFuel => BFuel end.
Proof. exact (build_from_app tbl ef [e] r st). Qed.

Lemma build_from_nil tbl ef st : build_from tbl (S ef) [] st = BOk st.
Proof. reflexivity. Qed.

Lemma build_from_mono tbl : forall ef evs st r, build_from tbl ef evs st = r -> r <> BFuel ->
  forall k, build_from tbl (ef + k) evs st = r.
Proof.
  induction ef as [|ef IHf]; intros evs st r H Hr k; [cbn in H; congruence|].
  revert st r H Hr. induction evs as [|e evs IHe]; intros st r H Hr; [exact H|].
  change (S ef + k)%nat with (S (ef + k)). rewrite build_from_cons in H |- *.
  assert (H1 : forall r1, build_from tbl (S ef) [e] st = r1 -> r1 <> BFuel -> build_from tbl (S (ef + k)) [e] st = r1).
  { clear IHe H Hr. intros r1 H1 Hr1. destruct e as [cs lid|t attrs|ch|tg dt|t|]; try exact H1.
    cbn [build_from] in H1 |- *. destruct (syncml_data_type (b_stack st)); try exact H1.
    destruct (parse_with tbl 0 (b_charset st) (S (length ch)) ch) as [evs'| |]; try exact H1.
    destruct (build_from tbl ef evs' st_init) as [st'|x|] eqn:E.
    - rewrite (IHf evs' st_init (BOk st') E ltac:(discriminate) k). exact H1.
    - rewrite (IHf evs' st_init (BErr x) E ltac:(discriminate) k). exact H1.
    - congruence. }
  destruct (build_from tbl (S ef) [e] st) as [st1|x|] eqn:E1.
  - rewrite (H1 (BOk st1) eq_refl ltac:(discriminate)). apply IHe; assumption.
  - rewrite (H1 (BErr x) eq_refl ltac:(discriminate)). exact H.
  - congruence.
Qed.

Lemma build_mono tbl ef evs r : build tbl ef evs = r -> r <> BFuel -> forall k, build tbl (ef + k) evs = r.
Proof.
  unfold build. intros H Hr k. destruct (build_from tbl ef evs st_init) as [st|x|] eqn:E; [| |congruence].
  - rewrite (build_from_mono tbl ef evs st_init _ E ltac:(discriminate) k). exact H.
  - rewrite (build_from_mono tbl ef evs st_init _ E ltac:(discriminate) k). exact H.
Qed.

(* ---- (2) additive measures ---- *)
Section Measure.
Variable mE : tagname -> list (attrname * bytes) -> nat.      (* an element's own cost *)
Variable mT : bytes -> nat.                                     (* a text node *)
Variable mC : nat.                                              (* a CDATA node *)
Hypothesis mT_app : forall a b, (mT (a ++ b) <= mT a + mT b)%nat.

Fixpoint tm (n : tnode) : nat :=
  match n with
  | TElt t a ch => (mE t a + list_sum (map tm ch))%nat
  | TText b => mT b
  | TCData ch => (mC + list_sum (map tm ch))%nat
  | TSub _ _ r => match r with Some x => tm x | None => 0%nat end
  end.
Definition tms (l : list tnode) : nat := list_sum (map tm l).

Definition em (e : event) : nat :=
  match e with
  | EvStartElt t a => mE t a
  | EvChars b => (mT b + mC)%nat
  | _ => 0%nat
  end.
Definition ems (l : list event) : nat := list_sum (map em l).

Lemma tms_cons x l : tms (x :: l) = (tm x + tms l)%nat.
Proof. reflexivity. Qed.
Lemma tms_app a b : tms (a ++ b) = (tms a + tms b)%nat.
Proof. unfold tms. rewrite map_app, list_sum_app. reflexivity. Qed.
Lemma ems_cons x l : ems (x :: l) = (em x + ems l)%nat.
Proof. reflexivity. Qed.

Lemma add_node_tms l n : (tms (add_node l n) <= tms l + tm n)%nat.
Proof.
  induction l as [|x r IH]; [cbn; lia|].
  destruct r as [|y r'].
  - cbn [add_node]. destruct x; destruct n; try (rewrite !tms_cons; cbn [tms map list_sum]; lia).
    rewrite !tms_cons. cbn [tm]. pose proof (mT_app b b0). change (tms []) with 0%nat. lia.
  - change (add_node (x :: y :: r') n) with (x :: add_node (y :: r') n). rewrite !tms_cons in *. lia.
Qed.

Definition fm (f : frame) : nat :=
  (mE (f_tag f) (f_attrs f) + tms (f_done f) + match f_cdata f with Some c => mC + tms c | None => 0 end)%nat.
Definition sm (st : bstate) : nat :=
  (list_sum (map fm (b_stack st)) + match b_root st with Some n => tm n | None => 0 end)%nat.

Lemma fm_leave f : fm (leave_cdata f) = fm f.
Proof.
  unfold leave_cdata. destruct (f_cdata f) as [c|] eqn:E; [|reflexivity]. unfold fm. rewrite E. cbn [f_tag f_attrs f_done f_cdata].
  rewrite tms_app, tms_cons. cbn [tm]. fold (tms c). change (tms []) with 0%nat. lia.
Qed.

Lemma frame_node_tm f : tm (frame_node f []) = fm f.
Proof.
  unfold frame_node, frame_children, cdata_nodes, fm. cbn [tm]. fold (tms (f_done f ++ match f_cdata f with Some c => [TCData c] | None => [] end ++ [])).
  rewrite !tms_app. destruct (f_cdata f) as [c|]; [rewrite tms_cons; cbn [tm]; fold (tms c)|]; change (tms []) with 0%nat; lia.
Qed.

Lemma add_to_current_sm st n st' : add_to_current st n = BOk st' -> (sm st' <= sm st + tm n)%nat.
Proof.
  unfold add_to_current, sm. destruct (b_stack st) as [|f up].
  - destruct (b_root st); [discriminate|]. intros H. injection H as <-. cbn. lia.
  - intros H. injection H as <-. cbn [b_stack b_root map]. rewrite !list_sum_cons_nat.
    assert (Hf : (fm match f_cdata f with
                     | Some c => mk_frame (f_tag f) (f_attrs f) (f_done f) (Some (add_node c n))
                     | None => mk_frame (f_tag f) (f_attrs f) (add_node (f_done f) n) None
                     end <= fm f + tm n)%nat).
    { unfold fm. destruct (f_cdata f) as [c|]; cbn [f_tag f_attrs f_done f_cdata].
      - pose proof (add_node_tms c n). lia.
      - pose proof (add_node_tms (f_done f) n). lia. }
    lia.
Qed.

Lemma open_cdata_sm st : (sm (open_cdata st) <= sm st + mC)%nat.
Proof.
  unfold open_cdata. destruct (b_stack st) as [|f up] eqn:Es; [lia|]. destruct (f_cdata f) as [c|] eqn:E; [lia|].
  unfold sm. rewrite Es.
  - cbn [b_stack b_root map]. rewrite !list_sum_cons_nat. unfold fm. cbn [f_tag f_attrs f_done f_cdata]. rewrite E.
    change (tms []) with 0%nat. lia.
Qed.

Lemma start_sm t a st st' : cb_start_element t a st = BOk st' -> (sm st' <= sm st + mE t a)%nat.
Proof.
  unfold cb_start_element, sm. destruct (b_stack st) as [|f up].
  - destruct (b_root st); [discriminate|]. intros H. injection H as <-. cbn [b_stack b_root map]. rewrite !list_sum_cons_nat.
    unfold fm. cbn. lia.
  - intros H. injection H as <-. cbn [b_stack b_root map]. rewrite !list_sum_cons_nat. rewrite fm_leave.
    unfold fm at 1. cbn [f_tag f_attrs f_done f_cdata]. change (tms []) with 0%nat. lia.
Qed.

Lemma end_sm st st' : cb_end_element st = BOk st' -> (sm st' <= sm st)%nat.
Proof.
  unfold cb_end_element. destruct (b_stack st) as [|f [|p up]] eqn:Es; [discriminate| |]; unfold sm; rewrite ?Es.
  - destruct (f_cdata f) as [c|] eqn:E; intros H; injection H as <-.
    + cbn [b_stack b_root map]. rewrite frame_node_tm. rewrite !list_sum_cons_nat. cbn. destruct (b_root st); lia.
    + rewrite Es. lia.
  - intros H. injection H as <-. cbn [b_stack b_root map]. rewrite !list_sum_cons_nat.
    assert (Hp : fm (mk_frame (f_tag p) (f_attrs p) (f_done p ++ cdata_nodes p ++ [frame_node f []]) None) = (fm p + fm f)%nat).
    { unfold fm at 1. cbn [f_tag f_attrs f_done f_cdata]. rewrite !tms_app, tms_cons, frame_node_tm. change (tms []) with 0%nat.
      unfold fm, cdata_nodes. destruct (f_cdata p) as [c|]; [rewrite tms_cons; cbn [tm]; fold (tms c)|]; change (tms []) with 0%nat; lia. }
    rewrite Hp. lia.
Qed.

Lemma view_tms s : forall inner, tms (view s inner) = (list_sum (map fm s) + tms inner)%nat.
Proof.
  induction s as [|f up IH]; intros inner; cbn [view map]; [cbn; lia|].
  rewrite IH, list_sum_cons_nat, tms_cons. change (tms []) with 0%nat.
  unfold frame_node, frame_children, cdata_nodes, fm. cbn [tm]. fold (tms (f_done f ++ match f_cdata f with Some c => [TCData c] | None => [] end ++ inner)).
  rewrite !tms_app. destruct (f_cdata f) as [c|]; [rewrite tms_cons; cbn [tm]; fold (tms c)|]; change (tms []) with 0%nat; lia.
Qed.

Lemma tree_of_state_tm st : (match wt_root (tree_of_state st) with Some n => tm n | None => 0 end <= sm st)%nat.
Proof.
  unfold tree_of_state, sm. cbn [wt_root]. destruct (b_stack st) as [|f up] eqn:E; [destruct (b_root st); lia|].
  rewrite <- E. pose proof (view_tms (b_stack st) []) as Hv. change (tms []) with 0%nat in Hv.
  destruct (view (b_stack st) []) as [|x r]; cbn [hd_error]; [lia|]. rewrite tms_cons in Hv. lia.
Qed.

Lemma single_sm tbl e st st' : build_from tbl 1 [e] st = BOk st' -> (sm st' <= sm st + em e)%nat.
Proof.
  destruct e as [cs lid|t attrs|ch|tg dt|t|]; cbn [build_from em].
  - intros H. injection H as <-. unfold sm. cbn [b_stack b_root]. lia.
  - destruct (cb_start_element t attrs st) as [s1| |] eqn:E; try discriminate. intros H. injection H as <-. exact (start_sm _ _ _ _ E).
  - assert (Ht : forall s0 x, (sm s0 <= sm st + mC)%nat ->
                  match add_to_current s0 (TText ch) with BOk st'0 => BOk st'0 | BErr er => BErr er | BFuel => BFuel end = BOk x ->
                  (sm x <= sm st + (mT ch + mC))%nat).
    { intros s0 x Hs0. destruct (add_to_current s0 (TText ch)) as [s1| |] eqn:E; try discriminate.
      intros H. injection H as <-. apply add_to_current_sm in E. cbn [tm] in E. lia. }
    destruct (syncml_data_type (b_stack st)).
    + apply Ht. lia.
    + destruct (parse_with tbl 0 (b_charset st) (S (length ch)) ch) as [evs'| |]; [discriminate| |discriminate].
      apply Ht. lia.
    + apply Ht. apply open_cdata_sm.
  - intros H. injection H as <-. lia.
  - destruct (cb_end_element st) as [s1| |] eqn:E; try discriminate. intros H. injection H as <-. apply end_sm in E. lia.
  - intros H. injection H as <-. lia.
Qed.

Lemma build_from_sm tbl evs : forall st st', build_from tbl 1 evs st = BOk st' -> (sm st' <= sm st + ems evs)%nat.
Proof.
  induction evs as [|e r IH]; intros st st'.
  - cbn [build_from]. intros H. injection H as <-. cbn. lia.
  - rewrite build_from_cons. destruct (build_from tbl 1 [e] st) as [s1| |] eqn:E; try discriminate.
    intros H. apply single_sm in E. apply IH in H. rewrite ems_cons. lia.
Qed.

Theorem build_measure tbl evs t : build tbl 1 evs = BOk t ->
  (match wt_root t with Some n => tm n | None => 0 end <= ems evs)%nat.
Proof.
  unfold build. destruct (build_from tbl 1 evs st_init) as [st| |] eqn:E; try discriminate.
  intros H. injection H as <-. apply build_from_sm in E. pose proof (tree_of_state_tm st).
  assert (H0 : sm st_init = 0%nat) by reflexivity. lia.
Qed.
End Measure.
