(* C01 (whole conversion) / C03 (tree builder) — two facts about build_from:
   (1) it never reports BFuel: its recursion is structural in the number of embedding levels, and every parse of an
       embedded document gets one unit of fuel more than its length (Proofs/ParserTotal.v);
   (2) every additive measure of the tree is bounded by the same measure of the events: an element costs what its
       start event costs, a text what its character-data events cost (merging adjacent texts does not add anything),
       a CDATA node is charged to the character data that opened it, and an embedded document to the character data
       it was parsed from (mS: a bound on what a document parsed from those bytes, one level further down, measures). *)
From Coq Require Import String Ascii.
From Coq Require Import List NArith ZArith Lia Bool.
From Wbxml Require Import Model.Codec Model.TablesDefs Model.Parser Model.TreeBuild
     Proofs.ParserTotal Proofs.TreeBuildProofs Proofs.TreeBuildProofs2.
Import ListNotations.
Local Open Scope N_scope.

Lemma list_sum_cons_nat x l : list_sum (x :: l) = (x + list_sum l)%nat.
Proof. reflexivity. Qed.

(* ---- (1) the tree builder never reports BFuel ---- *)
Lemma build_from_cons tbl ef e r st :
  build_from tbl ef (e :: r) st =
  match build_from tbl ef [e] st with BOk st1 => build_from tbl ef r st1 | BErr x => BErr x | BFuel => BFuel end.
Proof. exact (build_from_app tbl ef [e] r st). Qed.

Lemma build_from_total tbl : forall lv evs st, build_from tbl lv evs st <> BFuel.
Proof.
  induction lv as [|lv IHl]; induction evs as [|e r IH]; intros st; rewrite build_from_eq; try discriminate; unfold bnext.
  - destruct e as [cs lid|t attrs|ch|tg dt|t|]; try apply IH.
    + destruct (cb_start_element t attrs st) as [s1|x|] eqn:E; [apply IH|discriminate|].
      revert E. unfold cb_start_element. destruct (b_stack st); [destruct (b_root st)|]; discriminate.
    + assert (Ha : forall s n, add_to_current s n <> BFuel).
      { intros s n. unfold add_to_current. destruct (b_stack s); [destruct (b_root s)|]; discriminate. }
      destruct (syncml_data_type (b_stack st)).
      * destruct (add_to_current st (TText ch)) eqn:E; [apply IH|discriminate|exfalso; exact (Ha _ _ E)].
      * destruct (add_to_current st (TText ch)) eqn:E; [apply IH|discriminate|exfalso; exact (Ha _ _ E)].
      * destruct (add_to_current (open_cdata st) (TText ch)) eqn:E; [apply IH|discriminate|exfalso; exact (Ha _ _ E)].
    + destruct (cb_end_element st) as [s1|x|] eqn:E; [apply IH|discriminate|].
      revert E. unfold cb_end_element. destruct (b_stack st) as [|f [|p up]]; [discriminate| |discriminate]. destruct (f_cdata f); discriminate.
  - destruct e as [cs lid|t attrs|ch|tg dt|t|]; try apply IH.
    + destruct (cb_start_element t attrs st) as [s1|x|] eqn:E; [apply IH|discriminate|].
      revert E. unfold cb_start_element. destruct (b_stack st); [destruct (b_root st)|]; discriminate.
    + assert (Ha : forall s n, add_to_current s n <> BFuel).
      { intros s n. unfold add_to_current. destruct (b_stack s); [destruct (b_root s)|]; discriminate. }
      destruct (syncml_data_type (b_stack st)).
      * destruct (add_to_current st (TText ch)) eqn:E; [apply IH|discriminate|exfalso; exact (Ha _ _ E)].
      * pose proof (parse_total tbl 0 (b_charset st) ch) as Hp.
        destruct (parse_with tbl 0 (b_charset st) (S (length ch)) ch) as [evs'|x|]; [| |congruence].
        -- pose proof (IHl evs' st_init) as Hb. destruct (build_from tbl lv evs' st_init) as [st'|x|]; [| |congruence].
           ++ cbv zeta. destruct (add_to_current st _) eqn:E; [apply IH|discriminate|exfalso; exact (Ha _ _ E)].
           ++ destruct (add_to_current st (TText ch)) eqn:E; [apply IH|discriminate|exfalso; exact (Ha _ _ E)].
        -- destruct (add_to_current st (TText ch)) eqn:E; [apply IH|discriminate|exfalso; exact (Ha _ _ E)].
      * destruct (add_to_current (open_cdata st) (TText ch)) eqn:E; [apply IH|discriminate|exfalso; exact (Ha _ _ E)].
    + destruct (cb_end_element st) as [s1|x|] eqn:E; [apply IH|discriminate|].
      revert E. unfold cb_end_element. destruct (b_stack st) as [|f [|p up]]; [discriminate| |discriminate]. destruct (f_cdata f); discriminate.
Qed.

Theorem tree_from_wbxml_total tbl forced meta lv bs : tree_from_wbxml tbl forced meta lv bs <> BFuel.
Proof.
  unfold tree_from_wbxml, build. pose proof (parse_total tbl forced meta bs) as Hp.
  destruct (parse_with tbl forced meta (S (length bs)) bs) as [evs|x|]; [|discriminate|congruence].
  pose proof (build_from_total tbl lv evs st_init) as Hb. destruct (build_from tbl lv evs st_init); [discriminate|discriminate|congruence].
Qed.

(* ---- (2) additive measures ---- *)
Section Measure.
Variable mE : tagname -> list (attrname * bytes) -> nat.      (* an element's own cost *)
Variable mT : bytes -> nat.                                     (* a text node *)
Variable mC : nat.                                              (* a CDATA node *)
Variable mS : bytes -> nat.                                     (* an embedded document parsed from these bytes *)
Hypothesis mT_app : forall a b, (mT (a ++ b) <= mT a + mT b)%nat.

Fixpoint tm (n : tnode) : nat :=
  match n with
  | TElt t a ch => (mE t a + list_sum (map tm ch))%nat
  | TText b => mT b
  | TCData ch => (mC + list_sum (map tm ch))%nat
  | TSub _ _ r => match r with Some x => tm x | None => 0%nat end
  end.
Definition tms (l : list tnode) : nat := list_sum (map tm l).

Definition em (e : event) : nat :=
  match e with
  | EvStartElt t a => mE t a
  | EvChars b => (mT b + mC + mS b)%nat
  | _ => 0%nat
  end.
Definition ems (l : list event) : nat := list_sum (map em l).

Lemma tms_cons x l : tms (x :: l) = (tm x + tms l)%nat.
Proof. reflexivity. Qed.
Lemma tms_app a b : tms (a ++ b) = (tms a + tms b)%nat.
Proof. unfold tms. rewrite map_app, list_sum_app. reflexivity. Qed.
Lemma ems_cons x l : ems (x :: l) = (em x + ems l)%nat.
Proof. reflexivity. Qed.

Lemma add_node_tms l n : (tms (add_node l n) <= tms l + tm n)%nat.
Proof.
  induction l as [|x r IH]; [cbn; lia|].
  destruct r as [|y r'].
  - cbn [add_node]. destruct x; destruct n; try (rewrite !tms_cons; cbn [tms map list_sum]; lia).
    rewrite !tms_cons. cbn [tm]. pose proof (mT_app b b0). change (tms []) with 0%nat. lia.
  - change (add_node (x :: y :: r') n) with (x :: add_node (y :: r') n). rewrite !tms_cons in *. lia.
Qed.

Definition fm (f : frame) : nat :=
  (mE (f_tag f) (f_attrs f) + tms (f_done f) + match f_cdata f with Some c => mC + tms c | None => 0 end)%nat.
Definition sm (st : bstate) : nat :=
  (list_sum (map fm (b_stack st)) + match b_root st with Some n => tm n | None => 0 end)%nat.

Lemma fm_leave f : fm (leave_cdata f) = fm f.
Proof.
  unfold leave_cdata. destruct (f_cdata f) as [c|] eqn:E; [|reflexivity]. unfold fm. rewrite E. cbn [f_tag f_attrs f_done f_cdata].
  rewrite tms_app, tms_cons. cbn [tm]. fold (tms c). change (tms []) with 0%nat. lia.
Qed.

Lemma frame_node_tm f : tm (frame_node f []) = fm f.
Proof.
  unfold frame_node, frame_children, cdata_nodes, fm. cbn [tm]. fold (tms (f_done f ++ match f_cdata f with Some c => [TCData c] | None => [] end ++ [])).
  rewrite !tms_app. destruct (f_cdata f) as [c|]; [rewrite tms_cons; cbn [tm]; fold (tms c)|]; change (tms []) with 0%nat; lia.
Qed.

Lemma add_to_current_sm st n st' : add_to_current st n = BOk st' -> (sm st' <= sm st + tm n)%nat.
Proof.
  unfold add_to_current, sm. destruct (b_stack st) as [|f up].
  - destruct (b_root st); [discriminate|]. intros H. injection H as <-. cbn. lia.
  - intros H. injection H as <-. cbn [b_stack b_root map]. rewrite !list_sum_cons_nat.
    assert (Hf : (fm match f_cdata f with
                     | Some c => mk_frame (f_tag f) (f_attrs f) (f_done f) (Some (add_node c n))
                     | None => mk_frame (f_tag f) (f_attrs f) (add_node (f_done f) n) None
                     end <= fm f + tm n)%nat).
    { unfold fm. destruct (f_cdata f) as [c|]; cbn [f_tag f_attrs f_done f_cdata].
      - pose proof (add_node_tms c n). lia.
      - pose proof (add_node_tms (f_done f) n). lia. }
    lia.
Qed.

Lemma open_cdata_sm st : (sm (open_cdata st) <= sm st + mC)%nat.
Proof.
  unfold open_cdata. destruct (b_stack st) as [|f up] eqn:Es; [lia|]. destruct (f_cdata f) as [c|] eqn:E; [lia|].
  unfold sm. rewrite Es.
  - cbn [b_stack b_root map]. rewrite !list_sum_cons_nat. unfold fm. cbn [f_tag f_attrs f_done f_cdata]. rewrite E.
    change (tms []) with 0%nat. lia.
Qed.

Lemma start_sm t a st st' : cb_start_element t a st = BOk st' -> (sm st' <= sm st + mE t a)%nat.
Proof.
  unfold cb_start_element, sm. destruct (b_stack st) as [|f up].
  - destruct (b_root st); [discriminate|]. intros H. injection H as <-. cbn [b_stack b_root map]. rewrite !list_sum_cons_nat.
    unfold fm. cbn. lia.
  - intros H. injection H as <-. cbn [b_stack b_root map]. rewrite !list_sum_cons_nat. rewrite fm_leave.
    unfold fm at 1. cbn [f_tag f_attrs f_done f_cdata]. change (tms []) with 0%nat. lia.
Qed.

Lemma end_sm st st' : cb_end_element st = BOk st' -> (sm st' <= sm st)%nat.
Proof.
  unfold cb_end_element. destruct (b_stack st) as [|f [|p up]] eqn:Es; [discriminate| |]; unfold sm; rewrite ?Es.
  - destruct (f_cdata f) as [c|] eqn:E; intros H; injection H as <-.
    + cbn [b_stack b_root map]. rewrite frame_node_tm. rewrite !list_sum_cons_nat. cbn. destruct (b_root st); lia.
    + rewrite Es. lia.
  - intros H. injection H as <-. cbn [b_stack b_root map]. rewrite !list_sum_cons_nat.
    assert (Hp : fm (mk_frame (f_tag p) (f_attrs p) (f_done p ++ cdata_nodes p ++ [frame_node f []]) None) = (fm p + fm f)%nat).
    { unfold fm at 1. cbn [f_tag f_attrs f_done f_cdata]. rewrite !tms_app, tms_cons, frame_node_tm. change (tms []) with 0%nat.
      unfold fm, cdata_nodes. destruct (f_cdata p) as [c|]; [rewrite tms_cons; cbn [tm]; fold (tms c)|]; change (tms []) with 0%nat; lia. }
    rewrite Hp. lia.
Qed.

Lemma view_tms s : forall inner, tms (view s inner) = (list_sum (map fm s) + tms inner)%nat.
Proof.
  induction s as [|f up IH]; intros inner; cbn [view map]; [cbn; lia|].
  rewrite IH, list_sum_cons_nat, tms_cons. change (tms []) with 0%nat.
  unfold frame_node, frame_children, cdata_nodes, fm. cbn [tm]. fold (tms (f_done f ++ match f_cdata f with Some c => [TCData c] | None => [] end ++ inner)).
  rewrite !tms_app. destruct (f_cdata f) as [c|]; [rewrite tms_cons; cbn [tm]; fold (tms c)|]; change (tms []) with 0%nat; lia.
Qed.

Lemma tree_of_state_tm st : (match wt_root (tree_of_state st) with Some n => tm n | None => 0 end <= sm st)%nat.
Proof.
  unfold tree_of_state, sm. cbn [wt_root]. destruct (b_stack st) as [|f up] eqn:E; [destruct (b_root st); lia|].
  rewrite <- E. pose proof (view_tms (b_stack st) []) as Hv. change (tms []) with 0%nat in Hv.
  destruct (view (b_stack st) []) as [|x r]; cbn [hd_error]; [lia|]. rewrite tms_cons in Hv. lia.
Qed.

Definition tmr (t : wtree) : nat := match wt_root t with Some n => tm n | None => 0%nat end.

(* what the level below guarantees for an embedded document *)
Definition sub_ok (tbl : list lang) (lv : nat) : Prop :=
  match lv with
  | O => True
  | S lv' => forall cs ch evs' t', parse_with tbl 0 cs (S (length ch)) ch = POk evs' ->
               build tbl lv' evs' = BOk t' -> (tmr t' <= mS ch)%nat
  end.

Lemma single_sm tbl lv e st st' : sub_ok tbl lv -> build_from tbl lv [e] st = BOk st' -> (sm st' <= sm st + em e)%nat.
Proof.
  intros Hsub. rewrite build_from_eq. unfold bnext.
  assert (Hnil : forall s, build_from tbl lv [] s = BOk s) by (intros s; apply build_from_nil).
  destruct e as [cs lid|t attrs|ch|tg dt|t|]; cbn [em]; rewrite ?Hnil.
  - intros H. injection H as <-. unfold sm. cbn [b_stack b_root]. lia.
  - destruct (cb_start_element t attrs st) as [s1| |] eqn:E; try discriminate. rewrite Hnil. intros H. injection H as <-. exact (start_sm _ _ _ _ E).
  - assert (Ht : forall s0 n x, (sm s0 + tm n <= sm st + (mT ch + mC + mS ch))%nat ->
                  match add_to_current s0 n with BOk st'0 => build_from tbl lv [] st'0 | BErr er => BErr er | BFuel => BFuel end = BOk x ->
                  (sm x <= sm st + (mT ch + mC + mS ch))%nat).
    { intros s0 n x Hs0. destruct (add_to_current s0 n) as [s1| |] eqn:E; try discriminate. rewrite Hnil.
      intros H. injection H as <-. apply add_to_current_sm in E. lia. }
    destruct (syncml_data_type (b_stack st)).
    + apply Ht. cbn [tm]. lia.
    + destruct lv as [|lv']; [apply Ht; cbn [tm]; lia|].
      destruct (parse_with tbl 0 (b_charset st) (S (length ch)) ch) as [evs'| |] eqn:Ep; [| |discriminate].
      * destruct (build_from tbl lv' evs' st_init) as [s2| |] eqn:Eb; [| |discriminate].
        -- cbv zeta. apply Ht. cbn [tm].
           assert (Eb' : build tbl lv' evs' = BOk (tree_of_state s2)) by (unfold build; rewrite Eb; reflexivity).
           pose proof (Hsub _ _ _ _ Ep Eb') as Hm. unfold tmr in Hm. lia.
        -- apply Ht. cbn [tm]. lia.
      * apply Ht. cbn [tm]. lia.
    + apply Ht. pose proof (open_cdata_sm st). cbn [tm]. lia.
  - intros H. injection H as <-. lia.
  - destruct (cb_end_element st) as [s1| |] eqn:E; try discriminate. rewrite Hnil. intros H. injection H as <-. apply end_sm in E. lia.
  - intros H. injection H as <-. lia.
Qed.

Lemma build_from_sm tbl lv evs : sub_ok tbl lv -> forall st st', build_from tbl lv evs st = BOk st' -> (sm st' <= sm st + ems evs)%nat.
Proof.
  intros Hsub. induction evs as [|e r IH]; intros st st'.
  - rewrite build_from_nil. intros H. injection H as <-. cbn. lia.
  - rewrite build_from_cons. destruct (build_from tbl lv [e] st) as [s1| |] eqn:E; try discriminate.
    intros H. apply (single_sm _ _ _ _ _ Hsub) in E. apply IH in H. rewrite ems_cons. lia.
Qed.

Theorem build_measure tbl lv evs t : sub_ok tbl lv -> build tbl lv evs = BOk t -> (tmr t <= ems evs)%nat.
Proof.
  intros Hsub. unfold build. destruct (build_from tbl lv evs st_init) as [st| |] eqn:E; try discriminate.
  intros H. injection H as <-. apply (build_from_sm _ _ _ Hsub) in E. pose proof (tree_of_state_tm st).
  assert (H0 : sm st_init = 0%nat) by reflexivity. unfold tmr. lia.
Qed.
End Measure.
