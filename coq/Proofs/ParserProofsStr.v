(* C04 — strings, entities, opaque data and extensions: Spec.den_str against parse_content and
   parse_attr_value. *)
From Coq Require Import String Ascii.
From Coq Require Import List NArith ZArith Lia Bool ZifyBool ZifyN.
From Wbxml Require Import Base.Bits Model.Codec Model.TablesDefs Model.Parser Model.Spec
     Proofs.CodecProofs Proofs.ParserProofsBase.
Import ListNotations.
Local Open Scope N_scope.

Definition pst (d : dstate) (r : bytes) : pstate := mk_pstate r (ds_tagcp d) (ds_attrcp d) (ds_cur d).

(* the typed decoders of Wireless Village and of SI / EMN agree with their specifications
   (proved separately, see ParserProofsTyped.v; a premise of the lemmas that meet typed content) *)
Definition typed_wv_agree : Prop :=
  forall cur d o, bytes_okb d = true ->
    spec_opaque (opaque_kind 2301 cur) d = Some o -> decode_wv_content cur d = POk o.
Definition typed_datetime_agree : Prop :=
  forall v o, spec_datetime v = Some o -> decode_datetime v = POk o.

(* the Wireless Village premise is needed only when the document's language is WV CSP 1.1 / 1.2 *)
Definition wv_premise (l : lang) : Prop := (l_id l =? 2301) || (l_id l =? 2302) = true -> typed_wv_agree.

Lemma opt_bytes_chars ro : chars_event ro = chars_of (opt_bytes ro).
Proof. destruct ro as [[|b r]|]; reflexivity. Qed.

Lemma app_opt_bytes acc ro : app_opt acc ro = acc ++ opt_bytes ro.
Proof. destruct ro; cbn; [reflexivity|rewrite app_nil_r; reflexivity]. Qed.

Lemma k_lt3 k : (k <? 3) = true -> k = 0 \/ k = 1 \/ k = 2.
Proof. lia. Qed.

Lemma base64_ok d o : bytes_okb d = true -> spec_base64 d = Some o -> decode_base64_value d = POk o.
Proof.
  intros Hb H. unfold spec_base64 in H. destruct d as [|b d']; [discriminate|]. injection H as <-.
  unfold decode_base64_value.
  destruct (b64_enc_total (b :: d')) as [out Ho]; [discriminate|]. rewrite Ho.
  rewrite (b64_enc_rfc _ _ (bytes_okb_Forall _ Hb) Ho). reflexivity.
Qed.

Lemma wml_family_eq id : is_wml_lang id = is_wml_family id.
Proof.
  unfold is_wml_lang, is_wml_family. cbn [existsb].
  destruct (id =? 1101), (id =? 1102), (id =? 1103), (id =? 1104), (id =? 1202); reflexivity.
Qed.
Lemma wv_family_eq id : is_wv_lang id = is_wv_family id.
Proof.
  unfold is_wv_lang, is_wv_family. cbn [existsb].
  destruct (id =? 2301), (id =? 2302); reflexivity.
Qed.

(* evaluate the token tests of the parser on a concrete leading byte *)
Ltac ev := cbn [is_token is_string is_extension is_ext_token is_literal nth_error N.eqb Pos.eqb orb andb negb
                tl app s_rest s_cur s_tagcp s_attrcp pst parse_uint8 hd].

Ltac norm_tok :=
  change (64 + 0) with 64 in *; change (64 + 1) with 65 in *; change (64 + 2) with 66 in *;
  change (128 + 0) with 128 in *; change (128 + 1) with 129 in *; change (128 + 2) with 130 in *;
  change (192 + 0) with 192 in *; change (192 + 1) with 193 in *; change (192 + 2) with 194 in *.

Section Str.
Variables (l : lang) (tb : bytes) (ver cs : N).
Hypothesis Hcs : cs_ok cs.
Hypothesis Hwv : wv_premise l.
Let env := penv_of l tb ver cs.
Let denv := mk_denv l tb.

Lemma opaque_kind_wv cur : (l_id l =? 2301) || (l_id l =? 2302) = true ->
  opaque_kind (l_id l) cur = opaque_kind 2301 cur.
Proof.
  intros H. unfold opaque_kind. destruct cur as [p|]; [|reflexivity]. rewrite H. reflexivity.
Qed.

Lemma cur_is_pair p t a b : cur_is (Some (p, t)) a b = pair_in (p, t) [(a, b)].
Proof.
  unfold cur_is, pair_in. cbn [existsb fst snd]. rewrite orb_false_r.
  rewrite (N.eqb_sym a p), (N.eqb_sym b t). reflexivity.
Qed.

Lemma decode_opaque_content_ok cur d o : bytes_okb d = true ->
  spec_opaque (opaque_kind (l_id l) cur) d = Some o -> decode_opaque_content env cur d = POk o.
Proof.
  intros Hb H. unfold decode_opaque_content. cbn [e_lang env penv_of].
  unfold is_wv_lang, is_syncml_lang.
  destruct ((l_id l =? 2301) || (l_id l =? 2302)) eqn:Ewv.
  - rewrite (opaque_kind_wv cur Ewv) in H. apply (Hwv Ewv); assumption.
  - unfold opaque_kind in H. rewrite Ewv in H.
    destruct cur as [[p t]|].
    + destruct (l_id l =? 1801) eqn:E1.
      * rewrite cur_is_pair. destruct (pair_in (p, t) [(0, 12)]); cbn [spec_opaque] in H.
        -- apply base64_ok; assumption.
        -- injection H as <-. reflexivity.
      * destruct ((l_id l =? 2001) || (l_id l =? 2101) || (l_id l =? 2201)) eqn:E2.
        -- rewrite cur_is_pair. destruct (pair_in (p, t) [(1, 16)]); cbn [spec_opaque] in H.
           ++ apply base64_ok; assumption.
           ++ injection H as <-. reflexivity.
        -- cbn [spec_opaque] in H. injection H as <-. reflexivity.
    + cbn [spec_opaque] in H. injection H as <-.
      destruct (l_id l =? 1801); [reflexivity|].
      destruct ((l_id l =? 2001) || (l_id l =? 2101) || (l_id l =? 2201)); reflexivity.
Qed.

(* ---- the sub-parsers on serialized values ---- *)

Lemma parse_entity_ok c r : is_scalar c = true -> c <> 0 ->
  parse_entity (2 :: mb_write c ++ r) = POk (utf8_spec c, r).
Proof.
  intros Hs Hc. unfold parse_entity. cbn [tl].
  rewrite parse_mb_ok by (unfold is_scalar in Hs; lia).
  rewrite (entity_utf8_scalar c Hs Hc). reflexivity.
Qed.

Lemma parse_opaque_ok d r : u32_okb (blen d) = true ->
  parse_opaque (195 :: mb_write (blen d) ++ d ++ r) = POk (d, r).
Proof.
  intros H. unfold parse_opaque. cbn [tl]. rewrite parse_mb_ok by (apply u32_okb_lt; exact H).
  rewrite blen_app_le, take_app, drop_app. reflexivity.
Qed.

Lemma parse_string_I s r : nul_free s = true -> parse_string env (3 :: s ++ 0 :: r) = POk (s, r).
Proof.
  intros H. unfold parse_string. ev.
  unfold parse_inline, parse_termstr. cbn [tl e_charset env penv_of]. apply conv_term_ok; assumption.
Qed.

Lemma parse_string_T i s r : u32_okb i = true -> str_at tb i = Some s ->
  parse_string env (131 :: mb_write i ++ r) = POk (s, r).
Proof.
  intros Hi H. unfold parse_string. ev.
  unfold parse_tableref. cbn [tl]. rewrite parse_mb_ok by (apply u32_okb_lt; exact Hi).
  unfold env. rewrite (strtbl_ref_ok l tb ver cs i s Hcs H). reflexivity.
Qed.

Lemma opt_switch_page_ok sp sw dst r : sw_okb sw = true -> (forall b r', r = b :: r' -> b <> 0) ->
  opt_switch_page sp (pst dst (ser_sw sw ++ r)) = POk (pst (apply_sw sp sw dst) r).
Proof.
  intros Hsw Hr. unfold opt_switch_page. destruct sw as [p|]; cbn [ser_sw app].
  - cbn. destruct sp; reflexivity.
  - cbn [pst s_rest apply_sw]. destruct r as [|b r']; [reflexivity|].
    cbn [is_token]. specialize (Hr b r' eq_refl). replace (b =? 0) with false by lia. reflexivity.
Qed.

Lemma set_rest_pst dst r r' : set_rest (pst dst r) r' = pst dst r'.
Proof. reflexivity. Qed.

(* extension: the parser leaves the result untouched (None) where the specification says "nothing" *)
Lemma parse_extension_ok sp sw x o dst r : sw_okb sw = true -> den_ext denv x = Some o ->
  exists ro, parse_extension env sp (pst dst (ser_sw sw ++ ser_ext x ++ r)) = POk (ro, pst (apply_sw sp sw dst) r)
             /\ opt_bytes ro = o.
Proof.
  intros Hsw H. unfold den_ext in H. cbn [de_lang de_strtbl denv] in H.
  unfold parse_extension.
  assert (Hne : forall b r', ser_ext x ++ r = b :: r' -> b <> 0).
  { intros b r' E. destruct x; cbn [ser_ext app] in E; injection E as <- _; lia. }
  rewrite (opt_switch_page_ok sp sw dst (ser_ext x ++ r) Hsw Hne).
  cbn [s_rest pst]. cbn [e_lang env penv_of].
  rewrite wml_family_eq, wv_family_eq.
  destruct (is_wml_family (l_id l)) eqn:Ewml.
  - destruct x as [k s|k i|k].
    + destruct ((k <? 3) && str_okb s) eqn:E; [|discriminate]. apply andb_prop in E. destruct E as [Ek Es].
      injection H as <-. destruct (str_okb_split s Es) as [_ Hn].
      destruct (k_lt3 k Ek) as [-> | [-> | ->]]; cbn [ser_ext]; norm_tok; ev; rewrite <- app_assoc; ev;
        unfold parse_termstr; cbn [e_charset env penv_of]; rewrite (conv_term_ok cs s r Hcs Hn);
        eexists; split; reflexivity.
    + destruct ((k <? 3) && u32_okb i) eqn:E; [|discriminate]. apply andb_prop in E. destruct E as [Ek Ei].
      destruct (str_at tb i) as [s|] eqn:Es; [|discriminate]. injection H as <-.
      destruct (k_lt3 k Ek) as [-> | [-> | ->]]; cbn [ser_ext]; norm_tok; ev;
        rewrite parse_mb_ok by (apply u32_okb_lt; exact Ei);
        unfold env; rewrite (strtbl_ref_ok l tb ver cs i s Hcs Es); eexists; split; reflexivity.
    + destruct (k <? 3) eqn:Ek; [|discriminate]. injection H as <-.
      destruct (k_lt3 k Ek) as [-> | [-> | ->]]; cbn [ser_ext]; norm_tok; ev; exists None; split; reflexivity.
  - destruct (is_wv_family (l_id l)) eqn:Ewv; [|discriminate].
    destruct x as [k s|k v|k]; try discriminate.
    destruct k as [|pk]; [|discriminate].
    destruct (u32_okb v) eqn:Ev; [|discriminate].
    unfold lookup_ext in H. cbn [ser_ext]. norm_tok. ev.
    rewrite parse_mb_ok by (apply u32_okb_lt; exact Ev).
    destruct (l_exts l) as [t|] eqn:Et; cbn [opt_list] in H.
    + assert (Hf : forall t0, find_ext t0 v = find (fun r0 => e_tok r0 =? v) t0).
      { induction t0 as [|r0 t0 IH]; cbn [find_ext find]; [reflexivity|].
        destruct (e_tok r0 =? v); [reflexivity|exact IH]. }
      rewrite Hf. destruct (find (fun r0 => e_tok r0 =? v) t) as [row|]; [|discriminate].
      injection H as <-. eexists. split; reflexivity.
    + cbn in H. discriminate.
Qed.

(* ---- content ---- *)

Lemma content_str_ok fuel nesting pelt parent s dst o dst' r :
  den_str denv TagSpace parent s dst = Some (o, dst') ->
  parse_content fuel env nesting pelt (pst dst (ser_str s ++ r)) = POk (chars_of o, pst dst' r).
Proof.
  intros H. destruct s as [s|i|c|d|sw x]; cbn [den_str] in H.
  - destruct (str_okb s) eqn:Es; [|discriminate]. injection H as <- <-.
    destruct (str_okb_split s Es) as [_ Hn].
    unfold parse_content. cbn [ser_str]. ev. rewrite <- app_assoc. ev.
    rewrite (parse_string_I s r Hn). rewrite opt_bytes_chars. reflexivity.
  - destruct (u32_okb i) eqn:Ei; [|discriminate].
    destruct (str_at (de_strtbl denv) i) as [s|] eqn:Es; [|discriminate]. injection H as <- <-.
    unfold parse_content. cbn [ser_str]. ev.
    rewrite (parse_string_T i s r Ei Es). rewrite opt_bytes_chars. reflexivity.
  - destruct (is_scalar c && negb (c =? 0)) eqn:E; [|discriminate]. apply andb_prop in E. destruct E as [Hs Hc].
    injection H as <- <-.
    unfold parse_content. cbn [ser_str]. ev.
    rewrite (parse_entity_ok c r Hs) by lia. rewrite opt_bytes_chars. reflexivity.
  - destruct (bytes_okb d && u32_okb (blen d)) eqn:E; [|discriminate]. apply andb_prop in E. destruct E as [Hb Hu].
    cbn [de_lang denv] in H.
    destruct (okind_eqb (opaque_kind (l_id l) parent) (opaque_kind (l_id l) (ds_cur dst))) eqn:Ek; [|discriminate].
    destruct (spec_opaque (opaque_kind (l_id l) parent) d) as [o'|] eqn:Eo; [|discriminate].
    injection H as <- <-.
    assert (Hk : opaque_kind (l_id l) parent = opaque_kind (l_id l) (ds_cur dst)).
    { destruct (opaque_kind (l_id l) parent), (opaque_kind (l_id l) (ds_cur dst)); try discriminate; reflexivity. }
    rewrite Hk in Eo.
    unfold parse_content. cbn [ser_str]. ev. rewrite <- app_assoc.
    rewrite (parse_opaque_ok d r Hu). ev.
    rewrite (decode_opaque_content_ok (ds_cur dst) d o' Hb Eo). rewrite opt_bytes_chars. reflexivity.
  - destruct (sw_okb sw) eqn:Esw; [|discriminate].
    destruct (den_ext denv x) as [o'|] eqn:Ex; [|discriminate]. injection H as <- <-.
    destruct (parse_extension_ok TagSpace sw x o' dst r Esw Ex) as [ro [Hp Ho]].
    unfold parse_content. cbn [ser_str pst s_rest]. rewrite <- app_assoc.
    assert (Hext : is_extension (ser_sw sw ++ ser_ext x ++ r) = true).
    { unfold den_ext in Ex. cbn [de_lang denv] in Ex.
      assert (Hk : exists t r', ser_ext x ++ r = t :: r' /\ is_ext_token t = true).
      { destruct x as [k s|k v|k]; cbn [ser_ext app];
          destruct (is_wml_family (l_id l)); destruct (is_wv_family (l_id l)); try discriminate;
          try (destruct ((k <? 3) && str_okb s) eqn:E; [|discriminate]; apply andb_prop in E; destruct E as [Ek _]);
          try (destruct ((k <? 3) && u32_okb v) eqn:E; [|discriminate]; apply andb_prop in E; destruct E as [Ek _]);
          try (destruct (k <? 3) eqn:Ek; [|discriminate]);
          try (destruct (k_lt3 k Ek) as [-> | [-> | ->]]; eexists; eexists; split; reflexivity);
          try (destruct k; [|discriminate]; eexists; eexists; split; reflexivity). }
      destruct Hk as [t [r' [E Ht]]]. rewrite E.
      destruct sw as [p|]; cbn [ser_sw app]; unfold is_extension; cbn [is_token nth_error].
      - cbn. exact Ht.
      - destruct (t =? 0) eqn:E0; [apply N.eqb_eq in E0; subst t; discriminate|]. cbn. exact Ht. }
    assert (Hne : exists b r', ser_sw sw ++ ser_ext x ++ r = b :: r').
    { destruct sw; cbn [ser_sw app]; [eexists; eexists; reflexivity|].
      destruct x; cbn [ser_ext app]; eexists; eexists; reflexivity. }
    destruct Hne as [b [r' Eb]]. rewrite Eb in *. rewrite Hext.
    change (pst dst (b :: r')) with (pst dst (b :: r')). rewrite Hp.
    rewrite opt_bytes_chars, Ho. reflexivity.
Qed.

End Str.
