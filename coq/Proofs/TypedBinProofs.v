(* C12 — base64-carried binary content: corollaries of the C11 lemmas (Proofs/CodecProofs.v) *)
From Coq Require Import List NArith ZArith Lia Bool ZifyBool ZifyN PeanoNat.
From Wbxml Require Import Base.Bits Model.Codec Model.Typed Proofs.CodecProofs Proofs.TypedProofs.
Import ListNotations.
Local Open Scope N_scope.

(* the characters of an encoded text: alphabet characters and '=', never NUL, never white space *)
Definition plain_char (c : N) : bool := negb (c =? 0) && negb (is_cspace c).

Lemma basis_plain_sweep : forallb (fun i => plain_char (basis i)) (N_range 64) = true.
Proof. vm_compute. reflexivity. Qed.

Lemma basis_plain i : i < 64 -> plain_char (basis i) = true.
Proof. intros H. apply (sweep1 _ 64 basis_plain_sweep). exact H. Qed.

Lemma b64_text_plain bs : bytes_ok bs -> Forall (fun c => plain_char c = true) (b64_enc_body bs).
Proof.
  intros H. rewrite enc_body_shape by exact H. apply Forall_app. split.
  - pose proof (sextets_lt bs H) as Hs. induction Hs as [|s l Hs _ IH]; [constructor|].
    cbn [map]. constructor; [apply basis_plain; exact Hs|exact IH].
  - unfold pad. destruct (length bs mod 3)%nat as [|[|[|k]]]; repeat constructor.
Qed.

Lemma plain_cstr l : Forall (fun c => plain_char c = true) l -> cstr l = l.
Proof.
  intros H. apply cstr_nonzero. induction H as [|c l Hc _ IH]; constructor; [|exact IH].
  unfold plain_char in Hc. intro E. subst c. discriminate.
Qed.

Lemma plain_nospace l : Forall (fun c => plain_char c = true) l -> filter (fun c => negb (is_cspace c)) l = l.
Proof.
  induction 1 as [|c l Hc _ IH]; [reflexivity|].
  cbn [filter]. unfold plain_char in Hc. apply andb_true_iff in Hc. destruct Hc as [_ Hc]. rewrite Hc, IH. reflexivity.
Qed.

(* the RFC 4648 text of a non-empty byte string *)
Lemma text_is_body bs : bytes_ok bs -> rfc4648 bs = b64_enc_body bs.
Proof. intros H. symmetry. apply b64_enc_is_rfc4648. exact H. Qed.

(* WBXML -> XML: an opaque (NextNonce, ds:KeyValue, OTA attribute value, binary-flagged element)
   is rendered as the RFC 4648 base64 of its bytes *)
Lemma dec_base64_value_rfc bs : bs <> [] -> bytes_ok bs -> dec_base64_value bs = TOk (rfc4648 bs).
Proof.
  intros Hne H. unfold dec_base64_value. destruct bs as [|b r]; [contradiction|].
  cbn [b64_enc]. rewrite (b64_enc_is_rfc4648 (b :: r) H). reflexivity.
Qed.

(* XML -> WBXML on the DRMREL ds:KeyValue / OTA ICON path: the opaque payload is the byte string *)
Lemma enc_b64_cstr_rfc bs : bs <> [] -> bytes_ok bs -> enc_b64_cstr (rfc4648 bs) = Emit (enc_opaque bs).
Proof.
  intros Hne H. unfold enc_b64_cstr. rewrite text_is_body by exact H.
  rewrite plain_cstr by (apply b64_text_plain; exact H).
  rewrite b64_roundtrip by assumption. reflexivity.
Qed.

(* XML -> WBXML for binary-flagged elements (white space is removed first: none in the canonical text) *)
Lemma enc_binary_tag_rfc bs : bs <> [] -> bytes_ok bs -> enc_binary_tag (rfc4648 bs) = Emit (enc_opaque bs).
Proof.
  intros Hne H. unfold enc_binary_tag, buffer_b64_dec. rewrite text_is_body by exact H.
  rewrite plain_nospace by (apply b64_text_plain; exact H).
  rewrite b64_roundtrip by assumption. reflexivity.
Qed.

(* ... and also when the text is folded with white space anywhere (binary-flagged elements only) *)
Lemma enc_binary_tag_spaces bs txt : bs <> [] -> bytes_ok bs ->
  filter (fun c => negb (is_cspace c)) txt = rfc4648 bs -> enc_binary_tag txt = Emit (enc_opaque bs).
Proof.
  intros Hne H E. unfold enc_binary_tag, buffer_b64_dec. rewrite E, text_is_body by exact H.
  rewrite b64_roundtrip by assumption. reflexivity.
Qed.

(* Theorem 4: encode then decode *)
Lemma binary_roundtrip bs : bs <> [] -> bytes_ok bs -> N.of_nat (length bs) < 4294967296 ->
  (exists p, payload_of (enc_b64_cstr (rfc4648 bs)) = Some p /\ p = bs /\ dec_base64_value p = TOk (rfc4648 bs)) /\
  (exists p, payload_of (enc_binary_tag (rfc4648 bs)) = Some p /\ p = bs /\ dec_base64_value p = TOk (rfc4648 bs)).
Proof.
  intros Hne H Hl. split; exists bs.
  - rewrite enc_b64_cstr_rfc by assumption. cbn [payload_of]. rewrite opaque_payload_enc by exact Hl.
    repeat split. apply dec_base64_value_rfc; assumption.
  - rewrite enc_binary_tag_rfc by assumption. cbn [payload_of]. rewrite opaque_payload_enc by exact Hl.
    repeat split. apply dec_base64_value_rfc; assumption.
Qed.

(* the dispatch: where the base64 rendering is applied *)
Lemma dispatch_base64 bs :
  decode_opaque_content L_DRMREL10 0 12 bs = dec_base64_value bs /\
  decode_opaque_content L_SYNCML10 1 16 bs = dec_base64_value bs /\
  decode_opaque_content L_SYNCML11 1 16 bs = dec_base64_value bs /\
  decode_opaque_content L_SYNCML12 1 16 bs = dec_base64_value bs /\
  decode_opaque_attr_value L_OTA_SETTINGS bs = dec_base64_value bs /\
  enc_drmrel_content 0 12 bs = enc_b64_cstr bs.
Proof. repeat split; reflexivity. Qed.
