(* C18 — what the tree API does with a text of length 0 (Model/TreeGraph.v transcribes wbxml_tree_add_text /
   wbxml_tree_add_node / wbxml_tree_add_xml_elt_with_attrs_and_text as they are) *)
From Coq Require Import List NArith Bool Lia.
From Wbxml Require Import Model.TreeGraph Proofs.TreeGraphProofs.
Import ListNotations.
Local Open Scope N_scope.

(* after a text sibling: a merge that adds nothing — the text is unchanged, the node object is the new one *)
Theorem empty_text_after_text fuel t det F q ds cs0 m a mk :
  Inv t det F -> find_l q F = Some (R q ds (cs0 ++ [R m (DText a) mk])) -> is_text ds = false ->
  (fuel_of t <= fuel)%nat ->
  exists t', add_text fuel t (Some q) [] = TOk (t', Some (fresh t)) /\
             Inv t' det (replace_l q (R q ds (cs0 ++ [R (fresh t) (DText a) []])) F).
Proof.
  intros HI Hf Hd Hfu. unfold add_text.
  destruct (add_new_shape fuel t det F q ds _ (DText []) HI Hf Hd Hfu) as (t' & Hrun & HI' & _).
  exists t'. split; [exact Hrun|]. rewrite snoc_merge_text, app_nil_r in HI'. exact HI'.
Qed.

(* with no text sibling in front (no child at all, or a last child that is not text): an EMPTY TEXT NODE is created *)
Theorem empty_text_without_text_sibling fuel t det F q ds cs :
  Inv t det F -> find_l q F = Some (R q ds cs) -> is_text ds = false -> last_not_text cs = true ->
  (fuel_of t <= fuel)%nat ->
  exists t', add_text fuel t (Some q) [] = TOk (t', Some (fresh t)) /\
             Inv t' det (replace_l q (R q ds (cs ++ [R (fresh t) (DText []) []])) F).
Proof.
  intros HI Hf Hd Hl Hfu. unfold add_text.
  destruct (add_new_shape fuel t det F q ds _ (DText []) HI Hf Hd Hfu) as (t' & Hrun & HI' & _).
  exists t'. split; [exact Hrun|]. rewrite (snoc_merge_plain cs _ (or_introl Hl)) in HI'. exact HI'.
Qed.

(* such a node is seen by the encoders: the element "has content" (children != NULL), although the equivalent XML
   text <x></x> is parsed into an element without children *)
Theorem empty_text_only_child_changes_the_walk d :
  events (Sh d [Sh (DText []) []]) = [EvOpen d true; EvOpen (DText []) false; EvClose (DText []) false; EvClose d true] /\
  events (Sh d []) = [EvOpen d false; EvClose d false].
Proof. split; reflexivity. Qed.

(* wbxml_tree_add_xml_elt_with_attrs_and_text with len == 0 (or text == NULL): the element only, no text child *)
Theorem empty_text_wrapper_adds_no_child fuel l t p name kvs :
  add_xml_elt_with_attrs_and_text fuel l t p name kvs [] =
  match add_xml_elt_with_attrs fuel l t p name kvs with
  | TOk (t1, Some n) => TOk (t1, Some n)
  | TOk (t1, None) => TOk (t1, None)
  | TFail => TFail
  | TStuck => TStuck
  end.
Proof.
  unfold add_xml_elt_with_attrs_and_text. destruct (add_xml_elt_with_attrs fuel l t p name kvs) as [[t1 [n|]]| |]; reflexivity.
Qed.
