(* C02 / C03 — the front end inverts the events of a canonical tree: Model/XmlFront.v fed with
   Model/XmlFrontEvents.events_of rebuilds exactly the tree (namespaces, attributes, CDATA nodes, binary-flagged content as
   base64, embedded DevInf / DM DDF trees through the nested parse). *)
From Coq Require Import String.
From Coq Require Import List NArith PeanoNat Lia Bool.
From Wbxml Require Import Model.TablesDefs Model.Tables Model.Codec Model.LangSelect Model.EncWbxml Model.XmlFront Model.XmlFrontEvents.
From Wbxml Require Import Proofs.EncWbxmlProofs Proofs.XmlFrontProofs Proofs.XmlFrontBinary.
Import ListNotations.
Local Open Scope N_scope.

(* ------------------------------------------------------------------ the equality tests are sound *)

Lemma obeq_eq a b : obeq a b = true -> a = b.
Proof. destruct a, b; cbn; try discriminate; auto. intros H. apply beq_eq in H. now subst. Qed.

Lemma tagname_eqb_eq a b : tagname_eqb a b = true -> a = b.
Proof.
  destruct a, b; cbn; try discriminate.
  - intros H. apply andb_true_iff in H as [H Hn]. apply andb_true_iff in H as [H Ho]. apply andb_true_iff in H as [Hp Ht].
    apply N.eqb_eq in Hp. apply N.eqb_eq in Ht. apply N.eqb_eq in Ho. apply beq_eq in Hn. now subst.
  - intros H. apply beq_eq in H. now subst.
Qed.

Lemma attr_eqb_eq a b : attr_eqb a b = true -> a = b.
Proof.
  destruct a as [n v], b as [n' v']. unfold attr_eqb. cbn. intros H. apply andb_true_iff in H. destruct H as [H1 H2].
  apply beq_eq in H2. subst v'. f_equal. destruct n, n'; cbn in H1; try discriminate.
  - apply andb_true_iff in H1 as [H1 Hv]. apply andb_true_iff in H1 as [H1 Hn]. apply andb_true_iff in H1 as [Hp Ht].
    apply N.eqb_eq in Hp. apply N.eqb_eq in Ht. apply beq_eq in Hn. apply obeq_eq in Hv. now subst.
  - apply beq_eq in H1. now subst.
Qed.

Lemma list_eqb_eq {A} (eqb : A -> A -> bool) : (forall x y, eqb x y = true -> x = y) ->
  forall a b, list_eqb eqb a b = true -> a = b.
Proof.
  intros E. induction a as [|x a IH]; destruct b as [|y b]; cbn; try discriminate; auto.
  intros H. apply andb_true_iff in H. destruct H as [H1 H2]. f_equal; auto.
Qed.

Lemma node_eqb_eq : forall a b, node_eqb a b = true -> a = b.
Proof.
  fix IH 1. intros a b. destruct a as [t at0 k|c|k| |i k], b as [t' at1 k'|c'|k'| |i' k']; cbn [node_eqb]; try discriminate; try reflexivity.
  - intros H. apply andb_true_iff in H. destruct H as [H H3]. apply andb_true_iff in H. destruct H as [H1 H2].
    apply tagname_eqb_eq in H1. apply (list_eqb_eq attr_eqb attr_eqb_eq) in H2. subst. f_equal.
    revert k' H3. induction k as [|n x IHk]; intros [|m y]; try discriminate; try reflexivity.
    intros H. apply andb_true_iff in H. destruct H as [A B]. f_equal; [now apply IH|now apply IHk].
  - intros H. apply beq_eq in H. now subst.
  - intros H3. f_equal. revert k' H3. induction k as [|n x IHk]; intros [|m y]; try discriminate; auto.
    intros H. apply andb_true_iff in H. destruct H as [A B]. f_equal; [now apply IH|now apply IHk].
  - intros H. apply andb_true_iff in H. destruct H as [H1 H3]. apply N.eqb_eq in H1. subst. f_equal.
    revert k' H3. induction k as [|n x IHk]; intros [|m y]; try discriminate; try reflexivity.
    intros H. apply andb_true_iff in H. destruct H as [A B]. f_equal; [now apply IH|now apply IHk].
Qed.

(* ------------------------------------------------------------------ frames while the children of a node arrive *)

Definition with_content (k : fkind) (c : option bytes) : fkind :=
  match k with FElt tg a _ => FElt tg a c | FCData => FCData end.
Definition kind_plain (k : fkind) : Prop := with_content k None = k.

(* the frame of a node of kind k after its children rdone (most recent first): a binary-flagged element holds its last
   text as cached base64 *)
Definition head_frame (k : fkind) (rdone : list node) : frame :=
  if kind_binary k then
    match rdone with
    | NText b :: r => mk_frame (with_content k (Some (rfc4648 b))) r
    | _ => mk_frame k rdone
    end
  else mk_frame k rdone.

Definition pend_ok (k : fkind) (rdone : list node) : Prop :=
  kind_binary k = true ->
  match rdone with NText b :: r => b <> [] /\ Forall (fun c => c < 256) b /\ head_is_text r = false | _ => True end.

Lemma set_spine_same c : set_spine c (c_spine c) = c.
Proof. destruct c; reflexivity. Qed.

Lemma bytes_okb_ok b : bytes_okb b = true -> Forall (fun c => c < 256) b.
Proof. unfold bytes_okb. intros H. rewrite forallb_forall in H. apply Forall_forall. intros x I. apply N.ltb_lt. now apply H. Qed.

Lemma kids_fix l emb up' k' : forall rest rd,
  (fix kids (rd : list node) (rest : list node) {struct rest} : bool :=
     match rest with [] => true | x :: r => node_canon l emb up' k' rd x && kids (x :: rd) r end) rd rest
  = kids_canon l emb up' k' rd rest.
Proof. induction rest as [|x r IH]; intros rd; [reflexivity|]. cbn [kids_canon]. now rewrite IH. Qed.

Lemma lf_hack_id (b : bytes) : beq b [10] = false -> (match b with [10] => [13; 10] | _ => b end) = b.
Proof.
  intros H. destruct b as [|x t]; [reflexivity|]. destruct (N.eq_dec x 10) as [->|NX].
  - destruct t; [cbn in H; discriminate|reflexivity].
  - destruct x as [|q]; [destruct t; reflexivity|]. repeat (destruct q as [q|q|]; try (destruct t; reflexivity)). now elim NX.
Qed.

(* the same with the test of the LF-hack fix (P: the text before ends with a CR) *)
Lemma lf_hack_id_cr (P : bool) (b : bytes) : beq b [10] = false -> (match b with [10] => if P then b else [13; 10] | _ => b end) = b.
Proof.
  intros H. destruct b as [|x t]; [reflexivity|]. destruct (N.eq_dec x 10) as [->|NX].
  - destruct t; [cbn in H; discriminate|reflexivity].
  - destruct x as [|q]; [destruct t; reflexivity|]. repeat (destruct q as [q|q|]; try (destruct t; reflexivity)). now elim NX.
Qed.

(* the (text, want-CDATA) pair of the characters callback when the LF hack does not fire *)
Lemma hack_pair d (P : bool) (b : bytes) : (dt_vobject d && beq b [10]) = false ->
  exists w, (match d with
             | DT_DIRECTORY_VCARD | DT_VCALENDAR | DT_VCARD | DT_VOBJECT => (match b with [10] => if P then b else [13; 10] | _ => b end, true)
             | DT_CLEAR => (b, true)
             | _ => (b, false)
             end) = (b, w).
Proof.
  intros H. destruct d; cbn in H; try (eexists; reflexivity); rewrite (lf_hack_id_cr P b H); eexists; reflexivity.
Qed.

Section Inv.
  Variable main : list lang.
  Variable sub : bytes -> xtree + N.
  Variable input : bytes.
  Variable l : lang.
  Variable emb : N -> list node -> bool.
  Notation step := (step main sub input).
  Notation run := (run main sub input).

  (* what `emb lid roots = true` must mean: the nested parse of the document built for the (empty) skipped range
     yields this tree *)
  Definition emb_spec (lid : N) (roots : list node) : Prop :=
    let is_ddf := beq (emb_name lid) n_MgmtTree in
    (is_ddf && negb (l_id l =? LANG_SYNCML12)) = false /\
    exists id el doc cs,
      (if l_id l =? LANG_SYNCML10 then Some LANG_DEVINF10
       else if l_id l =? LANG_SYNCML11 then Some LANG_DEVINF11
       else if l_id l =? LANG_SYNCML12 then Some (if is_ddf then LANG_DMDDF12 else LANG_DEVINF12)
       else None) = Some id /\
      get_table main id = Some el /\
      embedded_doc input el 0 0 (if is_ddf then close_MgmtTree else close_DevInf) = Some doc /\
      sub doc = inl (mk_xtree lid cs roots).
  Hypothesis emb_ok : forall lid roots, emb lid roots = true -> emb_spec lid roots.

  Definition good_ctx (c : ctx) : Prop := c_error c = WBXML_OK /\ c_skip_lvl c = 0 /\ c_lang c = Some l.

  Definition Inv (c : ctx) (up : list frame) (k : fkind) (rdone : list node) : Prop :=
    good_ctx c /\ c_spine c = head_frame k rdone :: up /\ pend_ok k rdone /\ kind_plain k.

  (* the cached text (if any) becomes the last child *)
  Lemma flush_head c up k rdone :
    c_spine c = head_frame k rdone :: up -> pend_ok k rdone -> kind_plain k ->
    flush_binary c = set_spine c (mk_frame k rdone :: up).
  Proof.
    intros S P KP. unfold head_frame in S. unfold flush_binary. rewrite S.
    destruct (kind_binary k) eqn:KB.
    - specialize (P KB). destruct rdone as [|[tg a ch|b|ch| |lid rs] r];
        try (destruct k as [[p t o nm|nm] at0 [ct|]|]; cbn in KB, KP |- *; try discriminate; rewrite <- S; now rewrite set_spine_same).
      destruct P as (NE & BY & HT).
      destruct k as [[p t o nm|nm] at0 ct|]; cbn in KB; try discriminate. unfold kind_plain in KP. cbn in KP. injection KP as ->.
      cbn [with_content f_kind f_rkids]. unfold tag_binary in KB. rewrite KB. rewrite (buffer_b64_dec_rfc b NE BY).
      unfold add_text_kid, add_kid. cbn [f_rkids f_kind]. destruct r as [|[] ?]; try reflexivity. discriminate.
    - destruct k as [[p t o nm|nm] at0 [ct|]|]; cbn in KB, KP |- *; try discriminate;
        try (unfold tag_binary in KB; rewrite KB); rewrite <- S; now rewrite set_spine_same.
  Qed.

  Lemma good_set_spine c sp : good_ctx c -> good_ctx (set_spine c sp).
  Proof. intros H. exact H. Qed.

  Lemma inv_plain_head k rdone : head_is_text rdone = false -> head_frame k rdone = mk_frame k rdone.
  Proof. unfold head_frame. destruct (kind_binary k); [|reflexivity]. destruct rdone as [|[] ?]; try reflexivity. discriminate. Qed.

  (* ---------------------------------------------------------------- start and end of a child element *)

  Lemma start_sim c up k rdone tg attrs :
    Inv c up k rdone -> tag_canon l tg = true -> tag_not_embedded l tg = true -> attrs_canon l attrs = true ->
    (N.of_nat (List.length (mk_frame k rdone :: up)) <? WBXML_MAX_NESTING_DEPTH) = true ->
    let c' := step c (EvStartElement (ev_name l tg) (map ev_attr attrs) 0) in
    Inv c' (mk_frame k rdone :: up) (FElt tg attrs None) [] /\ c_root c' = c_root c /\ c_charset c' = c_charset c.
  Proof.
    intros ((E & K & LG) & S & P & KP) TC EM AC DP. cbv zeta. cbn [XmlFront.step]. unfold on_start_element.
    rewrite E, K. cbn [negb N.eqb WBXML_OK N.ltb N.compare]. rewrite S. cbn match. rewrite E. cbn [negb N.eqb WBXML_OK].
    unfold tag_canon in TC. unfold tag_not_embedded in EM. apply negb_true_iff in EM. rewrite EM. cbn [andb].
    rewrite (flush_head c up k rdone S P KP). unfold start_child. cbn [c_error c_spine c_lang set_spine]. rewrite E, LG.
    cbn [negb N.eqb WBXML_OK].
    assert (D : (WBXML_MAX_NESTING_DEPTH <=? N.of_nat (List.length (mk_frame k rdone :: up))) = false).
    { apply N.leb_gt. now apply N.ltb_lt. }
    rewrite D. apply tagname_eqb_eq in TC. destruct (resolve_tag l (ev_name l tg)) as [tag page]. cbn [fst] in TC. subst tag.
    apply (list_eqb_eq attr_eqb attr_eqb_eq) in AC. rewrite AC.
    unfold push_frame. cbn [c_spine set_page set_spine c_root c_charset].
    split; [|split; reflexivity]. split; [repeat split; auto|]. split; [rewrite inv_plain_head by reflexivity; reflexivity|]. split; [intros _; exact I|reflexivity].
  Qed.

  Lemma end_sim c up k rdone tg attrs rd name :
    Inv c (mk_frame k rdone :: up) (FElt tg attrs None) rd -> kind_plain k ->
    let c' := step c (EvEndElement name 0) in
    good_ctx c' /\ c_spine c' = mk_frame k (NElt tg attrs (rev rd) :: rdone) :: up /\
    c_root c' = c_root c /\ c_charset c' = c_charset c.
  Proof.
    intros ((E & K & LG) & S & P & KP) KPk. cbv zeta. cbn [XmlFront.step]. unfold on_end_element.
    rewrite (flush_head c _ _ rd S P KP). cbn [c_error c_skip_lvl set_spine]. rewrite E, K. cbn [negb N.eqb WBXML_OK N.ltb N.compare].
    unfold leave_current. cbn [c_spine set_spine is_cdata_frame f_kind]. unfold go_up. cbn [c_spine set_spine].
    unfold good_ctx. cbn. repeat split; auto. unfold add_kid, reify, kids_of. cbn. now rewrite rev_append_rev, app_nil_r.
  Qed.

  (* a frame whose name is not Data has no SyncML data type *)
  Lemma data_type_not_data k rdone up : kind_is_data k = false -> kind_plain k ->
    match k with FElt _ _ _ => True | FCData => False end ->
    syncml_data_type (mk_frame k rdone :: up) = Some DT_NORMAL.
  Proof.
    intros ND KP KE. destruct k as [tg at0 ct|]; [|contradiction]. unfold syncml_data_type, is_cdata_frame. cbn.
    cbn in ND. now rewrite ND.
  Qed.

  (* ---------------------------------------------------------------- one node *)

  Theorem node_sim : forall n up k rdone c,
    node_canon l emb up k rdone n = true -> Inv c up k rdone ->
    let c' := run c (ev_node l (kind_binary k) n) in
    Inv c' up k (n :: rdone) /\ c_root c' = c_root c /\ c_charset c' = c_charset c.
  Proof.
    fix IH 1. intros n up k rdone c HC HI. cbv zeta.
    destruct n as [tg attrs ch|b|ch| |lid roots]; cbn [node_canon ev_node] in HC |- *.
    - (* element *)
      rewrite kids_fix in HC.
      apply andb_true_iff in HC. destruct HC as [HC KC]. apply andb_true_iff in HC. destruct HC as [HC ND].
      apply andb_true_iff in HC. destruct HC as [HC DP]. apply andb_true_iff in HC. destruct HC as [HC AC].
      apply andb_true_iff in HC. destruct HC as [TC EMB].
      change (EvStartElement (ev_name l tg) (map ev_attr attrs) 0 :: flat_map (ev_node l (tag_binary tg)) ch ++ [EvEndElement (ev_name l tg) 0])
        with ([EvStartElement (ev_name l tg) (map ev_attr attrs) 0] ++ flat_map (ev_node l (tag_binary tg)) ch ++ [EvEndElement (ev_name l tg) 0]).
      rewrite !run_app.
      destruct (start_sim c up k rdone tg attrs HI TC EMB AC DP) as (I1 & R1 & C1).
      set (c1 := run c [EvStartElement (ev_name l tg) (map ev_attr attrs) 0]) in *.
      change (step c (EvStartElement (ev_name l tg) (map ev_attr attrs) 0)) with c1 in I1, R1, C1.
      (* the children *)
      assert (Hch : forall rest rd cA, kids_canon l emb (mk_frame k rdone :: up) (FElt tg attrs None) rd rest = true ->
                      Inv cA (mk_frame k rdone :: up) (FElt tg attrs None) rd ->
                      let cB := run cA (flat_map (ev_node l (tag_binary tg)) rest) in
                      Inv cB (mk_frame k rdone :: up) (FElt tg attrs None) (rev rest ++ rd) /\ c_root cB = c_root cA /\ c_charset cB = c_charset cA).
      { induction rest as [|x r IHr]; intros rd cA KC' IA; cbv zeta; [cbn; auto|].
        cbn [kids_canon] in KC'. apply andb_true_iff in KC'. destruct KC' as [XC RC].
        cbn [flat_map]. rewrite run_app.
        destruct (IH x _ _ rd cA XC IA) as (IX & RX & CX). cbn [kind_binary] in IX, RX, CX.
        destruct (IHr (x :: rd) _ RC IX) as (IB & RB & CB). cbv zeta in IB, RB, CB.
        cbn [rev]. rewrite <- app_assoc. cbn [app]. split; [exact IB|split; congruence]. }
      destruct (Hch ch [] c1 KC I1) as (I2 & R2 & C2). cbv zeta in I2, R2, C2. rewrite app_nil_r in I2.
      set (c2 := run c1 (flat_map (ev_node l (tag_binary tg)) ch)) in *.
      destruct HI as (_ & _ & _ & KPk).
      destruct (end_sim c2 up k rdone tg attrs (rev ch) (ev_name l tg) I2 KPk) as (G3 & S3 & R3 & C3).
      rewrite rev_involutive in S3. change (run c2 [EvEndElement (ev_name l tg) 0]) with (step c2 (EvEndElement (ev_name l tg) 0)).
      split; [|split; congruence]. split; [exact G3|]. split; [rewrite inv_plain_head by reflexivity; exact S3|].
      split; [intros _; exact I|exact KPk].
    - (* text *)
      destruct HI as ((E & K & LG) & S & P & KP). unfold text_canon in HC.
      apply andb_true_iff in HC. destruct HC as [HC TC]. apply andb_true_iff in HC. destruct HC as [NE HT].
      apply negb_true_iff in HT. rewrite (inv_plain_head k rdone HT) in S.
      change (run c [EvCharacters (if kind_binary k then rfc4648 b else b)]) with (step c (EvCharacters (if kind_binary k then rfc4648 b else b))).
      cbn [XmlFront.step]. unfold on_characters. rewrite E, K. cbn [negb N.eqb WBXML_OK N.ltb N.compare]. rewrite S.
      destruct (kind_binary k) eqn:KB.
      + (* cached on the binary element *)
        apply andb_true_iff in TC. destruct TC as [BY NDt]. apply negb_true_iff in NDt.
        assert (KE : match k with FElt _ _ _ => True | FCData => False end) by (destruct k; [exact I|discriminate]).
        rewrite (data_type_not_data k rdone up NDt KP KE). cbv beta iota zeta. cbn [andb]. rewrite ?S.
        assert (BF : is_binary_frame (mk_frame k rdone) = true).
        { destruct k as [[p t o nm|nm] at0 ct|]; cbn in KB |- *; try discriminate. exact KB. }
        cbn [andb]. rewrite BF.
        destruct k as [tg at0 ct|]; [|discriminate]. unfold kind_plain in KP. cbn in KP. injection KP as KP'. subst ct.
        cbn [f_kind f_rkids]. split; [|split; reflexivity].
        split; [repeat split; auto|]. split; [unfold head_frame; rewrite KB; reflexivity|].
        split; [|reflexivity]. intros _. repeat split; auto.
        * destruct b; [discriminate|discriminate].
        * now apply bytes_okb_ok.
      + destruct (syncml_data_type (mk_frame k rdone :: up)) as [d|] eqn:DT; [|discriminate].
        assert (NB : is_binary_frame (mk_frame k rdone) = false).
        { destruct k as [[p t o nm|nm] at0 ct|]; cbn in KB |- *; auto. }
        assert (TXT : forall cx, c_error cx = WBXML_OK -> c_skip_lvl cx = 0 -> c_lang cx = Some l -> c_spine cx = mk_frame k rdone :: up ->
                       c_root cx = c_root c -> c_charset cx = c_charset c ->
                       (Inv (add_text cx b) up k (NText b :: rdone)) /\ c_root (add_text cx b) = c_root c /\ c_charset (add_text cx b) = c_charset c).
        { intros cx Ex Kx Lx Sx Rx Cx. unfold add_text. rewrite Sx. cbn [c_root c_charset set_spine]. split; [|auto].
          split; [repeat split; auto|]. split.
          - cbn [c_spine set_spine]. unfold head_frame. rewrite KB. unfold add_text_kid, add_kid. cbn [f_rkids f_kind].
            destruct rdone as [|[] ?]; try reflexivity. discriminate.
          - split; [intros X; rewrite KB in X; discriminate|exact KP]. }
        destruct k as [tg at0 ct|].
        * (* directly below an element *)
          destruct (dt_plain d) eqn:DP.
          -- assert (X : (match d with
                          | DT_DIRECTORY_VCARD | DT_VCALENDAR | DT_VCARD | DT_VOBJECT =>
                            (match b with [10] => if prev_ends_cr (mk_frame (FElt tg at0 ct) rdone :: up) then b else [13; 10] | _ => b end, true)
                          | DT_CLEAR => (b, true)
                          | _ => (b, false)
                          end) = (b, false)) by (destruct d; try discriminate; reflexivity).
             rewrite X. cbn [andb]. rewrite ?S, NB. apply TXT; auto.
          -- cbn [orb] in TC. apply andb_true_iff in TC. destruct TC as [FK NV]. apply negb_true_iff in NV.
             match goal with |- context [if ?P then b else [13; 10]] => destruct (hack_pair d P b NV) as [w ->] end. rewrite FK. cbn [negb]. rewrite andb_false_r. rewrite ?S, NB. apply TXT; auto.
        * (* inside a CDATA node *)
          apply negb_true_iff in TC.
          match goal with |- context [if ?P then b else [13; 10]] => destruct (hack_pair d P b TC) as [w ->] end. cbn [is_cdata_frame f_kind negb andb]. rewrite andb_false_r. cbn [andb]. rewrite ?S, NB. apply TXT; auto.
    - (* CDATA node *)
      rewrite kids_fix in HC. apply andb_true_iff in HC. destruct HC as [NBk KC]. apply negb_true_iff in NBk.
      destruct HI as ((E & K & LG) & S & P & KP). rewrite ?NBk.
      assert (S' : c_spine c = mk_frame k rdone :: up) by (unfold head_frame in S; now rewrite NBk in S).
      change (EvStartCdata :: flat_map (ev_node l false) ch ++ [EvEndCdata]) with ([EvStartCdata] ++ flat_map (ev_node l false) ch ++ [EvEndCdata]).
      rewrite !run_app.
      set (c1 := run c [EvStartCdata]).
      assert (I1 : Inv c1 (mk_frame k rdone :: up) FCData [] /\ c_root c1 = c_root c /\ c_charset c1 = c_charset c).
      { subst c1. change (run c [EvStartCdata]) with (step c EvStartCdata). cbn [XmlFront.step]. unfold on_start_cdata.
        rewrite E, K. cbn [negb N.eqb WBXML_OK N.ltb N.compare]. unfold push_frame. rewrite S'. cbn [c_root c_charset set_spine].
        split; [|split; reflexivity]. split; [repeat split; auto|]. split; [reflexivity|]. split; [intros X; discriminate|reflexivity]. }
      destruct I1 as (I1 & R1 & C1).
      assert (Hch : forall rest rd cA, kids_canon l emb (mk_frame k rdone :: up) FCData rd rest = true ->
                      Inv cA (mk_frame k rdone :: up) FCData rd ->
                      let cB := run cA (flat_map (ev_node l false) rest) in
                      Inv cB (mk_frame k rdone :: up) FCData (rev rest ++ rd) /\ c_root cB = c_root cA /\ c_charset cB = c_charset cA).
      { induction rest as [|x r IHr]; intros rd cA KC' IA; cbv zeta; [cbn; auto|].
        cbn [kids_canon] in KC'. apply andb_true_iff in KC'. destruct KC' as [XC RC].
        cbn [flat_map]. rewrite run_app.
        destruct (IH x _ _ rd cA XC IA) as (IX & RX & CX). cbn [kind_binary] in IX, RX, CX.
        destruct (IHr (x :: rd) _ RC IX) as (IB & RB & CB). cbv zeta in IB, RB, CB.
        cbn [rev]. rewrite <- app_assoc. cbn [app]. split; [exact IB|split; congruence]. }
      destruct (Hch ch [] c1 KC I1) as (I2 & R2 & C2). cbv zeta in I2, R2, C2. rewrite app_nil_r in I2.
      set (c2 := run c1 (flat_map (ev_node l false) ch)) in *.
      destruct I2 as ((E2 & K2 & L2) & S2 & _ & _). unfold head_frame in S2. cbn [kind_binary] in S2.
      change (run c2 [EvEndCdata]) with (step c2 EvEndCdata). cbn [XmlFront.step]. unfold on_end_cdata.
      rewrite E2, K2. cbn [negb N.eqb WBXML_OK N.ltb N.compare]. rewrite S2. unfold go_up. rewrite S2.
      cbn [c_root c_charset set_spine]. split; [|split; congruence].
      split; [repeat split; auto|]. split.
      + cbn [c_spine set_spine]. rewrite inv_plain_head by reflexivity. unfold add_kid, reify, kids_of. cbn.
        now rewrite rev_append_rev, app_nil_r, rev_involutive.
      + split; [intros _; exact I|exact KP].
    - discriminate.
    - (* embedded tree *)
      apply andb_true_iff in HC. destruct HC as [HC EMB]. apply andb_true_iff in HC. destruct HC as [NBk KE]. apply negb_true_iff in NBk.
      destruct (emb_ok lid roots EMB) as (DDF & id & el & doc & cs & TG & GT & ED & SB).
      destruct HI as ((E & K & LG) & S & P & KP).
      assert (S' : c_spine c = mk_frame k rdone :: up) by (unfold head_frame in S; now rewrite NBk in S).
      assert (EN : is_embedded_name (emb_name lid) = true).
      { unfold emb_name, is_embedded_name. destruct (lid =? LANG_DMDDF12); [apply orb_true_r|reflexivity]. }
      change (run c [EvStartElement (emb_name lid) [] 0; EvEndElement (emb_name lid) 0])
        with (step (step c (EvStartElement (emb_name lid) [] 0)) (EvEndElement (emb_name lid) 0)).
      set (c1 := step c (EvStartElement (emb_name lid) [] 0)).
      assert (C1 : c1 = set_skip c 1 0).
      { subst c1. cbn [XmlFront.step]. unfold on_start_element. rewrite E, K. cbn [negb N.eqb WBXML_OK N.ltb N.compare].
        rewrite S'. cbn match. rewrite E, EN. cbn [negb N.eqb WBXML_OK andb]. rewrite ?S', ?K. cbn [negb]. reflexivity. }
      rewrite C1. cbn [XmlFront.step]. unfold on_end_element.
      assert (FL : flush_binary (set_skip c 1 0) = set_skip c 1 0).
      { unfold flush_binary. cbn [c_spine set_skip]. rewrite S'. cbn [f_kind].
        destruct k as [[p t o nm|nm] at0 [ct|]|]; try reflexivity; unfold kind_plain in KP; cbn in KP; discriminate. }
      rewrite FL. cbn [c_error c_skip_lvl c_lang c_skip_start set_skip]. rewrite E, LG. cbn [negb N.eqb WBXML_OK N.ltb N.compare].
      rewrite EN, DDF, TG, GT, ED, SB. cbn [c_spine set_skip]. rewrite S'.
      cbn [c_root c_charset set_skip set_spine xt_lang xt_roots]. split; [|split; reflexivity].
      split; [repeat split; auto|]. split.
      + cbn [c_spine set_skip set_spine]. rewrite inv_plain_head by reflexivity. reflexivity.
      + split; [intros _; exact I|exact KP].
  Qed.

  Theorem kids_sim up k : kind_plain k -> forall rest rd c,
    kids_canon l emb up k rd rest = true -> Inv c up k rd ->
    let c' := run c (flat_map (ev_node l (kind_binary k)) rest) in
    Inv c' up k (rev rest ++ rd) /\ c_root c' = c_root c /\ c_charset c' = c_charset c.
  Proof.
    intros KP. induction rest as [|x r IHr]; intros rd c KC IA; cbv zeta; [cbn; auto|].
    cbn [kids_canon] in KC. apply andb_true_iff in KC. destruct KC as [XC RC].
    cbn [flat_map]. rewrite run_app.
    destruct (node_sim x up k rd c XC IA) as (IX & RX & CX).
    destruct (IHr (x :: rd) _ RC IX) as (IB & RB & CB). cbv zeta in IB, RB, CB.
    cbn [rev]. rewrite <- app_assoc. cbn [app]. split; [exact IB|split; congruence].
  Qed.

  (* ---------------------------------------------------------------- a whole document *)

  (* any DOCTYPE that selects the language (the form the XML generator writes; FrontSimple.doc_events) *)
  Definition doc_events (rootname : bytes) (sysid pubid : option bytes) (root : node) : list event :=
    [EvXmlDecl (Some (bs "1.0")) None; EvStartDoctype rootname sysid pubid] ++ ev_node l false root.

  Theorem front_inverts_doc rootname sysid pubid root :
    input <> [] ->
    search_table main (option_map str pubid) (option_map str sysid) None = Some l ->
    root_canon l emb root = true ->
    tree_from_xml main sub input (doc_events rootname sysid pubid root) true = inl (mk_xtree (l_id l) 0 [root]).
  Proof.
    intros NI ST RC. unfold root_canon in RC. destruct root as [tg attrs ch| | | |]; try discriminate.
    apply andb_true_iff in RC. destruct RC as [RC KC]. apply andb_true_iff in RC. destruct RC as [RC ND].
    apply andb_true_iff in RC. destruct RC as [TC AC].
    unfold tree_from_xml. destruct input as [|i0 ir] eqn:EI; [now elim NI|]. rewrite <- EI. clear EI.
    unfold doc_events. cbn [ev_node].
    set (pro := [EvXmlDecl (Some (bs "1.0")) None; EvStartDoctype rootname sysid pubid]).
    change (pro ++ EvStartElement (ev_name l tg) (map ev_attr attrs) 0 :: flat_map (ev_node l (tag_binary tg)) ch ++ [EvEndElement (ev_name l tg) 0])
      with (pro ++ [EvStartElement (ev_name l tg) (map ev_attr attrs) 0] ++ flat_map (ev_node l (tag_binary tg)) ch ++ [EvEndElement (ev_name l tg) 0]).
    rewrite !run_app.
    assert (E0 : run init_ctx pro = mk_ctx (Some l) 0 0 None [] WBXML_OK 0 0).
    { subst pro. unfold XmlFront.run. cbn [fold_left XmlFront.step on_xml_decl]. unfold on_start_doctype. rewrite ST. reflexivity. }
    rewrite E0.
    set (f1 := mk_frame (FElt tg attrs None) []).
    set (c1 := run (mk_ctx (Some l) 0 0 None [] WBXML_OK 0 0) [EvStartElement (ev_name l tg) (map ev_attr attrs) 0]).
    assert (I1 : Inv c1 [] (FElt tg attrs None) [] /\ c_root c1 = None /\ c_charset c1 = 0).
    { subst c1. unfold XmlFront.run. cbn [fold_left XmlFront.step]. unfold on_start_element, start_child, flush_binary, push_frame.
      cbn [c_error c_skip_lvl c_spine c_lang c_root c_page c_charset c_skip_start set_page set_spine set_error set_lang].
      change (WBXML_OK =? WBXML_OK) with true. cbn [negb andb N.ltb N.compare List.length N.of_nat]. rewrite andb_false_r.
      change (WBXML_MAX_NESTING_DEPTH <=? 0) with false.
      unfold tag_canon in TC. apply tagname_eqb_eq in TC.
      destruct (resolve_tag l (ev_name l tg)) as [tag page]. cbn [fst] in TC. subst tag.
      apply (list_eqb_eq attr_eqb attr_eqb_eq) in AC. rewrite AC.
      cbn [c_error c_skip_lvl c_spine c_lang c_root c_page c_charset c_skip_start set_page set_spine set_error set_lang].
      split; [|split; reflexivity]. split; [repeat split|]. split; [rewrite inv_plain_head by reflexivity; reflexivity|]. split; [intros _; exact I|reflexivity]. }
    destruct I1 as (I1 & R1 & C1).
    destruct (kids_sim [] (FElt tg attrs None) eq_refl ch [] c1 KC I1) as (I2 & R2 & C2). cbv zeta in I2, R2, C2.
    cbn [kind_binary] in I2, R2, C2. rewrite app_nil_r in I2.
    set (c2 := run c1 (flat_map (ev_node l (tag_binary tg)) ch)) in *.
    destruct I2 as ((E2 & K2 & L2) & S2 & P2 & KP2).
    (* the end tag of the root: the cache is flushed, `current` stays *)
    change (run c2 [EvEndElement (ev_name l tg) 0]) with (step c2 (EvEndElement (ev_name l tg) 0)).
    cbn [XmlFront.step]. unfold on_end_element. rewrite (flush_head c2 [] _ (rev ch) S2 P2 KP2).
    cbn [c_error c_skip_lvl set_spine]. rewrite E2, K2. cbn [negb N.eqb WBXML_OK N.ltb N.compare].
    unfold leave_current. cbn [c_spine set_spine c_error]. rewrite E2. cbn [negb N.eqb WBXML_OK].
    unfold tree_of_ctx, root_of. cbn [c_lang c_charset c_spine set_spine close_spine]. rewrite L2, C2, C1.
    unfold reify, kids_of. cbn. now rewrite rev_append_rev, app_nil_r, rev_involutive.
  Qed.

  Theorem front_inverts_events root :
    input <> [] ->
    search_table main (option_map str (option_map bs (l_pub_text l))) (option_map str (option_map bs (l_dtd l))) None = Some l ->
    root_canon l emb root = true ->
    tree_from_xml main sub input (events_of l root) true = inl (mk_xtree (l_id l) 0 [root]).
  Proof. intros NI ST RC. exact (front_inverts_doc _ _ _ root NI ST RC). Qed.
End Inv.

(* ------------------------------------------------------------------ corollaries *)

From Wbxml Require Import Model.Conv Model.ConvXml2Wbxml Proofs.XmlFrontNames Proofs.XmlFrontSize Gen.TablesData.

(* idempotence on the image: when the tree the front end built is canonical, feeding its events gives the same tree again
   (with the charset of a document that declares none) *)
Theorem front_idempotent_on_image main sub input l emb evs ok t r :
  (forall lid roots, emb lid roots = true -> emb_spec main sub input l lid roots) ->
  tree_from_xml main sub input evs ok = inl t -> xt_roots t = [r] -> xt_lang t = l_id l ->
  search_table main (option_map str (option_map bs (l_pub_text l))) (option_map str (option_map bs (l_dtd l))) None = Some l ->
  root_canon l emb r = true ->
  tree_from_xml main sub input (events_of l r) true = inl (mk_xtree (xt_lang t) 0 (xt_roots t)).
Proof.
  intros EO T R LG ST RC. rewrite R, LG. apply (front_inverts_events main sub input l emb EO r); auto.
  intros ->. unfold tree_from_xml in T. discriminate.
Qed.

(* the conversion of the events of a canonical tree is the encoding of that tree *)
Theorem conversion_of_events_of main btbl sub input l emb root o :
  (forall lid roots, emb lid roots = true -> emb_spec main sub input l lid roots) ->
  input <> [] ->
  search_table main (option_map str (option_map bs (l_pub_text l))) (option_map str (option_map bs (l_dtd l))) None = Some l ->
  root_canon l emb root = true ->
  xml2wbxml_events main btbl sub (events_of l root) true o input =
  match encode_tree btbl o (mk_xtree (l_id l) 0 [root]) with
  | inl out => mk_res ST_OK (Some out) (N.of_nat (List.length out))
  | inr e => mk_res (ST_ERR e) None 0
  end.
Proof.
  intros EO NI ST RC. unfold xml2wbxml_events, conv_run.
  rewrite (front_inverts_events main sub input l emb EO root NI ST RC). destruct input; [now elim NI|reflexivity].
Qed.

(* ------------------------------------------------------------------ the image of the front end: what is canonical by construction *)

(* names: a token tag the tables return resolves back to itself under the namespace-qualified name — checked on the
   regenerated tables for every row and every code page a namespace can select *)
Definition cand_pages (l : lang) : list N := 0 :: map ns_page (opt_list (l_ns l)).
Definition row_tag (r : tag_row) : tagname := TagTok (t_page r) (t_tok r) (t_opts r) (bs (t_name r)).
Definition lang_tags_canon (l : lang) : bool :=
  forallb (fun r => forallb (fun q => match tag_from_xml l (Some q) (t_name r) with
                                      | Some r' => tag_canon l (row_tag r')
                                      | None => true
                                      end) (cand_pages l)) (opt_list (l_tags l)).

Lemma main_table_tags_canon : forallb lang_tags_canon main_table = true.
Proof. vm_compute. reflexivity. Qed.

Lemma page_of_xmlns_cand l ns : In (page_of_xmlns l ns) (cand_pages l).
Proof.
  unfold page_of_xmlns, page_of_xmlns_opt, cand_pages. destruct (l_ns l) as [rows|]; [|now left]. cbn [opt_list].
  destruct (find (fun r => streq (ns_name r) ns) rows) as [r|] eqn:F; cbn; [|now left].
  right. apply in_map. apply find_some in F. tauto.
Qed.

Theorem resolve_tag_token_canon l name p t o nm :
  lang_tags_canon l = true -> fst (resolve_tag l name) = TagTok p t o nm -> tag_canon l (TagTok p t o nm) = true.
Proof.
  intros LC. unfold resolve_tag.
  destruct (match split_last SEP name with Some (a, b) => (a, b) | None => ([], name) end) as [ns local].
  destruct (tag_from_xml l (Some (page_of_xmlns l (str ns))) (str local)) as [row|] eqn:T; cbn [fst]; [|discriminate].
  intros H. rewrite <- H.
  unfold lang_tags_canon in LC. rewrite forallb_forall in LC.
  pose proof (XmlFrontNames.tag_from_xml_in _ _ _ _ T) as IN. specialize (LC row IN). rewrite forallb_forall in LC.
  specialize (LC _ (page_of_xmlns_cand l (str ns))).
  assert (NM : t_name row = str local) by exact (tag_from_xml_name _ _ _ _ T).
  rewrite NM in LC. rewrite T in LC. exact LC.
Qed.

(* attributes: what resolve_attr returns resolves back to itself (names and values are octets) *)
Lemma bs_str_id b : Forall (fun c => c < 256) b -> bs (str b) = b.
Proof.
  unfold bs, str, bytes_of_string. induction 1 as [|x r Hx _ IH]; [reflexivity|].
  cbn [string_of_bytes fold_right list_ascii_of_string map]. rewrite Ascii.N_ascii_embedding by exact Hx. f_equal. exact IH.
Qed.

Theorem resolve_attr_canon l nv :
  Forall (fun c => c < 256) (fst nv) -> ev_attr (resolve_attr l nv) = nv.
Proof.
  destruct nv as [name value]. cbn [fst]. intros BY. unfold resolve_attr, ev_attr, attr_xml_name.
  destruct (fst (attr_from_xml l (str name) (Some (str value)))) as [row|] eqn:A; cbn; [|reflexivity].
  unfold attr_from_xml in A. destruct (l_attrs l) as [rows|]; [|discriminate].
  destruct (attr_loop_name _ _ _ _ _ _ A) as [X|X]; [discriminate|]. now rewrite X, bs_str_id.
Qed.

(* what is NOT canonical in the image (the predicate is sufficient, not necessary; each of these trees is still rebuilt by
   the C from its events — the replay tie shows it for the second and third): *)
Definition lang_by_id (id : N) : lang := match get_table main_table id with Some l => l | None => mk_lang 0 0 None None None None None None None None end.

Definition image_root (evs : list event) : node :=
  match tree_from_xml main_table (fun _ => inr 104) [60] evs true with inl t => hd NPi (xt_roots t) | inr _ => NPi end.

(* 1. an empty character-data event (Expat never delivers one) leaves an empty text node *)
Definition w1_events : list event := [EvStartElement (bs "wml") [] 0; EvCharacters []; EvEndElement (bs "wml") 0].
Definition w1_root : node := Eval vm_compute in image_root w1_events.
Lemma image_not_canonical_empty_text :
  tree_from_xml main_table (fun _ => inr 104) [60] w1_events true = inl (mk_xtree 1101 0 [w1_root]) /\
  root_canon (lang_by_id 1101) (fun _ _ => false) w1_root = false.
Proof. split; vm_compute; reflexivity. Qed.

(* 2. a CDATA section after text inside a binary-flagged element: the CDATA node is attached before the cached text *)
Definition w2_events : list event :=
  [EvStartElement (bs "AirSync:|Sync") [] 0; EvStartElement (bs "ComposeMail:|MIME") [] 0; EvCharacters (bs "Zg==");
   EvStartCdata; EvCharacters (bs "x"); EvEndCdata; EvEndElement (bs "ComposeMail:|MIME") 0; EvEndElement (bs "AirSync:|Sync") 0].
Definition w2_root : node := Eval vm_compute in image_root w2_events.
Lemma image_not_canonical_cdata_in_binary :
  tree_from_xml main_table (fun _ => inr 104) [60] w2_events true = inl (mk_xtree 2402 0 [w2_root]) /\
  root_canon (lang_by_id 2402) (fun _ _ => false) w2_root = false.
Proof. split; vm_compute; reflexivity. Qed.

(* 3. a binary-flagged AirSync <Data> below <Add>/<Replace>: the SyncML CDATA hack takes the text, it is not decoded *)
Definition w3_events : list event :=
  [EvStartElement (bs "AirSync:|Sync") [] 0; EvStartElement (bs "AirSync:|Replace") [] 0; EvStartElement (bs "AirSync:|Item") [] 0;
   EvStartElement (bs "AirSync:|Data") [] 0; EvCharacters (bs "YWJj"); EvEndElement (bs "AirSync:|Data") 0;
   EvEndElement (bs "AirSync:|Item") 0; EvEndElement (bs "AirSync:|Replace") 0; EvEndElement (bs "AirSync:|Sync") 0].
Definition w3_root : node := Eval vm_compute in image_root w3_events.
Lemma image_not_canonical_data_hack :
  tree_from_xml main_table (fun _ => inr 104) [60] w3_events true = inl (mk_xtree 2402 0 [w3_root]) /\
  root_canon (lang_by_id 2402) (fun _ _ => false) w3_root = false.
Proof. split; vm_compute; reflexivity. Qed.

(* ------------------------------------------------------------------ real trees are canonical *)

Definition no_emb : N -> list node -> bool := fun _ _ => false.

(* WML 1.3: tokens, an attribute start token with value, a literal element, text *)
Definition ex_wml_root : node :=
  NElt (TagTok 0 63 0 (bs "wml")) []
    [NElt (TagTok 0 39 0 (bs "card")) [mk_at (AttrTok 0 85 (bs "id") None) (bs "c")]
       [NElt (TagTok 0 32 0 (bs "p")) [] [NText (bs "a&b")]; NElt (TagLit (bs "zz")) [] []]].
Example ex_wml_canonical : root_canon (lang_by_id 1104) no_emb ex_wml_root = true.
Proof. vm_compute. reflexivity. Qed.

(* SyncML 1.1: namespace table, the vCard <Data> inside the CDATA node the front end adds *)
Definition ex_syncml_root : node :=
  NElt (TagTok 0 45 0 (bs "SyncML")) []
    [NElt (TagTok 0 5 0 (bs "Add")) []
       [NElt (TagTok 0 20 0 (bs "Item")) []
          [NElt (TagTok 0 15 0 (bs "Data")) [] [NCData [NText (bs "BEGIN:VCARD" ++ [13; 10] ++ bs "END:VCARD")]]]]].
Example ex_syncml_canonical : root_canon (lang_by_id 2101) no_emb ex_syncml_root = true.
Proof. vm_compute. reflexivity. Qed.

(* ActiveSync: namespaces per code page, a binary-flagged element with mixed content *)
Definition ex_activesync_root : node :=
  NElt (TagTok 0 5 0 (bs "Sync")) []
    [NElt (TagTok 21 16 1 (bs "MIME")) [] [NText (bs "f"); NElt (TagTok 21 7 0 (bs "SmartReply")) [] []; NText (bs "oo")]].
Example ex_activesync_canonical : root_canon (lang_by_id 2402) no_emb ex_activesync_root = true.
Proof. vm_compute. reflexivity. Qed.

Example ex_doctype_selects : forall id, In id [1104; 2101; 2402] ->
  let l := lang_by_id id in
  search_table main_table (option_map str (option_map bs (l_pub_text l))) (option_map str (option_map bs (l_dtd l))) None = Some l.
Proof. intros id [<-|[<-|[<-|[]]]]; vm_compute; reflexivity. Qed.

Lemma no_emb_ok main sub input l : forall lid roots, no_emb lid roots = true -> emb_spec main sub input l lid roots.
Proof. discriminate. Qed.

(* ... so the theorem applies to them: *)
Example ex_activesync_inverted :
  tree_from_xml main_table (fun _ => inr 104) [60] (events_of (lang_by_id 2402) ex_activesync_root) true
  = inl (mk_xtree 2402 0 [ex_activesync_root]).
Proof.
  apply (front_inverts_events main_table _ [60] (lang_by_id 2402) no_emb (no_emb_ok _ _ _ _) ex_activesync_root); [discriminate| |exact ex_activesync_canonical].
  apply (ex_doctype_selects 2402). cbn. auto.
Qed.

(* bridge to the simple case (Proofs/FrontSimple.v): without a namespace table the reported name is the tag's XML name *)
Lemma ev_name_no_ns l tg : l_ns l = None -> ev_name l tg = tag_xml_name tg.
Proof. intros H. destruct tg as [p t o nm|nm]; [|reflexivity]. unfold ev_name, xmlns_of_page. now rewrite H. Qed.
