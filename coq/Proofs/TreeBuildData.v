(* C03 (tree builder, SyncML data-type rule threaded through the tree) — the builder on a well-bracketed event list, written as
   a function on the FOREST the list stands for, with the builder's own frames threaded through it: for an element named Data
   whose content is one run of character data the node is decided by syncml_data_type of the frames as built so far (Meta/Type
   of the parent or grandparent, the Add/Replace hack): text, a RE-CREATED CDATA node, the sub-tree of an embedded document
   (parsed with the language not forced, built one level down), or the text when that fails or beyond the embedding limit. *)
From Coq Require Import String Ascii.
From Coq Require Import List NArith ZArith Lia Bool.
From Wbxml Require Import Model.Codec Model.TablesDefs Model.Parser Model.Spec Model.TreeBuild
     Proofs.TreeBuildProofs Proofs.TreeBuildProofs2 Proofs.TreeBuildProofs3.
Import ListNotations.
Local Open Scope N_scope.

Inductive item := IChars (b : bytes) | IElt (t : tagname) (a : list (attrname * bytes)) (kids : list item).

Fixpoint ev_of (it : item) : list event :=
  match it with
  | IChars b => [EvChars b]
  | IElt t a kids => EvStartElt t a :: flat_map ev_of kids ++ [EvEndElt t]
  end.

Definition is_data_name (t : tagname) : bool := bytes_eqb (tag_name t) (B "Data").
Definition is_ielt (it : item) : bool := match it with IElt _ _ _ => true | _ => false end.

Section Bi.
Variables (tbl : list lang) (lv : nat) (cs : N).

(* the content of a Data element with the character data b, by the type found for it; None: the embedded parse ran out of fuel *)
Definition chars_node (dt : dtype) (b : bytes) : option (list tnode) :=
  match dt with
  | D_NORMAL => Some [TText b]
  | D_CDATA => Some [TCData [TText b]]
  | D_WBXML =>
    match lv with
    | O => Some [TText b]
    | S lv' =>
      match parse_with tbl 0 cs (S (length b)) b with
      | POk evs' =>
        match build_from tbl lv' evs' st_init with
        | BOk st' => let t := tree_of_state st' in Some [TSub (wt_lang t) (wt_charset t) (wt_root t)]
        | BErr _ => Some [TText b]
        | BFuel => None
        end
      | PErr _ => Some [TText b]
      | PFuel => None
      end
    end
  end.

(* the parent frame p (ancestors up) after the item *)
Fixpoint bi (up : list frame) (p : frame) (it : item) {struct it} : option frame :=
  match it with
  | IChars b => Some (mk_frame (f_tag p) (f_attrs p) (add_node (f_done p) (TText b)) None)
  | IElt t a kids =>
    let f0 := mk_frame t a [] None in
    let content :=
      match kids with
      | [IChars b] => chars_node (syncml_data_type (f0 :: p :: up)) b
      | _ => option_map f_done
               ((fix go (f : frame) (l : list item) : option frame :=
                   match l with [] => Some f | x :: r => match bi (p :: up) f x with Some f' => go f' r | None => None end end) f0 kids)
      end in
    option_map (fun c => mk_frame (f_tag p) (f_attrs p) (f_done p ++ [TElt t a c]) None) content
  end.

Definition bis (up : list frame) :=
  fix go (f : frame) (l : list item) : option frame :=
    match l with [] => Some f | x :: r => match bi up f x with Some f' => go f' r | None => None end end.

(* the shapes covered: a Data element holds one run of character data, or no character data of its own *)
Fixpoint iwf (it : item) : bool :=
  match it with
  | IChars _ => true
  | IElt t a kids =>
    match kids with
    | [IChars _] => true
    | _ => (negb (is_data_name t) || forallb is_ielt kids) && forallb iwf kids
    end
  end.

Definition with_top (st : bstate) (p : frame) (up : list frame) : bstate := mk_bstate (b_lang st) (b_charset st) (p :: up) (b_root st).

Lemma data_elt_step t a b st p up r c : b_stack st = p :: up -> f_cdata p = None -> b_charset st = cs ->
  chars_node (syncml_data_type (mk_frame t a [] None :: p :: up)) b = Some c ->
  build_from tbl lv (EvStartElt t a :: EvChars b :: EvEndElt t :: r) st
  = build_from tbl lv r (with_top st (mk_frame (f_tag p) (f_attrs p) (f_done p ++ [TElt t a c]) None) up).
Proof.
  intros Hs Hc Hcs Hn. rewrite build_from_eq. unfold cb_start_element. rewrite Hs. unfold leave_cdata. rewrite Hc. cbn [bnext].
  rewrite build_from_eq. cbn [b_stack b_charset]. revert Hn. unfold chars_node. rewrite <- Hcs.
  destruct (syncml_data_type (mk_frame t a [] None :: p :: up)).
  - intros H; injection H as <-. unfold add_to_current. cbn [b_stack f_cdata f_tag f_attrs f_done bnext b_lang b_charset b_root add_node].
    rewrite build_from_eq. unfold cb_end_element. cbn [b_stack bnext b_lang b_charset b_root f_tag f_attrs f_done].
    unfold frame_node, frame_children, cdata_nodes, with_top. cbn [f_tag f_attrs f_done f_cdata app]. rewrite Hc. cbn [app]. reflexivity.
  - destruct lv as [|lv'].
    + intros H; injection H as <-. unfold add_to_current. cbn [b_stack f_cdata f_tag f_attrs f_done bnext b_lang b_charset b_root add_node].
      rewrite build_from_eq. unfold cb_end_element. cbn [b_stack bnext b_lang b_charset b_root f_tag f_attrs f_done].
      unfold frame_node, frame_children, cdata_nodes, with_top. cbn [f_tag f_attrs f_done f_cdata app]. rewrite Hc. cbn [app]. reflexivity.
    + destruct (parse_with tbl 0 (b_charset st) (S (length b)) b) as [evs'|pe|]; [|intros H; injection H as <-|discriminate].
      * destruct (build_from tbl lv' evs' st_init) as [st'|be|]; [|intros H; injection H as <-|discriminate].
        -- cbv zeta. intros H; injection H as <-. unfold add_to_current. cbn [b_stack f_cdata f_tag f_attrs f_done bnext b_lang b_charset b_root add_node].
           rewrite build_from_eq. unfold cb_end_element. cbn [b_stack bnext b_lang b_charset b_root f_tag f_attrs f_done].
           unfold frame_node, frame_children, cdata_nodes, with_top. cbn [f_tag f_attrs f_done f_cdata app]. rewrite Hc. cbn [app]. reflexivity.
        -- unfold add_to_current. cbn [b_stack f_cdata f_tag f_attrs f_done bnext b_lang b_charset b_root add_node].
           rewrite build_from_eq. unfold cb_end_element. cbn [b_stack bnext b_lang b_charset b_root f_tag f_attrs f_done].
           unfold frame_node, frame_children, cdata_nodes, with_top. cbn [f_tag f_attrs f_done f_cdata app]. rewrite Hc. cbn [app]. reflexivity.
      * unfold add_to_current. cbn [b_stack f_cdata f_tag f_attrs f_done bnext b_lang b_charset b_root add_node].
        rewrite build_from_eq. unfold cb_end_element. cbn [b_stack bnext b_lang b_charset b_root f_tag f_attrs f_done].
        unfold frame_node, frame_children, cdata_nodes, with_top. cbn [f_tag f_attrs f_done f_cdata app]. rewrite Hc. cbn [app]. reflexivity.
  - intros H; injection H as <-. unfold open_cdata, add_to_current.
    cbn [b_stack f_cdata f_tag f_attrs f_done bnext b_lang b_charset b_root add_node].
    rewrite build_from_eq. unfold cb_end_element. cbn [b_stack bnext b_lang b_charset b_root f_tag f_attrs f_done].
    unfold frame_node, frame_children, cdata_nodes, with_top. cbn [f_tag f_attrs f_done f_cdata app]. rewrite Hc. cbn [app]. reflexivity.
Qed.

Lemma build_item : forall it up p st r p', iwf it = true -> b_stack st = p :: up -> f_cdata p = None -> b_charset st = cs ->
  (is_ielt it = false -> not_data (f_tag p) = true) -> bi up p it = Some p' ->
  build_from tbl lv (ev_of it ++ r) st = build_from tbl lv r (with_top st p' up) /\
  f_cdata p' = None /\ f_tag p' = f_tag p /\ f_attrs p' = f_attrs p.
Proof.
  fix IH 1. intros it up p st r p' Hw Hs Hc Hcs Hnd Hb. destruct it as [b|t a kids].
  - cbn [bi] in Hb. injection Hb as <-. cbn [ev_of app]. split; [|repeat split].
    rewrite build_from_eq. rewrite Hs, (dtype_not_data p up (Hnd eq_refl)). unfold bnext, add_to_current. rewrite Hs, Hc. reflexivity.
  - (* the general element: its children one after the other *)
    assert (Gen : forall f', bis (p :: up) (mk_frame t a [] None) kids = Some f' ->
                  (negb (is_data_name t) || forallb is_ielt kids) && forallb iwf kids = true ->
                  build_from tbl lv (ev_of (IElt t a kids) ++ r) st
                  = build_from tbl lv r (with_top st (mk_frame (f_tag p) (f_attrs p) (f_done p ++ [TElt t a (f_done f')]) None) up)).
    { intros f' Hbis Hk. apply andb_true_iff in Hk. destruct Hk as [Hk1 Hk2].
      cbn [ev_of app]. rewrite build_from_eq. unfold cb_start_element. rewrite Hs. unfold leave_cdata. rewrite Hc. cbn [bnext].
      rewrite <- app_assoc.
      assert (HL : forall ks f0 s0 rest f1, forallb iwf ks = true -> (forall x, In x ks -> is_ielt x = false -> not_data t = true) ->
                     b_stack s0 = f0 :: p :: up -> f_cdata f0 = None -> b_charset s0 = cs -> f_tag f0 = t ->
                     bis (p :: up) f0 ks = Some f1 ->
                     build_from tbl lv (flat_map ev_of ks ++ rest) s0 = build_from tbl lv rest (with_top s0 f1 (p :: up)) /\
                     f_cdata f1 = None /\ f_tag f1 = f_tag f0 /\ f_attrs f1 = f_attrs f0).
      { induction ks as [|x xs IHk]; intros f0 s0 rest f1 Hwk Hdk Hs0 Hc0 Hcs0 Ht0 Hb0.
        - cbn [bis] in Hb0. injection Hb0 as <-. cbn [flat_map app]. split; [|repeat split; assumption].
          destruct s0 as [l0 c0 k0 r0]. cbn [b_stack] in Hs0. subst k0. reflexivity.
        - cbn [forallb] in Hwk. apply andb_true_iff in Hwk. destruct Hwk as [Hwx Hwxs]. cbn [bis] in Hb0.
          destruct (bi (p :: up) f0 x) as [fx|] eqn:Ex; [|discriminate].
          cbn [flat_map]. rewrite <- app_assoc.
          destruct (IH x (p :: up) f0 s0 (flat_map ev_of xs ++ rest) fx Hwx Hs0 Hc0 Hcs0
                       (fun Hx => eq_ind_r (fun tg => not_data tg = true) (Hdk x (or_introl eq_refl) Hx) Ht0) Ex) as (E1 & C1 & T1 & A1).
          rewrite E1.
          destruct (IHk fx (with_top s0 fx (p :: up)) rest f1 Hwxs (fun y Hy => Hdk y (or_intror Hy)) eq_refl C1 Hcs0 (eq_trans T1 Ht0) Hb0) as (E2 & C2 & T2 & A2).
          rewrite E2. split; [reflexivity|]. split; [exact C2|]. split; [rewrite T2; exact T1|rewrite A2; exact A1]. }
      assert (Hdk : forall x, In x kids -> is_ielt x = false -> not_data t = true).
      { intros x Hin Hx. apply orb_true_iff in Hk1. destruct Hk1 as [H|H]; [exact H|].
        rewrite forallb_forall in H. rewrite (H x Hin) in Hx. discriminate. }
      destruct (HL kids (mk_frame t a [] None) (mk_bstate (b_lang st) (b_charset st) (mk_frame t a [] None :: p :: up) (b_root st))
                   ([EvEndElt t] ++ r) f' Hk2 Hdk eq_refl eq_refl Hcs eq_refl Hbis) as (E1 & C1 & T1 & A1).
      rewrite E1. cbn [app]. rewrite build_from_eq. unfold cb_end_element, with_top. cbn [b_stack bnext b_lang b_charset b_root].
      unfold frame_node, frame_children, cdata_nodes. rewrite C1, Hc, T1, A1. cbn [f_tag f_attrs app]. rewrite app_nil_r. reflexivity. }
    (* by the shape of the children *)
    cbn [iwf] in Hw. cbn [bi] in Hb.
    destruct kids as [|k1 kr].
    + cbn [option_map] in Hb. injection Hb as <-. split; [exact (Gen _ eq_refl Hw)|repeat split].
    + destruct k1 as [b1|t1 a1 ks1].
      * destruct kr as [|k2 kr'].
        -- destruct (chars_node (syncml_data_type (mk_frame t a [] None :: p :: up)) b1) as [c|] eqn:Ec; [|discriminate].
           cbn [option_map] in Hb. injection Hb as <-. split; [|repeat split].
           cbn [ev_of flat_map app]. exact (data_elt_step t a b1 st p up r c Hs Hc Hcs Ec).
        -- match type of Hb with option_map _ (option_map f_done ?g) = _ => destruct g as [f'|] eqn:Eg end; [|discriminate].
           cbn [option_map] in Hb. injection Hb as <-. split; [exact (Gen f' Eg Hw)|repeat split].
      * match type of Hb with option_map _ (option_map f_done ?g) = _ => destruct g as [f'|] eqn:Eg end; [|discriminate].
        cbn [option_map] in Hb. injection Hb as <-. split; [exact (Gen f' Eg Hw)|repeat split].
Qed.
End Bi.

Section Doc.
Variables (tbl : list lang) (lv : nat) (cs : N).

Lemma build_items : forall ks up f0 s0 rest f1, forallb iwf ks = true ->
  (forall x, In x ks -> is_ielt x = false -> not_data (f_tag f0) = true) ->
  b_stack s0 = f0 :: up -> f_cdata f0 = None -> b_charset s0 = cs ->
  bis tbl lv cs up f0 ks = Some f1 ->
  build_from tbl lv (flat_map ev_of ks ++ rest) s0 = build_from tbl lv rest (with_top s0 f1 up) /\
  f_cdata f1 = None /\ f_tag f1 = f_tag f0 /\ f_attrs f1 = f_attrs f0.
Proof.
  induction ks as [|x xs IHk]; intros up f0 s0 rest f1 Hwk Hdk Hs0 Hc0 Hcs0 Hb0.
  - cbn [bis] in Hb0. injection Hb0 as <-. cbn [flat_map app]. split; [|repeat split; assumption].
    destruct s0 as [l0 c0 k0 r0]. cbn [b_stack] in Hs0. subst k0. reflexivity.
  - cbn [forallb] in Hwk. apply andb_true_iff in Hwk. destruct Hwk as [Hwx Hwxs]. cbn [bis] in Hb0.
    destruct (bi tbl lv cs up f0 x) as [fx|] eqn:Ex; [|discriminate].
    cbn [flat_map]. rewrite <- app_assoc.
    destruct (build_item tbl lv cs x up f0 s0 (flat_map ev_of xs ++ rest) fx Hwx Hs0 Hc0 Hcs0 (Hdk x (or_introl eq_refl)) Ex) as (E1 & C1 & T1 & A1).
    rewrite E1.
    destruct (IHk up fx (with_top s0 fx up) rest f1 Hwxs) as (E2 & C2 & T2 & A2); try assumption; try reflexivity.
    { intros y Hy Hyy. rewrite T1. exact (Hdk y (or_intror Hy) Hyy). }
    rewrite E2. split; [reflexivity|]. split; [exact C2|]. split; [rewrite T2; exact T1|rewrite A2; exact A1].
Qed.

(* a whole document: header, the root element with its forest, end *)
Theorem build_doc lid t a kids f' : forallb iwf kids = true -> (not_data t = true \/ forallb is_ielt kids = true) ->
  bis tbl lv cs [] (mk_frame t a [] None) kids = Some f' ->
  build tbl lv (EvStartDoc cs lid :: (EvStartElt t a :: flat_map ev_of kids ++ [EvEndElt t]) ++ [EvEndDoc])
  = BOk (mk_wtree lid cs (Some (TElt t a (f_done f')))).
Proof.
  intros Hw Hd Hb. unfold build. rewrite build_from_eq. cbn [app]. rewrite build_from_eq. unfold cb_start_element. cbn [b_stack b_root st_init bnext b_lang b_charset].
  rewrite <- app_assoc.
  destruct (build_items kids [] (mk_frame t a [] None) (mk_bstate lid cs [mk_frame t a [] None] None) ([EvEndElt t] ++ [EvEndDoc]) f' Hw) as (E1 & C1 & T1 & A1);
    try reflexivity; try assumption.
  { intros x Hin Hx. cbn [f_tag]. destruct Hd as [H|H]; [exact H|]. rewrite forallb_forall in H. rewrite (H x Hin) in Hx. discriminate. }
  rewrite E1. rewrite build_from_app, build_from_end. unfold cb_end_element, with_top. cbn [b_stack]. rewrite C1.
  rewrite build_from_enddoc. unfold tree_of_state. cbn [b_lang b_charset b_stack view hd_error].
  unfold frame_node, frame_children, cdata_nodes. rewrite C1, T1, A1. cbn [f_tag f_attrs app]. rewrite app_nil_r. reflexivity.
Qed.
End Doc.

(* the embedded-document outcome in terms of wbxml_tree_from_wbxml on the payload (language not forced, the outer charset as meta) *)
Lemma chars_node_embedded tbl lv' cs b tr : tree_from_wbxml tbl 0 cs lv' b = BOk tr ->
  chars_node tbl (S lv') cs D_WBXML b = Some [TSub (wt_lang tr) (wt_charset tr) (wt_root tr)].
Proof.
  unfold tree_from_wbxml, build, chars_node. destruct (parse_with tbl 0 cs (S (length b)) b) as [evs'|pe|]; try discriminate.
  destruct (build_from tbl lv' evs' st_init) as [st'|be|]; try discriminate. intros H; injection H as <-. reflexivity.
Qed.
