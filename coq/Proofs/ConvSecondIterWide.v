(* C03 (second iteration, WIDE fragment) — attributes, literal tags, namespaces per code page together: what an XML parser
   in namespace mode delivers for the XML the second conversion wrote (compact / canonical generation) is
   XmlFrontEvents.doc_events of the tree R2 (Proofs/XmlFrontInverse.v: the front end inverts it for canonical trees,
   root_canon), and the second pass XML -> WBXML -> XML on it (wide fragment of the WBXML encoder,
   Proofs/ConvRoundTripWide.v) writes the same XML again. *)
From Coq Require Import String Ascii.
From Coq Require Import List NArith ZArith Lia Bool.
From Wbxml Require Import Model.Codec Model.TablesDefs Model.Tables Model.Parser Model.TreeBuild Model.TreeConv Model.Conv Model.ConvConcrete
     Proofs.TreeBuildProofs Proofs.TreeBuildProofs3 Proofs.TreeRoundTrip Proofs.TreeRoundTripWide Proofs.ConvRoundTrip
     Proofs.ConvRoundTripWide Proofs.ConvWideUnforced Proofs.ConvSecondIter Proofs.ConvSecondNs.
From Wbxml Require Model.EncWbxml Model.TreeNorm Proofs.TreeNormProofs Proofs.EncWbxmlProofs Proofs.EncWbxmlAbs Proofs.EncWbxmlDenote2
     Proofs.EncWbxmlTblOk Proofs.EncWbxmlDenote3.
From Wbxml Require Model.EncXml Model.XmlRead Proofs.EncXmlProofs Proofs.EncXmlIndent.
From Wbxml Require Model.XmlFront Model.XmlFrontEvents Model.ConvXml2Wbxml Proofs.FrontSimple Proofs.XmlFrontInverse.
Import ListNotations.
Local Open Scope N_scope.

Module XE := Wbxml.Model.XmlFrontEvents.
Module XV := Wbxml.Proofs.XmlFrontInverse.

(* ---- (i) the infoset of the generated XML: elements with attributes and namespace declarations, texts ---- *)
Section InfoW.
Variables (TBL : list lang) (L : lang) (xo : X.opts).
Let xl := X.xlang_of L.
Hypothesis Hcompact : X.is_indent xo = false.
Hypothesis Hsyn : X.is_syncml xl = false.

Fixpoint item_ofW (parent : X.pinfo) (T : tnode) : list XR.xitem :=
  match T with
  | TElt tag a ch =>
    let nmx := to_tname L tag in
    [XR.XE (X.tname_bytes nmx) (XP.spec_attrs xl xo parent nmx (map to_attr a)) (flat_map (item_ofW (X.pinfo_below parent nmx)) ch)]
  | TText c => [XR.XT c]
  | _ => []
  end.
Definition items_forW (parent : X.pinfo) (T : tnode) : list XR.xitem :=
  match T with
  | TElt _ _ _ => XR.XT [] :: item_ofW parent T ++ [XR.XT []]
  | _ => item_ofW parent T
  end.

(* non-binary rows, texts the generator leaves alone, no adjacent texts; any attributes *)
Fixpoint tgoodW (T : tnode) : Prop :=
  match T with
  | TElt tag _ ch =>
    X.tag_is_binary (XP.cur_of (to_tname L tag)) = false /\ no_adj ch = true /\
    (fix all (l : list tnode) : Prop := match l with [] => True | x :: r => tgoodW x /\ all r end) ch
  | TText c => gen_stable xo c
  | _ => False
  end.

Lemma info_list_compactW parent' (ch : list tnode) :
  Forall (fun T => forall s, X.e_in_cdata s = false -> X.tag_is_binary (X.text_tag s parent') = false ->
                   exists s', XI.info_g xl xo parent' s (to_xnode TBL L T) = Some (items_forW parent' T, s') /\ X.e_in_cdata s' = false) ch ->
  forall s, X.e_in_cdata s = false -> X.tag_is_binary (X.text_tag s parent') = false -> X.tag_is_binary (X.p_tag parent') = false ->
  exists s', XI.info_list_g (XI.info_g xl xo parent') (map (to_xnode TBL L) ch) s = Some (flat_map (items_forW parent') ch, s') /\ X.e_in_cdata s' = false.
Proof.
  induction 1 as [|T r HT _ IH]; intros s Hcd Hb Hpb; cbn [map flat_map XI.info_list_g].
  - exists s. split; [reflexivity|exact Hcd].
  - destruct (HT s Hcd Hb) as (s1 & -> & Hcd1).
    assert (Hcd1' : X.e_in_cdata (X.reset_cur s1) = false) by exact Hcd1.
    assert (Hb1 : X.tag_is_binary (X.text_tag (X.reset_cur s1) parent') = false) by (unfold X.text_tag, X.reset_cur; cbn [X.e_cur_tag]; exact Hpb).
    destruct (IH (X.reset_cur s1) Hcd1' Hb1 Hpb) as (s2 & -> & Hcd2). exists s2. split; [reflexivity|exact Hcd2].
Qed.

Lemma merge_itemsW pp (l : list tnode) : no_adj l = true ->
  (fix all (l : list tnode) : Prop := match l with [] => True | x :: r => tgoodW x /\ all r end) l ->
  XP.merge_items (XR.XT [] :: flat_map (items_forW pp) l ++ [XR.XT []]) = flat_map (item_ofW pp) l.
Proof.
  intros Hna Hall.
  assert (G : forall l acc, no_adj l = true ->
                (fix all (l : list tnode) : Prop := match l with [] => True | x :: r => tgoodW x /\ all r end) l ->
                (match l, acc with TText _ :: _, XR.XT _ :: _ => False | _, _ => True end) ->
                fold_left XP.push_item (flat_map (items_forW pp) l) acc = rev (flat_map (item_ofW pp) l) ++ acc).
  { clear. induction l as [|x r IHr]; intros acc Hn Ha Hacc; [reflexivity|]. destruct Ha as [Hx Hr].
    cbn [no_adj] in Hn. apply andb_prop in Hn. destruct Hn as [Hn1 Hn2]. apply negb_true_iff in Hn1.
    cbn [flat_map]. rewrite fold_left_app.
    destruct x as [tg a0 ch0|c|ch0|lid cs0 root0]; cbn [tgoodW] in Hx; try contradiction.
    - cbn [items_forW item_ofW app fold_left XP.push_item XR.push_text].
      rewrite IHr; [|exact Hn2|exact Hr|destruct r as [|[]]; exact I].
      cbn [rev]. rewrite <- app_assoc. reflexivity.
    - destruct Hx as (Hne & _). cbn [items_forW item_ofW fold_left XP.push_item].
      assert (Hp : XR.push_text c acc = XR.XT c :: acc).
      { unfold XR.push_text. destruct c as [|b0 br]; [congruence|]. destruct acc as [|[] ?]; try reflexivity. contradiction. }
      rewrite Hp. rewrite IHr; [|exact Hn2|exact Hr|].
      + cbn [app rev]. rewrite <- app_assoc. reflexivity.
      + destruct r as [|y r']; [exact I|]. cbn [is_text andb] in Hn1. destruct y; try exact I. discriminate. }
  unfold XP.merge_items. cbn [fold_left XP.push_item XR.push_text]. rewrite fold_left_app. cbn [fold_left XP.push_item XR.push_text].
  rewrite (G l [] Hna Hall); [|destruct l as [|[]]; exact I]. rewrite app_nil_r, rev_involutive. reflexivity.
Qed.

Lemma info_compactW : forall T, tgoodW T -> forall parent s, X.e_in_cdata s = false -> X.tag_is_binary (X.text_tag s parent) = false ->
  exists s', XI.info_g xl xo parent s (to_xnode TBL L T) = Some (items_forW parent T, s') /\ X.e_in_cdata s' = false.
Proof.
  fix IH 1. intros T HT parent s Hcd Hb. destruct T as [tag a ch|c|ch|lid cs root]; cbn [tgoodW] in HT; try contradiction.
  - destruct HT as (Hnb & Hna & Hall).
    cbn [to_xnode]. set (nm := to_tname L tag) in *. set (ax := map to_attr a).
    assert (Hw0 : XI.w0 xo s = []) by (unfold XI.w0; rewrite Hcompact; reflexivity).
    assert (Hnl : X.nl_if xo = []) by (unfold X.nl_if; rewrite Hcompact; reflexivity).
    assert (HF : Forall (fun T => forall s, X.e_in_cdata s = false -> X.tag_is_binary (X.text_tag s (X.pinfo_below parent nm)) = false ->
                     exists s', XI.info_g xl xo (X.pinfo_below parent nm) s (to_xnode TBL L T) = Some (items_forW (X.pinfo_below parent nm) T, s') /\ X.e_in_cdata s' = false) ch).
    { clear Hna. induction ch as [|x r IHr]; constructor; destruct Hall as [Hx1 Hx2].
      - intros s0 H0 H1. apply IH; [exact Hx1|exact H0|exact H1].
      - apply IHr. exact Hx2. }
    destruct ch as [|c0 cr].
    + cbn [map XI.info_g]. rewrite Hw0, Hnl. eexists. split; [reflexivity|exact Hcd].
    + assert (Hhc : XI.hc xo (map (to_xnode TBL L) (c0 :: cr)) = false) by (unfold XI.hc; rewrite Hcompact; reflexivity).
      assert (Hsin : XI.s_in xo (map (to_xnode TBL L) (c0 :: cr)) nm s = XP.set_cur (XP.cur_of nm) s) by (unfold XI.s_in; rewrite Hhc; reflexivity).
      assert (Hpb : X.tag_is_binary (X.p_tag (X.pinfo_below parent nm)) = false).
      { unfold X.pinfo_below. destruct nm as [r|l0]; cbn [X.p_tag]; [exact Hnb|reflexivity]. }
      assert (Hb0 : X.tag_is_binary (X.text_tag (XP.set_cur (XP.cur_of nm) s) (X.pinfo_below parent nm)) = false).
      { unfold X.text_tag, XP.set_cur. cbn [X.e_cur_tag]. destruct (XP.cur_of nm) as [r|] eqn:Ec; [exact Hnb|exact Hpb]. }
      destruct (info_list_compactW (X.pinfo_below parent nm) (c0 :: cr) HF (XP.set_cur (XP.cur_of nm) s) Hcd Hb0 Hpb) as (s4 & Hl & Hcd4).
      change (XI.info_g xl xo parent s (X.Elt nm ax (map (to_xnode TBL L) (c0 :: cr))))
        with (match XI.info_list_g (XI.info_g xl xo (X.pinfo_below parent nm)) (map (to_xnode TBL L) (c0 :: cr)) (XI.s_in xo (map (to_xnode TBL L) (c0 :: cr)) nm s) with
              | Some (its, s4) => Some ([XR.XT (XI.w0 xo s);
                     XR.XE (X.tname_bytes nm) (XP.spec_attrs xl xo parent nm ax) (XP.merge_items (XR.XT (XI.w1 xo (map (to_xnode TBL L) (c0 :: cr))) :: its ++ [XR.XT (XI.w2 xo (map (to_xnode TBL L) (c0 :: cr)) s4)]));
                     XR.XT (X.nl_if xo)], XI.s_out xo (map (to_xnode TBL L) (c0 :: cr)) s4)
              | None => None end).
      rewrite Hsin, Hl. unfold XI.w1, XI.w2. rewrite Hhc, Hw0, Hnl.
      exists (XI.s_out xo (map (to_xnode TBL L) (c0 :: cr)) s4). split; [|unfold XI.s_out; cbn [X.e_in_cdata]; exact Hcd4].
      rewrite (merge_itemsW (X.pinfo_below parent nm) (c0 :: cr) Hna Hall). reflexivity.
  - cbn [to_xnode XI.info_g items_forW item_ofW]. pose proof (text_infoN L xo Hsyn parent s c HT Hcd Hb) as Ht. fold xl in Ht. rewrite Ht. eexists. split; [reflexivity|exact Hcd].
Qed.
End InfoW.

(* the encoder-side tree in the builder's type: tags without option bits, attributes by attr_event (none when the language
   has no attribute table) *)
Fixpoint tnodeW (wa : bool) (n : E.node) : tnode :=
  match n with
  | E.NElt tag attrs ch => TElt (TK.tag_event tag) (if wa then map D2.attr_event attrs else []) (map (tnodeW wa) ch)
  | E.NText c => TText c
  | _ => TCData []
  end.

(* ---- (ii) the events of that infoset (events_of_info_ns: the assumption about Expat in namespace mode) are the events
   XmlFrontEvents.ev_node lists for the tree ---- *)
Lemma find_none {A} (f : A -> bool) l : forallb (fun x => negb (f x)) l = true -> find f l = None.
Proof. induction l as [|x r IH]; [reflexivity|]. cbn [forallb find]. intros H. apply andb_prop in H. destruct H as [H1 H2]. apply negb_true_iff in H1. rewrite H1. exact (IH H2). Qed.
Lemma filter_all {A} (g : A -> bool) l : forallb g l = true -> filter g l = l.
Proof. induction l as [|x r IH]; [reflexivity|]. cbn [forallb filter]. intros H. apply andb_prop in H. destruct H as [H1 H2]. rewrite H1, (IH H2). reflexivity. Qed.

Lemma get_xmlns_bridge rows p :
  X.get_xmlns (map X.nsrow_of rows) p = option_map X.bs (option_map ns_name (find (fun r => ns_page r =? p) rows)).
Proof.
  induction rows as [|r rs IH]; [reflexivity|]. cbn [map X.get_xmlns find X.nsrow_of X.nr_page X.nr_name].
  destruct (ns_page r =? p); [reflexivity|exact IH].
Qed.

Section LinkW.
Variables (L : lang) (xo : X.opts) (wa : bool).
Let xl := X.xlang_of L.

Definition attrs_part (a : list (attrname * bytes)) : list (E.bytes * E.bytes) :=
  if X.xl_has_attrs xl then map (fun a => (X.aname_bytes (X.at_name a), XP.spec_attr_value xo a)) (map to_attr a) else [].

(* the attributes as generated and read back are the attributes as the front end will be told; none is called xmlns *)
Definition attrs_link (attrs : list E.attr) : Prop :=
  attrs_part (if wa then map D2.attr_event attrs else []) = map XE.ev_attr attrs /\
  forallb (fun kv => negb (is_xmlns kv)) (map XE.ev_attr attrs) = true.

(* an element: not binary-flagged; its name as generated is its name as reported: without namespace table the tag's XML
   name; with one, the tag is a row of the table under its own code page and the code page has a namespace *)
Definition elt_ok (tag : E.tagname) (attrs : list E.attr) : Prop :=
  XE.tag_binary tag = false /\ attrs_link attrs /\
  match X.xl_ns xl with
  | None => X.tname_bytes (to_tname L (TK.tag_event tag)) = E.tag_xml_name tag
  | Some nst => exists p t o nm r ns, tag = E.TagTok p t o nm /\ to_tname L (TagTok p t nm) = X.TTok r /\
                                     X.tr_page r = p /\ X.tr_name r = nm /\ X.get_xmlns nst p = Some ns
  end.

Fixpoint wok (n : E.node) : Prop :=
  match n with
  | E.NElt tag attrs ch =>
    elt_ok tag attrs /\ (fix all (l : list E.node) : Prop := match l with [] => True | x :: r => wok x /\ all r end) ch
  | E.NText _ => True
  | _ => False
  end.

(* the namespace in scope (as the XML parser tracks it) is the namespace of the enclosing element's code page *)
Definition cur_ok (parent : X.pinfo) (cur : option E.bytes) : Prop :=
  match X.xl_ns xl with
  | None => cur = None
  | Some nst => forall pg, X.p_page parent = Some pg -> cur = X.get_xmlns nst pg
  end.

Lemma spec_attrs_split parent nmx a : XP.spec_attrs xl xo parent nmx (map to_attr a) = XP.spec_ns xl parent nmx ++ attrs_part a.
Proof. reflexivity. Qed.

Lemma elt_event parent cur tag attrs : elt_ok tag attrs -> cur_ok parent cur ->
  let nmx := to_tname L (TK.tag_event tag) in
  let its := XP.spec_attrs xl xo parent nmx (map to_attr (if wa then map D2.attr_event attrs else [])) in
  let ns := match find is_xmlns its with Some kv => Some (snd kv) | None => cur end in
  match ns with Some v => v ++ [XF.SEP] ++ X.tname_bytes nmx | None => X.tname_bytes nmx end = XE.ev_name L tag /\
  filter (fun kv => negb (is_xmlns kv)) its = map XE.ev_attr attrs /\
  cur_ok (X.pinfo_below parent nmx) ns.
Proof.
  intros (Hb & (Ha & Hx) & Hn) Hc. cbv zeta. rewrite spec_attrs_split, Ha.
  unfold cur_ok in *. unfold XP.spec_ns.
  destruct (X.xl_ns xl) as [nst|] eqn:Ens.
  - destruct Hn as (p & t & o & nm & r & ns & -> & Hr & Hpg & Hnm & Hns). cbn [TK.tag_event]. rewrite Hr.
    cbn [X.tname_bytes]. rewrite Hnm. unfold X.ns_wanted. rewrite Hpg, Hns.
    assert (Hev : XE.ev_name L (E.TagTok p t o nm) = ns ++ [XF.SEP] ++ nm).
    { unfold xl, X.xlang_of in Ens. cbn [X.xl_ns] in Ens. destruct (l_ns L) as [rows|] eqn:El; [|discriminate].
      injection Ens as <-. rewrite get_xmlns_bridge in Hns. unfold XE.ev_name, xmlns_of_page. rewrite El.
      destruct (option_map ns_name (find (fun r0 => ns_page r0 =? p) rows)) as [s|]; [|discriminate].
      cbn [option_map] in Hns. injection Hns as <-. reflexivity. }
    assert (Hchild : forall pg, X.p_page (X.pinfo_below parent (X.TTok r)) = Some pg -> Some ns = X.get_xmlns nst pg).
    { intros pg Hp. cbn [X.pinfo_below X.p_page] in Hp. injection Hp as <-. rewrite Hpg, Hns. reflexivity. }
    destruct (X.p_page parent) as [pg|] eqn:Epp.
    + destruct (pg =? p) eqn:Eq; cbn [negb].
      * apply N.eqb_eq in Eq. subst pg. cbn [app]. rewrite (find_none _ _ Hx), (filter_all _ _ Hx), (Hc p eq_refl), Hns.
        split; [symmetry; exact Hev|]. split; [reflexivity|exact Hchild].
      * cbn [app find filter is_xmlns fst snd]. change (bytes_eqb XP.s_xmlns_name XP.s_xmlns_name) with true. cbn [negb].
        rewrite (filter_all _ _ Hx). split; [symmetry; exact Hev|]. split; [reflexivity|exact Hchild].
    + cbn [app find filter is_xmlns fst snd]. change (bytes_eqb XP.s_xmlns_name XP.s_xmlns_name) with true. cbn [negb].
      rewrite (filter_all _ _ Hx). split; [symmetry; exact Hev|]. split; [reflexivity|exact Hchild].
  - cbn [app]. rewrite (find_none _ _ Hx), (filter_all _ _ Hx), Hc, Hn.
    split; [|split; reflexivity]. symmetry. apply XV.ev_name_no_ns.
    unfold xl, X.xlang_of in Ens. cbn [X.xl_ns] in Ens. destruct (l_ns L); [discriminate|reflexivity].
Qed.

Lemma ev_items_nodes_W : forall n parent cur, wok n -> cur_ok parent cur ->
  flat_map (ev_item_ns cur) (item_ofW L xo parent (tnodeW wa n)) = XE.ev_node L false n.
Proof.
  fix IH 1. intros n parent cur Hn Hcur. destruct n as [tg a ch|c|ch| |lid roots]; cbn [wok] in Hn; try contradiction.
  - destruct Hn as [He Hall]. destruct (elt_event parent cur tg a He Hcur) as (Hq & Hf & Hc). cbv zeta in Hq, Hf, Hc.
    destruct He as (Hb & _).
    cbn [tnodeW item_ofW flat_map ev_item_ns XE.ev_node]. rewrite app_nil_r. fold xl.
    rewrite Hq, Hf, Hb. f_equal. f_equal.
    revert Hc. generalize (match find is_xmlns (XP.spec_attrs xl xo parent (to_tname L (TK.tag_event tg)) (map to_attr (if wa then map D2.attr_event a else []))) with
                           | Some kv => Some (snd kv) | None => cur end) as cur'.
    intros cur' Hc. clear Hq Hf.
    induction ch as [|x rr IHr]; [reflexivity|]. destruct Hall as [Hx Hrr]. cbn [map flat_map]. rewrite flat_map_app.
    rewrite (IH x _ cur' Hx Hc), (IHr Hrr). reflexivity.
  - reflexivity.
Qed.
End LinkW.

(* ---- (iii) a tree that is already normalised is a fixed point of normalisation + conversion (any tags, any attributes) ---- *)
Fixpoint enormalW (keep : bool) (n : E.node) : Prop :=
  match n with
  | E.NElt _ _ ch =>
    FS.no_adj ch = true /\ (fix all (l : list E.node) : Prop := match l with [] => True | x :: r => enormalW keep x /\ all r end) ch
  | E.NText c => cstr c = c /\ c <> [] /\ (keep = true \/ (E.only_ws c = false /\ E.strip_blanks c = c))
  | _ => False
  end.

Lemma no_adj_mapW wa ch : FS.no_adj ch = true -> no_adj (map (tnodeW wa) ch) = true.
Proof.
  induction ch as [|x r IH]; [reflexivity|]. cbn [FS.no_adj map no_adj]. intros H. apply andb_prop in H. destruct H as [H1 H2].
  rewrite (IH H2), andb_true_r.
  assert (Hx : is_text (tnodeW wa x) = FS.is_text x) by (destruct x; reflexivity).
  destruct r as [|y r']; cbn [map]; [rewrite Hx; exact H1|].
  assert (Hy : is_text (tnodeW wa y) = FS.is_text y) by (destruct y; reflexivity).
  rewrite Hx, Hy. exact H1.
Qed.

Lemma normal_fixW wa keep : forall n, enormalW keep n -> flat_map (tnw wa) (TreeNorm.norm_node keep false n) = [tnodeW wa n].
Proof.
  fix IH 1. intros n Hn. destruct n as [tg a ch|c|ch| |lid roots]; cbn [enormalW] in Hn; try contradiction.
  - destruct Hn as [Hna Hall].
    cbn [TreeNorm.norm_node flat_map tnw tnodeW app]. f_equal. f_equal.
    assert (Hc : flat_map (tnw wa) (flat_map (TreeNorm.norm_node keep false) ch) = map (tnodeW wa) ch).
    { clear Hna. induction ch as [|x r IHr]; [reflexivity|]. destruct Hall as [Hx Hr]. cbn [flat_map map]. rewrite flat_map_app, (IH x Hx), (IHr Hr). reflexivity. }
    rewrite Hc. apply merge_text_id. apply no_adj_mapW. exact Hna.
  - destruct Hn as (Hcs & Hne & Hk). cbn [TreeNorm.norm_node tnodeW]. unfold TreeNorm.norm_text.
    assert (Ht : flat_map (tnw wa) [E.NText c] = [TText c]).
    { cbn [flat_map tnw app]. rewrite Hcs. destruct c; [congruence|reflexivity]. }
    destruct Hk as [Hk | [Hw Hs]]; [rewrite Hk; exact Ht|]. destruct (keep || false); [exact Ht|]. rewrite Hw, Hs. exact Ht.
Qed.

(* ---- (iv) the second iteration ---- *)
Section SecondW.
Variables (main TBL : list lang) (btbl : list E.blang) (sub : E.bytes -> XF.xtree + N).

Theorem second_iteration_wide (L : lang) o o' tag attrs ch2 x w2 :
  let e := E.enc_env (D2.to_blang L) o in
  let wa := E.has_attr_table e in
  let R2 := E.NElt tag attrs ch2 in
  let root' := tnodeW wa R2 in
  let xl := X.xlang_of L in
  let xo := X.opts_of_params (gen_of (wo_gen o')) (wo_indent o') (wo_keep_ws o') in
  let nmx := to_tname L (TK.tag_event tag) in
  let ax := map to_attr (if wa then map D2.attr_event attrs else []) in
  (* x is the XML of the first round trip: the generator's text for root' *)
  X.enc_xml_opts xl xo [to_xnode TBL L root'] = X.XOk x ->
  XP.lang_ok xl = true -> XI.node_ok_g xl xo X.proot None (to_xnode TBL L root') = true ->
  (* compact or canonical generation, not SyncML *)
  X.is_indent xo = false -> X.is_syncml xl = false ->
  (* the tree: non-binary rows, texts the generator leaves alone; names, namespaces and attributes come back as written;
     the front end's canonical form; the DOCTYPE the generator writes selects the language *)
  tgoodW L xo root' -> wok L xo wa R2 -> XE.root_canon L XV.no_emb R2 = true ->
  LangSelect.search_table main (option_map XF.str (X.xl_pub xl)) (Some (XF.str (X.xl_dtd xl))) None = Some L ->
  (* R2 is already normalised *)
  enormalW (E.o_keep_ws o) R2 ->
  (* the wide fragment of the WBXML encoder, for R2; the second encoding succeeds with w2 *)
  E.find_lang btbl (l_id L) = Some (D2.to_blang L) ->
  Proofs.EncWbxmlAbs.plain_env e = true -> D2.vals_ok L = true -> l_exts L = None ->
  TK.tree_ok3 L 0 R2 = true ->
  find (fun y => l_id y =? l_id L) TBL = Some L ->
  lang_choiceW TBL L e (wo_lang o') -> wo_charset o' = 0 ->
  E.o_version o < 4 -> E.header_public_id e < 4294967296 -> E.header_public_id e <> 0 ->
  (match Proofs.EncWbxmlAbs.header_pid e with Some p => D2.okb p = true | None => True end) ->
  no_data (D3.doc_events3 L e (E.o_keep_ws o) R2) = true ->
  E.enc_wbxml btbl (D2.to_blang L) o [R2] = E.EOk w2 -> E.len w2 < 4294967296 ->
  exists c d,
    d = XP.doc_of xl [XR.XE (X.tname_bytes nmx) (XP.spec_attrs xl xo X.proot nmx ax) c] /\
    (forall fuel, (XP.node_fuel (to_xnode TBL L root') + 2 <= fuel)%nat -> XR.read_xml fuel x = XR.ROk d) /\
    events_of_info_ns d = XV.doc_events L (X.xl_root xl) (Some (X.xl_dtd xl)) (X.xl_pub xl) R2 /\
    forall doc2, doc2 <> [] ->
      XF.tree_from_xml main sub doc2 (events_of_info_ns d) true = inl (XF.mk_xtree (l_id L) 0 [R2]) /\
      r_out (ConvXml2Wbxml.xml2wbxml_events main btbl sub (events_of_info_ns d) true o doc2) = Some w2 /\
      wbxml2xml_model TBL o' w2 = mk_res ST_OK (Some (x ++ [0])) (N.of_nat (length x)).
Proof.
  intros e wa R2 root' xl xo nmx ax Hx Hlok Hok Hcomp Hsyn Htg Hwok Hcan Hst Hen Hfl HP HV HX HT HFind Hch Hcs Hv Hp1 Hp0 Hpid Hnd He Hlen.
  assert (Hroot : to_xnode TBL L root' = X.Elt nmx ax (map (to_xnode TBL L) (map (tnodeW wa) ch2))) by reflexivity.
  rewrite Hroot in Hx, Hok.
  destruct (XI.read_enc_g xl xo _ _ _ x Hlok Hok Hx) as (c & s' & Hinfo & Hread).
  assert (Hb0 : X.tag_is_binary (X.text_tag (X.est0 0) X.proot) = false) by reflexivity.
  destruct (info_compactW TBL L xo Hcomp Hsyn root' Htg X.proot (X.est0 0) eq_refl Hb0) as (s2 & Hi2 & _).
  rewrite Hroot in Hi2. fold xl in Hi2. rewrite Hi2 in Hinfo.
  assert (Hc : c = flat_map (item_ofW L xo (X.pinfo_below X.proot nmx)) (map (tnodeW wa) ch2)).
  { cbn [items_forW item_ofW tnodeW root' R2 app] in Hinfo. fold nmx in Hinfo. injection Hinfo as Hc _. symmetry. exact Hc. }
  exists c, (XP.doc_of xl [XR.XE (X.tname_bytes nmx) (XP.spec_attrs xl xo X.proot nmx ax) c]).
  split; [reflexivity|]. split; [rewrite Hroot; exact Hread|].
  assert (Hev : events_of_info_ns (XP.doc_of xl [XR.XE (X.tname_bytes nmx) (XP.spec_attrs xl xo X.proot nmx ax) c])
                = XV.doc_events L (X.xl_root xl) (Some (X.xl_dtd xl)) (X.xl_pub xl) R2).
  { unfold events_of_info_ns, XV.doc_events, XP.doc_of. cbn [XR.d_root_name XR.d_system XR.d_public XR.d_items]. f_equal.
    rewrite <- (ev_items_nodes_W L xo wa R2 X.proot None Hwok).
    - subst c. reflexivity.
    - unfold cur_ok. destruct (X.xl_ns (X.xlang_of L)); [intros pg Hpg; discriminate|reflexivity]. }
  split; [exact Hev|]. intros doc2 Hd2. rewrite Hev.
  pose proof (XV.front_inverts_doc main sub doc2 L XV.no_emb (XV.no_emb_ok main sub doc2 L) (X.xl_root xl) (Some (X.xl_dtd xl)) (X.xl_pub xl) R2 Hd2 Hst Hcan) as Hfront.
  split; [exact Hfront|].
  assert (Hout : r_out (ConvXml2Wbxml.xml2wbxml_events main btbl sub (XV.doc_events L (X.xl_root xl) (Some (X.xl_dtd xl)) (X.xl_pub xl) R2) true o doc2) = Some w2).
  { unfold ConvXml2Wbxml.xml2wbxml_events, conv_run. destruct doc2 as [|d0 dr]; [congruence|]. cbv beta. rewrite Hfront.
    unfold ConvXml2Wbxml.encode_tree. cbn [XF.xt_lang XF.xt_roots]. rewrite Hfl. fold R2 in He. rewrite He. reflexivity. }
  split; [exact Hout|].
  destruct (conversion_roundtrip_wide_choice main TBL btbl sub _ true o doc2 w2 L tag attrs ch2 o' Hout Hlen) as (x2 & Hm2 & Hx2 & _); try assumption.
  { intros t0 Ht0. fold R2 in Ht0. rewrite Hfront in Ht0. injection Ht0 as <-. cbn [XF.xt_lang XF.xt_roots]. split; [exact Hfl|reflexivity]. }
  cbv zeta in Hx2. fold e in Hx2. fold wa in Hx2.
  pose proof (normal_fixW wa (E.o_keep_ws o) R2 Hen) as Hfix. cbn [TreeNorm.norm_node flat_map tnw tnodeW app R2] in Hfix. injection Hfix as Hfix.
  rewrite Hfix in Hx2. fold xl in Hx2. fold xo in Hx2.
  change (TElt (TK.tag_event tag) (if wa then map D2.attr_event attrs else []) (map (tnodeW wa) ch2)) with root' in Hx2.
  rewrite <- Hroot in Hx.
  assert (Hxx : X.XOk x = X.XOk x2) by (transitivity (X.enc_xml_opts xl xo [to_xnode TBL L root']); [symmetry; exact Hx|exact Hx2]).
  injection Hxx as <-. exact Hm2.
Qed.
End SecondW.
