(* C06 — the abstract WBXML document the encoder writes, for EVERY language and node kind (grammar level): the
   abstraction follows ALL branches of wbxml_encode_value_element_buffer (SI / EMN %Datetime attributes, the OTA icon,
   Wireless-Village integers / dates / extension tokens, DRMREL key values, the SyncML             if content && is_syncml (e_lang e) && in_type then
              if (lid =? LANG_SYNCML12) && strcaseeq buffer (* "application/vnd.syncml.dmtnds+xml" *) [97; 112; 112; 108; 105; 99; 97; 116; 105; 111; 110; 47; 118; 110; 100; 46; 115; 121; 110; 99; 109; 108; 46; 100; 109; 116; 110; 100; 115; 43; 120; 109; 108]
              then (* "application/vnd.syncml.dmtnds+wbxml" *) [97; 112; 112; 108; 105; 99; 97; 116; 105; 111; 110; 47; 118; 110; 100; 46; 115; 121; 110; 99; 109; 108; 46; 100; 109; 116; 110; 100; 115; 43; 119; 98; 120; 109; 108]
              else if strcaseeq buffer (* "application/vnd.syncml-devinf+xml" *) [97; 112; 112; 108; 105; 99; 97; 116; 105; 111; 110; 47; 118; 110; 100; 46; 115; 121; 110; 99; 109; 108; 45; 100; 101; 118; 105; 110; 102; 43; 120; 109; 108]
              then (* "application/vnd.syncml-devinf+wbxml" *) [97; 112; 112; 108; 105; 99; 97; 116; 105; 111; 110; 47; 118; 110; 100; 46; 115; 121; 110; 99; 109; 108; 45; 100; 101; 118; 105; 110; 102; 43; 119; 98; 120; 109; 108]
              else buffer
            else buffer rewrite, and the generic
   splitting), binary-flagged elements (OPAQUE), CDATA sections (one OPAQUE with the collected text) and embedded trees
   (one OPAQUE holding the embedded document).  It mirrors the encoder's dynamic tests (current_tag, the CDATA flag), so
   no invariant is needed: whenever the encoder succeeds the abstraction is defined, ends in the same state, and - when
   the output is shorter than 2^32 octets, so that no OPAQUE length wraps - the bytes are the serialization of the items. *)
From Coq Require Import List NArith Lia Bool.
From Wbxml Require Import Base.Bits Model.Codec Model.EncWbxml Proofs.EncWbxmlProofs Proofs.EncWbxmlAbs Proofs.EncWbxmlStrict2 Proofs.EncWbxmlAbs4.
From Wbxml Require Model.Parser Model.Spec.
Import ListNotations.
Local Open Scope N_scope.
Local Arguments N.add : simpl never.

(* ---- the parts of enc_value, named ------------------------------------------------------------------------------------------ *)
Definition special_attr_of (e : env) (st : est) (is_attr : bool) (cur_attr : option (N * N)) (node_attrs : list attr) (buffer : bytes)
  : option (eres bytes) :=
  let lid := bl_id (e_lang e) in
  if is_attr then
    if lid =? LANG_SI10 then
      match cur_attr with
      | Some (0, t) => if (t =? 10) || (t =? 16) then Some (enc_datetime buffer) else None
      | _ => None
      end
    else if lid =? LANG_EMN10 then
      match cur_attr with
      | Some (0, 5) => Some (enc_datetime buffer)
      | _ => None
      end
    else if lid =? LANG_OTA_SETTINGS then
      match cur_attr with
      | None => Some (EErr E_INTERNAL)
      | Some (0, 17) => match enc_ota_icon st node_attrs buffer with
                        | Some b => Some (EOk b) | None => None end
      | Some _ => None
      end
    else None
  else None.

Definition special_content_of (e : env) (st : est) (is_attr : bool) (parent : option tagname) (buffer : bytes) : option (eres bytes) :=
  let lid := bl_id (e_lang e) in
  let content := negb is_attr && negb (in_cdata st) in
  if content && is_wv (e_lang e) then enc_wv_content e st buffer
  else if content && (lid =? LANG_DRMREL10) then
    match enc_drmrel_content parent buffer with Some b => Some (EOk b) | None => None end
  else None.

Definition the_buffer_of (e : env) (st : est) (is_attr : bool) (parent : option tagname) (buffer : bytes) : bytes :=
  let lid := bl_id (e_lang e) in
  let content := negb is_attr && negb (in_cdata st) in
  let in_type := match parent with Some (TagTok 1 19 _ _) => true | _ => false end in
            if content && is_syncml (e_lang e) && in_type then
              if (lid =? LANG_SYNCML12) && strcaseeq buffer (* "application/vnd.syncml.dmtnds+xml" *) [97; 112; 112; 108; 105; 99; 97; 116; 105; 111; 110; 47; 118; 110; 100; 46; 115; 121; 110; 99; 109; 108; 46; 100; 109; 116; 110; 100; 115; 43; 120; 109; 108]
              then (* "application/vnd.syncml.dmtnds+wbxml" *) [97; 112; 112; 108; 105; 99; 97; 116; 105; 111; 110; 47; 118; 110; 100; 46; 115; 121; 110; 99; 109; 108; 46; 100; 109; 116; 110; 100; 115; 43; 119; 98; 120; 109; 108]
              else if strcaseeq buffer (* "application/vnd.syncml-devinf+xml" *) [97; 112; 112; 108; 105; 99; 97; 116; 105; 111; 110; 47; 118; 110; 100; 46; 115; 121; 110; 99; 109; 108; 45; 100; 101; 118; 105; 110; 102; 43; 120; 109; 108]
              then (* "application/vnd.syncml-devinf+wbxml" *) [97; 112; 112; 108; 105; 99; 97; 116; 105; 111; 110; 47; 118; 110; 100; 46; 115; 121; 110; 99; 109; 108; 45; 100; 101; 118; 105; 110; 102; 43; 119; 98; 120; 109; 108]
              else buffer
            else buffer.

Lemma enc_value_unfold e st ia ca na par buf :
  enc_value e st ia ca na par buf =
  match buf with
  | [] => EOk ([], st)
  | _ =>
    match special_attr_of e st ia ca na buf with
    | Some (EErr c) => EErr c
    | Some (EOk b) => EOk (b, st)
    | None =>
      match special_content_of e st ia par buf with
      | Some (EErr c) => EErr c
      | Some (EOk b) => EOk (b, st)
      | None =>
        match split_value e st ia (the_buffer_of e st ia par buf) with
        | None => EErr E_OUT_OF_FUEL
        | Some l => EOk (enc_velts st l)
        end
      end
    end
  end.
Proof. destruct buf; reflexivity. Qed.

(* ---- abstraction of the typed branches ------------------------------------------------------------------------------------------ *)
Definition wopq (d : bytes) : list S.wval := [S.WValStr (S.WOpaque d)].

(* payloads *)
Definition dt_payload (buffer : bytes) : option bytes :=
  match datetime_digits buffer with
  | None => None
  | Some d => Some (remove_trailing_zeros (hex_to_bin d))
  end.

Definition wv_int_payload (buffer : bytes) : bytes :=
  let the_int := match buffer with
                 | _ :: x :: _ => if (x =? 120) || (x =? 88) then strtol16_32 buffer else atol32 buffer
                 | _ => atol32 buffer
                 end in
  int_octets 4 the_int [].

Definition wv_dt_opaque_payload (buffer : bytes) : option bytes :=
  match enc_wv_datetime_opaque buffer with
  | EOk b => Some (skipn 2 b)
  | EErr _ => None
  end.

Lemma enc_datetime_payload buffer : enc_datetime buffer = match dt_payload buffer with Some d => EOk (enc_opaque d) | None => EErr E_BAD_DATETIME end.
Proof. unfold enc_datetime, dt_payload. destruct (datetime_digits buffer); reflexivity. Qed.

Lemma enc_wv_integer_payload buffer : enc_wv_integer buffer = enc_opaque (wv_int_payload buffer).
Proof. reflexivity. Qed.

Lemma enc_wv_datetime_opaque_payload buffer b : enc_wv_datetime_opaque buffer = EOk b -> b = enc_opaque (skipn 2 b) /\ len (skipn 2 b) = 6.
Proof.
  unfold enc_wv_datetime_opaque. cbv zeta.
  repeat match goal with |- context [if ?c then EErr _ else _] => destruct c; [discriminate|] end.
  intros E; injection E as <-. split; reflexivity.
Qed.

(* typed attribute values: Some None = the encoder fails, Some (Some w) = typed, None = not typed *)
Definition abs_special_attr (e : env) (st : est) (is_attr : bool) (cur_attr : option (N * N)) (node_attrs : list attr) (buffer : bytes)
  : option (option (list S.wval)) :=
  let lid := bl_id (e_lang e) in
  if is_attr then
    if lid =? LANG_SI10 then
      match cur_attr with
      | Some (0, t) => if (t =? 10) || (t =? 16) then Some (option_map wopq (dt_payload buffer)) else None
      | _ => None
      end
    else if lid =? LANG_EMN10 then
      match cur_attr with
      | Some (0, 5) => Some (option_map wopq (dt_payload buffer))
      | _ => None
      end
    else if lid =? LANG_OTA_SETTINGS then
      match cur_attr with
      | None => Some None
      | Some (0, 17) => match enc_ota_icon st node_attrs buffer with
                        | Some _ => Some (Some (wopq (b64_raw buffer))) | None => None end
      | Some _ => None
      end
    else None
  else None.

Definition abs_wv_content (e : env) (st : est) (buffer : bytes) : option (option (list S.wval)) :=
  let dt := match cur_tag st with Some (p, t, _) => wv_data_type p t | None => 0 end in
  if dt =? 2 then Some (Some (wopq (wv_int_payload buffer)))
  else if dt =? 3 then
    let has c := existsb (fun x => x =? c) buffer in
    if has 45 || has 43 || has 58 || (last buffer 0 =? 90)
    then Some (Some [S.WValStr (S.WStrI buffer)])
    else Some (option_map wopq (wv_dt_opaque_payload buffer))
  else match get_ext_from_xml (e_lang e) buffer with
       | Some r => Some (Some [S.WValStr (S.WExt None (S.ExtT 0 (u8 (be_tok r))))])
       | None => None
       end.

Definition abs_special_content (e : env) (st : est) (is_attr : bool) (parent : option tagname) (buffer : bytes)
  : option (option (list S.wval)) :=
  let lid := bl_id (e_lang e) in
  let content := negb is_attr && negb (in_cdata st) in
  if content && is_wv (e_lang e) then abs_wv_content e st buffer
  else if content && (lid =? LANG_DRMREL10) then
    match parent with
    | Some (TagTok 0 12 _ _) => Some (Some (wopq (b64_raw buffer)))
    | _ => None
    end
  else None.

Definition abs_value5 (e : env) (st : est) (ia : bool) (ca : option (N * N)) (na : list attr) (par : option tagname) (buf : bytes)
  : option (list S.wval * est) :=
  match buf with
  | [] => Some ([], st)
  | _ =>
    match abs_special_attr e st ia ca na buf with
    | Some None => None
    | Some (Some w) => Some (w, st)
    | None =>
      match abs_special_content e st ia par buf with
      | Some None => None
      | Some (Some w) => Some (w, st)
      | None =>
        match split_value e st ia (the_buffer_of e st ia par buf) with
        | None => None
        | Some l => Some (abs_velts st l)
        end
      end
    end
  end.

(* serialization of a typed value, when no length wraps *)
Lemma len_enc_opaque d : len d <= len (enc_opaque d).
Proof. unfold enc_opaque. rewrite !len_app. lia. Qed.

Lemma ser_wopq d : len (enc_opaque d) < 4294967296 -> enc_opaque d = flat_map S.ser_val (wopq d).
Proof.
  intros H. pose proof (len_enc_opaque d). unfold enc_opaque, wopq. cbn [flat_map S.ser_val S.ser_str app]. rewrite app_nil_r.
  unfold u32. rewrite N.mod_small by lia. reflexivity.
Qed.

(* the relation between one encoder result and its abstraction *)
Definition typed_rel (r : option (eres bytes)) (a : option (option (list S.wval))) : Prop :=
  match r, a with
  | None, None => True
  | Some (EErr _), Some None => True
  | Some (EOk b), Some (Some w) => len b < 4294967296 -> b = flat_map S.ser_val w
  | _, _ => False
  end.

Lemma special_attr_rel e st ia ca na buf : typed_rel (special_attr_of e st ia ca na buf) (abs_special_attr e st ia ca na buf).
Proof.
  unfold special_attr_of, abs_special_attr. cbv zeta.
  assert (DT : typed_rel (Some (enc_datetime buf)) (Some (option_map wopq (dt_payload buf)))).
  { rewrite enc_datetime_payload. destruct (dt_payload buf) as [d|]; cbn [typed_rel option_map]; [apply ser_wopq|exact I]. }
  destruct ia; [|exact I].
  destruct (bl_id (e_lang e) =? LANG_SI10).
  - destruct ca as [[p t]|]; [|exact I]. destruct p; [|exact I]. destruct ((t =? 10) || (t =? 16)); [exact DT|exact I].
  - destruct (bl_id (e_lang e) =? LANG_EMN10).
    + destruct ca as [[p t]|]; [|exact I]. destruct p; [|exact I].
      destruct t as [|t]; [exact I|]. destruct t as [t|t|]; try exact I. destruct t as [t|t|]; try exact I. destruct t; try exact I. exact DT.
    + destruct (bl_id (e_lang e) =? LANG_OTA_SETTINGS); [|exact I].
      destruct ca as [[p t]|]; [|exact I]. destruct p; [|exact I].
      assert (ICON : typed_rel (match enc_ota_icon st na buf with Some b => Some (EOk b) | None => None end)
                               (match enc_ota_icon st na buf with Some _ => Some (Some (wopq (b64_raw buf))) | None => None end)).
      { unfold enc_ota_icon. destruct (cur_tag st); [|exact I]. destruct (existsb _ na); [|exact I]. cbn [typed_rel]. apply ser_wopq. }
      destruct t as [|t]; [exact I|].
      repeat (destruct t as [t|t|]; try exact I). exact ICON.
Qed.

Lemma wv_content_rel e st buf : typed_rel (enc_wv_content e st buf) (abs_wv_content e st buf).
Proof.
  unfold enc_wv_content, abs_wv_content. cbv zeta.
  destruct ((match cur_tag st with Some (p, t, _) => wv_data_type p t | None => 0 end) =? 2).
  - cbn [typed_rel]. rewrite enc_wv_integer_payload. apply ser_wopq.
  - destruct ((match cur_tag st with Some (p, t, _) => wv_data_type p t | None => 0 end) =? 3).
    + unfold enc_wv_datetime. cbv zeta.
      destruct (existsb (fun x => x =? 45) buf || existsb (fun x => x =? 43) buf || existsb (fun x => x =? 58) buf || (last buf 0 =? 90)).
      * cbn [typed_rel]. intros _. unfold enc_inline_string. cbn [flat_map S.ser_val S.ser_str app]. now rewrite app_nil_r.
      * unfold wv_dt_opaque_payload. destruct (enc_wv_datetime_opaque buf) as [b|c] eqn:E; cbn [typed_rel option_map]; [|exact I].
        destruct (enc_wv_datetime_opaque_payload buf b E) as [Hb _]. intros Hl. rewrite Hb at 1. apply ser_wopq. now rewrite <- Hb.
    + destruct (get_ext_from_xml (e_lang e) buf) as [r|]; [|exact I]. cbn [typed_rel]. intros _.
      unfold enc_ext_t0. cbn [flat_map S.ser_val S.ser_str S.ser_sw S.ser_ext app]. rewrite app_nil_r. reflexivity.
Qed.

Lemma special_content_rel e st ia par buf : typed_rel (special_content_of e st ia par buf) (abs_special_content e st ia par buf).
Proof.
  unfold special_content_of, abs_special_content. cbv zeta.
  destruct (negb ia && negb (in_cdata st) && is_wv (e_lang e)); [apply wv_content_rel|].
  destruct (negb ia && negb (in_cdata st) && (bl_id (e_lang e) =? LANG_DRMREL10)); [|exact I].
  unfold enc_drmrel_content. destruct par as [[p t o nm|nm]|]; try exact I.
  destruct p; [|exact I]. destruct t as [|t]; [exact I|].
  repeat (destruct t as [t|t|]; try exact I). cbn [typed_rel]. apply ser_wopq.
Qed.

Lemma enc_value_abs5 e st ia ca na par buf b st' :
  enc_value e st ia ca na par buf = EOk (b, st') ->
  exists w, abs_value5 e st ia ca na par buf = Some (w, st') /\ (len b < 4294967296 -> b = flat_map S.ser_val w).
Proof.
  rewrite enc_value_unfold. unfold abs_value5. destruct buf as [|c0 buf].
  - intros E; injection E as <- <-. now exists [].
  - pose proof (special_attr_rel e st ia ca na (c0 :: buf)) as RA.
    destruct (special_attr_of e st ia ca na (c0 :: buf)) as [[b0|c]|]; destruct (abs_special_attr e st ia ca na (c0 :: buf)) as [[w0|]|];
      cbn [typed_rel] in RA; try contradiction; try discriminate.
    + intros E; injection E as <- <-. exists w0. auto.
    + pose proof (special_content_rel e st ia par (c0 :: buf)) as RC.
      destruct (special_content_of e st ia par (c0 :: buf)) as [[b0|c]|]; destruct (abs_special_content e st ia par (c0 :: buf)) as [[w0|]|];
        cbn [typed_rel] in RC; try contradiction; try discriminate.
      * intros E; injection E as <- <-. exists w0. auto.
      * destruct (split_value e st ia _) as [l|]; [|discriminate].
        rewrite enc_velts_abs. intros E; injection E as <- <-.
        exists (fst (abs_velts st l)). split; [now destruct (abs_velts st l)|auto].
Qed.

(* ---- attributes ----------------------------------------------------------------------------------------------------------------------- *)
Definition start_cur_attr (start : S.wastart) (st1 : est) : option (N * N) :=
  match start with S.AStartTok _ t => Some (attrcp st1, t) | S.AStartLit _ => None end.

Definition abs_attr5 (e : env) (st : est) (na : list attr) (a : attr) : option (S.wattr * est) :=
  match abs_attr_start e st a with
  | None => None
  | Some (start, None, st1) => Some (S.mk_wattr start [], st1)
  | Some (start, Some v, st1) =>
    match abs_value5 e st1 true (start_cur_attr start st1) na None v with
    | Some (w, st2) => Some (S.mk_wattr start w, st2)
    | None => None
    end
  end.

Fixpoint abs_attrs5 (e : env) (st : est) (na : list attr) (l : list attr) : option (list S.wattr * est) :=
  match l with
  | [] => Some ([], st)
  | a :: r =>
    match abs_attr5 e st na a with
    | Some (w, st1) => match abs_attrs5 e st1 na r with Some (ws, st2) => Some (w :: ws, st2) | None => None end
    | None => None
    end
  end.

Lemma attr_token_cp st t p : attrcp (snd (enc_attr_token st t p)) = p.
Proof. unfold enc_attr_token. destruct (attrcp st =? p) eqn:E; cbn; [now apply N.eqb_eq in E|reflexivity]. Qed.

Lemma len_app_l (a b : bytes) : len (a ++ b) < 4294967296 -> len a < 4294967296 /\ len b < 4294967296.
Proof. rewrite len_app. lia. Qed.

Lemma enc_attr_abs5 e st na a b st' :
  enc_attr e st na a = EOk (b, st') ->
  exists w, abs_attr5 e st na a = Some (w, st') /\ (len b < 4294967296 -> b = S.ser_attr w).
Proof.
  unfold enc_attr, abs_attr5, abs_attr_start. cbv zeta.
  assert (TAIL : forall start b1 st1 vl ca,
             b1 = S.ser_astart start -> ca = start_cur_attr start st1 ->
             match vl with
             | None => EOk (b1, st1)
             | Some v => match enc_value e st1 true ca na None v with EOk (b2, st2) => EOk (b1 ++ b2, st2) | EErr c => EErr c end
             end = EOk (b, st') ->
             exists w, match vl with
                       | None => Some (S.mk_wattr start [], st1)
                       | Some v => match abs_value5 e st1 true (start_cur_attr start st1) na None v with Some (w, st2) => Some (S.mk_wattr start w, st2) | None => None end
                       end = Some (w, st') /\ (len b < 4294967296 -> b = S.ser_attr w)).
  { intros start b1 st1 vl ca Hb1 ->. destruct vl as [v|].
    - destruct (enc_value e st1 true _ na None v) as [[b2 st2]|c] eqn:EV; [|discriminate]. intros E; injection E as <- <-.
      destruct (enc_value_abs5 e st1 true _ na None v b2 st2 EV) as (w & Ew & Hw). rewrite Ew.
      eexists. split; [reflexivity|]. intros Hl. apply len_app_l in Hl as [_ Hl2].
      unfold S.ser_attr. cbn [S.wa_start S.wa_vals]. now rewrite Hb1, (Hw Hl2).
    - intros E; injection E as <- <-. eexists. split; [reflexivity|]. intros _. unfold S.ser_attr. cbn. now rewrite Hb1, app_nil_r. }
  destruct (at_name a) as [page tk nm oval|nm].
  - destruct oval as [xv|].
    + destruct (is_prefix xv (cstr (at_value a))).
      * destruct (enc_attr_token st tk page) as [bt stt] eqn:ET.
        pose proof (enc_attr_token_bytes st tk page) as HB. pose proof (attr_token_cp st tk page) as HC. rewrite ET in HB, HC. cbn [fst snd] in *.
        apply TAIL; [exact HB|cbn [start_cur_attr]; now rewrite HC].
      * destruct (enc_literal e st nm 0) as [[bl stl]|c] eqn:EL; [|discriminate].
        destruct (enc_literal_attr e st nm bl stl EL) as (HU & idx & tbl' & tlen' & A & -> & ->).
        rewrite HU, A. exact (TAIL (S.AStartLit idx) (4 :: mb_write idx) (set_strtbl st tbl' tlen') (Some (cstr (at_value a))) None eq_refl eq_refl).
    + destruct (enc_attr_token st tk page) as [bt stt] eqn:ET.
      pose proof (enc_attr_token_bytes st tk page) as HB. pose proof (attr_token_cp st tk page) as HC. rewrite ET in HB, HC. cbn [fst snd] in *.
      apply (TAIL (S.AStartTok (if attrcp st =? page then None else Some page) tk) bt stt (Some (cstr (at_value a))) (Some (page, tk)) HB).
      cbn [start_cur_attr]. now rewrite HC.
  - destruct (get_attr_from_xml (e_lang e) nm (cstr (at_value a))) as [[r lft]|].
    + destruct (enc_attr_token st (ba_tok r) (ba_page r)) as [bt stt] eqn:ET.
      pose proof (enc_attr_token_bytes st (ba_tok r) (ba_page r)) as HB. pose proof (attr_token_cp st (ba_tok r) (ba_page r)) as HC.
      rewrite ET in HB, HC. cbn [fst snd] in *.
      apply TAIL; [exact HB|cbn [start_cur_attr]; now rewrite HC].
    + destruct (enc_literal e st nm 0) as [[bl stl]|c] eqn:EL; [|discriminate].
      destruct (enc_literal_attr e st nm bl stl EL) as (HU & idx & tbl' & tlen' & A & -> & ->).
      rewrite HU, A. exact (TAIL (S.AStartLit idx) (4 :: mb_write idx) (set_strtbl st tbl' tlen') (Some (cstr (at_value a))) None eq_refl eq_refl).
Qed.

Lemma enc_attrs_abs5 e na l : forall st b st',
  enc_attrs e st na l = EOk (b, st') ->
  exists ws, abs_attrs5 e st na l = Some (ws, st') /\ (len b < 4294967296 -> b = flat_map S.ser_attr ws) /\ List.length ws = List.length l.
Proof.
  induction l as [|a r IH]; intros st b st'; cbn [enc_attrs abs_attrs5].
  - intros E; injection E as <- <-. now exists [].
  - destruct (enc_attr e st na a) as [[b1 st1]|c] eqn:EA; [|discriminate].
    destruct (enc_attrs e st1 na r) as [[b2 st2]|c] eqn:ER; [|discriminate]. intros E; injection E as <- <-.
    destruct (enc_attr_abs5 e st na a b1 st1 EA) as (w & Ew & Hw). rewrite Ew.
    destruct (IH st1 b2 st2 ER) as (ws & Ews & Hws & Hl). rewrite Ews.
    exists (w :: ws). split; [reflexivity|]. split; [|cbn [List.length]; auto].
    intros Hlen. apply len_app_l in Hlen as [H1 H2]. cbn [flat_map]. now rewrite (Hw H1), (Hws H2).
Qed.

(* ---- text ------------------------------------------------------------------------------------------------------------------------------ *)
Definition is_strv (v : S.wval) : bool := match v with S.WValStr _ => true | S.WValTok _ _ => false end.

Lemma items_of_ser w : forallb is_strv w = true -> flat_map S.ser_item (items_of w) = flat_map S.ser_val w.
Proof.
  unfold items_of. induction w as [|v r IH]; [reflexivity|]. cbn [forallb flat_map]. intros H. apply andb_true_iff in H as [Hv Hr].
  rewrite flat_map_app, (IH Hr). destruct v; [discriminate|]. cbn [flat_map S.ser_item S.ser_val app]. now rewrite app_nil_r.
Qed.

Lemma abs_velts_strs l : forall st, forallb notattr l = true -> forallb is_strv (fst (abs_velts st l)) = true.
Proof.
  induction l as [|v r IH]; intros st H; cbn [abs_velts]; [reflexivity|].
  cbn [forallb] in H. apply andb_true_iff in H as [Hv Hr].
  destruct v as [s|t|p t|off]; try discriminate;
    (specialize (IH st Hr); destruct (abs_velts st r) as [w' st2]; cbn [fst] in *; rewrite forallb_app, IH, andb_true_r).
  - destruct (0 <? len s); reflexivity.
  - reflexivity.
  - reflexivity.
Qed.

Lemma abs_value5_content_strs e st ca na par buf w st' : abs_value5 e st false ca na par buf = Some (w, st') -> forallb is_strv w = true.
Proof.
  unfold abs_value5. destruct buf as [|c0 buf]; [intros E; now injection E as <- _|].
  unfold abs_special_attr. cbv zeta.
  destruct (abs_special_content e st false par (c0 :: buf)) as [[w0|]|] eqn:SC; try discriminate.
  - intros E; injection E as <- _. unfold abs_special_content in SC. cbv zeta in SC.
    destruct (negb false && negb (in_cdata st) && is_wv (e_lang e)).
    + unfold abs_wv_content in SC. cbv zeta in SC.
      destruct (_ =? 2); [injection SC as <-; reflexivity|]. destruct (_ =? 3).
      * destruct (_ || _); [injection SC as <-; reflexivity|]. destruct (wv_dt_opaque_payload _); [injection SC as <-; reflexivity|discriminate].
      * destruct (get_ext_from_xml _ _); [injection SC as <-; reflexivity|discriminate].
    + destruct (negb false && negb (in_cdata st) && (bl_id (e_lang e) =? LANG_DRMREL10)); [|discriminate].
      destruct par as [[p t o nm|nm]|]; try discriminate. destruct p; [|discriminate]. destruct t as [|t]; [discriminate|].
      repeat (destruct t as [t|t|]; try discriminate). injection SC as <-. reflexivity.
  - destruct (split_value e st false _) as [l|] eqn:SV; [|discriminate]. intros E.
    pose proof (abs_velts_strs l st (split_value_content_notattr e st _ l SV)) as H.
    destruct (abs_velts st l) as [w0 st0]. injection E as <- _. exact H.
Qed.

Definition abs_text5 (e : env) (st : est) (par : option tagname) (c : bytes) : option (list S.witem * est) :=
  if is_binary_tag st par then Some ([S.WItemStr (S.WOpaque c)], st)
  else if negb (in_cdata st) && e_ignore_empty e && only_ws c then Some ([], st)
  else
    let strip := negb (in_cdata st) && e_remove_blanks e in
    let content' := if strip then strip_blanks c else c in
    if in_cdata st then
      match cdata st with
      | None => None
      | Some d =>
        let c2 := if is_syncml (e_lang e) && beq content' [10] then [13; 10] else content' in
        Some ([], set_cdata st true (Some (d ++ c2)))
      end
    else match abs_value5 e st false None [] par (cstr content') with
         | Some (w, st') => Some (items_of w, st')
         | None => None
         end.

Lemma enc_text_abs5 e st par c b st' :
  enc_text e st par c = EOk (b, st') ->
  exists items, abs_text5 e st par c = Some (items, st') /\ (len b < 4294967296 -> b = flat_map S.ser_item items).
Proof.
  unfold enc_text, abs_text5. destruct (is_binary_tag st par).
  - intros E; injection E as <- <-. eexists. split; [reflexivity|]. intros Hl.
    cbn [flat_map S.ser_item S.ser_str app]. rewrite app_nil_r. pose proof (len_enc_opaque c).
    unfold enc_opaque. cbn [app]. unfold u32. rewrite N.mod_small by lia. reflexivity.
  - destruct (negb (in_cdata st) && e_ignore_empty e && only_ws c); [intros E; injection E as <- <-; now exists []|].
    cbv zeta. destruct (in_cdata st).
    + destruct (cdata st) as [d|]; [|discriminate]. intros E; injection E as <- <-. now exists [].
    + intros E. destruct (enc_value_abs5 e st false None [] par _ b st' E) as (w & Ew & Hw). rewrite Ew.
      exists (items_of w). split; [reflexivity|]. intros Hl.
      rewrite (items_of_ser w (abs_value5_content_strs _ _ _ _ _ _ _ _ Ew)). now apply Hw.
Qed.

(* ---- the tree, every node kind ------------------------------------------------------------------------------------------------------ *)
Fixpoint abs_node5 (tbl : list blang) (e : env) (par : option tagname) (n : node) (st : est) : option (list S.witem * est) :=
  match n with
  | NElt tag attrs ch =>
    match abs_tag e st tag (nonempty attrs) (nonempty ch) with
    | None => None
    | Some (sw, wtag, st1) =>
      match (if has_attr_table e then abs_attrs5 e st1 attrs attrs else Some ([], st1)) with
      | None => None
      | Some (wattrs, st2) =>
        match abs_seq (abs_node5 tbl e) (Some tag) ch st2 with
        | None => None
        | Some (items, st3) => Some ([S.WItemElt sw wtag wattrs (nonempty ch) items], set_cur_tag st3 None)
        end
      end
    end
  | NText c =>
    match abs_text5 e st par c with
    | Some (items, st1) => Some (items, set_cur_tag st1 None)
    | None => None
    end
  | NCData ch =>
    match cdata st with
    | Some _ => None
    | None =>
      match abs_seq (abs_node5 tbl e) None ch (set_cdata st true (Some [])) with
      | None => None
      | Some (items, st1) =>
        match cdata st1 with
        | None => None
        | Some d => Some (items ++ (if 0 <? len d then [S.WItemStr (S.WOpaque d)] else []),
                          set_cur_tag (set_cdata st1 false None) None)
        end
      end
    end
  | NPi => None
  | NTree lid roots =>
    (* the embedded document is, at this level, a byte array *)
    match find_lang tbl lid with
    | None => None
    | Some l' =>
      let e' := make_env l' (e_use_strtbl e) (e_ignore_empty e) (e_remove_blanks e) (e_version e) false in
      match parse_nodes tbl e' None roots (start_state e' roots) with
      | EOk (body, st') => Some ([S.WItemStr (S.WOpaque (fill_header e' st' ++ body))], set_cur_tag st None)
      | EErr _ => None
      end
    end
  end.

(* tags: tokens 5..63 (or 0 = literal); names found in the table carry the table's token *)
Definition tok_ok (t : N) : bool := (t =? 0) || ((5 <=? t) && (t <? 64)).
Definition tag_tbl_ok (e : env) : bool :=
  match bl_tags (e_lang e) with None => true | Some rows => forallb (fun r => tok_ok (bt_tok r)) rows end.

Fixpoint frag5_node (n : node) : bool :=
  match n with
  | NElt tag _ ch => (match tag with TagTok _ t _ _ => tok_ok t | TagLit _ => true end) && forallb frag5_node ch
  | NCData ch => forallb frag5_node ch
  | _ => true
  end.

Lemma tag_first_in cp nm rows : forall fc r, tag_first_loop cp nm fc rows = Some r -> In r rows.
Proof.
  induction rows as [|x rest IH]; intros fc r; cbn [tag_first_loop]; [discriminate|].
  destruct (bt_page x =? cp).
  - destruct (beq (rname_t x) nm); [intros E; injection E as <-; now left|]. intros H. right. exact (IH _ _ H).
  - destruct fc; [discriminate|]. intros H. right. exact (IH _ _ H).
Qed.
Lemma tag_second_in cp nm rows : forall r, tag_second_loop cp nm rows = Some r -> In r rows.
Proof.
  induction rows as [|x rest IH]; intros r; cbn [tag_second_loop]; [discriminate|].
  destruct (bt_page x =? cp); [intros H; right; exact (IH _ H)|].
  destruct (beq (rname_t x) nm); [intros E; injection E as <-; now left|]. intros H. right. exact (IH _ H).
Qed.

Lemma tag_triple_ok e st tag : tag_tbl_ok e = true -> match tag with TagTok _ t _ _ => tok_ok t = true | TagLit _ => True end ->
  (let t0 := fst (fst (tag_triple e st tag)) in (t0 =? 0) || ((5 <=? t0) && (t0 <? 64))) = true.
Proof.
  intros HT Htag. cbv zeta. destruct tag as [p t o nm|nm]; cbn [tag_triple fst]; [exact Htag|].
  destruct (get_tag_from_xml (e_lang e) (tagcp st) nm) as [r|] eqn:G; cbn [fst]; [|reflexivity].
  unfold get_tag_from_xml in G. unfold tag_tbl_ok in HT. destruct (bl_tags (e_lang e)) as [rows|]; [|discriminate].
  rewrite forallb_forall in HT. apply HT.
  destruct (tag_first_loop (tagcp st) nm false rows) as [r1|] eqn:F1.
  - injection G as <-. exact (tag_first_in _ _ _ _ _ F1).
  - exact (tag_second_in _ _ _ _ G).
Qed.

Definition walk5 tbl (e : env) (n : node) : Prop :=
  forall par st b st', frag5_node n = true -> parse_node tbl e par n st = EOk (b, st') ->
    exists items, abs_node5 tbl e par n st = Some (items, st') /\ (len b < 4294967296 -> b = flat_map S.ser_item items).

Lemma seq5 tbl e ns : Forall (walk5 tbl e) ns ->
  forall par st b st', forallb frag5_node ns = true -> seq_nodes (parse_node tbl) e par ns st = EOk (b, st') ->
    exists items, abs_seq (abs_node5 tbl e) par ns st = Some (items, st') /\ (len b < 4294967296 -> b = flat_map S.ser_item items).
Proof.
  induction 1 as [|x r Hx _ IH]; intros par st b st' HF; cbn [seq_nodes abs_seq].
  - intros E; injection E as <- <-. now exists [].
  - cbn [forallb] in HF. apply andb_true_iff in HF as [HF1 HF2].
    destruct (parse_node tbl e par x st) as [[b1 st1]|c] eqn:E1; [|discriminate].
    destruct (seq_nodes (parse_node tbl) e par r st1) as [[b2 st2]|c] eqn:E2; [|discriminate]. intros E; injection E as <- <-.
    destruct (Hx par st b1 st1 HF1 E1) as (i1 & A1 & H1). rewrite A1.
    destruct (IH par st1 b2 st2 HF2 E2) as (i2 & A2 & H2). rewrite A2.
    exists (i1 ++ i2). split; [reflexivity|]. intros Hl. apply len_app_l in Hl as [L1 L2]. now rewrite flat_map_app, (H1 L1), (H2 L2).
Qed.

Lemma node5 tbl e n : tag_tbl_ok e = true -> walk5 tbl e n.
Proof.
  intros HTB. induction n as [tag attrs ch IH|c|ch IH| |lid roots IH] using node_ind'; intros par st b st' HF.
  - cbn [frag5_node] in HF. apply andb_true_iff in HF as [Htag Hch]. cbn [parse_node abs_node5]. unfold enc_element_start. cbv zeta.
    fold (nonempty attrs). fold (nonempty ch).
    destruct (enc_tag e st tag (nonempty attrs) (nonempty ch)) as [[b1 st1]|c] eqn:ET; [|discriminate].
    assert (Hr : (let t0 := fst (fst (tag_triple e st tag)) in (t0 =? 0) || ((5 <=? t0) && (t0 <? 64))) = true).
    { apply tag_triple_ok; [exact HTB|]. destruct tag; [exact Htag|exact I]. }
    destruct (enc_tag_abs e st tag _ _ b1 st1 ET Hr) as (sw & wtag & AT & ->). rewrite AT.
    destruct (if has_attr_table e then enc_attrs e st1 attrs attrs else EOk ([], st1)) as [[b2 st2]|c] eqn:EA; [|discriminate].
    assert (HA : exists ws, (if has_attr_table e then abs_attrs5 e st1 attrs attrs else Some ([], st1)) = Some (ws, st2)
                            /\ (len b2 < 4294967296 -> b2 = flat_map S.ser_attr ws) /\ nonempty ws = nonempty attrs && has_attr_table e).
    { destruct (has_attr_table e).
      - destruct (enc_attrs_abs5 e attrs attrs st1 b2 st2 EA) as (ws & Ews & Hws & Hl). exists ws.
        split; [exact Ews|]. split; [exact Hws|].
        rewrite andb_true_r. destruct ws, attrs; cbn in *; try reflexivity; discriminate.
      - injection EA as <- <-. exists []. rewrite andb_false_r. auto. }
    destruct HA as (ws & Ews & Hws & Hne). rewrite Ews.
    destruct (seq_nodes (parse_node tbl) e (Some tag) ch st2) as [[b3 st3]|c] eqn:ES; [|discriminate].
    destruct (seq5 tbl e ch IH (Some tag) st2 b3 st3 Hch ES) as (items & AS & His). rewrite AS.
    intros E; injection E as <- <-.
    eexists. split; [reflexivity|]. intros Hlen.
    apply len_app_l in Hlen as [L1 L2]. apply len_app_l in L1 as [L1a L1b]. apply len_app_l in L1b as [L1b _]. apply len_app_l in L2 as [L2 _].
    rewrite (Hws L1b), (His L2).
    cbn [flat_map S.ser_item]. rewrite app_nil_r. unfold S.tag_bits. fold (nonempty ws). rewrite <- !app_assoc. f_equal.
    assert (TB : (match ws with [] => 0 | _ :: _ => 128 end) + (if nonempty ch then 64 else 0) = bits (nonempty attrs && has_attr_table e) (nonempty ch)).
    { unfold bits. rewrite <- Hne. destruct ws; reflexivity. }
    rewrite TB.
    assert (END : (if nonempty attrs && has_attr_table e then [1] else []) = match ws with [] => [] | _ :: _ => [1] end /\
                  (match ws with [] => [] | _ :: _ => flat_map S.ser_attr ws ++ [1] end) = flat_map S.ser_attr ws ++ match ws with [] => [] | _ :: _ => [1] end).
    { rewrite <- Hne. destruct ws; cbn; auto. }
    destruct END as [E1 E2]. rewrite E1, E2.
    f_equal. rewrite <- app_assoc. f_equal. f_equal.
    destruct ch as [|c0 ch0]; cbn [nonempty]; [|reflexivity].
    cbn [abs_seq] in AS. injection AS as <- _. reflexivity.
  - cbn [parse_node abs_node5]. destruct (enc_text e st par c) as [[b1 st1]|cc] eqn:ET; [|discriminate].
    intros E; injection E as <- <-.
    destruct (enc_text_abs5 e st par c b1 st1 ET) as (items & AT & Hi). rewrite AT. now exists items.
  - cbn [frag5_node] in HF. cbn [parse_node abs_node5]. destruct (cdata st); [discriminate|].
    destruct (seq_nodes (parse_node tbl) e None ch (set_cdata st true (Some []))) as [[b1 st1]|c] eqn:ES; [|discriminate].
    destruct (seq5 tbl e ch IH None _ b1 st1 HF ES) as (items & AS & His). rewrite AS.
    destruct (cdata st1) as [d|]; [|discriminate]. intros E; injection E as <- <-.
    eexists. split; [reflexivity|]. intros Hlen. apply len_app_l in Hlen as [L1 L2]. rewrite flat_map_app, (His L1). f_equal.
    destruct (0 <? len d); [|reflexivity].
    cbn [flat_map S.ser_item S.ser_str app]. rewrite app_nil_r. pose proof (len_enc_opaque d).
    unfold enc_opaque. cbn [app]. unfold u32. rewrite N.mod_small by lia. reflexivity.
  - cbn [parse_node]. discriminate.
  - cbn [parse_node abs_node5]. destruct (find_lang tbl lid) as [l'|]; [|discriminate]. cbv zeta. fold (parse_nodes tbl).
    destruct (parse_nodes tbl _ None roots _) as [[body st0]|c]; [|discriminate].
    intros E; injection E as <- <-. eexists. split; [reflexivity|]. intros Hlen.
    cbn [flat_map S.ser_item S.ser_str app]. rewrite app_nil_r. pose proof (len_enc_opaque (fill_header (make_env l' (e_use_strtbl e) (e_ignore_empty e) (e_remove_blanks e) (e_version e) false) st0 ++ body)).
    unfold enc_opaque. cbn [app]. unfold u32. rewrite N.mod_small by lia. reflexivity.
Qed.

(* ---- table facts ------------------------------------------------------------------------------------------------------------------------- *)
Lemma abs_value5_facts e st ia ca na par buf w st' : abs_value5 e st ia ca na par buf = Some (w, st') ->
  same_tbl st st' /\ forallb (sx_val (strtbl st)) w = true.
Proof.
  unfold abs_value5. destruct buf as [|c0 buf]; [intros E; injection E as <- <-; split; [apply same_tbl_refl|reflexivity]|].
  assert (TY : forall a : option (option (list S.wval)), (a = abs_special_attr e st ia ca na (c0 :: buf) \/ a = abs_special_content e st ia par (c0 :: buf)) ->
               forall w0, a = Some (Some w0) -> forallb (sx_val (strtbl st)) w0 = true).
  { intros a [->| ->] w0.
    - unfold abs_special_attr. cbv zeta. destruct ia; [|discriminate].
      destruct (bl_id (e_lang e) =? LANG_SI10).
      + destruct ca as [[p t]|]; [|discriminate]. destruct p; [|discriminate]. destruct ((t =? 10) || (t =? 16)); [|discriminate].
        destruct (dt_payload _); cbn [option_map]; intros E; [injection E as <-; reflexivity|discriminate].
      + destruct (bl_id (e_lang e) =? LANG_EMN10).
        * destruct ca as [[p t]|]; [|discriminate]. destruct p; [|discriminate]. destruct t as [|t]; [discriminate|].
          repeat (destruct t as [t|t|]; try discriminate).
          destruct (dt_payload _); cbn [option_map]; intros E; [injection E as <-; reflexivity|discriminate].
        * destruct (bl_id (e_lang e) =? LANG_OTA_SETTINGS); [|discriminate].
          destruct ca as [[p t]|]; [|discriminate]. destruct p; [|discriminate]. destruct t as [|t]; [discriminate|].
          repeat (destruct t as [t|t|]; try discriminate).
          destruct (enc_ota_icon st na _); [intros E; injection E as <-; reflexivity|discriminate].
    - unfold abs_special_content. cbv zeta.
      destruct (negb ia && negb (in_cdata st) && is_wv (e_lang e)).
      + unfold abs_wv_content. cbv zeta.
        destruct (_ =? 2); [intros E; injection E as <-; reflexivity|]. destruct (_ =? 3).
        * destruct (_ || _); [intros E; injection E as <-; reflexivity|].
          destruct (wv_dt_opaque_payload _); cbn [option_map]; intros E; [injection E as <-; reflexivity|discriminate].
        * destruct (get_ext_from_xml _ _); [intros E; injection E as <-; reflexivity|discriminate].
      + destruct (negb ia && negb (in_cdata st) && (bl_id (e_lang e) =? LANG_DRMREL10)); [|discriminate].
        destruct par as [[p t o nm|nm]|]; try discriminate. destruct p; [|discriminate]. destruct t as [|t]; [discriminate|].
        repeat (destruct t as [t|t|]; try discriminate). intros E; injection E as <-. reflexivity. }
  destruct (abs_special_attr e st ia ca na (c0 :: buf)) as [[w0|]|] eqn:SA; try discriminate.
  - intros E; injection E as <- <-. split; [apply same_tbl_refl|]. exact (TY _ (or_introl eq_refl) w0 eq_refl).
  - destruct (abs_special_content e st ia par (c0 :: buf)) as [[w0|]|] eqn:SC; try discriminate.
    + intros E; injection E as <- <-. split; [apply same_tbl_refl|]. exact (TY _ (or_intror eq_refl) w0 eq_refl).
    + destruct (split_value e st ia _) as [l|] eqn:SV; [|discriminate]. intros E.
      pose proof (abs_velts_same l st) as Hs. pose proof (abs_velts_sx (strtbl st) l st (split_value_vx _ _ _ _ _ SV)) as Hx.
      destruct (abs_velts st l) as [w0 st0]. injection E as <- <-. auto.
Qed.

Lemma abs_attr5_facts e st na a w st' : abs_attr5 e st na a = Some (w, st') ->
  (exists x, strtbl st' = strtbl st ++ x) /\ sx_attr (strtbl st') w = true /\ (e_use_strtbl e = false -> same_tbl st st').
Proof.
  unfold abs_attr5. destruct (abs_attr_start e st a) as [[[start vl] st1]|] eqn:AS; [|discriminate].
  assert (H1 : (exists x, strtbl st1 = strtbl st ++ x) /\ match start with S.AStartLit i => has_off (strtbl st1) i = true | _ => True end /\
               (e_use_strtbl e = false -> same_tbl st st1)).
  { unfold abs_attr_start in AS. cbv zeta in AS.
    assert (LT : forall nm vl0, (if e_use_strtbl e then
                  let '(idx, tbl', tlen') := strtbl_add (strtbl st) (strtbl_len st) (cstr nm) in
                  Some (S.AStartLit idx, vl0, set_strtbl st tbl' tlen') else None) = Some (start, vl, st1) ->
                (exists x, strtbl st1 = strtbl st ++ x) /\ match start with S.AStartLit i => has_off (strtbl st1) i = true | _ => True end /\
                (e_use_strtbl e = false -> same_tbl st st1)).
    { intros nm vl0. destruct (e_use_strtbl e); [|discriminate]. destruct (strtbl_add _ _ _) as [[idx t'] l'] eqn:A.
      intros E; injection E as <- <- <-. destruct (strtbl_add_has _ _ _ _ _ _ A). split; [assumption|]. split; [assumption|discriminate]. }
    assert (TK : forall t p, (exists x, strtbl (snd (enc_attr_token st t p)) = strtbl st ++ x) /\ True /\ (e_use_strtbl e = false -> same_tbl st (snd (enc_attr_token st t p))))
      by (intros t p; split; [apply same_ext2, attr_token_same_tbl|split; [exact I|intros _; apply attr_token_same_tbl]]).
    destruct (at_name a) as [page tk nm oval|nm].
    - destruct oval as [xv|].
      + destruct (is_prefix xv _); [injection AS as <- <- <-; apply TK|exact (LT _ _ AS)].
      + injection AS as <- <- <-; apply TK.
    - destruct (get_attr_from_xml _ _ _) as [[r lft]|]; [injection AS as <- <- <-; apply TK|exact (LT _ _ AS)]. }
  destruct H1 as ([x Hx] & Hs & Hsame). destruct vl as [v|].
  - destruct (abs_value5 e st1 true _ na None v) as [[w0 st2]|] eqn:AV; [|discriminate]. intros E; injection E as <- <-.
    destruct (abs_value5_facts _ _ _ _ _ _ _ _ _ AV) as [[S1 S2] Hw]. split; [exists x; congruence|]. split.
    + unfold sx_attr. cbn [S.wa_start S.wa_vals]. rewrite S1. apply andb_true_iff. split; [destruct start; auto|exact Hw].
    + intros HU. eapply same_tbl_trans; [exact (Hsame HU)|split; assumption].
  - intros E; injection E as <- <-. split; [exists x; exact Hx|]. split; [|exact Hsame]. unfold sx_attr. cbn. destruct start; auto. now rewrite Hs.
Qed.

Lemma abs_attrs5_facts e na l : forall st ws st', abs_attrs5 e st na l = Some (ws, st') ->
  (exists x, strtbl st' = strtbl st ++ x) /\ forallb (sx_attr (strtbl st')) ws = true /\ (e_use_strtbl e = false -> same_tbl st st').
Proof.
  induction l as [|a r IH]; intros st ws st'; cbn [abs_attrs5].
  - intros E; injection E as <- <-. split; [exists []; now rewrite app_nil_r|]. split; [reflexivity|intros _; apply same_tbl_refl].
  - destruct (abs_attr5 e st na a) as [[w st1]|] eqn:A; [|discriminate].
    destruct (abs_attrs5 e st1 na r) as [[ws' st2]|] eqn:R; [|discriminate]. intros E; injection E as <- <-.
    destruct (abs_attr5_facts _ _ _ _ _ _ A) as ([x Hx] & Hw & S1). destruct (IH _ _ _ R) as ([y Hy] & Hws & S2).
    split; [exists (x ++ y); now rewrite Hy, Hx, app_assoc|]. split.
    + cbn [forallb]. rewrite Hws, andb_true_r. rewrite Hy. now apply sx_attr_app.
    + intros HU. eapply same_tbl_trans; [exact (S1 HU)|exact (S2 HU)].
Qed.

Lemma abs_text5_facts e st par c items st' : abs_text5 e st par c = Some (items, st') ->
  same_tbl st st' /\ forallb (sx_item (strtbl st')) items = true.
Proof.
  unfold abs_text5. destruct (is_binary_tag st par); [intros E; injection E as <- <-; split; [apply same_tbl_refl|reflexivity]|].
  destruct (negb (in_cdata st) && e_ignore_empty e && only_ws c); [intros E; injection E as <- <-; split; [apply same_tbl_refl|reflexivity]|].
  cbv zeta. destruct (in_cdata st).
  - destruct (cdata st); [|discriminate]. intros E; injection E as <- <-. split; [split; reflexivity|reflexivity].
  - destruct (abs_value5 e st false None [] par _) as [[w st0]|] eqn:AV; [|discriminate]. intros E; injection E as <- <-.
    destruct (abs_value5_facts _ _ _ _ _ _ _ _ _ AV) as [Hs Hw]. split; [exact Hs|]. destruct Hs as [S1 _]. rewrite S1.
    unfold items_of. clear AV. induction w as [|v r IHw]; cbn [flat_map forallb]; [reflexivity|].
    cbn [forallb] in Hw. apply andb_true_iff in Hw as [Hv Hr]. rewrite forallb_app, (IHw Hr), andb_true_r.
    destruct v; cbn [forallb sx_item sx_val] in *; [reflexivity|now rewrite Hv].
Qed.

Lemma abs_node5_facts tbl e n : forall par st items st', abs_node5 tbl e par n st = Some (items, st') ->
  (exists x, strtbl st' = strtbl st ++ x) /\ forallb (sx_item (strtbl st')) items = true /\ (e_use_strtbl e = false -> same_tbl st st').
Proof.
  assert (SEQ : forall ch, Forall (fun n => forall par st items st', abs_node5 tbl e par n st = Some (items, st') ->
                      (exists x, strtbl st' = strtbl st ++ x) /\ forallb (sx_item (strtbl st')) items = true /\ (e_use_strtbl e = false -> same_tbl st st')) ch ->
                 forall par st its st', abs_seq (abs_node5 tbl e) par ch st = Some (its, st') ->
                 (exists z, strtbl st' = strtbl st ++ z) /\ forallb (sx_item (strtbl st')) its = true /\ (e_use_strtbl e = false -> same_tbl st st')).
  { intros ch IH par. induction IH as [|c0 r Hc _ IHr]; intros st2 its st3; cbn [abs_seq].
    - intros E; injection E as <- <-. split; [exists []; now rewrite app_nil_r|]. split; [reflexivity|intros _; apply same_tbl_refl].
    - destruct (abs_node5 tbl e par c0 st2) as [[a sa]|] eqn:A; [|discriminate].
      destruct (abs_seq (abs_node5 tbl e) par r sa) as [[b sb]|] eqn:B; [|discriminate]. intros E; injection E as <- <-.
      destruct (Hc _ _ _ _ A) as ([z1 Hz1] & Ha & S1). destruct (IHr _ _ _ B) as ([z2 Hz2] & Hb & S2).
      split; [exists (z1 ++ z2); now rewrite Hz2, Hz1, app_assoc|]. split.
      + rewrite forallb_app, Hb, andb_true_r. rewrite Hz2. eapply forallb_mono; [|exact Ha]. intros i. apply sx_item_app.
      + intros HU. eapply same_tbl_trans; [exact (S1 HU)|exact (S2 HU)]. }
  induction n as [tag attrs ch IH|c|ch IH| |lid roots IH] using node_ind'; intros par st items st'; cbn [abs_node5]; try discriminate.
  - destruct (abs_tag e st tag _ _) as [[[sw wtag] st1]|] eqn:AT; [|discriminate].
    destruct (if has_attr_table e then abs_attrs5 e st1 attrs attrs else Some ([], st1)) as [[ws st2]|] eqn:AA; [|discriminate].
    destruct (abs_seq (abs_node5 tbl e) (Some tag) ch st2) as [[its st3]|] eqn:AS; [|discriminate].
    intros E; injection E as <- <-.
    destruct (abs_tag_sx _ _ _ _ _ _ _ _ AT) as [[x Hx] Ht].
    assert (H12 : (exists y, strtbl st2 = strtbl st1 ++ y) /\ forallb (sx_attr (strtbl st2)) ws = true /\ (e_use_strtbl e = false -> same_tbl st1 st2)).
    { destruct (has_attr_table e); [exact (abs_attrs5_facts _ _ _ _ _ _ AA)|injection AA as <- <-; split; [exists []; now rewrite app_nil_r|split; [reflexivity|intros _; apply same_tbl_refl]]]. }
    destruct H12 as ([y Hy] & Hws & S12).
    destruct (SEQ ch IH _ _ _ _ AS) as ([z Hz] & Hits & S23).
    split; [exists (x ++ y ++ z); cbn; now rewrite Hz, Hy, Hx, !app_assoc|]. split.
    + cbn [forallb sx_item set_cur_tag strtbl]. rewrite andb_true_r, Hits, andb_true_r. apply andb_true_iff. split.
      * destruct wtag; auto. rewrite Hz, Hy. now apply has_off_app, has_off_app.
      * rewrite Hz. eapply forallb_mono; [|exact Hws]. intros a. apply sx_attr_app.
    + intros HU. pose proof (abs_tag_same _ _ _ _ _ _ _ _ HU AT) as H01.
      destruct H01, (S12 HU), (S23 HU). split; cbn; congruence.
  - destruct (abs_text5 e st par c) as [[its st1]|] eqn:AT; [|discriminate]. intros E; injection E as <- <-.
    destruct (abs_text5_facts _ _ _ _ _ _ AT) as [Hs Hi]. split; [apply same_ext2; destruct Hs; split; cbn; assumption|]. split; [exact Hi|].
    intros _. destruct Hs. split; cbn; assumption.
  - destruct (cdata st); [discriminate|].
    destruct (abs_seq (abs_node5 tbl e) None ch (set_cdata st true (Some []))) as [[its st1]|] eqn:AS; [|discriminate].
    destruct (cdata st1) as [d|]; [|discriminate]. intros E; injection E as <- <-.
    destruct (SEQ ch IH _ _ _ _ AS) as ([z Hz] & Hits & S1). cbn [strtbl set_cdata set_cur_tag] in *.
    split; [exists z; exact Hz|]. split.
    + rewrite forallb_app, Hits. destruct (0 <? len d); reflexivity.
    + intros HU. destruct (S1 HU) as [A B]. split; cbn in *; assumption.
  - destruct (find_lang tbl lid) as [l'|]; [|discriminate]. cbv zeta.
    destruct (parse_nodes tbl _ None roots _) as [[body st0]|c]; [|discriminate]. intros E; injection E as <- <-.
    split; [exists []; cbn; now rewrite app_nil_r|]. split; [reflexivity|]. intros _. split; reflexivity.
Qed.

(* ---- the document: FULL grammar-level statement ---------------------------------------------------------------------------------- *)
Theorem enc_wbxml_full tbl l o tag attrs ch bs :
  let e := enc_env l o in
  tag_tbl_ok e = true -> frag5_node (NElt tag attrs ch) = true ->
  enc_wbxml tbl l o [NElt tag attrs ch] = EOk bs -> len bs < 4294967296 ->
  exists body st' root,
    enc_body tbl l o [NElt tag attrs ch] = EOk (body, st') /\
    abs_node5 tbl e None (NElt tag attrs ch) (start_state e [NElt tag attrs ch]) = Some ([root], st') /\
    bs = S.serialize (abs_doc2 e st' root) /\ S.strict_doc (abs_doc2 e st' root) = true.
Proof.
  cbv zeta. intros HTB HF E Hlen. rewrite enc_wbxml_form_local in E. set (e := enc_env l o) in *.
  destruct (enc_body tbl l o [NElt tag attrs ch]) as [[body st1]|c] eqn:EB; [|discriminate]. injection E as <-.
  pose proof EB as EB'. unfold enc_body in EB'. cbv zeta in EB'. fold e in EB'. unfold parse_nodes in EB'. cbn [seq_nodes] in EB'.
  destruct (parse_node tbl e None (NElt tag attrs ch) (start_state e [NElt tag attrs ch])) as [[b1 st2]|c] eqn:E1; [|discriminate].
  injection EB' as <- <-.
  destruct (node5 tbl e (NElt tag attrs ch) HTB None _ b1 st2 HF E1) as (items & A & HB).
  apply len_app_l in Hlen as [LH LB]. rewrite app_nil_r in LB. specialize (HB LB).
  destruct (abs_node5_facts tbl e _ _ _ _ _ A) as (_ & Hsx & Hsame).
  assert (NOTBL : e_use_strtbl e = false -> strtbl st2 = [] /\ strtbl_len st2 = 0).
  { intros HU. destruct (Hsame HU) as [S1 S2]. unfold start_state in S1, S2. rewrite HU in S1, S2. cbn in S1, S2. auto. }
  pose proof (fill_header_len_local := I).
  assert (ROOT : exists root, items = [root]).
  { cbn [abs_node5] in A. destruct (abs_tag e _ tag _ _) as [[[sw wtag] s2]|]; [|discriminate].
    destruct (if has_attr_table e then abs_attrs5 e s2 attrs attrs else Some ([], s2)) as [[ws s3]|]; [|discriminate].
    destruct (abs_seq (abs_node5 tbl e) (Some tag) ch s3) as [[its s4]|]; [|discriminate]. injection A as <- _. now eexists. }
  destruct ROOT as [root ->]. cbn [forallb] in Hsx. rewrite andb_true_r in Hsx.
  (* sizes from the header written *)
  assert (SZ : (let '(_, t, _) := header_table e st2 in tbl_size t < 4294967296) /\
               (match header_pid e with Some p => len p + 1 < 4294967296 | None => True end)).
  { unfold header_table. unfold fill_header in LH. fold (header_pid e) in LH. unfold header_pid in *.
    destruct ((header_public_id e =? 1) && negb (e_anonymous e)); [destruct (bl_pub_text (e_lang e)) as [p|]|].
    - destruct (e_use_strtbl e) eqn:HU.
      + destruct (strtbl_add (strtbl st2) (strtbl_len st2) p) as [[idx t] tl] eqn:AD.
        rewrite !len_app, strtbl_construct_len in LH. split; [lia|].
        destruct (strtbl_add_has _ _ _ _ _ _ AD) as [_ Hh]. unfold strtbl_add in AD.
        destruct (find _ (strtbl st2)) as [e0|] eqn:F.
        * injection AD as <- <- <-. apply find_some in F as [Hin Heq]. apply andb_true_iff in Heq as [Heq _]. apply N.eqb_eq in Heq.
          assert (len (s_str e0) + 1 <= tbl_size (strtbl st2)).
          { clear -Hin. induction (strtbl st2) as [|y r IH]; [destruct Hin|]. cbn [tbl_size]. destruct Hin as [->|H]; [lia|]. specialize (IH H). lia. }
          lia.
        * injection AD as <- <- <-. rewrite tbl_size_app in LH. cbn [tbl_size s_str] in LH. lia.
      + destruct (NOTBL eq_refl) as [S1 _]. rewrite S1. cbn [tbl_size]. rewrite !len_app in LH. change (len [0]) with 1 in LH. split; lia.
    - destruct (e_use_strtbl e) eqn:HU; [rewrite !len_app, strtbl_construct_len in LH; split; [lia|exact I]|].
      destruct (NOTBL eq_refl) as [S1 _]. rewrite S1. cbn [tbl_size]. split; [lia|exact I].
    - destruct (e_use_strtbl e) eqn:HU; [rewrite !len_app, strtbl_construct_len in LH; split; [lia|exact I]|].
      destruct (NOTBL eq_refl) as [S1 _]. rewrite S1. cbn [tbl_size]. split; [lia|exact I]. }
  destruct SZ as [Hb Hp].
  pose proof (header_len_ok_gen tbl l o _ _ st2 EB NOTBL Hb Hp) as HL.
  pose proof (strict_doc_gen tbl l o _ _ st2 root EB Hsx NOTBL Hb) as Hstrict.
  exists (b1 ++ []), st2, root. split; [reflexivity|]. split; [exact A|]. split; [|exact Hstrict].
  rewrite (fill_header_ser e st2 root HL). unfold S.serialize. f_equal.
  assert (P : S.wd_pis_before (abs_doc2 e st2 root) = [] /\ S.wd_root (abs_doc2 e st2 root) = root /\ S.wd_pis_after (abs_doc2 e st2 root) = [])
    by (unfold abs_doc2; destruct (header_table e st2) as [[? ?] ?]; auto).
  destruct P as (P1 & P2 & P3). rewrite P1, P2, P3. cbn [flat_map app]. rewrite !app_nil_r. rewrite HB. cbn [flat_map]. now rewrite app_nil_r.
Qed.

From Wbxml Require Model.EncWbxmlTables.
Lemma all_tables_tag_ok o : forallb (fun l => tag_tbl_ok (enc_env l o)) Wbxml.Model.EncWbxmlTables.main_btable = true.
Proof. vm_compute. reflexivity. Qed.

(* ---- (d) embedded trees: the OPAQUE that stands for an embedded tree holds a document of its own ------------------------------ *)
(* the encoder of the embedded tree is the outer one with the embedded language, never anonymous *)
Definition embedded_opts (e : env) : options :=
  mk_opts (e_version e) (e_use_strtbl e) (negb (e_remove_blanks e)) false.

Theorem embedded_tree_is_document tbl e par lid l' tag attrs ch st items st' :
  e_ignore_empty e = e_remove_blanks e -> find_lang tbl lid = Some l' ->
  tag_tbl_ok (enc_env l' (embedded_opts e)) = true -> frag5_node (NElt tag attrs ch) = true ->
  abs_node5 tbl e par (NTree lid [NElt tag attrs ch]) st = Some (items, st') ->
  exists doc, items = [S.WItemStr (S.WOpaque doc)] /\ enc_wbxml tbl l' (embedded_opts e) [NElt tag attrs ch] = EOk doc /\
    (len doc < 4294967296 -> exists d', doc = S.serialize d' /\ S.strict_doc d' = true).
Proof.
  intros Ho HF HTB HFr. cbn [abs_node5]. rewrite HF. cbv zeta.
  assert (Ee : make_env l' (e_use_strtbl e) (e_ignore_empty e) (e_remove_blanks e) (e_version e) false = enc_env l' (embedded_opts e)).
  { unfold enc_env, embedded_opts. cbn [o_use_strtbl o_keep_ws o_version o_anonymous]. now rewrite negb_involutive, Ho. }
  rewrite Ee.
  destruct (parse_nodes tbl (enc_env l' (embedded_opts e)) None [NElt tag attrs ch] (start_state (enc_env l' (embedded_opts e)) [NElt tag attrs ch])) as [[body st0]|c] eqn:PN; [|discriminate].
  intros E; injection E as <- <-.
  assert (EW : enc_wbxml tbl l' (embedded_opts e) [NElt tag attrs ch] = EOk (fill_header (enc_env l' (embedded_opts e)) st0 ++ body)).
  { rewrite enc_wbxml_form_local. unfold enc_body. cbv zeta. now rewrite PN. }
  eexists. split; [reflexivity|]. split; [exact EW|]. intros Hlen.
  destruct (enc_wbxml_full tbl l' (embedded_opts e) tag attrs ch _ HTB HFr EW Hlen) as (b & s2 & root & _ & _ & HS & Hst).
  now exists (abs_doc2 (enc_env l' (embedded_opts e)) s2 root).
Qed.
