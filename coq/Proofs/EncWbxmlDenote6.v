(* C06 — the generic tree induction of Proofs/EncWbxmlDenote5.v extended to CDATA sections and embedded trees.
   A CDATA section (children = text nodes) is written as ONE OPAQUE holding the concatenated text exactly — not trimmed,
   not cut against tables; in a SyncML language a text that is exactly LF becomes CR LF (the vObject rule) — and reported as
   one character event with these octets.  An embedded tree is written as one OPAQUE holding the embedded document
   (emb_doc: the same encoder on the embedded tree with the embedded language) and reported as one character event with
   these octets; what they decode to is a statement about the embedded document (Proofs/EncWbxmlUnion.v).
   The decoder's "current element" now matters for every OPAQUE in content: the invariant dcur6 says it is the enclosing
   token element or nothing, at every child position. *)
From Coq Require Import List NArith Lia Bool.
From Wbxml Require Import Base.Bits Model.Codec Model.TablesDefs Model.EncWbxml Model.TreeNorm Model.EncWbxmlEvents
     Proofs.EncWbxmlProofs Proofs.TreeNormProofs Proofs.EncWbxmlAbs Proofs.EncWbxmlStrict2 Proofs.EncWbxmlDenote2
     Proofs.EncWbxmlMerge Proofs.EncWbxmlTblOk Proofs.EncWbxmlDenote3 Proofs.EncWbxmlAbs4 Proofs.EncWbxmlDenote4 Proofs.EncWbxmlAbs5
     Proofs.EncWbxmlDenote5.
From Wbxml Require Model.Parser Model.Spec Proofs.EncWbxmlDenote.
Import ListNotations.
Local Open Scope N_scope.

(* the text a CDATA section collects *)
Definition cdata_piece (sy : bool) (n : node) : bytes :=
  match n with NText c => if sy && beq c [10] then [13; 10] else c | _ => [] end.
Definition cdata_of (sy : bool) (ch : list node) : bytes := flat_map (cdata_piece sy) ch.
Definition is_textb (n : node) : bool := match n with NText _ => true | _ => false end.

(* the bytes of an embedded document *)
Definition emb_doc (tbl : list blang) (e : env) (lid : N) (roots : list node) : bytes :=
  match find_lang tbl lid with
  | None => []
  | Some l' =>
    let e' := make_env l' (e_use_strtbl e) (e_ignore_empty e) (e_remove_blanks e) (e_version e) false in
    match parse_nodes tbl e' None roots (start_state e' roots) with
    | EOk (body, st') => fill_header e' st' ++ body
    | EErr _ => []
    end
  end.

Section Class6.
  Variable L : lang.
  (* attributes are judged and canonicalised in their context: the element's tag and its whole attribute list (the OTA
     icon rule looks at a sibling attribute) *)
  Variable aok : tagname -> list attr -> attr -> bool.
  Variable acan : tagname -> list attr -> attr -> bytes.
  Variable tok : bool -> option tagname -> bytes -> bool.
  Variable tev : bool -> option tagname -> bytes -> list P.event.
  Variable cok : bool -> option tagname -> bool.                       (* where a CDATA section may stand *)
  Variable eok : bool -> option tagname -> N -> list node -> bool.     (* where an embedded tree may stand *)
  Variable sy : bool.                                                  (* SyncML: the LF -> CR LF rule *)
  Variable edoc : N -> list node -> bytes.                             (* the embedded document's octets *)

  Fixpoint tree_ok6 (depth : N) (first : bool) (par : option tagname) (n : node) : bool :=
    match n with
    | NElt tag attrs ch =>
      (depth <=? 1000) && tag_cond L tag && forallb (aok tag attrs) attrs &&
      (fix go (f : bool) (l : list node) : bool :=
         match l with [] => true | x :: r => tree_ok6 (depth + 1) f (Some tag) x && go false r end) true ch
    | NText c => tok first par c
    | NCData ch => cok first par && forallb is_textb ch && S.bytes_okb (cdata_of sy ch) && (len (cdata_of sy ch) <? 4294967296)
    | NTree lid roots => eok first par lid roots
    | NPi => false
    end.

  Definition kids_ok6 (depth : N) (par : option tagname) :=
    fix go (f : bool) (l : list node) : bool :=
      match l with [] => true | x :: r => tree_ok6 depth f par x && go false r end.

  Fixpoint events6 (with_attrs first : bool) (par : option tagname) (n : node) : list P.event :=
    match n with
    | NElt tag attrs ch =>
      P.EvStartElt (tag_event tag) (if with_attrs then map (attr_event5 (acan tag attrs)) attrs else [])
        :: (fix go (f : bool) (l : list node) : list P.event :=
              match l with [] => [] | x :: r => events6 with_attrs f (Some tag) x ++ go false r end) true ch
        ++ [P.EvEndElt (tag_event tag)]
    | NText c => tev first par c
    | NCData ch => chars (cdata_of sy ch)
    | NTree lid roots => chars (edoc lid roots)
    | NPi => []
    end.

  Definition kids_events6 (wa : bool) (par : option tagname) :=
    fix go (f : bool) (l : list node) : list P.event :=
      match l with [] => [] | x :: r => events6 wa f par x ++ go false r end.
End Class6.

Section G6.
  Variable tbl : list blang.
  Variable L : lang.
  Variable e : env.
  Hypothesis HE : e_lang e = to_blang L.
  Variable TF : list ste.
  Variable tb : bytes.
  Hypothesis HRES : forall x, In x TF -> okb (s_str x) = true -> S.str_at tb (s_off x) = Some (s_str x).
  Hypothesis HU32 : forall x, In x TF -> S.u32_okb (s_off x) = true.
  Variable aok : tagname -> list attr -> attr -> bool.
  Variable acan : tagname -> list attr -> attr -> bytes.
  Variable tok : bool -> option tagname -> bytes -> bool.
  Variable tev : bool -> option tagname -> bytes -> list P.event.
  Variable cok : bool -> option tagname -> bool.
  Variable eok : bool -> option tagname -> N -> list node -> bool.

  (* the decoder's current element: the enclosing token element at the first child, that or nothing afterwards *)
  Definition dcur6 (first : bool) (par : option tagname) (dst : S.dstate) (me : option (N * N)) : Prop :=
    forall p t o nm, par = Some (TagTok p t o nm) ->
      me = Some (p, t) /\ (if first then S.ds_cur dst = Some (p, t) else (S.ds_cur dst = Some (p, t) \/ S.ds_cur dst = None)).

  Lemma dcur6_old first par dst me : dcur6 first par dst me -> dcur_ok first par dst me.
  Proof. intros H Hf p t o nm Ep. subst first. destruct (H p t o nm Ep) as [A B]. auto. Qed.

  Hypothesis HA : forall tag l st na ws st' (dst : S.dstate),
    sub TF st' -> forallb (aok tag na) l = true -> cur_tag st = ctag_of (Some tag) -> in_cdata st = false -> S.ds_attrcp dst = attrcp st ->
    abs_attrs5 e st na l = Some (ws, st') ->
    exists dst', S.den_attrs (S.mk_denv L tb) ws dst = Some (map (attr_event5 (acan tag na)) l, dst') /\
                 S.ds_attrcp dst' = attrcp st' /\ S.ds_tagcp dst' = S.ds_tagcp dst /\ S.ds_cur dst' = S.ds_cur dst /\
                 tagcp st' = tagcp st /\ cur_tag st' = cur_tag st /\ in_cdata st' = false.

  Hypothesis HT : forall (first : bool) st par c items st' d me (dst : S.dstate),
    sub TF st' -> in_cdata st = false -> cur_tag st = (if first then ctag_of par else None) -> dcur_ok first par dst me ->
    tok first par c = true -> abs_text5 e st par c = Some (items, st') ->
    exists evs, D1.den_items (S.mk_denv L tb) d me items dst = Some (evs, dst) /\
                merge_chars evs = merge_chars (tev first par c) /\
                tagcp st' = tagcp st /\ attrcp st' = attrcp st /\ in_cdata st' = false.

  (* a CDATA section / embedded tree stands in a token element that is not binary-flagged and has no typed-content rule *)
  Definition plain_parent (par : option tagname) : Prop :=
    exists p t o nm, par = Some (TagTok p t o nm) /\ opt_bin o = false /\ S.opaque_kind (l_id L) (Some (p, t)) = S.OPlain.

  Hypothesis HCK : forall first par, cok first par = true -> plain_parent par.
  Hypothesis HEK : forall first par lid roots, eok first par lid roots = true ->
    plain_parent par /\ S.bytes_okb (emb_doc tbl e lid roots) = true /\ len (emb_doc tbl e lid roots) < 4294967296.

  (* an OPAQUE in the content of such an element denotes its octets *)
  Lemma opaque_plain (first : bool) par d me (dst : S.dstate) x :
    plain_parent par -> dcur6 first par dst me -> S.bytes_okb x = true -> len x < 4294967296 ->
    S.den_item (S.mk_denv L tb) d me (S.WItemStr (S.WOpaque x)) dst = Some (chars x, dst).
  Proof.
    intros (p & t & o & nm & -> & _ & HK) Hd Hb Hl. destruct (Hd p t o nm eq_refl) as [-> Hc].
    cbn [S.den_item S.den_str S.de_lang]. rewrite Hb.
    replace (S.u32_okb (Parser.blen x)) with true by (symmetry; unfold S.u32_okb; apply N.ltb_lt; exact Hl). cbn [andb].
    rewrite HK.
    assert (HC : S.opaque_kind (l_id L) (S.ds_cur dst) = S.OPlain).
    { destruct first; [now rewrite Hc|]. destruct Hc as [Hc|Hc]; rewrite Hc; [exact HK|reflexivity]. }
    rewrite HC. reflexivity.
  Qed.

  Definition node_den6 (n : node) : Prop :=
    forall (first : bool) par d me st items st' (dst : S.dstate),
      tree_ok6 L aok tok cok eok (is_syncml (e_lang e)) d first par n = true -> sub TF st' -> in_cdata st = false ->
      cur_tag st = (if first then ctag_of par else None) -> dcur6 first par dst me ->
      S.ds_tagcp dst = tagcp st -> S.ds_attrcp dst = attrcp st ->
      abs_node5 tbl e par n st = Some (items, st') ->
      exists evs dst', D1.den_items (S.mk_denv L tb) d me items dst = Some (evs, dst') /\
        merge_chars evs = merge_chars (events6 acan tev (is_syncml (e_lang e)) (emb_doc tbl e) (has_attr_table e) first par n) /\
        S.ds_tagcp dst' = tagcp st' /\ S.ds_attrcp dst' = attrcp st' /\ cur_tag st' = None /\ in_cdata st' = false /\
        (S.ds_cur dst' = S.ds_cur dst \/ S.ds_cur dst' = None).

  Lemma seq_den6 ns : Forall node_den6 ns ->
    forall (first : bool) par d me st items st' (dst : S.dstate),
      kids_ok6 L aok tok cok eok (is_syncml (e_lang e)) d par first ns = true -> sub TF st' -> in_cdata st = false ->
      cur_tag st = (if first then ctag_of par else None) -> dcur6 first par dst me ->
      S.ds_tagcp dst = tagcp st -> S.ds_attrcp dst = attrcp st ->
      abs_seq (abs_node5 tbl e) par ns st = Some (items, st') ->
      exists evs dst', D1.den_items (S.mk_denv L tb) d me items dst = Some (evs, dst') /\
        merge_chars evs = merge_chars (kids_events6 acan tev (is_syncml (e_lang e)) (emb_doc tbl e) (has_attr_table e) par first ns) /\
        S.ds_tagcp dst' = tagcp st' /\ S.ds_attrcp dst' = attrcp st' /\ in_cdata st' = false.
  Proof.
    induction 1 as [|x r Hx _ IH]; intros first par d me st items st' dst HT0 Hsub Hic Hc Hd H1 H2; cbn [abs_seq kids_events6].
    - intros E; injection E as <- <-. exists [], dst. cbn. auto.
    - cbn [kids_ok6] in HT0. apply andb_true_iff in HT0 as [HT1 HT2].
      destruct (abs_node5 tbl e par x st) as [[a sa]|] eqn:A; [|discriminate].
      destruct (abs_seq (abs_node5 tbl e) par r sa) as [[b sb]|] eqn:B; [|discriminate]. intros E; injection E as <- <-.
      assert (Hsa : sub TF sa) by (exact (sub_ext _ _ _ (abs_seq5_ext tbl e _ _ _ _ _ B) Hsub)).
      destruct (Hx first par d me st a sa dst HT1 Hsa Hic Hc Hd H1 H2 A) as (ev1 & dst1 & D1' & M1 & P1 & P2 & C1 & I1 & K1).
      assert (Hd1 : dcur6 false par dst1 me).
      { intros p t o nm Ep. destruct (Hd p t o nm Ep) as [A1 B1]. split; [exact A1|].
        destruct K1 as [K1|K1]; rewrite K1; [|now right]. destruct first; [now left|exact B1]. }
      destruct (IH false par d me sa b sb dst1 HT2 Hsub I1 C1 Hd1 P1 P2 B) as (ev2 & dst2 & D2' & M2 & Q1 & Q2 & I2).
      exists (ev1 ++ ev2), dst2. split; [eapply D1.den_items_app; eassumption|]. split; [|auto].
      now apply merge_app_congr.
  Qed.

  (* the children of a CDATA section: nothing is written, the text is collected *)
  Lemma cdata_kids ch : forallb is_textb ch = true ->
    forall st d0 its st1, in_cdata st = true -> cdata st = Some d0 -> is_binary_tag st None = false ->
      (forall s, cur_tag s = None -> is_binary_tag s None = false) ->
      abs_seq (abs_node5 tbl e) None ch st = Some (its, st1) ->
      its = [] /\ cdata st1 = Some (d0 ++ cdata_of (is_syncml (e_lang e)) ch) /\ in_cdata st1 = true /\
      strtbl st1 = strtbl st /\ tagcp st1 = tagcp st /\ attrcp st1 = attrcp st.
  Proof.
    intros Hall. induction ch as [|x r IH]; intros st d0 its st1 Hic Hcd Hb Hnb; cbn [abs_seq].
    - intros E; injection E as <- <-. unfold cdata_of. cbn [flat_map]. now rewrite app_nil_r.
    - cbn [forallb] in Hall. apply andb_true_iff in Hall as [Hx Hr]. destruct x as [| c | | |]; try discriminate.
      cbn [abs_node5]. unfold abs_text5. rewrite Hb, Hic, Hcd. cbn [negb andb]. cbv zeta. cbn [negb andb].
      set (c2 := if is_syncml (e_lang e) && beq c [10] then [13; 10] else c).
      set (sa := set_cur_tag (set_cdata st true (Some (d0 ++ c2))) None).
      destruct (abs_seq (abs_node5 tbl e) None r sa) as [[b sb]|] eqn:B; [|discriminate]. intros E; injection E as <- <-.
      destruct (IH Hr sa (d0 ++ c2) b sb eq_refl eq_refl (Hnb sa eq_refl) Hnb B) as (-> & Hc1 & Hi1 & S1 & T1 & A1).
      split; [reflexivity|]. unfold cdata_of in *. cbn [flat_map cdata_piece]. fold c2. rewrite Hc1, <- app_assoc. auto.
  Qed.

  Lemma all_node_den6 n : node_den6 n.
  Proof.
    induction n as [tag attrs ch IH|c|ch IH| |lid roots IH] using node_ind';
      intros first par d me st items st' dst HT0 Hsub Hic Hc Hdc H1 H2; cbn [tree_ok6] in HT0; try discriminate.
    - apply andb_true_iff in HT0 as [HT0 HTch]. apply andb_true_iff in HT0 as [HT0 HTa]. apply andb_true_iff in HT0 as [Hd Htag].
      fold (kids_ok6 L aok tok cok eok (is_syncml (e_lang e)) (d + 1) (Some tag)) in HTch.
      cbn [abs_node5 events6]. fold (kids_events6 acan tev (is_syncml (e_lang e)) (emb_doc tbl e) (has_attr_table e) (Some tag)).
      destruct (abs_tag e st tag (nonempty attrs) (nonempty ch)) as [[[sw wtag] st1]|] eqn:AT; [|discriminate].
      destruct (if has_attr_table e then abs_attrs5 e st1 attrs attrs else Some ([], st1)) as [[ws st2]|] eqn:AA; [|discriminate].
      destruct (abs_seq (abs_node5 tbl e) (Some tag) ch st2) as [[its st3]|] eqn:AS; [|discriminate].
      intros E; injection E as <- <-.
      assert (Hs3 : sub TF st3) by exact Hsub.
      assert (Hs2 : sub TF st2) by (exact (sub_ext _ _ _ (abs_seq5_ext tbl e _ _ _ _ _ AS) Hs3)).
      assert (Hs1 : sub TF st1).
      { destruct (has_attr_table e); [exact (sub_ext _ _ _ (proj1 (abs_attrs5_facts _ _ _ _ _ _ AA)) Hs2)|injection AA as _ <-; exact Hs2]. }
      destruct (tag_den3 L e HE TF tb HRES HU32 st tag _ _ sw wtag st1 dst Htag Hs1 H1 H2 AT) as (Hsw & me1 & dst0 & NM & R1 & R2).
      assert (C1 : cur_tag st1 = ctag_of (Some tag) /\ in_cdata st1 = false /\ dcur6 true (Some tag) dst0 me1).
      { unfold abs_tag in AT. unfold named_of in NM. destruct tag as [p t o nm|nm]; cbn [tag_triple] in AT.
        - unfold tag_cond in Htag. apply andb_true_iff in Htag as [Htag Hlk]. apply andb_true_iff in Htag as [Htag Hp].
          rewrite Htag in AT. apply andb_true_iff in Htag as [H5 H64].
          assert (Hz : (t =? 0) = false) by (apply N.eqb_neq; apply N.leb_le in H5; lia). rewrite Hz in AT.
          injection AT as <- <- <-. split; [reflexivity|]. split; [exact Hic|].
          unfold S.tag_tok_okb in NM. rewrite H5, H64 in NM. cbn [andb S.de_lang] in NM.
          destruct (S.lookup_tag L p t) as [r0|] eqn:LK0; [|discriminate].
          apply andb_true_iff in Hlk as [Hlk _]. apply andb_true_iff in Hlk as [Hrp Hrt]. apply N.eqb_eq in Hrp, Hrt.
          assert (Htc : S.ds_tagcp (S.apply_sw P.TagSpace (if tagcp st =? p then None else Some p) dst) = p).
          { rewrite <- H1. destruct (S.ds_tagcp dst =? p) eqn:Eq; cbn; [now apply N.eqb_eq in Eq|reflexivity]. }
          cbn [tagcp set_cur_tag] in NM. rewrite Htc, LK0, Hrp, Hrt in NM.
          intros p' t' o' nm' Ep. injection Ep as <- <- <- <-.
          split; [congruence|inversion NM; reflexivity].
        - unfold tag_cond in Htag. apply andb_true_iff in Htag as [_ Hun].
          rewrite (lit_unknown_none e nm (tagcp st) (unknown_lit L e HE nm Hun)) in AT. cbn [N.eqb] in AT.
          destruct (e_use_strtbl e); [|discriminate]. destruct (strtbl_add _ _ _) as [[? ?] ?].
          injection AT as _ _ <-. split; [reflexivity|]. split; [exact Hic|]. intros p' t' o' nm' Ep. discriminate. }
      destruct C1 as (C1 & I1 & DC1).
      assert (ATT : exists dst2, S.den_attrs (S.mk_denv L tb) ws dst0 = Some (if (has_attr_table e) then map (attr_event5 (acan tag attrs)) attrs else [], dst2) /\
                     S.ds_attrcp dst2 = attrcp st2 /\ S.ds_tagcp dst2 = tagcp st2 /\ cur_tag st2 = ctag_of (Some tag) /\ in_cdata st2 = false /\
                     S.ds_cur dst2 = S.ds_cur dst0).
      { destruct (has_attr_table e).
        - destruct (HA tag attrs st1 attrs ws st2 dst0 Hs2 HTa C1 I1 R2 AA) as (dst2 & DA & A2 & B2 & C2 & T2 & K2 & I2).
          exists dst2. split; [exact DA|]. split; [exact A2|]. split; [congruence|]. split; [congruence|]. split; [exact I2|exact C2].
        - injection AA as <- <-. exists dst0. split; [reflexivity|]. auto 6. }
      destruct ATT as (dst2 & DA & A2 & B2 & C2 & I2 & DC2).
      assert (Hd2 : dcur6 true (Some tag) dst2 me1).
      { intros p t o nm Ep. rewrite DC2. exact (DC1 p t o nm Ep). }
      destruct (seq_den6 ch IH true (Some tag) (d + 1) me1 st2 its st3 dst2 HTch Hs3 I2 C2 Hd2 B2 A2 AS) as (evk & dst3 & D3 & M3 & P1 & P2 & I3).
      assert (KIDS : if nonempty ch then D1.den_items (S.mk_denv L tb) (d + 1) me1 its dst2 = Some (evk, dst3)
                     else its = [] /\ evk = [] /\ dst3 = dst2).
      { destruct ch as [|c0 ch0]; cbn [nonempty]; [|exact D3].
        cbn [abs_seq] in AS. injection AS as <- <-. cbn [D1.den_items] in D3. injection D3 as <- <-. auto. }
      pose proof (den_elt_intro (S.mk_denv L tb) d me sw wtag ws (nonempty ch) its dst _ _ _ _ _ _ _ Hsw Hd NM DA KIDS) as DI.
      eexists _, (S.set_dcur dst3 None). split.
      + cbn [D1.den_items]. rewrite DI. reflexivity.
      + split; [|cbn; auto 8].
        rewrite !app_nil_r. cbn [merge_chars]. f_equal.
        apply merge_app_congr; [exact M3|reflexivity].
    - cbn [abs_node5 events6].
      destruct (abs_text5 e st par c) as [[its st1]|] eqn:AT; [|discriminate]. intros E; injection E as <- <-.
      destruct (HT first st par c its st1 d me dst Hsub Hic Hc (dcur6_old _ _ _ _ Hdc) HT0 AT) as (evs & Dn & M & T1 & T2 & I1).
      exists evs, dst. split; [exact Dn|]. split; [exact M|]. cbn. rewrite T1, T2. auto 8.
    - (* CDATA section *)
      apply andb_true_iff in HT0 as [HT0 Hl]. apply andb_true_iff in HT0 as [HT0 Hb]. apply andb_true_iff in HT0 as [Hck Hall].
      pose proof (HCK first par Hck) as HPP. destruct HPP as (p & t & o & nm & Ep & Hbin & HK).
      cbn [abs_node5 events6]. destruct (cdata st) eqn:CD; [discriminate|].
      destruct (abs_seq (abs_node5 tbl e) None ch (set_cdata st true (Some []))) as [[its st1]|] eqn:AS; [|discriminate].
      assert (Hb0 : is_binary_tag (set_cdata st true (Some [])) None = false).
      { unfold is_binary_tag. cbn [cur_tag set_cdata]. rewrite Hc. destruct first; [|reflexivity]. rewrite Ep. cbn [ctag_of]. unfold opt_bin in Hbin. now rewrite Hbin. }
      assert (Hnb : forall s, cur_tag s = None -> is_binary_tag s None = false) by (intros s Hs; unfold is_binary_tag; now rewrite Hs).
      destruct (cdata_kids ch Hall (set_cdata st true (Some [])) [] its st1 (eq_refl true) (eq_refl (Some [])) Hb0 Hnb AS) as (-> & Hc1 & Hi1 & S1 & T1 & A1).
      rewrite Hc1. cbn [app]. intros E; injection E as <- <-.
      assert (PP : plain_parent par) by (exists p, t, o, nm; auto).
      destruct (0 <? len (cdata_of (is_syncml (e_lang e)) ch)) eqn:Z.
      + exists (chars (cdata_of (is_syncml (e_lang e)) ch)), dst. split.
        * cbn [D1.den_items]. rewrite (opaque_plain first par d me dst _ PP Hdc Hb). { now rewrite app_nil_r. } now apply N.ltb_lt.
        * split; [reflexivity|]. cbn. rewrite T1, A1. auto 8.
      + assert (cdata_of (is_syncml (e_lang e)) ch = []) by (destruct (cdata_of _ ch); [reflexivity|unfold len in Z; cbn in Z; discriminate]).
        exists [], dst. split; [reflexivity|]. rewrite H. split; [reflexivity|]. cbn. rewrite T1, A1. auto 8.
    - (* embedded tree *)
      destruct (HEK first par lid roots HT0) as (PP & Hb & Hl).
      cbn [abs_node5 events6]. unfold emb_doc in *. destruct (find_lang tbl lid) as [l'|]; [|discriminate]. cbv zeta in *.
      destruct (parse_nodes tbl _ None roots _) as [[body st0]|c]; [|discriminate].
      intros E; injection E as <- <-.
      exists (chars (fill_header (make_env l' (e_use_strtbl e) (e_ignore_empty e) (e_remove_blanks e) (e_version e) false) st0 ++ body)), dst. split.
      + cbn [D1.den_items]. rewrite (opaque_plain first par d me dst _ PP Hdc Hb Hl). now rewrite app_nil_r.
      + split; [reflexivity|]. cbn. auto 8.
  Qed.
End G6.
