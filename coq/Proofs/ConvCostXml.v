(* C01 (whole conversion) — what the XML generator (Model/EncXml.v) can emit for a tree: a per-node cost.
   xc D l n bounds the bytes enc_node appends for the node n in language l, when every indentation run is at most
   D blanks (D = 255 * indent_delta: the indentation level is an unsigned char).  Text is charged 24 times its
   length (base64 of a binary element, 4/3 rounded up to 4, every byte then at most a 6-byte entity; plain text
   6, CDATA 5), an element twice its name, its namespace declaration, its attributes and 12 bytes of punctuation. *)
From Coq Require Import String Ascii.
From Coq Require Import List NArith ZArith Lia Bool ZifyBool ZifyN.
From Wbxml Require Import Model.Codec Model.TablesDefs Model.Parser Proofs.ParserTotal Proofs.ParserGrowth.
From Wbxml Require Import Model.EncXml.
Import ListNotations.
Local Open Scope N_scope.

Definition nsmax (l : xlang) : nat :=
  match xl_ns l with Some t => maxl (map (fun r => 10 + length (nr_name r))%nat t) | None => 0%nat end.

Definition attr_cost (a : attr) : nat := (length (aname_bytes (at_name a)) + 6 * length (attr_value_bytes a) + 5)%nat.

Fixpoint xc (D : nat) (l : xlang) (n : node) : nat :=
  match n with
  | Elt nm attrs ch =>
    (2 * D + 2 * length (tname_bytes nm) + nsmax l + 12 + list_sum (map attr_cost attrs) + list_sum (map (xc D l) ch))%nat
  | Text s => (24 * length s)%nat
  | CData ch => (12 + list_sum (map (xc D l) ch))%nat
  | Pi => 0%nat
  | SubTree sl roots => match sl with Some l' => list_sum (map (xc D l') roots) | None => 0%nat end
  end.

(* ---- small pieces ---- *)
Lemma list_sum_cons x l : list_sum (x :: l) = (x + list_sum l)%nat.
Proof. reflexivity. Qed.

Lemma esc_char_len m c : (length (esc_char m c) <= 6)%nat.
Proof. unfold esc_char. repeat match goal with |- context [if ?c then _ else _] => destruct c end; cbn; lia. Qed.

Lemma escape_len m s : (length (escape m s) <= 6 * length s)%nat.
Proof.
  unfold escape. induction s as [|c s IH]; cbn [flat_map length]; [lia|].
  rewrite app_length. pose proof (esc_char_len m c). lia.
Qed.

Lemma drop_ws_len s : (length (drop_ws s) <= length s)%nat.
Proof. induction s as [|c s IH]; cbn [drop_ws length]; [lia|]. destruct (c_isspace c); cbn [length]; lia. Qed.

Lemma strip_blanks_len s : (length (strip_blanks s) <= length s)%nat.
Proof.
  unfold strip_blanks. rewrite rev_length. eapply Nat.le_trans; [apply drop_ws_len|]. rewrite rev_length. apply drop_ws_len.
Qed.

Lemma split_step a b c r : split_cdata_end (a :: b :: c :: r) =
  if (a =? 93) && (b =? 93) && (c =? 62) then s_cdata_split ++ split_cdata_end r else a :: split_cdata_end (b :: c :: r).
Proof. reflexivity. Qed.

Lemma split_cdata_end_len s : (length (split_cdata_end s) <= 5 * length s)%nat.
Proof.
  assert (G : forall n s, (length s <= n)%nat -> (length (split_cdata_end s) <= 5 * length s)%nat).
  { induction n as [|n IH]; intros [|a t] Hl; cbn [length] in Hl; try (cbn; lia).
    destruct t as [|b [|c r]]; [cbn; lia|cbn; lia|].
    rewrite split_step. destruct (_ && _).
    - rewrite app_length. assert (Hr : (length r <= n)%nat) by (cbn [length] in Hl; lia). specialize (IH r Hr).
      change (length s_cdata_split) with 15%nat. cbn [length]. lia.
    - assert (Hr : (length (b :: c :: r) <= n)%nat) by (cbn [length] in *; lia). specialize (IH (b :: c :: r) Hr).
      cbn [length] in *. lia. }
  exact (G (length s) s (le_n _)).
Qed.

Lemma xbytes_eqb_len a : forall b, EncXml.bytes_eqb a b = true -> length a = length b.
Proof.
  induction a as [|x a IH]; intros [|y b]; cbn [EncXml.bytes_eqb]; try discriminate; [reflexivity|].
  intros H. apply andb_prop in H. destruct H as [_ H]. cbn [length]. f_equal. apply IH. exact H.
Qed.

Lemma syncml_type_rewrite_len l t s : (length (syncml_type_rewrite l t s) <= length s)%nat.
Proof.
  unfold syncml_type_rewrite.
  set (tmp1 := if is_syncml l && tag_is_type t && EncXml.bytes_eqb s s_devinf_wbxml then s_devinf_xml else s).
  assert (H1 : (length tmp1 <= length s)%nat).
  { subst tmp1. destruct (is_syncml l && tag_is_type t); cbn [andb]; [|lia].
    destruct (EncXml.bytes_eqb s s_devinf_wbxml) eqn:E; [|lia]. apply xbytes_eqb_len in E. rewrite E. vm_compute. lia. }
  destruct ((xl_id l =? 2201) && tag_is_type t); cbn [andb]; [|exact H1].
  destruct (EncXml.bytes_eqb tmp1 s_dmtnds_wbxml) eqn:E; [|exact H1]. apply xbytes_eqb_len in E.
  assert (length s_dmtnds_xml <= length s_dmtnds_wbxml)%nat by (vm_compute; lia). lia.
Qed.

Lemma b64_enc_len s e : b64_enc s = Some e -> (length e <= 4 * length s)%nat.
Proof.
  unfold b64_enc. destruct s as [|b0 s0]; [discriminate|]. intros H.
  assert (E : e = b64_enc_body (b0 :: s0)) by congruence. rewrite E. apply b64_body_len.
Qed.

Lemma get_xmlns_len t page ns : get_xmlns t page = Some ns ->
  (10 + length ns <= maxl (map (fun r => 10 + length (nr_name r))%nat t))%nat.
Proof.
  induction t as [|r t IH]; cbn [get_xmlns]; [discriminate|].
  unfold maxl in *. cbn [map fold_right]. destruct (nr_page r =? page).
  - intros H. injection H as <-. lia.
  - intros H. specialize (IH H). lia.
Qed.

Lemma xmlns_part_len l parent nm : (length (xmlns_part l parent nm) <= nsmax l)%nat.
Proof.
  unfold xmlns_part, nsmax. destruct (xl_ns l) as [nst|]; [|cbn; lia].
  destruct nm as [r|s]; [|cbn; lia]. destruct (ns_wanted parent (TTok r)); [|cbn; lia].
  destruct (get_xmlns nst (tr_page r)) as [ns|] eqn:E; [|cbn; lia].
  apply get_xmlns_len in E. rewrite !app_length. change (length s_xmlns) with 8%nat. cbn [length]. lia.
Qed.

Lemma u8_lt x : u8 x < 256.
Proof. unfold u8. apply N.mod_lt. discriminate. Qed.

Definition Dof (o : opts) : nat := (255 * N.to_nat (o_delta o))%nat.

Lemma spaces_len o i : i < 256 -> (length (spaces (i * o_delta o)) <= Dof o)%nat.
Proof. intros H. unfold spaces, Dof. rewrite repeat_length. nia. Qed.

Lemma nl_if_len o : (length (nl_if o) <= 1)%nat.
Proof. unfold nl_if, nl. destruct (is_indent o); cbn; lia. Qed.

Lemma attrs_len l o attrs : (length (parse_attributes l o attrs) <= list_sum (map attr_cost attrs))%nat.
Proof.
  unfold parse_attributes. destruct (xl_has_attrs l); [|cbn; lia].
  induction attrs as [|a r IH]; cbn [flat_map map length]; rewrite ?list_sum_cons; [cbn; lia|].
  rewrite app_length. unfold xml_encode_attr at 1, attr_cost at 1. rewrite !app_length.
  pose proof (escape_len (is_canonical o) (attr_value_bytes a)). change (length s_eq_quote) with 2%nat. cbn [length]. lia.
Qed.

Lemma text_cost l o parent s c b s' : parse_text l o parent s c = XOk (b, s') ->
  (length b <= 24 * length c)%nat /\ e_indent s' = e_indent s.
Proof.
  unfold parse_text.
  assert (Hp : forall c', text_policy o parent s c = Some c' -> (length c' <= length c)%nat).
  { unfold text_policy. intros c'. destruct (_ && _).
    - destruct (_ && _); [discriminate|]. intros H. injection H as <-. destruct (o_remove_blanks o); [apply strip_blanks_len|lia].
    - intros H. injection H as <-. lia. }
  destruct (text_policy o parent s c) as [c'|]; [|intros H; injection H as <- <-; cbn; lia].
  specialize (Hp c' eq_refl). unfold xml_encode_text. destruct (e_in_cdata s).
  - intros H. injection H as <- <-. pose proof (split_cdata_end_len c'). cbn [e_indent]. lia.
  - pose proof (syncml_type_rewrite_len l (e_cur_tag s) c') as Hr.
    destruct (tag_is_binary (text_tag s parent)).
    + destruct (b64_enc _) as [e|] eqn:E; [|discriminate]. intros H. injection H as <- <-.
      apply b64_enc_len in E. pose proof (escape_len (is_canonical o) e). cbn [e_indent]. lia.
    + intros H. injection H as <- <-. pose proof (escape_len (is_canonical o) (syncml_type_rewrite l (e_cur_tag s) c')). cbn [e_indent]. lia.
Qed.

(* ---- sequences ---- *)
Lemma seq_nodes_cost (f : est -> node -> xres (bytes * est)) (P : node -> nat) ns :
  Forall (fun n => forall s b s', e_indent s < 256 -> f s n = XOk (b, s') -> (length b <= P n)%nat /\ e_indent s' < 256) ns ->
  forall s b s', e_indent s < 256 -> seq_nodes f ns s = XOk (b, s') ->
  (length b <= list_sum (map P ns))%nat /\ e_indent s' < 256.
Proof.
  induction 1 as [|n r Hn Hr IH]; intros s b s' Hs; cbn [seq_nodes map]; rewrite ?list_sum_cons.
  - intros H. injection H as <- <-. cbn. split; [lia|exact Hs].
  - destruct (f s n) as [[b1 s1]|e] eqn:E1; [|discriminate].
    destruct (Hn s b1 s1 Hs E1) as [L1 I1].
    destruct (seq_nodes f r (reset_cur s1)) as [[b2 s2]|e] eqn:E2; [|discriminate].
    assert (I1' : e_indent (reset_cur s1) < 256) by exact I1.
    destruct (IH (reset_cur s1) b2 s2 I1' E2) as [L2 I2].
    intros H. injection H as <- <-. rewrite app_length. split; [lia|exact I2].
Qed.

Lemma end_attrs_cost o ch s b3 s3 : xml_encode_end_attrs o ch s = (b3, s3) -> e_indent s < 256 ->
  (length b3 <= 3)%nat /\ e_indent s3 < 256.
Proof.
  unfold xml_encode_end_attrs. destruct ch as [|c0 cr].
  - intros H Hs. injection H as <- <-. pose proof (nl_if_len o). split; [cbn [app length s_empty_end]; lia|exact Hs].
  - destruct (is_indent o && have_child_elt (c0 :: cr)); intros H Hs; injection H as <- <-; (split; [cbn; lia|]); [apply u8_lt|exact Hs].
Qed.

Lemma end_tag_cost o nm ch s b5 s5 : xml_encode_end_tag o nm ch s = (b5, s5) -> e_indent s < 256 ->
  (length b5 <= Dof o + length (tname_bytes nm) + 6)%nat /\ e_indent s5 < 256.
Proof.
  unfold xml_encode_end_tag.
  set (pi := if is_indent o && have_child_elt ch then
               ((if e_in_content s then nl else []) ++ spaces (u8 (e_indent s + 255) * o_delta o), u8 (e_indent s + 255))
             else ([], e_indent s)).
  intros H Hs.
  assert (Lp : (length (fst pi) <= 1 + Dof o)%nat /\ snd pi < 256).
  { subst pi. destruct (is_indent o && have_child_elt ch); cbn [fst snd length]; [|split; [lia|exact Hs]].
    rewrite app_length. pose proof (spaces_len o (u8 (e_indent s + 255)) (u8_lt _)).
    split; [|apply u8_lt]. destruct (e_in_content s); cbn [length nl]; lia. }
  destruct pi as [pre ind]. cbn [fst snd] in Lp. destruct Lp as [Lp Ip].
  injection H as <- <-. rewrite !app_length. pose proof (nl_if_len o).
  change (length s_end_open) with 2%nat. cbn [length e_indent]. rewrite ?app_length. cbn [length]. split; [lia|exact Ip].
Qed.

(* ---- the node ---- *)
Lemma enc_node_cost o : forall n l parent s b s', e_indent s < 256 -> enc_node l o parent s n = XOk (b, s') ->
  (length b <= xc (Dof o) l n)%nat /\ e_indent s' < 256.
Proof.
  fix IH 1. intros n. destruct n as [nm attrs ch|c|ch| |sl roots]; intros l parent s b s' Hs.
  - (* element *)
    cbn [enc_node xc]. unfold xml_encode_tag.
    set (s1 := mk_est (e_indent s) (e_in_content s) (e_in_cdata s) (match nm with TTok r => Some r | TLit _ => None end)).
    set (b1 := (if is_indent o then indent_bytes o s else []) ++ [60] ++ tname_bytes nm ++ xmlns_part l parent nm).
    assert (L1 : (length b1 <= Dof o + 1 + length (tname_bytes nm) + nsmax l)%nat).
    { subst b1. rewrite !app_length. pose proof (xmlns_part_len l parent nm). cbn [length].
      destruct (is_indent o); [|cbn [length]; lia]. unfold indent_bytes. pose proof (spaces_len o (e_indent s) Hs). lia. }
    clearbody b1. pose proof (attrs_len l o attrs) as L2.
    assert (HF : Forall (fun n => forall s b s', e_indent s < 256 -> enc_node l o (pinfo_below parent nm) s n = XOk (b, s') ->
                                  (length b <= xc (Dof o) l n)%nat /\ e_indent s' < 256) ch).
    { induction ch as [|x r IHr]; constructor; [intros s0 b0 s0'; apply IH|exact IHr]. }
    destruct (xml_encode_end_attrs o ch s1) as [b3 s3] eqn:E3.
    assert (Hs1 : e_indent s1 < 256) by exact Hs.
    destruct (end_attrs_cost _ _ _ _ _ E3 Hs1) as [L3 I3].
    destruct ch as [|c0 cr].
    + intros H. injection H as <- <-. rewrite !app_length. cbn [map]. change (list_sum []) with 0%nat. split; [lia|exact I3].
    + destruct (seq_nodes (enc_node l o (pinfo_below parent nm)) (c0 :: cr) s3) as [[b4 s4]|e] eqn:E4; [|discriminate].
      destruct (seq_nodes_cost _ _ _ HF s3 b4 s4 I3 E4) as [L4 I4].
      destruct (xml_encode_end_tag o nm (c0 :: cr) s4) as [b5 s5] eqn:E5.
      destruct (end_tag_cost _ _ _ _ _ _ E5 I4) as [L5 I5].
      intros H. injection H as <- <-. rewrite !app_length. split; [lia|exact I5].
  - (* text *)
    cbn [enc_node xc]. intros H. destruct (text_cost _ _ _ _ _ _ _ H) as [L E]. rewrite E. split; [exact L|exact Hs].
  - (* CDATA *)
    cbn [enc_node xc].
    assert (HF : Forall (fun n => forall s b s', e_indent s < 256 -> enc_node l o (pinfo_cdata parent) s n = XOk (b, s') ->
                                  (length b <= xc (Dof o) l n)%nat /\ e_indent s' < 256) ch).
    { induction ch as [|x r IHr]; constructor; [intros s0 b0 s0'; apply IH|exact IHr]. }
    destruct (seq_nodes (enc_node l o (pinfo_cdata parent)) ch (set_cdata true s)) as [[b1 s1]|e] eqn:E1; [|discriminate].
    assert (Hs' : e_indent (set_cdata true s) < 256) by exact Hs.
    destruct (seq_nodes_cost _ _ ch HF _ b1 s1 Hs' E1) as [L1 I1].
    intros H. assert (Eb : b = s_cdata_open ++ b1 ++ s_cdata_close) by congruence. assert (Es : s' = set_cdata false s1) by congruence.
    subst b s'. rewrite !app_length. change (length s_cdata_open) with 9%nat. change (length s_cdata_close) with 3%nat.
    split; [lia|exact I1].
  - cbn [enc_node]. discriminate.
  - (* embedded tree *)
    cbn [enc_node xc]. destruct sl as [l'|]; [|discriminate].
    assert (HF : Forall (fun n => forall s b s', e_indent s < 256 -> enc_node l' o proot s n = XOk (b, s') ->
                                  (length b <= xc (Dof o) l' n)%nat /\ e_indent s' < 256) roots).
    { induction roots as [|x r IHr]; constructor; [intros s0 b0 s0'; apply IH|exact IHr]. }
    destruct (seq_nodes (enc_node l' o proot) roots (est0 (e_indent s))) as [[b1 s1]|e] eqn:E1; [|discriminate].
    assert (Hs' : e_indent (est0 (e_indent s)) < 256) by exact Hs.
    destruct (seq_nodes_cost _ _ roots HF _ b1 s1 Hs' E1) as [L1 I1].
    intros H. injection H as <- <-. pose proof (cstr_len b1). split; [lia|exact Hs].
Qed.

(* ---- the document ---- *)
Definition hdr_len (l : xlang) : nat := length (xml_header l (mk_opts Indent 1 false false)).

Lemma xml_header_len l o : (length (xml_header l o) <= hdr_len l)%nat.
Proof.
  unfold hdr_len, xml_header. rewrite !app_length. pose proof (nl_if_len o).
  change (nl_if (mk_opts Indent 1 false false)) with nl. change (length nl) with 1%nat. lia.
Qed.

Lemma o_delta_params g indent keep : (N.to_nat (o_delta (opts_of_params g indent keep)) <= N.to_nat (u8 indent) + 1)%nat.
Proof. unfold opts_of_params. destruct g; cbn [o_delta]; lia. Qed.

Lemma xc_mono D D' : (D <= D')%nat -> forall n l, (xc D l n <= xc D' l n)%nat.
Proof.
  intros HD. fix IHm 1. intros n l. destruct n as [nm attrs ch|c|ch| |sl rs]; cbn [xc]; try lia.
  - assert (list_sum (map (xc D l) ch) <= list_sum (map (xc D' l) ch))%nat
      by (induction ch as [|x r IHr]; cbn [map]; rewrite ?list_sum_cons; [lia|pose proof (IHm x l); lia]).
    lia.
  - assert (list_sum (map (xc D l) ch) <= list_sum (map (xc D' l) ch))%nat
      by (induction ch as [|x r IHr]; cbn [map]; rewrite ?list_sum_cons; [lia|pose proof (IHm x l); lia]).
    lia.
  - destruct sl as [l2|]; [|lia].
    induction rs as [|x r IHr]; cbn [map]; rewrite ?list_sum_cons; [lia|pose proof (IHm x l2); lia].
Qed.

Theorem enc_xml_cost l g indent keep roots out : enc_xml l g indent keep roots = XOk out ->
  (length out <= hdr_len l + list_sum (map (xc (255 * (N.to_nat (u8 indent) + 1)) l) roots))%nat.
Proof.
  unfold enc_xml, enc_xml_opts, enc_nodes. set (o := opts_of_params g indent keep).
  destruct (seq_nodes (enc_node l o proot) roots (est0 0)) as [[b s]|e] eqn:E; [|discriminate].
  intros H. assert (Eo : out = xml_header l o ++ b) by congruence. subst out. clear H. rewrite app_length. pose proof (xml_header_len l o).
  assert (HF : Forall (fun n => forall s b s', e_indent s < 256 -> enc_node l o proot s n = XOk (b, s') ->
                                (length b <= xc (Dof o) l n)%nat /\ e_indent s' < 256) roots).
  { apply Forall_forall. intros n _ s0 b0 s0'. apply enc_node_cost. }
  assert (H0 : e_indent (est0 0) < 256) by (cbn; lia).
  destruct (seq_nodes_cost _ _ roots HF _ b s H0 E) as [L _].
  assert (HD : (Dof o <= 255 * (N.to_nat (u8 indent) + 1))%nat).
  { unfold Dof. pose proof (o_delta_params g indent keep). subst o. lia. }
  assert (HS : (list_sum (map (xc (Dof o) l) roots) <= list_sum (map (xc (255 * (N.to_nat (u8 indent) + 1)) l) roots))%nat).
  { clear -HD. induction roots as [|x r IHr]; cbn [map]; rewrite ?list_sum_cons; [lia|]. pose proof (xc_mono _ _ HD x l). lia. }
  lia.
Qed.
