(* C13 — every proper prefix of a well-formed document that ends inside the header, the string table, the
   leading PIs or the root element is refused.  Part 1: prefixes of lists, integers, strings, values. *)
From Coq Require Import String Ascii.
From Coq Require Import List NArith ZArith Lia Bool ZifyBool ZifyN.
From Wbxml Require Import Base.Bits Model.Codec Model.TablesDefs Model.Parser Model.Spec
     Proofs.CodecProofs Proofs.ParserProofsBase Proofs.ParserProofsStr Proofs.ParserProofsAttr Proofs.ParserProofsElt
     Proofs.ParserProofsReject.
Import ListNotations.
Local Open Scope N_scope.

Definition pfx (P S : bytes) : Prop := exists Q, S = P ++ Q.
Definition pp (P S : bytes) : Prop := exists Q, Q <> [] /\ S = P ++ Q.
Definition isErr {A} (x : pres A) : Prop := exists e, x = PErr e.

Lemma pp_pfx P S : pp P S -> pfx P S.
Proof. intros (Q & _ & E). exists Q. exact E. Qed.

Lemma pp_nil_inv P : pp P [] -> False.
Proof. intros (Q & Hq & E). destruct P; destruct Q; try discriminate. congruence. Qed.

Lemma pp_cons P a S : pp P (a :: S) -> P = [] \/ exists P', P = a :: P' /\ pp P' S.
Proof.
  intros (Q & Hq & E). destruct P as [|b P']; [left; reflexivity|right].
  cbn in E. injection E as <- E. exists P'. split; [reflexivity|]. exists Q. split; assumption.
Qed.

Lemma pp_app P A B : pp P (A ++ B) -> pp P A \/ exists P', P = A ++ P' /\ pp P' B.
Proof.
  intros (Q & Hq & E). symmetry in E. apply app_eq_app in E. destruct E as [l [[E1 E2]|[E1 E2]]].
  - right. exists l. split; [exact E1|]. exists Q. split; [exact Hq|exact E2].
  - destruct l as [|x l].
    + right. exists []. rewrite app_nil_r in E1. split; [rewrite app_nil_r; symmetry; exact E1|].
      exists Q. split; [exact Hq|]. cbn in E2. symmetry. exact E2.
    + left. exists (x :: l). split; [discriminate|exact E1].
Qed.

Lemma pfx_app P A B : pfx P (A ++ B) -> pp P A \/ exists P', P = A ++ P' /\ pfx P' B.
Proof.
  intros (Q & E). symmetry in E. apply app_eq_app in E. destruct E as [l [[E1 E2]|[E1 E2]]].
  - right. exists l. split; [exact E1|]. exists Q. exact E2.
  - destruct l as [|x l].
    + right. exists []. rewrite app_nil_r in E1. split; [rewrite app_nil_r; symmetry; exact E1|].
      exists Q. cbn in E2. symmetry. exact E2.
    + left. exists (x :: l). split; [discriminate|exact E1].
Qed.

Lemma pp_single P a : pp P [a] -> P = [].
Proof.
  intros H. apply pp_cons in H. destruct H as [->|(P' & -> & H)]; [reflexivity|]. exfalso. apply (pp_nil_inv _ H).
Qed.

Lemma pp_snoc_pfx P S z : pp P (S ++ [z]) -> pfx P S.
Proof.
  intros H. apply pp_app in H. destruct H as [H|(P' & -> & H)]; [apply pp_pfx; exact H|].
  apply pp_single in H. subst P'. exists []. rewrite !app_nil_r. reflexivity.
Qed.

Lemma pp_len P S : pp P S -> (length P < length S)%nat.
Proof. intros (Q & Hq & ->). rewrite app_length. destruct Q; [congruence|cbn; lia]. Qed.

Lemma pfx_len P S : pfx P S -> (length P <= length S)%nat.
Proof. intros (Q & ->). rewrite app_length. lia. Qed.

Lemma nul_free_pfx P s : pfx P s -> nul_free s = true -> nul_free P = true.
Proof. intros (Q & ->). unfold nul_free. rewrite forallb_app. intros H. apply andb_prop in H. tauto. Qed.

Lemma Forall_pfx {A} (Pr : A -> Prop) (P S : list A) : (exists Q, S = P ++ Q) -> Forall Pr S -> Forall Pr P.
Proof. intros (Q & ->) H. apply Forall_app in H. tauto. Qed.

(* ---- a multi-byte integer cut short ---- *)

Lemma mb_write_init v : v < 4294967296 -> Forall (fun b => 128 <= b < 256) (removelast (mb_write v)) /\ (length (mb_write v) <= 5)%nat.
Proof.
  intros Hv. rewrite (mb_write_spec v Hv).
  destruct (v <? 128) eqn:H1; [cbn; split; [constructor|lia]|].
  destruct (v <? 16384) eqn:H2; [cbn [removelast length]; split; [repeat constructor; lia|lia]|].
  destruct (v <? 2097152) eqn:H3; [cbn [removelast length]; split; [repeat constructor; lia|lia]|].
  destruct (v <? 268435456) eqn:H4; cbn [removelast length]; (split; [repeat constructor; lia|lia]).
Qed.

Lemma pp_removelast P S : pp P S -> exists R, removelast S = P ++ R.
Proof.
  intros (Q & Hq & ->). destruct (exists_last Hq) as (Q' & z & ->).
  exists Q'. rewrite app_assoc. rewrite removelast_last. reflexivity.
Qed.

Lemma mb_prefix_err v P : v < 4294967296 -> pp P (mb_write v) -> parse_mb_uint32 P = PErr PE_END_OF_BUFFER.
Proof.
  intros Hv Hp. destruct (mb_write_init v Hv) as [Hf Hl].
  apply truncated_mb.
  - pose proof (pp_len _ _ Hp). lia.
  - apply (Forall_pfx _ P (removelast (mb_write v))); [apply pp_removelast; exact Hp|exact Hf].
Qed.

(* an integer followed by more: either the cut is inside the integer, or the integer is read *)
Lemma mb_then v B P : v < 4294967296 -> pp P (mb_write v ++ B) ->
  parse_mb_uint32 P = PErr PE_END_OF_BUFFER \/ exists P', pp P' B /\ parse_mb_uint32 P = POk (v, P').
Proof.
  intros Hv Hp. apply pp_app in Hp. destruct Hp as [Hp|(P' & -> & Hp)].
  - left. apply (mb_prefix_err v P Hv Hp).
  - right. exists P'. split; [exact Hp|apply parse_mb_ok; exact Hv].
Qed.

Lemma termstr_prefix_err cs s P : nul_free s = true -> pp P (s ++ [0]) -> isErr (conv_term cs P).
Proof.
  intros Hn Hp. destruct (unterminated_string_refused cs P) as [e He]; [|exists e; exact He].
  apply (nul_free_pfx P s); [apply (pp_snoc_pfx P s 0 Hp)|exact Hn].
Qed.

(* ---- strings, entities, opaque, extensions, attribute values cut short ---- *)

Definition tinysw (P : bytes) : Prop := P = [0] \/ exists p, P = [0; p].

Lemma pp_sw_cases P p S : pp P (0 :: p :: S) -> P = [] \/ tinysw P \/ exists P', P = 0 :: p :: P' /\ pp P' S /\ P' <> [].
Proof.
  intros H. apply pp_cons in H. destruct H as [->|(P1 & -> & H)]; [left; reflexivity|right].
  apply pp_cons in H. destruct H as [->|(P2 & -> & H)]; [left; left; reflexivity|].
  destruct P2 as [|b P2]; [left; right; exists p; reflexivity|].
  right. exists (b :: P2). repeat split; [exact H|discriminate].
Qed.

Section Pre.
Variables (l : lang) (tb : bytes) (ver cs : N).
Hypothesis Hcs : cs_ok cs.
Let env := penv_of l tb ver cs.
Let denv := mk_denv l tb.

Lemma isErr_PErr {A} e : isErr (@PErr A e).
Proof. exists e. reflexivity. Qed.

(* the arguments of an extension token, cut short *)
Lemma ext_args_err sp x o dst t P' : den_ext denv x = Some o ->
  (exists S, ser_ext x = t :: S /\ pp P' S) ->
  isErr (parse_extension env sp (pst dst (t :: P'))) /\ is_ext_token t = true.
Proof.
  unfold env. intros H (S & ES & Hp). unfold den_ext in H. cbn [de_lang de_strtbl denv] in H.
  unfold parse_extension, opt_switch_page. cbn [pst s_rest].
  assert (Ht0 : forall k, (64 + k =? 0) = false /\ (128 + k =? 0) = false /\ (192 + k =? 0) = false) by (intros; lia).
  rewrite wml_family_eq, wv_family_eq.
  destruct (is_wml_family (l_id l)) eqn:Ewml.
  - destruct x as [k s|k i|k]; cbn [ser_ext] in ES; injection ES as <- <-.
    + destruct ((k <? 3) && str_okb s) eqn:E; [|discriminate]. apply andb_prop in E. destruct E as [Ek Es].
      destruct (str_okb_split s Es) as [_ Hn].
      destruct (termstr_prefix_err cs s P' Hn Hp) as [e He].
      destruct (k_lt3 k Ek) as [-> | [-> | ->]]; norm_tok; cbn [is_token N.eqb Pos.eqb parse_uint8 s_rest pst e_lang penv_of];
        rewrite Ewml; cbn [N.eqb Pos.eqb orb]; unfold parse_termstr; cbn [e_charset penv_of]; rewrite He; (split; [apply isErr_PErr|reflexivity]).
    + destruct ((k <? 3) && u32_okb i) eqn:E; [|discriminate]. apply andb_prop in E. destruct E as [Ek Ei].
      pose proof (mb_prefix_err i P' (u32_okb_lt _ Ei) Hp) as He.
      destruct (k_lt3 k Ek) as [-> | [-> | ->]]; norm_tok; cbn [is_token N.eqb Pos.eqb parse_uint8 s_rest pst e_lang penv_of];
        rewrite Ewml; cbn [N.eqb Pos.eqb orb]; rewrite He; (split; [apply isErr_PErr|reflexivity]).
    + exfalso. apply (pp_nil_inv _ Hp).
  - destruct (is_wv_family (l_id l)) eqn:Ewv; [|discriminate].
    destruct x as [k s|k v|k]; try discriminate. destruct k as [|pk]; [|discriminate].
    destruct (u32_okb v) eqn:Ev; [|discriminate].
    cbn [ser_ext] in ES. injection ES as <- <-. norm_tok.
    pose proof (mb_prefix_err v P' (u32_okb_lt _ Ev) Hp) as He.
    cbn [is_token N.eqb Pos.eqb parse_uint8 s_rest pst e_lang penv_of]. rewrite Ewml, Ewv. cbn [N.eqb Pos.eqb negb].
    rewrite He. split; [apply isErr_PErr|reflexivity].
Qed.

Lemma ser_ext_cons x : exists t S, ser_ext x = t :: S.
Proof. destruct x; cbn [ser_ext]; eexists; eexists; reflexivity. Qed.

Lemma parse_extension_sw sp dst p r : is_token r 0 = false ->
  parse_extension env sp (pst dst (0 :: p :: r)) = parse_extension env sp (pst (apply_sw sp (Some p) dst) r).
Proof.
  intros H. unfold parse_extension, opt_switch_page, parse_switch_page.
  cbn [pst s_rest is_token N.eqb tl parse_uint8]. rewrite H. destruct sp; reflexivity.
Qed.

(* [switchPage] extension cut short *)
Lemma ext_prefix sp sw x o dst P : sw_okb sw = true -> den_ext denv x = Some o ->
  pp P (ser_sw sw ++ ser_ext x) -> P <> [] ->
  tinysw P \/ (is_extension P = true /\ isErr (parse_extension env sp (pst dst P))).
Proof.
  unfold env. intros Hsw Hx Hp Hne. destruct (ser_ext_cons x) as (t & S & ES). rewrite ES in Hp.
  destruct sw as [p|]; cbn [ser_sw app] in Hp.
  - apply pp_sw_cases in Hp. destruct Hp as [->|[Ht|(P' & -> & Hp & Hne')]]; [congruence|left; exact Ht|right].
    apply pp_cons in Hp. destruct Hp as [->|(P2 & -> & Hp)]; [congruence|].
    destruct (ext_args_err sp x o (apply_sw sp (Some p) dst) t P2 Hx) as [He Ht]; [exists S; split; assumption|].
    split; [unfold is_extension; cbn [is_token nth_error N.eqb]; exact Ht|].
    rewrite parse_extension_sw; [exact He|].
    cbn [is_token]. destruct (t =? 0) eqn:E0; [apply N.eqb_eq in E0; subst t; discriminate|reflexivity].
  - right. apply pp_cons in Hp. destruct Hp as [->|(P2 & -> & Hp)]; [congruence|].
    destruct (ext_args_err sp x o dst t P2 Hx) as [He Ht]; [exists S; split; assumption|].
    split; [|exact He].
    unfold is_extension. cbn [is_token nth_error]. destruct (t =? 0) eqn:E0; [apply N.eqb_eq in E0; subst t; discriminate|exact Ht].
Qed.

(* a string-like value cut short, as an attribute value *)
Lemma attrval_str_prefix s dst o dst' P :
  den_str denv AttrSpace None s dst = Some (o, dst') -> pp P (ser_str s) -> P <> [] ->
  isErr (parse_attr_value env (pst dst P)).
Proof.
  unfold env. intros H Hp Hne. destruct s as [s|i|c|d|sw x]; cbn [den_str] in H; cbn [ser_str] in Hp.
  - destruct (str_okb s) eqn:Es; [|discriminate]. destruct (str_okb_split s Es) as [_ Hn].
    apply pp_cons in Hp. destruct Hp as [->|(P' & -> & Hp)]; [congruence|].
    destruct (termstr_prefix_err cs s P' Hn Hp) as [e He].
    unfold parse_attr_value. ev. unfold parse_string. ev. unfold parse_inline, parse_termstr. cbn [tl e_charset penv_of].
    rewrite He. apply isErr_PErr.
  - destruct (u32_okb i) eqn:Ei; [|discriminate].
    apply pp_cons in Hp. destruct Hp as [->|(P' & -> & Hp)]; [congruence|].
    unfold parse_attr_value. ev. unfold parse_string. ev. unfold parse_tableref. cbn [tl].
    rewrite (mb_prefix_err i P' (u32_okb_lt _ Ei) Hp). apply isErr_PErr.
  - destruct (is_scalar c && negb (c =? 0)) eqn:E; [|discriminate]. apply andb_prop in E. destruct E as [Hs _].
    apply pp_cons in Hp. destruct Hp as [->|(P' & -> & Hp)]; [congruence|].
    unfold parse_attr_value. ev. unfold parse_entity. cbn [tl].
    rewrite (mb_prefix_err c P') by (try exact Hp; unfold is_scalar in Hs; lia). apply isErr_PErr.
  - destruct (bytes_okb d && u32_okb (blen d)) eqn:E; [|discriminate]. apply andb_prop in E. destruct E as [_ Hu].
    apply pp_cons in Hp. destruct Hp as [->|(P' & -> & Hp)]; [congruence|].
    unfold parse_attr_value. ev. unfold parse_opaque. cbn [tl].
    destruct (mb_then (blen d) d P' (u32_okb_lt _ Hu) Hp) as [He|(P2 & Hp2 & He)]; rewrite He; [apply isErr_PErr|].
    replace (blen P2 <? blen d) with true by (pose proof (pp_len _ _ Hp2); unfold blen; lia). apply isErr_PErr.
  - destruct (sw_okb sw) eqn:Esw; [|discriminate]. destruct (den_ext denv x) as [o'|] eqn:Ex; [|discriminate].
    destruct (ext_prefix AttrSpace sw x o' dst P Esw Ex Hp Hne) as [[->|(p & ->)]|[Hie He]].
    + unfold parse_attr_value, is_extension, is_string, opt_switch_page, parse_switch_page. cbn. apply isErr_PErr.
    + unfold parse_attr_value, is_extension, is_string, opt_switch_page, parse_switch_page. cbn. apply isErr_PErr.
    + unfold parse_attr_value. cbn [pst s_rest]. rewrite Hie. exact He.
Qed.

Lemma attrval_prefix v dst o dst' P :
  den_val denv v dst = Some (o, dst') -> pp P (ser_val v) -> P <> [] ->
  isErr (parse_attr_value env (pst dst P)).
Proof.
  unfold env. intros H Hp Hne. destruct v as [sw t|s]; cbn [den_val] in H; cbn [ser_val] in Hp.
  - destruct sw as [p|]; cbn [ser_sw app] in Hp.
    + apply pp_sw_cases in Hp. destruct Hp as [->|[[->|(p' & ->)]|(P' & -> & Hp & Hne')]]; [congruence| | |].
      * unfold parse_attr_value, is_extension, is_string, opt_switch_page, parse_switch_page. cbn. apply isErr_PErr.
      * unfold parse_attr_value, is_extension, is_string, opt_switch_page, parse_switch_page. cbn. apply isErr_PErr.
      * apply pp_single in Hp. congruence.
    + apply pp_single in Hp. congruence.
  - apply (attrval_str_prefix s dst o dst' P H Hp Hne).
Qed.

(* a nonempty prefix of a value that is not recognised as a value is a lone switchPage *)
Lemma iav_mono P Q : is_attr_value P = true -> is_attr_value (P ++ Q) = true.
Proof.
  destruct P as [|b P]; [discriminate|]. cbn [app].
  destruct (b =? 0) eqn:E0.
  - apply N.eqb_eq in E0. subst b. destruct P as [|p [|t P]]; try discriminate.
    cbn [app]. rewrite !is_attr_value_sw. tauto.
  - rewrite !(is_attr_value_nz b _ E0). tauto.
Qed.

Lemma val_prefix_shape v dst o dst' P : den_val denv v dst = Some (o, dst') -> pp P (ser_val v) -> P <> [] ->
  is_attr_value P = false -> tinysw P.
Proof.
  intros H Hp Hne Hf. destruct Hp as (Q & Hq & E).
  destruct (ser_val_head l tb v dst o dst' [] H) as (Hav & _). rewrite app_nil_r in Hav. rewrite E in Hav.
  destruct P as [|b P]; [congruence|]. destruct (b =? 0) eqn:E0.
  - apply N.eqb_eq in E0. subst b. destruct P as [|p [|t P]]; [left; reflexivity|right; exists p; reflexivity|].
    exfalso. cbn [app] in Hav. rewrite is_attr_value_sw in Hav. rewrite is_attr_value_sw in Hf. congruence.
  - exfalso. cbn [app] in Hav. rewrite (is_attr_value_nz b _ E0) in Hav. rewrite (is_attr_value_nz b _ E0) in Hf. congruence.
Qed.

End Pre.
