(* C03 — XML -> WBXML -> XML at the level of the two conversion models, on the WIDE fragment of the WBXML encoder
   (Proofs/EncWbxmlDenote3.v: attributes, literal tags and attribute names, string table on or off, public id as
   number or string).  The language of the second conversion is FORCED (wbxml2xml -l): the encoder's theorem gives the
   abstract document only existentially (serialize d, denote_with (Some L) d), so the public-identifier field that an
   unforced parse looks at is not exposed; the lemma missing for the unforced reading is
     lang_of_pub TBL (wd_strtbl d) (wd_pub d) = Some L   for d := abs_doc2 e st' root
   (the narrow theorem ConvRoundTrip.conversion_roundtrip has it: there d is SZ.abs_doc, written out). *)
From Coq Require Import String Ascii.
From Coq Require Import List NArith ZArith Lia Bool.
From Wbxml Require Import Model.Codec Model.TablesDefs Model.Parser Model.Spec Model.TreeBuild Model.TreeConv Model.Conv Model.ConvConcrete
     Proofs.TreeBuildProofs Proofs.TreeBuildProofs2 Proofs.TreeBuildProofs3 Proofs.TreeRoundTrip Proofs.TreeRoundTripWide
     Proofs.ConvRoundTrip.
From Wbxml Require Model.EncWbxml Model.TreeNorm Proofs.EncWbxmlProofs Proofs.EncWbxmlAbs Proofs.EncWbxmlDenote2
     Proofs.EncWbxmlTblOk Proofs.EncWbxmlDenote3.
From Wbxml Require Model.EncXml Model.XmlRead Proofs.EncXmlProofs Proofs.EncXmlIndent.
From Wbxml Require Model.XmlFront Model.ConvXml2Wbxml.
Import ListNotations.
Local Open Scope N_scope.

(* the trees tnw produces are trees of elements and non-empty texts: the generator accepts them *)
Lemma tnw_tsimple wa : forall n, forallb tsimple (tnw wa n) = true.
Proof.
  induction n as [tag attrs ch IH|c|ch IH| |lid roots IH] using Proofs.EncWbxmlProofs.node_ind'; cbn [tnw]; try reflexivity.
  - cbn [forallb tsimple]. rewrite andb_true_r. apply merge_text_tsimple.
    induction IH as [|x r Hx _ IHr]; [reflexivity|]. cbn [flat_map]. rewrite forallb_app, Hx, IHr. reflexivity.
  - destruct (cstr c) as [|b r]; reflexivity.
Qed.

Section Compose.
Variables (main TBL : list lang) (btbl : list E.blang) (sub : E.bytes -> XF.xtree + N).

Theorem conversion_roundtrip_wide evs expat_ok o doc w (L : lang) tag attrs ch o' :
  let e := E.enc_env (D2.to_blang L) o in
  (* the first conversion succeeds with output w (below 4 GiB) ... *)
  r_out (CX.xml2wbxml_events main btbl sub evs expat_ok o doc) = Some w -> E.len w < 4294967296 ->
  (* ... on a document whose front-end tree is in the wide fragment *)
  (forall t0, XF.tree_from_xml main sub doc evs expat_ok = inl t0 ->
     E.find_lang btbl (XF.xt_lang t0) = Some (D2.to_blang L) /\ XF.xt_roots t0 = [E.NElt tag attrs ch]) ->
  Proofs.EncWbxmlAbs.plain_env e = true -> D2.vals_ok L = true -> l_exts L = None ->
  TK.tree_ok3 L 0 (E.NElt tag attrs ch) = true ->
  find (fun x => l_id x =? l_id L) TBL = Some L ->
  wo_lang o' = l_id L -> l_id L <> 0 -> wo_charset o' = 0 ->
  E.o_version o < 4 -> E.header_public_id e < 4294967296 -> E.header_public_id e <> 0 ->
  (match Proofs.EncWbxmlAbs.header_pid e with Some p => D2.okb p = true | None => True end) ->
  no_data (D3.doc_events3 L e (E.o_keep_ws o) (E.NElt tag attrs ch)) = true ->
  let tg := TK.tag_event tag in
  let at' := if E.has_attr_table e then map D2.attr_event attrs else [] in
  let root' := TElt tg at' (merge_text (flat_map (tnw (E.has_attr_table e)) (flat_map (TreeNorm.norm_node (E.o_keep_ws o) false) ch))) in
  let xl := X.xlang_of L in
  let xo := X.opts_of_params (gen_of (wo_gen o')) (wo_indent o') (wo_keep_ws o') in
  exists x,
    wbxml2xml_model TBL o' w = mk_res ST_OK (Some (x ++ [0])) (N.of_nat (length x)) /\
    X.enc_xml_opts xl xo [to_xnode TBL L root'] = X.XOk x /\
    (Proofs.EncXmlProofs.lang_ok xl = true ->
     Proofs.EncXmlIndent.node_ok_g xl xo X.proot None (to_xnode TBL L root') = true ->
     exists c s',
       Proofs.EncXmlIndent.info_g xl xo X.proot (X.est0 0) (to_xnode TBL L root')
         = Some ([XmlRead.XT []; XmlRead.XE (X.tname_bytes (to_tname L tg))
                                             (Proofs.EncXmlProofs.spec_attrs xl xo X.proot (to_tname L tg) (map to_attr at')) c;
                  XmlRead.XT (X.nl_if xo)], s') /\
       forall fuel, (Proofs.EncXmlProofs.node_fuel (to_xnode TBL L root') + 2 <= fuel)%nat ->
         XmlRead.read_xml fuel x =
         XmlRead.ROk (Proofs.EncXmlProofs.doc_of xl
                        [XmlRead.XE (X.tname_bytes (to_tname L tg))
                                    (Proofs.EncXmlProofs.spec_attrs xl xo X.proot (to_tname L tg) (map to_attr at')) c])).
Proof.
  cbv zeta. intros H1 Hlen Hfront HP HV HX HT HFind Hforced Hid Hcs Hv Hp1 Hp0 Hpid Hnd.
  set (e := E.enc_env (D2.to_blang L) o) in *. set (wa := E.has_attr_table e) in *.
  set (tg := TK.tag_event tag). set (at' := if wa then map D2.attr_event attrs else []).
  set (root' := TElt tg at' (merge_text (flat_map (tnw wa) (flat_map (TreeNorm.norm_node (E.o_keep_ws o) false) ch)))).
  set (xl := X.xlang_of L). set (xo := X.opts_of_params (gen_of (wo_gen o')) (wo_indent o') (wo_keep_ws o')).
  (* the first conversion *)
  unfold CX.xml2wbxml_events, conv_run in H1. destruct doc as [|d0 dr]; [discriminate|].
  destruct (XF.tree_from_xml main sub (d0 :: dr) evs expat_ok) as [t0|er] eqn:Et; [|discriminate].
  destruct (Hfront t0 eq_refl) as [Hl Hroots].
  unfold CX.encode_tree in H1. rewrite Hl, Hroots in H1.
  destruct (E.enc_wbxml btbl (D2.to_blang L) o [E.NElt tag attrs ch]) as [bs|ee] eqn:He; [|discriminate].
  cbn [r_out] in H1. assert (Hw : bs = w) by congruence. subst bs. clear H1.
  (* the second conversion *)
  pose proof (roundtrip_wide btbl TBL L o tag attrs ch w HP HV HX HT HFind Hid Hv Hp1 Hp0 Hpid Hlen He Hnd MAX_EMBEDDED_DEPTH) as Htree.
  revert Htree. unfold TreeNorm.norm. fold e. fold wa. cbn [flat_map TreeNorm.norm_node tnw app hd_error]. rewrite ?app_nil_r.
  fold tg. fold at'. fold root'. intros Htree.
  assert (Hs : simple (to_xnode TBL L root') = true).
  { apply to_xnode_simple. subst root'. cbn [tsimple]. apply merge_text_tsimple.
    generalize (flat_map (TreeNorm.norm_node (E.o_keep_ws o) false) ch) as ns. induction ns as [|y r IHr]; [reflexivity|].
    cbn [flat_map]. rewrite forallb_app, tnw_tsimple, IHr. reflexivity. }
  destruct (enc_xml_simple_ok xl (gen_of (wo_gen o')) (wo_indent o') (wo_keep_ws o') [to_xnode TBL L root']) as [x Hx];
    [cbn [forallb]; rewrite Hs; reflexivity|].
  exists x. split; [|split; [exact Hx|]].
  - unfold wbxml2xml_model, conv_run. destruct w as [|w0 wr].
    { exfalso. clear -Htree. unfold tree_from_wbxml in Htree. vm_compute in Htree. discriminate. }
    unfold w2x_tree_from_doc, wbxml_tree_from_wbxml. rewrite Hcs, Hforced, Htree.
    unfold w2x_encode, to_xroots. cbn [wt_lang wt_root]. unfold TreeConv.find_lang. rewrite HFind.
    fold xl.
    match goal with |- context [X.enc_xml ?a ?b ?c ?d ?r] =>
      change (X.enc_xml a b c d r) with (X.enc_xml xl (gen_of (wo_gen o')) (wo_indent o') (wo_keep_ws o') [to_xnode TBL L root']) end.
    rewrite Hx. reflexivity.
  - intros Hlok Hok. cbn [to_xnode] in *.
    exact (Proofs.EncXmlIndent.read_enc_g xl xo (to_tname L tg) (map to_attr at') _ x Hlok Hok Hx).
Qed.
End Compose.
