(* C02 (front end) — the image of the canonical event lists is canonical: for every event list on which `evs_canon`
   (Model/XmlFrontCanonEvents.v) holds, the tree the callbacks build satisfies `root_canon` (Model/XmlFrontEvents.v).
   With Proofs/XmlFrontInverse.v (front_inverts_events) this makes the front end idempotent on those lists: reading the
   events written for the tree gives the tree again.

   The proof is an invariant of `step`: every open node (frame of the spine) is canonical so far — its tag and attributes
   are found again from their names, its completed children satisfy `kids_canon` in the context the spine gives them, the
   ancestors of `current` hold no cached text, only a binary-flagged `current` may. *)
From Coq Require Import String.
From Coq Require Import List NArith Lia Bool.
From Wbxml Require Import Model.TablesDefs Model.Tables Model.Codec Model.LangSelect Model.EncWbxml Model.XmlFront
     Model.XmlFrontEvents Model.XmlFrontCanonEvents.
From Wbxml Require Import Proofs.XmlFrontNames Proofs.XmlFrontBalance.
From Wbxml Require Import Proofs.EncWbxmlProofs Proofs.XmlFrontProofs Proofs.XmlFrontDataType Proofs.XmlFrontSplit Proofs.XmlFrontInverse.
Import ListNotations.
Local Open Scope N_scope.

(* ------------------------------------------------------------------ lists of children *)

Lemma kids_canon_app l emb up k : forall rest rd more,
  kids_canon l emb up k rd (rest ++ more) = kids_canon l emb up k rd rest && kids_canon l emb up k (rev rest ++ rd) more.
Proof.
  induction rest as [|x r IH]; intros rd more; [reflexivity|].
  cbn [app kids_canon rev]. rewrite IH, <- app_assoc. cbn [app]. now rewrite andb_assoc.
Qed.

Lemma kids_canon_snoc l emb up k rest x :
  kids_canon l emb up k [] (rest ++ [x]) = kids_canon l emb up k [] rest && node_canon l emb up k (rev rest) x.
Proof. rewrite kids_canon_app. cbn [kids_canon]. now rewrite app_nil_r, andb_true_r. Qed.

Lemma frame_eta f : mk_frame (f_kind f) (f_rkids f) = f.
Proof. destruct f; reflexivity. Qed.

Lemma kids_of_rev f : kids_of f = rev (f_rkids f).
Proof. unfold kids_of. now rewrite rev_append_rev, app_nil_r. Qed.

(* ------------------------------------------------------------------ base64 output *)

Lemma u8_lt x : u8 x < 256.
Proof. unfold u8. apply N.mod_lt. discriminate. Qed.

Lemma b64_dec_body_octets : forall n cs, (List.length cs <= n)%nat -> Forall (fun c => c < 256) (b64_dec_body cs).
Proof.
  induction n as [|n IH]; intros cs Hn.
  - destruct cs; [constructor|cbn in Hn; lia].
  - destruct cs as [|p [|q [|r [|s rest]]]]; cbn [b64_dec_body]; try constructor; try apply u8_lt; try constructor; try apply u8_lt; try constructor.
    destruct rest as [|y rest'].
    + repeat constructor; apply u8_lt.
    + repeat (constructor; [apply u8_lt|]). apply IH. cbn [List.length] in *. lia.
Qed.

Lemma firstn_Forall {A} (P : A -> Prop) n (l : list A) : Forall P l -> Forall P (firstn n l).
Proof. intros F. revert n. induction F; intros [|n]; cbn; constructor; auto. Qed.

Lemma buffer_b64_dec_some b d : buffer_b64_dec b = Some d -> d <> [] /\ bytes_okb d = true.
Proof.
  unfold buffer_b64_dec, b64_dec. set (pre := take_b64 _).
  destruct (b64_dec_count (N.of_nat (List.length pre)) =? 0) eqn:Z; [discriminate|]. intros H; injection H as <-.
  apply N.eqb_neq in Z. split.
  - destruct pre as [|p [|q rest]]; [now elim Z|now elim Z|].
    destruct (N.to_nat (b64_dec_count (N.of_nat (List.length (p :: q :: rest))))) eqn:T; [lia|].
    destruct rest as [|r [|s [|y rest']]]; cbn; discriminate.
  - unfold bytes_okb. apply forallb_forall. intros x I. apply N.ltb_lt.
    pose proof (firstn_Forall _ (N.to_nat (b64_dec_count (N.of_nat (List.length pre)))) _ (b64_dec_body_octets _ pre (le_n _))) as F.
    rewrite Forall_forall in F. now apply F.
Qed.

(* ------------------------------------------------------------------ canonical open nodes *)

Definition no_content (f : frame) : Prop := match f_kind f with FElt _ _ (Some _) => False | _ => True end.
Definition cache_ok (f : frame) : Prop := match f_kind f with FElt _ _ (Some _) => is_binary_frame f = true | _ => True end.

Lemma is_binary_kind f : is_binary_frame f = kind_binary (f_kind f).
Proof. unfold is_binary_frame, kind_binary, tag_binary. destruct (f_kind f) as [[p t o nm|nm] a c|]; reflexivity. Qed.

Lemma kind_binary_with_content k c : kind_binary (with_content k c) = kind_binary k.
Proof. destruct k; reflexivity. Qed.

Lemma no_content_plain f : no_content f -> with_content (f_kind f) None = f_kind f.
Proof. unfold no_content. destruct (f_kind f) as [tg a [b|]|]; [contradiction|reflexivity|reflexivity]. Qed.

Lemma nonbinary_no_content f : cache_ok f -> is_binary_frame f = false -> no_content f.
Proof.
  unfold cache_ok, no_content. intros C B. destruct (f_kind f) as [tg a [b|]|]; auto. rewrite B in C. discriminate.
Qed.

Lemma beq_neq a b : a <> b -> beq a b = false.
Proof. intros H. destruct (beq a b) eqn:E; [|reflexivity]. apply beq_eq in E. contradiction. Qed.

Lemma dt_vobj_vobject d : dt_vobj d = dt_vobject d.
Proof. destruct d; reflexivity. Qed.

Lemma lf_hack_nonempty d P x : x <> [] -> lf_hack d P x <> [].
Proof.
  unfold lf_hack. intros H. destruct (dt_vobj d); [|exact H]. destruct x as [|y t]; [now elim H|].
  destruct y as [|q]; [destruct t; discriminate|]. repeat (destruct q as [q|q|]; try (destruct t; discriminate)).
  destruct P; destruct t; discriminate.
Qed.

(* when the text before does not end with a CR, what the hack returns is never a lone LF *)
Lemma lf_hack_not_lf d x : dt_vobject d = true -> beq (lf_hack d false x) [10] = false.
Proof.
  intros V. unfold lf_hack. rewrite dt_vobj_vobject, V. destruct (beq x [10]) eqn:B.
  - apply beq_eq in B. subst x. reflexivity.
  - now rewrite (lf_hack_id_cr false x B).
Qed.

Lemma app_not_lf (a b : bytes) : a <> [] -> b <> [] -> beq (a ++ b) [10] = false.
Proof. intros A B. apply beq_neq. destruct a as [|x [|y r]]; [now elim A| |discriminate]. destruct b; [now elim B|discriminate]. Qed.

Section Image.
  Variable main : list lang.
  Variable sub : bytes -> xtree + N.
  Variable input : bytes.
  Variable emb : N -> list node -> bool.
  Notation step := (step main sub input).
  Notation run := (run main sub input).
  Notation step_clause := (step_clause main sub input emb).
  Notation run_clause := (run_clause main sub input emb).

  Section Lang.
  Variable l : lang.

  (* the node of a frame is canonical where it hangs *)
  Definition elt_ok (up : list frame) (k : fkind) : bool :=
    match k with
    | FElt tg attrs _ =>
      tag_canon l tg && (match up with [] => true | _ => tag_not_embedded l tg end) && attrs_canon l attrs &&
      (N.of_nat (List.length up) <? WBXML_MAX_NESTING_DEPTH) && (negb (tag_binary tg) || negb (beq (tag_xml_name tg) s_Data))
    | FCData => match up with [] => false | p :: _ => negb (kind_binary (f_kind p)) end
    end.

  Definition frame_ok (up : list frame) (f : frame) : Prop :=
    elt_ok up (f_kind f) = true /\ kids_canon l emb up (with_content (f_kind f) None) [] (rev (f_rkids f)) = true.

  Fixpoint anc_ok (sp : list frame) : Prop :=
    match sp with
    | [] => True
    | p :: up => frame_ok up p /\ no_content p /\ anc_ok up
    end.

  Definition spine_ok (sp : list frame) : Prop :=
    match sp with
    | [] => True
    | f :: up => frame_ok up f /\ cache_ok f /\ anc_ok up
    end.

  Lemma anc_spine sp : anc_ok sp -> spine_ok sp.
  Proof.
    destruct sp as [|f up]; [auto|]. intros (A & B & C). split; [exact A|]. split; [|exact C].
    unfold cache_ok, no_content in *. destruct (f_kind f) as [tg a [b|]|]; [contradiction|exact I|exact I].
  Qed.

  Lemma frame_ok_kind up f g : f_kind g = f_kind f -> f_rkids g = f_rkids f -> frame_ok up f -> frame_ok up g.
  Proof. unfold frame_ok. intros -> ->. auto. Qed.

  (* the frame with another cached text: nothing of frame_ok looks at it *)
  Lemma frame_ok_content up f tg a c c' :
    f_kind f = FElt tg a c -> frame_ok up f -> frame_ok up (mk_frame (FElt tg a c') (f_rkids f)).
  Proof. unfold frame_ok. intros K. rewrite K. cbn [f_kind f_rkids with_content elt_ok]. auto. Qed.

  (* one more child *)
  Lemma frame_ok_add_kid up f n :
    frame_ok up f -> node_canon l emb up (with_content (f_kind f) None) (f_rkids f) n = true -> frame_ok up (add_kid f n).
  Proof.
    unfold frame_ok, add_kid. cbn [f_kind f_rkids rev]. intros (E & K) N. split; [exact E|].
    rewrite kids_canon_snoc, K, rev_involutive. exact N.
  Qed.

  (* ---------------------------------------------------------------- leaving a node *)

  Lemma reify_canon p up f :
    frame_ok up p -> no_content p -> frame_ok (p :: up) f ->
    node_canon l emb up (with_content (f_kind p) None) (f_rkids p) (reify f) = true.
  Proof.
    intros (EP & KP) NP (EF & KF). rewrite (no_content_plain p NP). unfold reify. rewrite kids_of_rev.
    destruct (f_kind f) as [tg a c|] eqn:K; cbn [node_canon].
    - rewrite kids_fix. rewrite frame_eta. cbn [with_content] in KF. rewrite KF.
      cbn [elt_ok] in EF. rewrite !andb_true_iff in EF. destruct EF as ((((A1 & A2) & A3) & A4) & A5).
      rewrite A1, A2, A3, A4, A5. reflexivity.
    - rewrite kids_fix. rewrite frame_eta. cbn [with_content] in KF. rewrite KF. cbn [elt_ok] in EF. rewrite EF. reflexivity.
  Qed.

  Lemma go_up_ok f p up : frame_ok (p :: up) f -> anc_ok (p :: up) -> anc_ok (add_kid p (reify f) :: up).
  Proof.
    intros F (P & NP & A). cbn [anc_ok]. split; [|split; [exact NP|exact A]].
    apply frame_ok_add_kid; [exact P|]. now apply reify_canon.
  Qed.

  (* ---------------------------------------------------------------- a CDATA section, an element, an embedded tree *)

  Lemma push_cdata_ok f up :
    frame_ok up f -> cache_ok f -> is_binary_frame f = false -> anc_ok up -> spine_ok (mk_frame FCData [] :: f :: up).
  Proof.
    intros F C B A. cbn [spine_ok anc_ok]. split; [|split; [exact I|split; [exact F|split; [now apply nonbinary_no_content|exact A]]]].
    split; [|reflexivity]. cbn [f_kind elt_ok]. rewrite <- is_binary_kind, B. reflexivity.
  Qed.

  Lemma add_tree_ok up f lid roots :
    frame_ok up f -> is_binary_frame f = false -> is_cdata_frame f = false -> emb lid roots = true ->
    frame_ok up (add_kid f (NTree lid roots)).
  Proof.
    intros F B C E. apply frame_ok_add_kid; [exact F|]. cbn [node_canon]. rewrite kind_binary_with_content, <- is_binary_kind, B, E.
    unfold is_cdata_frame in C. destruct (f_kind f); [reflexivity|discriminate].
  Qed.

  (* ---------------------------------------------------------------- text *)

  Lemma text_canon_nonempty up k r b : text_canon up k r b = true -> b <> [].
  Proof. unfold text_canon. destruct b; [discriminate|discriminate]. Qed.

  (* a piece of text arrives in a node that is not binary-flagged and gets no CDATA section added *)
  Lemma add_text_ok up f d x' :
    frame_ok up f -> cache_ok f -> is_binary_frame f = false -> syncml_data_type (f :: up) = Some d -> x' <> [] ->
    (head_is_text (f_rkids f) = false -> (dt_vobject d && beq x' [10]) = false) ->        (* a NEW text node is not a lone LF *)
    (negb (dt_plain d) && negb (is_cdata_frame f) && negb (first_kid_is_cdata f)) = false ->
    frame_ok up (add_text_kid f x').
  Proof.
    intros (E & K) C B DT NX' HNL CL. pose proof (nonbinary_no_content f C B) as NC. pose proof (no_content_plain f NC) as PL.
    unfold add_text_kid. destruct (f_rkids f) as [|y r] eqn:R.
    2: destruct y as [tg0 a0 k0|t|k0| |lid0 rt0].
    3:{ (* joined with the text before *)
        split; [exact E|]. cbn [f_kind f_rkids rev] in *. rewrite kids_canon_snoc, rev_involutive in *.
        apply andb_true_iff in K. destruct K as (K1 & K2). rewrite K1. cbn [andb node_canon] in *.
        pose proof (text_canon_nonempty _ _ _ _ K2) as NT. unfold text_canon in *.
        rewrite kind_binary_with_content, <- is_binary_kind, B in *.
        destruct (t ++ x') as [|z w] eqn:TX; [apply app_eq_nil in TX; now elim NT|]. rewrite <- TX.
        destruct t as [|t0 t1]; [now elim NT|]. cbn [negb andb] in K2 |- *.
        destruct (head_is_text r); [discriminate|]. cbn [negb andb] in K2 |- *.
        destruct (syncml_data_type _) as [d'|]; [|discriminate].
        rewrite (app_not_lf (t0 :: t1) x' NT NX'). rewrite andb_false_r in *. cbn [negb] in *. rewrite andb_true_r in *.
        destruct (with_content (f_kind f) None); [|reflexivity].
        destruct (dt_plain d'); [reflexivity|]. cbn [orb] in *. apply andb_true_iff in K2. exact (proj1 K2). }
    all: pose proof (HNL eq_refl) as NL; clear HNL;
      apply frame_ok_add_kid; [split; [exact E|rewrite R; exact K]|]; rewrite R; cbn [node_canon]; unfold text_canon;
      rewrite kind_binary_with_content, <- is_binary_kind, B; cbn [head_is_text negb andb];
      (destruct x' as [|z w] eqn:X'; [now elim NX'|]); rewrite <- X'; try rewrite <- X' in NL; cbn [negb andb];
      rewrite PL, <- R, frame_eta, DT;
      unfold is_cdata_frame in CL; destruct (f_kind f) as [tg a c|];
      rewrite NL; cbn [negb]; rewrite ?andb_true_r; try reflexivity;
      cbn [negb andb] in CL; rewrite ?andb_true_r in CL;
      destruct (dt_plain d); cbn [negb andb orb] in CL |- *; try reflexivity; apply negb_false_iff in CL; exact CL.
  Qed.

  (* the decoded text of a binary-flagged node *)
  Lemma add_bin_text_ok up f dec :
    frame_ok up f -> is_binary_frame f = true -> dec <> [] -> bytes_okb dec = true -> frame_ok up (add_text_kid f dec).
  Proof.
    intros (E & K) B ND OD.
    assert (NDt : kind_is_data (with_content (f_kind f) None) = false).
    { rewrite is_binary_kind in B. destruct (f_kind f) as [tg a c|]; [|discriminate]. cbn [kind_binary] in B. cbn [elt_ok] in E.
      rewrite B in E. cbn [negb orb] in E. rewrite !andb_true_iff in E. destruct E as (_ & E). cbn. now apply negb_true_iff in E. }
    unfold add_text_kid. destruct (f_rkids f) as [|y r] eqn:R.
    2: destruct y as [tg0 a0 k0|t|k0| |lid0 rt0].
    3:{ split; [exact E|]. cbn [f_kind f_rkids rev] in *. rewrite kids_canon_snoc, rev_involutive in *.
        apply andb_true_iff in K. destruct K as (K1 & K2). rewrite K1. cbn [andb node_canon] in *.
        pose proof (text_canon_nonempty _ _ _ _ K2) as NT. unfold text_canon in *.
        rewrite kind_binary_with_content, <- is_binary_kind, B, NDt in *.
        destruct (t ++ dec) as [|z w] eqn:TX; [apply app_eq_nil in TX; now elim NT|]. rewrite <- TX.
        destruct t as [|t0 t1]; [now elim NT|]. cbn [negb andb] in K2 |- *.
        destruct (head_is_text r); [discriminate|]. cbn [negb andb] in K2 |- *. rewrite andb_true_r in *.
        unfold bytes_okb in *. rewrite forallb_app, K2, OD. reflexivity. }
    all:
      apply frame_ok_add_kid; [split; [exact E|rewrite R; exact K]|]; rewrite R; cbn [node_canon]; unfold text_canon;
      rewrite kind_binary_with_content, <- is_binary_kind, B, NDt, OD; cbn [head_is_text negb andb];
      (destruct dec; [now elim ND|reflexivity]).
  Qed.

  Lemma add_text_kid_kind f x : f_kind (add_text_kid f x) = f_kind f.
  Proof. unfold add_text_kid, add_kid. destruct (f_rkids f) as [|[] r]; reflexivity. Qed.

  Definition head_no_content (sp : list frame) : Prop := match sp with f :: _ => no_content f | [] => True end.

  Lemma flush_ok c :
    spine_ok (c_spine c) -> c_error (flush_binary c) = WBXML_OK ->
    anc_ok (c_spine (flush_binary c)) /\
    match c_spine c with
    | f :: up => exists f', c_spine (flush_binary c) = f' :: up /\ is_binary_frame f' = is_binary_frame f /\ is_cdata_frame f' = is_cdata_frame f
    | [] => c_spine (flush_binary c) = []
    end.
  Proof.
    unfold flush_binary. destruct (c_spine c) as [|f up] eqn:S; [rewrite S; cbn; auto|].
    intros (F & C & A).
    assert (SAME : no_content f -> anc_ok (f :: up) /\ exists f', f :: up = f' :: up /\ is_binary_frame f' = is_binary_frame f /\ is_cdata_frame f' = is_cdata_frame f).
    { intros NC. split; [cbn [anc_ok]; auto|]. exists f. auto. }
    destruct (f_kind f) as [[p t o nm|nm] attrs [content|]|] eqn:K; rewrite ?S.
    - assert (B : is_binary_frame f = true) by (unfold cache_ok in C; rewrite K in C; exact C).
      pose proof B as B'. unfold is_binary_frame in B'. rewrite K in B'. rewrite B'.
      destruct (buffer_b64_dec content) as [dec|] eqn:D; [|cbn; discriminate].
      intros _. cbn [c_spine set_spine]. destruct (buffer_b64_dec_some _ _ D) as (ND & OD).
      set (f0 := mk_frame (FElt (TagTok p t o nm) attrs None) (f_rkids f)).
      assert (F0 : frame_ok up f0) by (apply (frame_ok_content up f _ _ _ None K F)).
      assert (B0 : is_binary_frame f0 = true) by (unfold is_binary_frame; cbn [f0 f_kind]; exact B').
      split.
      + cbn [anc_ok]. split; [now apply add_bin_text_ok|]. split; [|exact A]. unfold no_content. now rewrite add_text_kid_kind.
      + eexists. split; [reflexivity|]. unfold is_binary_frame, is_cdata_frame. rewrite add_text_kid_kind, K. cbn [f0 f_kind]. auto.
    - intros _. apply SAME. unfold no_content. now rewrite K.
    - unfold cache_ok in C. rewrite K in C. unfold is_binary_frame in C. rewrite K in C. discriminate.
    - intros _. apply SAME. unfold no_content. now rewrite K.
    - intros _. apply SAME. unfold no_content. now rewrite K.
  Qed.
  End Lang.

  (* ---------------------------------------------------------------- the invariant *)

  Definition CInv (c : ctx) : Prop :=
    c_error c = WBXML_OK ->
    c_root c = None /\
    match c_spine c with
    | [] => c_skip_lvl c = 0
    | f :: up => exists l, c_lang c = Some l /\ spine_ok l (f :: up) /\
                           (c_skip_lvl c <> 0 -> is_binary_frame f = false /\ is_cdata_frame f = false)
    end.

  Lemma CInv_init : CInv init_ctx.
  Proof. intros _. cbn. auto. Qed.

  Lemma eqb_ok c : c_error c = WBXML_OK -> (c_error c =? WBXML_OK) = true.
  Proof. intros ->. reflexivity. Qed.

  Lemma dt_wants_plain d : dt_wants_cdata d = negb (dt_plain d).
  Proof. destruct d; reflexivity. Qed.

  Lemma skip_pos c : c_skip_lvl c <> 0 -> (0 <? c_skip_lvl c) = true.
  Proof. intros H. apply N.ltb_lt. lia. Qed.

  Ltac ok_err E' := exfalso; cbn in E'; discriminate.

  (* ------------------------------------------------ character data *)
  Lemma dt_nonplain_is_data f up d :
    is_cdata_frame f = false -> syncml_data_type (f :: up) = Some d -> dt_plain d = false -> kind_is_data (f_kind f) = true.
  Proof.
    intros C. unfold syncml_data_type. rewrite C. unfold kind_is_data. unfold is_cdata_frame in C.
    destruct (f_kind f) as [tg a ct|]; [|discriminate].
    destruct (beq (tag_xml_name tg) s_Data); [reflexivity|]. intros H; injection H as <-. discriminate.
  Qed.

  Lemma prev_nontext f up : is_binary_frame f = false -> head_is_text (f_rkids f) = false -> prev_ends_cr (f :: up) = false.
  Proof. unfold prev_ends_cr. intros -> H. destruct (f_rkids f) as [|[] r]; try reflexivity. discriminate. Qed.

  (* when the front end adds a CDATA section, the element's last child is not a text *)
  Lemma pushing_no_text_tail l up f d :
    frame_ok l up f -> no_content f -> is_cdata_frame f = false -> syncml_data_type (f :: up) = Some d ->
    dt_plain d = false -> first_kid_is_cdata f = false -> head_is_text (f_rkids f) = false.
  Proof.
    intros (E & K) NC CF DT NP NF. destruct (f_rkids f) as [|y r] eqn:R; [reflexivity|].
    destruct y as [tg0 a0 k0|t|k0| |lid0 rt0]; try reflexivity. exfalso.
    cbn [rev] in K. rewrite kids_canon_snoc, rev_involutive in K. apply andb_true_iff in K. destruct K as (_ & K2).
    cbn [node_canon] in K2. unfold text_canon in K2. rewrite (no_content_plain f NC) in K2.
    assert (FT : frame_tag f <> None) by (unfold frame_tag; unfold is_cdata_frame in CF; destruct (f_kind f); [discriminate|discriminate]).
    assert (DT2 : syncml_data_type (mk_frame (f_kind f) r :: up) = Some d).
    { rewrite <- DT. apply dt_same_tag; [reflexivity|exact FT]. }
    rewrite DT2 in K2. destruct t; [discriminate|]. cbn [negb andb] in K2. destruct (head_is_text r); [discriminate|]. cbn [negb andb] in K2.
    unfold is_cdata_frame in CF. destruct (f_kind f) as [tg a ct|] eqn:KF; [|discriminate].
    assert (ISD : kind_is_data (FElt tg a ct) = true).
    { rewrite <- KF. apply (dt_nonplain_is_data f up d); auto. unfold is_cdata_frame. now rewrite KF. }
    destruct (kind_binary (FElt tg a ct)).
    - (* binary-flagged: the text is canonical only when the element is not named Data, and the data type says it is *)
      rewrite ISD in K2. rewrite andb_false_r in K2. discriminate.
    - rewrite NP in K2. cbn [orb] in K2. apply andb_true_iff in K2. destruct K2 as (FK & _).
      unfold first_kid_is_cdata, kids_of in *. cbn [f_rkids] in FK. rewrite R in NF. rewrite !rev_append_rev, !app_nil_r in *. cbn [rev] in NF.
      destruct (rev r) as [|z w]; [discriminate|]. cbn [app] in NF. destruct z; discriminate.
  Qed.

  Lemma chars_inv c ch : CInv c -> step_clause c (EvCharacters ch) = 0 -> CInv (step c (EvCharacters ch)).
  Proof.
    intros I CL E'.
    destruct (N.eq_dec (c_error c) WBXML_OK) as [E|E]; [|now elim (error_never_cleared_step main sub input c (EvCharacters ch) E)].
    specialize (I E). unfold step_clause in CL. rewrite (eqb_ok _ E), (eqb_ok _ E') in CL. cbn [negb orb] in CL.
    destruct (N.eq_dec (c_skip_lvl c) 0) as [K|K].
    2:{ assert (U : step c (EvCharacters ch) = c).
        { cbn [XmlFront.step]. unfold on_characters. now rewrite (eqb_ok _ E), (skip_pos _ K). }
        rewrite U. exact I. }
    rewrite K in CL. cbn [N.ltb N.compare] in CL.
    destruct ch as [|b0 ch0]; [discriminate|]. set (ch := b0 :: ch0) in *.
    destruct I as (R & I). destruct (c_spine c) as [|f up] eqn:S; [discriminate|].
    destruct I as (l & L & (F & C & A) & _).
    destruct (syncml_data_type (f :: up)) as [d|] eqn:DT.
    2:{ exfalso. cbn [XmlFront.step] in E'. unfold on_characters in E'. rewrite (eqb_ok _ E), K, S, DT in E'. cbn in E'. discriminate. }
    rewrite (on_characters_normal main sub input c f up d ch E K S DT) in *. rewrite dt_wants_plain in *.
    assert (NX : ch <> []) by discriminate.
    destruct (negb (dt_plain d) && negb (is_cdata_frame f) && negb (first_kid_is_cdata f)) eqn:PU.
    - (* the front end adds a CDATA section *)
      apply andb_true_iff in PU. destruct PU as (PU & NF). apply andb_true_iff in PU. destruct PU as (NP & NC).
      apply negb_true_iff in NP. apply negb_true_iff in NC. apply negb_true_iff in NF.
      pose proof (dt_nonplain_is_data f up d NC DT NP) as ISD.
      assert (B : is_binary_frame f = false).
      { destruct F as (EO & _). rewrite is_binary_kind. unfold kind_is_data in ISD. destruct (f_kind f) as [tg a ct|]; [|reflexivity].
        cbn [elt_ok kind_binary] in *. rewrite ISD in EO. cbn [negb] in EO. rewrite orb_false_r in EO.
        rewrite !andb_true_iff in EO. destruct EO as (_ & EO). now apply negb_true_iff in EO. }
      cbn [c_root c_spine c_lang c_skip_lvl set_spine]. split; [exact R|]. exists l. split; [exact L|]. split; [|intros X; now elim X].
      set (C0 := mk_frame FCData []).
      assert (FT : frame_tag f <> None) by (unfold frame_tag; unfold is_cdata_frame in NC; destruct (f_kind f); [discriminate|discriminate]).
      assert (DT0 : syncml_data_type (C0 :: f :: up) = Some d) by (rewrite (dt_through_cdata C0 f f up eq_refl eq_refl FT); exact DT).
      assert (F0 : frame_ok l (f :: up) C0).
      { split; [|reflexivity]. cbn [C0 f_kind elt_ok]. now rewrite <- is_binary_kind, B. }
      unfold store. change (is_binary_frame C0) with false. cbv iota.
      cbn [spine_ok anc_ok]. split; [|split; [|split; [exact F|split; [now apply nonbinary_no_content|exact A]]]].
      + apply (add_text_ok l (f :: up) C0 d _ F0 Logic.I eq_refl DT0 (lf_hack_nonempty d _ ch NX)); [|now rewrite andb_false_r].
        intros _. destruct (dt_vobject d) eqn:V; [|reflexivity]. cbn [andb].
        rewrite (prev_nontext f up B (pushing_no_text_tail l up f d F (nonbinary_no_content f C B) NC DT NP NF)).
        now apply lf_hack_not_lf.
      + unfold cache_ok. now rewrite add_text_kid_kind.
    - cbn [c_root c_spine c_lang c_skip_lvl set_spine]. split; [exact R|]. exists l. split; [exact L|]. split; [|intros X; now elim X].
      cbn [spine_ok]. unfold store. destruct (is_binary_frame f) eqn:B.
      + destruct (f_kind f) as [tg a ct|] eqn:KF.
        * split; [now apply (frame_ok_content l up f tg a ct)|]. split; [|exact A].
          unfold cache_ok, is_binary_frame in *. cbn [f_kind]. rewrite KF in B. exact B.
        * auto.
      + split; [apply (add_text_ok l up f d); auto; [now apply lf_hack_nonempty|]|].
        { intros HT. destruct (dt_vobject d) eqn:V; [|reflexivity]. cbn [andb]. rewrite (prev_nontext f up B HT). now apply lf_hack_not_lf. }
        split; [|exact A].
        unfold cache_ok. rewrite add_text_kid_kind. pose proof (nonbinary_no_content f C B) as NC. unfold no_content in NC.
        destruct (f_kind f) as [tg a [ct|]|]; [contradiction|exact Logic.I|exact Logic.I].
  Qed.

  (* ------------------------------------------------ CDATA sections *)
  Lemma start_cdata_inv c : CInv c -> step_clause c EvStartCdata = 0 -> CInv (step c EvStartCdata).
  Proof.
    intros I CL E'.
    destruct (N.eq_dec (c_error c) WBXML_OK) as [E|E]; [|now elim (error_never_cleared_step main sub input c EvStartCdata E)].
    specialize (I E). unfold step_clause in CL. rewrite (eqb_ok _ E), (eqb_ok _ E') in CL. cbn [negb orb] in CL.
    cbn [XmlFront.step] in *. unfold on_start_cdata in *. rewrite (eqb_ok _ E) in *. cbn [negb] in *.
    destruct (0 <? c_skip_lvl c) eqn:K; [exact I|]. apply N.ltb_ge in K.
    destruct I as (R & I). destruct (c_spine c) as [|f up] eqn:S; [discriminate|].
    destruct I as (l & L & (F & C & A) & _).
    destruct (is_binary_frame f) eqn:B; [discriminate|].
    unfold push_frame in *. rewrite S in *. cbn [c_root c_spine c_lang c_skip_lvl set_spine].
    split; [exact R|]. exists l. split; [exact L|]. split; [now apply push_cdata_ok|intros X; lia].
  Qed.

  Lemma end_cdata_inv c : CInv c -> CInv (step c EvEndCdata).
  Proof.
    intros I E'.
    destruct (N.eq_dec (c_error c) WBXML_OK) as [E|E]; [|now elim (error_never_cleared_step main sub input c EvEndCdata E)].
    specialize (I E). cbn [XmlFront.step] in *. unfold on_end_cdata in *. rewrite (eqb_ok _ E) in *. cbn [negb] in *.
    destruct (0 <? c_skip_lvl c) eqn:K; [exact I|]. apply N.ltb_ge in K.
    destruct I as (R & I). destruct (c_spine c) as [|f [|p up]] eqn:S.
    - cbn in E'. discriminate.
    - rewrite S. auto.
    - destruct I as (l & L & (F & C & A) & _). unfold go_up in *. rewrite S in *. cbn [c_root c_spine c_lang c_skip_lvl set_spine].
      split; [exact R|]. exists l. split; [exact L|]. split; [|intros X; lia].
      apply anc_spine. now apply go_up_ok.
  Qed.

  (* ------------------------------------------------ XML declaration, DOCTYPE, processing instructions *)
  Lemma decl_inv c e :
    match e with EvXmlDecl _ _ | EvStartDoctype _ _ _ => True | _ => False end ->
    CInv c -> step_clause c e = 0 -> CInv (step c e).
  Proof.
    intros D I CL E'.
    destruct (N.eq_dec (c_error c) WBXML_OK) as [E|E]; [|now elim (error_never_cleared_step main sub input c e E)].
    specialize (I E). unfold step_clause in CL. rewrite (eqb_ok _ E), (eqb_ok _ E') in CL. cbn [negb orb] in CL.
    pose proof (step_decl_fields main sub input c e) as FD.
    destruct e; try contradiction; destruct FD as (R' & S' & _ & K' & _); rewrite R', S', K';
      (destruct (c_spine c); [exact I|discriminate]).
  Qed.

  (* ------------------------------------------------ end tags *)
  Lemma go_up_two c f p r : c_spine c = f :: p :: r -> go_up c = set_spine c (add_kid p (reify f) :: r).
  Proof. unfold go_up. now intros ->. Qed.

  Lemma end_elt_inv c name idx : CInv c -> step_clause c (EvEndElement name idx) = 0 -> CInv (step c (EvEndElement name idx)).
  Proof.
    intros I CL E'.
    destruct (N.eq_dec (c_error c) WBXML_OK) as [E|E]; [|now elim (error_never_cleared_step main sub input c (EvEndElement name idx) E)].
    specialize (I E). unfold step_clause in CL. rewrite (eqb_ok _ E), (eqb_ok _ E') in CL. cbn [negb orb] in CL.
    cbn [XmlFront.step] in *. unfold on_end_element in *.
    destruct (flush_binary_fields c) as (FL & _ & _ & FR & FK & _ & _).
    set (c1 := flush_binary c) in *.
    destruct (N.eq_dec (c_error c1) WBXML_OK) as [E1|E1].
    2:{ exfalso. rewrite (failed_eqb c1 E1) in E'. contradiction. }
    rewrite (eqb_ok _ E1) in *. cbn [negb] in *. rewrite FK in *.
    destruct I as (R & I). destruct (c_spine c) as [|f up] eqn:S.
    { exfalso. rewrite I in E'. cbn [N.ltb N.compare] in E'. unfold leave_current in E'.
      assert (S1 : c_spine c1 = []) by (subst c1; unfold flush_binary; now rewrite S).
      rewrite S1 in E'. cbn in E'. discriminate. }
    destruct I as (l & L & SP & SK).
    assert (FO := flush_ok l c). rewrite S in FO. fold c1 in FO. destruct (FO SP E1) as (A1 & f' & S1 & B1 & C1). clear FO. rewrite S1 in A1.
    destruct (N.eq_dec (c_skip_lvl c) 0) as [K|K].
    - rewrite K in *. cbn [N.ltb N.compare] in *.
      unfold leave_current in *. rewrite S1 in *. rewrite R in FR. destruct up as [|p r].
      + split; [exact FR|]. rewrite S1. exists l. rewrite FL. split; [exact L|]. split; [now apply anc_spine|intros X; lia].
      + destruct A1 as (F1 & _ & A1). pose proof (go_up_ok l f' p r F1 A1) as G1.
        destruct (is_cdata_frame f') eqn:CF'.
        * destruct r as [|q r']; [rewrite <- C1 in CL; discriminate|].
          rewrite (go_up_two c1 _ _ _ S1) in *. rewrite (go_up_two (set_spine c1 _) _ _ _ eq_refl) in *.
          cbn [c_root c_spine c_lang c_skip_lvl set_spine].
          split; [exact FR|]. exists l. rewrite FL. split; [exact L|]. split; [|intros X; lia].
          apply anc_spine. destruct G1 as (G1 & _ & G2). now apply go_up_ok.
        * rewrite (go_up_two c1 _ _ _ S1) in *. cbn [c_root c_spine c_lang c_skip_lvl set_spine].
          split; [exact FR|]. exists l. rewrite FL. split; [exact L|]. split; [|intros X; lia].
          now apply anc_spine.
    - destruct (SK K) as (BF & CF). rewrite (skip_pos _ K) in *.
      assert (BASE : forall c2, c_root c2 = c_root c1 -> c_spine c2 = c_spine c1 -> c_lang c2 = c_lang c1 ->
                                c_root c2 = None /\
                                match c_spine c2 with
                                | [] => c_skip_lvl c2 = 0
                                | f0 :: up0 => exists l0, c_lang c2 = Some l0 /\ spine_ok l0 (f0 :: up0) /\
                                                          (c_skip_lvl c2 <> 0 -> is_binary_frame f0 = false /\ is_cdata_frame f0 = false)
                                end).
      { intros c2 R2 S2 L2. rewrite R2, S2, L2, FR, S1, FL. split; [exact R|]. exists l. split; [exact L|].
        split; [now apply anc_spine|]. intros _. rewrite B1, C1. auto. }
      destruct (c_skip_lvl c =? 1) eqn:K1; [|apply BASE; reflexivity].
      destruct (is_embedded_name name); [|discriminate].
      destruct (c_lang c1) as [tl|] eqn:TL; [|ok_err E'].
      destruct (beq name n_MgmtTree && negb (l_id tl =? LANG_SYNCML12)); [ok_err E'|].
      destruct (if l_id tl =? LANG_SYNCML10 then Some LANG_DEVINF10
                else if l_id tl =? LANG_SYNCML11 then Some LANG_DEVINF11
                else if l_id tl =? LANG_SYNCML12 then Some (if beq name n_MgmtTree then LANG_DMDDF12 else LANG_DEVINF12) else None) as [id|]; [|ok_err E'].
      destruct (get_table main id) as [el|]; [|ok_err E'].
      destruct (embedded_doc input el (c_skip_start c1) idx (if beq name n_MgmtTree then close_MgmtTree else close_DevInf)) as [doc|]; [|ok_err E'].
      destruct (sub doc) as [t|e].
      2:{ apply BASE; [reflexivity|reflexivity|exact TL]. }
      rewrite S1 in *. cbn [c_root c_spine c_lang c_skip_lvl set_spine set_skip f_rkids add_kid] in *.
      unfold add_kid in CL. cbn [f_rkids] in CL. destruct (emb (xt_lang t) (xt_roots t)) eqn:EM; [|discriminate].
      rewrite R in FR. split; [exact FR|]. exists l. split; [rewrite TL, FL; exact L|]. split; [|intros X; now elim X].
      destruct A1 as (F1 & N1 & A1). cbn [spine_ok]. split; [|split; [|exact A1]].
      + apply add_tree_ok; auto; congruence.
      + unfold cache_ok, no_content, add_kid in *. cbn [f_kind]. destruct (f_kind f') as [tg a [ct|]|]; [contradiction|exact I|exact I].
  Qed.

  (* ------------------------------------------------ start tags *)
  Lemma elt_clause_ok l up tg attrs :
    elt_clause l up (FElt tg attrs None) = 0 -> (N.of_nat (List.length up) <? WBXML_MAX_NESTING_DEPTH) = true ->
    elt_ok l up (FElt tg attrs None) = true.
  Proof.
    unfold elt_clause, elt_ok. intros CL DP. rewrite DP.
    destruct (tag_canon l tg); [|discriminate]. cbn [negb andb] in *.
    assert (T : (match up with [] => true | _ :: _ => tag_not_embedded l tg end) = true).
    { destruct up; [reflexivity|]. cbn [andb] in CL. destruct (tag_not_embedded l tg); [reflexivity|discriminate]. }
    rewrite T. assert (CL' : (if negb (attrs_canon l attrs) then 7 else if tag_binary tg && beq (tag_xml_name tg) s_Data then 9 else 0) = 0).
    { destruct up; [exact CL|]. cbn [andb] in CL. destruct (tag_not_embedded l tg); [exact CL|discriminate]. }
    destruct (attrs_canon l attrs); [|discriminate]. cbn [negb andb] in *.
    destruct (tag_binary tg); [|reflexivity]. destruct (beq (tag_xml_name tg) s_Data); [discriminate|reflexivity].
  Qed.

  Lemma start_elt_inv c name attrs idx :
    CInv c -> step_clause c (EvStartElement name attrs idx) = 0 -> CInv (step c (EvStartElement name attrs idx)).
  Proof.
    intros I CL E'.
    destruct (N.eq_dec (c_error c) WBXML_OK) as [E|E]; [|now elim (error_never_cleared_step main sub input c (EvStartElement name attrs idx) E)].
    specialize (I E). unfold step_clause in CL. rewrite (eqb_ok _ E), (eqb_ok _ E') in CL. cbn [negb orb] in CL.
    cbn [XmlFront.step] in *. unfold on_start_element in *. rewrite (eqb_ok _ E) in *. cbn [negb] in *.
    destruct I as (R & I).
    destruct (N.eq_dec (c_skip_lvl c) 0) as [K|K].
    2:{ rewrite (skip_pos _ K) in *. cbn [c_root c_spine c_lang c_skip_lvl set_skip]. split; [exact R|].
        destruct (c_spine c) as [|f up]; [contradiction|]. destruct I as (l & L & SP & SK). exists l. split; [exact L|]. split; [exact SP|].
        intros _. exact (SK K). }
    rewrite K in *. cbn [N.ltb N.compare] in *.
    destruct (c_spine c) as [|f up] eqn:S.
    - (* the root element *)
      set (c1 := match c_lang c with
                 | Some _ => c
                 | None => match search_table main None None (Some (str name)) with
                           | Some l => set_lang c (Some l)
                           | None => set_error c E_UNKNOWN_XML_LANGUAGE
                           end
                 end) in *.
      assert (H1 : failed c1 \/ (c_error c1 = WBXML_OK /\ c_spine c1 = [] /\ c_root c1 = None /\ c_skip_lvl c1 = 0 /\ exists l, c_lang c1 = Some l)).
      { subst c1. destruct (c_lang c) as [l|] eqn:L; [right; rewrite L; repeat split; eauto|].
        destruct (search_table main None None (Some (str name))) as [l|]; [right; cbn; repeat split; eauto|left; unfold failed; cbn; discriminate]. }
      destruct H1 as [X|(E1 & S1 & R1 & K1 & l & L1)].
      { exfalso. rewrite (failed_eqb _ X) in E'. contradiction. }
      rewrite (eqb_ok _ E1), S1 in *. rewrite andb_false_r in *. cbn [negb] in *.
      assert (FN : flush_binary c1 = c1) by (unfold flush_binary; now rewrite S1).
      rewrite FN in *. unfold start_child in *. rewrite (eqb_ok _ E1), S1, L1 in *. cbn [List.length N.of_nat negb] in *.
      change (WBXML_MAX_NESTING_DEPTH <=? 0) with false in *. cbv iota in *.
      destruct (resolve_tag l name) as [tag page].
      unfold push_frame in *. cbn [c_spine c_root set_page] in *. rewrite S1, R1 in *.
      cbn [c_root c_spine c_lang c_skip_lvl set_spine set_page] in *. split; [exact R1|].
      unfold head_clause in CL. cbn [c_spine c_lang set_spine set_page] in CL. rewrite L1 in CL. cbn [f_kind] in CL.
      exists l. split; [exact L1|]. split; [|intros X; now elim X].
      cbn [spine_ok anc_ok]. split; [|split; exact Logic.I]. split; [|reflexivity]. cbn [f_kind].
      apply elt_clause_ok; [exact CL|reflexivity].
    - destruct I as (l & L & SP & _). rewrite ?(eqb_ok _ E), ?S in *. cbn [negb] in *.
      destruct (is_embedded_name name) eqn:EN; cbn [negb andb] in *.
      + cbn [c_root c_spine c_lang c_skip_lvl set_skip]. rewrite S. split; [exact R|]. exists l. split; [exact L|]. split; [exact SP|].
        intros _. destruct (is_binary_frame f); [discriminate|]. destruct (is_cdata_frame f); [discriminate|]. auto.
      + destruct (flush_binary_fields c) as (FL & _ & _ & FR & FK & _ & _).
        set (c2 := flush_binary c) in *.
        destruct (N.eq_dec (c_error c2) WBXML_OK) as [E2|E2].
        2:{ exfalso. unfold start_child in E'. rewrite (failed_eqb c2 E2) in E'. contradiction. }
        assert (FO := flush_ok l c). rewrite S in FO. fold c2 in FO. destruct (FO SP E2) as (A2 & f' & S2 & _). clear FO. rewrite S2 in A2.
        unfold start_child in *. rewrite (eqb_ok _ E2), S2, FL, L in *. cbn [negb] in *.
        destruct (WBXML_MAX_NESTING_DEPTH <=? N.of_nat (List.length (f' :: up))) eqn:DP; [ok_err E'|].
        destruct (resolve_tag l name) as [tag page].
        unfold push_frame in *. cbn [c_spine c_root set_page] in *. rewrite S2 in *.
        cbn [c_root c_spine c_lang c_skip_lvl set_spine set_page] in *. rewrite FR, FL, FK. split; [exact R|].
        unfold head_clause in CL. cbn [c_spine c_lang set_spine set_page] in CL. rewrite ?FL, ?L in CL. cbn [f_kind] in CL.
        exists l. split; [reflexivity|]. split; [|intros X; now elim (X K)].
        cbn [spine_ok]. split; [|split; [exact Logic.I|exact A2]]. split; [|reflexivity]. cbn [f_kind].
        apply elt_clause_ok; [exact CL|]. apply N.ltb_lt. apply N.leb_gt in DP. exact DP.
  Qed.

  (* ------------------------------------------------ every event *)
  Theorem step_inv c e : CInv c -> step_clause c e = 0 -> CInv (step c e).
  Proof.
    intros I CL. destruct e as [v enc|dn sysid pubid| |name attrs idx|name idx|ch| | |tg dt].
    - now apply decl_inv.
    - now apply decl_inv.
    - exact I.
    - now apply start_elt_inv.
    - now apply end_elt_inv.
    - now apply chars_inv.
    - now apply start_cdata_inv.
    - now apply end_cdata_inv.
    - exact I.
  Qed.

  Theorem run_inv evs : forall c, CInv c -> run_clause c evs = 0 -> CInv (run c evs).
  Proof.
    induction evs as [|e r IH]; intros c I CL; [exact I|].
    rewrite run_cons. cbn [XmlFrontCanonEvents.run_clause] in CL. cbv zeta in CL.
    destruct (step_clause c e =? 0) eqn:Z.
    - apply N.eqb_eq in Z. apply IH; [now apply step_inv|exact CL].
    - apply N.eqb_neq in Z. contradiction.
  Qed.

  (* ------------------------------------------------ the language comes from the table *)
  Definition lang_in (c : ctx) : Prop := forall l, c_lang c = Some l -> In l main.

  Lemma push_frame_lang c f e : c_lang (push_frame c f e) = c_lang c.
  Proof. unfold push_frame. destruct (c_spine c); [destruct (c_root c)|]; reflexivity. Qed.
  Lemma add_text_lang c t : c_lang (add_text c t) = c_lang c.
  Proof. unfold add_text. destruct (c_spine c); [destruct (c_root c)|]; reflexivity. Qed.
  Lemma go_up_lang c : c_lang (go_up c) = c_lang c.
  Proof. apply go_up_fields. Qed.
  Lemma leave_current_lang c : c_lang (leave_current c) = c_lang c.
  Proof. unfold leave_current. destruct (c_spine c) as [|f [|p r]]; try reflexivity. destruct (is_cdata_frame f); now rewrite ?go_up_lang. Qed.
  Lemma flush_lang c : c_lang (flush_binary c) = c_lang c.
  Proof. apply flush_binary_fields. Qed.
  Lemma start_child_lang c name attrs : c_lang (start_child c name attrs) = c_lang c.
  Proof.
    unfold start_child. destruct (negb _); [reflexivity|]. destruct (_ <=? _); [reflexivity|].
    destruct (c_lang c) as [l|] eqn:L; [|cbn; exact L]. destruct (resolve_tag l name) as [tag page].
    rewrite push_frame_lang. cbn. exact L.
  Qed.
  Lemma on_characters_lang c ch : c_lang (on_characters c ch) = c_lang c.
  Proof.
    unfold on_characters. destruct (negb _); [reflexivity|]. destruct (0 <? _); [reflexivity|].
    destruct (syncml_data_type _) as [d|]; [|reflexivity].
    match goal with |- c_lang (let '(ch1, want_cdata) := ?p in _) = _ => destruct p as [ch1 want] end.
    set (c1 := match c_spine c with
               | f :: _ => if want && negb (is_cdata_frame f) && negb (first_kid_is_cdata f) then push_frame c (mk_frame FCData []) E_INTERNAL else c
               | [] => c
               end).
    assert (L1 : c_lang c1 = c_lang c).
    { subst c1. destruct (c_spine c) as [|f up]; [reflexivity|]. destruct (_ && _ && _); [apply push_frame_lang|reflexivity]. }
    destruct (c_spine c1) as [|f up]; [now rewrite add_text_lang|].
    destruct (is_binary_frame f); [destruct (f_kind f); cbn; exact L1|now rewrite add_text_lang].
  Qed.

  Lemma lang_in_same c c' : c_lang c' = c_lang c -> lang_in c -> lang_in c'.
  Proof. unfold lang_in. intros ->. auto. Qed.

  Lemma lang_in_step c e : lang_in c -> lang_in (step c e).
  Proof.
    intros P. destruct e as [v enc|dn sysid pubid| |name attrs idx|name idx|ch| | |tg dt]; cbn [XmlFront.step].
    - apply (lang_in_same c); [|exact P]. unfold on_xml_decl. destruct v, enc; try reflexivity. destruct (charset_get_mib _); reflexivity.
    - unfold on_start_doctype. destruct (search_table main _ _ None) as [l|] eqn:ST; [|exact P].
      intros l' H. cbn in H. injection H as <-. exact (search_table_in _ _ _ _ _ ST).
    - exact P.
    - unfold on_start_element. destruct (negb _); [exact P|]. destruct (0 <? _); [exact P|].
      set (c1 := match c_spine c, c_lang c with
                 | [], None => match search_table main None None (Some (str name)) with
                               | None => set_error c E_UNKNOWN_XML_LANGUAGE
                               | Some l => set_lang c (Some l)
                               end
                 | _, _ => c
                 end).
      assert (P1 : lang_in c1).
      { subst c1. destruct (c_spine c); [|exact P]. destruct (c_lang c) eqn:L; [exact P|].
        destruct (search_table main None None (Some (str name))) as [l|] eqn:ST; [|exact P].
        intros l' H. cbn in H. injection H as <-. exact (search_table_in _ _ _ _ _ ST). }
      destruct (negb _); [exact P1|]. destruct (_ && _); [exact P1|].
      apply (lang_in_same c1); [|exact P1]. now rewrite start_child_lang, flush_lang.
    - apply (lang_in_same c); [|exact P]. unfold on_end_element. rewrite <- (flush_lang c). set (c1 := flush_binary c).
      destruct (negb _); [reflexivity|]. destruct (0 <? _); [|apply leave_current_lang].
      destruct (_ =? 1); [|reflexivity]. destruct (is_embedded_name name); [|apply leave_current_lang].
      destruct (c_lang c1) as [tl|] eqn:TL; [|cbn; exact TL].
      destruct (_ && _); [cbn; exact TL|].
      destruct (if l_id tl =? LANG_SYNCML10 then _ else _) as [id|]; [|cbn; exact TL].
      destruct (get_table main id) as [el|]; [|cbn; exact TL].
      destruct (embedded_doc _ _ _ _ _) as [doc|]; [|cbn; exact TL].
      destruct (sub doc) as [t|e]; [|cbn; exact TL].
      destruct (c_spine c1); [destruct (c_root c1)|]; cbn; exact TL.
    - apply (lang_in_same c); [|exact P]. apply on_characters_lang.
    - apply (lang_in_same c); [|exact P]. unfold on_start_cdata. destruct (negb _); [reflexivity|]. destruct (0 <? _); [reflexivity|]. apply push_frame_lang.
    - apply (lang_in_same c); [|exact P]. unfold on_end_cdata. destruct (negb _); [reflexivity|]. destruct (0 <? _); [reflexivity|].
      destruct (c_spine c) as [|f [|p r]] eqn:S; try reflexivity. apply go_up_lang.
    - exact P.
  Qed.

  Lemma lang_in_run evs : forall c, lang_in c -> lang_in (run c evs).
  Proof. induction evs as [|e r IH]; intros c P; [exact P|]. rewrite run_cons. apply IH. now apply lang_in_step. Qed.

  (* ------------------------------------------------ the tree handed out: the open nodes closed *)
  Lemma close_canon l : forall up f, frame_ok l up f -> anc_ok l up ->
    exists r, close_spine (Some (reify f)) up = Some r /\ root_canon l emb r = true.
  Proof.
    induction up as [|p up IH]; intros f F A.
    - exists (reify f). split; [reflexivity|]. destruct F as (EO & K). unfold reify. rewrite kids_of_rev.
      destruct (f_kind f) as [tg a ct|]; [|discriminate]. cbn [elt_ok with_content] in *. cbn [root_canon].
      rewrite !andb_true_iff in EO. destruct EO as ((((A1 & _) & A3) & _) & A5). now rewrite A1, A3, A5, K.
    - cbn [close_spine]. destruct A as (P & NP & A). apply IH; [|exact A].
      apply frame_ok_add_kid; [exact P|]. now apply reify_canon.
  Qed.

  (* for EVERY event list on which no clause fires: if a tree is handed out and it has a root, the root is canonical *)
  Theorem image_canonical_any evs ok t :
    evs_canon main sub input emb evs = true -> tree_from_xml main sub input evs ok = inl t ->
    xt_roots t = [] \/
    exists l r, In l main /\ c_lang (run init_ctx evs) = Some l /\ xt_lang t = l_id l /\ xt_roots t = [r] /\ root_canon l emb r = true.
  Proof.
    unfold evs_canon, evs_clause, tree_from_xml. intros CL T. apply N.eqb_eq in CL.
    destruct input eqn:IN; [discriminate|]. rewrite <- IN in *. clear IN. destruct (negb ok); [discriminate|].
    pose proof (run_inv evs init_ctx CInv_init CL) as I.
    assert (P : lang_in (run init_ctx evs)) by (apply lang_in_run; intros l H; discriminate).
    set (c := run init_ctx evs) in *.
    destruct (c_error c =? WBXML_OK) eqn:E; [|discriminate]. apply N.eqb_eq in E. cbn [negb] in T. injection T as <-.
    destruct (I E) as (R & SP). unfold tree_of_ctx, root_of. cbn [xt_roots xt_lang].
    destruct (c_spine c) as [|f up]; [left; now rewrite R|].
    destruct SP as (l & L & (F & _ & A) & _). right.
    destruct (close_canon l up f F A) as (r & CS & RC). exists l, r. cbn [close_spine]. rewrite CS, L. auto.
  Qed.

  (* the shape Expat delivers: there is a root *)
  Theorem image_canonical prolog root attrs i i' body epilog ok t :
    (forall d, sub d <> inr WBXML_OK) ->          (* the nested parse reports a failure with an error code *)
    Forall prolog_any prolog -> balanced body -> Forall is_pi epilog -> N.of_nat (List.length body) + 1 < 4294967296 ->
    let evs := prolog ++ EvStartElement root attrs i :: body ++ EvEndElement root i' :: epilog in
    evs_canon main sub input emb evs = true -> tree_from_xml main sub input evs ok = inl t ->
    exists l r, In l main /\ c_lang (run init_ctx evs) = Some l /\ xt_lang t = l_id l /\ xt_roots t = [r] /\ root_canon l emb r = true.
  Proof.
    intros SN FP HB FE LEN evs CL T. destruct (image_canonical_any evs ok t CL T) as [NR|H]; [|exact H]. exfalso.
    pose proof (document_balance main sub input SN prolog root attrs i i' body epilog FP HB FE LEN) as DB. cbv zeta in DB. fold evs in DB.
    unfold tree_from_xml in T. destruct input eqn:IN; [discriminate|]. rewrite <- IN in *. clear IN. destruct (negb ok); [discriminate|].
    destruct (c_error (run init_ctx evs) =? WBXML_OK) eqn:E; [|discriminate]. apply N.eqb_eq in E. cbn [negb] in T. injection T as <-.
    destruct DB as [X|(_ & f & S & _)]; [now elim X|].
    unfold tree_of_ctx, root_of in NR. cbn [xt_roots] in NR. rewrite S in NR. cbn in NR. discriminate.
  Qed.
End Image.

(* ------------------------------------------------------------------ the front end is idempotent on canonical event lists *)

From Wbxml Require Import Proofs.XmlFrontSize Gen.TablesData.

(* reading the events written for the tree gives the tree again (with the charset of a document that declares none).
   No hypothesis on the tree: only on the event list it came from, on the table (each language is selected by its own
   DOCTYPE) and on what the nested parse answers on re-reading (nothing to say when emb = no_emb). *)
Theorem front_idempotent main sub input emb sub' input' evs ok t :
  (forall l, In l main -> search_table main (option_map str (option_map bs (l_pub_text l))) (option_map str (option_map bs (l_dtd l))) None = Some l) ->
  (forall l lid roots, In l main -> emb lid roots = true -> emb_spec main sub' input' l lid roots) ->
  input' <> [] ->
  evs_canon main sub input emb evs = true -> tree_from_xml main sub input evs ok = inl t -> xt_roots t <> [] ->
  exists l r, xt_roots t = [r] /\ xt_lang t = l_id l /\ root_canon l emb r = true /\
              tree_from_xml main sub' input' (events_of l r) true = inl (mk_xtree (xt_lang t) 0 (xt_roots t)).
Proof.
  intros TB EO NI CL T NR.
  destruct (image_canonical_any main sub input emb evs ok t CL T) as [X|(l & r & IN & _ & LG & R & RC)]; [contradiction|].
  exists l, r. split; [exact R|]. split; [exact LG|]. split; [exact RC|]. rewrite R, LG.
  exact (front_inverts_events main sub' input' l emb (fun lid roots H => EO l lid roots IN H) r NI (TB l IN) RC).
Qed.

(* every language of the project's table is selected by its own DOCTYPE *)
Lemma main_table_doctype_selects :
  forall l, In l main_table ->
  search_table main_table (option_map str (option_map bs (l_pub_text l))) (option_map str (option_map bs (l_dtd l))) None = Some l.
Proof.
  assert (F : Forall (fun l => search_table main_table (option_map str (option_map bs (l_pub_text l))) (option_map str (option_map bs (l_dtd l))) None = Some l) main_table).
  { unfold main_table. repeat (constructor; [vm_compute; reflexivity|]). constructor. }
  intros l I. rewrite Forall_forall in F. now apply F.
Qed.

(* the project's table, documents without embedded documents, no encoding declared: the same tree *)
Theorem front_idempotent_main sub input sub' input' evs ok t :
  input' <> [] ->
  evs_canon main_table sub input no_emb evs = true -> tree_from_xml main_table sub input evs ok = inl t ->
  xt_roots t <> [] -> xt_charset t = 0 ->
  exists l r, xt_roots t = [r] /\ xt_lang t = l_id l /\ tree_from_xml main_table sub' input' (events_of l r) true = inl t.
Proof.
  intros NI CL T NR CS.
  destruct (front_idempotent main_table sub input no_emb sub' input' evs ok t main_table_doctype_selects
                             (fun l lid roots _ H => no_emb_ok main_table sub' input' l lid roots H) NI CL T NR) as (l & r & R & LG & _ & F).
  exists l, r. split; [exact R|]. split; [exact LG|]. rewrite F. destruct t as [lg cs rt]. cbn in *. now subst cs.
Qed.

(* ------------------------------------------------------------------ clauses 6 and 8 are silent on the project's tables *)

(* a name that is in the table is found from every code page a namespace can select *)
Definition lang_names_found (l : lang) : bool :=
  forallb (fun r => forallb (fun q => match tag_from_xml l (Some q) (t_name r) with Some _ => true | None => false end)
                            (cand_pages l)) (opt_list (l_tags l)).

Lemma main_table_names_found : forallb lang_names_found main_table = true.
Proof. vm_compute. reflexivity. Qed.

Lemma unknown_name_everywhere l q q' nm :
  lang_names_found l = true -> In q (cand_pages l) -> tag_from_xml l (Some q) nm = None -> tag_from_xml l (Some q') nm = None.
Proof.
  intros NF IQ T. destruct (tag_from_xml l (Some q') nm) as [r'|] eqn:T'; [|reflexivity]. exfalso.
  pose proof (XmlFrontNames.tag_from_xml_in _ _ _ _ T') as IN. pose proof (tag_from_xml_name _ _ _ _ T') as NM.
  unfold lang_names_found in NF. rewrite forallb_forall in NF. specialize (NF r' IN). rewrite forallb_forall in NF.
  specialize (NF q IQ). rewrite NM, T in NF. discriminate.
Qed.

Lemma split_last_none sep : forall s a b, split_last sep s = Some (a, b) -> split_last sep b = None.
Proof.
  induction s as [|x r IH]; intros a b; cbn [split_last]; [discriminate|].
  destruct (split_last sep r) as [[a' b']|] eqn:SL.
  - intros H; injection H as <- <-. exact (IH _ _ eq_refl).
  - destruct (x =? sep); [|discriminate]. intros H; injection H as <- <-. exact SL.
Qed.

Lemma beq_refl a : beq a a = true.
Proof. now apply beq_eq. Qed.

(* whatever name is delivered, the tag made for it is found again from the name written for it *)
Theorem resolve_tag_canon l name :
  lang_tags_canon l = true -> lang_names_found l = true -> tag_canon l (fst (resolve_tag l name)) = true.
Proof.
  intros TC NF. destruct (fst (resolve_tag l name)) as [p t o nm|nm] eqn:R.
  - exact (resolve_tag_token_canon l name p t o nm TC R).
  - unfold resolve_tag in R.
    destruct (match split_last SEP name with Some (a, b) => (a, b) | None => ([], name) end) as [ns local] eqn:SP.
    destruct (tag_from_xml l (Some (page_of_xmlns l (str ns))) (str local)) as [row|] eqn:T; cbn [fst] in R; [discriminate|].
    injection R as <-.
    assert (NS : split_last SEP local = None).
    { destruct (split_last SEP name) as [[a b]|] eqn:SL; injection SP as <- <-; [exact (split_last_none _ _ _ _ SL)|exact SL]. }
    unfold tag_canon. cbn [ev_name]. unfold resolve_tag. rewrite NS.
    rewrite (unknown_name_everywhere l _ (page_of_xmlns l (str [])) _ NF (page_of_xmlns_cand l (str ns)) T).
    cbn [fst tagname_eqb]. apply beq_refl.
Qed.

Lemma obeq_refl a : obeq a a = true.
Proof. destruct a; [apply beq_refl|reflexivity]. Qed.
Lemma attr_eqb_refl a : attr_eqb a a = true.
Proof.
  unfold attr_eqb, attrname_eqb. destruct (at_name a); rewrite ?N.eqb_refl, ?beq_refl, ?obeq_refl; reflexivity.
Qed.
Lemma list_eqb_refl {A} (eqb : A -> A -> bool) : (forall x, eqb x x = true) -> forall a, list_eqb eqb a a = true.
Proof. intros H. induction a as [|x r IH]; [reflexivity|]. cbn. now rewrite H, IH. Qed.

(* attributes whose names are octet strings are found again *)
Theorem attrs_canon_octets l raw :
  Forall (fun nv => Forall (fun c => c < 256) (fst nv)) raw -> attrs_canon l (map (resolve_attr l) raw) = true.
Proof.
  intros F. unfold attrs_canon.
  assert (M : map ev_attr (map (resolve_attr l) raw) = raw).
  { induction F as [|nv r Hnv _ IH]; [reflexivity|]. cbn [map]. now rewrite (resolve_attr_canon l nv Hnv), IH. }
  rewrite M. apply list_eqb_refl. apply attr_eqb_refl.
Qed.

Lemma main_table_tag_clause_silent l name : In l main_table -> tag_canon l (fst (resolve_tag l name)) = true.
Proof.
  intros I. pose proof main_table_tags_canon as TC. pose proof main_table_names_found as NF.
  rewrite forallb_forall in TC, NF. apply resolve_tag_canon; auto.
Qed.

(* ------------------------------------------------------------------ each remaining clause is necessary *)
(* event lists of the shape Expat delivers that violate exactly one clause; the tree is handed out and is not canonical.
   Clause 1: w1_events; clause 3: w2_events; clause 9: w3_events (Proofs/XmlFrontInverse.v, round 4). *)

Local Open Scope string_scope.
Definition clause_of := evs_clause main_table (fun _ => inr 104) [60] no_emb.

Example w1_clause : clause_of w1_events = 1.  Proof. vm_compute. reflexivity. Qed.
Example w2_clause : clause_of w2_events = 3.  Proof. vm_compute. reflexivity. Qed.
Example w3_clause : clause_of w3_events = 9.  Proof. vm_compute. reflexivity. Qed.

(* clause 4: an embedded document inside a CDATA section (the nested parse answers some tree; every tree is accepted) *)
Definition w5_sub : bytes -> xtree + N := fun _ => inl (mk_xtree 2202 0 [NElt (TagLit (bs "x")) [] []]).
Definition all_emb : N -> list node -> bool := fun _ _ => true.
Definition w5_events : list event :=
  [EvStartElement (bs "SyncML") [] 0; EvStartCdata; EvStartElement n_DevInf [] 0; EvEndElement n_DevInf 0; EvEndCdata;
   EvEndElement (bs "SyncML") 0].
Definition w5_root : node :=
  Eval vm_compute in match tree_from_xml main_table w5_sub [60] w5_events true with inl t => hd NPi (xt_roots t) | inr _ => NPi end.
Example image_not_canonical_embedded_in_cdata :
  evs_clause main_table w5_sub [60] all_emb w5_events = 4 /\
  tree_from_xml main_table w5_sub [60] w5_events true = inl (mk_xtree 2201 0 [w5_root]) /\
  root_canon (lang_by_id 2201) all_emb w5_root = false.
Proof. repeat split; vm_compute; reflexivity. Qed.

(* clause 6: an unprefixed <DevInf> below the root of a DevInf document: its tag is the token DevInf, which is written
   syncml:devinf|DevInf — and that name, below the root, starts an embedded document *)
Definition w6_events : list event :=
  [EvStartElement (bs "DevInf") [] 0; EvStartElement (bs "DevInf") [] 0; EvEndElement (bs "DevInf") 0; EvEndElement (bs "DevInf") 0].
Definition w6_root : node := Eval vm_compute in image_root w6_events.
Example image_not_canonical_embedded_name :
  clause_of w6_events = 6 /\
  tree_from_xml main_table (fun _ => inr 104) [60] w6_events true = inl (mk_xtree 2202 0 [w6_root]) /\
  root_canon (lang_by_id 2202) no_emb w6_root = false /\
  (* and the front end is not idempotent there: read again, the inner element is taken for an embedded document, which a
     DevInf document cannot hold (WBXML_ERROR_UNKNOWN_XML_LANGUAGE) *)
  tree_from_xml main_table (fun _ => inr 104) [60] (events_of (lang_by_id 2202) w6_root) true = inr 101.
Proof. repeat split; vm_compute; reflexivity. Qed.

(* NOT a violation: text for which the front end adds a CDATA section (a vCard in <Data>) *)
Example added_cdata_is_canonical :
  let evs := (lf_pre ++ [EvCharacters (bs "BEGIN:VCARD"); EvCharacters [10]; EvCharacters (bs "END:VCARD")] ++ lf_post)%list in
  clause_of evs = 0 /\
  exists t r, tree_from_xml main_table (fun _ => inr 104) [60] evs true = inl t /\ xt_roots t = [r] /\
              root_canon (lang_by_id (xt_lang t)) no_emb r = true /\
              tree_from_xml main_table (fun _ => inr 104) [60] (events_of (lang_by_id (xt_lang t)) r) true = inl t.
Proof. split; [vm_compute; reflexivity|]. eexists. eexists. split; [vm_compute; reflexivity|]. repeat split; vm_compute; reflexivity. Qed.

Lemma clause_1_necessary :
  clause_of w1_events = 1 /\
  tree_from_xml main_table (fun _ => inr 104) [60] w1_events true = inl (mk_xtree 1101 0 [w1_root]) /\
  root_canon (lang_by_id 1101) no_emb w1_root = false.
Proof. split; [exact w1_clause|exact image_not_canonical_empty_text]. Qed.
Lemma clause_3_necessary :
  clause_of w2_events = 3 /\
  tree_from_xml main_table (fun _ => inr 104) [60] w2_events true = inl (mk_xtree 2402 0 [w2_root]) /\
  root_canon (lang_by_id 2402) no_emb w2_root = false.
Proof. split; [exact w2_clause|exact image_not_canonical_cdata_in_binary]. Qed.
Lemma clause_9_necessary :
  clause_of w3_events = 9 /\
  tree_from_xml main_table (fun _ => inr 104) [60] w3_events true = inl (mk_xtree 2402 0 [w3_root]) /\
  root_canon (lang_by_id 2402) no_emb w3_root = false.
Proof. split; [exact w3_clause|exact image_not_canonical_data_hack]. Qed.
