(* C06 — the union: ONE statement whose fragment is the disjunction of everything proved.  The language selects the class
   (Wireless Village / DRMREL / SyncML / OTA settings / all others incl. SI and EMN); each class instantiates the generic
   document theorem (Proofs/EncWbxmlClass6.v) with its attribute and text lemmas; CDATA sections and embedded trees may stand
   in any token element that is not binary-flagged and has no typed-content rule. *)
From Coq Require Import List NArith Lia Bool.
From Wbxml Require Import Base.Bits Model.Codec Model.TablesDefs Model.EncWbxml Model.TreeNorm Model.EncWbxmlEvents
     Proofs.EncWbxmlProofs Proofs.TreeNormProofs Proofs.EncWbxmlAbs Proofs.EncWbxmlStrict2 Proofs.EncWbxmlDenote2
     Proofs.EncWbxmlMerge Proofs.EncWbxmlTblOk Proofs.EncWbxmlDenote3 Proofs.EncWbxmlAbs4 Proofs.EncWbxmlDenote4 Proofs.EncWbxmlAbs5
     Proofs.EncWbxmlDenote5 Proofs.EncWbxmlDenoteWv Proofs.EncWbxmlDenote6 Proofs.EncWbxmlClass6 Proofs.EncWbxmlClasses.
From Wbxml Require Model.Parser Model.Spec Proofs.EncWbxmlDenote.
Import ListNotations.
Local Open Scope N_scope.

(* ---- where CDATA sections and embedded trees may stand (every class) ------------------------------------------------------------ *)
Definition cok_plain (L : lang) (first : bool) (par : option tagname) : bool :=
  match par with
  | Some (TagTok p t o _) => negb (opt_bin o) && S.okind_eqb (S.opaque_kind (l_id L) (Some (p, t))) S.OPlain
  | _ => false
  end.
Definition eok_plain (tbl : list blang) (e : env) (L : lang) (first : bool) (par : option tagname) (lid : N) (roots : list node) : bool :=
  cok_plain L first par && S.bytes_okb (emb_doc tbl e lid roots) && (len (emb_doc tbl e lid roots) <? 4294967296).

Lemma cok_plain_spec L first par : cok_plain L first par = true -> plain_parent L par.
Proof.
  unfold cok_plain, plain_parent. destruct par as [[p t o nm|nm]|]; try discriminate. intros H. apply andb_true_iff in H as [H1 H2].
  exists p, t, o, nm. split; [reflexivity|]. split; [now apply negb_true_iff in H1|].
  destruct (S.opaque_kind (l_id L) (Some (p, t))); try discriminate. reflexivity.
Qed.

Lemma eok_plain_spec tbl e L first par lid roots : eok_plain tbl e L first par lid roots = true ->
  plain_parent L par /\ S.bytes_okb (emb_doc tbl e lid roots) = true /\ len (emb_doc tbl e lid roots) < 4294967296.
Proof.
  unfold eok_plain. intros H. apply andb_true_iff in H as [H H3]. apply andb_true_iff in H as [H1 H2].
  split; [exact (cok_plain_spec L first par H1)|]. split; [exact H2|now apply N.ltb_lt].
Qed.

(* ---- the attribute lemma for every language but OTA settings (extension tokens are not looked for in attribute values) ---------- *)
Lemma attrs_any L e TF tb :
  e_lang e = to_blang L -> (bl_id (e_lang e) =? LANG_OTA_SETTINGS) = false -> vals_ok L = true ->
  (forall x, In x TF -> okb (s_str x) = true -> S.str_at tb (s_off x) = Some (s_str x)) ->
  (forall x, In x TF -> S.u32_okb (s_off x) = true) -> (forall x, In x TF -> ref_str TF (s_off x) = s_str x) ->
  forall l st na ws st' (dst : S.dstate),
    sub TF st' -> forallb (aok_dt L) l = true -> in_cdata st = false -> S.ds_attrcp dst = attrcp st ->
    abs_attrs5 e st na l = Some (ws, st') ->
    exists dst', S.den_attrs (S.mk_denv L tb) ws dst = Some (map (attr_event5 (acan_dt L)) l, dst') /\
                 S.ds_attrcp dst' = attrcp st' /\ S.ds_tagcp dst' = S.ds_tagcp dst /\ S.ds_cur dst' = S.ds_cur dst /\
                 tagcp st' = tagcp st /\ cur_tag st' = cur_tag st /\ in_cdata st' = false.
Proof.
  intros HE HNO HV HRES HU32 HREF l st na ws st' dst Hsub Hok Hic Hcp A.
  pose proof (abs_attrs5_noexta e na l st ws st' A) as NX.
  rewrite abs_attrs5_noext in A.
  assert (HE' : e_lang (noext_env e) = to_blang (noext_L L)) by (cbn [noext_env e_lang]; now rewrite HE).
  destruct (den_all_attrs5 (noext_L L) (noext_env e) HE' HNO HV eq_refl TF tb HRES HU32 HREF l st na ws st' dst Hsub Hok Hic Hcp A)
    as (dst' & D & R).
  exists dst'. split; [|exact R]. rewrite <- (den_attrs_noext L tb ws dst NX). exact D.
Qed.

(* ---- the classes ------------------------------------------------------------------------------------------------------------------- *)
Inductive cls := CWv | CDrm | CSy | COta | CDt.
Definition class_of (l : blang) : cls :=
  if is_wv l then CWv else if bl_id l =? LANG_DRMREL10 then CDrm else if is_syncml l then CSy
  else if bl_id l =? LANG_OTA_SETTINGS then COta else CDt.

Definition aok_u (L : lang) (tag : tagname) (na : list attr) (a : attr) : bool :=
  match class_of (to_blang L) with COta => aok_ota L tag na a | _ => aok_dt L a end.
Definition acan_u (L : lang) (tag : tagname) (na : list attr) (a : attr) : bytes :=
  match class_of (to_blang L) with COta => acan_ota tag na a | _ => acan_dt L a end.
Definition tok_u (L : lang) (keep first : bool) (par : option tagname) (c : bytes) : bool :=
  match class_of (to_blang L) with
  | CWv => tok_wv keep first par c | CDrm => tok_drm keep first par c | CSy => tok_sy first par c | _ => tok_plain first par c
  end.
Definition tev_u (L : lang) (e : env) (keep first : bool) (par : option tagname) (c : bytes) : list P.event :=
  match class_of (to_blang L) with
  | CWv => tev_wv keep first par c | CDrm => tev_drm keep first par c | CSy => tev_sy e keep first par c
  | _ => tev_plain keep (has_attr_table e) first par c
  end.
(* extension tokens: only Wireless Village has any; its rows must be found again under their 8-bit token *)
Definition side_u (L : lang) : bool :=
  match class_of (to_blang L) with CWv => exts_ok L | _ => match l_exts L with None => true | Some _ => false end end.

Lemma tok_lt_plain f p c : tok_plain f p c = true -> allc S.is_byte c = true.
Proof. unfold tok_plain. destruct (tag_bin p); intros H; [now apply andb_true_iff in H as [H _]|exact (okb_lt _ H)]. Qed.

Theorem strict_decode_union tblb TBL L o tag attrs ch bs :
  let e := enc_env (to_blang L) o in
  vals_ok L = true -> side_u L = true -> tag_tbl_ok e = true ->
  tree_ok6 L (aok_u L) (tok_u L (o_keep_ws o)) (cok_plain L) (eok_plain tblb e L) (is_syncml (e_lang e)) 0 true None (NElt tag attrs ch) = true ->
  find (fun x => l_id x =? l_id L) TBL = Some L ->
  o_version o < 4 -> header_public_id e < 4294967296 -> header_public_id e <> 0 ->
  (match header_pid e with Some p => okb p = true | None => True end) ->
  len bs < 4294967296 ->
  enc_wbxml tblb (to_blang L) o [NElt tag attrs ch] = EOk bs ->
  exists d evs, bs = S.serialize d /\ S.strict_doc d = true /\
            S.denote_with TBL (Some L) d = Some evs /\ S.decode_lang TBL (l_id L) bs = Some evs /\
            merge_chars evs = merge_chars (doc_events6 tblb L e (acan_u L) (tev_u L e (o_keep_ws o)) (NElt tag attrs ch)).
Proof.
  cbv zeta. intros HV HSD HTB HT HFind Hv Hp1 Hp0 Hpid Hlen E. set (e := enc_env (to_blang L) o) in *.
  assert (HE : e_lang e = to_blang L) by reflexivity.
  assert (Ho : e_ignore_empty e = e_remove_blanks e) by reflexivity.
  assert (Hk : negb (e_remove_blanks e) = o_keep_ws o) by (subst e; unfold enc_env, make_env; cbn; now rewrite negb_involutive).
  rewrite <- Hk in HT |- *.
  unfold aok_u, acan_u, tok_u, tev_u, side_u in *. unfold class_of in *.
  destruct (is_wv (to_blang L)) eqn:CW.
  - (* Wireless Village *)
    assert (HNO : (bl_id (e_lang e) =? LANG_OTA_SETTINGS) = false).
    { change (e_lang e) with (to_blang L). unfold is_wv, LANG_WV_CSP11, LANG_WV_CSP12, LANG_OTA_SETTINGS in *. apply orb_true_iff in CW as [H|H]; apply N.eqb_eq in H; now rewrite H. }
    apply (decode_class6 tblb TBL L o tag attrs ch bs (fun _ _ => aok_dt L) (fun _ _ => acan_dt L) (tok_wv (negb (e_remove_blanks e))) (tev_wv (negb (e_remove_blanks e))) (cok_plain L) (eok_plain tblb e L));
      try assumption.
    + intros tg na a H. unfold aok_dt in H. now apply andb_true_iff in H as [H _].
    + intros f p c H. unfold tok_wv in H. apply andb_true_iff in H as [H _]. apply andb_true_iff in H as [_ H]. exact (okb_lt _ H).
    + intros TF tb R1 R2 R3 tg l st na ws st' dst Hs Hok _. exact (attrs_any L e TF tb HE HNO HV R1 R2 R3 l st na ws st' dst Hs Hok).
    + intros TF tb R1 R2 R3. exact (text_den_wv L e HE CW HSD Ho TF tb R1 R2 R3).
    + exact (cok_plain_spec L).
    + exact (eok_plain_spec tblb e L).
  - assert (HX : l_exts L = None).
    { destruct (bl_id (to_blang L) =? LANG_DRMREL10); [|destruct (is_syncml (to_blang L)); [|destruct (bl_id (to_blang L) =? LANG_OTA_SETTINGS)]];
        (destruct (l_exts L); [discriminate|reflexivity]). }
    destruct (bl_id (to_blang L) =? LANG_DRMREL10) eqn:CD.
    + (* DRMREL *)
      destruct (drm_not_others L e HE CD) as (_ & _ & HNO).
      apply (decode_class6 tblb TBL L o tag attrs ch bs (fun _ _ => aok_dt L) (fun _ _ => acan_dt L) (tok_drm (negb (e_remove_blanks e))) (tev_drm (negb (e_remove_blanks e))) (cok_plain L) (eok_plain tblb e L));
        try assumption.
      * intros tg na a H. unfold aok_dt in H. now apply andb_true_iff in H as [H _].
      * intros f p c H. unfold tok_drm in H. apply andb_true_iff in H as [H _]. apply andb_true_iff in H as [_ H]. exact (okb_lt _ H).
      * intros TF tb R1 R2 R3 tg l st na ws st' dst Hs Hok _. exact (attrs_any L e TF tb HE HNO HV R1 R2 R3 l st na ws st' dst Hs Hok).
      * intros TF tb R1 R2 R3. exact (text_den_drm L e HE CD HV HX Ho TF tb R1 R2 R3).
      * exact (cok_plain_spec L).
      * exact (eok_plain_spec tblb e L).
    + destruct (is_syncml (to_blang L)) eqn:CS.
      * (* SyncML *)
        destruct (sy_not_others e CS) as (_ & _ & HNO).
        apply (decode_class6 tblb TBL L o tag attrs ch bs (fun _ _ => aok_dt L) (fun _ _ => acan_dt L) tok_sy (tev_sy e (negb (e_remove_blanks e))) (cok_plain L) (eok_plain tblb e L));
          try assumption.
        -- intros tg na a H. unfold aok_dt in H. now apply andb_true_iff in H as [H _].
        -- intros f p c H. unfold tok_sy in H. apply andb_true_iff in H as [_ H]. exact (okb_lt _ H).
        -- intros TF tb R1 R2 R3 tg l st na ws st' dst Hs Hok _. exact (attrs_any L e TF tb HE HNO HV R1 R2 R3 l st na ws st' dst Hs Hok).
        -- intros TF tb R1 R2 R3. exact (text_den_sy L e HE CS HV HX Ho TF tb R1 R2 R3).
        -- exact (cok_plain_spec L).
        -- exact (eok_plain_spec tblb e L).
      * assert (HCP : is_wv (e_lang e) = false /\ (bl_id (e_lang e) =? LANG_DRMREL10) = false /\ is_syncml (e_lang e) = false) by auto.
        destruct (bl_id (to_blang L) =? LANG_OTA_SETTINGS) eqn:CO.
        -- (* OTA settings *)
           apply (decode_class6 tblb TBL L o tag attrs ch bs (aok_ota L) acan_ota tok_plain (tev_plain (negb (e_remove_blanks e)) (has_attr_table e)) (cok_plain L) (eok_plain tblb e L)); try assumption.
           ++ intros tg na a H. unfold aok_ota in H. now apply andb_true_iff in H as [H _].
           ++ exact tok_lt_plain.
           ++ intros TF tb R1 R2 R3 tg l st na ws st' dst. exact (den_all_attrs_ota L e HE CO HV HX TF tb R1 R2 R3 tg l st na ws st' dst).
           ++ intros TF tb R1 R2 R3. exact (text_den5 L e HE HCP HV HX Ho TF tb R1 R2 R3).
           ++ exact (cok_plain_spec L).
           ++ exact (eok_plain_spec tblb e L).
        -- (* every other language, SI and EMN included *)
           apply (decode_class6 tblb TBL L o tag attrs ch bs (fun _ _ => aok_dt L) (fun _ _ => acan_dt L) tok_plain (tev_plain (negb (e_remove_blanks e)) (has_attr_table e)) (cok_plain L) (eok_plain tblb e L));
             try assumption.
           ++ intros tg na a H. unfold aok_dt in H. now apply andb_true_iff in H as [H _].
           ++ exact tok_lt_plain.
           ++ intros TF tb R1 R2 R3 tg l st na ws st' dst Hs Hok _. exact (attrs_any L e TF tb HE CO HV R1 R2 R3 l st na ws st' dst Hs Hok).
           ++ intros TF tb R1 R2 R3. exact (text_den5 L e HE HCP HV HX Ho TF tb R1 R2 R3).
           ++ exact (cok_plain_spec L).
           ++ exact (eok_plain_spec tblb e L).
Qed.

(* ---- trees without embedded trees ------------------------------------------------------------------------------------------------ *)
Definition eok_none (first : bool) (par : option tagname) (lid : N) (roots : list node) : bool := false.

Lemma tree_ok6_no_emb L aok tok cok eok sy : forall n d f p,
  tree_ok6 L aok tok cok eok_none sy d f p n = true -> tree_ok6 L aok tok cok eok sy d f p n = true.
Proof.
  induction n as [tag attrs ch IH|c|ch IH| |lid roots IH] using node_ind'; intros d f p H; cbn [tree_ok6] in H |- *; try discriminate; try exact H.
  apply andb_true_iff in H as [H Hch]. rewrite H. cbn [andb].
  fold (kids_ok6 L aok tok cok eok_none sy (d + 1) (Some tag)) in Hch. fold (kids_ok6 L aok tok cok eok sy (d + 1) (Some tag)).
  assert (K : forall f0, kids_ok6 L aok tok cok eok_none sy (d + 1) (Some tag) f0 ch = true -> kids_ok6 L aok tok cok eok sy (d + 1) (Some tag) f0 ch = true).
  { clear Hch. induction IH as [|x r Hx _ IHr]; intros f0 Hch; [reflexivity|]. cbn [kids_ok6] in *.
    apply andb_true_iff in Hch as [H1 H2]. now rewrite (Hx _ _ _ H1), (IHr _ H2). }
  exact (K true Hch).
Qed.

Lemma events6_no_emb L aok tok cok sy acan tev ed1 ed2 wa : forall n d f p,
  tree_ok6 L aok tok cok eok_none sy d f p n = true -> events6 acan tev sy ed1 wa f p n = events6 acan tev sy ed2 wa f p n.
Proof.
  induction n as [tag attrs ch IH|c|ch IH| |lid roots IH] using node_ind'; intros d f p H; cbn [tree_ok6] in H; try discriminate; try reflexivity.
  apply andb_true_iff in H as [_ Hch]. fold (kids_ok6 L aok tok cok eok_none sy (d + 1) (Some tag)) in Hch.
  cbn [events6]. f_equal. f_equal.
  fold (kids_events6 acan tev sy ed1 wa (Some tag)). fold (kids_events6 acan tev sy ed2 wa (Some tag)).
  assert (K : forall f0, kids_ok6 L aok tok cok eok_none sy (d + 1) (Some tag) f0 ch = true ->
              kids_events6 acan tev sy ed1 wa (Some tag) f0 ch = kids_events6 acan tev sy ed2 wa (Some tag) f0 ch).
  { clear Hch. induction IH as [|x r Hx _ IHr]; intros f0 Hch; [reflexivity|]. cbn [kids_ok6 kids_events6] in *.
    apply andb_true_iff in Hch as [H1 H2]. now rewrite (Hx _ _ _ H1), (IHr _ H2). }
  exact (K true Hch).
Qed.

(* C07: all 16 option tuples, every class, CDATA included; embedded trees excluded (their octets carry their own version
   byte and string table: the outer event holds different octets, which decode to the same events - embedded_doc_decodes) *)
Theorem options_decode_equal_union tblb TBL L v1 v2 s1 s2 a1 a2 k tag attrs ch bs1 bs2 :
  let o1 := mk_opts v1 s1 k a1 in let o2 := mk_opts v2 s2 k a2 in
  vals_ok L = true -> side_u L = true -> tag_tbl_ok (enc_env (to_blang L) o1) = true ->
  tree_ok6 L (aok_u L) (tok_u L k) (cok_plain L) eok_none (is_syncml (to_blang L)) 0 true None (NElt tag attrs ch) = true ->
  find (fun x => l_id x =? l_id L) TBL = Some L ->
  v1 < 4 -> v2 < 4 -> l_pub_num L < 4294967296 -> l_pub_num L <> 0 ->
  (match l_pub_text L with Some p => okb (P.B p) = true | None => True end) ->
  len bs1 < 4294967296 -> len bs2 < 4294967296 ->
  enc_wbxml tblb (to_blang L) o1 [NElt tag attrs ch] = EOk bs1 ->
  enc_wbxml tblb (to_blang L) o2 [NElt tag attrs ch] = EOk bs2 ->
  exists ev1 ev2, S.decode_lang TBL (l_id L) bs1 = Some ev1 /\ S.decode_lang TBL (l_id L) bs2 = Some ev2 /\
                  merge_chars ev1 = merge_chars ev2.
Proof.
  cbv zeta. intros HV HSD HTB HT HFind Hv1 Hv2 Hn1 Hn0 Hpt Hl1 Hl2 E1 E2.
  assert (PID : forall v s a, header_public_id (enc_env (to_blang L) (mk_opts v s k a)) < 4294967296 /\
                              header_public_id (enc_env (to_blang L) (mk_opts v s k a)) <> 0 /\
                              match header_pid (enc_env (to_blang L) (mk_opts v s k a)) with
                              | Some p => okb p = true | None => True end).
  { intros v s a. unfold header_public_id, header_pid, header_public_id. cbn [e_anonymous enc_env make_env e_lang to_blang bl_pub_num bl_pub_text o_anonymous].
    destruct a; cbn [negb andb].
    - rewrite andb_false_r. split; [lia|]. split; [lia|exact I].
    - split; [exact Hn1|]. split; [exact Hn0|]. destruct ((l_pub_num L =? 1) && true); [|exact I].
      destruct (l_pub_text L); [exact Hpt|exact I]. }
  destruct (PID v1 s1 a1) as (P1 & P2 & P3). destruct (PID v2 s2 a2) as (Q1 & Q2 & Q3).
  destruct (strict_decode_union tblb TBL L (mk_opts v1 s1 k a1) tag attrs ch bs1 HV HSD HTB (tree_ok6_no_emb _ _ _ _ _ _ _ _ _ _ HT) HFind Hv1 P1 P2 P3 Hl1 E1)
    as (d1 & ev1 & _ & _ & _ & D1' & M1).
  destruct (strict_decode_union tblb TBL L (mk_opts v2 s2 k a2) tag attrs ch bs2 HV HSD HTB (tree_ok6_no_emb _ _ _ _ _ _ _ _ _ _ HT) HFind Hv2 Q1 Q2 Q3 Hl2 E2)
    as (d2 & ev2 & _ & _ & _ & D2' & M2).
  exists ev1, ev2. split; [exact D1'|]. split; [exact D2'|]. rewrite M1, M2. unfold doc_events6. cbn [merge_chars]. f_equal. f_equal. f_equal.
  exact (events6_no_emb L _ _ _ _ _ _ _ _ _ _ _ _ _ HT).
Qed.

(* ---- (b) what the octets of an embedded tree decode to --------------------------------------------------------------------------- *)
(* The outer document reports one character event holding emb_doc (events6, NTree).  Those octets are the output of the
   same encoder on the embedded tree with the embedded language and embedded_opts; decoded with the embedded language
   they yield the events of the normalised embedded tree (one level: WBXML_MAX_EMBEDDED_DEPTH = 1, so the embedded tree
   has no embedded tree itself in practice; the statement does not need that). *)
Theorem embedded_doc_decodes tblb TBL (e : env) lid L' tag attrs ch :
  e_ignore_empty e = e_remove_blanks e ->
  find_lang tblb lid = Some (to_blang L') ->
  let o' := embedded_opts e in let e' := enc_env (to_blang L') o' in
  vals_ok L' = true -> side_u L' = true -> tag_tbl_ok e' = true ->
  tree_ok6 L' (aok_u L') (tok_u L' (o_keep_ws o')) (cok_plain L') (eok_plain tblb e' L') (is_syncml (e_lang e')) 0 true None (NElt tag attrs ch) = true ->
  find (fun x => l_id x =? l_id L') TBL = Some L' ->
  e_version e < 4 -> header_public_id e' < 4294967296 -> header_public_id e' <> 0 ->
  (match header_pid e' with Some p => okb p = true | None => True end) ->
  emb_doc tblb e lid [NElt tag attrs ch] <> [] -> len (emb_doc tblb e lid [NElt tag attrs ch]) < 4294967296 ->
  exists d' evs, emb_doc tblb e lid [NElt tag attrs ch] = S.serialize d' /\ S.strict_doc d' = true /\
     S.decode_lang TBL (l_id L') (emb_doc tblb e lid [NElt tag attrs ch]) = Some evs /\
     merge_chars evs = merge_chars (doc_events6 tblb L' e' (acan_u L') (tev_u L' e' (o_keep_ws o')) (NElt tag attrs ch)).
Proof.
  intros Ho HF. cbv zeta. intros HV HSD HTB HT HFind Hv Hp1 Hp0 Hpid Hne Hlen.
  assert (Ee : make_env (to_blang L') (e_use_strtbl e) (e_ignore_empty e) (e_remove_blanks e) (e_version e) false = enc_env (to_blang L') (embedded_opts e)).
  { unfold enc_env, embedded_opts. cbn [o_use_strtbl o_keep_ws o_version o_anonymous]. now rewrite negb_involutive, Ho. }
  unfold emb_doc in *. rewrite HF in *. cbv zeta in *. rewrite Ee in *.
  destruct (parse_nodes tblb (enc_env (to_blang L') (embedded_opts e)) None [NElt tag attrs ch] _) as [[body st0]|c] eqn:PN; [|now elim Hne].
  assert (EW : enc_wbxml tblb (to_blang L') (embedded_opts e) [NElt tag attrs ch] = EOk (fill_header (enc_env (to_blang L') (embedded_opts e)) st0 ++ body)).
  { rewrite enc_wbxml_form_local. unfold enc_body. cbv zeta. now rewrite PN. }
  destruct (strict_decode_union tblb TBL L' (embedded_opts e) tag attrs ch _ HV HSD HTB HT HFind Hv Hp1 Hp0 Hpid Hlen EW)
    as (d' & evs & HS & Hst & _ & HD & HM).
  exists d', evs. auto.
Qed.

(* ---- normal forms ------------------------------------------------------------------------------------------------------------------- *)
(* the vObject rule on the text of a CDATA section *)
Lemma cdata_piece_idem sy c : cdata_piece sy (NText (cdata_piece sy (NText c))) = cdata_piece sy (NText c).
Proof. cbn [cdata_piece]. destruct (sy && beq c [10]) eqn:B; [now rewrite andb_false_r|now rewrite B]. Qed.
