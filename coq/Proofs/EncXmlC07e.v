(* C07 (XML half), for EVERY tree satisfying the property's hypotheses (node_ok_e: raw CR, CDATA nodes, embedded
   documents, binary content):
     (a) indented generation (any width, any depth) and compact generation are read back as the same document
         modulo blank text between markup (nb);
     (b) compact generation is canonical generation with the reader's line-end / attribute-value normalisation
         applied (eol_rel). *)
From Coq Require Import List NArith Arith Lia Bool.
From Wbxml Require Import Model.Codec Model.EncXml Model.XmlRead Proofs.EncXmlProofs Proofs.EncXmlIndent Proofs.EncXmlEol.
Import ListNotations.
Local Open Scope N_scope.

(* ------------------------------------------------------------------ *)
(* 1. line ends and generated white space                               *)

Lemma spnl_no_cr w : forallb is_sp_nl w = true -> no_byte 13 w = true.
Proof. intros H. exact (ro_cr _ _ (ws_run_ok w H)). Qed.

Lemma norm_eol_spnl w : forallb is_sp_nl w = true -> norm_eol w = w.
Proof. intros H. apply norm_eol_id, spnl_no_cr, H. Qed.

(* white space written after a piece of character data: at most its first line feed is absorbed by a CR *)
Lemma norm_eol_trail : forall n c u, (length c <= n)%nat -> forallb is_sp_nl u = true ->
  exists u', allws u' = true /\ norm_eol (c ++ u) = norm_eol c ++ u'.
Proof.
  induction n as [|n IH]; intros c u Hl Hu.
  - destruct c; [|cbn in Hl; lia]. exists u. split; [now apply sp_allws|]. cbn [app norm_eol]. now apply norm_eol_spnl.
  - destruct c as [|x [|y c']].
    + exists u. split; [now apply sp_allws|]. cbn [app norm_eol]. now apply norm_eol_spnl.
    + cbn [app]. destruct (N.eq_dec x 13) as [->|Hx].
      * destruct u as [|d u'].
        -- exists []. split; reflexivity.
        -- cbn [forallb] in Hu. apply andb_true_iff in Hu as [Hd Hu'].
           destruct (N.eq_dec d 10) as [->|Hd10].
           ++ exists u'. split; [now apply sp_allws|]. rewrite norm_eol_cr_lf, (norm_eol_spnl u' Hu'). reflexivity.
           ++ exists (d :: u'). split; [apply sp_allws; cbn [forallb]; now rewrite Hd, Hu'|].
              rewrite (norm_eol_cr_other d u' Hd10). rewrite (norm_eol_spnl (d :: u')) by (cbn [forallb]; now rewrite Hd, Hu'). reflexivity.
      * exists u. split; [now apply sp_allws|]. rewrite (norm_eol_cons x u Hx), (norm_eol_cons x [] Hx), (norm_eol_spnl u Hu). reflexivity.
    + cbn [length] in Hl. cbn [app]. destruct (N.eq_dec x 13) as [->|Hx].
      * destruct (N.eq_dec y 10) as [->|Hy].
        -- destruct (IH c' u ltac:(lia) Hu) as (u' & A & E). exists u'. split; [exact A|].
           rewrite (norm_eol_cr_lf (c' ++ u)), (norm_eol_cr_lf c'), E. reflexivity.
        -- destruct (IH (y :: c') u ltac:(cbn [length]; lia) Hu) as (u' & A & E). exists u'. split; [exact A|].
           rewrite (norm_eol_cr_other y (c' ++ u) Hy), (norm_eol_cr_other y c' Hy). cbn [app] in E. rewrite E. reflexivity.
      * destruct (IH (y :: c') u ltac:(cbn [length]; lia) Hu) as (u' & A & E). exists u'. split; [exact A|].
        rewrite (norm_eol_cons x (y :: c' ++ u) Hx), (norm_eol_cons x (y :: c') Hx). cbn [app] in E. rewrite E. reflexivity.
Qed.

Lemma norm_eol_lead u c : forallb is_sp_nl u = true -> norm_eol (u ++ c) = u ++ norm_eol c.
Proof. intros H. apply norm_eol_app_nocr, spnl_no_cr, H. Qed.

(* ------------------------------------------------------------------ *)
(* 2. the reader's accumulation, written as a recursion on the pieces    *)

(* [cur]: the pending raw run; [txt]: character data already delivered into the current text item *)
Fixpoint mrge (m : bool) (cur txt : bytes) (l : list sitem) : list xitem :=
  match l with
  | [] => emit (txt ++ rd m cur)
  | SR t :: r => mrge m (cur ++ t) txt r
  | SC t :: r => mrge m [] (txt ++ rd m cur ++ norm_eol t) r
  | SE n a c :: r => emit (txt ++ rd m cur) ++ XE n a c :: mrge m [] [] r
  end.

Lemma fin_mrge_gen m l : forall cur txt a, head_not_text a ->
  fin_st m (fold_left (step m) l (cur, acc_of txt a)) = rev a ++ mrge m cur txt l.
Proof.
  induction l as [|[n at' c|t|t] r IH]; intros cur txt a H.
  - unfold fin_st. cbn [fold_left fst snd mrge]. rewrite push_text_acc_of by exact H.
    destruct (txt ++ rd m cur); cbn [acc_of emit rev]; [now rewrite app_nil_r|reflexivity].
  - cbn [fold_left step mrge]. rewrite push_text_acc_of by exact H.
    change (XE n at' c :: acc_of (txt ++ rd m cur) a) with (acc_of [] (XE n at' c :: acc_of (txt ++ rd m cur) a)).
    rewrite IH by exact I. cbn [rev].
    assert (E : rev (acc_of (txt ++ rd m cur) a) = rev a ++ emit (txt ++ rd m cur))
      by (destruct (txt ++ rd m cur); cbn [acc_of emit rev]; [now rewrite app_nil_r|reflexivity]).
    rewrite E, <- !app_assoc. reflexivity.
  - cbn [fold_left step mrge]. now apply IH.
  - cbn [fold_left step mrge]. rewrite !push_text_acc_of by exact H. rewrite <- app_assoc. now apply IH.
Qed.

Lemma fin_mrge m l : fin m l = mrge m [] [] l.
Proof. unfold fin. change (@nil xitem) with (acc_of [] []) at 1. now rewrite fin_mrge_gen. Qed.

Definition is_se (it : sitem) : bool := match it with SE _ _ _ => true | _ => false end.

Lemma existsb_xe_mrge m l : forall cur txt, existsb is_xe (mrge m cur txt l) = existsb is_se l.
Proof.
  induction l as [|[n a c|t|t] r IH]; intros cur txt; cbn [mrge existsb is_se].
  - apply existsb_xe_emit.
  - rewrite existsb_app, existsb_xe_emit. reflexivity.
  - apply IH.
  - apply IH.
Qed.

(* normal form modulo blank text, computed on the pieces *)
Fixpoint nfe (m : bool) (cur txt : bytes) (l : list sitem) : list xitem :=
  match l with
  | [] => emit (xstrip (txt ++ rd m cur))
  | SR t :: r => nfe m (cur ++ t) txt r
  | SC t :: r => nfe m [] (txt ++ rd m cur ++ norm_eol t) r
  | SE n a c :: r => emit (xstrip (txt ++ rd m cur)) ++ nb (XE n a c) :: nfe m [] [] r
  end.

Lemma strip_mrge m l : forall cur txt, strip_items (map nb (mrge m cur txt l)) = nfe m cur txt l.
Proof.
  induction l as [|[n a c|t|t] r IH]; intros cur txt; cbn [mrge nfe].
  - destruct (txt ++ rd m cur); [reflexivity|]. cbn [emit map nb strip_items flat_map]. now rewrite app_nil_r.
  - rewrite map_app. unfold strip_items. rewrite flat_map_app. fold (strip_items (map nb (XE n a c :: mrge m [] [] r))).
    cbn [map strip_items flat_map app]. fold (strip_items (map nb (mrge m [] [] r))). rewrite IH. f_equal.
    destruct (txt ++ rd m cur); [reflexivity|]. cbn [emit map nb flat_map]. now rewrite app_nil_r.
  - apply IH.
  - apply IH.
Qed.

Lemma nb_fin m l : existsb is_se l = true -> nb_list (fin m l) = nfe m [] [] l.
Proof. intros H. unfold nb_list. rewrite fin_mrge, existsb_xe_mrge, H. apply strip_mrge. Qed.

(* ------------------------------------------------------------------ *)
(* 3. indented vs compact: the pieces differ only by white space around elements *)

Inductive wsrel_e : list sitem -> list sitem -> Prop :=
| we_nil : wsrel_e [] []
| we_run t r1 r2 : wsrel_e r1 r2 -> wsrel_e (SR t :: r1) (SR t :: r2)
| we_cdata t r1 r2 : wsrel_e r1 r2 -> wsrel_e (SC t :: r1) (SC t :: r2)
| we_elt u1 v1 u2 v2 n a c1 c2 r1 r2 :
    forallb is_sp_nl u1 = true -> forallb is_sp_nl v1 = true -> forallb is_sp_nl u2 = true -> forallb is_sp_nl v2 = true ->
    nb (XE n a c1) = nb (XE n a c2) -> wsrel_e r1 r2 ->
    wsrel_e (SR u1 :: SE n a c1 :: SR v1 :: r1) (SR u2 :: SE n a c2 :: SR v2 :: r2).

Lemma wsrel_e_app a b c d : wsrel_e a b -> wsrel_e c d -> wsrel_e (a ++ c) (b ++ d).
Proof. induction 1; intros H'; cbn [app]; [exact H'|constructor; auto|constructor; auto|constructor; auto]. Qed.

Lemma wsrel_e_se l1 l2 : wsrel_e l1 l2 -> existsb is_se l1 = existsb is_se l2.
Proof. induction 1; cbn [existsb is_se orb]; auto. Qed.

Lemma wsrel_e_no_se l1 l2 : wsrel_e l1 l2 -> existsb is_se l2 = false -> l1 = l2.
Proof. induction 1; intros E; [reflexivity| | |cbn in E; discriminate]; cbn [existsb is_se orb] in E; f_equal; auto. Qed.

(* reader states (pending run, text delivered so far) that differ only by leading white space *)
Definition st_eq (c1 t1 c2 t2 : bytes) : Prop :=
  (exists u1 u2 c, forallb is_sp_nl u1 = true /\ forallb is_sp_nl u2 = true /\ c1 = u1 ++ c /\ c2 = u2 ++ c /\ t1 = [] /\ t2 = [])
  \/ (exists p1 p2 X, allws p1 = true /\ allws p2 = true /\ t1 = p1 ++ X /\ t2 = p2 ++ X /\ c1 = c2).

Lemma allws_app a b : allws a = true -> allws b = true -> allws (a ++ b) = true.
Proof. unfold allws. intros A B. now rewrite forallb_app, A, B. Qed.

Lemma st_eq_out c1 t1 c2 t2 v1 v2 :
  st_eq c1 t1 c2 t2 -> forallb is_sp_nl v1 = true -> forallb is_sp_nl v2 = true ->
  xstrip (t1 ++ rd false (c1 ++ v1)) = xstrip (t2 ++ rd false (c2 ++ v2)).
Proof.
  intros [(u1 & u2 & c & U1 & U2 & -> & -> & -> & ->)|(p1 & p2 & X & P1 & P2 & -> & -> & ->)] V1 V2; unfold rd.
  - cbn [app]. rewrite <- !app_assoc, (norm_eol_lead u1 (c ++ v1) U1), (norm_eol_lead u2 (c ++ v2) U2).
    destruct (norm_eol_trail _ c v1 (le_n _) V1) as (w1 & A1 & ->). destruct (norm_eol_trail _ c v2 (le_n _) V2) as (w2 & A2 & ->).
    rewrite (xstrip_lead u1 _ (sp_allws _ U1)), (xstrip_lead u2 _ (sp_allws _ U2)), (xstrip_trail _ w1 A1), (xstrip_trail _ w2 A2). reflexivity.
  - destruct (norm_eol_trail _ c2 v1 (le_n _) V1) as (w1 & A1 & ->). destruct (norm_eol_trail _ c2 v2 (le_n _) V2) as (w2 & A2 & ->).
    rewrite <- !app_assoc, (xstrip_lead p1 _ P1), (xstrip_lead p2 _ P2). rewrite !app_assoc, (xstrip_trail _ w1 A1), (xstrip_trail _ w2 A2). reflexivity.
Qed.

Lemma st_eq_run c1 t1 c2 t2 t : st_eq c1 t1 c2 t2 -> st_eq (c1 ++ t) t1 (c2 ++ t) t2.
Proof.
  intros [(u1 & u2 & c & U1 & U2 & -> & -> & -> & ->)|(p1 & p2 & X & P1 & P2 & -> & -> & ->)].
  - left. exists u1, u2, (c ++ t). rewrite <- !app_assoc. auto 10.
  - right. exists p1, p2, X. auto 10.
Qed.

Lemma st_eq_cdata c1 t1 c2 t2 t : st_eq c1 t1 c2 t2 ->
  st_eq [] (t1 ++ rd false c1 ++ norm_eol t) [] (t2 ++ rd false c2 ++ norm_eol t).
Proof.
  intros [(u1 & u2 & c & U1 & U2 & -> & -> & -> & ->)|(p1 & p2 & X & P1 & P2 & -> & -> & ->)]; right; unfold rd.
  - exists u1, u2, (norm_eol c ++ norm_eol t). cbn [app]. rewrite (norm_eol_lead u1 c U1), (norm_eol_lead u2 c U2). rewrite <- !app_assoc.
    split; [now apply sp_allws|]. split; [now apply sp_allws|]. auto.
  - exists p1, p2, (X ++ norm_eol c2 ++ norm_eol t). rewrite <- !app_assoc. auto 10.
Qed.

Lemma wsrel_e_nfe l1 l2 : wsrel_e l1 l2 -> forall c1 t1 c2 t2 v1 v2,
  st_eq c1 t1 c2 t2 -> forallb is_sp_nl v1 = true -> forallb is_sp_nl v2 = true ->
  nfe false c1 t1 (l1 ++ [SR v1]) = nfe false c2 t2 (l2 ++ [SR v2]).
Proof.
  induction 1 as [|t r1 r2 H IH|t r1 r2 H IH|u1 w1 u2 w2 n a e1 e2 r1 r2 U1 W1 U2 W2 E H IH]; intros c1 t1 c2 t2 v1 v2 S V1 V2.
  - cbn [app nfe]. now rewrite (st_eq_out _ _ _ _ _ _ S V1 V2).
  - cbn [app nfe]. apply IH; auto. now apply st_eq_run.
  - cbn [app nfe]. apply IH; auto. now apply st_eq_cdata.
  - cbn [app nfe]. rewrite (st_eq_out _ _ _ _ _ _ S U1 U2), E. f_equal. f_equal.
    cbn [app]. apply IH; auto. left. exists w1, w2, []. rewrite !app_nil_r. auto 10.
Qed.

Definition rel_res_e (r1 r2 : option (list sitem * est)) : Prop :=
  match r1, r2 with
  | Some (i1, s1), Some (i2, s2) => wsrel_e i1 i2 /\ st_rel s1 s2
  | None, None => True
  | _, _ => False
  end.

Lemma list_se l o p ch : forall s its s',
  info_list_e (info_e l o p) ch s = Some (its, s') -> have_child_elt ch = true -> existsb is_se its = true.
Proof.
  induction ch as [|n r IH]; intros s its s' H HC; [discriminate|].
  cbn [info_list_e] in H. destruct (info_e l o p s n) as [[a s1]|] eqn:E1; [|discriminate].
  fold (info_list_e (info_e l o p)) in H.
  destruct (info_list_e (info_e l o p) r (reset_cur s1)) as [[b s2]|] eqn:E2; [|discriminate].
  injection H as <- _. rewrite existsb_app. unfold have_child_elt in HC. cbn [existsb] in HC.
  destruct n; cbn [orb] in HC; try (rewrite (IH _ _ _ E2 HC); apply orb_true_r).
  destruct (info_e_elt_shape _ _ _ _ _ _ _ _ _ E1) as (c & ->). reflexivity.
Qed.

Section IndentVsCompactE.
  Variables (d d' : N) (ig rb : bool).
  Let oi : opts := mk_opts Indent d ig rb.
  Let oc : opts := mk_opts Compact d' ig rb.

  Lemma text_item_e_rel l parent s1 s2 c : st_rel s1 s2 -> rel_res_e (text_item_e l oi parent s1 c) (text_item_e l oc parent s2 c).
  Proof.
    intros [Hc Hd]. unfold text_item_e.
    assert (EP : text_policy oi parent s1 c = text_policy oc parent s2 c).
    { unfold text_policy. rewrite Hd, (text_tag_ext s1 s2 parent Hc). reflexivity. }
    rewrite EP, Hc, (text_tag_ext s1 s2 parent Hc).
    destruct (text_policy oc parent s2 c) as [c'|]; [|cbn; split; [constructor|split; assumption]].
    destruct (tag_is_binary (text_tag s2 parent)); [destruct (b64_enc _); [|exact I]|];
      (cbn; split; [repeat constructor|split; [reflexivity|exact Hd]]).
  Qed.

  Definition rel_node_e_stmt (n : node) : Prop :=
    forall l parent s1 s2, st_rel s1 s2 -> rel_res_e (info_e l oi parent s1 n) (info_e l oc parent s2 n).

  Lemma rel_list_e ch : Forall rel_node_e_stmt ch ->
    forall l parent s1 s2, st_rel s1 s2 ->
      rel_res_e (info_list_e (info_e l oi parent) ch s1) (info_list_e (info_e l oc parent) ch s2).
  Proof.
    induction 1 as [|n r Hn Hr IH]; intros l parent s1 s2 Hs.
    - cbn. split; [constructor|exact Hs].
    - cbn [info_list_e]. specialize (Hn l parent s1 s2 Hs). unfold rel_res_e in Hn.
      destruct (info_e l oi parent s1 n) as [[a1 t1]|], (info_e l oc parent s2 n) as [[a2 t2]|]; try contradiction; [|exact I].
      destruct Hn as [Hw [Hc Hd]].
      fold (info_list_e (info_e l oi parent)). fold (info_list_e (info_e l oc parent)).
      assert (Hs' : st_rel (reset_cur t1) (reset_cur t2)) by (split; [reflexivity|exact Hd]).
      specialize (IH l parent _ _ Hs'). unfold rel_res_e in IH.
      destruct (info_list_e (info_e l oi parent) r (reset_cur t1)) as [[b1 u1]|],
               (info_list_e (info_e l oc parent) r (reset_cur t2)) as [[b2 u2]|]; try contradiction; [|exact I].
      destruct IH as [Hw2 Hs2]. cbn. split; [now apply wsrel_e_app|exact Hs2].
  Qed.

  Lemma rel_node_e : forall n, rel_node_e_stmt n.
  Proof.
    induction n as [nm attrs ch IHch|t|ch _| |sl roots IHr] using node_ind2; intros l parent s1 s2 Hs; try exact I.
    - cbn [info_e]. destruct ch as [|c0 ch0].
      + unfold rel_res_e. split.
        * apply we_elt; first [apply w0_sp|apply nl_if_sp|reflexivity|constructor].
        * destruct Hs as [_ Hd]. split; [reflexivity|exact Hd].
      + assert (Hin : st_rel (s_in oi (c0 :: ch0) nm s1) (s_in oc (c0 :: ch0) nm s2)).
        { destruct Hs as [_ Hd]. unfold s_in. destruct (hc oi (c0 :: ch0)), (hc oc (c0 :: ch0)); (split; [reflexivity|exact Hd]). }
        pose proof (rel_list_e (c0 :: ch0) IHch l (pinfo_below parent nm) _ _ Hin) as HL. unfold rel_res_e in HL.
        destruct (info_list_e (info_e l oi (pinfo_below parent nm)) (c0 :: ch0) (s_in oi (c0 :: ch0) nm s1)) as [[i1 t1]|] eqn:E1,
                 (info_list_e (info_e l oc (pinfo_below parent nm)) (c0 :: ch0) (s_in oc (c0 :: ch0) nm s2)) as [[i2 t2]|] eqn:E2;
          try contradiction; [|exact I].
        destruct HL as [Hw [Hc Hd]]. unfold rel_res_e. split.
        * apply we_elt; first [apply w0_sp|apply nl_if_sp|idtac]; [|constructor].
          rewrite !nb_xe. f_equal.
          pose proof (wsrel_e_se _ _ Hw) as HX.
          change (is_canonical oi) with false. change (is_canonical oc) with false.
          destruct (existsb is_se i2) eqn:X2.
          -- rewrite !nb_fin by (cbn [existsb is_se orb]; rewrite existsb_app; first [rewrite HX|rewrite X2]; reflexivity).
             cbn [nfe app].
             apply wsrel_e_nfe; [exact Hw| |apply w2_sp|apply w2_sp].
             left. exists (w1 oi (c0 :: ch0)), (w1 oc (c0 :: ch0)), []. rewrite !app_nil_r.
             split; [apply w1_sp|]. split; [apply w1_sp|]. auto.
          -- assert (i1 = i2) by (apply wsrel_e_no_se; [exact Hw|exact X2]). subst i2.
             assert (HC : have_child_elt (c0 :: ch0) = false).
             { destruct (have_child_elt (c0 :: ch0)) eqn:HC; [|reflexivity].
               rewrite (list_se _ _ _ _ _ _ _ E2 HC) in X2. discriminate. }
             unfold w1, w2, hc. rewrite HC, !andb_false_r. reflexivity.
        * unfold s_out. split; [exact Hc|exact Hd].
    - cbn [info_e]. now apply text_item_e_rel.
    - cbn [info_e]. destruct ch as [|[| t | | |] [|c1 ch1]]; try exact I.
      + unfold rel_res_e. split; [repeat constructor|]. destruct Hs as [Hc Hd]. split; [exact Hc|reflexivity].
      + unfold rel_res_e. split; [repeat constructor|]. split; reflexivity.
    - cbn [info_e]. destruct sl as [l'|]; [|exact I].
      assert (H0 : st_rel (est0 (e_indent s1)) (est0 (e_indent s2))) by (split; reflexivity).
      pose proof (rel_list_e roots IHr l' proot _ _ H0) as HL. unfold rel_res_e in HL.
      destruct (info_list_e (info_e l' oi proot) roots (est0 (e_indent s1))) as [[i1 t1]|],
               (info_list_e (info_e l' oc proot) roots (est0 (e_indent s2))) as [[i2 t2]|]; try contradiction; [|exact I].
      destruct HL as [Hw _]. unfold rel_res_e. split; [exact Hw|exact Hs].
  Qed.
End IndentVsCompactE.

(* the hypotheses do not depend on the options at all *)
Lemma spec_attrs_e_keys l o1 o2 parent nm attrs :
  map fst (spec_attrs_e l o1 parent nm attrs) = map fst (spec_attrs_e l o2 parent nm attrs).
Proof. unfold spec_attrs_e. rewrite !map_app. f_equal. destruct (xl_has_attrs l); [|reflexivity]. now rewrite !map_map. Qed.

Lemma node_ok_e_opts : forall n l o1 o2 parent cur, node_ok_e l o1 parent cur n = node_ok_e l o2 parent cur n.
Proof.
  induction n as [nm attrs ch IHch|t|ch _| |sl roots IHr] using node_ind2; intros l o1 o2 parent cur; try reflexivity.
  - cbn [node_ok_e]. rewrite (spec_attrs_e_keys l o1 o2 parent nm attrs). f_equal.
    generalize (cur_of nm). induction IHch as [|x r Hx Hr IH]; intros c; [reflexivity|].
    rewrite (Hx l o1 o2 (pinfo_below parent nm) c). f_equal. apply IH.
  - cbn [node_ok_e]. destruct sl as [l'|]; [|reflexivity]. f_equal.
    generalize (@None trow). induction IHr as [|x r Hx Hr IH]; intros c; [reflexivity|].
    rewrite (Hx l' o1 o2 proot c). f_equal. apply IH.
Qed.

Lemma wsrel_e_root_inv u1 n1 a1 c1 v1 u2 n2 a2 c2 v2 :
  wsrel_e [SR u1; SE n1 a1 c1; SR v1] [SR u2; SE n2 a2 c2; SR v2] -> nb (XE n1 a1 c1) = nb (XE n2 a2 c2).
Proof. intros H. inversion H as [|t r1 r2 H'| |]; subst; [inversion H'|assumption]. Qed.

(* (a) C07, XML half, FULL: for every tree satisfying the property's hypotheses (node_ok_e: raw CR, CDATA nodes, embedded
   documents, binary content, ...), indented generation with ANY indent width (arbitrary N, reduced mod 256) at any depth
   and compact generation are both accepted by the reader, carry the language's DOCTYPE, and their root elements are equal
   modulo blank text between markup (nb). *)
Theorem c07_xml_indent_compact_e l o_any indent indent' keep_ws nm attrs ch out_i out_c :
  lang_ok l = true ->
  node_ok_e l o_any proot None (Elt nm attrs ch) = true ->
  enc_xml l Indent indent keep_ws [Elt nm attrs ch] = XOk out_i ->
  enc_xml l Compact indent' keep_ws [Elt nm attrs ch] = XOk out_c ->
  forall fuel, (node_fuel (Elt nm attrs ch) + 2 <= fuel)%nat ->
    exists ri rc,
      read_xml fuel out_i = ROk (doc_of l [ri]) /\ read_xml fuel out_c = ROk (doc_of l [rc]) /\ nb ri = nb rc.
Proof.
  intros HL Hok Ei Ec fuel Hf.
  assert (Hoki : node_ok_e l (opts_of_params Indent indent keep_ws) proot None (Elt nm attrs ch) = true)
    by (rewrite (node_ok_e_opts _ l _ o_any); exact Hok).
  assert (Hokc : node_ok_e l (opts_of_params Compact indent' keep_ws) proot None (Elt nm attrs ch) = true)
    by (rewrite (node_ok_e_opts _ l _ o_any); exact Hok).
  destruct (read_enc_e l _ nm attrs ch out_i HL Hoki Ei) as (ci & si & Ii & Ri).
  destruct (read_enc_e l _ nm attrs ch out_c HL Hokc Ec) as (cc & sc & Ic & Rc).
  eexists _, _. split; [apply Ri; exact Hf|]. split; [apply Rc; exact Hf|].
  pose proof (rel_node_e (u8 indent) 1 (negb keep_ws) (negb keep_ws) (Elt nm attrs ch) l proot (est0 0) (est0 0)
                         (conj eq_refl eq_refl)) as HR.
  unfold opts_of_params in Ii, Ic. rewrite Ii, Ic in HR. destruct HR as [HW _].
  exact (wsrel_e_root_inv _ _ _ _ _ _ _ _ _ _ HW).
Qed.

(* ------------------------------------------------------------------ *)
(* 4. compact vs canonical: the reader's normalisation                  *)

(* attribute-value normalisation of a reader (line ends, then literal white space -> space) *)
Definition norm_attr (kv : bytes * bytes) : bytes * bytes := (fst kv, attr_ws (norm_eol (snd kv))).

(* [eol_rel k c]: the element [c] is the element [k] with XML's own normalisation applied to everything canonical
   generation writes as character references and non-canonical generation writes raw:
   attribute values get attribute-value normalisation; the content is the same sequence of pieces (child elements,
   pieces of character data, CDATA payloads), delivered by the reader with line ends normalised per run of character
   data (fin false) instead of exactly (fin true); child elements are related in the same way. *)
Inductive eol_rel : xitem -> xitem -> Prop :=
| er_elt n a p1 p2 : pieces_rel p1 p2 -> eol_rel (XE n a (fin true p1)) (XE n (map norm_attr a) (fin false p2))
with pieces_rel : list sitem -> list sitem -> Prop :=
| pr_nil : pieces_rel [] []
| pr_run t r1 r2 : pieces_rel r1 r2 -> pieces_rel (SR t :: r1) (SR t :: r2)
| pr_cdata t r1 r2 : pieces_rel r1 r2 -> pieces_rel (SC t :: r1) (SC t :: r2)
| pr_elt n1 a1 c1 n2 a2 c2 r1 r2 :
    eol_rel (XE n1 a1 c1) (XE n2 a2 c2) -> pieces_rel r1 r2 -> pieces_rel (SE n1 a1 c1 :: r1) (SE n2 a2 c2 :: r2).

Lemma pieces_rel_app a b c d : pieces_rel a b -> pieces_rel c d -> pieces_rel (a ++ c) (b ++ d).
Proof. induction 1; intros H'; cbn [app]; [exact H'|constructor; auto|constructor; auto|constructor; auto]. Qed.

Lemma raw_ok_norm s : raw_ok s = true -> attr_ws (norm_eol s) = s.
Proof.
  unfold raw_ok. intros H. repeat (apply andb_true_iff in H as [H ?]).
  rewrite norm_eol_id by assumption. now apply attr_ws_id.
Qed.

Lemma spec_attrs_e_norm l ok oc parent nm attrs :
  lang_ok l = true -> is_canonical ok = true -> is_canonical oc = false ->
  spec_attrs_e l oc parent nm attrs = map norm_attr (spec_attrs_e l ok parent nm attrs).
Proof.
  intros HL Hk Hc. unfold spec_attrs_e. rewrite map_app. f_equal.
  - unfold spec_ns. destruct (xl_ns l) as [nst|] eqn:EN; [|reflexivity]. destruct nm as [rw|lit]; [|reflexivity].
    destruct (ns_wanted parent (TTok rw)); [|reflexivity].
    destruct (get_xmlns nst (tr_page rw)) as [ns|] eqn:EG; [|reflexivity].
    unfold norm_attr. cbn [map fst snd]. rewrite raw_ok_norm; [reflexivity|].
    unfold lang_ok in HL. rewrite EN in HL. apply andb_true_iff in HL as [_ HL].
    destruct (get_xmlns_in _ _ _ EG) as (r & Hin & <-). rewrite forallb_forall in HL. now apply HL.
  - destruct (xl_has_attrs l); [|reflexivity]. rewrite map_map. apply map_ext. intros a.
    unfold norm_attr, spec_attr_value_e. cbn [fst snd]. now rewrite Hk, Hc.
Qed.

Definition rel_res_k (r1 r2 : option (list sitem * est)) : Prop :=
  match r1, r2 with
  | Some (i1, s1), Some (i2, s2) => pieces_rel i1 i2 /\ s1 = s2
  | None, None => True
  | _, _ => False
  end.

Section CanonicalVsCompact.
  Variables (dk dc : N).
  (* white space kept (otherwise compact generation strips text and canonical generation does not) *)
  Let ok : opts := mk_opts Canonical dk false false.
  Let oc : opts := mk_opts Compact dc false false.

  Lemma text_item_e_kc l parent s c : text_item_e l ok parent s c = text_item_e l oc parent s c.
  Proof.
    unfold text_item_e, text_policy. cbn [o_ignore_empty o_remove_blanks andb].
    destruct (negb (e_in_cdata s) && negb (tag_is_binary (text_tag s parent)) && negb (is_canonical ok)),
             (negb (e_in_cdata s) && negb (tag_is_binary (text_tag s parent)) && negb (is_canonical oc)); reflexivity.
  Qed.

  Definition rel_node_k_stmt (n : node) : Prop :=
    forall l parent s, lang_ok l = true -> node_ok_e l ok parent (e_cur_tag s) n = true ->
      rel_res_k (info_e l ok parent s n) (info_e l oc parent s n).

  Lemma rel_list_k ch : Forall rel_node_k_stmt ch ->
    forall l parent s, lang_ok l = true -> nodes_ok_e l ok parent (e_cur_tag s) ch = true ->
      rel_res_k (info_list_e (info_e l ok parent) ch s) (info_list_e (info_e l oc parent) ch s).
  Proof.
    induction 1 as [|n r Hn Hr IH]; intros l parent s HL Hok.
    - cbn. split; [constructor|reflexivity].
    - cbn [nodes_ok_e] in Hok. apply andb_true_iff in Hok as [Hok1 Hok2].
      cbn [info_list_e]. specialize (Hn l parent s HL Hok1). unfold rel_res_k in Hn.
      destruct (info_e l ok parent s n) as [[a1 t1]|], (info_e l oc parent s n) as [[a2 t2]|]; try contradiction; [|exact I].
      destruct Hn as [Hw <-].
      fold (info_list_e (info_e l ok parent)). fold (info_list_e (info_e l oc parent)).
      specialize (IH l parent (reset_cur t1) HL Hok2). unfold rel_res_k in IH.
      destruct (info_list_e (info_e l ok parent) r (reset_cur t1)) as [[b1 u1]|],
               (info_list_e (info_e l oc parent) r (reset_cur t1)) as [[b2 u2]|]; try contradiction; [|exact I].
      destruct IH as [Hw2 <-]. cbn. split; [now apply pieces_rel_app|reflexivity].
  Qed.

  Lemma rel_node_k : forall n, rel_node_k_stmt n.
  Proof.
    induction n as [nm attrs ch IHch|t|ch _| |sl roots IHr] using node_ind2; intros l parent s HL Hok; try exact I.
    - cbn [node_ok_e] in Hok.
      change ((fix go (cur0 : option trow) (ns : list node) {struct ns} : bool :=
                 match ns with [] => true | x :: r => node_ok_e l ok (pinfo_below parent nm) cur0 x && go None r end) (cur_of nm) ch)
        with (nodes_ok_e l ok (pinfo_below parent nm) (cur_of nm) ch) in Hok.
      apply andb_true_iff in Hok as [_ Hok4].
      cbn [info_e]. rewrite (spec_attrs_e_norm l ok oc parent nm attrs HL eq_refl eq_refl).
      destruct ch as [|c0 ch0].
      + unfold rel_res_k. split; [|reflexivity]. constructor. constructor; [|constructor; constructor].
        exact (er_elt (tname_bytes nm) (spec_attrs_e l ok parent nm attrs) [] [] pr_nil).
      + assert (Ecur : e_cur_tag (s_in ok (c0 :: ch0) nm s) = cur_of nm) by reflexivity.
        rewrite <- Ecur in Hok4.
        pose proof (rel_list_k (c0 :: ch0) IHch l (pinfo_below parent nm) (s_in ok (c0 :: ch0) nm s) HL Hok4) as HLk.
        change (s_in oc (c0 :: ch0) nm s) with (s_in ok (c0 :: ch0) nm s).
        unfold rel_res_k in HLk.
        destruct (info_list_e (info_e l ok (pinfo_below parent nm)) (c0 :: ch0) (s_in ok (c0 :: ch0) nm s)) as [[i1 t1]|],
                 (info_list_e (info_e l oc (pinfo_below parent nm)) (c0 :: ch0) (s_in ok (c0 :: ch0) nm s)) as [[i2 t2]|];
          try contradiction; [|exact I].
        destruct HLk as [Hw <-]. unfold rel_res_k. split; [|reflexivity].
        constructor. constructor; [|constructor; constructor].
        change (is_canonical ok) with true. change (is_canonical oc) with false.
        apply er_elt. constructor. apply pieces_rel_app; [exact Hw|constructor; constructor].
    - cbn [info_e]. rewrite (text_item_e_kc l parent s t). unfold rel_res_k, text_item_e.
      destruct (text_policy oc parent s t) as [c|]; [|split; [constructor|reflexivity]].
      destruct (tag_is_binary (text_tag s parent)); [destruct (b64_enc _); [|exact I]|]; (split; [repeat constructor|reflexivity]).
    - cbn [info_e]. destruct ch as [|[| t | | |] [|c1 ch1]]; try exact I; unfold rel_res_k; (split; [repeat constructor|reflexivity]).
    - cbn [node_ok_e] in Hok. destruct sl as [l'|]; [|discriminate]. apply andb_true_iff in Hok as [HL' Hok].
      change ((fix go (cur0 : option trow) (ns : list node) {struct ns} : bool :=
                 match ns with [] => true | x :: r => node_ok_e l' ok proot cur0 x && go None r end) None roots)
        with (nodes_ok_e l' ok proot None roots) in Hok.
      cbn [info_e].
      pose proof (rel_list_k roots IHr l' proot (est0 (e_indent s)) HL' Hok) as HLk. unfold rel_res_k in HLk.
      destruct (info_list_e (info_e l' ok proot) roots (est0 (e_indent s))) as [[i1 t1]|],
               (info_list_e (info_e l' oc proot) roots (est0 (e_indent s))) as [[i2 t2]|]; try contradiction; [|exact I].
      destruct HLk as [Hw _]. unfold rel_res_k. split; [exact Hw|reflexivity].
  Qed.
End CanonicalVsCompact.

Lemma pieces_rel_root_inv u1 n1 a1 c1 v1 u2 n2 a2 c2 v2 :
  pieces_rel [SR u1; SE n1 a1 c1; SR v1] [SR u2; SE n2 a2 c2; SR v2] -> eol_rel (XE n1 a1 c1) (XE n2 a2 c2).
Proof. intros H. inversion H as [|? ? ? H'| |]; subst. inversion H' as [| | |? ? ? ? ? ? ? ? E _]; subst. exact E. Qed.

(* (b) C07, XML half, FULL: for every tree satisfying the property's hypotheses, with white space kept, canonical and
   compact generation are both accepted by the reader and carry the language's DOCTYPE; the compact reading is the
   canonical reading with the reader's own normalisation applied (eol_rel): canonical generation preserves CR / LF / TAB
   exactly (written as character references), compact generation leaves them to XML's line-end and attribute-value
   normalisation. *)
Theorem c07_xml_compact_canonical_e l o_any i1 i2 nm attrs ch out_k out_c :
  lang_ok l = true ->
  node_ok_e l o_any proot None (Elt nm attrs ch) = true ->
  enc_xml l Canonical i1 true [Elt nm attrs ch] = XOk out_k ->
  enc_xml l Compact i2 true [Elt nm attrs ch] = XOk out_c ->
  forall fuel, (node_fuel (Elt nm attrs ch) + 2 <= fuel)%nat ->
    exists rk rc,
      read_xml fuel out_k = ROk (doc_of l [rk]) /\ read_xml fuel out_c = ROk (doc_of l [rc]) /\ eol_rel rk rc.
Proof.
  intros HL Hok Ek Ec fuel Hf.
  assert (Hokk : node_ok_e l (opts_of_params Canonical i1 true) proot None (Elt nm attrs ch) = true)
    by (rewrite (node_ok_e_opts _ l _ o_any); exact Hok).
  assert (Hokc : node_ok_e l (opts_of_params Compact i2 true) proot None (Elt nm attrs ch) = true)
    by (rewrite (node_ok_e_opts _ l _ o_any); exact Hok).
  destruct (read_enc_e l _ nm attrs ch out_k HL Hokk Ek) as (ck & sk & Ik & Rk).
  destruct (read_enc_e l _ nm attrs ch out_c HL Hokc Ec) as (cc & sc & Ic & Rc).
  eexists _, _. split; [apply Rk; exact Hf|]. split; [apply Rc; exact Hf|].
  pose proof (rel_node_k 1 1 (Elt nm attrs ch) l proot (est0 0) HL Hokk) as HR.
  unfold opts_of_params in Ik, Ic. cbn [negb] in Ik, Ic. rewrite Ik, Ic in HR. destruct HR as [HW _].
  exact (pieces_rel_root_inv _ _ _ _ _ _ _ _ _ _ HW).
Qed.
