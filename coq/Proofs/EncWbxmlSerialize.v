(* C06 — the encoder's output IS the serialization of an abstract WBXML document (Model/Spec.v: the abstract syntax
   written from the BNF, its `serialize`, the strictness predicate `strict_doc` of the proved strict decoder) — for the
   fragment: no string table, token tags without attributes, text content, languages without typed content.
   Being in the image of `serialize` is what "elements and the document terminate and balance" means; `strict_doc`
   is the reference clause. *)
From Coq Require Import List NArith Lia Bool.
From Wbxml Require Import Base.Bits Model.Codec Model.EncWbxml Proofs.EncWbxmlProofs.
From Wbxml Require Model.Parser Model.Spec.
Import ListNotations.
Local Open Scope N_scope.

Module S := Wbxml.Model.Spec.

(* ---- the fragment ------------------------------------------------------------------------------------ *)
Definition frag_lang (l : blang) : bool :=
  negb (is_wv l) && negb (bl_id l =? LANG_DRMREL10) && negb (is_syncml l) &&
  match bl_exts l with None => true | Some _ => false end.

Fixpoint frag_node (n : node) : bool :=
  match n with
  | NElt (TagTok p t o _) [] ch => (5 <=? t) && (t <? 64) && (N.land o 1 =? 0) && forallb frag_node ch
  | NText _ => true
  | _ => false
  end.

(* ---- abstraction: the document the encoder writes ------------------------------------------------------ *)
Definition abs_text (e : env) (c : bytes) : list S.witem :=
  if e_ignore_empty e && only_ws c then []
  else match cstr (if e_remove_blanks e then strip_blanks c else c) with
       | [] => []
       | s => [S.WItemStr (S.WStrI s)]
       end.

Definition nonempty {A} (l : list A) : bool := match l with [] => false | _ => true end.

Definition abs_seq (f : node -> N -> list S.witem * N) :=
  fix go (ns : list node) (cp : N) : list S.witem * N :=
    match ns with
    | [] => ([], cp)
    | x :: r => let '(a, c1) := f x cp in let '(b, c2) := go r c1 in (a ++ b, c2)
    end.

Fixpoint abs_node (e : env) (n : node) (cp : N) : list S.witem * N :=
  match n with
  | NElt (TagTok p t _ _) _ ch =>
    let '(items, cp') := abs_seq (abs_node e) ch p in
    ([S.WItemElt (if cp =? p then None else Some p) (S.WTagTok t) [] (nonempty ch) items], cp')
  | NText c => (abs_text e c, cp)
  | _ => ([], cp)
  end.

(* ---- state invariant of the fragment -------------------------------------------------------------------- *)
Definition finv (st : est) : Prop :=
  in_cdata st = false /\ strtbl st = [] /\ strtbl_len st = 0 /\
  match cur_tag st with Some (_, _, o) => N.land o 1 = 0 | None => True end.

Definition par_ok (p : option tagname) : Prop :=
  match p with Some (TagTok _ _ o _) => N.land o 1 = 0 | _ => True end.

Lemma tok_bits t : t < 64 ->
  N.lor t 64 = t + 64 /\ N.land (N.lor t 64) 63 = t /\ N.land t 63 = t.
Proof.
  intros H.
  assert (F : forallb (fun t => (N.lor t 64 =? t + 64) && (N.land (N.lor t 64) 63 =? t) && (N.land t 63 =? t)) (N_range 64) = true)
    by (vm_compute; reflexivity).
  pose proof (sweep1 _ 64 F t) as P. cbv beta in P.
  assert (Ht : t < N.of_nat 64) by (cbn; lia). specialize (P Ht).
  apply andb_true_iff in P as [P P3]. apply andb_true_iff in P as [P1 P2].
  apply N.eqb_eq in P1, P2, P3. auto.
Qed.

(* ---- text ------------------------------------------------------------------------------------------------ *)
Lemma enc_text_frag e st par c :
  frag_lang (e_lang e) = true -> e_use_strtbl e = false -> finv st -> par_ok par ->
  enc_text e st par c = EOk (flat_map S.ser_item (abs_text e c), st).
Proof.
  intros HL HU (Hc & Ht & Hl & Hb) Hp.
  unfold frag_lang in HL. apply andb_true_iff in HL as [HL Hx]. apply andb_true_iff in HL as [HL Hs].
  apply andb_true_iff in HL as [Hw Hd]. apply negb_true_iff in Hw, Hd, Hs.
  unfold enc_text, abs_text.
  assert (Hbin : is_binary_tag st par = false).
  { unfold is_binary_tag. destruct (cur_tag st) as [[[? ?] o]|].
    - now rewrite Hb.
    - destruct par as [[? ? o ?|?]|]; cbn in Hp |- *; try reflexivity. now rewrite Hp. }
  rewrite Hbin, Hc. cbn [negb andb].
  destruct (e_ignore_empty e && only_ws c); [reflexivity|].
  cbv zeta. cbn [negb andb].
  assert (G : forall buf, enc_value e st false None [] par buf
                         = EOk (flat_map S.ser_item (match buf with [] => [] | x :: r => [S.WItemStr (S.WStrI (x :: r))] end), st)).
  { intros buf. unfold enc_value. destruct buf as [|x s]; [reflexivity|].
    cbv zeta. cbn [negb andb]. rewrite Hc, Hw, Hd, Hs. cbn [negb andb].
    unfold split_value. cbv zeta. cbn [negb andb]. rewrite Hc. cbn [negb andb].
    destruct (bl_exts (e_lang e)); [discriminate|]. rewrite HU. cbn [andb].
    cbn [enc_velts]. unfold enc_inline_string. cbn [flat_map S.ser_item S.ser_str].
    replace (0 <? len (x :: s)) with true by (symmetry; apply N.ltb_lt; unfold len; cbn [List.length]; lia).
    rewrite !app_nil_r. reflexivity. }
  destruct (e_remove_blanks e); exact (G _).
Qed.

(* ---- the tree walk ----------------------------------------------------------------------------------------- *)
Definition walk_ok tbl (e : env) (n : node) : Prop :=
  forall par st, finv st -> par_ok par ->
    exists st', parse_node tbl e par n st = EOk (flat_map S.ser_item (fst (abs_node e n (tagcp st))), st')
                /\ finv st' /\ tagcp st' = snd (abs_node e n (tagcp st)) /\ cur_tag st' = None.

Lemma seq_frag tbl e ns :
  Forall (fun n => walk_ok tbl e n) ns ->
  forall par st, finv st -> par_ok par ->
    exists st', seq_nodes (parse_node tbl) e par ns st = EOk (flat_map S.ser_item (fst (abs_seq (abs_node e) ns (tagcp st))), st')
                /\ finv st' /\ tagcp st' = snd (abs_seq (abs_node e) ns (tagcp st)) /\ strtbl st' = [] .
Proof.
  induction 1 as [|x r Hx _ IH]; intros par st Hi Hp; cbn [seq_nodes abs_seq].
  - exists st. cbn. pose proof Hi as (A & B & C & D). repeat split; auto.
  - destruct (Hx par st Hi Hp) as (st1 & E1 & I1 & T1 & C1). rewrite E1.
    destruct (abs_node e x (tagcp st)) as [a c1] eqn:A. cbn [fst snd] in *.
    destruct (IH par st1 I1 Hp) as (st2 & E2 & I2 & T2 & S2). rewrite E2. rewrite T1 in *.
    destruct (abs_seq (abs_node e) r c1) as [b c2]. cbn [fst snd] in *.
    exists st2. rewrite flat_map_app. split; [reflexivity|]. split; [exact I2|]. split; [exact T2|exact S2].
Qed.

Lemma set_cur_tag_finv st : finv st -> finv (set_cur_tag st None).
Proof. intros (A & B & C & D). repeat split; auto. Qed.

Lemma node_frag tbl e n :
  frag_lang (e_lang e) = true -> e_use_strtbl e = false -> frag_node n = true -> walk_ok tbl e n.
Proof.
  intros HL HU. induction n as [tag attrs ch IH|c|ch IH| |lid roots IH] using node_ind'; intros HF par st Hi Hp; cbn [frag_node] in HF; try discriminate.
  - destruct tag as [p t o nm|nm]; [|discriminate]. destruct attrs as [|a0 attrs]; [|discriminate].
    apply andb_true_iff in HF as [HF Hch]. apply andb_true_iff in HF as [HF Ho]. apply andb_true_iff in HF as [H5 H64].
    apply N.leb_le in H5. apply N.ltb_lt in H64. apply N.eqb_eq in Ho.
    destruct (tok_bits t H64) as (B1 & B2 & B3).
    cbn [parse_node abs_node]. unfold enc_element_start. cbv zeta. cbn [andb].
    unfold enc_tag. cbv zeta. cbn [andb].
    set (tok := if nonempty ch then N.lor t 64 else t).
    assert (Htok : (if match ch with [] => false | _ :: _ => true end then N.lor t 64 else t) = tok) by (subst tok; now destruct ch).
    rewrite Htok.
    assert (Hnz : (N.land tok 63 =? 0) = false).
    { apply N.eqb_neq. subst tok. destruct (nonempty ch); [rewrite B2|rewrite B3]; lia. }
    rewrite Hnz.
    destruct (enc_tag_token (set_cur_tag st (Some (p, t, o))) tok p) as [b1 st1] eqn:ET.
    pose proof (enc_tag_token_spec _ _ _ _ _ ET) as (Tp & Ta & Ts & Tl & Tb).
    assert (I1 : finv st1).
    { destruct Hi as (A & B & C & D). unfold enc_tag_token in ET. cbn [tagcp set_cur_tag] in ET.
      destruct (tagcp st =? p); injection ET as <- <-; repeat split; cbn; auto. }
    assert (Eattrs : (if has_attr_table e then enc_attrs e st1 [] [] else EOk ([], st1)) = EOk ([], st1)) by (destruct (has_attr_table e); reflexivity).
    rewrite Eattrs. cbn [andb].
    assert (IH' : Forall (fun n => walk_ok tbl e n) ch).
    { apply Forall_forall. intros x Hx. rewrite Forall_forall in IH. apply (IH x Hx). rewrite forallb_forall in Hch. now apply Hch. }
    assert (Hp1 : par_ok (Some (TagTok p t o nm))) by exact Ho.
    destruct (seq_frag tbl e ch IH' (Some (TagTok p t o nm)) st1 I1 Hp1) as (st2 & E2 & I2 & T2 & S2).
    rewrite E2. rewrite Tp in *.
    destruct (abs_seq (abs_node e) ch p) as [items cp'] eqn:AS. cbn [fst snd] in *.
    exists (set_cur_tag st2 None). split; [|split; [now apply set_cur_tag_finv|split; [exact T2|reflexivity]]].
    f_equal. f_equal. cbn [flat_map S.ser_item]. rewrite app_nil_r.
    cbn [S.tag_bits]. rewrite !app_nil_r.
    assert (Hb1 : b1 = S.ser_sw (if tagcp st =? p then None else Some p) ++ [t + (0 + (if nonempty ch then 64 else 0))]).
    { cbn [tagcp set_cur_tag] in Tb. destruct Tb as [[Tq ->]|[Tq ->]].
      - apply N.eqb_eq in Tq. rewrite Tq. cbn [S.ser_sw app]. f_equal. subst tok. destruct (nonempty ch); lia.
      - apply N.eqb_neq in Tq. rewrite Tq. cbn [S.ser_sw app]. f_equal. f_equal. subst tok. destruct (nonempty ch); [f_equal; lia|f_equal; lia]. }
    rewrite Hb1. rewrite <- !app_assoc. f_equal. f_equal.
    destruct ch as [|c0 ch0]; cbn [nonempty]; [|reflexivity].
    cbn [abs_seq] in AS. injection AS as <- <-. reflexivity.
  - cbn [parse_node abs_node]. rewrite (enc_text_frag e st par c HL HU Hi Hp).
    exists (set_cur_tag st None). cbn [fst snd]. split; [reflexivity|]. split; [now apply set_cur_tag_finv|]. split; reflexivity.
Qed.

(* ---- strictness of the abstract document ------------------------------------------------------------------ *)
Lemma abs_text_strict e c : forallb (S.strict_item []) (abs_text e c) = true.
Proof.
  unfold abs_text. destruct (e_ignore_empty e && only_ws c); [reflexivity|].
  destruct (cstr _); reflexivity.
Qed.

Lemma abs_seq_strict e ns :
  Forall (fun n => forall cp, forallb (S.strict_item []) (fst (abs_node e n cp)) = true) ns ->
  forall cp, forallb (S.strict_item []) (fst (abs_seq (abs_node e) ns cp)) = true.
Proof.
  induction 1 as [|x r Hx _ IH]; intros cp; cbn [abs_seq]; [reflexivity|].
  specialize (Hx cp). destruct (abs_node e x cp) as [a c1]. specialize (IH c1).
  destruct (abs_seq (abs_node e) r c1) as [b c2]. cbn [fst] in *. now rewrite forallb_app, Hx, IH.
Qed.

Lemma abs_node_strict e n : forall cp, forallb (S.strict_item []) (fst (abs_node e n cp)) = true.
Proof.
  induction n as [tag attrs ch IH|c|ch IH| |lid roots IH] using node_ind'; intros cp; cbn [abs_node]; try reflexivity.
  - destruct tag as [p t o nm|nm]; [|reflexivity].
    pose proof (abs_seq_strict e ch IH p) as H. destruct (abs_seq (abs_node e) ch p) as [items cp'].
    cbn [fst] in *. cbn [forallb S.strict_item]. now rewrite H.
  - apply abs_text_strict.
Qed.

Lemma enc_wbxml_form_local tbl l o roots :
  enc_wbxml tbl l o roots =
  match enc_body tbl l o roots with
  | EOk (body, st) => EOk (fill_header (enc_env l o) st ++ body)
  | EErr c => EErr c
  end.
Proof. unfold enc_wbxml. destruct (enc_body tbl l o roots) as [[body st]|c]; reflexivity. Qed.

(* ---- the whole document -------------------------------------------------------------------------------------- *)
Definition abs_doc (l : blang) (o : options) (root : node) : S.wdoc :=
  let e := enc_env l o in
  S.mk_wdoc (u8 (o_version o)) (S.PubNum (header_public_id e)) (if o_version o =? 0 then None else Some 106) [] []
            (hd (S.WItemStr (S.WStrI [])) (fst (abs_node e root 0))) [].

Theorem enc_wbxml_is_serialize tbl l o p t opts nm ch :
  frag_lang l = true -> o_use_strtbl o = false -> no_pid (enc_env l o) = true ->
  frag_node (NElt (TagTok p t opts nm) [] ch) = true ->
  enc_wbxml tbl l o [NElt (TagTok p t opts nm) [] ch] = EOk (S.serialize (abs_doc l o (NElt (TagTok p t opts nm) [] ch)))
  /\ S.strict_doc (abs_doc l o (NElt (TagTok p t opts nm) [] ch)) = true.
Proof.
  intros HL HU HP HF. set (root := NElt (TagTok p t opts nm) [] ch) in *.
  set (e := enc_env l o).
  assert (HUe : e_use_strtbl e = false) by (subst e; unfold enc_env, make_env; cbn; now rewrite HU).
  assert (HLe : frag_lang (e_lang e) = true) by exact HL.
  assert (H0 : finv (init_est [] 0)) by (repeat split; reflexivity).
  destruct (node_frag tbl e root HLe HUe HF None (init_est [] 0) H0 I) as (st' & E & (Ic & Its & Il & Ib) & _ & _).
  split.
  - rewrite enc_wbxml_form_local. unfold enc_body. cbv zeta. fold e.
    unfold start_state. rewrite HUe. unfold parse_nodes. cbn [seq_nodes]. rewrite E.
    rewrite (fill_header_numeric e st' HP), Il, HUe.
    unfold S.serialize, S.ser_header, abs_doc. cbv zeta. fold e. cbn [S.wd_ver S.wd_pub S.wd_charset S.wd_strtbl S.wd_pis_before S.wd_root S.wd_pis_after flat_map S.ser_pub].
    subst root. cbn [abs_node tagcp init_est] in *.
    destruct (abs_seq (abs_node e) ch p) as [items cp']. cbn [fst hd flat_map] in *.
    unfold header_charset. replace (e_version e) with (o_version o) by reflexivity.
    destruct (o_version o =? 0); cbn [app]; rewrite ?app_nil_r; reflexivity.
  - unfold S.strict_doc, abs_doc. cbv zeta. cbn [S.wd_strtbl S.wd_pub S.wd_pis_before S.wd_root S.wd_pis_after forallb andb].
    pose proof (abs_node_strict (enc_env l o) root 0) as Hs. subst root. cbn [abs_node] in *.
    destruct (abs_seq (abs_node (enc_env l o)) ch p) as [items cp']. cbn [fst hd forallb] in *.
    rewrite andb_true_r in Hs. rewrite Hs. reflexivity.
Qed.
