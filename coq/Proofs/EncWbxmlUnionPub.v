(* C06 — the union theorem with the PUBLIC-ID FIELD of the abstract document exported (for the unforced reading and for
   embedded documents): numeric id = header_public_id, or an index into the table written that resolves (Spec.str_at) to
   the textual id. *)
From Coq Require Import List NArith Lia Bool.
From Wbxml Require Import Base.Bits Model.Codec Model.TablesDefs Model.EncWbxml Model.TreeNorm Model.EncWbxmlEvents
     Proofs.EncWbxmlProofs Proofs.TreeNormProofs Proofs.EncWbxmlAbs Proofs.EncWbxmlStrict2 Proofs.EncWbxmlDenote2
     Proofs.EncWbxmlMerge Proofs.EncWbxmlTblOk Proofs.EncWbxmlDenote3 Proofs.EncWbxmlAbs4 Proofs.EncWbxmlDenote4 Proofs.EncWbxmlAbs5
     Proofs.EncWbxmlDenote5 Proofs.EncWbxmlDenoteWv Proofs.EncWbxmlDenote6 Proofs.EncWbxmlClass6 Proofs.EncWbxmlClasses Proofs.EncWbxmlUnion.
From Wbxml Require Model.Parser Model.Spec Proofs.EncWbxmlDenote Proofs.ParserProofsStrict3.
Import ListNotations.
Local Open Scope N_scope.

Lemma pub_field tblb l o roots body st' root :
  let e := enc_env l o in
  enc_body tblb l o roots = EOk (body, st') -> tbl_lt (strtbl st') = true ->
  (e_use_strtbl e = false -> strtbl st' = [] /\ strtbl_len st' = 0) ->
  (match header_pid e with Some p => okb p = true | None => True end) ->
  (if e_use_strtbl e then tbl_size (final_tbl e st') < 4294967296
   else match header_pid e with Some p => len p + 1 < 4294967296 | None => True end) ->
  match header_pid e with
  | None => S.wd_pub (abs_doc2 e st' root) = S.PubNum (header_public_id e)
  | Some p => exists i, S.wd_pub (abs_doc2 e st' root) = S.PubIdx i /\ S.str_at (S.wd_strtbl (abs_doc2 e st' root)) i = Some p
  end.
Proof.
  cbv zeta. intros EB TLT NOTBL Hpid Hsz. set (e := enc_env l o) in *.
  destruct (final_facts_gen tblb l o _ _ st' EB TLT NOTBL Hpid Hsz) as (G1 & _).
  assert (F : S.wd_strtbl (abs_doc2 e st' root) = doc_strtbl e st' /\
              S.wd_pub (abs_doc2 e st' root) = (match header_pid e with Some _ => S.PubIdx (final_idx e st') | None => S.PubNum (header_public_id e) end)).
  { unfold abs_doc2, final_idx. destruct (header_table e st') as [[i t] tl]. cbn. auto. }
  destruct F as [F1 F2]. rewrite F1, F2. fold e in G1.
  destruct (header_pid e) as [p|] eqn:HP; [|reflexivity].
  exists (final_idx e st'). split; [reflexivity|].
  destruct (e_use_strtbl e) eqn:HU.
  - unfold final_tbl, final_idx, doc_strtbl, header_table in *. rewrite HP, HU in *.
    destruct (strtbl_add (strtbl st') (strtbl_len st') p) as [[idx t] tl] eqn:A.
    destruct (strtbl_add_entry _ _ _ _ _ _ A) as (x & Hin & Hoff & Hstr).
    rewrite <- Hoff, <- Hstr. apply G1; [exact Hin|now rewrite Hstr].
  - unfold final_idx, doc_strtbl, header_table. rewrite HP, HU.
    unfold S.str_at. cbn [Parser.drop N.to_nat skipn].
    replace (0 <? Parser.blen (p ++ [0])) with true by (symmetry; apply N.ltb_lt; unfold Parser.blen; rewrite app_length; cbn; lia).
    f_equal. exact (until_nul_okb p [] Hpid).
Qed.

Theorem decode_class6_pub tblb TBL L o tag attrs ch bs
        (aok : tagname -> list attr -> attr -> bool) (acan : tagname -> list attr -> attr -> bytes) (tok : bool -> option tagname -> bytes -> bool)
        (tev : bool -> option tagname -> bytes -> list P.event) (cok : bool -> option tagname -> bool)
        (eok : bool -> option tagname -> N -> list node -> bool) :
  let e := enc_env (to_blang L) o in
  (* the class *)
  (forall tg na a, aok tg na a = true -> attr_ok3 L a = true) ->
  (forall f p c, tok f p c = true -> allc S.is_byte c = true) ->
  (forall TF tb, (forall x, In x TF -> okb (s_str x) = true -> S.str_at tb (s_off x) = Some (s_str x)) ->
                 (forall x, In x TF -> S.u32_okb (s_off x) = true) -> (forall x, In x TF -> ref_str TF (s_off x) = s_str x) ->
     forall tg l st na ws st' (dst : S.dstate),
       sub TF st' -> forallb (aok tg na) l = true -> cur_tag st = ctag_of (Some tg) -> in_cdata st = false -> S.ds_attrcp dst = attrcp st ->
       abs_attrs5 e st na l = Some (ws, st') ->
       exists dst', S.den_attrs (S.mk_denv L tb) ws dst = Some (map (attr_event5 (acan tg na)) l, dst') /\
                    S.ds_attrcp dst' = attrcp st' /\ S.ds_tagcp dst' = S.ds_tagcp dst /\ S.ds_cur dst' = S.ds_cur dst /\
                    tagcp st' = tagcp st /\ cur_tag st' = cur_tag st /\ in_cdata st' = false) ->
  (forall TF tb, (forall x, In x TF -> okb (s_str x) = true -> S.str_at tb (s_off x) = Some (s_str x)) ->
                 (forall x, In x TF -> S.u32_okb (s_off x) = true) -> (forall x, In x TF -> ref_str TF (s_off x) = s_str x) ->
     forall (first : bool) st par c items st' d me (dst : S.dstate),
       sub TF st' -> in_cdata st = false -> cur_tag st = (if first then ctag_of par else None) -> dcur_ok first par dst me ->
       tok first par c = true -> abs_text5 e st par c = Some (items, st') ->
       exists evs, D1.den_items (S.mk_denv L tb) d me items dst = Some (evs, dst) /\
                   merge_chars evs = merge_chars (tev first par c) /\
                   tagcp st' = tagcp st /\ attrcp st' = attrcp st /\ in_cdata st' = false) ->
  (forall first par, cok first par = true -> plain_parent L par) ->
  (forall first par lid roots, eok first par lid roots = true ->
     plain_parent L par /\ S.bytes_okb (emb_doc tblb e lid roots) = true /\ len (emb_doc tblb e lid roots) < 4294967296) ->
  (* the document *)
  tag_tbl_ok e = true ->
  tree_ok6 L aok tok cok eok (is_syncml (e_lang e)) 0 true None (NElt tag attrs ch) = true ->
  find (fun x => l_id x =? l_id L) TBL = Some L ->
  o_version o < 4 -> header_public_id e < 4294967296 -> header_public_id e <> 0 ->
  (match header_pid e with Some p => okb p = true | None => True end) ->
  len bs < 4294967296 ->
  enc_wbxml tblb (to_blang L) o [NElt tag attrs ch] = EOk bs ->
  exists d evs, bs = S.serialize d /\ S.strict_doc d = true /\
            S.denote_with TBL (Some L) d = Some evs /\ S.decode_lang TBL (l_id L) bs = Some evs /\
            merge_chars evs = merge_chars (doc_events6 tblb L e acan tev (NElt tag attrs ch))
            /\ match header_pid e with
               | None => S.wd_pub d = S.PubNum (header_public_id e)
               | Some p => exists i, S.wd_pub d = S.PubIdx i /\ S.str_at (S.wd_strtbl d) i = Some p
               end.
Proof.
  cbv zeta. intros Haok Htok PA PT HCK HEK HTB HT HFind Hv Hp1 Hp0 Hpid Hlen E. set (e := enc_env (to_blang L) o) in *.
  assert (HE : e_lang e = to_blang L) by reflexivity.
  pose proof (tree_ok6_frag5 L aok tok cok eok _ _ _ _ _ HT) as HF.
  destruct (enc_wbxml_full tblb (to_blang L) o tag attrs ch bs HTB HF E Hlen) as (body & st' & root & EB & AN & HS & Hstrict).
  fold e in AN, HS, Hstrict.
  assert (Hsz : if e_use_strtbl e then tbl_size (final_tbl e st') < 4294967296
                else match header_pid e with Some p => len p + 1 < 4294967296 | None => True end).
  { rewrite enc_wbxml_form_local, EB in E. injection E as <-. rewrite len_app in Hlen.
    pose proof (fill_header_len e st') as HL. fold e in Hlen.
    destruct (e_use_strtbl e); [lia|]. destruct (header_pid e); [lia|exact I]. }
  destruct (abs_node5_facts tblb e _ _ _ _ _ AN) as (_ & _ & Hsame).
  assert (NOTBL : e_use_strtbl e = false -> strtbl st' = [] /\ strtbl_len st' = 0).
  { intros HU. destruct (Hsame HU) as [S1 S2]. unfold start_state in S1, S2. rewrite HU in S1, S2. cbn in S1, S2. auto. }
  assert (TLT : tbl_lt (strtbl st') = true)
    by (exact (abs_node6_lt tblb L e aok tok cok eok _ Haok Htok _ None true 0 _ _ _ HT (start_state_lt6 L e aok tok cok eok _ Haok Htok _ 0 HT) AN)).
  destruct (final_facts_gen tblb (to_blang L) o _ _ st' EB TLT NOTBL Hpid Hsz) as (G1 & G2 & G3 & G4 & G5 & G6 & G7 & G8 & G9).
  assert (Hst0 : tagcp (start_state e [NElt tag attrs ch]) = 0 /\ attrcp (start_state e [NElt tag attrs ch]) = 0 /\
                 cur_tag (start_state e [NElt tag attrs ch]) = None /\ in_cdata (start_state e [NElt tag attrs ch]) = false).
  { unfold start_state. destruct (e_use_strtbl e); [destruct (strtbl_initialize _ _)|]; cbn; auto. }
  destruct Hst0 as (Z2 & Z3 & Z4 & Z5).
  assert (Hdc : dcur6 true None (S.mk_dstate 0 0 None) None) by (intros p t o0 nm Ep; discriminate).
  destruct (all_node_den6 tblb L e HE (final_tbl e st') (doc_strtbl e st') G1 G2 aok acan tok tev cok eok
              (PA _ _ G1 G2 G3) (PT _ _ G1 G2 G3) HCK HEK
              (NElt tag attrs ch) true None 0 None _ [root] st' (S.mk_dstate 0 0 None) HT G4 Z5 Z4 Hdc (eq_sym Z2) (eq_sym Z3) AN)
    as (evs & dst' & DN & MG & _).
  assert (Hden : exists evs', S.denote_with TBL (Some L) (abs_doc2 e st' root) = Some evs' /\
                              merge_chars evs' = merge_chars (doc_events6 tblb L e acan tev (NElt tag attrs ch))).
  { cbn [abs_node5] in AN.
    destruct (abs_tag e _ tag _ _) as [[[sw wtag] st2]|]; [|discriminate].
    destruct (if has_attr_table e then abs_attrs5 e st2 attrs attrs else Some ([], st2)) as [[ws st3]|]; [|discriminate].
    destruct (abs_seq (abs_node5 tblb e) (Some tag) ch st3) as [[its st4]|]; [|discriminate]. injection AN as <- <-.
    eexists. split; [eapply doc_wrap; [exact DN|exact Hv|exact Hp1|exact Hp0|exact G5|exact G6|exact G7]|].
    unfold doc_events6. cbn [merge_chars]. f_equal.
    apply merge_app_congr; [|reflexivity]. exact MG. }
  destruct Hden as (evs' & Hden & MG').
  exists (abs_doc2 e st' root), evs'. split; [exact HS|]. split; [exact Hstrict|]. split; [exact Hden|]. split; [|split; [exact MG'|exact (pub_field tblb (to_blang L) o _ _ st' root EB TLT NOTBL Hpid Hsz)]].
  rewrite HS. apply Proofs.ParserProofsStrict3.decode_lang_serialize; [|exact Hstrict]. rewrite HFind. exact Hden.
Qed.

Theorem strict_decode_of_encoding6_pub tblb TBL L o tag attrs ch bs :
  let e := enc_env (to_blang L) o in
  vals_ok L = true -> side_u L = true -> tag_tbl_ok e = true ->
  tree_ok6 L (aok_u L) (tok_u L (o_keep_ws o)) (cok_plain L) (eok_plain tblb e L) (is_syncml (e_lang e)) 0 true None (NElt tag attrs ch) = true ->
  find (fun x => l_id x =? l_id L) TBL = Some L ->
  o_version o < 4 -> header_public_id e < 4294967296 -> header_public_id e <> 0 ->
  (match header_pid e with Some p => okb p = true | None => True end) ->
  len bs < 4294967296 ->
  enc_wbxml tblb (to_blang L) o [NElt tag attrs ch] = EOk bs ->
  exists d evs, bs = S.serialize d /\ S.strict_doc d = true /\
            S.denote_with TBL (Some L) d = Some evs /\ S.decode_lang TBL (l_id L) bs = Some evs /\
            merge_chars evs = merge_chars (doc_events6 tblb L e (acan_u L) (tev_u L e (o_keep_ws o)) (NElt tag attrs ch))
            /\ match header_pid e with
               | None => S.wd_pub d = S.PubNum (header_public_id e)
               | Some p => exists i, S.wd_pub d = S.PubIdx i /\ S.str_at (S.wd_strtbl d) i = Some p
               end.
Proof.
  cbv zeta. intros HV HSD HTB HT HFind Hv Hp1 Hp0 Hpid Hlen E. set (e := enc_env (to_blang L) o) in *.
  assert (HE : e_lang e = to_blang L) by reflexivity.
  assert (Ho : e_ignore_empty e = e_remove_blanks e) by reflexivity.
  assert (Hk : negb (e_remove_blanks e) = o_keep_ws o) by (subst e; unfold enc_env, make_env; cbn; now rewrite negb_involutive).
  rewrite <- Hk in HT |- *.
  unfold aok_u, acan_u, tok_u, tev_u, side_u in *. unfold class_of in *.
  destruct (is_wv (to_blang L)) eqn:CW.
  - (* Wireless Village *)
    assert (HNO : (bl_id (e_lang e) =? LANG_OTA_SETTINGS) = false).
    { change (e_lang e) with (to_blang L). unfold is_wv, LANG_WV_CSP11, LANG_WV_CSP12, LANG_OTA_SETTINGS in *. apply orb_true_iff in CW as [H|H]; apply N.eqb_eq in H; now rewrite H. }
    apply (decode_class6_pub tblb TBL L o tag attrs ch bs (fun _ _ => aok_dt L) (fun _ _ => acan_dt L) (tok_wv (negb (e_remove_blanks e))) (tev_wv (negb (e_remove_blanks e))) (cok_plain L) (eok_plain tblb e L));
      try assumption.
    + intros tg na a H. unfold aok_dt in H. now apply andb_true_iff in H as [H _].
    + intros f p c H. unfold tok_wv in H. apply andb_true_iff in H as [H _]. apply andb_true_iff in H as [_ H]. exact (okb_lt _ H).
    + intros TF tb R1 R2 R3 tg l st na ws st' dst Hs Hok _. exact (attrs_any L e TF tb HE HNO HV R1 R2 R3 l st na ws st' dst Hs Hok).
    + intros TF tb R1 R2 R3. exact (text_den_wv L e HE CW HSD Ho TF tb R1 R2 R3).
    + exact (cok_plain_spec L).
    + exact (eok_plain_spec tblb e L).
  - assert (HX : l_exts L = None).
    { destruct (bl_id (to_blang L) =? LANG_DRMREL10); [|destruct (is_syncml (to_blang L)); [|destruct (bl_id (to_blang L) =? LANG_OTA_SETTINGS)]];
        (destruct (l_exts L); [discriminate|reflexivity]). }
    destruct (bl_id (to_blang L) =? LANG_DRMREL10) eqn:CD.
    + (* DRMREL *)
      destruct (drm_not_others L e HE CD) as (_ & _ & HNO).
      apply (decode_class6_pub tblb TBL L o tag attrs ch bs (fun _ _ => aok_dt L) (fun _ _ => acan_dt L) (tok_drm (negb (e_remove_blanks e))) (tev_drm (negb (e_remove_blanks e))) (cok_plain L) (eok_plain tblb e L));
        try assumption.
      * intros tg na a H. unfold aok_dt in H. now apply andb_true_iff in H as [H _].
      * intros f p c H. unfold tok_drm in H. apply andb_true_iff in H as [H _]. apply andb_true_iff in H as [_ H]. exact (okb_lt _ H).
      * intros TF tb R1 R2 R3 tg l st na ws st' dst Hs Hok _. exact (attrs_any L e TF tb HE HNO HV R1 R2 R3 l st na ws st' dst Hs Hok).
      * intros TF tb R1 R2 R3. exact (text_den_drm L e HE CD HV HX Ho TF tb R1 R2 R3).
      * exact (cok_plain_spec L).
      * exact (eok_plain_spec tblb e L).
    + destruct (is_syncml (to_blang L)) eqn:CS.
      * (* SyncML *)
        destruct (sy_not_others e CS) as (_ & _ & HNO).
        apply (decode_class6_pub tblb TBL L o tag attrs ch bs (fun _ _ => aok_dt L) (fun _ _ => acan_dt L) tok_sy (tev_sy e (negb (e_remove_blanks e))) (cok_plain L) (eok_plain tblb e L));
          try assumption.
        -- intros tg na a H. unfold aok_dt in H. now apply andb_true_iff in H as [H _].
        -- intros f p c H. unfold tok_sy in H. apply andb_true_iff in H as [_ H]. exact (okb_lt _ H).
        -- intros TF tb R1 R2 R3 tg l st na ws st' dst Hs Hok _. exact (attrs_any L e TF tb HE HNO HV R1 R2 R3 l st na ws st' dst Hs Hok).
        -- intros TF tb R1 R2 R3. exact (text_den_sy L e HE CS HV HX Ho TF tb R1 R2 R3).
        -- exact (cok_plain_spec L).
        -- exact (eok_plain_spec tblb e L).
      * assert (HCP : is_wv (e_lang e) = false /\ (bl_id (e_lang e) =? LANG_DRMREL10) = false /\ is_syncml (e_lang e) = false) by auto.
        destruct (bl_id (to_blang L) =? LANG_OTA_SETTINGS) eqn:CO.
        -- (* OTA settings *)
           apply (decode_class6_pub tblb TBL L o tag attrs ch bs (aok_ota L) acan_ota tok_plain (tev_plain (negb (e_remove_blanks e)) (has_attr_table e)) (cok_plain L) (eok_plain tblb e L)); try assumption.
           ++ intros tg na a H. unfold aok_ota in H. now apply andb_true_iff in H as [H _].
           ++ exact tok_lt_plain.
           ++ intros TF tb R1 R2 R3 tg l st na ws st' dst. exact (den_all_attrs_ota L e HE CO HV HX TF tb R1 R2 R3 tg l st na ws st' dst).
           ++ intros TF tb R1 R2 R3. exact (text_den5 L e HE HCP HV HX Ho TF tb R1 R2 R3).
           ++ exact (cok_plain_spec L).
           ++ exact (eok_plain_spec tblb e L).
        -- (* every other language, SI and EMN included *)
           apply (decode_class6_pub tblb TBL L o tag attrs ch bs (fun _ _ => aok_dt L) (fun _ _ => acan_dt L) tok_plain (tev_plain (negb (e_remove_blanks e)) (has_attr_table e)) (cok_plain L) (eok_plain tblb e L));
             try assumption.
           ++ intros tg na a H. unfold aok_dt in H. now apply andb_true_iff in H as [H _].
           ++ exact tok_lt_plain.
           ++ intros TF tb R1 R2 R3 tg l st na ws st' dst Hs Hok _. exact (attrs_any L e TF tb HE CO HV R1 R2 R3 l st na ws st' dst Hs Hok).
           ++ intros TF tb R1 R2 R3. exact (text_den5 L e HE HCP HV HX Ho TF tb R1 R2 R3).
           ++ exact (cok_plain_spec L).
           ++ exact (eok_plain_spec tblb e L).
Qed.

