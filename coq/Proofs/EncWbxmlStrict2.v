(* C06 — strictness (Spec.strict_doc) of the abstract document of Proofs/EncWbxmlAbs.v: every string-table reference,
   literal index and textual public id index is the offset of a table entry, hence the first octet of a NUL-terminated
   entry of the table that is written. *)
From Coq Require Import List NArith Lia Bool.
From Wbxml Require Import Base.Bits Model.Codec Model.EncWbxml Proofs.EncWbxmlProofs Proofs.EncWbxmlAbs.
From Wbxml Require Model.Parser Model.Spec.
Import ListNotations.
Local Open Scope N_scope.

(* ---- "index i is the offset of an entry of tbl" ----------------------------------------------------------------------- *)
Definition has_off (tbl : list ste) (i : N) : bool := existsb (fun x => s_off x =? i) tbl.

Lemma has_off_app tbl x i : has_off tbl i = true -> has_off (tbl ++ x) i = true.
Proof. unfold has_off. rewrite existsb_app. intros ->. reflexivity. Qed.

Definition sx_str (tbl : list ste) (s : S.wstr) : bool :=
  match s with
  | S.WStrT i => has_off tbl i
  | S.WExt sw _ => match sw with None => true | Some _ => false end
  | _ => true
  end.
Definition sx_val (tbl : list ste) (v : S.wval) : bool := match v with S.WValStr s => sx_str tbl s | S.WValTok _ _ => true end.
Definition sx_attr (tbl : list ste) (a : S.wattr) : bool :=
  (match S.wa_start a with S.AStartLit i => has_off tbl i | S.AStartTok _ _ => true end) && forallb (sx_val tbl) (S.wa_vals a).
Fixpoint sx_item (tbl : list ste) (i : S.witem) : bool :=
  match i with
  | S.WItemStr s => sx_str tbl s
  | S.WItemPi p => sx_attr tbl p
  | S.WItemElt _ tag attrs _ items =>
    (match tag with S.WTagLit i => has_off tbl i | S.WTagTok _ => true end)
    && forallb (sx_attr tbl) attrs && forallb (sx_item tbl) items
  end.

Lemma sx_str_app tbl x s : sx_str tbl s = true -> sx_str (tbl ++ x) s = true.
Proof. destruct s; cbn [sx_str]; auto. apply has_off_app. Qed.
Lemma sx_val_app tbl x v : sx_val tbl v = true -> sx_val (tbl ++ x) v = true.
Proof. destruct v; cbn [sx_val]; auto. apply sx_str_app. Qed.
Lemma forallb_mono {A} (f g : A -> bool) l : (forall a, f a = true -> g a = true) -> forallb f l = true -> forallb g l = true.
Proof. intros H. induction l as [|a r IH]; cbn [forallb]; [auto|]. intros E. apply andb_true_iff in E as [E1 E2]. now rewrite (H a E1), IH. Qed.
Lemma sx_attr_app tbl x a : sx_attr tbl a = true -> sx_attr (tbl ++ x) a = true.
Proof.
  unfold sx_attr. intros H. apply andb_true_iff in H as [H1 H2]. apply andb_true_iff. split.
  - destruct (S.wa_start a); auto. now apply has_off_app.
  - eapply forallb_mono; [|exact H2]. intros v. apply sx_val_app.
Qed.
Lemma sx_item_app tbl x : forall i, sx_item tbl i = true -> sx_item (tbl ++ x) i = true.
Proof.
  fix IH 1. intros i. destruct i as [sw tag attrs hasc items|s|p]; cbn [sx_item].
  - intros H. apply andb_true_iff in H as [H H3]. apply andb_true_iff in H as [H1 H2].
    apply andb_true_iff. split; [apply andb_true_iff; split|].
    + destruct tag; auto. now apply has_off_app.
    + eapply forallb_mono; [|exact H2]. intros a. apply sx_attr_app.
    + revert H3. clear -IH. induction items as [|y r IHr]; cbn [forallb]; [auto|].
      intros E. apply andb_true_iff in E as [E1 E2]. now rewrite (IH y E1), IHr.
  - apply sx_str_app.
  - apply sx_attr_app.
Qed.

(* ---- value elements carry only references to entries of the table they were cut against ---------------------------------- *)
Definition vx (tbl : list ste) (v : velt) : bool := match v with VRef off => has_off tbl off | _ => true end.

Lemma split_sweep_vx tbl find mk : vx tbl mk = true ->
  forall fuel l l', split_sweep fuel find mk l = Some l' -> forallb (vx tbl) l = true -> forallb (vx tbl) l' = true.
Proof.
  intros Hm. induction fuel as [|f IH]; intros l l'; cbn [split_sweep]; [discriminate|].
  destruct l as [|v r]; [intros H; now injection H as <-|].
  destruct v as [s|t|p t|off]; cbn [forallb].
  - destruct (find s) as [[idx mlen]|].
    + destruct (split_sweep f find mk _) as [r'|] eqn:Sx; [|discriminate]. intros H Hl; injection H as <-.
      cbn [forallb vx andb]. rewrite Hm. cbn [andb]. apply (IH _ _ Sx).
      cbn [vx andb] in Hl. destruct (idx + mlen <? len s); cbn [forallb vx andb]; exact Hl.
    + destruct (split_sweep f find mk r) as [r'|] eqn:Sx; [|discriminate]. intros H Hl; injection H as <-.
      cbn [forallb vx andb] in *. now apply (IH _ _ Sx).
  - destruct (split_sweep f find mk r) as [r'|] eqn:Sx; [|discriminate]. intros H Hl; injection H as <-.
    cbn [forallb vx andb] in *. now apply (IH _ _ Sx).
  - destruct (split_sweep f find mk r) as [r'|] eqn:Sx; [|discriminate]. intros H Hl; injection H as <-.
    cbn [forallb vx andb] in *. now apply (IH _ _ Sx).
  - destruct (split_sweep f find mk r) as [r'|] eqn:Sx; [|discriminate]. intros H Hl; injection H as <-.
    cbn [forallb] in *. apply andb_true_iff in Hl as [H1 H2]. rewrite H1. cbn [andb]. now apply (IH _ _ Sx).
Qed.

Lemma pass_vals_vx tbl rows : forall l l', pass_vals rows l = Some l' -> forallb (vx tbl) l = true -> forallb (vx tbl) l' = true.
Proof.
  induction rows as [|r rest IH]; intros l l'; cbn [pass_vals]; [intros H; now injection H as <-|].
  unfold sweep. destruct (split_sweep _ _ _ l) as [l1|] eqn:Sx; [|discriminate]. intros H Hl.
  apply (IH _ _ H). eapply split_sweep_vx; [|exact Sx|exact Hl]. reflexivity.
Qed.
Lemma pass_exts_vx tbl rows : forall l l', pass_exts rows l = Some l' -> forallb (vx tbl) l = true -> forallb (vx tbl) l' = true.
Proof.
  induction rows as [|r rest IH]; intros l l'; cbn [pass_exts]; [intros H; now injection H as <-|].
  destruct (len (be_name r) <? 2); [apply IH|].
  unfold sweep. destruct (split_sweep _ _ _ l) as [l1|] eqn:Sx; [|discriminate]. intros H Hl.
  apply (IH _ _ H). eapply split_sweep_vx; [|exact Sx|exact Hl]. reflexivity.
Qed.
Lemma pass_strtbl_vx tbl sub : (forall x, In x sub -> In x tbl) ->
  forall l l', pass_strtbl sub l = Some l' -> forallb (vx tbl) l = true -> forallb (vx tbl) l' = true.
Proof.
  induction sub as [|x rest IH]; intros Hin l l'; cbn [pass_strtbl]; [intros H; now injection H as <-|].
  unfold sweep. destruct (split_sweep _ _ _ l) as [l1|] eqn:Sx; [|discriminate]. intros H Hl.
  apply (IH (fun y Hy => Hin y (or_intror Hy)) _ _ H). eapply split_sweep_vx; [|exact Sx|exact Hl].
  cbn [vx]. unfold has_off. apply existsb_exists. exists x. split; [apply Hin; now left|apply N.eqb_refl].
Qed.

Lemma split_value_vx e st ia buf l : split_value e st ia buf = Some l -> forallb (vx (strtbl st)) l = true.
Proof.
  unfold split_value. cbv zeta.
  destruct (if ia then _ else Some [VStr buf]) as [l1|] eqn:E1; [|discriminate].
  assert (H1 : forallb (vx (strtbl st)) l1 = true).
  { destruct ia; [|injection E1 as <-; reflexivity].
    destruct (bl_vals (e_lang e)) as [rows|]; [|injection E1 as <-; reflexivity]. now apply (pass_vals_vx _ rows _ _ E1). }
  destruct (if negb ia && negb (in_cdata st) then _ else Some l1) as [l2|] eqn:E2; [|discriminate].
  assert (H2 : forallb (vx (strtbl st)) l2 = true).
  { destruct (negb ia && negb (in_cdata st)); [|injection E2 as <-; exact H1].
    destruct (bl_exts (e_lang e)) as [rows|]; [|injection E2 as <-; exact H1]. now apply (pass_exts_vx _ rows _ _ E2). }
  destruct (e_use_strtbl e && negb (in_cdata st && negb ia)).
  - intros H. apply (pass_strtbl_vx (strtbl st) (strtbl st) (fun x Hx => Hx) _ _ H H2).
  - intros H; now injection H as <-.
Qed.

Lemma abs_velts_sx tbl l : forall st, forallb (vx tbl) l = true -> forallb (sx_val tbl) (fst (abs_velts st l)) = true.
Proof.
  induction l as [|v r IH]; intros st H; cbn [abs_velts]; [reflexivity|].
  cbn [forallb] in H. apply andb_true_iff in H as [Hv Hr].
  destruct v as [s|t|p t|off].
  - specialize (IH st Hr). destruct (abs_velts st r) as [w' st2]. cbn [fst] in *. rewrite forallb_app, IH.
    destruct (0 <? len s); reflexivity.
  - specialize (IH st Hr). destruct (abs_velts st r) as [w' st2]. cbn [fst] in *. now rewrite forallb_app, IH.
  - specialize (IH (snd (enc_attr_token st t p)) Hr). destruct (abs_velts _ r) as [w' st2]. cbn [fst] in *. now rewrite forallb_app, IH.
  - specialize (IH st Hr). destruct (abs_velts st r) as [w' st2]. cbn [fst] in *. rewrite forallb_app, IH.
    cbn [forallb sx_val sx_str vx] in *. now rewrite Hv.
Qed.

Lemma abs_value_sx e st ia buf w st' : abs_value e st ia buf = Some (w, st') -> forallb (sx_val (strtbl st)) w = true.
Proof.
  unfold abs_value. destruct buf as [|x s]; [intros E; now injection E as <- <-|].
  destruct (split_value e st ia (x :: s)) as [l|] eqn:SV; [|discriminate]. intros E.
  pose proof (abs_velts_sx (strtbl st) l st (split_value_vx _ _ _ _ _ SV)) as H.
  destruct (abs_velts st l) as [w0 st0]. now injection E as <- <-.
Qed.

(* ---- append-only (ext) for the abstraction ------------------------------------------------------------------------------------ *)
Lemma same_ext2 a b : same_tbl a b -> exists x, strtbl b = strtbl a ++ x.
Proof. intros [H _]. exists []. now rewrite app_nil_r. Qed.

Lemma strtbl_add_has tbl tlen s idx tbl' tlen' : strtbl_add tbl tlen s = (idx, tbl', tlen') ->
  (exists x, tbl' = tbl ++ x) /\ has_off tbl' idx = true.
Proof.
  unfold strtbl_add. destruct (find _ tbl) as [e0|] eqn:F; intros H; injection H as <- <- <-.
  - split; [exists []; now rewrite app_nil_r|]. apply find_some in F as [Hin _].
    unfold has_off. apply existsb_exists. exists e0. split; [exact Hin|apply N.eqb_refl].
  - split; [now eexists|]. unfold has_off. rewrite existsb_app. cbn. rewrite N.eqb_refl. now rewrite orb_true_r.
Qed.

Lemma abs_attr_sx e st a w st' : abs_attr e st a = Some (w, st') ->
  (exists x, strtbl st' = strtbl st ++ x) /\ sx_attr (strtbl st') w = true.
Proof.
  unfold abs_attr. destruct (abs_attr_start e st a) as [[[start vl] st1]|] eqn:AS; [|discriminate].
  assert (H1 : (exists x, strtbl st1 = strtbl st ++ x) /\ match start with S.AStartLit i => has_off (strtbl st1) i = true | _ => True end).
  { unfold abs_attr_start in AS. cbv zeta in AS.
    assert (LT : forall nm vl0, (if e_use_strtbl e then
                  let '(idx, tbl', tlen') := strtbl_add (strtbl st) (strtbl_len st) (cstr nm) in
                  Some (S.AStartLit idx, vl0, set_strtbl st tbl' tlen') else None) = Some (start, vl, st1) ->
                (exists x, strtbl st1 = strtbl st ++ x) /\ match start with S.AStartLit i => has_off (strtbl st1) i = true | _ => True end).
    { intros nm vl0. destruct (e_use_strtbl e); [|discriminate]. destruct (strtbl_add _ _ _) as [[idx t'] l'] eqn:A.
      intros E; injection E as <- <- <-. destruct (strtbl_add_has _ _ _ _ _ _ A). split; assumption. }
    assert (TK : forall t p, (exists x, strtbl (snd (enc_attr_token st t p)) = strtbl st ++ x))
      by (intros t p; apply same_ext2, attr_token_same_tbl).
    destruct (at_name a) as [page tk nm oval|nm].
    - destruct oval as [xv|].
      + destruct (is_prefix xv _); [injection AS as <- <- <-; split; [apply TK|exact I]|exact (LT _ _ AS)].
      + injection AS as <- <- <-; split; [apply TK|exact I].
    - destruct (get_attr_from_xml _ _ _) as [[r lft]|]; [injection AS as <- <- <-; split; [apply TK|exact I]|exact (LT _ _ AS)]. }
  destruct H1 as [[x Hx] Hs]. destruct vl as [v|].
  - destruct (abs_value e st1 true v) as [[w0 st2]|] eqn:AV; [|discriminate]. intros E; injection E as <- <-.
    destruct (abs_value_same _ _ _ _ _ _ AV) as [S1 _]. split; [exists x; congruence|].
    unfold sx_attr. cbn [S.wa_start S.wa_vals]. rewrite S1. apply andb_true_iff. split.
    + destruct start; auto.
    + exact (abs_value_sx _ _ _ _ _ _ AV).
  - intros E; injection E as <- <-. split; [exists x; exact Hx|]. unfold sx_attr. cbn. destruct start; auto. now rewrite Hs.
Qed.

Lemma abs_attrs_sx e l : forall st ws st', abs_attrs e st l = Some (ws, st') ->
  (exists x, strtbl st' = strtbl st ++ x) /\ forallb (sx_attr (strtbl st')) ws = true.
Proof.
  induction l as [|a r IH]; intros st ws st'; cbn [abs_attrs].
  - intros E; injection E as <- <-. split; [exists []; now rewrite app_nil_r|reflexivity].
  - destruct (abs_attr e st a) as [[w st1]|] eqn:A; [|discriminate].
    destruct (abs_attrs e st1 r) as [[ws' st2]|] eqn:R; [|discriminate]. intros E; injection E as <- <-.
    destruct (abs_attr_sx _ _ _ _ _ A) as [[x Hx] Hw]. destruct (IH _ _ _ R) as [[y Hy] Hws].
    split; [exists (x ++ y); now rewrite Hy, Hx, app_assoc|].
    cbn [forallb]. rewrite Hws, andb_true_r. rewrite Hy. now apply sx_attr_app.
Qed.

Lemma abs_text_sx e st par c items st' : abs_text e st par c = Some (items, st') ->
  same_tbl st st' /\ forallb (sx_item (strtbl st')) items = true.
Proof.
  intros A. pose proof (abs_text_same _ _ _ _ _ _ A) as Hs. split; [exact Hs|].
  unfold abs_text in A. destruct (is_binary_tag st par); [discriminate|].
  destruct (negb (in_cdata st) && e_ignore_empty e && only_ws c); [now injection A as <- _|].
  destruct (in_cdata st); [discriminate|].
  destruct (abs_value e st false _) as [[w st0]|] eqn:AV; [|discriminate]. injection A as <- <-.
  pose proof (abs_value_sx _ _ _ _ _ _ AV) as Hw. destruct Hs as [S1 _]. rewrite S1.
  unfold items_of. clear AV. induction w as [|v r IHw]; cbn [flat_map forallb]; [reflexivity|].
  cbn [forallb] in Hw. apply andb_true_iff in Hw as [Hv Hr]. rewrite forallb_app, (IHw Hr), andb_true_r.
  destruct v; cbn [forallb sx_item sx_val] in *; [reflexivity|now rewrite Hv].
Qed.

Lemma abs_tag_sx e st tag ha hc sw wtag st' : abs_tag e st tag ha hc = Some (sw, wtag, st') ->
  (exists x, strtbl st' = strtbl st ++ x) /\ match wtag with S.WTagLit i => has_off (strtbl st') i = true | _ => True end.
Proof.
  unfold abs_tag. destruct (tag_triple e st tag) as [[t0 page] ct]. cbv zeta.
  destruct (t0 =? 0).
  - destruct (e_use_strtbl e); [|discriminate]. destruct (strtbl_add _ _ _) as [[idx t'] l'] eqn:A.
    intros E; injection E as _ <- <-. destruct (strtbl_add_has _ _ _ _ _ _ A) as [[x Hx] Hh]. cbn in *. split; [exists x; exact Hx|exact Hh].
  - destruct ((5 <=? t0) && (t0 <? 64)); [|discriminate]. intros E; injection E as _ <- <-.
    split; [exists []; cbn; now rewrite app_nil_r|exact I].
Qed.

Lemma abs_node_sx e n : forall par st items st', abs_node e par n st = Some (items, st') ->
  (exists x, strtbl st' = strtbl st ++ x) /\ forallb (sx_item (strtbl st')) items = true.
Proof.
  induction n as [tag attrs ch IH|c|ch IH| |lid roots IH] using node_ind'; intros par st items st'; cbn [abs_node]; try discriminate.
  - destruct (abs_tag e st tag _ _) as [[[sw wtag] st1]|] eqn:AT; [|discriminate].
    destruct (if has_attr_table e then abs_attrs e st1 attrs else Some ([], st1)) as [[ws st2]|] eqn:AA; [|discriminate].
    destruct (abs_seq (abs_node e) (Some tag) ch st2) as [[its st3]|] eqn:AS; [|discriminate].
    intros E; injection E as <- <-.
    destruct (abs_tag_sx _ _ _ _ _ _ _ _ AT) as [[x Hx] Ht].
    assert (H12 : (exists y, strtbl st2 = strtbl st1 ++ y) /\ forallb (sx_attr (strtbl st2)) ws = true).
    { destruct (has_attr_table e); [exact (abs_attrs_sx _ _ _ _ _ AA)|injection AA as <- <-; split; [exists []; now rewrite app_nil_r|reflexivity]]. }
    destruct H12 as [[y Hy] Hws].
    assert (H23 : (exists z, strtbl st3 = strtbl st2 ++ z) /\ forallb (sx_item (strtbl st3)) its = true).
    { clear AT AA Hx Ht Hy Hws. revert st2 its st3 AS. induction IH as [|c0 r Hc _ IHr]; intros st2 its st3; cbn [abs_seq].
      - intros E; injection E as <- <-. split; [exists []; now rewrite app_nil_r|reflexivity].
      - destruct (abs_node e (Some tag) c0 st2) as [[a sa]|] eqn:A; [|discriminate].
        destruct (abs_seq (abs_node e) (Some tag) r sa) as [[b sb]|] eqn:B; [|discriminate]. intros E; injection E as <- <-.
        destruct (Hc _ _ _ _ A) as [[z1 Hz1] Ha]. destruct (IHr _ _ _ B) as [[z2 Hz2] Hb].
        split; [exists (z1 ++ z2); now rewrite Hz2, Hz1, app_assoc|].
        rewrite forallb_app, Hb, andb_true_r. rewrite Hz2. eapply forallb_mono; [|exact Ha]. intros i. apply sx_item_app. }
    destruct H23 as [[z Hz] Hits].
    split; [exists (x ++ y ++ z); cbn; now rewrite Hz, Hy, Hx, !app_assoc|].
    cbn [forallb sx_item set_cur_tag strtbl]. rewrite andb_true_r, Hits, andb_true_r. apply andb_true_iff. split.
    + destruct wtag; auto. rewrite Hz, Hy. now apply has_off_app, has_off_app.
    + rewrite Hz. eapply forallb_mono; [|exact Hws]. intros a. apply sx_attr_app.
  - destruct (abs_text e st par c) as [[its st1]|] eqn:AT; [|discriminate]. intros E; injection E as <- <-.
    destruct (abs_text_sx _ _ _ _ _ _ AT) as [Hs Hi]. split; [apply same_ext2; destruct Hs; split; cbn; assumption|exact Hi].
Qed.

(* ---- an entry's offset is the first octet of a NUL-terminated entry of the table written ---------------------------------- *)
Lemma construct_cons x r : strtbl_construct (x :: r) = s_str x ++ 0 :: strtbl_construct r.
Proof. unfold strtbl_construct. cbn [flat_map]. now rewrite <- app_assoc. Qed.

Lemma entry_pos base tbl i : offsets_from base tbl -> has_off tbl i = true ->
  base <= i /\ i - base < len (strtbl_construct tbl) /\
  (i = base \/ nth (N.to_nat (i - base - 1)) (strtbl_construct tbl) 1 = 0).
Proof.
  revert base. induction tbl as [|x r IH]; intros base Ho Hh; [discriminate|].
  cbn [offsets_from] in Ho. destruct Ho as [Hx Hr]. unfold has_off in Hh. cbn [existsb] in Hh.
  rewrite construct_cons. rewrite len_app, len_cons.
  destruct (s_off x =? i) eqn:E.
  - apply N.eqb_eq in E. subst i. split; [lia|]. split; [lia|now left].
  - cbn [orb] in Hh. destruct (IH _ Hr Hh) as (Hle & Hlt & Hnth).
    split; [lia|]. split; [lia|]. right.
    assert (Hk : (N.to_nat (i - base - 1) = List.length (s_str x) + N.to_nat (i - (base + len (s_str x) + 1)))%nat)
      by (unfold len in *; lia).
    rewrite Hk, app_nth2_plus.
    destruct (N.eq_dec i (base + len (s_str x) + 1)) as [->|Hne].
    + replace (base + len (s_str x) + 1 - (base + len (s_str x) + 1)) with 0 by lia. reflexivity.
    + destruct Hnth as [->|Hn]; [contradiction|].
      replace (N.to_nat (i - (base + len (s_str x) + 1))) with (S (N.to_nat (i - (base + len (s_str x) + 1) - 1))) by lia.
      cbn [nth]. exact Hn.
Qed.

Lemma entry_start_construct tbl i : offsets_from 0 tbl -> has_off tbl i = true ->
  S.entry_start (strtbl_construct tbl) i = true.
Proof.
  intros Ho Hh. destruct (entry_pos 0 tbl i Ho Hh) as (_ & Hlt & Hn). unfold S.entry_start.
  rewrite N.sub_0_r in *. apply andb_true_iff. split.
  - apply N.ltb_lt. exact Hlt.
  - destruct Hn as [->|Hn]; [reflexivity|]. rewrite Hn. apply orb_true_r.
Qed.

Lemma last_app_cons_local (a : bytes) x b : last (a ++ x :: b) 1 = last (x :: b) 1.
Proof.
  induction a as [|y a IH]; [reflexivity|]. change ((y :: a) ++ x :: b) with (y :: (a ++ x :: b)).
  destruct (a ++ x :: b) as [|z r] eqn:E; [destruct a; discriminate|]. exact IH.
Qed.

Lemma construct_last tbl : match strtbl_construct tbl with [] => True | tb => last tb 1 = 0 end.
Proof.
  induction tbl as [|x r IH]; [exact I|]. rewrite construct_cons.
  destruct (s_str x ++ 0 :: strtbl_construct r) eqn:E; [exact I|]. rewrite <- E.
  rewrite last_app_cons_local. destruct (strtbl_construct r) eqn:R; [reflexivity|exact IH].
Qed.

(* ---- from offsets to Spec.strict_item ------------------------------------------------------------------------------------------ *)
Section ToStrict.
  Variable T : list ste.
  Variable tb : bytes.
  Hypothesis HT : forall i, has_off T i = true -> S.entry_start tb i = true.

  Lemma sx_str_strict s : sx_str T s = true -> S.strict_str tb s = true.
  Proof. destruct s as [s|i|c|d|sw x]; cbn [sx_str S.strict_str]; auto. destruct x; auto. Qed.
  Lemma sx_val_strict v : sx_val T v = true -> S.strict_val tb v = true.
  Proof. destruct v; cbn [sx_val S.strict_val]; auto. apply sx_str_strict. Qed.
  Lemma sx_attr_strict a : sx_attr T a = true -> S.strict_attr tb a = true.
  Proof.
    unfold sx_attr, S.strict_attr. intros H. apply andb_true_iff in H as [H1 H2]. apply andb_true_iff. split.
    - destruct (S.wa_start a); auto.
    - eapply forallb_mono; [|exact H2]. apply sx_val_strict.
  Qed.
  Lemma sx_item_strict : forall i, sx_item T i = true -> S.strict_item tb i = true.
  Proof.
    fix IH 1. intros i. destruct i as [sw tag attrs hasc items|s|p]; cbn [sx_item S.strict_item].
    - intros H. apply andb_true_iff in H as [H H3]. apply andb_true_iff in H as [H1 H2].
      apply andb_true_iff. split; [apply andb_true_iff; split|].
      + destruct tag; auto.
      + eapply forallb_mono; [|exact H2]. apply sx_attr_strict.
      + revert H3. clear -IH. induction items as [|y r IHr]; cbn [forallb]; [auto|].
        intros E. apply andb_true_iff in E as [E1 E2]. now rewrite (IH y E1), IHr.
    - apply sx_str_strict.
    - apply sx_attr_strict.
  Qed.
End ToStrict.

Theorem abs_doc2_strict tbl l o tag attrs ch body st' root :
  let e := enc_env l o in
  enc_body tbl l o [NElt tag attrs ch] = EOk (body, st') ->
  abs_node e None (NElt tag attrs ch) (start_state e [NElt tag attrs ch]) = Some ([root], st') ->
  (let '(_, t, _) := header_table e st' in tbl_size t < 4294967296) ->
  S.strict_doc (abs_doc2 e st' root) = true.
Proof.
  cbv zeta. intros EB AN Hb. set (e := enc_env l o) in *.
  destruct (abs_node_sx e _ _ _ _ _ AN) as [_ Hroot]. cbn [forallb] in Hroot. rewrite andb_true_r in Hroot.
  unfold S.strict_doc, abs_doc2, doc_strtbl. unfold header_table in *.
  destruct (e_use_strtbl e) eqn:HU.
  - (* with string table *)
    assert (Hext : forall t, (exists x, t = strtbl st' ++ x) -> tbl_size t < 4294967296 -> bnd st').
    { intros t [x ->] H. unfold bnd. rewrite tbl_size_app in H. lia. }
    destruct (header_pid e) as [p|].
    + destruct (strtbl_add (strtbl st') (strtbl_len st') p) as [[idx t] tlen] eqn:A.
      destruct (strtbl_add_ok _ _ _ _ _ _ A) as (Hx & HI). destruct (strtbl_add_has _ _ _ _ _ _ A) as [_ Hidx].
      pose proof (enc_body_strtbl_exact tbl l o _ body st' EB (Hext t Hx Hb)) as [Ho Hl].
      destruct (HI (conj Ho Hl) Hb) as [Hot _]. destruct Hx as [x ->].
      cbn [S.wd_strtbl S.wd_pub S.wd_pis_before S.wd_root S.wd_pis_after forallb].
      rewrite (entry_start_construct _ _ Hot Hidx), andb_true_r.
      rewrite (sx_item_strict (strtbl st' ++ x) _ (fun i => entry_start_construct _ i Hot) root (sx_item_app _ x root Hroot)).
      pose proof (construct_last (strtbl st' ++ x)) as HL. destruct (strtbl_construct (strtbl st' ++ x)); [reflexivity|].
      rewrite HL. reflexivity.
    + pose proof (enc_body_strtbl_exact tbl l o _ body st' EB Hb) as [Ho Hl].
      cbn [S.wd_strtbl S.wd_pub S.wd_pis_before S.wd_root S.wd_pis_after forallb].
      rewrite (sx_item_strict (strtbl st') _ (fun i => entry_start_construct _ i Ho) root Hroot).
      pose proof (construct_last (strtbl st')) as HL. destruct (strtbl_construct (strtbl st')); [reflexivity|].
      rewrite HL. reflexivity.
  - (* without: the table of the encoder stays empty, so the items hold no index at all *)
    pose proof (abs_node_same e _ HU _ _ _ _ AN) as [S1 _].
    unfold start_state in S1. rewrite HU in S1. cbn in S1. rewrite S1 in Hroot.
    assert (Hnone : forall tb i, has_off [] i = true -> S.entry_start tb i = true) by (intros tb i H; discriminate).
    destruct (header_pid e) as [p|]; cbn [S.wd_strtbl S.wd_pub S.wd_pis_before S.wd_root S.wd_pis_after forallb].
    + rewrite (sx_item_strict [] _ (Hnone _) root Hroot).
      assert (Hl : last (p ++ [0]) 1 = 0) by (rewrite last_app_cons_local; reflexivity).
      assert (He : S.entry_start (p ++ [0]) 0 = true).
      { unfold S.entry_start. apply andb_true_iff. split; [apply N.ltb_lt; unfold Parser.blen; rewrite app_length; cbn; lia|reflexivity]. }
      rewrite He. destruct (p ++ [0]) eqn:E; [destruct p; discriminate|]. rewrite Hl. reflexivity.
    + rewrite (sx_item_strict [] _ (Hnone _) root Hroot). reflexivity.
Qed.

(* serialize + strict, packaged *)
Theorem enc_wbxml_wide tbl l o tag attrs ch bs :
  let e := enc_env l o in
  plain_env e = true -> frag2_node e (NElt tag attrs ch) = true ->
  enc_wbxml tbl l o [NElt tag attrs ch] = EOk bs ->
  exists body st' root,
    enc_body tbl l o [NElt tag attrs ch] = EOk (body, st') /\
    abs_node e None (NElt tag attrs ch) (start_state e [NElt tag attrs ch]) = Some ([root], st') /\
    ((let '(_, t, _) := header_table e st' in tbl_size t < 4294967296) ->
     (match header_pid e with Some p => len p + 1 < 4294967296 | None => True end) ->
     bs = S.serialize (abs_doc2 e st' root) /\ S.strict_doc (abs_doc2 e st' root) = true).
Proof.
  cbv zeta. intros HP HF E.
  destruct (enc_wbxml_serialize2 tbl l o tag attrs ch bs HP HF E) as (st' & root & EB & AN & HS).
  eexists _, st', root. split; [exact EB|]. split; [exact AN|]. intros Hb Hp. split.
  - apply HS. exact (header_len_ok_holds tbl l o tag attrs ch _ st' root EB AN Hb Hp).
  - exact (abs_doc2_strict tbl l o tag attrs ch _ st' root EB AN Hb).
Qed.
