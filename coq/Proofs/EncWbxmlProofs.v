(* C06 / C07 (WBXML half) — lemmas about Model/EncWbxml.v *)
From Coq Require Import List NArith ZArith Lia Bool ZifyBool ZifyN.
From Wbxml Require Import Base.Bits Model.Codec Model.EncWbxml.
Import ListNotations.
Local Open Scope N_scope.
Ltac Zify.zify_post_hook ::= Z.div_mod_to_equations.

(* ------------------------------------------------------------------ *)
(* small facts                                                          *)

Lemma len_app a b : len (a ++ b) = len a + len b.
Proof. unfold len. rewrite app_length. lia. Qed.

Lemma len_cons x a : len (x :: a) = len a + 1.
Proof. unfold len. cbn [List.length]. lia. Qed.

Lemma beq_eq a : forall b, beq a b = true <-> a = b.
Proof.
  induction a as [|x a IH]; destruct b as [|y b]; cbn [beq]; split; intros H; try easy.
  - apply andb_true_iff in H. destruct H as [H1 H2]. apply N.eqb_eq in H1. apply IH in H2. now subst.
  - injection H as -> ->. rewrite N.eqb_refl. cbn. now apply IH.
Qed.

Definition nul_free (b : bytes) : Prop := Forall (fun c => c <> 0) b.

Lemma cstr_nul_free b : nul_free (cstr b).
Proof.
  induction b as [|c r IH]; cbn [cstr]; [constructor|].
  destruct (N.eqb c 0) eqn:E; [constructor|]. constructor; [|exact IH]. now apply N.eqb_neq.
Qed.

Lemma cstr_id b : nul_free b -> cstr b = b.
Proof.
  induction 1 as [|c r Hc _ IH]; cbn [cstr]; [reflexivity|].
  apply N.eqb_neq in Hc. rewrite Hc. now rewrite IH.
Qed.

(* ------------------------------------------------------------------ *)
(* SWITCH_PAGE is emitted iff the page changes, per code space          *)

Lemma enc_tag_token_spec st token page b st' :
  enc_tag_token st token page = (b, st') ->
  tagcp st' = page /\ attrcp st' = attrcp st /\ strtbl st' = strtbl st /\ strtbl_len st' = strtbl_len st /\
  ((tagcp st = page /\ b = [token]) \/ (tagcp st <> page /\ b = [0; page; token])).
Proof.
  unfold enc_tag_token. destruct (tagcp st =? page) eqn:E; intros H; injection H as <- <-.
  - apply N.eqb_eq in E. repeat split; auto.
  - apply N.eqb_neq in E. cbn. repeat split; auto.
Qed.

Lemma enc_attr_token_spec st token page b st' :
  enc_attr_token st token page = (b, st') ->
  attrcp st' = page /\ tagcp st' = tagcp st /\ strtbl st' = strtbl st /\ strtbl_len st' = strtbl_len st /\
  ((attrcp st = page /\ b = [token]) \/ (attrcp st <> page /\ b = [0; page; token])).
Proof.
  unfold enc_attr_token. destruct (attrcp st =? page) eqn:E; intros H; injection H as <- <-.
  - apply N.eqb_eq in E. repeat split; auto.
  - apply N.eqb_neq in E. cbn. repeat split; auto.
Qed.

(* ------------------------------------------------------------------ *)
(* string table invariant                                               *)

Fixpoint offsets_from (base : N) (tbl : list ste) : Prop :=
  match tbl with
  | [] => True
  | e :: r => s_off e = base /\ offsets_from (base + len (s_str e) + 1) r
  end.

Fixpoint tbl_size (tbl : list ste) : N :=
  match tbl with [] => 0 | e :: r => len (s_str e) + 1 + tbl_size r end.

(* offsets are the prefix sums of (length + 1), entries contain no NUL, the running length is the sum *)
Definition strtbl_inv (tbl : list ste) (tlen : N) : Prop :=
  offsets_from 0 tbl /\ Forall (fun e => nul_free (s_str e)) tbl /\ tlen = tbl_size tbl.

Lemma tbl_size_app a b : tbl_size (a ++ b) = tbl_size a + tbl_size b.
Proof. induction a as [|e a IH]; cbn [tbl_size app]; lia. Qed.

Lemma offsets_from_app base a b :
  offsets_from base (a ++ b) <-> offsets_from base a /\ offsets_from (base + tbl_size a) b.
Proof.
  revert base. induction a as [|e a IH]; intros base; cbn [app offsets_from tbl_size].
  - rewrite N.add_0_r. tauto.
  - rewrite IH. replace (base + len (s_str e) + 1 + tbl_size a) with (base + (len (s_str e) + 1 + tbl_size a)) by lia. tauto.
Qed.

Lemma strtbl_construct_len tbl : len (strtbl_construct tbl) = tbl_size tbl.
Proof.
  induction tbl as [|e r IH]; cbn [strtbl_construct flat_map tbl_size]; [reflexivity|].
  rewrite !len_app. fold (strtbl_construct r). rewrite IH. unfold len at 2. cbn. lia.
Qed.

(* wbxml_strtbl_add_element keeps the invariant (as long as the table stays below 2^32 octets) and returns the
   offset of an entry that holds exactly the string asked for *)
Lemma strtbl_add_inv tbl tlen s idx tbl' tlen' :
  strtbl_inv tbl tlen -> nul_free s -> tlen + len s + 1 < 4294967296 ->
  strtbl_add tbl tlen s = (idx, tbl', tlen') ->
  strtbl_inv tbl' tlen' /\ (exists e, In e tbl' /\ s_off e = idx /\ s_str e = s) /\
  (exists ext, tbl' = tbl ++ ext) /\ tlen <= tlen'.
Proof.
  intros (Hoff & Hnf & Hlen) Hs Hbound. unfold strtbl_add.
  destruct (find _ tbl) as [e|] eqn:F; intros H; injection H as <- <- <-.
  - apply find_some in F. destruct F as [Hin Heq]. apply andb_true_iff in Heq. destruct Heq as [_ Heq].
    apply beq_eq in Heq. split; [now repeat split|]. split; [exists e; auto|]. split; [exists []; now rewrite app_nil_r|lia].
  - split.
    + repeat split.
      * apply offsets_from_app. split; [exact Hoff|]. cbn [offsets_from s_off]. split; [lia|exact I].
      * apply Forall_app. split; [exact Hnf|]. now constructor.
      * rewrite tbl_size_app. cbn [tbl_size s_str]. unfold u32. rewrite N.mod_small by lia. lia.
    + split; [|split; [now eexists|unfold u32; rewrite N.mod_small by lia; lia]].
      exists (mk_ste s tlen). split; [apply in_or_app; right; now left|now cbn].
Qed.

(* ------------------------------------------------------------------ *)
(* header (C06 header clause, C07 anonymous clause)                     *)

(* no textual public id: anonymous, or a language with a numeric public id, or one without XML public id *)
Definition no_pid (e : env) : bool :=
  e_anonymous e || negb (bl_pub_num (e_lang e) =? 1) ||
  match bl_pub_text (e_lang e) with Some _ => false | None => true end.

(* numeric public id: version, mb(public id), [charset 106 unless WBXML 1.0], mb(table length), table *)
Lemma fill_header_numeric e st :
  no_pid e = true ->
  fill_header e st = [u8 (e_version e)] ++ mb_write (header_public_id e) ++ header_charset e ++ mb_write (strtbl_len st)
                     ++ (if e_use_strtbl e then strtbl_construct (strtbl st) else []).
Proof.
  unfold no_pid, fill_header, header_public_id. intros H.
  destruct (e_anonymous e) eqn:A; cbn [negb andb orb] in *.
  - rewrite andb_false_r. reflexivity.
  - destruct (bl_pub_num (e_lang e) =? 1) eqn:E; cbn [negb andb orb] in *; [|reflexivity].
    destruct (bl_pub_text (e_lang e)); [discriminate|]. reflexivity.
Qed.

(* the numeric public id is the language's when the document is not anonymous *)
Lemma fill_header_numeric_lang e st :
  e_anonymous e = false -> no_pid e = true ->
  fill_header e st = [u8 (e_version e)] ++ mb_write (bl_pub_num (e_lang e)) ++ header_charset e ++ mb_write (strtbl_len st)
                     ++ (if e_use_strtbl e then strtbl_construct (strtbl st) else []).
Proof. intros Ha Hp. rewrite (fill_header_numeric e st Hp). unfold header_public_id. now rewrite Ha. Qed.

(* an anonymous document, whatever the language: 0x01 'unknown' and no id string *)
Lemma fill_header_anonymous e st :
  e_anonymous e = true ->
  fill_header e st = [u8 (e_version e); 1] ++ header_charset e ++ mb_write (strtbl_len st)
                     ++ (if e_use_strtbl e then strtbl_construct (strtbl st) else []).
Proof.
  intros Ha. rewrite fill_header_numeric.
  - unfold header_public_id. rewrite Ha. reflexivity.
  - unfold no_pid. rewrite Ha. reflexivity.
Qed.

(* textual public id without string table: 0, index 0, charset, length of the id + 1, the id, NUL *)
Lemma fill_header_textual_nostrtbl e st p :
  bl_pub_num (e_lang e) = 1 -> e_anonymous e = false -> bl_pub_text (e_lang e) = Some p -> e_use_strtbl e = false ->
  fill_header e st = [u8 (e_version e)] ++ ([0] ++ mb_write 0) ++ header_charset e ++ mb_write (u32 (len p + 1)) ++ (p ++ [0]).
Proof.
  intros Hn Ha Hp Hu. unfold fill_header, header_public_id. rewrite Ha, Hn, Hp, Hu. reflexivity.
Qed.

(* the version byte is the requested one, whatever else *)
Lemma fill_header_version e st : exists r, fill_header e st = u8 (e_version e) :: r.
Proof.
  unfold fill_header.
  destruct ((header_public_id e =? 1) && negb (e_anonymous e)); [destruct (bl_pub_text (e_lang e))|];
    try destruct (e_use_strtbl e); try destruct (strtbl_add _ _ _) as [[? ?] ?]; eexists; reflexivity.
Qed.

(* ================================================================== *)


(* ------------------------------------------------------------------ *)
(* induction over trees                                                 *)
Section NodeInd.
  Variable P : node -> Prop.
  Hypothesis HElt : forall t a ch, Forall P ch -> P (NElt t a ch).
  Hypothesis HText : forall c, P (NText c).
  Hypothesis HCData : forall ch, Forall P ch -> P (NCData ch).
  Hypothesis HPi : P NPi.
  Hypothesis HTree : forall lid roots, Forall P roots -> P (NTree lid roots).
  Fixpoint node_ind' (n : node) : P n :=
    match n with
    | NElt t a ch => HElt t a ch ((fix go l : Forall P l :=
                        match l with [] => Forall_nil P | x :: r => Forall_cons x (node_ind' x) (go r) end) ch)
    | NText c => HText c
    | NCData ch => HCData ch ((fix go l : Forall P l :=
                        match l with [] => Forall_nil P | x :: r => Forall_cons x (node_ind' x) (go r) end) ch)
    | NPi => HPi
    | NTree lid roots => HTree lid roots ((fix go l : Forall P l :=
                        match l with [] => Forall_nil P | x :: r => Forall_cons x (node_ind' x) (go r) end) roots)
    end.
End NodeInd.

(* ------------------------------------------------------------------ *)
(* the string table through the whole tree walk                         *)

Definition tinv (st : est) : Prop := offsets_from 0 (strtbl st) /\ strtbl_len st = tbl_size (strtbl st).
Definition bnd (st : est) : Prop := tbl_size (strtbl st) < 4294967296.
Definition ext (st st' : est) : Prop := exists x, strtbl st' = strtbl st ++ x.
Definition same (st st' : est) : Prop := strtbl st' = strtbl st /\ strtbl_len st' = strtbl_len st.

(* a step only appends to the table, and keeps the invariant as long as the table stays below 2^32 octets.
   (Since the repair of D7 the table owns its strings: no step can change an existing entry.) *)
Definition ok (e : env) (st : est) (r : eres (bytes * est)) : Prop :=
  forall b st', r = EOk (b, st') -> ext st st' /\ (tinv st -> bnd st' -> tinv st').

Lemma ext_refl st : ext st st. Proof. exists []. now rewrite app_nil_r. Qed.
Lemma ext_trans a b c : ext a b -> ext b c -> ext a c.
Proof. intros [x Hx] [y Hy]. exists (x ++ y). now rewrite Hy, Hx, app_assoc. Qed.
Lemma ext_bnd a b : ext a b -> bnd b -> bnd a.
Proof. intros [x Hx]. unfold bnd. rewrite Hx, tbl_size_app. lia. Qed.
Lemma same_ext a b : same a b -> ext a b.
Proof. intros [H _]. exists []. now rewrite app_nil_r. Qed.

Lemma ok_ret e st b st' : same st st' -> ok e st (EOk (b, st')).
Proof.
  intros [H1 H2] b0 st0 Heq. injection Heq as <- <-. split.
  - apply same_ext; now split.
  - unfold tinv. now rewrite H1, H2.
Qed.

Lemma ok_err e st c : ok e st (EErr c).
Proof. intros b st' H. discriminate. Qed.

Lemma ok_bind e st ra (k : bytes -> est -> eres (bytes * est)) :
  ok e st ra -> (forall b1 st1, ok e st1 (k b1 st1)) ->
  ok e st (match ra with EOk (b1, st1) => k b1 st1 | EErr c => EErr c end).
Proof.
  intros Ha Hk b st' Heq. destruct ra as [[b1 st1]|c]; [|discriminate].
  destruct (Ha b1 st1 eq_refl) as [He1 Hi1].
  destruct (Hk b1 st1 b st' Heq) as [He2 Hi2].
  split; [eapply ext_trans; eassumption|].
  intros Hi Hb. apply Hi2; [|exact Hb]. apply Hi1; [exact Hi|]. eapply ext_bnd; eassumption.
Qed.

(* a step that starts from a state with the same table *)
Lemma ok_same e st st0 r : same st st0 -> ok e st0 r -> ok e st r.
Proof.
  intros [H1 H2] H b st' Heq.
  destruct (H b st' Heq) as [[x Hx] Hi]. split.
  - exists x; now rewrite Hx, H1.
  - intros Ht. apply Hi. unfold tinv in *. now rewrite H1, H2.
Qed.

Lemma strtbl_add_ok tbl tlen s idx tbl' tlen' :
  strtbl_add tbl tlen s = (idx, tbl', tlen') ->
  (exists x, tbl' = tbl ++ x) /\
  (offsets_from 0 tbl /\ tlen = tbl_size tbl -> tbl_size tbl' < 4294967296 -> offsets_from 0 tbl' /\ tlen' = tbl_size tbl').
Proof.
  unfold strtbl_add. destruct (find _ tbl) as [e0|] eqn:F; intros H; injection H as <- <- <-.
  - split; [exists []; now rewrite app_nil_r|]. auto.
  - split; [now eexists|].
    intros [Ho Hl] Hb. rewrite tbl_size_app in Hb. cbn [tbl_size s_str] in Hb. split.
    + apply offsets_from_app. split; [exact Ho|]. cbn [offsets_from s_off]. split; [lia|exact I].
    + rewrite tbl_size_app. cbn [tbl_size s_str]. unfold u32. rewrite N.mod_small by lia. lia.
Qed.

Lemma enc_literal_ok e st name mask : ok e st (enc_literal e st name mask).
Proof.
  unfold enc_literal. destruct (e_use_strtbl e); [|apply ok_err].
  destruct (strtbl_add _ _ _) as [[idx tbl'] tlen'] eqn:A.
  apply strtbl_add_ok in A. destruct A as ([x Hx] & Hinv).
  intros b st' Heq. injection Heq as <- <-. cbn [strtbl strtbl_len set_strtbl]. split.
  - exists x; exact Hx.
  - unfold tinv, bnd. cbn [strtbl strtbl_len set_strtbl]. intros Ht Hb. now apply Hinv.
Qed.

Lemma enc_tag_token_same st t p : same st (snd (enc_tag_token st t p)).
Proof. unfold enc_tag_token. destruct (_ =? _); now split. Qed.
Lemma enc_attr_token_same st t p : same st (snd (enc_attr_token st t p)).
Proof. unfold enc_attr_token. destruct (_ =? _); now split. Qed.

Lemma enc_tag_ok e st tag ha hc : ok e st (enc_tag e st tag ha hc).
Proof.
  unfold enc_tag.
  destruct (match tag with TagTok p t o _ => _ | TagLit nm => _ end) as [[token0 page] ct].
  cbv zeta. destruct (N.land _ 63 =? 0).
  - eapply ok_same; [|apply enc_literal_ok]. now split.
  - destruct (enc_tag_token _ _ _) as [b st'] eqn:E. apply ok_ret.
    pose proof (enc_tag_token_same (set_cur_tag st ct) (if ha && match bl_attrs (e_lang e) with Some _ => true | None => false end
         then N.lor (if hc then N.lor token0 64 else token0) 128 else if hc then N.lor token0 64 else token0) page) as H.
    rewrite E in H. exact H.
Qed.

Lemma enc_velts_same l : forall st, same st (snd (enc_velts st l)).
Proof.
  induction l as [|v r IH]; intros st; cbn [enc_velts]; [now split|].
  destruct v as [s|t|p t|off].
  - destruct (enc_velts st r) as [b' st2] eqn:E. cbn. specialize (IH st). now rewrite E in IH.
  - destruct (enc_velts st r) as [b' st2] eqn:E. cbn. specialize (IH st). now rewrite E in IH.
  - destruct (enc_attr_token st t p) as [b1 st1] eqn:E1. destruct (enc_velts st1 r) as [b' st2] eqn:E. cbn.
    pose proof (enc_attr_token_same st t p) as H1. rewrite E1 in H1. cbn in H1.
    specialize (IH st1). rewrite E in IH. cbn in IH. destruct H1, IH. split; congruence.
  - destruct (enc_velts st r) as [b' st2] eqn:E. cbn. specialize (IH st). now rewrite E in IH.
Qed.

Lemma enc_value_ok e st ia ca na par buf : ok e st (enc_value e st ia ca na par buf).
Proof.
  unfold enc_value. destruct buf as [|c0 buf]; [apply ok_ret; now split|].
  cbv zeta.
  destruct (if ia then _ else None) as [[b|c]|]; [apply ok_ret; now split|apply ok_err|].
  destruct (if _ && is_wv (e_lang e) then _ else _) as [[b|c]|]; [apply ok_ret; now split|apply ok_err|].
  destruct (split_value _ _ _ _) as [l|]; [|apply ok_err].
  destruct (enc_velts st l) as [b st'] eqn:E. apply ok_ret.
  pose proof (enc_velts_same l st) as H. now rewrite E in H.
Qed.

Lemma ok_pair_bind e st (p : bytes * est) (k : bytes -> est -> eres (bytes * est)) :
  same st (snd p) -> (forall b1 st1, ok e st1 (k b1 st1)) -> ok e st (let '(b, st') := p in k b st').
Proof. destruct p as [b st']. cbn. intros Hs Hk. eapply ok_same; [exact Hs|apply Hk]. Qed.

Lemma enc_attr_ok e st na a : ok e st (enc_attr e st na a).
Proof.
  unfold enc_attr. cbv zeta.
  match goal with |- ok _ _ (match ?X with EOk _ => _ | EErr _ => _ end) => set (first := X) end.
  assert (Hfirst : forall b st', first = EOk (b, st') -> True) by auto. clear Hfirst.
  (* the attribute start: a token (same table) or a literal *)
  assert (H1 : forall b1 st1 vl ca, first = EOk (b1, st1, vl, ca) ->
               ok e st (EOk (b1, st1))).
  { subst first. intros b1 st1 vl ca.
    destruct (at_name a) as [page tok nm oval|nm].
    - destruct oval as [xv|].
      + destruct (is_prefix xv _).
        * destruct (enc_attr_token st tok page) as [b st'] eqn:E. intros H; injection H as <- <- <- <-.
          apply ok_ret. pose proof (enc_attr_token_same st tok page) as Hs. now rewrite E in Hs.
        * pose proof (enc_literal_ok e st nm 0) as Hl. destruct (enc_literal e st nm 0) as [[b st']|c]; [|discriminate].
          intros H; injection H as <- <- <- <-. exact Hl.
      + destruct (enc_attr_token st tok page) as [b st'] eqn:E. intros H; injection H as <- <- <- <-.
        apply ok_ret. pose proof (enc_attr_token_same st tok page) as Hs. now rewrite E in Hs.
    - destruct (get_attr_from_xml _ _ _) as [[r lft]|].
      + destruct (enc_attr_token st (ba_tok r) (ba_page r)) as [b st'] eqn:E. intros H; injection H as <- <- <- <-.
        apply ok_ret. pose proof (enc_attr_token_same st (ba_tok r) (ba_page r)) as Hs. now rewrite E in Hs.
      + pose proof (enc_literal_ok e st nm 0) as Hl. destruct (enc_literal e st nm 0) as [[b st']|c]; [|discriminate].
        intros H; injection H as <- <- <- <-. exact Hl. }
  destruct first as [[[[b1 st1] vl] ca]|c]; [|apply ok_err].
  specialize (H1 b1 st1 vl ca eq_refl).
  destruct vl as [v|]; [|exact H1].
  pose proof (ok_bind e st (EOk (b1, st1)) (fun b1 st1 =>
     match enc_value e st1 true ca na None v with EOk (b2, st2) => EOk (b1 ++ b2, st2) | EErr c => EErr c end) H1) as HB.
  cbn beta iota in HB. apply HB. intros b1' st1'.
  pose proof (ok_bind e st1' (enc_value e st1' true ca na None v) (fun b2 st2 => EOk (b1' ++ b2, st2)) (enc_value_ok _ _ _ _ _ _ _)) as HB2.
  apply HB2. intros. apply ok_ret. now split.
Qed.

Lemma enc_attrs_ok e na l : forall st, ok e st (enc_attrs e st na l).
Proof.
  induction l as [|a r IH]; intros st; cbn [enc_attrs]; [apply ok_ret; now split|].
  apply (ok_bind e st (enc_attr e st na a) (fun b1 st1 =>
     match enc_attrs e st1 na r with EOk (b2, st2) => EOk (b1 ++ b2, st2) | EErr c => EErr c end)); [apply enc_attr_ok|].
  intros b1 st1. apply (ok_bind e st1 (enc_attrs e st1 na r) (fun b2 st2 => EOk (b1 ++ b2, st2))); [apply IH|].
  intros. apply ok_ret. now split.
Qed.

Lemma enc_element_start_ok e st tag attrs hc : ok e st (enc_element_start e st tag attrs hc).
Proof.
  unfold enc_element_start. cbv zeta.
  apply (ok_bind e st (enc_tag e st tag _ hc) (fun b1 st1 =>
     match (if has_attr_table e then enc_attrs e st1 attrs attrs else EOk ([], st1)) with
     | EOk (b2, st2) => EOk (b1 ++ b2 ++ (if (match attrs with [] => false | _ => true end) && has_attr_table e then [1] else []), st2)
     | EErr c => EErr c end)); [apply enc_tag_ok|].
  intros b1 st1.
  apply (ok_bind e st1 (if has_attr_table e then enc_attrs e st1 attrs attrs else EOk ([], st1))
          (fun b2 st2 => EOk (b1 ++ b2 ++ (if (match attrs with [] => false | _ => true end) && has_attr_table e then [1] else []), st2))).
  - destruct (has_attr_table e); [apply enc_attrs_ok|apply ok_ret; now split].
  - intros. apply ok_ret. now split.
Qed.

Lemma enc_text_ok e st par c : ok e st (enc_text e st par c).
Proof.
  unfold enc_text. destruct (is_binary_tag st par); [apply ok_ret; now split|].
  destruct (negb (in_cdata st) && e_ignore_empty e && only_ws c); [apply ok_ret; now split|].
  cbv zeta. destruct (in_cdata st).
  - destruct (cdata st); [apply ok_ret; now split|apply ok_err].
  - apply enc_value_ok.
Qed.

Lemma seq_nodes_ok pn e ns :
  Forall (fun n => forall e p st, ok e st (pn e p n st)) ns ->
  forall p st, ok e st (seq_nodes pn e p ns st).
Proof.
  induction 1 as [|x r Hx _ IH]; intros p st; cbn [seq_nodes]; [apply ok_ret; now split|].
  apply (ok_bind e st (pn e p x st) (fun b1 st1 =>
     match seq_nodes pn e p r st1 with EOk (b2, st2) => EOk (b1 ++ b2, st2) | EErr c => EErr c end)); [apply Hx|].
  intros b1 st1. apply (ok_bind e st1 (seq_nodes pn e p r st1) (fun b2 st2 => EOk (b1 ++ b2, st2))); [apply IH|].
  intros. apply ok_ret. now split.
Qed.

Lemma parse_node_ok tbl n : forall e p st, ok e st (parse_node tbl e p n st).
Proof.
  induction n as [tag attrs ch IH|c|ch IH| |lid roots IH] using node_ind'; intros e p st; cbn [parse_node].
  - apply (ok_bind e st (enc_element_start e st tag attrs _) (fun b1 st1 =>
       match seq_nodes (parse_node tbl) e (Some tag) ch st1 with
       | EOk (b2, st2) => EOk (b1 ++ b2 ++ (if match ch with [] => false | _ => true end then [1] else []), set_cur_tag st2 None)
       | EErr c => EErr c end)); [apply enc_element_start_ok|].
    intros b1 st1. apply (ok_bind e st1 (seq_nodes (parse_node tbl) e (Some tag) ch st1)
       (fun b2 st2 => EOk (b1 ++ b2 ++ (if match ch with [] => false | _ => true end then [1] else []), set_cur_tag st2 None))).
    + now apply seq_nodes_ok.
    + intros. apply ok_ret. now split.
  - apply (ok_bind e st (enc_text e st p c) (fun b st1 => EOk (b, set_cur_tag st1 None))); [apply enc_text_ok|].
    intros. apply ok_ret. now split.
  - destruct (cdata st); [apply ok_err|].
    eapply ok_same with (st0 := set_cdata st true (Some [])); [now split|].
    apply (ok_bind e _ (seq_nodes (parse_node tbl) e None ch (set_cdata st true (Some []))) (fun b1 st1 =>
       match cdata st1 with
       | Some d => EOk (b1 ++ (if 0 <? len d then enc_opaque d else []), set_cur_tag (set_cdata st1 false None) None)
       | None => EErr E_INTERNAL end)); [now apply seq_nodes_ok|].
    intros b1 st1. destruct (cdata st1); [apply ok_ret; now split|apply ok_err].
  - apply ok_err.
  - destruct (find_lang tbl lid); [|apply ok_err].
    destruct (seq_nodes _ _ _ _ _) as [[body st']|c]; [apply ok_ret; now split|apply ok_err].
Qed.

Lemma parse_nodes_ok tbl e p ns st : ok e st (parse_nodes tbl e p ns st).
Proof. unfold parse_nodes. apply seq_nodes_ok. apply Forall_forall. intros n _. apply parse_node_ok. Qed.

(* ================================================================== *)


(* ---- wbxml_strtbl_initialize establishes the invariant ------------------------------------- *)
Lemma keep_refs_inv refs : forall tbl tlen tbl' tlen' one,
  keep_refs refs tbl tlen = (tbl', tlen', one) ->
  (exists x, tbl' = tbl ++ x) /\
  (offsets_from 0 tbl /\ tlen = tbl_size tbl -> tbl_size tbl' < 4294967296 -> offsets_from 0 tbl' /\ tlen' = tbl_size tbl').
Proof.
  induction refs as [|r rest IH]; intros tbl tlen tbl' tlen' one; cbn [keep_refs].
  - intros H; injection H as <- <- <-. split; [exists []; now rewrite app_nil_r|auto].
  - destruct ((1 <? r_count r) && (3 <? len (r_str r))).
    + destruct (strtbl_add tbl tlen (r_str r)) as [[i t1] l1] eqn:A. intros H.
      apply strtbl_add_ok in A. destruct A as ([x Hx] & HA).
      apply IH in H. destruct H as ([y Hy] & HB). split.
      * exists (x ++ y). now rewrite Hy, Hx, app_assoc.
      * intros Hi Hb. apply HB; [|exact Hb]. apply HA; [exact Hi|]. rewrite Hy, tbl_size_app in Hb. lia.
    + destruct (keep_refs rest tbl tlen) as [[t1 l1] o1] eqn:K. intros H; injection H as <- <- <-.
      now apply IH in K.
Qed.

Lemma strtbl_initialize_inv l roots tbl tlen :
  strtbl_initialize l roots = (tbl, tlen) -> tbl_size tbl < 4294967296 ->
  offsets_from 0 tbl /\ tlen = tbl_size tbl.
Proof.
  unfold strtbl_initialize, check_references.
  cbv zeta.
  destruct (keep_refs (count_refs (collect_nodes l roots) []) [] 0) as [[t1 l1] one] eqn:K1.
  destruct (keep_refs _ t1 l1) as [[t2 l2] one2] eqn:K2.
  intros H Hb; injection H as <- <-.
  apply keep_refs_inv in K1. apply keep_refs_inv in K2.
  destruct K1 as (_ & H1). destruct K2 as ([y Hy] & H2).
  apply H2; [|exact Hb]. apply H1; [now cbn|]. rewrite Hy, tbl_size_app in Hb. lia.
Qed.

(* ---- end to end: the running length and the offsets of the final table --------------------- *)
Lemma start_state_tinv e roots : bnd (start_state e roots) -> tinv (start_state e roots).
Proof.
  unfold start_state, bnd, tinv. destruct (e_use_strtbl e).
  - destruct (strtbl_initialize (e_lang e) roots) as [t n] eqn:I. cbn. intros Hb.
    now apply (strtbl_initialize_inv _ _ _ _ I).
  - now cbn.
Qed.

Theorem enc_body_strtbl_exact tbl l o roots body st :
  enc_body tbl l o roots = EOk (body, st) -> bnd st -> tinv st.
Proof.
  unfold enc_body. cbv zeta. intros H Hb.
  destruct (parse_nodes_ok tbl (enc_env l o) None roots (start_state (enc_env l o) roots) body st H) as [He Hi].
  apply Hi; [|exact Hb]. apply start_state_tinv. eapply ext_bnd; eassumption.
Qed.

(* the table written by the header is exactly as long as declared (string table in use, numeric public id) *)
Theorem header_strtbl_length_exact e st :
  no_pid e = true -> e_use_strtbl e = true -> tinv st ->
  exists pre, fill_header e st = pre ++ mb_write (strtbl_len st) ++ strtbl_construct (strtbl st) /\
              len (strtbl_construct (strtbl st)) = strtbl_len st.
Proof.
  intros Hp Hu [_ Hl]. rewrite fill_header_numeric by exact Hp. rewrite Hu.
  exists ([u8 (e_version e)] ++ mb_write (header_public_id e) ++ header_charset e). split.
  - now rewrite <- !app_assoc.
  - now rewrite strtbl_construct_len.
Qed.

(* ---- D7 (history): before /repo 6829a7f a table entry promoted from the tree shared the text node's buffer and
   parse_text trimmed it in place; the model of that code refuted the theorem above on the tree below (string table on,
   keep-ws off: declared length 14, table written 11).  The tree is kept as a regression example. ------------------- *)
Definition d7_lang : blang := mk_blang 1102 4 None None None None None.
Definition d7_p (t : bytes) : node := NElt (TagTok 0 32 0 [112]) [] [NText t].
Definition d7_tree : list node :=
  [NElt (TagTok 0 63 0 [119; 109; 108]) []
     [d7_p [32; 32; 97; 98; 99; 100; 32]; d7_p [32; 32; 97; 98; 99; 100; 32]; d7_p [119; 120; 121; 122; 49]; d7_p [119; 120; 121; 122; 49]]].

(* ---- C07: the body does not depend on `anonymous`, nor on `version` without embedded trees -- *)
Definition set_anon (e : env) (a : bool) : env :=
  mk_env (e_lang e) (e_use_strtbl e) (e_ignore_empty e) (e_remove_blanks e) (e_version e) a.
Definition set_version (e : env) (v : N) : env :=
  mk_env (e_lang e) (e_use_strtbl e) (e_ignore_empty e) (e_remove_blanks e) v (e_anonymous e).

Lemma enc_attrs_env f :
  (forall e st na a, enc_attr e st na a = enc_attr (f e) st na a) ->
  forall e na l st, enc_attrs e st na l = enc_attrs (f e) st na l.
Proof.
  intros H e na l. induction l as [|a r IH]; intros st; cbn [enc_attrs]; [reflexivity|].
  rewrite <- H. destruct (enc_attr e st na a) as [[b1 st1]|c]; [|reflexivity]. now rewrite IH.
Qed.

Lemma seq_nodes_env pn (f : env -> env) ns :
  Forall (fun n => forall e p st, pn e p n st = pn (f e) p n st) ns ->
  forall e p st, seq_nodes pn e p ns st = seq_nodes pn (f e) p ns st.
Proof.
  induction 1 as [|x r Hx _ IH]; intros e p st; cbn [seq_nodes]; [reflexivity|].
  rewrite <- Hx. destruct (pn e p x st) as [[b1 st1]|c]; [|reflexivity]. now rewrite IH.
Qed.

Lemma parse_node_anon tbl a n : forall e p st, parse_node tbl e p n st = parse_node tbl (set_anon e a) p n st.
Proof.
  assert (HA : forall e st na x, enc_attr e st na x = enc_attr (set_anon e a) st na x) by (intros [] ? ? ?; reflexivity).
  induction n as [tag attrs ch IH|c|ch IH| |lid roots IH] using node_ind'; intros e p st; cbn [parse_node].
  - assert (Hs : enc_element_start e st tag attrs (match ch with [] => false | _ => true end)
                 = enc_element_start (set_anon e a) st tag attrs (match ch with [] => false | _ => true end)).
    { unfold enc_element_start. replace (enc_tag (set_anon e a)) with (enc_tag e) by (destruct e; reflexivity).
      destruct (enc_tag e st tag _ _) as [[b1 st1]|c]; [|reflexivity].
      replace (has_attr_table (set_anon e a)) with (has_attr_table e) by (destruct e; reflexivity).
      now rewrite <- (enc_attrs_env (fun e => set_anon e a) HA). }
    rewrite <- Hs. destruct (enc_element_start e st tag attrs _) as [[b1 st1]|c]; [|reflexivity].
    now rewrite <- (seq_nodes_env (parse_node tbl) (fun e => set_anon e a) ch IH).
  - replace (enc_text (set_anon e a)) with (enc_text e) by (destruct e; reflexivity). reflexivity.
  - destruct (cdata st); [reflexivity|].
    now rewrite <- (seq_nodes_env (parse_node tbl) (fun e => set_anon e a) ch IH).
  - reflexivity.
  - destruct e; reflexivity.
Qed.

Theorem c07_body_independent_of_anonymous tbl l v s k a1 a2 roots :
  enc_body tbl l (mk_opts v s k a1) roots = enc_body tbl l (mk_opts v s k a2) roots.
Proof.
  unfold enc_body. cbv zeta.
  set (e1 := enc_env l (mk_opts v s k a1)).
  replace (enc_env l (mk_opts v s k a2)) with (set_anon e1 a2) by reflexivity.
  replace (start_state (set_anon e1 a2) roots) with (start_state e1 roots) by reflexivity.
  unfold parse_nodes. apply (seq_nodes_env (parse_node tbl) (fun e => set_anon e a2)).
  apply Forall_forall. intros n _. apply parse_node_anon.
Qed.

Fixpoint no_tree (n : node) : bool :=
  match n with
  | NElt _ _ ch => forallb no_tree ch
  | NCData ch => forallb no_tree ch
  | NTree _ _ => false
  | _ => true
  end.

Lemma parse_node_version tbl v n : no_tree n = true ->
  forall e p st, parse_node tbl e p n st = parse_node tbl (set_version e v) p n st.
Proof.
  assert (HA : forall e st na x, enc_attr e st na x = enc_attr (set_version e v) st na x) by (intros [] ? ? ?; reflexivity).
  induction n as [tag attrs ch IH|c|ch IH| |lid roots IH] using node_ind'; intros Hnt e p st; cbn [parse_node].
  - cbn [no_tree] in Hnt. rewrite forallb_forall in Hnt.
    assert (IH' : Forall (fun n => forall e p st, parse_node tbl e p n st = parse_node tbl (set_version e v) p n st) ch).
    { apply Forall_forall. intros x Hx. rewrite Forall_forall in IH. apply (IH x Hx). now apply Hnt. }
    assert (Hs : enc_element_start e st tag attrs (match ch with [] => false | _ => true end)
                 = enc_element_start (set_version e v) st tag attrs (match ch with [] => false | _ => true end)).
    { unfold enc_element_start. replace (enc_tag (set_version e v)) with (enc_tag e) by (destruct e; reflexivity).
      destruct (enc_tag e st tag _ _) as [[b1 st1]|c]; [|reflexivity].
      replace (has_attr_table (set_version e v)) with (has_attr_table e) by (destruct e; reflexivity).
      now rewrite <- (enc_attrs_env (fun e => set_version e v) HA). }
    rewrite <- Hs. destruct (enc_element_start e st tag attrs _) as [[b1 st1]|c]; [|reflexivity].
    now rewrite <- (seq_nodes_env (parse_node tbl) (fun e => set_version e v) ch IH').
  - replace (enc_text (set_version e v)) with (enc_text e) by (destruct e; reflexivity). reflexivity.
  - cbn [no_tree] in Hnt. rewrite forallb_forall in Hnt.
    assert (IH' : Forall (fun n => forall e p st, parse_node tbl e p n st = parse_node tbl (set_version e v) p n st) ch).
    { apply Forall_forall. intros x Hx. rewrite Forall_forall in IH. apply (IH x Hx). now apply Hnt. }
    destruct (cdata st); [reflexivity|].
    now rewrite <- (seq_nodes_env (parse_node tbl) (fun e => set_version e v) ch IH').
  - reflexivity.
  - discriminate.
Qed.

Theorem c07_body_independent_of_version tbl l v1 v2 s k a roots :
  forallb no_tree roots = true ->
  enc_body tbl l (mk_opts v1 s k a) roots = enc_body tbl l (mk_opts v2 s k a) roots.
Proof.
  intros Hnt. unfold enc_body. cbv zeta.
  set (e1 := enc_env l (mk_opts v1 s k a)).
  replace (enc_env l (mk_opts v2 s k a)) with (set_version e1 v2) by reflexivity.
  replace (start_state (set_version e1 v2) roots) with (start_state e1 roots) by reflexivity.
  unfold parse_nodes. apply (seq_nodes_env (parse_node tbl) (fun e => set_version e v2)).
  apply Forall_forall. intros n Hn. apply parse_node_version. rewrite forallb_forall in Hnt. now apply Hnt.
Qed.

(* ================================================================== *)


(* ---- value splitting: the produced elements spell the input value ------------------------- *)
Lemma is_prefix_firstn p : forall s, is_prefix p s = true -> firstn (List.length p) s = p /\ (List.length p <= List.length s)%nat.
Proof.
  induction p as [|x p IH]; intros s H; cbn [is_prefix List.length firstn] in *; [split; [reflexivity|lia]|].
  destruct s as [|y s]; [discriminate|]. apply andb_true_iff in H. destruct H as [H1 H2].
  apply N.eqb_eq in H1. subst y. destruct (IH s H2) as [E L]. cbn [List.length]. split; [now rewrite E|lia].
Qed.

Lemma find_sub_spec needle : forall s k, find_sub needle s = Some k ->
  is_prefix needle (skipn (N.to_nat k) s) = true /\ (N.to_nat k <= List.length s)%nat.
Proof.
  induction s as [|c r IH]; intros k; cbn [find_sub].
  - destruct (is_prefix needle []) eqn:P; [|discriminate]. intros H; injection H as <-. cbn. split; [exact P|lia].
  - destruct (is_prefix needle (c :: r)) eqn:P.
    + intros H; injection H as <-. cbn. split; [exact P|lia].
    + destruct (find_sub needle r) as [k'|] eqn:F; [|discriminate]. intros H; injection H as <-.
      destruct (IH k' eq_refl) as [Hp Hl]. replace (N.to_nat (k' + 1)) with (S (N.to_nat k')) by lia. cbn [skipn List.length].
      split; [exact Hp|lia].
Qed.

Lemma skipn_add {A} (l : list A) : forall i m, skipn m (skipn i l) = skipn (i + m) l.
Proof.
  induction l as [|x r IH]; intros i m; [now rewrite !skipn_nil|].
  destruct i; [reflexivity|]. cbn [skipn Nat.add]. apply IH.
Qed.

Lemma split3 (s : bytes) i m : (i + m <= List.length s)%nat ->
  s = firstn i s ++ firstn m (skipn i s) ++ skipn (i + m) s.
Proof.
  intros _. rewrite <- (firstn_skipn i s) at 1. f_equal.
  rewrite <- (firstn_skipn m (skipn i s)) at 1. f_equal. apply skipn_add.
Qed.

Section Den.
  Variable den : velt -> bytes.
  Hypothesis den_str : forall s, den (VStr s) = s.

  Definition good_find (find : bytes -> option (N * N)) (mk : velt) : Prop :=
    forall s i m, find s = Some (i, m) ->
      firstn (N.to_nat m) (skipn (N.to_nat i) s) = den mk /\ (N.to_nat i + N.to_nat m <= List.length s)%nat.

  Lemma split_sweep_den find mk : good_find find mk ->
    forall fuel l l', split_sweep fuel find mk l = Some l' -> flat_map den l' = flat_map den l.
  Proof.
    intros G. induction fuel as [|f IH]; intros l l'; cbn [split_sweep]; [discriminate|].
    destruct l as [|v r]; [intros H; now injection H as <-|].
    destruct v as [s|t|p t|off].
    - destruct (find s) as [[idx mlen]|] eqn:F.
      + destruct (G s idx mlen F) as [Hd Hl].
        destruct (split_sweep f find mk _) as [r'|] eqn:S; [|discriminate]. intros H; injection H as <-.
        apply IH in S. cbn [flat_map]. rewrite !den_str, S.
        pose proof (split3 s (N.to_nat idx) (N.to_nat mlen) Hl) as Hs.
        replace (s ++ flat_map den r) with
          ((firstn (N.to_nat idx) s ++ firstn (N.to_nat mlen) (skipn (N.to_nat idx) s) ++ skipn (N.to_nat idx + N.to_nat mlen) s) ++ flat_map den r)
          by (now rewrite <- Hs).
        rewrite Hd. rewrite <- !app_assoc. f_equal. f_equal.
        destruct (idx + mlen <? len s) eqn:C.
        * cbn [flat_map]. rewrite den_str. f_equal. f_equal. lia.
        * unfold len in C. assert (Hx : (N.to_nat idx + N.to_nat mlen = List.length s)%nat) by lia.
          rewrite Hx, skipn_all. reflexivity.
      + destruct (split_sweep f find mk r) as [r'|] eqn:S; [|discriminate]. intros H; injection H as <-.
        cbn [flat_map]. now rewrite (IH _ _ S).
    - destruct (split_sweep f find mk r) as [r'|] eqn:S; [|discriminate]. intros H; injection H as <-.
      cbn [flat_map]. now rewrite (IH _ _ S).
    - destruct (split_sweep f find mk r) as [r'|] eqn:S; [|discriminate]. intros H; injection H as <-.
      cbn [flat_map]. now rewrite (IH _ _ S).
    - destruct (split_sweep f find mk r) as [r'|] eqn:S; [|discriminate]. intros H; injection H as <-.
      cbn [flat_map]. now rewrite (IH _ _ S).
  Qed.

  Lemma good_find_name name mk : den mk = name -> good_find (find_name name) mk.
  Proof.
    intros Hd s i m. unfold find_name. destruct name as [|c name'] eqn:N.
    - intros H; injection H as <- <-. cbn. split; [now rewrite Hd|lia].
    - rewrite <- N. destruct (find_sub name s) as [k|] eqn:F; [|discriminate]. intros H; injection H as <- <-.
      destruct (find_sub_spec name s k F) as [Hp Hk]. destruct (is_prefix_firstn _ _ Hp) as [Hf Hl].
      unfold len. rewrite Nat2N.id. split; [now rewrite Hf, Hd|]. rewrite skipn_length in Hl. lia.
  Qed.

  Lemma pass_vals_den rows : (forall r, In r rows -> den (VAttrTok (bv_page r) (bv_tok r)) = bv_name r) ->
    forall l l', pass_vals rows l = Some l' -> flat_map den l' = flat_map den l.
  Proof.
    induction rows as [|r rest IH]; intros Hr l l'; cbn [pass_vals]; [intros H; now injection H as <-|].
    unfold sweep. destruct (split_sweep _ _ _ l) as [l1|] eqn:S; [|discriminate]. intros H.
    rewrite (IH (fun r' Hin => Hr r' (or_intror Hin)) _ _ H).
    eapply split_sweep_den; [|exact S]. apply good_find_name. apply Hr. now left.
  Qed.

  Lemma pass_strtbl_den tbl : (forall e, In e tbl -> den (VRef (s_off e)) = s_str e) ->
    forall l l', pass_strtbl tbl l = Some l' -> flat_map den l' = flat_map den l.
  Proof.
    induction tbl as [|e rest IH]; intros Hr l l'; cbn [pass_strtbl]; [intros H; now injection H as <-|].
    unfold sweep. destruct (split_sweep _ _ _ l) as [l1|] eqn:S; [|discriminate]. intros H.
    rewrite (IH (fun r' Hin => Hr r' (or_intror Hin)) _ _ H).
    eapply split_sweep_den; [|exact S]. apply good_find_name. apply Hr. now left.
  Qed.

  Lemma pass_exts_den rows : (forall r, In r rows -> den (VExt (be_tok r)) = be_name r) ->
    forall l l', pass_exts rows l = Some l' -> flat_map den l' = flat_map den l.
  Proof.
    induction rows as [|r rest IH]; intros Hr l l'; cbn [pass_exts]; [intros H; now injection H as <-|].
    destruct (len (be_name r) <? 2); [apply IH; intros; apply Hr; now right|].
    unfold sweep. destruct (split_sweep _ _ _ l) as [l1|] eqn:S; [|discriminate]. intros H.
    rewrite (IH (fun r' Hin => Hr r' (or_intror Hin)) _ _ H).
    eapply split_sweep_den; [|exact S].
    intros s i m. destruct (beq s (be_name r)) eqn:B; [|discriminate]. intros E; injection E as <- <-.
    apply beq_eq in B. subst s. cbn [skipn N.to_nat]. unfold len. rewrite Nat2N.id, firstn_all.
    split; [symmetry; apply Hr; now left|lia].
  Qed.

  (* wbxml_encode_value_element_buffer, splitting part: whatever the passes do, the value elements spell the value *)
  Theorem split_value_den e st is_attr buffer l :
    (forall r, In r (match bl_vals (e_lang e) with Some rows => rows | None => [] end) -> den (VAttrTok (bv_page r) (bv_tok r)) = bv_name r) ->
    (forall r, In r (match bl_exts (e_lang e) with Some rows => rows | None => [] end) -> den (VExt (be_tok r)) = be_name r) ->
    (forall x, In x (strtbl st) -> den (VRef (s_off x)) = s_str x) ->
    split_value e st is_attr buffer = Some l -> flat_map den l = buffer.
  Proof.
    intros Hv He Ht. unfold split_value. cbv zeta.
    assert (H0 : flat_map den [VStr buffer] = buffer) by (cbn; now rewrite den_str, app_nil_r).
    destruct (if is_attr then _ else Some [VStr buffer]) as [l1|] eqn:E1; [|discriminate].
    assert (H1 : flat_map den l1 = buffer).
    { destruct is_attr; [|injection E1 as <-; exact H0].
      destruct (bl_vals (e_lang e)) as [rows|]; [|injection E1 as <-; exact H0].
      rewrite (pass_vals_den rows Hv _ _ E1). exact H0. }
    destruct (if negb is_attr && negb (in_cdata st) then _ else Some l1) as [l2|] eqn:E2; [|discriminate].
    assert (H2 : flat_map den l2 = buffer).
    { destruct (negb is_attr && negb (in_cdata st)); [|injection E2 as <-; exact H1].
      destruct (bl_exts (e_lang e)) as [rows|]; [|injection E2 as <-; exact H1].
      rewrite (pass_exts_den rows He _ _ E2). exact H1. }
    destruct (e_use_strtbl e && negb (in_cdata st && negb is_attr)).
    - intros H. rewrite (pass_strtbl_den _ Ht _ _ H). exact H2.
    - intros H; injection H as <-. exact H2.
  Qed.
End Den.

(* references resolve under the invariant: the entry found at an offset is the entry that was given it *)
Definition ref_str (tbl : list ste) (off : N) : bytes :=
  match find (fun e => s_off e =? off) tbl with Some e => s_str e | None => [] end.

Lemma offsets_from_ge base tbl e : offsets_from base tbl -> In e tbl -> base <= s_off e.
Proof.
  revert base. induction tbl as [|x r IH]; intros base H Hin; [destruct Hin|].
  cbn [offsets_from] in H. destruct H as [Hx Hr]. destruct Hin as [->|Hin]; [lia|].
  specialize (IH _ Hr Hin). lia.
Qed.

Lemma ref_str_resolves base tbl e : offsets_from base tbl -> In e tbl -> ref_str tbl (s_off e) = s_str e.
Proof.
  revert base. induction tbl as [|x r IH]; intros base H Hin; [destruct Hin|].
  cbn [offsets_from] in H. destruct H as [Hx Hr]. unfold ref_str. cbn [find].
  destruct Hin as [->|Hin]; [now rewrite N.eqb_refl|].
  pose proof (offsets_from_ge _ _ _ Hr Hin) as Hge.
  replace (s_off x =? s_off e) with false by (symmetry; apply N.eqb_neq; lia).
  apply (IH _ Hr Hin).
Qed.

(* ================================================================== *)
(* textual public id in the string table: 00 index, and the index is the offset of an entry holding the id *)
Lemma fill_header_textual_strtbl e st p :
  bl_pub_num (e_lang e) = 1 -> e_anonymous e = false -> bl_pub_text (e_lang e) = Some p -> e_use_strtbl e = true ->
  exists idx tbl tlen,
    strtbl_add (strtbl st) (strtbl_len st) p = (idx, tbl, tlen) /\
    fill_header e st = [u8 (e_version e)] ++ ([0] ++ mb_write idx) ++ header_charset e ++ mb_write tlen ++ strtbl_construct tbl /\
    (tinv st -> tbl_size tbl < 4294967296 ->
       (offsets_from 0 tbl /\ tlen = len (strtbl_construct tbl)) /\ exists x, In x tbl /\ s_off x = idx /\ s_str x = p).
Proof.
  intros Hn Ha Hp Hu. unfold fill_header, header_public_id. rewrite Ha, Hn, Hp, Hu.
  change ((1 =? 1) && negb false) with true. cbv iota.
  destruct (strtbl_add (strtbl st) (strtbl_len st) p) as [[idx tbl] tlen] eqn:A.
  exists idx, tbl, tlen. split; [reflexivity|]. split; [reflexivity|].
  intros [Ho Hl] Hb. pose proof A as A'. apply strtbl_add_ok in A'. destruct A' as (_ & HI).
  destruct (HI (conj Ho Hl) Hb) as [Ho' Hl']. split; [split; [exact Ho'|now rewrite strtbl_construct_len]|].
  unfold strtbl_add in A. destruct (find _ (strtbl st)) as [e0|] eqn:F; injection A as <- <- <-.
  - apply find_some in F. destruct F as [Hin Heq]. apply andb_true_iff in Heq. destruct Heq as [_ Heq].
    apply beq_eq in Heq. exists e0. auto.
  - exists (mk_ste p (strtbl_len st)). split; [apply in_or_app; right; now left|now cbn].
Qed.
