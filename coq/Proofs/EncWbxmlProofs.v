(* C06 / C07 (WBXML half) — lemmas about Model/EncWbxml.v *)
From Coq Require Import List NArith ZArith Lia Bool ZifyBool ZifyN.
From Wbxml Require Import Base.Bits Model.Codec Model.EncWbxml.
Import ListNotations.
Local Open Scope N_scope.
Ltac Zify.zify_post_hook ::= Z.div_mod_to_equations.

(* ------------------------------------------------------------------ *)
(* small facts                                                          *)

Lemma len_app a b : len (a ++ b) = len a + len b.
Proof. unfold len. rewrite app_length. lia. Qed.

Lemma len_cons x a : len (x :: a) = len a + 1.
Proof. unfold len. cbn [List.length]. lia. Qed.

Lemma beq_eq a : forall b, beq a b = true <-> a = b.
Proof.
  induction a as [|x a IH]; destruct b as [|y b]; cbn [beq]; split; intros H; try easy.
  - apply andb_true_iff in H. destruct H as [H1 H2]. apply N.eqb_eq in H1. apply IH in H2. now subst.
  - injection H as -> ->. rewrite N.eqb_refl. cbn. now apply IH.
Qed.

Definition nul_free (b : bytes) : Prop := Forall (fun c => c <> 0) b.

Lemma cstr_nul_free b : nul_free (cstr b).
Proof.
  induction b as [|c r IH]; cbn [cstr]; [constructor|].
  destruct (N.eqb c 0) eqn:E; [constructor|]. constructor; [|exact IH]. now apply N.eqb_neq.
Qed.

Lemma cstr_id b : nul_free b -> cstr b = b.
Proof.
  induction 1 as [|c r Hc _ IH]; cbn [cstr]; [reflexivity|].
  apply N.eqb_neq in Hc. rewrite Hc. now rewrite IH.
Qed.

(* ------------------------------------------------------------------ *)
(* SWITCH_PAGE is emitted iff the page changes, per code space          *)

Lemma enc_tag_token_spec st token page b st' :
  enc_tag_token st token page = (b, st') ->
  tagcp st' = page /\ attrcp st' = attrcp st /\ strtbl st' = strtbl st /\ strtbl_len st' = strtbl_len st /\
  ((tagcp st = page /\ b = [token]) \/ (tagcp st <> page /\ b = [0; page; token])).
Proof.
  unfold enc_tag_token. destruct (tagcp st =? page) eqn:E; intros H; injection H as <- <-.
  - apply N.eqb_eq in E. repeat split; auto.
  - apply N.eqb_neq in E. cbn. repeat split; auto.
Qed.

Lemma enc_attr_token_spec st token page b st' :
  enc_attr_token st token page = (b, st') ->
  attrcp st' = page /\ tagcp st' = tagcp st /\ strtbl st' = strtbl st /\ strtbl_len st' = strtbl_len st /\
  ((attrcp st = page /\ b = [token]) \/ (attrcp st <> page /\ b = [0; page; token])).
Proof.
  unfold enc_attr_token. destruct (attrcp st =? page) eqn:E; intros H; injection H as <- <-.
  - apply N.eqb_eq in E. repeat split; auto.
  - apply N.eqb_neq in E. cbn. repeat split; auto.
Qed.

(* ------------------------------------------------------------------ *)
(* string table invariant                                               *)

Fixpoint offsets_from (base : N) (tbl : list ste) : Prop :=
  match tbl with
  | [] => True
  | e :: r => s_off e = base /\ offsets_from (base + len (s_str e) + 1) r
  end.

Fixpoint tbl_size (tbl : list ste) : N :=
  match tbl with [] => 0 | e :: r => len (s_str e) + 1 + tbl_size r end.

(* offsets are the prefix sums of (length + 1), entries contain no NUL, the running length is the sum *)
Definition strtbl_inv (tbl : list ste) (tlen : N) : Prop :=
  offsets_from 0 tbl /\ Forall (fun e => nul_free (s_str e)) tbl /\ tlen = tbl_size tbl.

Lemma tbl_size_app a b : tbl_size (a ++ b) = tbl_size a + tbl_size b.
Proof. induction a as [|e a IH]; cbn [tbl_size app]; lia. Qed.

Lemma offsets_from_app base a b :
  offsets_from base (a ++ b) <-> offsets_from base a /\ offsets_from (base + tbl_size a) b.
Proof.
  revert base. induction a as [|e a IH]; intros base; cbn [app offsets_from tbl_size].
  - rewrite N.add_0_r. tauto.
  - rewrite IH. replace (base + len (s_str e) + 1 + tbl_size a) with (base + (len (s_str e) + 1 + tbl_size a)) by lia. tauto.
Qed.

Lemma strtbl_construct_len tbl : len (strtbl_construct tbl) = tbl_size tbl.
Proof.
  induction tbl as [|e r IH]; cbn [strtbl_construct flat_map tbl_size]; [reflexivity|].
  rewrite !len_app. fold (strtbl_construct r). rewrite IH. unfold len at 2. cbn. lia.
Qed.

(* wbxml_strtbl_add_element keeps the invariant (as long as the table stays below 2^32 octets) and returns the
   offset of an entry that holds exactly the string asked for *)
Lemma strtbl_add_inv tbl tlen s alias idx tbl' tlen' :
  strtbl_inv tbl tlen -> nul_free s -> tlen + len s + 1 < 4294967296 ->
  strtbl_add tbl tlen s alias = (idx, tbl', tlen') ->
  strtbl_inv tbl' tlen' /\ (exists e, In e tbl' /\ s_off e = idx /\ s_str e = s) /\
  (exists ext, tbl' = tbl ++ ext) /\ tlen <= tlen'.
Proof.
  intros (Hoff & Hnf & Hlen) Hs Hbound. unfold strtbl_add.
  destruct (find _ tbl) as [e|] eqn:F; intros H; injection H as <- <- <-.
  - apply find_some in F. destruct F as [Hin Heq]. apply andb_true_iff in Heq. destruct Heq as [_ Heq].
    apply beq_eq in Heq. split; [now repeat split|]. split; [exists e; auto|]. split; [exists []; now rewrite app_nil_r|lia].
  - split.
    + repeat split.
      * apply offsets_from_app. split; [exact Hoff|]. cbn [offsets_from s_off]. split; [lia|exact I].
      * apply Forall_app. split; [exact Hnf|]. now constructor.
      * rewrite tbl_size_app. cbn [tbl_size s_str]. unfold u32. rewrite N.mod_small by lia. lia.
    + split; [|split; [now eexists|unfold u32; rewrite N.mod_small by lia; lia]].
      exists (mk_ste s tlen alias). split; [apply in_or_app; right; now left|now cbn].
Qed.

(* ------------------------------------------------------------------ *)
(* header (C06 header clause, C07 anonymous clause)                     *)

Definition no_pid (e : env) : bool :=
  negb ((bl_pub_num (e_lang e) =? 1) && negb (e_anonymous e)) ||
  match bl_pub_text (e_lang e) with Some _ => false | None => true end.

(* numeric public id: version, mb(public id), mb(106), mb(table length), table *)
Lemma fill_header_numeric e st :
  no_pid e = true ->
  fill_header e st = [u8 (e_version e)] ++ mb_write (bl_pub_num (e_lang e)) ++ mb_write 106 ++ mb_write (strtbl_len st)
                     ++ (if e_use_strtbl e then strtbl_construct (strtbl st) else []).
Proof.
  unfold no_pid, fill_header. intros H.
  destruct ((bl_pub_num (e_lang e) =? 1) && negb (e_anonymous e)) eqn:E; cbn [negb orb] in H.
  - destruct (bl_pub_text (e_lang e)); [discriminate|]. reflexivity.
  - reflexivity.
Qed.

(* an anonymous document of a language without numeric public id: 0x01 'unknown' and no id string *)
Lemma fill_header_anonymous e st :
  e_anonymous e = true -> bl_pub_num (e_lang e) = 1 ->
  fill_header e st = [u8 (e_version e); 1] ++ mb_write 106 ++ mb_write (strtbl_len st)
                     ++ (if e_use_strtbl e then strtbl_construct (strtbl st) else []).
Proof.
  intros Ha Hn. rewrite fill_header_numeric.
  - rewrite Hn. reflexivity.
  - unfold no_pid. rewrite Ha, Hn. reflexivity.
Qed.

(* textual public id without string table: 0, index 0, charset, length of the id + 1, the id, NUL *)
Lemma fill_header_textual_nostrtbl e st p :
  bl_pub_num (e_lang e) = 1 -> e_anonymous e = false -> bl_pub_text (e_lang e) = Some p -> e_use_strtbl e = false ->
  fill_header e st = [u8 (e_version e)] ++ ([0] ++ mb_write 0) ++ mb_write 106 ++ mb_write (u32 (len p + 1)) ++ (p ++ [0]).
Proof.
  intros Hn Ha Hp Hu. unfold fill_header. rewrite Hn, Ha, Hp, Hu. reflexivity.
Qed.

(* the version byte is the requested one, whatever else *)
Lemma fill_header_version e st : exists r, fill_header e st = u8 (e_version e) :: r.
Proof.
  unfold fill_header.
  destruct ((bl_pub_num (e_lang e) =? 1) && negb (e_anonymous e)); [destruct (bl_pub_text (e_lang e))|];
    try destruct (e_use_strtbl e); try destruct (strtbl_add _ _ _ _) as [[? ?] ?]; eexists; reflexivity.
Qed.
