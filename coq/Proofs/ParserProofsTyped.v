(* C04 — typed attribute values: the SI / EMN %Datetime decoder agrees with its specification. *)
From Coq Require Import String Ascii.
From Coq Require Import List NArith ZArith Lia Bool ZifyBool ZifyN.
From Wbxml Require Import Base.Bits Model.Codec Model.TablesDefs Model.Parser Model.Spec
     Proofs.CodecProofs Proofs.ParserProofsBase Proofs.ParserProofsStr.
Import ListNotations.
Local Open Scope N_scope.

Lemma hexit_sweep :
  forallb (fun b => (hexit true (N.land (b / 16) 15) =? hex_digit (b / 16)) && (hexit true (b mod 16) =? hex_digit (b mod 16)))
          (N_range 256) = true.
Proof. vm_compute. reflexivity. Qed.

Lemma hexit_hi b : b < 256 -> hexit true (N.land (b / 16) 15) = hex_digit (b / 16).
Proof. intros H. pose proof (sweep1 _ 256 hexit_sweep b H) as S. cbn beta in S. lia. Qed.
Lemma hexit_lo b : b < 256 -> hexit true (b mod 16) = hex_digit (b mod 16).
Proof. intros H. pose proof (sweep1 _ 256 hexit_sweep b H) as S. cbn beta in S. lia. Qed.

Lemma bin_to_hex_upper v : bytes_okb v = true -> bin_to_hex true v = hex_upper v.
Proof.
  intros H. apply bytes_okb_Forall in H. unfold bin_to_hex, hex_upper.
  induction H as [|b v Hb Hv IH]; cbn [flat_map]; [reflexivity|].
  rewrite IH, (hexit_hi b Hb), (hexit_lo b Hb). reflexivity.
Qed.

Theorem typed_datetime_agree_proved : typed_datetime_agree.
Proof.
  unfold typed_datetime_agree. intros v o H. unfold spec_datetime in H.
  destruct (bytes_okb v) eqn:Hb; cbn [negb] in H; [|discriminate].
  unfold decode_datetime. rewrite (bin_to_hex_upper v Hb).
  destruct v as [|b1 [|b2 [|b3 [|b4 [|b5 [|b6 [|b7 [|b8 v]]]]]]]];
    cbn [hex_upper flat_map app] in *; try discriminate;
    injection H as <-; cbn; reflexivity.
Qed.
