(* C01 / C05: exact account of the refusals of the XML generator (wbxml_encoder.c, xml_* functions; model: EncXml.v).

   EncXmlSize.v proves totality on trees without binary-flagged elements.  Here the statement is carried to EVERY
   tree: the generator succeeds on every tree that holds no processing-instruction node, no embedded tree without a
   language and no EMPTY text node — binary-flagged elements included, at any depth and width, for every option
   tuple, language and encoder state — and conversely every refusal has its cause in the tree: NOT_IMPLEMENTED
   only with a PI node, BAD_PARAMETER only with a language-less embedded tree, B64_ENC only with an empty text
   node.  Proofs only. *)
From Coq Require Import List NArith Arith Lia Bool.
From Wbxml Require Import Model.Codec Model.EncXml Model.XmlRead Proofs.EncXmlProofs Proofs.EncXmlCdata Proofs.EncXmlIndent.
Import ListNotations.
Local Open Scope N_scope.

Definition nonempty (c : bytes) : bool := match c with [] => false | _ => true end.

Fixpoint encodable (n : node) : bool :=
  match n with
  | Elt _ _ ch => forallb encodable ch
  | Text c => nonempty c
  | CData ch => forallb encodable ch
  | Pi => false
  | SubTree (Some _) roots => forallb encodable roots
  | SubTree None _ => false
  end.

(* the three causes, as tree predicates *)
Fixpoint has_pi (n : node) : bool :=
  match n with
  | Elt _ _ ch => existsb has_pi ch
  | Text _ => false
  | CData ch => existsb has_pi ch
  | Pi => true
  | SubTree _ roots => existsb has_pi roots
  end.

Fixpoint has_nolang (n : node) : bool :=
  match n with
  | Elt _ _ ch => existsb has_nolang ch
  | Text _ => false
  | CData ch => existsb has_nolang ch
  | Pi => false
  | SubTree None _ => true
  | SubTree (Some _) roots => existsb has_nolang roots
  end.

Fixpoint has_empty_text (n : node) : bool :=
  match n with
  | Elt _ _ ch => existsb has_empty_text ch
  | Text c => negb (nonempty c)
  | CData ch => existsb has_empty_text ch
  | Pi => false
  | SubTree _ roots => existsb has_empty_text roots
  end.

Definition cause (e : xerr) (n : node) : bool :=
  match e with
  | X_NOT_IMPLEMENTED => has_pi n
  | X_BAD_PARAMETER => has_nolang n
  | X_B64_ENC => has_empty_text n
  end.

Lemma rewrite_nonempty l t c : nonempty c = true -> nonempty (syncml_type_rewrite l t c) = true.
Proof.
  intros H. unfold syncml_type_rewrite.
  destruct (is_syncml l && tag_is_type t && bytes_eqb c s_devinf_wbxml);
    match goal with |- context [if ?b then _ else _] => destruct b end; try exact H; reflexivity.
Qed.

Lemma b64_nonempty c : nonempty c = true -> exists e, b64_enc c = Some e.
Proof. destruct c as [|a r]; [discriminate|]. intros _. eexists. reflexivity. Qed.

(* a text node: refused only when empty (and then only under a binary-flagged tag outside CDATA) *)
Lemma text_total l o parent s c : nonempty c = true -> exists b s', parse_text l o parent s c = XOk (b, s').
Proof.
  intros Hc. unfold parse_text, text_policy.
  destruct (tag_is_binary (text_tag s parent)) eqn:HB.
  - rewrite andb_false_r. cbn [negb andb]. unfold xml_encode_text. destruct (e_in_cdata s); [eauto|].
    rewrite HB. destruct (b64_nonempty _ (rewrite_nonempty l (e_cur_tag s) c Hc)) as [e He]. rewrite He. eauto.
  - match goal with |- context [if ?b then _ else _] => destruct b end.
    + match goal with |- context [if ?b then _ else _] => destruct b end; [eauto|].
      unfold xml_encode_text. rewrite HB. destruct (e_in_cdata s); eauto.
    + unfold xml_encode_text. rewrite HB. destruct (e_in_cdata s); eauto.
Qed.

Lemma text_error l o parent s c e : parse_text l o parent s c = XErr e -> e = X_B64_ENC /\ nonempty c = false.
Proof.
  intros H. destruct (nonempty c) eqn:Hc.
  - destruct (text_total l o parent s c Hc) as (b & s' & E). rewrite E in H. discriminate.
  - split; [|reflexivity]. unfold parse_text in H. destruct (text_policy o parent s c) as [c'|]; [|discriminate].
    unfold xml_encode_text in H. destruct (e_in_cdata s); [discriminate|].
    destruct (tag_is_binary (text_tag s parent)); [|discriminate].
    destruct (b64_enc _); [discriminate|]. injection H as <-. reflexivity.
Qed.

Definition total2_stmt (n : node) : Prop :=
  forall l o parent s, encodable n = true -> exists b s', enc_node l o parent s n = XOk (b, s').

Lemma total2_list ch : Forall total2_stmt ch ->
  forall l o parent s, forallb encodable ch = true -> exists b s', seq_nodes (enc_node l o parent) ch s = XOk (b, s').
Proof.
  induction 1 as [|n ch Hn _ IH]; intros l o parent s HN.
  - exists [], s. reflexivity.
  - cbn [forallb] in HN. apply andb_true_iff in HN as [N1 N2].
    destruct (Hn l o parent s N1) as (b1 & s1 & E1).
    destruct (IH l o parent (reset_cur s1) N2) as (b2 & s2 & E2).
    exists (b1 ++ b2), s2. cbn [seq_nodes]. rewrite E1. fold (seq_nodes (enc_node l o parent)). rewrite E2. reflexivity.
Qed.

Lemma total2_node : forall n, total2_stmt n.
Proof.
  induction n as [nm attrs ch IHch|t|ch IHc| |sl roots IHr] using node_ind2; intros l o parent s HN; try discriminate.
  - cbn [encodable] in HN. rewrite (enc_elt_gen l o parent s nm attrs ch). destruct ch as [|c0 ch0]; [eauto|].
    destruct (total2_list (c0 :: ch0) IHch l o (pinfo_below parent nm) (s_in o (c0 :: ch0) nm s) HN) as (b4 & s4 & E4).
    rewrite E4. eauto.
  - cbn [enc_node]. apply text_total. exact HN.
  - cbn [encodable] in HN. cbn [enc_node].
    destruct (total2_list ch IHc l o (pinfo_cdata parent) (set_cdata true s) HN) as (b0 & s0 & E0). rewrite E0. eauto.
  - cbn [encodable] in HN. destruct sl as [l'|]; [|discriminate]. cbn [enc_node].
    destruct (total2_list roots IHr l' o proot (est0 (e_indent s)) HN) as (b0 & s0 & E0). rewrite E0. eauto.
Qed.

(* TOTALITY, every tree: no PI node, no language-less embedded tree, no empty text node => success *)
Theorem enc_xml_total_all l g w keep_ws roots :
  forallb encodable roots = true -> exists out, enc_xml l g w keep_ws roots = XOk out.
Proof.
  intros HN. unfold enc_xml, enc_xml_opts, enc_nodes.
  assert (Hall : Forall total2_stmt roots) by (apply Forall_forall; intros; apply total2_node).
  destruct (total2_list roots Hall l (opts_of_params g w keep_ws) proot (est0 0) HN) as (b & s' & E).
  rewrite E. eauto.
Qed.

(* the hypothesis is weaker than EncXmlSize.no_fail only in what it must be: binary-flagged elements are allowed *)
Example encodable_binary_element : forall r, N.odd (tr_opts r) = true ->
  encodable (Elt (TTok r) [] [Text [65]]) = true.
Proof. reflexivity. Qed.

(* CAUSES: every refusal is explained by the tree *)
Definition cause_stmt (n : node) : Prop :=
  forall l o parent s e, enc_node l o parent s n = XErr e -> cause e n = true.

Lemma cause_exists e ch : existsb (cause e) ch = true ->
  match e with
  | X_NOT_IMPLEMENTED => existsb has_pi ch
  | X_BAD_PARAMETER => existsb has_nolang ch
  | X_B64_ENC => existsb has_empty_text ch
  end = true.
Proof. destruct e; exact (fun H => H). Qed.

Lemma cause_list ch : Forall cause_stmt ch ->
  forall l o parent s e, seq_nodes (enc_node l o parent) ch s = XErr e -> existsb (cause e) ch = true.
Proof.
  induction 1 as [|n ch Hn _ IH]; intros l o parent s e HE.
  - discriminate.
  - cbn [seq_nodes] in HE. fold (seq_nodes (enc_node l o parent)) in HE. cbn [existsb].
    destruct (enc_node l o parent s n) as [[b1 s1]|e1] eqn:E1.
    + destruct (seq_nodes (enc_node l o parent) ch (reset_cur s1)) as [[b2 s2]|e2] eqn:E2; [discriminate|].
      injection HE as <-. rewrite (IH l o parent _ e2 E2). apply orb_true_r.
    + injection HE as <-. rewrite (Hn l o parent s e1 E1). reflexivity.
Qed.

Lemma cause_node : forall n, cause_stmt n.
Proof.
  induction n as [nm attrs ch IHch|t|ch IHc| |sl roots IHr] using node_ind2; intros l o parent s e HE.
  - rewrite (enc_elt_gen l o parent s nm attrs ch) in HE. destruct ch as [|c0 ch0]; [discriminate|].
    destruct (seq_nodes (enc_node l o (pinfo_below parent nm)) (c0 :: ch0) (s_in o (c0 :: ch0) nm s)) as [[b4 s4]|e4] eqn:E4;
      [discriminate|]. injection HE as <-.
    pose proof (cause_exists _ _ (cause_list (c0 :: ch0) IHch _ _ _ _ _ E4)) as HC. destruct e4; exact HC.
  - cbn [enc_node] in HE. destruct (text_error l o parent s t e HE) as [-> Hc]. cbn [cause has_empty_text]. rewrite Hc. reflexivity.
  - cbn [enc_node] in HE.
    destruct (seq_nodes (enc_node l o (pinfo_cdata parent)) ch (set_cdata true s)) as [[b0 s0]|e0] eqn:E0; [discriminate|].
    injection HE as <-. pose proof (cause_exists _ _ (cause_list ch IHc _ _ _ _ _ E0)) as HC. destruct e0; exact HC.
  - cbn [enc_node] in HE. injection HE as <-. reflexivity.
  - cbn [enc_node] in HE. destruct sl as [l'|]; [|injection HE as <-; reflexivity].
    destruct (seq_nodes (enc_node l' o proot) roots (est0 (e_indent s))) as [[b0 s0]|e0] eqn:E0; [discriminate|].
    injection HE as <-. pose proof (cause_exists _ _ (cause_list roots IHr _ _ _ _ _ E0)) as HC. destruct e0; exact HC.
Qed.

Theorem enc_xml_error_cause l g w keep_ws roots e :
  enc_xml l g w keep_ws roots = XErr e -> existsb (cause e) roots = true.
Proof.
  unfold enc_xml, enc_xml_opts, enc_nodes. intros HE.
  destruct (seq_nodes (enc_node l (opts_of_params g w keep_ws) proot) roots (est0 0)) as [[b s']|e0] eqn:E0; [discriminate|].
  injection HE as <-. apply (cause_list roots) with (l := l) (o := opts_of_params g w keep_ws) (parent := proot) (s := est0 0); [|exact E0].
  apply Forall_forall; intros; apply cause_node.
Qed.

(* each cause really is refused (the three witnesses; SyncML <Data>-like binary element for the third) *)
Example pi_refused l g w k : enc_xml l g w k [Pi] = XErr X_NOT_IMPLEMENTED.
Proof. reflexivity. Qed.
Example nolang_refused l g w k : enc_xml l g w k [SubTree None []] = XErr X_BAD_PARAMETER.
Proof. reflexivity. Qed.
