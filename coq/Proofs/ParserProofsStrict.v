(* C04 / C06 oracle — the strict decoder reads back what serialize writes:
   unser (serialize d) = Some d for every well-formed d, hence decode (serialize d) = denote d on strict documents. *)
From Coq Require Import String Ascii.
From Coq Require Import List NArith ZArith Lia Bool ZifyBool ZifyN.
From Wbxml Require Import Base.Bits Model.Codec Model.TablesDefs Model.Parser Model.Spec
     Proofs.CodecProofs Proofs.ParserProofsBase Proofs.ParserProofsStr Proofs.ParserProofsAttr Proofs.ParserProofsElt
     Proofs.ParserProofsDoc.
Import ListNotations.
Local Open Scope N_scope.

Lemma bytes_eqb_refl a : bytes_eqb a a = true.
Proof. induction a as [|x a IH]; cbn [bytes_eqb]; [reflexivity|]. rewrite N.eqb_refl, IH. reflexivity. Qed.

Lemma rd_mb_ok v r : v < 4294967296 -> rd_mb (mb_write v ++ r) = Some (v, r).
Proof. intros H. unfold rd_mb. rewrite (mb_roundtrip v r H). rewrite bytes_eqb_refl. reflexivity. Qed.

Lemma rd_sw_some p r : rd_sw (0 :: p :: r) = (Some p, r).
Proof. reflexivity. Qed.

Lemma rd_sw_none t r : (t =? 0) = false -> rd_sw (t :: r) = (None, t :: r).
Proof. intros H. unfold rd_sw. destruct r as [|p r]; [reflexivity|]. rewrite H. reflexivity. Qed.

Lemma rd_ext_none t r : is_ext_token t = false -> rd_ext (t :: r) = None.
Proof.
  intros H. unfold rd_ext. unfold is_ext_token in H.
  replace ((64 <=? t) && (t <=? 66)) with false by lia.
  replace ((128 <=? t) && (t <=? 130)) with false by lia.
  replace ((192 <=? t) && (t <=? 194)) with false by lia. reflexivity.
Qed.

Section Strict.
Variables (l : lang) (tb : bytes).
Let denv := mk_denv l tb.

Lemma rd_ext_ok x o r : den_ext denv x = Some o -> rd_ext (ser_ext x ++ r) = Some (x, r).
Proof.
  intros H. unfold den_ext in H. cbn [de_lang de_strtbl denv] in H. unfold rd_ext.
  destruct (is_wml_family (l_id l)).
  - destruct x as [k s|k i|k]; cbn [ser_ext app].
    + destruct ((k <? 3) && str_okb s) eqn:E; [|discriminate]. apply andb_prop in E. destruct E as [Ek Es].
      destruct (str_okb_split s Es) as [_ Hn].
      replace ((64 <=? 64 + k) && (64 + k <=? 66)) with true by lia.
      rewrite <- app_assoc. cbn [app]. rewrite (split_nul_app s r Hn). replace (64 + k - 64) with k by lia. reflexivity.
    + destruct ((k <? 3) && u32_okb i) eqn:E; [|discriminate]. apply andb_prop in E. destruct E as [Ek Ei].
      replace ((64 <=? 128 + k) && (128 + k <=? 66)) with false by lia.
      replace ((128 <=? 128 + k) && (128 + k <=? 130)) with true by lia.
      rewrite rd_mb_ok by (apply u32_okb_lt; exact Ei). replace (128 + k - 128) with k by lia. reflexivity.
    + destruct (k <? 3) eqn:Ek; [|discriminate].
      replace ((64 <=? 192 + k) && (192 + k <=? 66)) with false by lia.
      replace ((128 <=? 192 + k) && (192 + k <=? 130)) with false by lia.
      replace ((192 <=? 192 + k) && (192 + k <=? 194)) with true by lia.
      replace (192 + k - 192) with k by lia. reflexivity.
  - destruct (is_wv_family (l_id l)); [|discriminate].
    destruct x as [k s|k v|k]; try discriminate. destruct k as [|pk]; [|discriminate].
    destruct (u32_okb v) eqn:Ev; [|discriminate]. cbn [ser_ext app].
    change ((64 <=? 128 + 0) && (128 + 0 <=? 66)) with false. change ((128 <=? 128 + 0) && (128 + 0 <=? 130)) with true.
    cbn iota. rewrite rd_mb_ok by (apply u32_okb_lt; exact Ev). reflexivity.
Qed.

Lemma ser_ext_head x o r : den_ext denv x = Some o ->
  exists t r', ser_ext x ++ r = t :: r' /\ is_ext_token t = true.
Proof.
  intros Ex. unfold den_ext in Ex. cbn [de_lang denv] in Ex.
  destruct x as [k s|k v|k]; cbn [ser_ext app];
    destruct (is_wml_family (l_id l)); destruct (is_wv_family (l_id l)); try discriminate;
    try (destruct ((k <? 3) && str_okb s) eqn:E; [|discriminate]; apply andb_prop in E; destruct E as [Ek _]);
    try (destruct ((k <? 3) && u32_okb v) eqn:E; [|discriminate]; apply andb_prop in E; destruct E as [Ek _]);
    try (destruct (k <? 3) eqn:Ek; [|discriminate]);
    try (destruct (k_lt3 k Ek) as [-> | [-> | ->]]; eexists; eexists; split; reflexivity);
    try (destruct k; [|discriminate]; eexists; eexists; split; reflexivity).
Qed.

Lemma ext_tok_not_str t : is_ext_token t = true ->
  (t =? 3) = false /\ (t =? 131) = false /\ (t =? 2) = false /\ (t =? 195) = false /\ (t =? 0) = false /\ (t =? 67) = false /\ (t =? 1) = false.
Proof. unfold is_ext_token. intros H. repeat split; lia. Qed.

Lemma rd_str_ok sp parent s dst o dst' r :
  den_str denv sp parent s dst = Some (o, dst') -> rd_str (ser_str s ++ r) = Some (s, r).
Proof.
  intros H. destruct s as [s|i|c|d|sw x]; cbn [den_str] in H; cbn [ser_str].
  - destruct (str_okb s) eqn:Es; [|discriminate]. destruct (str_okb_split s Es) as [_ Hn].
    cbn [app]. rewrite <- app_assoc. cbn [app]. unfold rd_str. cbn [N.eqb Pos.eqb]. rewrite (split_nul_app s r Hn). reflexivity.
  - destruct (u32_okb i) eqn:Ei; [|discriminate]. cbn [app]. unfold rd_str. cbn [N.eqb Pos.eqb].
    rewrite rd_mb_ok by (apply u32_okb_lt; exact Ei). reflexivity.
  - destruct (is_scalar c && negb (c =? 0)) eqn:E; [|discriminate]. apply andb_prop in E. destruct E as [Hs _].
    cbn [app]. unfold rd_str. cbn [N.eqb Pos.eqb]. rewrite rd_mb_ok by (unfold is_scalar in Hs; lia). reflexivity.
  - destruct (bytes_okb d && u32_okb (blen d)) eqn:E; [|discriminate]. apply andb_prop in E. destruct E as [_ Hu].
    cbn [app]. rewrite <- app_assoc. unfold rd_str. cbn [N.eqb Pos.eqb].
    rewrite rd_mb_ok by (apply u32_okb_lt; exact Hu).
    replace (blen d <=? blen (d ++ r)) with true by (unfold blen; rewrite app_length; lia).
    rewrite take_app, drop_app. reflexivity.
  - destruct (sw_okb sw) eqn:Esw; [|discriminate]. destruct (den_ext denv x) as [o'|] eqn:Ex; [|discriminate].
    rewrite <- app_assoc. destruct (ser_ext_head x o' r Ex) as (t & r' & Et & Ht).
    destruct (ext_tok_not_str t Ht) as (T3 & T131 & T2 & T195 & T0 & _).
    destruct sw as [p|]; cbn [ser_sw app].
    + unfold rd_str. cbn [N.eqb Pos.eqb]. rewrite rd_sw_some. rewrite (rd_ext_ok x o' r Ex). reflexivity.
    + rewrite Et. unfold rd_str. rewrite T3, T131, T2, T195. rewrite (rd_sw_none t r' T0). rewrite <- Et.
      rewrite (rd_ext_ok x o' r Ex). reflexivity.
Qed.

Lemma rd_val_ok v dst o dst' r : den_val denv v dst = Some (o, dst') -> rd_val (ser_val v ++ r) = Some (v, r).
Proof.
  intros H. destruct v as [sw t|s]; cbn [den_val] in H; cbn [ser_val].
  - destruct (sw_okb sw && aval_tok_okb t) eqn:E; [|discriminate]. apply andb_prop in E. destruct E as [Hsw Ht].
    destruct (val_tok_props t Ht) as (Fx & F0 & F1 & F2 & F3 & F4 & F131 & F195 & F128 & Fi1 & Fi0).
    rewrite <- app_assoc. cbn [app]. unfold rd_val.
    destruct sw as [p|]; cbn [ser_sw app].
    + unfold rd_str. cbn [N.eqb Pos.eqb]. rewrite rd_sw_some. rewrite (rd_ext_none t r Fx). rewrite Ht. reflexivity.
    + unfold rd_str. rewrite F3, F131, F2, F195. rewrite (rd_sw_none t r F0). rewrite (rd_ext_none t r Fx). rewrite Ht. reflexivity.
  - unfold rd_val. rewrite (rd_str_ok AttrSpace None s dst o dst' r H). reflexivity.
Qed.

(* what follows a value list is not read as a value *)
Lemma rd_val_none_end x : rd_val (1 :: x) = None.
Proof. unfold rd_val, rd_str. cbn [N.eqb Pos.eqb]. rewrite rd_sw_none by reflexivity. rewrite rd_ext_none by reflexivity. reflexivity. Qed.

Lemma rd_val_none_astart a dst name prefix dst1 x :
  den_astart denv a dst = Some (name, prefix, dst1) -> rd_val (ser_astart a ++ x) = None.
Proof.
  intros H. destruct a as [sw t|i]; cbn [den_astart] in H; cbn [ser_astart].
  - destruct (sw_okb sw && astart_tok_okb t) eqn:E; [|discriminate]. apply andb_prop in E. destruct E as [Hsw Ht].
    destruct (start_tok_props t Ht) as (Fx & F0 & F1 & F2 & F3 & F4 & F131 & F195 & F128 & Fi1 & Fi0).
    assert (Hv : aval_tok_okb t = false) by (unfold aval_tok_okb, astart_tok_okb in *; lia).
    rewrite <- app_assoc. cbn [app]. unfold rd_val.
    destruct sw as [p|]; cbn [ser_sw app].
    + unfold rd_str. cbn [N.eqb Pos.eqb]. rewrite rd_sw_some. rewrite (rd_ext_none t x Fx). rewrite Hv. reflexivity.
    + unfold rd_str. rewrite F3, F131, F2, F195. rewrite (rd_sw_none t x F0). rewrite (rd_ext_none t x Fx). rewrite Hv. reflexivity.
  - cbn [app]. unfold rd_val, rd_str. cbn [N.eqb Pos.eqb]. rewrite rd_sw_none by reflexivity. rewrite rd_ext_none by reflexivity. reflexivity.
Qed.

Lemma rd_vals_ok vs : forall dst o dst' fuel r, den_vals denv vs dst = Some (o, dst') -> rd_val r = None ->
  (length (flat_map ser_val vs) <= fuel)%nat -> rd_vals fuel (flat_map ser_val vs ++ r) = (vs, r).
Proof.
  induction vs as [|v vs IH]; intros dst o dst' fuel r H Hr Hf.
  - cbn [flat_map app]. destruct fuel; cbn [rd_vals]; [reflexivity|rewrite Hr; reflexivity].
  - cbn [den_vals] in H. destruct (den_val denv v dst) as [[b st1]|] eqn:Ev; [|discriminate].
    destruct (den_vals denv vs st1) as [[b' st2]|] eqn:Evs; [|discriminate].
    cbn [flat_map] in *. rewrite app_length in Hf.
    destruct (ser_val_head l tb v dst b st1 [] Ev) as (_ & _ & Hl).
    destruct fuel as [|f]; [lia|]. rewrite <- app_assoc. cbn [rd_vals].
    rewrite (rd_val_ok v dst b st1 _ Ev). rewrite (IH st1 b' st2 f r Evs Hr) by lia. reflexivity.
Qed.

Lemma rd_astart_ok a dst name prefix dst1 r :
  den_astart denv a dst = Some (name, prefix, dst1) -> rd_astart (ser_astart a ++ r) = Some (a, r).
Proof.
  intros H. destruct a as [sw t|i]; cbn [den_astart] in H; cbn [ser_astart].
  - destruct (sw_okb sw && astart_tok_okb t) eqn:E; [|discriminate]. apply andb_prop in E. destruct E as [Hsw Ht].
    destruct (start_tok_props t Ht) as (Fx & F0 & F1 & F2 & F3 & F4 & F131 & F195 & F128 & Fi1 & Fi0).
    rewrite <- app_assoc. cbn [app]. unfold rd_astart.
    destruct sw as [p|]; cbn [ser_sw app].
    + cbn [N.eqb]. rewrite rd_sw_some. rewrite Ht. reflexivity.
    + rewrite F4. rewrite (rd_sw_none t r F0). rewrite Ht. reflexivity.
  - destruct (u32_okb i) eqn:Ei; [|discriminate]. cbn [app]. unfold rd_astart. cbn [N.eqb Pos.eqb].
    rewrite rd_mb_ok by (apply u32_okb_lt; exact Ei). reflexivity.
Qed.

Lemma rd_attr_ok a dst name v dst' fuel r :
  den_attr_raw denv a dst = Some (name, v, dst') -> rd_val r = None ->
  (length (ser_attr a) <= S fuel)%nat -> rd_attr fuel (ser_attr a ++ r) = Some (a, r).
Proof.
  intros H Hr Hf. destruct (attr_raw_split l tb a dst name v dst' H) as (prefix & st1 & vs & Hs & Hv & _).
  unfold rd_attr, ser_attr. rewrite <- app_assoc. rewrite (rd_astart_ok _ _ _ _ _ _ Hs).
  destruct (ser_astart_head' l tb (wa_start a) dst name prefix st1 [] Hs) as (_ & _ & Hl).
  unfold ser_attr in Hf. rewrite app_length in Hf.
  rewrite (rd_vals_ok (wa_vals a) st1 vs dst' fuel r Hv Hr) by lia. destruct a; reflexivity.
Qed.

Lemma den_attr_raw_of a dst name v dst' : den_attr denv a dst = Some (name, v, dst') ->
  exists v0, den_attr_raw denv a dst = Some (name, v0, dst').
Proof.
  unfold den_attr. destruct (den_attr_raw denv a dst) as [[[n v0] st']|]; [|discriminate].
  intros H. exists v0.
  destruct n as [p t nm|nm]; destruct v0 as [|b0 v1]; try (inversion H; subst; reflexivity).
  destruct (is_datetime_attr (l_id (de_lang denv)) p t).
  - destruct (spec_datetime (b0 :: v1)); [|discriminate]. inversion H; subst; reflexivity.
  - inversion H; subst; reflexivity.
Qed.

Lemma rd_val_none_attr a dst name v dst' x : den_attr denv a dst = Some (name, v, dst') -> rd_val (ser_attr a ++ x) = None.
Proof.
  intros H. destruct (den_attr_raw_of a dst name v dst' H) as [v0 Hr].
  destruct (attr_raw_split l tb a dst name v0 dst' Hr) as (prefix & st1 & vs & Hs & _ & _).
  unfold ser_attr. rewrite <- app_assoc. apply (rd_val_none_astart _ _ _ _ _ _ Hs).
Qed.

Lemma rd_attrs_ok al : forall dst res dst' fuel r, den_attrs denv al dst = Some (res, dst') -> al <> [] ->
  (length (flat_map ser_attr al) <= fuel)%nat -> rd_attrs fuel (flat_map ser_attr al ++ 1 :: r) = Some (al, r).
Proof.
  induction al as [|a al IH]; intros dst res dst' fuel r H Hne Hf; [congruence|].
  cbn [den_attrs] in H. destruct (den_attr denv a dst) as [[[n v] st1]|] eqn:Ea; [|discriminate].
  destruct (den_attrs denv al st1) as [[res' st2]|] eqn:Eal; [|discriminate].
  destruct (den_attr_raw_of a dst n v st1 Ea) as [v0 Hr].
  destruct (ser_attr_head l tb a dst n v st1 [] Ea) as (_ & _ & Hl).
  cbn [flat_map] in *. rewrite app_length in Hf. destruct fuel as [|f]; [lia|].
  rewrite <- app_assoc. cbn [rd_attrs].
  destruct al as [|a2 al'].
  - cbn [flat_map app]. rewrite (rd_attr_ok a dst n v0 st1 f (1 :: r) Hr (rd_val_none_end r)) by (cbn [flat_map length] in Hf; lia).
    cbn [N.eqb Pos.eqb]. reflexivity.
  - cbn [den_attrs] in Eal. destruct (den_attr denv a2 st1) as [[[n2 v2] st1']|] eqn:Ea2; [|discriminate].
    assert (Eal' : den_attrs denv (a2 :: al') st1 = Some (res', st2)) by (cbn [den_attrs]; rewrite Ea2; exact Eal).
    assert (Hnv : rd_val (flat_map ser_attr (a2 :: al') ++ 1 :: r) = None).
    { cbn [flat_map]. rewrite <- app_assoc. apply (rd_val_none_attr a2 st1 n2 v2 st1' _ Ea2). }
    rewrite (rd_attr_ok a dst n v0 st1 f _ Hr Hnv) by lia.
    destruct (ser_attr_head l tb a2 st1 n2 v2 st1' (flat_map ser_attr al' ++ 1 :: r) Ea2) as (_ & H1 & Hl2).
    assert (Hhd : exists b x, flat_map ser_attr (a2 :: al') ++ 1 :: r = b :: x /\ (b =? 1) = false).
    { cbn [flat_map]. rewrite <- app_assoc. destruct (ser_attr a2) as [|b y]; [cbn in Hl2; lia|].
      exists b, (y ++ flat_map ser_attr al' ++ 1 :: r). split; [reflexivity|exact H1]. }
    destruct Hhd as (b & x & Eb & Hb). rewrite Eb. rewrite Hb. rewrite <- Eb.
    rewrite (IH st1 res' st2 f r Eal') by (try discriminate; lia). reflexivity.
Qed.

Lemma rd_pi_ok p dst evs dst' fuel r : den_pi denv p dst = Some (evs, dst') ->
  (length (ser_attr p) <= S fuel)%nat -> rd_pi fuel (ser_attr p ++ 1 :: r) = Some (p, r).
Proof.
  intros H Hf. unfold den_pi in H. destruct (den_attr_raw denv p dst) as [[[n v0] st']|] eqn:Er; [|discriminate].
  unfold rd_pi. rewrite (rd_attr_ok p dst n v0 st' fuel (1 :: r) Er (rd_val_none_end r) Hf). cbn [N.eqb Pos.eqb]. reflexivity.
Qed.

End Strict.
