(* Cross-model consistency of the table lookups and of language selection.

   Several models transcribe the SAME C functions independently (Tables.v / LangSelect.v for C08-C10, Parser.v and
   Spec.v for C04, EncWbxml.v for C06, EncXml.v for C05, XmlFront.v for the XML front end, TreeGraph.v for C18).
   This file proves the transcriptions equal — generically (for every language entry / main table / query), modulo
   the obvious conversions where the representations differ (Coq strings vs byte lists, option vs sentinel) — so a
   transcription error in one of them cannot hide behind its own correspondence run.

   Qualified names are used throughout (the models reuse names such as pres, beq, attr_loop, check_public_id). *)
From Coq Require Import List NArith String Ascii Bool Lia Arith.
From Wbxml Require Import Model.TablesDefs Model.Tables Model.Codec.
From Wbxml Require Model.Parser Model.Spec Model.EncWbxml Model.EncWbxmlTables Model.EncXml Model.XmlFront
     Model.TreeGraph Model.LangSelect Proofs.LangSelectProofs.
Import ListNotations.
Local Open Scope N_scope.

(* ================================================================== conversions *)

Definition bos (s : string) : list N := bytes_of_string s.

Lemma N_of_ascii_inj : forall a b, N_of_ascii a = N_of_ascii b -> a = b.
Proof. intros a b H. rewrite <- (ascii_N_embedding a), <- (ascii_N_embedding b). now rewrite H. Qed.

Lemma N_of_ascii_eqb : forall a b, (N_of_ascii a =? N_of_ascii b) = Ascii.eqb a b.
Proof.
  intros a b. destruct (Ascii.eqb a b) eqn:E.
  - apply Ascii.eqb_eq in E. subst. apply N.eqb_refl.
  - apply N.eqb_neq. intros H. apply N_of_ascii_inj in H. subst. rewrite Ascii.eqb_refl in E. discriminate.
Qed.

Lemma bos_cons : forall a s, bos (String a s) = N_of_ascii a :: bos s.
Proof. reflexivity. Qed.

(* the conversion is injective (on all strings, hence on the table data) *)
Lemma bos_inj : forall a b, bos a = bos b -> a = b.
Proof.
  induction a as [|x a IH]; intros [|y b] H; try reflexivity; try discriminate.
  rewrite !bos_cons in H. injection H as H1 H2. apply N_of_ascii_inj in H1. f_equal; auto.
Qed.

Lemma bos_length : forall s, List.length (bos s) = String.length s.
Proof. induction s as [|a s IH]; [reflexivity|]. rewrite bos_cons. cbn. now rewrite IH. Qed.

(* every list of octets is the image of a string: queries on byte strings are queries on strings *)
Lemma bos_string_of_bytes : forall bs, Forall (fun b => b < 256) bs -> bos (LangSelect.string_of_bytes bs) = bs.
Proof.
  induction bs as [|b bs IH]; intros H; [reflexivity|]. inversion H as [|? ? Hb Hbs]; subst.
  unfold LangSelect.string_of_bytes. cbn [fold_right]. rewrite bos_cons. fold (LangSelect.string_of_bytes bs).
  rewrite IH by assumption. now rewrite N_ascii_embedding.
Qed.

Lemma string_of_bytes_bos : forall s, LangSelect.string_of_bytes (bos s) = s.
Proof.
  induction s as [|a s IH]; [reflexivity|]. rewrite bos_cons. unfold LangSelect.string_of_bytes. cbn [fold_right].
  fold (LangSelect.string_of_bytes (bos s)). now rewrite IH, ascii_N_embedding.
Qed.

(* the three byte-string equality tests of the models are one function ... *)
Lemma beq_tree_enc : forall a b, TreeGraph.beq a b = EncWbxml.beq a b.
Proof. reflexivity. Qed.   (* the fixpoints have the same body: convertible *)
Lemma beq_parser_enc : forall a b, Parser.bytes_eqb a b = EncWbxml.beq a b.
Proof. reflexivity. Qed.   (* the fixpoints have the same body: convertible *)

(* ... and on converted strings it is strcmp == 0 of Tables.v *)
Lemma beq_bos : forall a b, EncWbxml.beq (bos a) (bos b) = streq a b.
Proof.
  unfold streq. induction a as [|x a IH]; intros [|y b]; try reflexivity.
  rewrite !bos_cons. cbn [EncWbxml.beq String.eqb]. rewrite N_of_ascii_eqb, IH.
  destruct (Ascii.eqb x y); reflexivity.
Qed.

Lemma is_prefix_bos : forall a b, EncWbxml.is_prefix (bos a) (bos b) = is_prefix a b.
Proof.
  induction a as [|x a IH]; intros [|y b]; try reflexivity.
  rewrite !bos_cons. cbn [EncWbxml.is_prefix is_prefix]. now rewrite N_of_ascii_eqb, IH.
Qed.
Lemma bprefix_enc : forall a b, TreeGraph.bprefix a b = EncWbxml.is_prefix a b.
Proof. reflexivity. Qed.   (* the fixpoints have the same body: convertible *)

Lemma len_bos : forall s, EncWbxml.len (bos s) = N.of_nat (String.length s).
Proof. intros. unfold EncWbxml.len. now rewrite bos_length. Qed.

Lemma find_sub_bos : forall needle s,
  (match EncWbxml.find_sub (bos needle) (bos s) with Some _ => true | None => false end) = is_substr needle s.
Proof.
  intros needle. induction s as [|y s IH].
  - cbn [bos bytes_of_string list_ascii_of_string map EncWbxml.find_sub is_substr].
    change (@nil N) with (bos EmptyString). rewrite is_prefix_bos. destruct (is_prefix needle ""); reflexivity.
  - rewrite bos_cons. cbn [EncWbxml.find_sub is_substr]. rewrite <- bos_cons, is_prefix_bos.
    destruct (is_prefix needle (String y s)); [reflexivity|]. cbn [orb]. rewrite <- IH.
    destruct (EncWbxml.find_sub (bos needle) (bos s)); reflexivity.
Qed.

(* ================================================================== (1) (3) (5) token -> row *)

Definition opt_of_lookup {A} (x : lookup A) : option A := match x with Found r => Some r | _ => None end.

Lemma find_tag_is_find : forall rows p t,
  Parser.find_tag rows p t = find (fun r => (t_tok r =? t) && (t_page r =? p)) rows.
Proof. induction rows as [|r rows IH]; intros; cbn; [reflexivity|]. now rewrite IH. Qed.
Lemma find_attr_is_find : forall rows p t,
  Parser.find_attr rows p t = find (fun r => (a_tok r =? t) && (a_page r =? p)) rows.
Proof. induction rows as [|r rows IH]; intros; cbn; [reflexivity|]. now rewrite IH. Qed.
Lemma find_val_is_find : forall rows p t,
  Parser.find_val rows p t = find (fun r => (v_tok r =? t) && (v_page r =? p)) rows.
Proof. induction rows as [|r rows IH]; intros; cbn; [reflexivity|]. now rewrite IH. Qed.
Lemma find_ext_is_find : forall rows v, Parser.find_ext rows v = find (fun r => e_tok r =? v) rows.
Proof. induction rows as [|r rows IH]; intros; cbn; [reflexivity|]. now rewrite IH. Qed.

Lemma find_ext_fun : forall A (f g : A -> bool) l, (forall x, f x = g x) -> find f l = find g l.
Proof. intros A f g l H. induction l as [|x l IH]; cbn; [reflexivity|]. now rewrite H, IH. Qed.

(* Tables.v (C08) = the scan inside Parser.v's parse_tag (C04) *)
Theorem tag_of_token_parser : forall l p t,
  tag_of_token l p t =
  match l_tags l with
  | None => NoTable
  | Some rows => match Parser.find_tag rows p t with Some r => Found r | None => Unknown end
  end.
Proof. intros. unfold tag_of_token, scan. destruct (l_tags l); [|reflexivity]. now rewrite find_tag_is_find. Qed.

(* ... = the lookup Spec.v's denote and the strict decoder use (no table = no row) *)
Theorem tag_of_token_spec : forall l p t, Spec.lookup_tag l p t = opt_of_lookup (tag_of_token l p t).
Proof.
  intros. unfold Spec.lookup_tag, tag_of_token, scan. destruct (l_tags l) as [rows|]; cbn [opt_list]; [|reflexivity].
  rewrite (find_ext_fun _ _ (fun r => (t_tok r =? t) && (t_page r =? p)) rows) by (intros; apply andb_comm).
  destruct (find _ rows); reflexivity.
Qed.

(* parse_tag itself, written with Tables.tag_of_byte (the & 0x3F mask included) *)
Theorem parse_tag_uses_tag_of_byte : forall env st,
  Parser.parse_tag env st =
  match Parser.parse_uint8 (Parser.s_rest st) with
  | Parser.PErr e => Parser.PErr e
  | Parser.PFuel => Parser.PFuel
  | Parser.POk (tag, r) =>
    match tag_of_byte (Parser.e_lang env) (Parser.s_tagcp st) tag with
    | NoTable => Parser.PErr Parser.PE_TAG_TABLE_UNDEFINED
    | Unknown => Parser.POk (tag, Parser.TagLit Parser.UNKNOWN_NAME, r)
    | Found row => Parser.POk (tag, Parser.TagTok (t_page row) (t_tok row) (Parser.B (t_name row)), r)
    end
  end.
Proof.
  intros. unfold Parser.parse_tag. destruct (Parser.parse_uint8 (Parser.s_rest st)) as [[tag r]| |]; try reflexivity.
  unfold tag_of_byte, WBXML_TOKEN_MASK. rewrite tag_of_token_parser.
  destruct (l_tags (Parser.e_lang env)); [|reflexivity].
  destruct (Parser.find_tag _ _ _); reflexivity.
Qed.

Theorem attr_of_token_parser : forall l p t,
  attr_of_token l p t =
  match l_attrs l with
  | None => NoTable
  | Some rows => match Parser.find_attr rows p t with Some r => Found r | None => Unknown end
  end.
Proof. intros. unfold attr_of_token, scan. destruct (l_attrs l); [|reflexivity]. now rewrite find_attr_is_find. Qed.

Theorem attr_of_token_spec : forall l p t, Spec.lookup_attr l p t = opt_of_lookup (attr_of_token l p t).
Proof.
  intros. unfold Spec.lookup_attr, attr_of_token, scan. destruct (l_attrs l) as [rows|]; cbn [opt_list]; [|reflexivity].
  rewrite (find_ext_fun _ _ (fun r => (a_tok r =? t) && (a_page r =? p)) rows) by (intros; apply andb_comm).
  destruct (find _ rows); reflexivity.
Qed.

Theorem val_of_token_parser : forall l p t,
  val_of_token l p t =
  match l_vals l with
  | None => NoTable
  | Some rows => match Parser.find_val rows p t with Some r => Found r | None => Unknown end
  end.
Proof. intros. unfold val_of_token, scan. destruct (l_vals l); [|reflexivity]. now rewrite find_val_is_find. Qed.

Theorem val_of_token_spec : forall l p t, Spec.lookup_val l p t = opt_of_lookup (val_of_token l p t).
Proof.
  intros. unfold Spec.lookup_val, val_of_token, scan. destruct (l_vals l) as [rows|]; cbn [opt_list]; [|reflexivity].
  rewrite (find_ext_fun _ _ (fun r => (v_tok r =? t) && (v_page r =? p)) rows) by (intros; apply andb_comm).
  destruct (find _ rows); reflexivity.
Qed.

Theorem ext_of_token_parser : forall l v,
  ext_of_token l v =
  match l_exts l with
  | None => NoTable
  | Some rows => match Parser.find_ext rows v with Some r => Found r | None => Unknown end
  end.
Proof. intros. unfold ext_of_token, scan. destruct (l_exts l); [|reflexivity]. now rewrite find_ext_is_find. Qed.

Theorem ext_of_token_spec : forall l v, Spec.lookup_ext l v = opt_of_lookup (ext_of_token l v).
Proof.
  intros. unfold Spec.lookup_ext, ext_of_token, scan. destruct (l_exts l) as [rows|]; cbn [opt_list]; [|reflexivity].
  destruct (find _ rows); reflexivity.
Qed.

(* ================================================================== (2) (3) (5) name -> row *)

(* EncWbxmlTables.v: blang_of_lang, main_btable, omap, obos (its own bos is bytes_of_string as well) *)
Notation blang_of_lang := EncWbxmlTables.blang_of_lang.
Notation main_btable := EncWbxmlTables.main_btable.
Notation omap := EncWbxmlTables.omap.
Notation obos := EncWbxmlTables.obos.

Definition btag_of (r : tag_row) : EncWbxml.btag := EncWbxml.mk_btag (bos (t_name r)) (t_page r) (t_tok r) (t_opts r).
Definition battr_of (r : attr_row) : EncWbxml.battr :=
  EncWbxml.mk_battr (bos (a_name r)) (obos (a_value r)) (a_page r) (a_tok r).
Definition bval_of (r : val_row) : EncWbxml.bval := EncWbxml.mk_bval (bos (v_name r)) (v_page r) (v_tok r).
Definition bext_of (r : ext_row) : EncWbxml.bext := EncWbxml.mk_bext (bos (e_name r)) (e_tok r).

Lemma blang_tags : forall l, EncWbxml.bl_tags (blang_of_lang l) = omap btag_of (l_tags l).
Proof. reflexivity. Qed.
Lemma blang_attrs : forall l, EncWbxml.bl_attrs (blang_of_lang l) = omap battr_of (l_attrs l).
Proof. reflexivity. Qed.
Lemma blang_vals : forall l, EncWbxml.bl_vals (blang_of_lang l) = omap bval_of (l_vals l).
Proof. reflexivity. Qed.
Lemma blang_exts : forall l, EncWbxml.bl_exts (blang_of_lang l) = omap bext_of (l_exts l).
Proof. reflexivity. Qed.

(* the converted main table of C06 is the conversion of the regenerated main table, and the row conversions are
   injective (they keep page, token, options and the — injectively converted — names) *)
Lemma main_btable_is_conversion : main_btable = map blang_of_lang Gen.TablesData.main_table.
Proof. reflexivity. Qed.
Lemma btag_of_inj : forall a b, btag_of a = btag_of b -> a = b.
Proof. intros [n p t o] [n' p' t' o'] H. unfold btag_of in H. cbn in H. injection H as H1 H2 H3 H4. apply bos_inj in H1. now subst. Qed.
Lemma obos_inj : forall a b, obos a = obos b -> a = b.
Proof. intros [a|] [b|] H; cbn in H; try discriminate; try reflexivity. injection H as H. apply bos_inj in H. now subst. Qed.
Lemma battr_of_inj : forall a b, battr_of a = battr_of b -> a = b.
Proof.
  intros [n v p t] [n' v' p' t'] H. unfold battr_of in H. cbn in H. injection H as H1 H2 H3 H4.
  apply bos_inj in H1. apply obos_inj in H2. now subst.
Qed.

Lemma find_map : forall A B (g : A -> B) (f : B -> bool) l, find f (map g l) = option_map g (find (fun x => f (g x)) l).
Proof. intros. induction l as [|x l IH]; cbn; [reflexivity|]. destruct (f (g x)); [reflexivity | exact IH]. Qed.

(* --- tags: wbxml_tables_get_tag_from_xml, Tables.v = EncWbxml.v (bytes) *)
Lemma tag_first_loop_conv : forall rows cp name fc,
  EncWbxml.tag_first_loop cp (bos name) fc (map btag_of rows) = option_map btag_of (tag_pass1 rows cp name fc).
Proof.
  induction rows as [|e rows IH]; intros cp name fc; [reflexivity|].
  cbn [map EncWbxml.tag_first_loop tag_pass1]. unfold EncWbxml.rname_t. cbn [btag_of EncWbxml.bt_page EncWbxml.bt_name].
  rewrite beq_bos. destruct (t_page e =? cp); [destruct (streq (t_name e) name); [reflexivity | apply IH]|].
  destruct fc; [reflexivity | apply IH].
Qed.

Lemma tag_second_loop_conv : forall rows cp name,
  EncWbxml.tag_second_loop cp (bos name) (map btag_of rows) = option_map btag_of (tag_pass2 rows (Some cp) name).
Proof.
  unfold tag_pass2. induction rows as [|e rows IH]; intros cp name; [reflexivity|].
  cbn [map EncWbxml.tag_second_loop find]. unfold EncWbxml.rname_t. cbn [btag_of EncWbxml.bt_page EncWbxml.bt_name].
  rewrite beq_bos. destruct (t_page e =? cp); cbn [negb andb]; [apply IH|].
  destruct (streq (t_name e) name); [reflexivity | apply IH].
Qed.

Theorem tag_from_xml_encwbxml : forall l cp name,
  EncWbxml.get_tag_from_xml (blang_of_lang l) cp (bos name) = option_map btag_of (tag_from_xml l (Some cp) name).
Proof.
  intros. unfold EncWbxml.get_tag_from_xml, tag_from_xml. rewrite blang_tags.
  destruct (l_tags l) as [rows|]; cbn [omap]; [|reflexivity].
  rewrite tag_first_loop_conv. destruct (tag_pass1 rows cp name false); cbn [option_map]; [reflexivity|].
  apply tag_second_loop_conv.
Qed.

(* --- tags: Tables.v = TreeGraph.v (C18, wbxml_tree_add_xml_elt) *)
Definition tagrow_of (r : tag_row) : TreeGraph.tagrow := TreeGraph.mk_tagrow (bos (t_name r)) (t_page r) (t_tok r).
Definition tnsrow_of (r : ns_row) : TreeGraph.nsrow := TreeGraph.mk_nsrow (bos (ns_name r)) (ns_page r).
Definition attrrow_of (r : attr_row) : TreeGraph.attrrow :=
  TreeGraph.mk_attrrow (bos (a_name r)) (option_map bos (a_value r)) (a_page r) (a_tok r).

Lemma tlang_tags : forall l, TreeGraph.tl_tags (TreeGraph.tlang_of_lang l) = option_map (map tagrow_of) (l_tags l).
Proof. reflexivity. Qed.
Lemma tlang_attrs : forall l, TreeGraph.tl_attrs (TreeGraph.tlang_of_lang l) = option_map (map attrrow_of) (l_attrs l).
Proof. reflexivity. Qed.
Lemma tlang_ns : forall l, TreeGraph.tl_ns (TreeGraph.tlang_of_lang l) = option_map (map tnsrow_of) (l_ns l).
Proof. reflexivity. Qed.

Lemma tag_loop1_conv : forall rows cur fc name,
  TreeGraph.tag_loop1 (map tagrow_of rows) cur fc (bos name) = option_map tagrow_of (tag_pass1 rows cur name fc).
Proof.
  induction rows as [|e rows IH]; intros cur fc name; [reflexivity|].
  cbn [map TreeGraph.tag_loop1 tag_pass1 tagrow_of TreeGraph.tg_page TreeGraph.tg_name].
  rewrite beq_tree_enc, beq_bos. destruct (t_page e =? cur); [destruct (streq (t_name e) name); [reflexivity | apply IH]|].
  destruct fc; [reflexivity | apply IH].
Qed.

Lemma tag_loop2_conv : forall rows cur name,
  TreeGraph.tag_loop2 (map tagrow_of rows) cur (bos name) = option_map tagrow_of (tag_pass2 rows cur name).
Proof.
  unfold tag_pass2. induction rows as [|e rows IH]; intros cur name; [reflexivity|].
  cbn [map TreeGraph.tag_loop2 find tagrow_of TreeGraph.tg_page TreeGraph.tg_name].
  rewrite beq_tree_enc, beq_bos.
  destruct (match cur with Some c => t_page e =? c | None => false end); cbn [negb andb]; [apply IH|].
  destruct (streq (t_name e) name); [reflexivity | apply IH].
Qed.

Theorem tag_from_xml_treegraph : forall l cur name,
  TreeGraph.get_tag_from_xml (TreeGraph.tlang_of_lang l) cur (bos name) = option_map tagrow_of (tag_from_xml l cur name).
Proof.
  intros. unfold TreeGraph.get_tag_from_xml, tag_from_xml. rewrite tlang_tags.
  destruct (l_tags l) as [rows|]; cbn [option_map]; [|reflexivity].
  destruct cur as [c|].
  - rewrite tag_loop1_conv. destruct (tag_pass1 rows c name false); cbn [option_map]; [reflexivity|]. apply tag_loop2_conv.
  - apply tag_loop2_conv.
Qed.

(* --- attribute starts: wbxml_tables_get_attr_from_xml (exact / longest prefix / no value) *)

(* Tables.v answers with the rest of the value (a pointer into it), EncWbxml.v with the number of characters consumed *)
Definition attr_result_conv (value : string) (res : option attr_row * option string) : option (EncWbxml.battr * option N) :=
  match res with
  | (Some r, None) => Some (battr_of r, None)
  | (Some r, Some lft) => Some (battr_of r, Some (N.of_nat (String.length value - String.length lft)))
  | (None, _) => None
  end.

Lemma N_ltb_of_nat : forall a b, (N.of_nat a <? N.of_nat b) = Nat.ltb a b.
Proof.
  intros a b. destruct (Nat.ltb a b) eqn:E.
  - apply Nat.ltb_lt in E. apply N.ltb_lt. lia.
  - apply Nat.ltb_ge in E. apply N.ltb_ge. lia.
Qed.

Lemma str_drop_length : forall k s, (k <= String.length s)%nat -> String.length (str_drop k s) = (String.length s - k)%nat.
Proof.
  induction k as [|k IH]; intros s H; [cbn; lia|]. destruct s as [|a s]; cbn in *; [lia|]. apply IH. lia.
Qed.

Lemma attr_loop_encwbxml : forall rows name value found comp,
  (comp <= String.length value)%nat ->
  EncWbxml.attr_loop (bos name) (bos value) (map battr_of rows) (option_map battr_of found) (N.of_nat comp) =
  attr_result_conv value (attr_loop rows name (Some value) found comp).
Proof.
  induction rows as [|e rows IH]; intros name value found comp Hc.
  - cbn [map EncWbxml.attr_loop attr_loop]. destruct found as [r|]; cbn [option_map attr_result_conv]; [|reflexivity].
    rewrite str_drop_length by assumption. do 3 f_equal. lia.
  - cbn [map EncWbxml.attr_loop attr_loop]. cbn [battr_of EncWbxml.ba_name EncWbxml.ba_value].
    rewrite beq_bos. destruct (streq (a_name e) name); [|now apply IH].
    destruct (a_value e) as [ev|]; cbn [obos].
    + rewrite beq_bos. destruct (streq ev value); [reflexivity|].
      rewrite !len_bos, is_prefix_bos.
      rewrite !N_ltb_of_nat.
      destruct (Nat.ltb (String.length ev) (String.length value)) eqn:E1; cbn [andb]; [|now apply IH].
      destruct (Nat.ltb comp (String.length ev)); cbn [andb]; [|now apply IH].
      destruct (is_prefix ev value); [|now apply IH].
      apply (IH name value (Some e) (String.length ev)). apply Nat.ltb_lt in E1. lia.
    + destruct found as [f|]; cbn [option_map].
      * apply (IH name value (Some f) comp Hc).
      * apply (IH name value (Some e) comp Hc).
Qed.

Theorem attr_from_xml_encwbxml : forall l name value,
  EncWbxml.get_attr_from_xml (blang_of_lang l) (bos name) (bos value) =
  attr_result_conv value (attr_from_xml l name (Some value)).
Proof.
  intros. unfold EncWbxml.get_attr_from_xml, attr_from_xml. rewrite blang_attrs.
  destruct (l_attrs l) as [rows|]; cbn [omap]; [|reflexivity].
  apply (attr_loop_encwbxml rows name value None 0). lia.
Qed.

Lemma attr_loop_treegraph : forall rows name value found comp,
  TreeGraph.attr_loop (map attrrow_of rows) (bos name) (bos value) (option_map attrrow_of found) (N.of_nat comp) =
  option_map attrrow_of (fst (attr_loop rows name (Some value) found comp)).
Proof.
  induction rows as [|e rows IH]; intros name value found comp.
  - cbn [map TreeGraph.attr_loop attr_loop]. destruct found; reflexivity.
  - cbn [map TreeGraph.attr_loop attr_loop]. cbn [attrrow_of TreeGraph.at_name TreeGraph.at_val].
    rewrite beq_tree_enc, beq_bos. destruct (streq (a_name e) name); [|apply IH].
    destruct (a_value e) as [ev|]; cbn [option_map].
    + rewrite beq_tree_enc, beq_bos. destruct (streq ev value); [reflexivity|].
      rewrite !bos_length, bprefix_enc, is_prefix_bos.
      rewrite !N_ltb_of_nat.
      destruct (Nat.ltb (String.length ev) (String.length value) && Nat.ltb comp (String.length ev) && is_prefix ev value).
      * apply (IH name value (Some e) (String.length ev)).
      * apply IH.
    + destruct found as [f|]; cbn [option_map].
      * apply (IH name value (Some f) comp).
      * apply (IH name value (Some e) comp).
Qed.

Theorem attr_from_xml_treegraph : forall l name value,
  TreeGraph.get_attr_from_xml (TreeGraph.tlang_of_lang l) (bos name) (bos value) =
  option_map attrrow_of (fst (attr_from_xml l name (Some value))).
Proof.
  intros. unfold TreeGraph.get_attr_from_xml, attr_from_xml. rewrite tlang_attrs.
  destruct (l_attrs l) as [rows|]; cbn [option_map]; [|reflexivity].
  apply (attr_loop_treegraph rows name value None 0).
Qed.

(* --- attribute values (wbxml_tables_contains_attr_value_from_xml) and extension values (_get_ext_from_xml) *)
Theorem contains_attr_value_encwbxml : forall l value,
  EncWbxml.contains_attr_value (blang_of_lang l) (bos value) = contains_attr_value l value.
Proof.
  intros. unfold EncWbxml.contains_attr_value, contains_attr_value. rewrite blang_vals.
  destruct (l_vals l) as [rows|]; cbn [omap]; [|reflexivity].
  induction rows as [|r rows IH]; [reflexivity|]. cbn [map existsb bval_of EncWbxml.bv_name].
  now rewrite find_sub_bos, IH.
Qed.

Theorem ext_from_xml_encwbxml : forall l value,
  EncWbxml.get_ext_from_xml (blang_of_lang l) (bos value) = option_map bext_of (ext_from_xml l value).
Proof.
  intros. unfold EncWbxml.get_ext_from_xml, ext_from_xml. rewrite blang_exts.
  destruct (l_exts l) as [rows|]; cbn [omap]; [|reflexivity].
  rewrite find_map. f_equal. apply find_ext_fun. intros x. cbn [bext_of EncWbxml.be_name]. apply beq_bos.
Qed.

(* ================================================================== (4) namespace <-> code page *)

(* EncXml.v (C05, xmlns emission): wbxml_tables_get_xmlns *)
Theorem xmlns_of_page_encxml : forall l page,
  match EncXml.xl_ns (EncXml.xlang_of l) with
  | None => None
  | Some nst => EncXml.get_xmlns nst page
  end = option_map bos (xmlns_of_page l page).
Proof.
  intros. unfold xmlns_of_page. change (EncXml.xl_ns (EncXml.xlang_of l))
    with (match l_ns l with Some t => Some (map EncXml.nsrow_of t) | None => None end).
  destruct (l_ns l) as [rows|]; [|reflexivity].
  induction rows as [|r rows IH]; [reflexivity|]. cbn [map EncXml.get_xmlns find EncXml.nsrow_of EncXml.nr_page EncXml.nr_name].
  destruct (ns_page r =? page); [reflexivity | exact IH].
Qed.

(* TreeGraph.v (C18): wbxml_tables_get_code_page, 0 when nothing matches or the table is NULL *)
Theorem page_of_xmlns_treegraph : forall l ns,
  TreeGraph.get_code_page (TreeGraph.tl_ns (TreeGraph.tlang_of_lang l)) (bos ns) = page_of_xmlns l ns.
Proof.
  intros. rewrite tlang_ns. unfold page_of_xmlns, page_of_xmlns_opt, TreeGraph.get_code_page.
  destruct (l_ns l) as [rows|]; cbn [option_map]; [|reflexivity].
  induction rows as [|r rows IH]; [reflexivity|].
  cbn [map TreeGraph.get_code_page_rows find tnsrow_of TreeGraph.nsr_name TreeGraph.nsr_page].
  rewrite beq_tree_enc, beq_bos. destruct (streq (ns_name r) ns); [reflexivity | exact IH].
Qed.

(* XmlFront.v (XML front end) calls Tables.page_of_xmlns / tag_from_xml / attr_from_xml themselves: its resolution of an
   element name "namespace|local" is, by definition, the Tables.v lookups on the converted strings ... *)
Theorem resolve_tag_xmlfront : forall l name,
  XmlFront.resolve_tag l name =
  let '(ns, local) := match XmlFront.split_last XmlFront.SEP name with Some p => p | None => ([], name) end in
  let page := page_of_xmlns l (XmlFront.str ns) in
  match tag_from_xml l (Some page) (XmlFront.str local) with
  | Some row => (EncWbxml.TagTok (t_page row) (t_tok row) (t_opts row) (bos (t_name row)), t_page row)
  | None => (EncWbxml.TagLit local, page)
  end.
Proof. intros. unfold XmlFront.resolve_tag. destruct (XmlFront.split_last XmlFront.SEP name) as [[a b]|]; reflexivity. Qed.

(* ... and TreeGraph.v's wbxml_tree_add_xml_elt resolution (written on bytes, independently) gives the same code page and
   the same tag for every name made of octets *)
Lemma split_last_same : forall name, TreeGraph.split_last_sep name = XmlFront.split_last XmlFront.SEP name.
Proof.
  induction name as [|c rest IH]; [reflexivity|]. cbn [TreeGraph.split_last_sep XmlFront.split_last]. rewrite IH.
  destruct (XmlFront.split_last XmlFront.SEP rest) as [[a b]|]; reflexivity.
Qed.

Lemma split_last_octets : forall sep name a b, Forall (fun x => x < 256) name ->
  XmlFront.split_last sep name = Some (a, b) -> Forall (fun x => x < 256) a /\ Forall (fun x => x < 256) b.
Proof.
  intros sep. induction name as [|c rest IH]; intros a b H E; [discriminate|].
  inversion H as [|? ? Hc Hr]; subst. cbn [XmlFront.split_last] in E.
  destruct (XmlFront.split_last sep rest) as [[a' b']|] eqn:E'.
  - injection E as <- <-. destruct (IH a' b' Hr eq_refl) as [Ha Hb]. split; [constructor|]; assumption.
  - destruct (c =? sep); [|discriminate]. injection E as <- <-. split; [constructor | assumption].
Qed.

Definition tree_tag_of (t : EncWbxml.tagname) : TreeGraph.tagname :=
  match t with
  | EncWbxml.TagTok p k _ n => TreeGraph.TagTok p k n
  | EncWbxml.TagLit n => TreeGraph.TagLit n
  end.

Theorem resolve_elt_treegraph_xmlfront : forall l name, Forall (fun x => x < 256) name ->
  TreeGraph.resolve_xml_elt (TreeGraph.tlang_of_lang l) name =
  (snd (XmlFront.resolve_tag l name), tree_tag_of (fst (XmlFront.resolve_tag l name))).
Proof.
  intros l name Hn. unfold TreeGraph.resolve_xml_elt, XmlFront.resolve_tag. rewrite split_last_same.
  assert (Hgen : forall ns local, Forall (fun x => x < 256) ns -> Forall (fun x => x < 256) local ->
    (let cp := TreeGraph.get_code_page (TreeGraph.tl_ns (TreeGraph.tlang_of_lang l)) ns in
     match TreeGraph.get_tag_from_xml (TreeGraph.tlang_of_lang l) (Some cp) local with
     | Some r => (TreeGraph.tg_page r, TreeGraph.TagTok (TreeGraph.tg_page r) (TreeGraph.tg_tok r) (TreeGraph.tg_name r))
     | None => (cp, TreeGraph.TagLit local)
     end) =
    (let r := (let page := page_of_xmlns l (XmlFront.str ns) in
               match tag_from_xml l (Some page) (XmlFront.str local) with
               | Some row => (EncWbxml.TagTok (t_page row) (t_tok row) (t_opts row) (XmlFront.bs (t_name row)), t_page row)
               | None => (EncWbxml.TagLit local, page)
               end) in (snd r, tree_tag_of (fst r)))).
  { intros ns local Hns Hloc. unfold XmlFront.str. cbv zeta.
    pose proof (page_of_xmlns_treegraph l (LangSelect.string_of_bytes ns)) as Hp. rewrite (bos_string_of_bytes ns Hns) in Hp.
    rewrite Hp.
    pose proof (tag_from_xml_treegraph l (Some (page_of_xmlns l (LangSelect.string_of_bytes ns))) (LangSelect.string_of_bytes local)) as Ht.
    rewrite (bos_string_of_bytes local Hloc) in Ht. rewrite Ht.
    destruct (tag_from_xml l (Some (page_of_xmlns l (LangSelect.string_of_bytes ns))) (LangSelect.string_of_bytes local)) as [row|];
      cbn [option_map fst snd tree_tag_of]; reflexivity. }
  destruct (XmlFront.split_last XmlFront.SEP name) as [[a b]|] eqn:E.
  - destruct (split_last_octets _ _ _ _ Hn E) as [Ha Hb]. exact (Hgen a b Ha Hb).
  - exact (Hgen [] name (Forall_nil _) Hn).
Qed.

(* attributes: XmlFront.resolve_attr is Tables.attr_from_xml by definition; TreeGraph.resolve_xml_attr agrees *)
Definition tree_attrname_of (a : EncWbxml.attrname) : TreeGraph.attrname :=
  match a with
  | EncWbxml.AttrTok p k n v => TreeGraph.AttrTok p k n v
  | EncWbxml.AttrLit n => TreeGraph.AttrLit n
  end.

Theorem resolve_attr_treegraph_xmlfront : forall l name value,
  Forall (fun x => x < 256) name -> Forall (fun x => x < 256) value ->
  TreeGraph.resolve_xml_attr (TreeGraph.tlang_of_lang l) name value =
  (tree_attrname_of (EncWbxml.at_name (XmlFront.resolve_attr l (name, value))),
   EncWbxml.at_value (XmlFront.resolve_attr l (name, value))).
Proof.
  intros l name value Hn Hv. unfold TreeGraph.resolve_xml_attr, XmlFront.resolve_attr, XmlFront.str.
  pose proof (attr_from_xml_treegraph l (LangSelect.string_of_bytes name) (LangSelect.string_of_bytes value)) as Ha.
  rewrite (bos_string_of_bytes name Hn), (bos_string_of_bytes value Hv) in Ha. rewrite Ha.
  destruct (fst (attr_from_xml l (LangSelect.string_of_bytes name) (Some (LangSelect.string_of_bytes value)))) as [row|];
    reflexivity.
Qed.

(* ================================================================== (6) language selection *)

(* ---- (6a) Parser.v (C04): header parsing + check_public_id  =  LangSelect.v (C10) *)

Definition perr_map (e : LangSelect.perr) : Parser.perr :=
  match e with
  | LangSelect.P_EMPTY_WBXML => Parser.PE_EMPTY_WBXML
  | LangSelect.P_END_OF_BUFFER => Parser.PE_END_OF_BUFFER
  | LangSelect.P_UNVALID_MBUINT32 => Parser.PE_UNVALID_MBUINT32
  | LangSelect.P_CHARSET_NOT_FOUND => Parser.PE_CHARSET_NOT_FOUND
  | LangSelect.P_STRTBL_LENGTH => Parser.PE_STRTBL_LENGTH
  | LangSelect.P_UNKNOWN_PUBLIC_ID => Parser.PE_UNKNOWN_PUBLIC_ID
  end.

Definition pres_map {A} (x : LangSelect.pres A) : Parser.pres A :=
  match x with LangSelect.POk a => Parser.POk a | LangSelect.PErr e => Parser.PErr (perr_map e) end.

Lemma mb_read_loop_no_unicode : forall k u r, mb_read_loop k u r <> Err E_INVALID_UNICODE.
Proof.
  induction k as [|k IH]; intros u r; cbn [mb_read_loop]; [discriminate|].
  destruct r as [|b r]; [discriminate|]. destruct (N.land b 128 =? 0); [discriminate | apply IH].
Qed.

Lemma mb_read_err_map : forall r e, mb_read r = Err e -> Parser.of_cerr e = perr_map (LangSelect.perr_of e).
Proof.
  intros r e H. destruct e; try reflexivity. exfalso. exact (mb_read_loop_no_unicode _ _ _ H).
Qed.

Lemma publicid_agrees : forall r, Parser.parse_publicid r = pres_map (LangSelect.parse_publicid_part r).
Proof.
  intros [|b r]; [reflexivity|]. unfold Parser.parse_publicid, LangSelect.parse_publicid_part, Parser.parse_mb_uint32.
  destruct (b =? 0).
  - destruct (mb_read r) as [[i r2]|e] eqn:E; cbn [pres_map]; [reflexivity|]. now rewrite (mb_read_err_map _ _ E).
  - destruct (mb_read (b :: r)) as [[p r2]|e] eqn:E; cbn [pres_map]; [reflexivity|]. now rewrite (mb_read_err_map _ _ E).
Qed.

Lemma charset_known_same : forall c, Parser.charset_known c = LangSelect.charset_known c.
Proof. reflexivity. Qed.

(* version byte 0 has no charset field; then the "Check charset" default *)
Lemma charset_agrees : forall version meta r,
  match (if version =? 0 then Parser.POk (0, r) else Parser.parse_charset meta r) with
  | Parser.POk (charset, r2) => Parser.POk ((if charset =? 0 then (if meta =? 0 then 106 else meta) else charset), r2)
  | Parser.PErr e => Parser.PErr e
  | Parser.PFuel => Parser.PFuel
  end = pres_map (LangSelect.parse_charset_part version meta r).
Proof.
  intros. unfold LangSelect.parse_charset_part, LangSelect.default_charset, LangSelect.CHARSET_UTF_8.
  destruct (version =? 0); [reflexivity|].
  unfold Parser.parse_charset, Parser.parse_mb_uint32.
  destruct (mb_read r) as [[c r2]|e] eqn:E; cbn [pres_map]; [|now rewrite (mb_read_err_map _ _ E)].
  cbv zeta. rewrite charset_known_same.
  destruct (LangSelect.charset_known (if c =? 0 then if meta =? 0 then 106 else meta else c)); reflexivity.
Qed.

Lemma firstn_take_n : forall A n (l : list A), firstn n l = LangSelect.take_n n l.
Proof. induction n as [|n IH]; intros [|x l]; cbn; try reflexivity. now rewrite IH. Qed.

Lemma last_any_default : forall (l : list N) a b, l <> [] -> last l a = last l b.
Proof.
  induction l as [|x l IH]; intros a b H; [congruence|]. destruct l as [|y l]; [reflexivity|].
  change (last (x :: y :: l) a) with (last (y :: l) a). change (last (x :: y :: l) b) with (last (y :: l) b).
  apply IH. discriminate.
Qed.

Lemma strtbl_agrees : forall version pid idx cs r,
  match Parser.parse_strtbl r with
  | Parser.POk (tb, len, r3) => Parser.POk (LangSelect.mk_header version pid idx cs tb len r3)
  | Parser.PErr e => Parser.PErr e
  | Parser.PFuel => Parser.PFuel
  end = pres_map (LangSelect.parse_strtbl_part version pid idx cs r).
Proof.
  intros. unfold Parser.parse_strtbl, LangSelect.parse_strtbl_part, Parser.parse_mb_uint32.
  destruct (mb_read r) as [[len r']|e]; cbn [pres_map]; [|reflexivity].
  destruct (N.eqb_spec len 0) as [->|Hne]; [reflexivity|].
  replace (0 <? len) with true by (symmetry; apply N.ltb_lt; lia).
  unfold Parser.blen. destruct (N.of_nat (List.length r') <? len) eqn:El; [reflexivity|].
  cbv zeta. unfold Parser.take, Parser.drop. rewrite firstn_take_n.
  assert (Hnn : LangSelect.take_n (N.to_nat len) r' <> []).
  { apply N.ltb_ge in El. destruct r' as [|x r'']; [cbn in El; lia|].
    destruct (N.to_nat len) eqn:En; [lia|]. cbn. discriminate. }
  rewrite (last_any_default _ 0 1 Hnn). reflexivity.
Qed.

(* the three scans of check_public_id *)
Lemma find_lang_id_scan : forall tbl id i,
  Parser.find_lang_id tbl id i = LangSelect.scan_rest (fun l => l_id l =? id) tbl i.
Proof. induction tbl as [|l tbl IH]; intros; cbn; [reflexivity|]. destruct (l_id l =? id); [reflexivity | apply IH]. Qed.
Lemma find_lang_pub_scan : forall tbl pub i,
  Parser.find_lang_pub tbl pub i = LangSelect.scan_rest (fun l => l_pub_num l =? pub) tbl i.
Proof. induction tbl as [|l tbl IH]; intros; cbn; [reflexivity|]. destruct (l_pub_num l =? pub); [reflexivity | apply IH]. Qed.

Lemma get_wbxml_publicid_agrees : forall tbl id, Parser.get_wbxml_publicid tbl id = LangSelect.get_wbxml_publicid tbl id.
Proof.
  intros. unfold Parser.get_wbxml_publicid, LangSelect.get_wbxml_publicid. rewrite find_lang_id_scan, LangSelectProofs.scan_rest_fst.
  reflexivity.
Qed.

(* strcasecmp: Parser.v folds octets, Tables.v folds characters *)
Lemma lower_ascii_N : forall a, N_of_ascii (lower_ascii a) = Parser.lower (N_of_ascii a).
Proof.
  intros a. unfold lower_ascii, Parser.lower.
  destruct ((65 <=? N_of_ascii a) && (N_of_ascii a <=? 90)) eqn:E; [|reflexivity].
  apply andb_true_iff in E. destruct E as [E1 E2]. apply N.leb_le in E1, E2.
  apply N_ascii_embedding. lia.
Qed.

Lemma strcaseeq_bos : forall a b, Parser.strcaseeq (bos a) (bos b) = strcaseeq a b.
Proof.
  unfold Parser.strcaseeq. induction a as [|x a IH]; intros [|y b]; try reflexivity.
  rewrite !bos_cons. cbn [map Parser.bytes_eqb strcaseeq]. rewrite IH, <- !lower_ascii_N, N_of_ascii_eqb. reflexivity.
Qed.

Lemma find_lang_text_scan : forall tbl s i, Forall (fun b => b < 256) s ->
  Parser.find_lang_text tbl s = fst (LangSelect.scan_rest (LangSelect.has_pub_text_ci (LangSelect.string_of_bytes s)) tbl i).
Proof.
  intros tbl s i Hs. revert i. induction tbl as [|l tbl IH]; intros i; [reflexivity|].
  cbn [Parser.find_lang_text LangSelect.scan_rest]. unfold LangSelect.has_pub_text_ci at 1.
  destruct (l_pub_text l) as [p|]; [|apply IH].
  unfold Parser.B. rewrite <- (bos_string_of_bytes s Hs) at 1. fold (bos p). rewrite strcaseeq_bos.
  destruct (strcaseeq p (LangSelect.string_of_bytes s)); [reflexivity | apply IH].
Qed.

(* string-table reference: Parser.v goes through wbxml_charset_conv_term (which fails when no NUL follows), LangSelect.v
   reads up to the NUL; they agree on every table in which a NUL follows every valid index — in particular on every table
   produced by parse_strtbl, which ends with NUL (its own, or the four padding ones) *)
Definition nul_follows (tb : option (list N)) (len : N) : Prop :=
  match tb with
  | None => True
  | Some t => forall index, index < len -> exists s r, Parser.split_nul (skipn (N.to_nat index) t) = Some (s, r)
  end.

Lemma split_nul_cstr_at : forall r s t, Parser.split_nul r = Some (s, t) -> LangSelect.cstr_at r = s.
Proof.
  induction r as [|b r IH]; intros s t H; [discriminate|]. cbn [Parser.split_nul LangSelect.cstr_at] in *.
  destruct (b =? 0); [now injection H as <- _|].
  destruct (Parser.split_nul r) as [[s' t']|]; [|discriminate]. injection H as <- _. f_equal. now apply (IH s' t').
Qed.

Lemma strtbl_ref_agrees : forall tb len cs index lang0 ver version pid idx body,
  nul_follows tb len ->
  match Parser.get_strtbl_reference (Parser.mk_penv tb len lang0 ver cs) index with
  | Parser.POk s => Some (LangSelect.string_of_bytes s)
  | _ => None
  end = LangSelect.strtbl_ref (LangSelect.mk_header version pid idx cs tb len body) index.
Proof.
  intros tb len cs index lang0 ver version pid idx body Hn.
  unfold Parser.get_strtbl_reference, LangSelect.strtbl_ref.
  cbn [Parser.e_strtbl Parser.e_strtbl_len Parser.e_charset LangSelect.h_strtbl LangSelect.h_strtbl_len LangSelect.h_charset].
  destruct tb as [t|].
  - destruct (len <=? index) eqn:El; [reflexivity|]. apply N.leb_gt in El.
    unfold Parser.conv_term, Parser.drop, LangSelect.CHARSET_UTF_8, LangSelect.CHARSET_US_ASCII.
    destruct (cs =? 1000) eqn:E1; [apply N.eqb_eq in E1; subst; cbn; destruct (Parser.search_null2 _); reflexivity|].
    destruct (cs =? 1015) eqn:E2; [apply N.eqb_eq in E2; subst; cbn; destruct (Parser.search_null2 _); reflexivity|].
    cbn [orb]. destruct (Hn index El) as [s [r Hs]]. rewrite Hs.
    rewrite (orb_comm (cs =? 106)). destruct ((cs =? 3) || (cs =? 106)); [|reflexivity].
    now rewrite (split_nul_cstr_at _ _ _ Hs).
  - destruct (index =? 0); reflexivity.
Qed.

Theorem check_public_id_parser : forall tbl forced pubid pubidx strtbl len cs version body,
  nul_follows strtbl len ->
  match strtbl with Some t => Forall (fun b => b < 256) t | None => True end ->
  Parser.check_public_id tbl forced pubid pubidx strtbl len cs =
  LangSelect.check_public_id tbl forced (LangSelect.mk_header version pubid pubidx cs strtbl len body).
Proof.
  intros tbl forced pubid pubidx strtbl len cs version body Hn Hoct.
  unfold Parser.check_public_id, LangSelect.check_public_id.
  cbn [LangSelect.h_public_id LangSelect.h_public_id_index].
  change Parser.PUBLIC_ID_UNKNOWN with LangSelect.WBXML_PUBLIC_ID_UNKNOWN. change Parser.NO_INDEX with LangSelect.NO_INDEX.
  change LangSelect.WBXML_LANG_UNKNOWN with 0.
  destruct ((forced =? 0) && (pubid =? LangSelect.WBXML_PUBLIC_ID_UNKNOWN) && (pubidx =? LangSelect.NO_INDEX)); [reflexivity|].
  unfold LangSelect.scan_idx. cbn [skipn].
  rewrite find_lang_id_scan.
  destruct (if forced =? 0 then (None, 0%nat) else LangSelect.scan_rest (fun l => l_id l =? forced) tbl 0) as [r1 i1].
  destruct r1 as [l1|]; [reflexivity|].
  rewrite find_lang_pub_scan.
  destruct (if pubid =? LangSelect.WBXML_PUBLIC_ID_UNKNOWN then (None, i1)
            else LangSelect.scan_rest (fun l => l_pub_num l =? pubid) (skipn i1 tbl) i1) as [r2 i2].
  destruct r2 as [l2|]; [reflexivity|].
  destruct (pubidx =? LangSelect.NO_INDEX); [reflexivity|].
  rewrite <- (strtbl_ref_agrees strtbl len cs pubidx (mk_lang 0 0 None None None None None None None None) 0 version pubid pubidx body Hn).
  destruct (Parser.get_strtbl_reference _ pubidx) as [s| |] eqn:Es; try reflexivity.
  apply find_lang_text_scan.
  (* the referenced string consists of octets of the table *)
  unfold Parser.get_strtbl_reference in Es. cbn [Parser.e_strtbl Parser.e_strtbl_len Parser.e_charset] in Es.
  destruct strtbl as [t|].
  - destruct (len <=? pubidx); [discriminate|]. unfold Parser.conv_term in Es.
    destruct ((cs =? 1000) || (cs =? 1015)); [destruct (Parser.search_null2 _); discriminate|].
    destruct (Parser.split_nul (Parser.drop pubidx t)) as [[s' t']|] eqn:E; [|discriminate].
    destruct ((cs =? 3) || (cs =? 106)); [|discriminate]. injection Es as <-.
    assert (Hd : Forall (fun b => b < 256) (Parser.drop pubidx t)).
    { unfold Parser.drop. apply Forall_forall. intros x Hx. apply (proj1 (Forall_forall _ _) Hoct).
      eapply LangSelectProofs.in_skipn; eassumption. }
    clear - E Hd. revert s' t' E. induction (Parser.drop pubidx t) as [|b r IH]; intros s' t' E; [discriminate|].
    inversion Hd as [|? ? Hb Hr]; subst. cbn [Parser.split_nul] in E. destruct (b =? 0); [injection E as <- _; constructor|].
    destruct (Parser.split_nul r) as [[s'' t'']|]; [|discriminate]. injection E as <- _. constructor; [assumption|].
    now apply (IH Hr s'' t'').
  - destruct (pubidx =? 0); [|discriminate]. injection Es as <-. unfold Parser.B.
    repeat constructor.
Qed.

(* the string table delivered by parse_strtbl ends with NUL, is at least as long as declared, and consists of input octets *)
Lemma split_nul_some_of_in : forall r, In 0 r -> exists s t, Parser.split_nul r = Some (s, t).
Proof.
  induction r as [|b r IH]; intros H; [contradiction|]. cbn [Parser.split_nul].
  destruct (N.eqb_spec b 0) as [->|Hb]; [now exists [], r|].
  destruct H as [H|H]; [congruence|]. destruct (IH H) as [s [t E]]. rewrite E. now exists (b :: s), t.
Qed.

Lemma last_in : forall (l : list N) d, l <> [] -> In (last l d) l.
Proof.
  induction l as [|x l IH]; intros d H; [congruence|]. destruct l as [|y l]; [now left|].
  right. change (last (x :: y :: l) d) with (last (y :: l) d). apply IH. discriminate.
Qed.

Lemma last_skipn : forall (l : list N) n d, (n < List.length l)%nat -> last (skipn n l) d = last l d.
Proof.
  induction l as [|x l IH]; intros n d H; [cbn in H; lia|]. destruct n as [|n]; [reflexivity|].
  cbn [skipn]. cbn [List.length] in H. rewrite IH by lia. destruct l as [|y l]; [cbn in H; lia | reflexivity].
Qed.

Lemma nul_follows_of_last : forall t len, last t 1 = 0 -> (N.to_nat len <= List.length t)%nat -> nul_follows (Some t) len.
Proof.
  intros t len Hl Hlen index Hi. apply split_nul_some_of_in.
  assert (Hn : (N.to_nat index < List.length t)%nat) by lia.
  rewrite <- Hl. rewrite <- (last_skipn t (N.to_nat index) 1 Hn). apply last_in.
  intros E. apply (f_equal (@List.length N)) in E. rewrite skipn_length in E. cbn in E. lia.
Qed.

Lemma take_n_length : forall A n (l : list A), (n <= List.length l)%nat -> List.length (LangSelect.take_n n l) = n.
Proof. induction n as [|n IH]; intros [|x l] H; cbn in *; try lia. rewrite IH; lia. Qed.

Lemma take_n_incl : forall A n (l : list A) x, In x (LangSelect.take_n n l) -> In x l.
Proof. induction n as [|n IH]; intros [|y l] x H; cbn in *; try contradiction. destruct H; [now left | right; eauto]. Qed.

Lemma header_strtbl_ok : forall version pid idx cs r h, Forall (fun b => b < 256) r ->
  LangSelect.parse_strtbl_part version pid idx cs r = LangSelect.POk h ->
  nul_follows (LangSelect.h_strtbl h) (LangSelect.h_strtbl_len h) /\
  match LangSelect.h_strtbl h with Some t => Forall (fun b => b < 256) t | None => True end /\
  LangSelect.h_version h = version /\ LangSelect.h_public_id h = pid /\ LangSelect.h_public_id_index h = idx /\
  LangSelect.h_charset h = cs.
Proof.
  intros version pid idx cs r h Hr H. unfold LangSelect.parse_strtbl_part in H.
  destruct (mb_read r) as [[len r4]|e] eqn:Em; [|discriminate].
  assert (Hr4 : Forall (fun b => b < 256) r4).
  { (* the rest after an mb_u_int32 is a suffix of the input *)
    clear - Hr Em. unfold mb_read in Em. revert Em. generalize 0 at 1. generalize 5%nat.
    intros k. revert r Hr. induction k as [|k IH]; intros r Hr u Em; cbn [mb_read_loop] in Em; [discriminate|].
    destruct r as [|b r']; [discriminate|]. inversion Hr as [|? ? Hb Hr']; subst.
    destruct (N.land b 128 =? 0); [now injection Em as _ <- | now apply (IH r' Hr' _ Em)]. }
  destruct (len =? 0) eqn:E0.
  - injection H as <-. cbn. repeat split; exact I.
  - destruct (N.of_nat (List.length r4) <? len) eqn:El; [discriminate|]. cbv zeta in H. injection H as <-.
    cbn [LangSelect.h_strtbl LangSelect.h_strtbl_len LangSelect.h_version LangSelect.h_public_id LangSelect.h_public_id_index LangSelect.h_charset].
    apply N.ltb_ge in El.
    assert (Hlen : List.length (LangSelect.take_n (N.to_nat len) r4) = N.to_nat len) by (apply take_n_length; lia).
    assert (Hoct : Forall (fun b => b < 256) (LangSelect.take_n (N.to_nat len) r4)).
    { apply Forall_forall. intros x Hx. apply (proj1 (Forall_forall _ _) Hr4). eapply take_n_incl; eassumption. }
    split; [|split; [|repeat split; reflexivity]].
    + destruct (last (LangSelect.take_n (N.to_nat len) r4) 1 =? 0) eqn:Ez.
      * apply nul_follows_of_last; [now apply N.eqb_eq | lia].
      * apply nul_follows_of_last; [change [0; 0; 0; 0] with ([0; 0; 0] ++ [0]); rewrite app_assoc; apply last_last | rewrite app_length; lia].
    + destruct (last (LangSelect.take_n (N.to_nat len) r4) 1 =? 0); [assumption|].
      apply Forall_app. split; [assumption | repeat constructor].
Qed.

Lemma mb_read_rest_octets : forall r v r', Forall (fun b => b < 256) r -> mb_read r = Ok (v, r') -> Forall (fun b => b < 256) r'.
Proof.
  unfold mb_read. generalize 0 at 1. generalize 5%nat. intros k. induction k as [|k IH]; intros u r v r' Hr Em;
    cbn [mb_read_loop] in Em; [discriminate|].
  destruct r as [|b r0]; [discriminate|]. inversion Hr as [|? ? Hb Hr0]; subst.
  destruct (N.land b 128 =? 0); [now injection Em as _ <- | now apply (IH _ r0 v r' Hr0 Em)].
Qed.

Lemma publicid_rest_octets : forall r p i r', Forall (fun b => b < 256) r ->
  LangSelect.parse_publicid_part r = LangSelect.POk (p, i, r') -> Forall (fun b => b < 256) r'.
Proof.
  intros [|b r] p i r' Hr H; [discriminate|]. unfold LangSelect.parse_publicid_part in H. inversion Hr as [|? ? Hb Hr0]; subst.
  destruct (b =? 0).
  - destruct (mb_read r) as [[x y]|] eqn:E; [|discriminate]. injection H as _ _ <-. exact (mb_read_rest_octets _ _ _ Hr0 E).
  - destruct (mb_read (b :: r)) as [[x y]|] eqn:E; [|discriminate]. injection H as _ _ <-. exact (mb_read_rest_octets _ _ _ Hr E).
Qed.

Lemma charset_rest_octets : forall version meta r c r', Forall (fun b => b < 256) r ->
  LangSelect.parse_charset_part version meta r = LangSelect.POk (c, r') -> Forall (fun b => b < 256) r'.
Proof.
  intros version meta r c r' Hr H. unfold LangSelect.parse_charset_part in H. destruct (version =? 0); [now injection H as _ <-|].
  destruct (mb_read r) as [[x y]|] eqn:E; [|discriminate]. cbv zeta in H.
  destruct (LangSelect.charset_known _); [|discriminate]. injection H as _ <-. exact (mb_read_rest_octets _ _ _ Hr E).
Qed.

(* The whole header part of wbxml_parser_parse, for every main table, forced language, meta charset and input made of
   octets: Parser.v (C04) reads the header LangSelect.v (C10) reads, reports the same error, selects the same language
   entry, and hands the body parser the same string table, charset, version and rest. *)
Theorem parse_with_header_agrees : forall tbl forced meta fuel bs, Forall (fun b => b < 256) bs ->
  Parser.parse_with tbl forced meta fuel bs =
  match LangSelect.parse_header tbl forced meta bs with
  | LangSelect.PErr e => Parser.PErr (perr_map e)
  | LangSelect.POk h =>
    match LangSelect.check_public_id tbl forced h with
    | None => Parser.PErr Parser.PE_UNKNOWN_PUBLIC_ID
    | Some l =>
      match Parser.parse_body fuel
              (Parser.mk_penv (LangSelect.h_strtbl h) (LangSelect.h_strtbl_len h) l (LangSelect.h_version h) (LangSelect.h_charset h))
              (Parser.mk_pstate (LangSelect.h_body h) 0 0 None) with
      | Parser.PErr e => Parser.PErr e
      | Parser.PFuel => Parser.PFuel
      | Parser.POk (evs, _) => Parser.POk (Parser.EvStartDoc (LangSelect.h_charset h) (l_id l) :: evs ++ [Parser.EvEndDoc])
      end
    end
  end.
Proof.
  intros tbl forced meta fuel bs Hbs. destruct bs as [|version r0]; [reflexivity|].
  inversion Hbs as [|? ? Hv Hr0]; subst.
  unfold Parser.parse_with, LangSelect.parse_header. cbn [Parser.parse_uint8].
  rewrite publicid_agrees.
  destruct (LangSelect.parse_publicid_part r0) as [[[pubid0 pubidx] r1]|e] eqn:Ep; cbn [pres_map]; [|reflexivity].
  pose proof (publicid_rest_octets _ _ _ _ Hr0 Ep) as Hr1.
  rewrite get_wbxml_publicid_agrees. change LangSelect.WBXML_LANG_UNKNOWN with 0.
  set (pubid := if forced =? 0 then pubid0 else LangSelect.get_wbxml_publicid tbl forced).
  pose proof (charset_agrees version meta r1) as Hc.
  destruct (LangSelect.parse_charset_part version meta r1) as [[cs r2]|e] eqn:Ec; cbn [pres_map] in Hc.
  - pose proof (charset_rest_octets _ _ _ _ _ Hr1 Ec) as Hr2.
    cbv zeta. revert Hc. destruct (version =? 0).
    2: destruct (Parser.parse_charset meta r1) as [[c0 r2']| |].
    all: intros Hc; try discriminate; injection Hc as Hcs Hrr; rewrite Hcs, Hrr.
    all: pose proof (strtbl_agrees version pubid pubidx cs r2) as Hs.
    all: destruct (LangSelect.parse_strtbl_part version pubid pubidx cs r2) as [h|e] eqn:Eh; cbn [pres_map] in Hs.
    all: destruct (Parser.parse_strtbl r2) as [[[tb len] r3]| |]; try discriminate; injection Hs as <-; try reflexivity.
    all: destruct (header_strtbl_ok _ _ _ _ _ _ Hr2 Eh) as [Hn [Ho _]].
    all: cbn [LangSelect.h_strtbl LangSelect.h_strtbl_len LangSelect.h_version LangSelect.h_charset LangSelect.h_body] in *.
    all: try (change (0 =? 0) with true; cbv iota).
    all: rewrite (check_public_id_parser tbl forced pubid pubidx tb len cs version r3 Hn Ho); reflexivity.

  - cbv zeta. revert Hc. destruct (version =? 0).
    2: destruct (Parser.parse_charset meta r1) as [[c0 r2']| |].
    all: intros Hc; try discriminate; now injection Hc as <-.
Qed.

(* ---- (6b) Spec.v (C04 specification, strict decoder): lang_of_pub  =  LangSelect.check_public_id without forcing *)

Lemma ci_eqb_parser : forall a b, Spec.ci_eqb a b = Parser.strcaseeq a b.
Proof.
  unfold Parser.strcaseeq. induction a as [|x a IH]; intros [|y b]; try reflexivity.
  cbn [Spec.ci_eqb map Parser.bytes_eqb]. now rewrite IH.
Qed.

Lemma cstr_at_app_nul : forall a z, LangSelect.cstr_at (a ++ 0 :: z) = LangSelect.cstr_at a.
Proof.
  induction a as [|b a IH]; intros z; [reflexivity|]. cbn [app LangSelect.cstr_at]. destruct (b =? 0); [reflexivity|]. now rewrite IH.
Qed.

Lemma until_nul_cstr_at : forall l, Spec.until_nul l = LangSelect.cstr_at l.
Proof. reflexivity. Qed.

Lemma until_nul_octets : forall l, Forall (fun b => b < 256) l -> Forall (fun b => b < 256) (Spec.until_nul l).
Proof.
  induction l as [|b l IH]; intros H; [constructor|]. inversion H; subst. cbn [Spec.until_nul].
  destruct (b =? 0); constructor; auto.
Qed.

(* tb = the string table as the document declares it; the parser's copy is `padded tb`; its declared length is |tb| *)
Definition padded (tb : list N) : option (list N) :=
  match tb with [] => None | _ => Some (if last tb 1 =? 0 then tb else tb ++ [0; 0; 0; 0]) end.

Lemma padded_nonempty : forall tb, tb <> [] -> padded tb = Some (if last tb 1 =? 0 then tb else tb ++ [0; 0; 0; 0]).
Proof. intros [|x tb] H; [congruence | reflexivity]. Qed.

(* the Nokia workaround of get_strtbl_reference delivers "xmlns" for index 0 of a document without string table; no
   language is registered under that name (a fact of the regenerated main table, Properties_X_tables.v) *)
Definition no_xmlns_id (tbl : list lang) : Prop := find (LangSelect.has_pub_text_ci "xmlns") tbl = None.

Theorem lang_of_pub_spec : forall tbl tb p version cs body,
  Forall (fun b => b < 256) tb ->
  (cs =? LangSelect.CHARSET_UTF_8) || (cs =? LangSelect.CHARSET_US_ASCII) = true ->
  no_xmlns_id tbl ->
  match p with Spec.PubNum n => n <> 0 /\ n < 4294967296 | Spec.PubIdx i => i < 4294967296 end ->
  Spec.lang_of_pub tbl tb p =
  LangSelect.check_public_id tbl LangSelect.WBXML_LANG_UNKNOWN
    (LangSelect.mk_header version
       (match p with Spec.PubNum n => n | Spec.PubIdx _ => LangSelect.WBXML_PUBLIC_ID_UNKNOWN end)
       (match p with Spec.PubNum _ => LangSelect.NO_INDEX | Spec.PubIdx i => i end)
       cs (padded tb) (Parser.blen tb) body).
Proof.
  intros tbl tb p version cs body Htb Hcs Hx Hp.
  unfold Spec.lang_of_pub, LangSelect.check_public_id.
  cbn [LangSelect.h_public_id LangSelect.h_public_id_index].
  replace (LangSelect.WBXML_LANG_UNKNOWN =? LangSelect.WBXML_LANG_UNKNOWN) with true by reflexivity. cbn [andb].
  destruct p as [n|i].
  - destruct Hp as [Hn0 Hn32]. unfold Spec.u32_okb.
    replace (n <? 4294967296) with true by (symmetry; apply N.ltb_lt; assumption).
    replace (n =? 0) with false by (symmetry; apply N.eqb_neq; assumption). cbn [negb orb].
    replace (LangSelect.NO_INDEX =? LangSelect.NO_INDEX) with true by reflexivity.
    change LangSelect.WBXML_PUBLIC_ID_UNKNOWN with 1.
    destruct (n =? 1); cbn [orb andb]; [reflexivity|].
    destruct (LangSelect.scan_idx (fun l => l_pub_num l =? n) tbl 0) as [r2 i2] eqn:E.
    assert (r2 = find (fun l => l_pub_num l =? n) tbl) as ->.
    { rewrite <- (LangSelectProofs.scan_idx_0 (fun l => l_pub_num l =? n) tbl). now rewrite E. }
    destruct (find (fun l => l_pub_num l =? n) tbl); reflexivity.
  - unfold Spec.u32_okb. replace (i <? 4294967296) with true by (symmetry; apply N.ltb_lt; assumption). cbn [andb].
    replace (LangSelect.WBXML_PUBLIC_ID_UNKNOWN =? LangSelect.WBXML_PUBLIC_ID_UNKNOWN) with true by reflexivity.
    change 4294967295 with LangSelect.NO_INDEX.
    destruct (i =? LangSelect.NO_INDEX) eqn:Ei; cbn [negb andb]; [reflexivity|].
    unfold LangSelect.strtbl_ref. cbn [LangSelect.h_strtbl LangSelect.h_strtbl_len LangSelect.h_charset].
    unfold Spec.str_at.
    destruct (list_eq_dec N.eq_dec tb []) as [->|Hne].
    + (* no string table *)
      cbn [padded Parser.blen List.length N.of_nat]. replace (i <? 0) with false by (symmetry; apply N.ltb_ge; lia).
      destruct (i =? 0); [|reflexivity]. rewrite LangSelectProofs.scan_idx_0. symmetry. exact Hx.
    + rewrite (padded_nonempty tb Hne).
      rewrite N.leb_antisym. destruct (i <? Parser.blen tb) eqn:El; cbn [negb]; [|reflexivity].
      rewrite Hcs. apply N.ltb_lt in El. unfold Parser.blen in El.
      assert (Hskip : LangSelect.cstr_at (skipn (N.to_nat i) (if last tb 1 =? 0 then tb else tb ++ [0; 0; 0; 0])) =
                      Spec.until_nul (Parser.drop i tb)).
      { unfold Parser.drop. change Spec.until_nul with LangSelect.cstr_at. destruct (last tb 1 =? 0); [reflexivity|].
        rewrite skipn_app. replace (N.to_nat i - List.length tb)%nat with 0%nat by lia. cbn [skipn].
        apply cstr_at_app_nul. }
      rewrite Hskip. rewrite LangSelectProofs.scan_idx_0.
      assert (Hs : Forall (fun b => b < 256) (Spec.until_nul (Parser.drop i tb))).
      { apply until_nul_octets. unfold Parser.drop. apply Forall_forall. intros x Hxin.
        apply (proj1 (Forall_forall _ _) Htb). eapply LangSelectProofs.in_skipn; eassumption. }
      apply find_ext_fun. intros l. unfold LangSelect.has_pub_text_ci. destruct (l_pub_text l) as [t|]; [|reflexivity].
      rewrite ci_eqb_parser. unfold Parser.B. fold (bos t).
      rewrite <- (bos_string_of_bytes _ Hs) at 1. apply strcaseeq_bos.
Qed.

(* ---- (6c) XmlFront.v (XML front end): DOCTYPE, then root element  =  LangSelect.xml_select *)

(* the DOCTYPE callback: wbxml_tables_search_table(main, pubid, sysid, NULL) *)
Lemma xmlfront_doctype_lang : forall main c sysid pubid, XmlFront.c_lang c = None ->
  XmlFront.c_lang (XmlFront.on_start_doctype main c sysid pubid) =
  LangSelect.search_table main (option_map XmlFront.str pubid) (option_map XmlFront.str sysid) None.
Proof.
  intros main c sysid pubid Hc. unfold XmlFront.on_start_doctype.
  destruct (LangSelect.search_table main (option_map XmlFront.str pubid) (option_map XmlFront.str sysid) None); [reflexivity | exact Hc].
Qed.

(* the start-element callback of the root (no open node, no error, nothing skipped) when the DOCTYPE found nothing:
   wbxml_tables_search_table(main, NULL, NULL, localName); nothing found = WBXML_ERROR_UNKNOWN_XML_LANGUAGE *)
Lemma xmlfront_root_lang : forall main c name attrs idx,
  XmlFront.c_lang c = None -> XmlFront.c_spine c = [] -> XmlFront.c_error c = XmlFront.WBXML_OK -> XmlFront.c_skip_lvl c = 0 ->
  match LangSelect.search_table main None None (Some (XmlFront.str name)) with
  | None => XmlFront.c_error (XmlFront.on_start_element main c name attrs idx) = XmlFront.E_UNKNOWN_XML_LANGUAGE
  | Some l => XmlFront.c_lang (XmlFront.on_start_element main c name attrs idx) = Some l
  end.
Proof.
  intros main c name attrs idx Hl Hs He Hk.
  destruct c as [cl cc cp cr cs ce ck cst]. cbn in Hl, Hs, He, Hk. subst cl cs ce ck.
  unfold XmlFront.on_start_element.
  cbn [XmlFront.c_error XmlFront.c_skip_lvl XmlFront.c_spine XmlFront.c_lang].
  replace (negb (XmlFront.WBXML_OK =? XmlFront.WBXML_OK)) with false by reflexivity.
  replace (0 <? 0) with false by reflexivity. cbv iota.
  destruct (LangSelect.search_table main None None (Some (XmlFront.str name))) as [l|]; [|reflexivity].
  unfold XmlFront.set_lang.
  cbn [XmlFront.c_error XmlFront.c_skip_lvl XmlFront.c_spine XmlFront.c_lang XmlFront.c_charset XmlFront.c_page XmlFront.c_root XmlFront.c_skip_start].
  replace (negb (XmlFront.WBXML_OK =? XmlFront.WBXML_OK)) with false by reflexivity. cbv iota.
  rewrite andb_false_r.
  unfold XmlFront.flush_binary, XmlFront.start_child.
  cbn [XmlFront.c_error XmlFront.c_skip_lvl XmlFront.c_spine XmlFront.c_lang XmlFront.c_charset XmlFront.c_page XmlFront.c_root XmlFront.c_skip_start].
  replace (negb (XmlFront.WBXML_OK =? XmlFront.WBXML_OK)) with false by reflexivity. cbv iota.
  destruct (XmlFront.WBXML_MAX_NESTING_DEPTH <=? N.of_nat (List.length (@nil XmlFront.frame))); [reflexivity|].
  destruct (XmlFront.resolve_tag l name) as [tag page].
  unfold XmlFront.push_frame, XmlFront.set_page.
  cbn [XmlFront.c_error XmlFront.c_skip_lvl XmlFront.c_spine XmlFront.c_lang XmlFront.c_charset XmlFront.c_page XmlFront.c_root XmlFront.c_skip_start].
  destruct cr; reflexivity.
Qed.

Theorem xmlfront_language_is_xml_select : forall main c sysid pubid name,
  XmlFront.c_lang c = None ->
  match XmlFront.c_lang (XmlFront.on_start_doctype main c sysid pubid) with
  | Some l => Some l
  | None => LangSelect.search_table main None None (Some (XmlFront.str name))
  end = LangSelect.xml_select main (option_map XmlFront.str pubid) (option_map XmlFront.str sysid) (XmlFront.str name).
Proof. intros. rewrite xmlfront_doctype_lang by assumption. reflexivity. Qed.

(* ---- (6d) EncWbxml.v (C06): the public identifier wbxml_fill_header writes  =  LangSelect.header_pubid *)

(* the two decisions of fill_header, extracted: numeric id written, and the id string put into the string table *)
Definition enc_pubid_choice (e : EncWbxml.env) : N * option (list N) :=
  (EncWbxml.header_public_id e,
   if (EncWbxml.header_public_id e =? 1) && negb (EncWbxml.e_anonymous e)
   then EncWbxml.bl_pub_text (EncWbxml.e_lang e) else None).

Theorem fill_header_pubid_is_header_pubid : forall l e,
  EncWbxml.e_lang e = blang_of_lang l ->
  enc_pubid_choice e =
  match LangSelect.header_pubid l (EncWbxml.e_anonymous e) false with
  | LangSelect.PubNum n => (n, None)
  | LangSelect.PubIdx s => (1, Some (bos s))
  end.
Proof.
  intros l e He. unfold enc_pubid_choice, EncWbxml.header_public_id, LangSelect.header_pubid. rewrite He.
  change (EncWbxml.bl_pub_num (blang_of_lang l)) with (l_pub_num l).
  change (EncWbxml.bl_pub_text (blang_of_lang l)) with (obos (l_pub_text l)).
  change LangSelect.WBXML_PUBLIC_ID_UNKNOWN with 1.
  destruct (EncWbxml.e_anonymous e); cbn [negb andb orb]; [rewrite andb_false_r; reflexivity|].
  rewrite andb_true_r. destruct (l_pub_num l =? 1) eqn:E; [|reflexivity].
  apply N.eqb_eq in E. rewrite E. destruct (l_pub_text l); reflexivity.
Qed.

(* and fill_header writes exactly that choice: mb_u_int32 of the numeric id, or 00 + the index of the id string *)
Theorem fill_header_writes_choice : forall e st,
  exists idx tlen tail,
    EncWbxml.fill_header e st =
    [u8 (EncWbxml.e_version e)] ++
    (match snd (enc_pubid_choice e) with Some _ => [0] ++ mb_write idx | None => mb_write (fst (enc_pubid_choice e)) end) ++
    EncWbxml.header_charset e ++ mb_write tlen ++ tail /\
    (EncWbxml.e_use_strtbl e = false ->
     match snd (enc_pubid_choice e) with Some p => idx = 0 /\ tail = p ++ [0] | None => tail = [] end).
Proof.
  intros e st. unfold EncWbxml.fill_header, enc_pubid_choice. cbn [fst snd].
  destruct ((EncWbxml.header_public_id e =? 1) && negb (EncWbxml.e_anonymous e)).
  - destruct (EncWbxml.bl_pub_text (EncWbxml.e_lang e)) as [p|].
    + destruct (EncWbxml.e_use_strtbl e).
      * destruct (EncWbxml.strtbl_add (EncWbxml.strtbl st) (EncWbxml.strtbl_len st) p) as [[idx tbl] tlen].
        exists idx, tlen, (EncWbxml.strtbl_construct tbl). split; [reflexivity | discriminate].
      * exists 0, (u32 (EncWbxml.len p + 1)), (p ++ [0]). split; [reflexivity | auto].
    + exists 0, (EncWbxml.strtbl_len st), (if EncWbxml.e_use_strtbl e then EncWbxml.strtbl_construct (EncWbxml.strtbl st) else []).
      split; [reflexivity|]. intros ->. reflexivity.
  - exists 0, (EncWbxml.strtbl_len st), (if EncWbxml.e_use_strtbl e then EncWbxml.strtbl_construct (EncWbxml.strtbl st) else []).
    split; [reflexivity|]. intros ->. reflexivity.
Qed.

(* ================================================================== facts over the regenerated main table *)

Lemma main_no_xmlns_id : no_xmlns_id Gen.TablesData.main_table.
Proof. vm_compute. reflexivity. Qed.

(* every numeric public id of the table is a proper mb_u_int32 other than 0 (so Spec.v's side conditions on PubNum hold
   for every identifier a language can be selected by) *)
Lemma main_pubnums_proper :
  forallb (fun l => negb (l_pub_num l =? 0) && (l_pub_num l <? 4294967296)) Gen.TablesData.main_table = true.
Proof. vm_compute. reflexivity. Qed.

(* XmlFront.resolve_attr is wbxml_tables_get_attr_from_xml of Tables.v on the converted strings, by definition *)
Theorem resolve_attr_xmlfront : forall l name value,
  XmlFront.resolve_attr l (name, value) =
  match fst (attr_from_xml l (XmlFront.str name) (Some (XmlFront.str value))) with
  | Some row => EncWbxml.mk_at (EncWbxml.AttrTok (a_page row) (a_tok row) (bos (a_name row)) (option_map bos (a_value row))) value
  | None => EncWbxml.mk_at (EncWbxml.AttrLit name) value
  end.
Proof. reflexivity. Qed.
