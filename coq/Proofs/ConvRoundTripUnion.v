(* C03 — XML -> WBXML -> XML at the level of the two conversion models on the UNION fragment of the WBXML encoder (every
   language class, typed content in canonical form, binary content, CDATA sections, embedded trees), for documents without an
   element named Data; the language of the second conversion is forced (the union theorem gives the abstract document
   existentially). *)
From Coq Require Import String Ascii.
From Coq Require Import List NArith ZArith Lia Bool.
From Wbxml Require Import Model.Codec Model.TablesDefs Model.Parser Model.Spec Model.TreeBuild Model.TreeConv Model.Conv Model.ConvConcrete
     Proofs.TreeBuildProofs Proofs.TreeBuildProofs2 Proofs.TreeBuildProofs3 Proofs.TreeRoundTrip Proofs.TreeRoundTripWide Proofs.TreeRoundTripUnion
     Proofs.ConvRoundTrip.
From Wbxml Require Model.EncWbxml Model.TreeNorm Proofs.EncWbxmlProofs Proofs.EncWbxmlAbs Proofs.EncWbxmlAbs5 Proofs.EncWbxmlDenote2
     Proofs.EncWbxmlTblOk Proofs.EncWbxmlDenote5 Proofs.EncWbxmlDenote6 Proofs.EncWbxmlClass6 Proofs.EncWbxmlUnion.
From Wbxml Require Model.EncXml Model.XmlRead Proofs.EncXmlProofs Proofs.EncXmlIndent.
From Wbxml Require Model.XmlFront Model.ConvXml2Wbxml.
Import ListNotations.
Local Open Scope N_scope.

Lemma texts_tsimple evs : forallb is_nechars evs = true -> forallb tsimple (texts_of evs) = true.
Proof.
  induction evs as [|x r IH]; [reflexivity|]. cbn [forallb]. intros H. apply andb_true_iff in H. destruct H as [Hx Hr].
  destruct x as [| |b| | |]; try discriminate. destruct b; [discriminate|]. cbn [texts_of flat_map app forallb tsimple]. exact (IH Hr).
Qed.

Lemma tnu_tsimple acan tev sy edoc wa : (forall f p c, forallb is_nechars (tev f p c) = true) ->
  forall n first par, forallb tsimple (tnu acan tev sy edoc wa first par n) = true.
Proof.
  intros Htev. fix IH 1. intros n first par. destruct n as [tag attrs ch|c|ch| |lid roots]; cbn [tnu].
  - cbn [forallb tsimple]. rewrite andb_true_r. apply merge_text_tsimple.
    assert (G : forall f, forallb tsimple ((fix go (f : bool) (l : list E.node) : list tnode :=
                                              match l with [] => [] | x :: r => tnu acan tev sy edoc wa f (Some tag) x ++ go false r end) f ch) = true).
    { induction ch as [|x r IHr]; intros f; [reflexivity|]. rewrite forallb_app, (IH x f (Some tag)), (IHr false). reflexivity. }
    apply G.
  - apply texts_tsimple. apply Htev.
  - apply texts_tsimple. apply nechars_chars.
  - reflexivity.
  - apply texts_tsimple. apply nechars_chars.
Qed.

Section ComposeU.
Variables (main TBL : list lang) (btbl : list E.blang) (sub : E.bytes -> XF.xtree + N).

Theorem conversion_roundtrip_union evs expat_ok o doc w (L : lang) tag attrs ch o' :
  let e := E.enc_env (D2.to_blang L) o in
  let root := E.NElt tag attrs ch in
  r_out (CX.xml2wbxml_events main btbl sub evs expat_ok o doc) = Some w -> E.len w < 4294967296 ->
  (forall t0, XF.tree_from_xml main sub doc evs expat_ok = inl t0 ->
     E.find_lang btbl (XF.xt_lang t0) = Some (D2.to_blang L) /\ XF.xt_roots t0 = [root]) ->
  D2.vals_ok L = true -> UN.side_u L = true -> Proofs.EncWbxmlAbs5.tag_tbl_ok e = true ->
  D6.tree_ok6 L (UN.aok_u L) (UN.tok_u L (E.o_keep_ws o)) (UN.cok_plain L) (UN.eok_plain btbl e L) (E.is_syncml (E.e_lang e)) 0 true None root = true ->
  find (fun x => l_id x =? l_id L) TBL = Some L ->
  wo_lang o' = l_id L -> l_id L <> 0 -> wo_charset o' = 0 ->
  E.o_version o < 4 -> E.header_public_id e < 4294967296 -> E.header_public_id e <> 0 ->
  (match Proofs.EncWbxmlAbs.header_pid e with Some p => D2.okb p = true | None => True end) ->
  no_data (C6.doc_events6 btbl L e (UN.acan_u L) (UN.tev_u L e (E.o_keep_ws o)) root) = true ->
  let xl := X.xlang_of L in
  let xo := X.opts_of_params (gen_of (wo_gen o')) (wo_indent o') (wo_keep_ws o') in
  exists tg at' kids x,
    tn_union btbl L o root = [TElt tg at' kids] /\
    wbxml2xml_model TBL o' w = mk_res ST_OK (Some (x ++ [0])) (N.of_nat (length x)) /\
    X.enc_xml_opts xl xo [to_xnode TBL L (TElt tg at' kids)] = X.XOk x /\
    (Proofs.EncXmlProofs.lang_ok xl = true ->
     Proofs.EncXmlIndent.node_ok_g xl xo X.proot None (to_xnode TBL L (TElt tg at' kids)) = true ->
     exists c s',
       Proofs.EncXmlIndent.info_g xl xo X.proot (X.est0 0) (to_xnode TBL L (TElt tg at' kids))
         = Some ([XmlRead.XT []; XmlRead.XE (X.tname_bytes (to_tname L tg))
                                             (Proofs.EncXmlProofs.spec_attrs xl xo X.proot (to_tname L tg) (map to_attr at')) c;
                  XmlRead.XT (X.nl_if xo)], s') /\
       forall fuel, (Proofs.EncXmlProofs.node_fuel (to_xnode TBL L (TElt tg at' kids)) + 2 <= fuel)%nat ->
         XmlRead.read_xml fuel x =
         XmlRead.ROk (Proofs.EncXmlProofs.doc_of xl
                        [XmlRead.XE (X.tname_bytes (to_tname L tg))
                                    (Proofs.EncXmlProofs.spec_attrs xl xo X.proot (to_tname L tg) (map to_attr at')) c])).
Proof.
  cbv zeta. intros H1 Hlen Hfront HV HSD HTB HT HFind Hforced Hid Hcs Hv Hp1 Hp0 Hpid Hnd.
  set (e := E.enc_env (D2.to_blang L) o) in *.
  set (xl := X.xlang_of L). set (xo := X.opts_of_params (gen_of (wo_gen o')) (wo_indent o') (wo_keep_ws o')).
  (* the first conversion *)
  unfold CX.xml2wbxml_events, conv_run in H1. destruct doc as [|d0 dr]; [discriminate|].
  destruct (XF.tree_from_xml main sub (d0 :: dr) evs expat_ok) as [t0|er] eqn:Et; [|discriminate].
  destruct (Hfront t0 eq_refl) as [Hl Hroots].
  unfold CX.encode_tree in H1. rewrite Hl, Hroots in H1.
  destruct (E.enc_wbxml btbl (D2.to_blang L) o [E.NElt tag attrs ch]) as [bs|ee] eqn:He; [|discriminate].
  cbn [r_out] in H1. assert (Hw : bs = w) by congruence. subst bs. clear H1.
  (* the second conversion *)
  pose proof (roundtrip_union btbl TBL L o tag attrs ch w HV HSD HTB HT HFind Hid Hv Hp1 Hp0 Hpid Hlen He Hnd MAX_EMBEDDED_DEPTH) as Htree.
  assert (Hshape : exists tg at' kids, tn_union btbl L o (E.NElt tag attrs ch) = [TElt tg at' kids]) by (unfold tn_union; cbn [tnu]; do 3 eexists; reflexivity).
  destruct Hshape as (tg & at' & kids & Hshape). rewrite Hshape in Htree. cbn [hd_error] in Htree.
  exists tg, at', kids.
  assert (Hts : tsimple (TElt tg at' kids) = true).
  { pose proof (tnu_tsimple (UN.acan_u L) (UN.tev_u L e (E.o_keep_ws o)) (E.is_syncml (E.e_lang e)) (D6.emb_doc btbl e) (E.has_attr_table e)
                            (fun f p c => tev_u_nechars L e (E.o_keep_ws o) f p c) (E.NElt tag attrs ch) true None) as H.
    unfold tn_union in Hshape. fold e in Hshape. rewrite Hshape in H. cbn [forallb] in H. rewrite andb_true_r in H. exact H. }
  assert (Hs : simple (to_xnode TBL L (TElt tg at' kids)) = true) by (apply to_xnode_simple; exact Hts).
  destruct (enc_xml_simple_ok xl (gen_of (wo_gen o')) (wo_indent o') (wo_keep_ws o') [to_xnode TBL L (TElt tg at' kids)]) as [x Hx];
    [cbn [forallb]; rewrite Hs; reflexivity|].
  exists x. split; [exact Hshape|]. split; [|split; [exact Hx|]].
  - unfold wbxml2xml_model, conv_run. destruct w as [|w0 wr].
    { exfalso. clear -Htree. unfold tree_from_wbxml in Htree. vm_compute in Htree. discriminate. }
    unfold w2x_tree_from_doc, wbxml_tree_from_wbxml. rewrite Hcs, Hforced, Htree.
    unfold w2x_encode, to_xroots. cbn [wt_lang wt_root]. unfold TreeConv.find_lang. rewrite HFind.
    fold xl.
    match goal with |- context [X.enc_xml ?a ?b ?c ?d ?r] =>
      change (X.enc_xml a b c d r) with (X.enc_xml xl (gen_of (wo_gen o')) (wo_indent o') (wo_keep_ws o') [to_xnode TBL L (TElt tg at' kids)]) end.
    rewrite Hx. reflexivity.
  - intros Hlok Hok. cbn [to_xnode] in *.
    exact (Proofs.EncXmlIndent.read_enc_g xl xo (to_tname L tg) (map to_attr at') _ x Hlok Hok Hx).
Qed.
End ComposeU.
