(* C03 — XML -> WBXML -> XML at the level of the two conversion models:
     ConvXml2Wbxml.xml2wbxml_events (XML front end on Expat's events + WBXML encoder)  and
     ConvConcrete.wbxml2xml_model   (WBXML parser + tree builder + XML generator),
   for front-end trees in the fragment of Proofs/EncWbxmlSerialize.v (the fragment of C03b_roundtrip_fragment_partial). *)
From Coq Require Import String Ascii.
From Coq Require Import List NArith ZArith Lia Bool.
From Wbxml Require Import Model.Codec Model.TablesDefs Model.Parser Model.Spec Model.TreeBuild Model.TreeConv Model.Conv Model.ConvConcrete
     Proofs.ParserProofsBase Proofs.ParserProofsStr Proofs.ParserProofsDoc Proofs.ParserProofsTyped Proofs.ParserProofsWv
     Proofs.TreeBuildProofs Proofs.TreeBuildProofs2 Proofs.TreeBuildProofs3 Proofs.TreeRoundTrip.
From Wbxml Require Model.EncWbxml Model.TreeNorm Proofs.EncWbxmlProofs Proofs.EncWbxmlSerialize Proofs.EncWbxmlDenote.
From Wbxml Require Model.EncXml Model.XmlRead Proofs.EncXmlProofs Proofs.EncXmlIndent.
From Wbxml Require Model.XmlFront Model.ConvXml2Wbxml.
Import ListNotations.
Local Open Scope N_scope.

Module E := Wbxml.Model.EncWbxml.
Module D := Wbxml.Proofs.EncWbxmlDenote.
Module SZ := Wbxml.Proofs.EncWbxmlSerialize.
Module X := Wbxml.Model.EncXml.
Module XF := Wbxml.Model.XmlFront.
Module CX := Wbxml.Model.ConvXml2Wbxml.

(* ---- (A) the language of the encoder's document without forcing it: found by its public identifier ---- *)
Lemma denote_unforced tbl L d evs :
  lang_of_pub tbl (wd_strtbl d) (wd_pub d) = Some L -> denote_with tbl (Some L) d = Some evs -> denote tbl d = Some evs.
Proof. unfold denote, denote_with. intros H. rewrite H. exact (fun x => x). Qed.

(* how the second conversion is told the language: forced to the language's id, or not at all (then the public
   identifier the encoder wrote must select it in the table) *)
Definition lang_choice (TBL : list lang) (L : lang) (pid forced : N) : Prop :=
  (forced = l_id L /\ l_id L <> 0) \/
  (forced = 0 /\ pid <> 1 /\ find (fun l => l_pub_num l =? pid) TBL = Some L).

Theorem roundtrip_fragment_choice tblb TBL L l o p t opts nm ch forced :
  SZ.frag_lang l = true -> E.o_use_strtbl o = false -> Proofs.EncWbxmlProofs.no_pid (E.enc_env l o) = true ->
  SZ.frag_node (E.NElt (E.TagTok p t opts nm) [] ch) = true ->
  find (fun x => l_id x =? l_id L) TBL = Some L ->
  lang_choice TBL L (E.header_public_id (E.enc_env l o)) forced ->
  D.tree_ok L 0 (E.NElt (E.TagTok p t opts nm) [] ch) = true ->
  E.o_version o < 4 -> E.header_public_id (E.enc_env l o) < 4294967296 -> E.header_public_id (E.enc_env l o) <> 0 ->
  no_data (flat_map D.events_node (TreeNorm.norm (E.o_keep_ws o) [E.NElt (E.TagTok p t opts nm) [] ch])) = true ->
  exists bs, E.enc_wbxml tblb l o [E.NElt (E.TagTok p t opts nm) [] ch] = E.EOk bs /\ bs <> [] /\
    forall ef, tree_from_wbxml TBL forced 0 ef bs
               = BOk (mk_wtree (l_id L) 106 (hd_error (flat_map tn (TreeNorm.norm (E.o_keep_ws o) [E.NElt (E.TagTok p t opts nm) [] ch])))).
Proof.
  intros HL HU HP HF HFind Hch HT Hv H1 H0 Hnd.
  destruct (SZ.enc_wbxml_is_serialize tblb l o p t opts nm ch HL HU HP HF) as [He _].
  pose proof (D.abs_doc_denotes TBL L l o p t opts nm ch HF HT Hv H1 H0) as Hden.
  set (d := SZ.abs_doc l o (E.NElt (E.TagTok p t opts nm) [] ch)) in *.
  exists (serialize d). split; [exact He|]. split; [unfold serialize, ser_header; cbn [app]; discriminate|].
  intros ef.
  assert (Hp : parse_with TBL forced 0 (S (length (serialize d))) (serialize d)
               = POk (EvStartDoc 106 (l_id L) :: flat_map D.events_node (TreeNorm.norm (E.o_keep_ws o) [E.NElt (E.TagTok p t opts nm) [] ch]) ++ [EvEndDoc])).
  { destruct Hch as [[-> Hid] | [-> [Hp1 Hfp]]].
    - apply (parse_denote_with TBL (fun l0 _ _ => typed_wv_agree_proved) typed_datetime_agree_proved (l_id L) (Some L) d); [|exact Hden].
      split; [reflexivity|]. split; [exact Hid|exact HFind].
    - apply (parse_denote TBL (fun l0 _ _ => typed_wv_agree_proved) typed_datetime_agree_proved d).
      apply (denote_unforced TBL L d); [|exact Hden].
      subst d. unfold SZ.abs_doc. cbv zeta. cbn [wd_strtbl wd_pub]. unfold lang_of_pub.
      replace (E.header_public_id (E.enc_env l o) =? 1) with false by (symmetry; apply N.eqb_neq; exact Hp1).
      replace (u32_okb (E.header_public_id (E.enc_env l o))) with true by (symmetry; unfold u32_okb; apply N.ltb_lt; exact H1).
      replace (E.header_public_id (E.enc_env l o) =? 0) with false by (symmetry; apply N.eqb_neq; exact H0).
      cbn [negb orb]. exact Hfp. }
  unfold tree_from_wbxml. rewrite Hp.
  revert Hnd. unfold TreeNorm.norm. cbn [flat_map TreeNorm.norm_node D.events_node tn app]. rewrite !app_nil_r. intros Hnd.
  set (inner := flat_map D.events_node (flat_map (TreeNorm.norm_node (E.o_keep_ws o) false) ch)) in *.
  cbn [hd_error].
  assert (Ht : not_data (TagTok p t nm) = true /\ no_data inner = true).
  { unfold no_data in Hnd. cbn [forallb] in Hnd. rewrite forallb_app in Hnd. rewrite !andb_true_iff in Hnd. unfold no_data. tauto. }
  destruct Ht as [Ht Hni].
  pose proof (build_of_shape TBL ef 106 (l_id L) [] (TagTok p t nm) [] inner [] _ eq_refl eq_refl
               (spec_forest_list (flat_map (TreeNorm.norm_node (E.o_keep_ws o) false) ch)) Ht Hni) as Hb.
  cbn [app] in Hb. rewrite app_nil_r in Hb. exact Hb.
Qed.

(* ---- (B) the XML generator accepts every tree of elements and non-empty texts ---- *)
Fixpoint simple (n : X.node) : bool :=
  match n with
  | X.Elt _ _ ch => forallb simple ch
  | X.Text s => match s with [] => false | _ => true end
  | _ => false
  end.

Lemma b64_enc_some s : s <> [] -> exists e, b64_enc s = Some e.
Proof. unfold b64_enc. destruct s; [congruence|]. intros _. eexists. reflexivity. Qed.

Lemma rewrite_nonempty l t s : s <> [] -> X.syncml_type_rewrite l t s <> [].
Proof.
  intros Hs. unfold X.syncml_type_rewrite.
  set (tmp1 := if X.is_syncml l && X.tag_is_type t && X.bytes_eqb s X.s_devinf_wbxml then X.s_devinf_xml else s).
  assert (H1 : tmp1 <> []). { subst tmp1. match goal with |- (if ?c then _ else _) <> _ => destruct c end; [unfold X.s_devinf_xml; discriminate|exact Hs]. }
  match goal with |- (if ?c then _ else _) <> _ => destruct c end; [unfold X.s_dmtnds_xml; discriminate|exact H1].
Qed.

Lemma text_simple_ok l o parent s c : c <> [] -> exists b s', X.parse_text l o parent s c = X.XOk (b, s').
Proof.
  intros Hc. unfold X.parse_text, X.text_policy.
  destruct (negb (X.e_in_cdata s) && negb (X.tag_is_binary (X.text_tag s parent)) && negb (X.is_canonical o)) eqn:Ep.
  - apply andb_prop in Ep. destruct Ep as [Ep _]. apply andb_prop in Ep. destruct Ep as [Ec Eb].
    apply negb_true_iff in Ec. apply negb_true_iff in Eb.
    destruct (X.o_ignore_empty o && X.only_ws c); [eexists; eexists; reflexivity|].
    unfold X.xml_encode_text. rewrite Ec, Eb. eexists. eexists. reflexivity.
  - unfold X.xml_encode_text. destruct (X.e_in_cdata s); [eexists; eexists; reflexivity|].
    destruct (X.tag_is_binary (X.text_tag s parent)); [|eexists; eexists; reflexivity].
    destruct (b64_enc_some _ (rewrite_nonempty l (X.e_cur_tag s) c Hc)) as [e ->]. eexists. eexists. reflexivity.
Qed.

Lemma seq_simple_ok (f : X.est -> X.node -> X.xres (X.bytes * X.est)) ns :
  Forall (fun n => forall s, exists b s', f s n = X.XOk (b, s')) ns -> forall s, exists b s', X.seq_nodes f ns s = X.XOk (b, s').
Proof.
  induction 1 as [|n r Hn _ IH]; intros s; cbn [X.seq_nodes]; [eexists; eexists; reflexivity|].
  destruct (Hn s) as (b1 & s1 & ->). destruct (IH (X.reset_cur s1)) as (b2 & s2 & ->). eexists. eexists. reflexivity.
Qed.

Lemma enc_node_simple_ok o : forall n l parent s, simple n = true -> exists b s', X.enc_node l o parent s n = X.XOk (b, s').
Proof.
  fix IH 1. intros n l parent s Hn. destruct n as [nm attrs ch|c|ch| |sl roots]; cbn [simple] in Hn; try discriminate.
  - cbn [X.enc_node]. destruct (X.xml_encode_tag l o parent nm s) as [b1 s1]. destruct (X.xml_encode_end_attrs o ch s1) as [b3 s3].
    destruct ch as [|c0 cr]; [eexists; eexists; reflexivity|].
    assert (HF : Forall (fun n => forall s, exists b s', X.enc_node l o (X.pinfo_below parent nm) s n = X.XOk (b, s')) (c0 :: cr)).
    { revert Hn. generalize (c0 :: cr) as ch. induction ch as [|x r IHr]; intros Hx; constructor.
      - intros s0. apply IH. cbn [forallb] in Hx. apply andb_prop in Hx. tauto.
      - apply IHr. cbn [forallb] in Hx. apply andb_prop in Hx. tauto. }
    destruct (seq_simple_ok _ _ HF s3) as (b4 & s4 & ->).
    destruct (X.xml_encode_end_tag o nm (c0 :: cr) s4) as [b5 s5]. eexists. eexists. reflexivity.
  - cbn [X.enc_node]. apply text_simple_ok. destruct c; [discriminate|discriminate].
Qed.

Lemma enc_xml_simple_ok l g indent keep roots : forallb simple roots = true -> exists out, X.enc_xml l g indent keep roots = X.XOk out.
Proof.
  intros H. unfold X.enc_xml, X.enc_xml_opts, X.enc_nodes.
  assert (HF : Forall (fun n => forall s, exists b s', X.enc_node l (X.opts_of_params g indent keep) X.proot s n = X.XOk (b, s')) roots).
  { induction roots as [|x r IHr]; constructor.
    - intros s0. apply enc_node_simple_ok. cbn [forallb] in H. apply andb_prop in H. tauto.
    - apply IHr. cbn [forallb] in H. apply andb_prop in H. tauto. }
  destruct (seq_simple_ok _ _ HF (X.est0 0)) as (b & s & ->). eexists. reflexivity.
Qed.

(* the trees tn produces are such trees *)
Fixpoint tsimple (n : tnode) : bool :=
  match n with
  | TElt _ _ ch => forallb tsimple ch
  | TText s => match s with [] => false | _ => true end
  | _ => false
  end.

Lemma add_node_tsimple l n : forallb tsimple l = true -> tsimple n = true -> forallb tsimple (add_node l n) = true.
Proof.
  induction l as [|x r IH]; intros Hl Hn; [cbn; rewrite Hn; reflexivity|].
  destruct r as [|y r'].
  - cbn [forallb] in Hl. rewrite andb_true_r in Hl.
    destruct x, n; cbn [add_node forallb]; rewrite ?Hl, ?Hn; try reflexivity.
    cbn [tsimple] in *. destruct b; [discriminate|reflexivity].
  - change (add_node (x :: y :: r') n) with (x :: add_node (y :: r') n).
    cbn [forallb] in Hl |- *. apply andb_prop in Hl. destruct Hl as [Hx Hr]. rewrite Hx. cbn [andb]. apply IH; [exact Hr|exact Hn].
Qed.

Lemma merge_text_tsimple l : forallb tsimple l = true -> forallb tsimple (merge_text l) = true.
Proof.
  unfold merge_text. assert (G : forall acc, forallb tsimple acc = true -> forallb tsimple l = true -> forallb tsimple (fold_left add_node l acc) = true).
  { induction l as [|x r IH]; intros acc Ha Hl; [exact Ha|]. cbn [fold_left forallb] in *. apply andb_prop in Hl. destruct Hl as [Hx Hr].
    apply IH; [apply add_node_tsimple; assumption|exact Hr]. }
  intros H. apply G; [reflexivity|exact H].
Qed.

Lemma tn_tsimple : forall n, forallb tsimple (tn n) = true.
Proof.
  induction n as [tag attrs ch IH|c|ch IH| |lid roots IH] using Proofs.EncWbxmlProofs.node_ind'; cbn [tn]; try reflexivity.
  - destruct tag as [p t o nm|nm]; [|reflexivity]. cbn [forallb tsimple]. rewrite andb_true_r. apply merge_text_tsimple.
    induction IH as [|x r Hx _ IHr]; [reflexivity|]. cbn [flat_map]. rewrite forallb_app, Hx, IHr. reflexivity.
  - destruct (cstr c) as [|b r]; reflexivity.
Qed.

Lemma to_xnode_simple tbl : forall n l, tsimple n = true -> simple (to_xnode tbl l n) = true.
Proof.
  fix IH 1. intros n l Hn. destruct n as [t a ch|b|ch|lid cs root]; cbn [tsimple] in Hn; try discriminate; cbn [to_xnode simple].
  - induction ch as [|x r IHr]; [reflexivity|]. cbn [forallb map] in *. apply andb_prop in Hn. destruct Hn as [Hx Hr].
    rewrite (IH x l Hx), (IHr Hr). reflexivity.
  - exact Hn.
Qed.

(* ---- (C) the composition ---- *)
Section Compose.
Variables (main TBL : list lang) (btbl : list E.blang) (sub : E.bytes -> XF.xtree + N).

Theorem conversion_roundtrip evs expat_ok o doc w (L : lang) l p t opts nm ch o' :
  (* the first conversion succeeds with output w ... *)
  r_out (CX.xml2wbxml_events main btbl sub evs expat_ok o doc) = Some w ->
  (* ... on a document whose front-end tree is in the fragment *)
  (forall t0, XF.tree_from_xml main sub doc evs expat_ok = inl t0 ->
     E.find_lang btbl (XF.xt_lang t0) = Some l /\ XF.xt_roots t0 = [E.NElt (E.TagTok p t opts nm) [] ch]) ->
  SZ.frag_lang l = true -> E.o_use_strtbl o = false -> Proofs.EncWbxmlProofs.no_pid (E.enc_env l o) = true ->
  SZ.frag_node (E.NElt (E.TagTok p t opts nm) [] ch) = true ->
  find (fun x => l_id x =? l_id L) TBL = Some L ->
  lang_choice TBL L (E.header_public_id (E.enc_env l o)) (wo_lang o') -> wo_charset o' = 0 ->
  D.tree_ok L 0 (E.NElt (E.TagTok p t opts nm) [] ch) = true ->
  E.o_version o < 4 -> E.header_public_id (E.enc_env l o) < 4294967296 -> E.header_public_id (E.enc_env l o) <> 0 ->
  no_data (flat_map D.events_node (TreeNorm.norm (E.o_keep_ws o) [E.NElt (E.TagTok p t opts nm) [] ch])) = true ->
  let root' := TElt (TagTok p t nm) [] (merge_text (flat_map tn (flat_map (TreeNorm.norm_node (E.o_keep_ws o) false) ch))) in
  let xl := X.xlang_of L in
  let xo := X.opts_of_params (gen_of (wo_gen o')) (wo_indent o') (wo_keep_ws o') in
  exists x,
    wbxml2xml_model TBL o' w = mk_res ST_OK (Some (x ++ [0])) (N.of_nat (length x)) /\
    X.enc_xml_opts xl xo [to_xnode TBL L root'] = X.XOk x /\
    (Proofs.EncXmlProofs.lang_ok xl = true ->
     Proofs.EncXmlIndent.node_ok_g xl xo X.proot None (to_xnode TBL L root') = true ->
     exists c s',
       Proofs.EncXmlIndent.info_g xl xo X.proot (X.est0 0) (to_xnode TBL L root')
         = Some ([XmlRead.XT []; XmlRead.XE (X.tname_bytes (to_tname L (TagTok p t nm)))
                                             (Proofs.EncXmlProofs.spec_attrs xl xo X.proot (to_tname L (TagTok p t nm)) []) c;
                  XmlRead.XT (X.nl_if xo)], s') /\
       forall fuel, (Proofs.EncXmlProofs.node_fuel (to_xnode TBL L root') + 2 <= fuel)%nat ->
         XmlRead.read_xml fuel x =
         XmlRead.ROk (Proofs.EncXmlProofs.doc_of xl
                        [XmlRead.XE (X.tname_bytes (to_tname L (TagTok p t nm)))
                                    (Proofs.EncXmlProofs.spec_attrs xl xo X.proot (to_tname L (TagTok p t nm)) []) c])).
Proof.
  intros H1 Hfront HL HU HP HF HFind Hch Hcs HT Hv Hp1 Hp0 Hnd root' xl xo.
  (* the first conversion *)
  unfold CX.xml2wbxml_events, conv_run in H1. destruct doc as [|d0 dr]; [discriminate|].
  destruct (XF.tree_from_xml main sub (d0 :: dr) evs expat_ok) as [t0|e] eqn:Et; [|discriminate].
  destruct (Hfront t0 eq_refl) as [Hl Hroots].
  unfold CX.encode_tree in H1. rewrite Hl, Hroots in H1.
  destruct (roundtrip_fragment_choice btbl TBL L l o p t opts nm ch (wo_lang o') HL HU HP HF HFind Hch HT Hv Hp1 Hp0 Hnd)
    as (bs & He & Hne & Htree).
  rewrite He in H1. cbn [r_out] in H1. assert (Hw : w = bs) by congruence. subst bs. clear H1.
  (* the second conversion *)
  specialize (Htree MAX_EMBEDDED_DEPTH).
  revert Htree. unfold TreeNorm.norm. cbn [flat_map TreeNorm.norm_node tn app hd_error]. rewrite ?app_nil_r. fold root'. intros Htree.
  assert (Hs : simple (to_xnode TBL L root') = true).
  { apply to_xnode_simple. subst root'. cbn [tsimple]. apply merge_text_tsimple.
    generalize (flat_map (TreeNorm.norm_node (E.o_keep_ws o) false) ch) as ns. induction ns as [|y r IHr]; [reflexivity|].
    cbn [flat_map]. rewrite forallb_app, tn_tsimple, IHr. reflexivity. }
  destruct (enc_xml_simple_ok xl (gen_of (wo_gen o')) (wo_indent o') (wo_keep_ws o') [to_xnode TBL L root']) as [x Hx];
    [cbn [forallb]; rewrite Hs; reflexivity|].
  exists x. split; [|split; [exact Hx|]].
  - unfold wbxml2xml_model, conv_run. destruct w as [|w0 wr]; [congruence|].
    unfold w2x_tree_from_doc, wbxml_tree_from_wbxml. rewrite Hcs, Htree.
    unfold w2x_encode, to_xroots. cbn [wt_lang wt_root]. unfold TreeConv.find_lang. rewrite HFind.
    fold xl. rewrite Hx. reflexivity.
  - intros Hlok Hok. cbn [to_xnode] in *.
    exact (Proofs.EncXmlIndent.read_enc_g xl xo (to_tname L (TagTok p t nm)) (map to_attr []) _ x Hlok Hok Hx).
Qed.
End Compose.
