(* C07 (WBXML half) — consequences of the lemmas of EncWbxmlProofs.v for whole outputs *)
From Coq Require Import List NArith Bool.
From Wbxml Require Import Model.Codec Model.EncWbxml Proofs.EncWbxmlProofs.
Import ListNotations.
Local Open Scope N_scope.

Lemma enc_wbxml_form tbl l o roots :
  enc_wbxml tbl l o roots =
  match enc_body tbl l o roots with
  | EOk (body, st) => EOk (fill_header (enc_env l o) st ++ body)
  | EErr c => EErr c
  end.
Proof. unfold enc_wbxml. destruct (enc_body tbl l o roots) as [[body st]|c]; reflexivity. Qed.

(* version and anonymity only change the header: same body bytes, same final string table *)
Lemma outputs_differ_in_header_only tbl l v1 v2 a1 a2 s k roots body st :
  forallb no_tree roots = true ->
  enc_body tbl l (mk_opts v1 s k a1) roots = EOk (body, st) ->
  enc_wbxml tbl l (mk_opts v1 s k a1) roots = EOk (fill_header (enc_env l (mk_opts v1 s k a1)) st ++ body) /\
  enc_wbxml tbl l (mk_opts v2 s k a2) roots = EOk (fill_header (enc_env l (mk_opts v2 s k a2)) st ++ body).
Proof.
  intros Hnt H. split.
  - now rewrite enc_wbxml_form, H.
  - rewrite enc_wbxml_form.
    rewrite (c07_body_independent_of_anonymous tbl l v2 s k a2 a1 roots).
    rewrite (c07_body_independent_of_version tbl l v2 v1 s k a1 roots Hnt). now rewrite H.
Qed.

(* whether the conversion succeeds (and with which error) does not depend on version / anonymity *)
Lemma failure_independent tbl l v1 v2 a1 a2 s k roots c :
  forallb no_tree roots = true ->
  enc_wbxml tbl l (mk_opts v1 s k a1) roots = EErr c -> enc_wbxml tbl l (mk_opts v2 s k a2) roots = EErr c.
Proof.
  intros Hnt. rewrite !enc_wbxml_form.
  rewrite (c07_body_independent_of_anonymous tbl l v2 s k a2 a1 roots).
  rewrite (c07_body_independent_of_version tbl l v2 v1 s k a1 roots Hnt).
  destruct (enc_body tbl l (mk_opts v1 s k a1) roots) as [[b st]|c']; [discriminate|auto].
Qed.

(* anonymity alone: any tree (embedded trees included) *)
Lemma anonymous_changes_header_only tbl l v a1 a2 s k roots body st :
  enc_body tbl l (mk_opts v s k a1) roots = EOk (body, st) ->
  enc_wbxml tbl l (mk_opts v s k a1) roots = EOk (fill_header (enc_env l (mk_opts v s k a1)) st ++ body) /\
  enc_wbxml tbl l (mk_opts v s k a2) roots = EOk (fill_header (enc_env l (mk_opts v s k a2)) st ++ body).
Proof.
  intros H. split.
  - now rewrite enc_wbxml_form, H.
  - rewrite enc_wbxml_form, (c07_body_independent_of_anonymous tbl l v s k a2 a1 roots). now rewrite H.
Qed.

(* without string table the body holds no table reference source: the table stays empty unless a literal occurs,
   in which case the conversion fails *)
Lemma anonymous_flag_of_env l v s k a : e_anonymous (enc_env l (mk_opts v s k a)) = a.
Proof. reflexivity. Qed.
Lemma version_of_env l v s k a : e_version (enc_env l (mk_opts v s k a)) = v.
Proof. reflexivity. Qed.
