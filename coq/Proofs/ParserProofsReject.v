(* C13 — rejection lemmas on Model/Parser.v: running out of bytes, over-long lengths, dangling indices,
   unterminated strings; and the tolerated irregularities. *)
From Coq Require Import String Ascii.
From Coq Require Import List NArith ZArith Lia Bool ZifyBool ZifyN.
From Wbxml Require Import Base.Bits Model.Codec Model.TablesDefs Model.Parser Model.Spec
     Proofs.CodecProofs Proofs.ParserProofsBase Proofs.ParserProofsStr.
Import ListNotations.
Local Open Scope N_scope.

(* ---- end of buffer: every loop condition is FALSE there, and the sub-parser it then calls fails ---- *)

Lemma eob_uint8 : parse_uint8 [] = PErr PE_END_OF_BUFFER.
Proof. reflexivity. Qed.

Lemma eob_mb : parse_mb_uint32 [] = PErr PE_END_OF_BUFFER.
Proof. reflexivity. Qed.

Lemma eob_attr_start env st : s_rest st = [] -> parse_attr_start env st = PErr PE_END_OF_BUFFER.
Proof. intros H. unfold parse_attr_start, opt_switch_page. rewrite H. cbn [is_token]. rewrite H. reflexivity. Qed.

Lemma eob_attr_value env st : s_rest st = [] -> parse_attr_value env st = PErr PE_END_OF_BUFFER.
Proof. intros H. unfold parse_attr_value, opt_switch_page. rewrite H. cbn [is_token is_extension is_string nth_error orb]. rewrite H. reflexivity. Qed.

Lemma eob_attrs_loop f env st acc : s_rest st = [] -> attrs_loop (S f) env st acc = PErr PE_END_OF_BUFFER.
Proof. intros H. cbn [attrs_loop]. unfold parse_attribute. rewrite (eob_attr_start env st H). reflexivity. Qed.

Lemma eob_pi_values f env st acc : s_rest st = [] -> pi_values_loop (S f) env st acc = PErr PE_END_OF_BUFFER.
Proof. intros H. cbn [pi_values_loop]. rewrite H. cbn [is_token]. rewrite (eob_attr_value env st H). reflexivity. Qed.

Lemma eob_content f env n st : s_rest st = [] -> content_loop (S f) env n st = PErr PE_END_OF_BUFFER.
Proof. intros H. cbn [content_loop]. rewrite H. cbn [is_token]. unfold parse_content. rewrite H. reflexivity. Qed.

Lemma eob_element f env st : s_rest st = [] -> parse_element f env st = PErr PE_END_OF_BUFFER.
Proof.
  intros H. unfold parse_element, parse_element_with, opt_switch_page, parse_stag, parse_tag. rewrite H. cbn [is_token is_literal]. rewrite H. reflexivity.
Qed.

Lemma eob_body f env st : s_rest st = [] -> parse_body (S f) env st = PErr PE_END_OF_BUFFER.
Proof. intros H. unfold parse_body. cbn [body_pi_loop]. rewrite H. cbn [is_token]. rewrite (eob_element (S f) env st H). reflexivity. Qed.

(* a multi-byte integer cut before its last byte *)
Lemma truncated_mb bs : (length bs < 5)%nat -> Forall (fun b => 128 <= b < 256) bs ->
  parse_mb_uint32 bs = PErr PE_END_OF_BUFFER.
Proof. intros H1 H2. unfold parse_mb_uint32. rewrite (mb_read_truncated bs H1 H2). reflexivity. Qed.

(* documents of one byte: the public identifier is missing *)
Lemma one_byte_document tbl forced meta fuel v : parse_with tbl forced meta fuel [v] = PErr PE_END_OF_BUFFER.
Proof. reflexivity. Qed.

(* ---- lengths and indices beyond the bytes present ---- *)

Lemma strtbl_length_refused bs len r : parse_mb_uint32 bs = POk (len, r) -> blen r < len ->
  parse_strtbl bs = PErr PE_STRTBL_LENGTH.
Proof.
  intros H Hl. unfold parse_strtbl. rewrite H.
  replace (0 <? len) with true by lia. replace (blen r <? len) with true by lia. reflexivity.
Qed.

Lemma opaque_length_refused t bs len r : parse_mb_uint32 bs = POk (len, r) -> blen r < len ->
  parse_opaque (t :: bs) = PErr PE_BAD_OPAQUE_LENGTH.
Proof.
  intros H Hl. unfold parse_opaque. cbn [tl]. rewrite H. replace (blen r <? len) with true by lia. reflexivity.
Qed.

(* every string-table reference (STR_T, literal tag / attribute name, WML EXT_T, public-id index) goes through
   get_strtbl_reference, which compares with the DECLARED length *)
Lemma dangling_index_refused env tb index : e_strtbl env = Some tb -> e_strtbl_len env <= index ->
  get_strtbl_reference env index = PErr PE_INVALID_STRTBL_INDEX.
Proof.
  intros H Hl. unfold get_strtbl_reference. rewrite H. replace (e_strtbl_len env <=? index) with true by lia. reflexivity.
Qed.

Lemma no_table_index_refused env index : e_strtbl env = None -> index <> 0 ->
  get_strtbl_reference env index = PErr PE_NULL_STRING_TABLE.
Proof.
  intros H Hn. unfold get_strtbl_reference. rewrite H. replace (index =? 0) with false by lia. reflexivity.
Qed.

Lemma tableref_dangling env tb index r r' : e_strtbl env = Some tb ->
  parse_mb_uint32 r = POk (index, r') -> e_strtbl_len env <= index ->
  parse_string env (131 :: r) = PErr PE_INVALID_STRTBL_INDEX.
Proof.
  intros H Hm Hl. unfold parse_string. cbn [is_token N.eqb Pos.eqb]. unfold parse_tableref. cbn [tl].
  rewrite Hm. rewrite (dangling_index_refused env tb index H Hl). reflexivity.
Qed.

Lemma literal_dangling env tb t index r r' : e_strtbl env = Some tb ->
  parse_mb_uint32 r = POk (index, r') -> e_strtbl_len env <= index ->
  parse_literal env (t :: r) = PErr PE_INVALID_STRTBL_INDEX.
Proof.
  intros H Hm Hl. unfold parse_literal. cbn [parse_uint8]. rewrite Hm.
  rewrite (dangling_index_refused env tb index H Hl). reflexivity.
Qed.

(* a dangling public-identifier index: no language is selected (unless the caller forces one) *)
Lemma pubidx_dangling tbl pubidx tb len cs : len <= pubidx -> pubidx <> NO_INDEX ->
  check_public_id tbl 0 PUBLIC_ID_UNKNOWN pubidx (Some tb) len cs = None.
Proof.
  intros Hl Hn. unfold check_public_id. cbn [N.eqb andb].
  change (PUBLIC_ID_UNKNOWN =? PUBLIC_ID_UNKNOWN) with true.
  replace (pubidx =? NO_INDEX) with false by lia. cbn [andb].
  unfold get_strtbl_reference. cbn [e_strtbl e_strtbl_len]. replace (len <=? pubidx) with true by lia. reflexivity.
Qed.

(* an inline string (or a string-table entry) without terminator *)
Lemma split_nul_none r : nul_free r = true -> split_nul r = None.
Proof.
  induction r as [|b r IH]; cbn [split_nul nul_free forallb]; [reflexivity|].
  intros H. apply andb_prop in H. destruct H as [Hb Hr]. destruct (b =? 0); [discriminate|].
  unfold nul_free in IH. rewrite (IH Hr). reflexivity.
Qed.

Lemma unterminated_string_refused cs r : nul_free r = true -> exists e, conv_term cs r = PErr e.
Proof.
  intros H. unfold conv_term. destruct ((cs =? 1000) || (cs =? 1015)).
  - destruct (search_null2 r); eexists; reflexivity.
  - rewrite (split_nul_none r H). eexists. reflexivity.
Qed.

Lemma unterminated_inline_refused env r : nul_free r = true -> exists e, parse_string env (3 :: r) = PErr e.
Proof.
  intros H. unfold parse_string. cbn [is_token N.eqb Pos.eqb]. unfold parse_inline, parse_termstr. cbn [tl].
  apply unterminated_string_refused. exact H.
Qed.

(* charsets this build cannot convert: the first string is refused, never guessed *)
Lemma unsupported_charset_refused cs r : cs <> 3 -> cs <> 106 -> exists e, conv_term cs r = PErr e.
Proof.
  intros H3 H106. unfold conv_term. destruct ((cs =? 1000) || (cs =? 1015)).
  - destruct (search_null2 r); eexists; reflexivity.
  - destruct (split_nul r) as [[s t]|]; [|eexists; reflexivity].
    replace ((cs =? 3) || (cs =? 106)) with false by lia. eexists. reflexivity.
Qed.

(* ---- tolerated irregularities ---- *)

(* an unterminated table is padded: a reference into its last, unterminated entry reads to the end *)
Lemma padding_tolerated l tb ver cs i : cs_ok cs -> i < blen tb ->
  get_strtbl_reference (penv_of l tb ver cs) i = POk (until_nul (drop i tb)).
Proof.
  intros Hc Hi. apply strtbl_ref_ok; [exact Hc|]. unfold str_at. replace (i <? blen tb) with true by lia. reflexivity.
Qed.

(* ... but not into the padding itself (defect D21, repaired) *)
Lemma padding_not_addressable l tb ver cs i : tb <> [] -> blen tb <= i ->
  get_strtbl_reference (penv_of l tb ver cs) i = PErr PE_INVALID_STRTBL_INDEX.
Proof.
  intros Hne Hi. apply (dangling_index_refused _ (padded tb)); [|exact Hi].
  unfold penv_of. cbn [e_strtbl]. destruct tb; [congruence|reflexivity].
Qed.

Lemma xmlns_workaround env : e_strtbl env = None -> get_strtbl_reference env 0 = POk (B "xmlns"%string).
Proof. intros H. unfold get_strtbl_reference. rewrite H. reflexivity. Qed.

(* the public identifier is not consulted when the caller forces a language of the table *)
Lemma forced_language_wins tbl forced l k pubid pubidx st len cs : forced <> 0 ->
  find_lang_id tbl forced 0%nat = (Some l, k) ->
  check_public_id tbl forced pubid pubidx st len cs = Some l.
Proof.
  intros Hf Hl. unfold check_public_id. replace (forced =? 0) with false by lia. cbn [andb].
  rewrite Hl. reflexivity.
Qed.
