(* C03 (round trip at model level, fragment of Proofs/EncWbxmlSerialize.v) — the tree that wbxml_tree_from_wbxml
   (parser + tree builder, language forced) builds from the bytes the WBXML encoder writes for a tree of the fragment
   is the NORMALISED source tree, converted to the tree builder's type (tn): token tags keep page, token and name,
   a text node is the C string of its content (an empty one leaves no node) and adjacent text nodes are one node. *)
From Coq Require Import String Ascii.
From Coq Require Import List NArith ZArith Lia Bool.
From Wbxml Require Import Model.Codec Model.TablesDefs Model.Parser Model.Spec Model.TreeBuild
     Proofs.ParserProofsBase Proofs.ParserProofsStr Proofs.ParserProofsDoc Proofs.ParserProofsTyped Proofs.ParserProofsWv
     Proofs.TreeBuildProofs Proofs.TreeBuildProofs2 Proofs.TreeBuildProofs3.
From Wbxml Require Model.EncWbxml Model.TreeNorm Proofs.EncWbxmlProofs Proofs.EncWbxmlSerialize Proofs.EncWbxmlDenote.
Import ListNotations.
Local Open Scope N_scope.

Module E := Wbxml.Model.EncWbxml.
Module D := Wbxml.Proofs.EncWbxmlDenote.

(* ---- a document of the parser's shape builds the abstract tree ---- *)
Lemma build_of_shape tbl ef cs lid p1 t a inner p2 ch :
  all_pi p1 = true -> all_pi p2 = true -> spec_forest inner ch -> not_data t = true -> no_data inner = true ->
  build tbl ef (EvStartDoc cs lid :: (p1 ++ (EvStartElt t a :: inner ++ [EvEndElt t]) ++ p2) ++ [EvEndDoc])
  = BOk (mk_wtree lid cs (Some (TElt t a (merge_text ch)))).
Proof.
  intros H1 H2 Hs Ht Hni. unfold build.
  change (EvStartDoc cs lid :: (p1 ++ (EvStartElt t a :: inner ++ [EvEndElt t]) ++ p2) ++ [EvEndDoc])
    with ([EvStartDoc cs lid] ++ (p1 ++ ([EvStartElt t a] ++ inner ++ [EvEndElt t]) ++ p2) ++ [EvEndDoc]).
  rewrite build_from_app, build_from_startdoc. change (mk_bstate lid cs (b_stack st_init) (b_root st_init)) with (mk_bstate lid cs [] None).
  cbv beta iota. rewrite build_from_app, build_from_app. rewrite (build_from_pis tbl _ p1 _ H1). cbv beta iota.
  rewrite build_from_app, build_from_app, build_from_start.
  change (cb_start_element t a (mk_bstate lid cs [] None)) with (BOk (mk_bstate lid cs [mk_frame t a [] None] None)). cbv beta iota.
  rewrite build_from_app.
  rewrite (run_spec tbl ef inner ch Hs Hni (mk_bstate lid cs [mk_frame t a [] None] None) (mk_frame t a [] None) [] eq_refl eq_refl Ht).
  cbn [b_lang b_charset b_root f_tag f_attrs f_done]. rewrite build_from_end. unfold cb_end_element. cbn [b_stack f_cdata].
  rewrite (build_from_pis tbl _ p2 _ H2). rewrite build_from_enddoc. unfold tree_of_state. cbn [b_lang b_charset b_stack view hd_error].
  unfold frame_node, frame_children, cdata_nodes, merge_text. cbn [f_tag f_attrs f_done f_cdata]. rewrite !app_nil_r. reflexivity.
Qed.

(* ---- the conversion of the encoder's tree type ---- *)
Fixpoint tn (n : E.node) : list tnode :=
  match n with
  | E.NElt (E.TagTok p t _ nm) _ ch => [TElt (TagTok p t nm) [] (merge_text (flat_map tn ch))]
  | E.NText c => match cstr c with [] => [] | s => [TText s] end
  | _ => []
  end.

Lemma spec_forest_app a x : spec_forest a x -> forall b y, spec_forest b y -> spec_forest (a ++ b) (x ++ y).
Proof.
  induction 1 as [|tg dt r ns Hr IH|b0 r ns Hr IH|t a0 inner r ch ns Hi IHi Hr IHr]; intros b y Hb; cbn [app].
  - exact Hb.
  - constructor. apply IH. exact Hb.
  - constructor. apply IH. exact Hb.
  - rewrite <- app_assoc. cbn [app]. constructor; [exact Hi|]. apply IHr. exact Hb.
Qed.

Lemma spec_forest_nodes : forall n, spec_forest (D.events_node n) (tn n).
Proof.
  induction n as [tag attrs ch IH|c|ch IH| |lid roots IH] using Proofs.EncWbxmlProofs.node_ind'; cbn [D.events_node tn]; try constructor.
  - destruct tag as [p t o nm|nm]; [|constructor].
    assert (Hc : spec_forest (flat_map D.events_node ch) (flat_map tn ch)).
    { induction IH as [|x r Hx _ IHr]; cbn [flat_map]; [constructor|]. apply spec_forest_app; assumption. }
    change (EvStartElt (TagTok p t nm) [] :: flat_map D.events_node ch ++ [EvEndElt (TagTok p t nm)])
      with (EvStartElt (TagTok p t nm) [] :: flat_map D.events_node ch ++ EvEndElt (TagTok p t nm) :: []).
    constructor; [exact Hc|constructor].
  - unfold D.text_events. destruct (cstr c) as [|b r]; constructor. constructor.
Qed.

Lemma spec_forest_list ns : spec_forest (flat_map D.events_node ns) (flat_map tn ns).
Proof. induction ns as [|x r IH]; cbn [flat_map]; [constructor|]. apply spec_forest_app; [apply spec_forest_nodes|exact IH]. Qed.

(* ---- the round trip ---- *)
Theorem roundtrip_fragment tblb TBL L l o p t opts nm ch :
  Proofs.EncWbxmlSerialize.frag_lang l = true -> E.o_use_strtbl o = false -> Proofs.EncWbxmlProofs.no_pid (E.enc_env l o) = true ->
  Proofs.EncWbxmlSerialize.frag_node (E.NElt (E.TagTok p t opts nm) [] ch) = true ->
  find (fun x => l_id x =? l_id L) TBL = Some L -> l_id L <> 0 ->
  D.tree_ok L 0 (E.NElt (E.TagTok p t opts nm) [] ch) = true ->
  E.o_version o < 4 -> E.header_public_id (E.enc_env l o) < 4294967296 -> E.header_public_id (E.enc_env l o) <> 0 ->
  no_data (flat_map D.events_node (TreeNorm.norm (E.o_keep_ws o) [E.NElt (E.TagTok p t opts nm) [] ch])) = true ->
  exists bs, E.enc_wbxml tblb l o [E.NElt (E.TagTok p t opts nm) [] ch] = E.EOk bs /\
    forall ef, tree_from_wbxml TBL (l_id L) 0 ef bs
               = BOk (mk_wtree (l_id L) 106 (hd_error (flat_map tn (TreeNorm.norm (E.o_keep_ws o) [E.NElt (E.TagTok p t opts nm) [] ch])))).
Proof.
  intros HL HU HP HF HFind Hid HT Hv H1 H0 Hnd.
  destruct (D.strict_decode_of_encoding tblb TBL L l o p t opts nm ch HL HU HP HF HFind HT Hv H1 H0) as (d & bs & He & Hbs & _ & Hden & _).
  exists bs. split; [exact He|]. intros ef. subst bs.
  assert (Hp : parse_with TBL (l_id L) 0 (S (length (serialize d))) (serialize d)
               = POk (EvStartDoc 106 (l_id L) :: flat_map D.events_node (TreeNorm.norm (E.o_keep_ws o) [E.NElt (E.TagTok p t opts nm) [] ch]) ++ [EvEndDoc])).
  { apply (parse_denote_with TBL (fun l0 _ _ => typed_wv_agree_proved) typed_datetime_agree_proved (l_id L) (Some L) d); [|exact Hden].
    split; [reflexivity|]. split; [exact Hid|exact HFind]. }
  unfold tree_from_wbxml. rewrite Hp.
  revert Hnd. unfold TreeNorm.norm. cbn [flat_map TreeNorm.norm_node D.events_node tn app]. rewrite !app_nil_r. intros Hnd.
  set (inner := flat_map D.events_node (flat_map (TreeNorm.norm_node (E.o_keep_ws o) false) ch)) in *.
  cbn [hd_error].
  assert (Ht : not_data (TagTok p t nm) = true /\ no_data inner = true).
  { unfold no_data in Hnd. cbn [forallb] in Hnd. rewrite forallb_app in Hnd. rewrite !andb_true_iff in Hnd. unfold no_data. tauto. }
  destruct Ht as [Ht Hni].
  pose proof (build_of_shape TBL ef 106 (l_id L) [] (TagTok p t nm) [] inner [] _ eq_refl eq_refl
               (spec_forest_list (flat_map (TreeNorm.norm_node (E.o_keep_ws o) false) ch)) Ht Hni) as Hb.
  cbn [app] in Hb. rewrite app_nil_r in Hb. exact Hb.
Qed.
