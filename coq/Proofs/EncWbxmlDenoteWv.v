(* C06 (typed values) — the Wireless-Village class (WV CSP 1.1 / 1.2): typed CONTENT.
   The text that is the FIRST child of an element whose (page, token) the encoder's switch classifies as integer / date
   and time is written as OPAQUE (big-endian minimal integer; 6 packed octets) and printed by the decoder in canonical
   form: the decoded text is canon_wv_int (text) ("0200" -> "200", "0x10" -> "16") resp. canon_wv_date (text) (a date-time
   with '-', '+', ':' or a final 'Z' is written inline, as it is).  A text equal to the name of an extension token is
   written as EXT_T_0 and printed as that name.  Everything else is ordinary text (string table, merge_chars).
   Instance of the generic induction of Proofs/EncWbxmlDenote5.v.  Attributes: none in this instance (aok = false). *)
From Coq Require Import List NArith ZArith Lia Bool ZifyBool ZifyN.
From Wbxml Require Import Base.Bits Model.Codec Model.TablesDefs Model.EncWbxml Model.TreeNorm Model.EncWbxmlEvents
     Proofs.EncWbxmlProofs Proofs.TreeNormProofs Proofs.EncWbxmlAbs Proofs.EncWbxmlStrict2 Proofs.EncWbxmlDenote2
     Proofs.EncWbxmlMerge Proofs.EncWbxmlTblOk Proofs.EncWbxmlDenote3 Proofs.EncWbxmlAbs4 Proofs.EncWbxmlDenote4 Proofs.EncWbxmlAbs5
     Proofs.EncWbxmlDenote5.
From Wbxml Require Model.Parser Model.Spec Proofs.EncWbxmlDenote Proofs.ParserProofsStrict3.
Import ListNotations.
Local Open Scope N_scope.

(* ---- the encoder's data-type switch and the specification's lists agree, for every page and token -------------------------- *)
(* (the decoder knows three more integer elements, page 5, that the encoder writes as text: an inclusion, not an equality) *)
Lemma wv_switch_spec p t :
  ((wv_data_type p t =? 2) = true -> S.pair_in (p, t) S.wv_int_elts = true) /\
  ((wv_data_type p t =? 3) = true -> S.pair_in (p, t) S.wv_date_elts = true /\ S.pair_in (p, t) S.wv_int_elts = false).
Proof.
  destruct (p <? 16) eqn:Hp; destruct (t <? 64) eqn:Ht.
  - assert (F : forallb (fun a => forallb (fun b => implb (wv_data_type a b =? 2) (S.pair_in (a, b) S.wv_int_elts) &&
                                                     implb (wv_data_type a b =? 3) (S.pair_in (a, b) S.wv_date_elts && negb (S.pair_in (a, b) S.wv_int_elts))) (N_range 64)) (N_range 16) = true)
      by (vm_compute; reflexivity).
    pose proof (sweep2 _ 16 64 F p t) as P. cbv beta in P.
    assert (H1 : p < N.of_nat 16) by (cbn; lia). assert (H2 : t < N.of_nat 64) by (cbn; lia).
    specialize (P H1 H2). apply andb_true_iff in P as [P1 P2].
    split; intros E; [rewrite E in P1; exact P1|rewrite E in P2; cbn [implb] in P2; apply andb_true_iff in P2 as [Q1 Q2]; apply negb_true_iff in Q2; auto].
  - (* token out of range: the switch says "string" *)
    assert (Hn : forall c, c < 64 -> (c =? t) = false) by (intros; lia).
    assert (Z : wv_data_type p t = 0 \/ wv_data_type p t = 1).
    { unfold wv_data_type. cbv zeta. cbn [existsb].
      repeat match goal with |- context [N.eqb ?c t] => rewrite (Hn c) by lia end.
      assert (Hm : forall c, c < 64 -> (t =? c) = false) by (intros; lia).
      repeat match goal with |- context [N.eqb t ?c] => rewrite (Hm c) by lia end.
      cbn [orb]. repeat match goal with |- context [if ?c then _ else _] => destruct c end; auto. }
    destruct Z as [-> | ->]; split; discriminate.
  - assert (Z : wv_data_type p t = 0).
    { assert (Hm : forall c, c < 16 -> (p =? c) = false) by (intros; lia).
      unfold wv_data_type. cbv zeta. repeat match goal with |- context [N.eqb p ?c] => rewrite (Hm c) by lia end. reflexivity. }
    rewrite Z. split; discriminate.
  - assert (Z : wv_data_type p t = 0).
    { assert (Hm : forall c, c < 16 -> (p =? c) = false) by (intros; lia).
      unfold wv_data_type. cbv zeta. repeat match goal with |- context [N.eqb p ?c] => rewrite (Hm c) by lia end. reflexivity. }
    rewrite Z. split; discriminate.
Qed.

(* ---- canonical forms ----------------------------------------------------------------------------------------------------------------- *)
Definition canon_wv_int (buf : bytes) : option bytes := S.spec_wv_integer (wv_int_payload buf).
Definition canon_wv_date (buf : bytes) : option bytes :=
  match wv_dt_opaque_payload buf with Some d => S.spec_wv_datetime d | None => None end.
Definition inline_cond (buf : bytes) : bool :=
  let has c := existsb (fun x => x =? c) buf in has 45 || has 43 || has 58 || (last buf 0 =? 90).

Definition wv_kind (first : bool) (par : option tagname) : N :=
  if first then match par with Some (TagTok p t _ _) => wv_data_type p t | _ => 0 end else 0.

(* the text the encoder hands to the value encoder *)
Definition wv_norm (keep : bool) (c : bytes) : bytes :=
  if keep then c else if only_ws c then [] else strip_blanks c.

Definition unwrap (o : option bytes) : bytes := match o with Some b => b | None => [] end.
Definition is_some {A} (o : option A) : bool := match o with Some _ => true | None => false end.

Definition tev_wv (keep first : bool) (par : option tagname) (c : bytes) : list P.event :=
  match wv_norm keep c with
  | [] => []
  | buf =>
    let k := wv_kind first par in
    if k =? 2 then chars (unwrap (canon_wv_int buf))
    else if k =? 3 then (if inline_cond buf then chars buf else chars (unwrap (canon_wv_date buf)))
    else chars buf
  end.

Definition tok_wv (keep first : bool) (par : option tagname) (c : bytes) : bool :=
  negb (tag_bin par) && okb c &&
  match wv_norm keep c with
  | [] => true
  | buf =>
    let k := wv_kind first par in
    if k =? 2 then is_some (canon_wv_int buf)
    else if k =? 3 then inline_cond buf || is_some (canon_wv_date buf)
    else true
  end.

(* every extension row is found again under its own (8-bit) token with its own name *)
Definition exts_ok (L : lang) : bool :=
  forallb (fun r => match S.lookup_ext L (u8 (e_tok r)) with Some r' => beq (P.B (e_name r')) (P.B (e_name r)) | None => false end)
          (opt_list (l_exts L)).

(* ---- small facts ---------------------------------------------------------------------------------------------------------------------- *)
Lemma int_octets_ok k : forall v acc, forallb S.is_byte acc = true -> forallb S.is_byte (int_octets k v acc) = true /\
  (List.length (int_octets k v acc) <= k + List.length acc)%nat.
Proof.
  induction k as [|k IH]; intros v acc Ha; cbn [int_octets]; [split; [exact Ha|lia]|].
  destruct (v =? 0); [split; [exact Ha|lia]|].
  destruct (IH (N.shiftr v 8) (N.land v 255 :: acc)) as [A B].
  - cbn [forallb]. rewrite Ha, andb_true_r. unfold S.is_byte. apply N.ltb_lt.
    change 255 with (N.ones 8). rewrite N.land_ones. apply N.mod_lt. discriminate.
  - split; [exact A|]. cbn [List.length] in B. lia.
Qed.

Lemma wv_int_payload_ok buf : S.bytes_okb (wv_int_payload buf) = true /\ S.u32_okb (Parser.blen (wv_int_payload buf)) = true.
Proof.
  unfold wv_int_payload. cbv zeta.
  match goal with |- context [int_octets 4 ?v []] => destruct (int_octets_ok 4 v [] eq_refl) as [A B] end.
  split; [exact A|]. unfold S.u32_okb, Parser.blen. cbn [List.length] in B. lia.
Qed.

Lemma skipn2_opaque6 (a b c d e f : N) : skipn 2 (enc_opaque [a; b; c; d; e; f]) = [a; b; c; d; e; f].
Proof. reflexivity. Qed.

Lemma is_byte_u8 x : S.is_byte (u8 x) = true.
Proof. unfold S.is_byte, u8. apply N.ltb_lt, N.mod_lt. discriminate. Qed.

Lemma wv_dt_octets buf b : enc_wv_datetime_opaque buf = EOk b ->
  exists l, b = enc_opaque l /\ List.length l = 6%nat /\ S.bytes_okb l = true.
Proof.
  unfold enc_wv_datetime_opaque. cbv zeta.
  destruct (negb _); [discriminate|]. destruct (negb _); [discriminate|].
  match goal with |- context [if ?c then EErr _ else _] => destruct c eqn:ZC; [discriminate|] end.
  destruct (negb _); [discriminate|].
  match goal with |- EOk (enc_opaque ?l) = EOk b -> _ => intros E; exists l end.
  split; [congruence|]. split; [reflexivity|].
  unfold S.bytes_okb. cbn [forallb]. rewrite !is_byte_u8. cbn [andb]. rewrite andb_true_r.
  match goal with |- S.is_byte (if ?c then ?z else 0) = true => destruct c eqn:L16; [|reflexivity] end.
  cbn [andb] in ZC. unfold S.is_byte. apply N.ltb_lt. apply orb_false_iff in ZC as [_ ZC]. apply N.ltb_ge in ZC. lia.
Qed.

Lemma wv_dt_payload_ok buf d : wv_dt_opaque_payload buf = Some d -> S.bytes_okb d = true /\ S.u32_okb (Parser.blen d) = true.
Proof.
  unfold wv_dt_opaque_payload. destruct (enc_wv_datetime_opaque buf) as [b|c] eqn:E; [|discriminate].
  destruct (wv_dt_octets buf b E) as (l & -> & Hl & Hb). intros H.
  assert (Hd : skipn 2 (enc_opaque l) = d) by congruence. clear H.
  do 7 (destruct l as [|? l]; try discriminate). rewrite skipn2_opaque6 in Hd. subst d.
  split; [exact Hb|reflexivity].
Qed.

Lemma beq_sym a b : beq a b = beq b a.
Proof.
  destruct (beq a b) eqn:E1; destruct (beq b a) eqn:E2; try reflexivity.
  - apply beq_eq in E1. subst b. assert (beq a a = true) by (now apply beq_eq). congruence.
  - apply beq_eq in E2. subst b. assert (beq a a = true) by (now apply beq_eq). congruence.
Qed.

Lemma pass_exts_noop rows buf : find (fun r => beq (be_name r) buf) rows = None -> pass_exts rows [VStr buf] = Some [VStr buf].
Proof.
  induction rows as [|r rest IH]; [reflexivity|]. cbn [find]. destruct (beq (be_name r) buf) eqn:B; [discriminate|]. intros H.
  cbn [pass_exts]. destruct (len (be_name r) <? 2); [exact (IH H)|].
  unfold sweep. replace (velts_size [VStr buf]) with (S (S (List.length buf + 1))) by (cbn; lia).
  cbn [split_sweep]. rewrite beq_sym, B. exact (IH H).
Qed.

(* ---- ordinary content in a language WITH extension tokens: cut against the string table only --------------------------------- *)
Lemma content_split_facts e L TF st buf l :
  e_lang e = to_blang L -> (forall x, In x TF -> ref_str TF (s_off x) = s_str x) ->
  in_cdata st = false -> sub TF st -> okb buf = true -> get_ext_from_xml (e_lang e) buf = None ->
  split_value e st false buf = Some l ->
  forallb (av_ok3 (match bl_vals (to_blang L) with Some r => r | None => [] end) TF) l = true /\
  flat_map (vden3 (match bl_vals (to_blang L) with Some r => r | None => [] end) TF) l = buf.
Proof.
  intros HE HREF Hic Hsub Hb HG. set (rows := match bl_vals (to_blang L) with Some r => r | None => [] end).
  unfold split_value. cbv zeta. rewrite Hic. cbn [negb andb].
  assert (L2 : match bl_exts (e_lang e) with Some rows0 => pass_exts rows0 [VStr buf] | None => Some [VStr buf] end = Some [VStr buf]).
  { unfold get_ext_from_xml in HG. destruct (bl_exts (e_lang e)) as [rows0|]; [|reflexivity]. now apply pass_exts_noop. }
  rewrite L2.
  assert (H0 : forallb (av_ok3 rows TF) [VStr buf] = true) by (cbn; now rewrite Hb).
  assert (D0 : flat_map (vden3 rows TF) [VStr buf] = buf) by (cbn; now rewrite app_nil_r).
  destruct (e_use_strtbl e); cbn [andb].
  - intros H. split; [exact (pass_strtbl_av3 rows TF (strtbl st) Hsub _ _ H H0)|].
    rewrite (pass_strtbl_den (vden3 rows TF) (fun s0 => eq_refl) (strtbl st) (fun y Hy => HREF y (Hsub y Hy)) _ _ H). exact D0.
  - intros H; injection H as <-. auto.
Qed.

Section Wv.
  Variable L : lang.
  Variable e : env.
  Hypothesis HE : e_lang e = to_blang L.
  Hypothesis HW : is_wv (e_lang e) = true.
  Hypothesis HXO : exts_ok L = true.
  Hypothesis Hopts : e_ignore_empty e = e_remove_blanks e.
  Variable TF : list ste.
  Variable tb : bytes.
  Hypothesis HRES : forall x, In x TF -> okb (s_str x) = true -> S.str_at tb (s_off x) = Some (s_str x).
  Hypothesis HU32 : forall x, In x TF -> S.u32_okb (s_off x) = true.
  Hypothesis HREF : forall x, In x TF -> ref_str TF (s_off x) = s_str x.

  Lemma wv_ids : (l_id L =? 2301) || (l_id L =? 2302) = true.
  Proof. rewrite HE in HW. exact HW. Qed.

  Lemma wv_not_others : is_syncml (e_lang e) = false /\ S.is_wml_family (l_id L) = false /\ S.is_wv_family (l_id L) = true.
  Proof.
    pose proof wv_ids as H. rewrite HE. unfold is_syncml, LANG_SYNCML10, LANG_SYNCML11, LANG_SYNCML12, S.is_wml_family, S.is_wv_family.
    cbn [to_blang bl_id existsb]. apply orb_true_iff in H as [H|H]; apply N.eqb_eq in H; rewrite H; repeat split; reflexivity.
  Qed.

  Lemma abs_value5_wv st par buf : in_cdata st = false ->
    abs_value5 e st false None [] par buf =
    match buf with
    | [] => Some ([], st)
    | _ => match abs_wv_content e st buf with
           | Some None => None
           | Some (Some w) => Some (w, st)
           | None => match split_value e st false buf with None => None | Some l => Some (abs_velts st l) end
           end
    end.
  Proof.
    intros Hic. destruct wv_not_others as (Hs & _). unfold abs_value5. destruct buf as [|c0 buf]; [reflexivity|].
    unfold abs_special_attr, abs_special_content, the_buffer_of. cbv zeta. rewrite Hic, HW, Hs. cbn [negb andb]. reflexivity.
  Qed.

  Lemma kind_eq (first : bool) st par : cur_tag st = (if first then ctag_of par else None) ->
    match cur_tag st with Some (p, t, _) => wv_data_type p t | None => 0 end = wv_kind first par.
  Proof. intros ->. unfold wv_kind. destruct first; [|reflexivity]. destruct par as [[p t o nm|nm]|]; reflexivity. Qed.

  Lemma kind_first (first : bool) par : wv_kind first par <> 0 -> first = true /\ exists p t o nm, par = Some (TagTok p t o nm) /\ wv_kind first par = wv_data_type p t.
  Proof.
    unfold wv_kind. destruct first; [|intros H; now elim H]. destruct par as [[p t o nm|nm]|]; try (intros H; now elim H).
    intros _. split; [reflexivity|]. now exists p, t, o, nm.
  Qed.

  Lemma text_den_wv (first : bool) st par c items st' d me (dst : S.dstate) :
    sub TF st' -> in_cdata st = false -> cur_tag st = (if first then ctag_of par else None) -> dcur_ok first par dst me ->
    tok_wv (negb (e_remove_blanks e)) first par c = true -> abs_text5 e st par c = Some (items, st') ->
    exists evs, D1.den_items (S.mk_denv L tb) d me items dst = Some (evs, dst) /\
                merge_chars evs = merge_chars (tev_wv (negb (e_remove_blanks e)) first par c) /\
                tagcp st' = tagcp st /\ attrcp st' = attrcp st /\ in_cdata st' = false.
  Proof.
    intros Hsub Hic Hc Hdc Hok A. unfold tok_wv in Hok. apply andb_true_iff in Hok as [Hok Hm]. apply andb_true_iff in Hok as [Hnb Hokb].
    apply negb_true_iff in Hnb.
    unfold abs_text5 in A. rewrite (binary_is st par (cur_first_ok first st par Hc)), Hnb, Hic in A. cbn [negb andb] in A. rewrite Hopts in A.
    destruct wv_not_others as (_ & Hwml & Hwvf). pose proof wv_ids as Hids.
    (* the value part *)
    assert (VAL : forall buf, okb buf = true ->
              match buf with
              | [] => true
              | b0 :: br => let k := wv_kind first par in
                     if k =? 2 then is_some (canon_wv_int (b0 :: br))
                     else if k =? 3 then inline_cond (b0 :: br) || is_some (canon_wv_date (b0 :: br)) else true
              end = true ->
              match abs_value5 e st false None [] par buf with Some (w, st'0) => Some (items_of w, st'0) | None => None end = Some (items, st') ->
              exists evs, D1.den_items (S.mk_denv L tb) d me items dst = Some (evs, dst) /\
                merge_chars evs = merge_chars (match buf with
                                               | [] => []
                                               | b0 :: br => let k := wv_kind first par in
                                                      if k =? 2 then chars (unwrap (canon_wv_int (b0 :: br)))
                                                      else if k =? 3 then (if inline_cond (b0 :: br) then chars (b0 :: br) else chars (unwrap (canon_wv_date (b0 :: br))))
                                                      else chars (b0 :: br)
                                               end) /\ st' = st).
    { intros buf Hb Hmb. rewrite (abs_value5_wv st par buf Hic). destruct buf as [|x s]; [intros E; injection E as <- <-; exists []; auto|].
      cbv zeta in Hmb |- *. unfold abs_wv_content. cbv zeta. rewrite (kind_eq first st par Hc). fold (inline_cond (x :: s)).
      destruct (wv_kind first par =? 2) eqn:K2.
      - (* integer *)
        intros E; injection E as <- <-. unfold canon_wv_int in *.
        destruct (S.spec_wv_integer (wv_int_payload (x :: s))) as [o|] eqn:SI; [|discriminate].
        destruct (kind_first first par) as (Hf & p & t & o0 & nm & -> & Hk); [intros Z; rewrite Z in K2; discriminate|].
        destruct (Hdc Hf p t o0 nm eq_refl) as [Hcur ->]. rewrite Hk in K2. destruct (wv_switch_spec p t) as [S2 _]. specialize (S2 K2).
        destruct (wv_int_payload_ok (x :: s)) as [B1 B2].
        exists (chars o). split; [|auto].
        cbn [items_of wopq flat_map app D1.den_items S.den_item S.den_str S.de_lang]. rewrite B1, B2, Hcur. cbn [andb].
        unfold S.opaque_kind. rewrite Hids, S2. cbn [S.okind_eqb S.spec_opaque]. rewrite SI. cbn [unwrap]. now rewrite app_nil_r.
      - destruct (wv_kind first par =? 3) eqn:K3.
        + destruct (inline_cond (x :: s)) eqn:IC.
          * intros E; injection E as <- <-. exists (chars (x :: s)). split; [|auto].
            cbn [items_of flat_map app D1.den_items S.den_item S.den_str]. unfold okb in Hb. rewrite Hb. reflexivity.
          * cbn [orb] in Hmb. unfold canon_wv_date in *.
            destruct (wv_dt_opaque_payload (x :: s)) as [dd|] eqn:PD; [|discriminate]. cbn [option_map].
            destruct (S.spec_wv_datetime dd) as [o|] eqn:SD; [|discriminate].
            intros E; injection E as <- <-.
            destruct (kind_first first par) as (Hf & p & t & o0 & nm & -> & Hk); [intros Z; rewrite Z in K3; discriminate|].
            destruct (Hdc Hf p t o0 nm eq_refl) as [Hcur ->]. rewrite Hk in K3. destruct (wv_switch_spec p t) as [_ S3]. destruct (S3 K3) as [S3a S3b].
            destruct (wv_dt_payload_ok _ _ PD) as [B1 B2].
            exists (chars o). split; [|auto].
            cbn [items_of wopq flat_map app D1.den_items S.den_item S.den_str S.de_lang]. rewrite B1, B2, Hcur. cbn [andb].
            unfold S.opaque_kind. rewrite Hids, S3a, S3b. cbn [S.okind_eqb S.spec_opaque]. rewrite SD. cbn [unwrap]. now rewrite app_nil_r.
        + destruct (get_ext_from_xml (e_lang e) (x :: s)) as [r|] eqn:GX.
          * (* the whole text is the name of an extension token *)
            intros E; injection E as <- <-. exists (chars (x :: s)). split; [|auto].
            unfold get_ext_from_xml in GX. rewrite HE in GX. cbn [to_blang bl_exts] in GX.
            destruct (l_exts L) as [rows0|] eqn:LX; cbn [omap] in GX; [|discriminate].
            rewrite find_map in GX. destruct (find _ rows0) as [r0|] eqn:F0; cbn [option_map] in GX; [|discriminate]. injection GX as <-.
            apply find_some in F0 as [Hin0 Hn0]. cbn [cv_ext be_name] in Hn0. apply beq_eq in Hn0.
            unfold exts_ok in HXO. rewrite LX in HXO. cbn [opt_list] in HXO. rewrite forallb_forall in HXO. specialize (HXO r0 Hin0).
            destruct (S.lookup_ext L (u8 (e_tok r0))) as [r'|] eqn:LK; [|discriminate]. apply beq_eq in HXO.
            cbn [items_of flat_map app D1.den_items S.den_item S.den_str S.sw_okb S.den_ext S.de_lang cv_ext be_tok].
            unfold S.den_ext. cbv zeta. cbn [S.de_lang]. rewrite Hwml, Hwvf.
            replace (S.u32_okb (u8 (e_tok r0))) with true by (symmetry; unfold S.u32_okb, u8; apply N.ltb_lt; pose proof (N.mod_lt (e_tok r0) 256 ltac:(discriminate)); lia).
            rewrite LK, HXO, Hn0. cbn [S.apply_sw]. destruct dst; reflexivity.
          * (* ordinary text *)
            destruct (split_value e st false (x :: s)) as [l|] eqn:SV; [|discriminate]. intros E.
            assert (Hs0 : sub TF st).
            { pose proof (abs_velts_same l st) as [S1 _]. destruct (abs_velts st l) as [w0 st0]. injection E as _ <-. cbn [snd] in S1.
              intros y Hy. apply Hsub. now rewrite S1. }
            destruct (content_split_facts e L TF st _ l HE HREF Hic Hs0 Hb GX SV) as [Hav Hden].
            pose proof (split_value_content_notattr e st _ l SV) as Hn.
            pose proof (items_den L TF tb HRES HU32 HREF l d me dst st Hav Hn) as DI.
            pose proof (notattr_state l st Hn) as Hst.
            destruct (abs_velts st l) as [w0 st0]. cbn [fst snd] in *. injection E as <- <-.
            eexists. split; [exact DI|]. split; [|exact Hst].
            rewrite merge_pieces_f, Hden. reflexivity. }
    unfold tev_wv, wv_norm in *.
    destruct (e_remove_blanks e) eqn:R; cbn [negb andb] in *.
    - destruct (only_ws c) eqn:W.
      + injection A as <- <-. exists []. auto.
      + rewrite (okb_cstr _ (okb_strip c Hokb)) in A.
        destruct (VAL (strip_blanks c) (okb_strip c Hokb) Hm A) as (evs & Dn & M & ->). exists evs. auto 6.
    - rewrite (okb_cstr _ Hokb) in A.
      destruct (VAL c Hokb Hm A) as (evs & Dn & M & ->). exists evs. auto 6.
  Qed.
End Wv.

(* ---- the document, Wireless-Village class -------------------------------------------------------------------------------------------- *)
Definition aok_none (a : attr) : bool := false.

Definition doc_events_wv (L : lang) (e : env) (keep : bool) (root : node) : list P.event :=
  P.EvStartDoc 106 (l_id L)
    :: events5 (fun a => at_value a) (tev_wv keep) (has_attr_table e) true None root ++ [P.EvEndDoc].

Theorem strict_decode_of_encoding_wv tblb TBL L o tag attrs ch bs :
  let e := enc_env (to_blang L) o in
  is_wv (e_lang e) = true -> exts_ok L = true -> tag_tbl_ok e = true ->
  tree_ok5 L aok_none (tok_wv (o_keep_ws o)) 0 true None (NElt tag attrs ch) = true ->
  find (fun x => l_id x =? l_id L) TBL = Some L ->
  o_version o < 4 -> header_public_id e < 4294967296 -> header_public_id e <> 0 ->
  (match header_pid e with Some p => okb p = true | None => True end) ->
  len bs < 4294967296 ->
  enc_wbxml tblb (to_blang L) o [NElt tag attrs ch] = EOk bs ->
  exists d evs, bs = S.serialize d /\ S.strict_doc d = true /\
            S.denote_with TBL (Some L) d = Some evs /\ S.decode_lang TBL (l_id L) bs = Some evs /\
            merge_chars evs = merge_chars (doc_events_wv L e (o_keep_ws o) (NElt tag attrs ch)).
Proof.
  cbv zeta. intros HW HXO HTB HT HFind Hv Hp1 Hp0 Hpid Hlen E. set (e := enc_env (to_blang L) o) in *.
  assert (HE : e_lang e = to_blang L) by reflexivity.
  assert (Ho : e_ignore_empty e = e_remove_blanks e) by reflexivity.
  assert (Hk : negb (e_remove_blanks e) = o_keep_ws o) by (subst e; unfold enc_env, make_env; cbn; now rewrite negb_involutive).
  assert (Haok : forall a, aok_none a = true -> attr_ok3 L a = true) by (intros a H; discriminate).
  assert (Htok : forall f p c, tok_wv (o_keep_ws o) f p c = true -> allc S.is_byte c = true).
  { intros f p c H. unfold tok_wv in H. apply andb_true_iff in H as [H _]. apply andb_true_iff in H as [_ H]. exact (okb_lt _ H). }
  pose proof (tree_ok5_frag5 L aok_none (tok_wv (o_keep_ws o)) _ _ _ _ HT) as HF.
  destruct (enc_wbxml_full tblb (to_blang L) o tag attrs ch bs HTB HF E Hlen) as (body & st' & root & EB & AN & HS & Hstrict).
  fold e in AN, HS, Hstrict.
  assert (Hsz : if e_use_strtbl e then tbl_size (final_tbl e st') < 4294967296
                else match header_pid e with Some p => len p + 1 < 4294967296 | None => True end).
  { rewrite enc_wbxml_form_local, EB in E. injection E as <-. rewrite len_app in Hlen.
    pose proof (fill_header_len e st') as HL. fold e in Hlen.
    destruct (e_use_strtbl e); [lia|]. destruct (header_pid e); [lia|exact I]. }
  destruct (abs_node5_facts tblb e _ _ _ _ _ AN) as (_ & _ & Hsame).
  assert (NOTBL : e_use_strtbl e = false -> strtbl st' = [] /\ strtbl_len st' = 0).
  { intros HU. destruct (Hsame HU) as [S1 S2]. unfold start_state in S1, S2. rewrite HU in S1, S2. cbn in S1, S2. auto. }
  assert (TLT : tbl_lt (strtbl st') = true)
    by (exact (abs_node5_lt tblb L e aok_none (tok_wv (o_keep_ws o)) Haok Htok _ None true 0 _ _ _ HT (start_state_lt5 L e _ _ Haok Htok _ 0 HT) AN)).
  destruct (final_facts_gen tblb (to_blang L) o _ _ st' EB TLT NOTBL Hpid Hsz) as (G1 & G2 & G3 & G4 & G5 & G6 & G7 & G8 & G9).
  assert (Hst0 : tagcp (start_state e [NElt tag attrs ch]) = 0 /\ attrcp (start_state e [NElt tag attrs ch]) = 0 /\
                 cur_tag (start_state e [NElt tag attrs ch]) = None /\ in_cdata (start_state e [NElt tag attrs ch]) = false).
  { unfold start_state. destruct (e_use_strtbl e); [destruct (strtbl_initialize _ _)|]; cbn; auto. }
  destruct Hst0 as (Z2 & Z3 & Z4 & Z5).
  assert (Hdc : dcur_ok true None (S.mk_dstate 0 0 None) None) by (intros _ p t o0 nm Ep; discriminate).
  assert (HA : forall l st na ws st0 (dst : S.dstate),
    sub (final_tbl e st') st0 -> forallb aok_none l = true -> in_cdata st = false -> S.ds_attrcp dst = attrcp st ->
    abs_attrs5 e st na l = Some (ws, st0) ->
    exists dst', S.den_attrs (S.mk_denv L (doc_strtbl e st')) ws dst = Some (map (attr_event5 (fun a => at_value a)) l, dst') /\
                 S.ds_attrcp dst' = attrcp st0 /\ S.ds_tagcp dst' = S.ds_tagcp dst /\ S.ds_cur dst' = S.ds_cur dst /\
                 tagcp st0 = tagcp st /\ cur_tag st0 = cur_tag st /\ in_cdata st0 = false).
  { intros l st na ws st0 dst _ Hl Hic Hcp. destruct l as [|a r]; [|discriminate]. cbn [abs_attrs5].
    intros E0; injection E0 as <- <-. exists dst. cbn. auto 8. }
  rewrite <- Hk in HT.
  destruct (all_node_den5 tblb L e HE (final_tbl e st') (doc_strtbl e st') G1 G2 aok_none (fun a => at_value a)
              (tok_wv (negb (e_remove_blanks e))) (tev_wv (negb (e_remove_blanks e))) HA
              (fun first st par c items st0 d me dst => text_den_wv L e HE HW HXO Ho (final_tbl e st') (doc_strtbl e st') G1 G2 G3 first st par c items st0 d me dst)
              (NElt tag attrs ch) true None 0 None _ [root] st' (S.mk_dstate 0 0 None) HT G4 Z5 Z4 Hdc (eq_sym Z2) (eq_sym Z3) AN)
    as (evs & dst' & DN & MG & _).
  assert (Hden : exists evs', S.denote_with TBL (Some L) (abs_doc2 e st' root) = Some evs' /\
                              merge_chars evs' = merge_chars (doc_events_wv L e (o_keep_ws o) (NElt tag attrs ch))).
  { cbn [abs_node5] in AN.
    destruct (abs_tag e _ tag _ _) as [[[sw wtag] st2]|]; [|discriminate].
    destruct (if has_attr_table e then abs_attrs5 e st2 attrs attrs else Some ([], st2)) as [[ws st3]|]; [|discriminate].
    destruct (abs_seq (abs_node5 tblb e) (Some tag) ch st3) as [[its st4]|]; [|discriminate]. injection AN as <- <-.
    eexists. split; [eapply doc_wrap; [exact DN|exact Hv|exact Hp1|exact Hp0|exact G5|exact G6|exact G7]|].
    unfold doc_events_wv. cbn [merge_chars]. f_equal.
    apply merge_app_congr; [|reflexivity]. rewrite MG, Hk. reflexivity. }
  destruct Hden as (evs' & Hden & MG').
  exists (abs_doc2 e st' root), evs'. split; [exact HS|]. split; [exact Hstrict|]. split; [exact Hden|]. split; [|exact MG'].
  rewrite HS. apply Proofs.ParserProofsStrict3.decode_lang_serialize; [|exact Hstrict]. rewrite HFind. exact Hden.
Qed.

(* C07 on this class (the string table is forced off for Wireless Village by the encoder; version and anonymity vary) *)
Theorem options_decode_equal_wv tblb TBL L v1 v2 s1 s2 a1 a2 k tag attrs ch bs1 bs2 :
  let o1 := mk_opts v1 s1 k a1 in let o2 := mk_opts v2 s2 k a2 in
  is_wv (to_blang L) = true -> exts_ok L = true -> tag_tbl_ok (enc_env (to_blang L) o1) = true ->
  tree_ok5 L aok_none (tok_wv k) 0 true None (NElt tag attrs ch) = true ->
  find (fun x => l_id x =? l_id L) TBL = Some L ->
  v1 < 4 -> v2 < 4 -> l_pub_num L < 4294967296 -> l_pub_num L <> 0 ->
  (match l_pub_text L with Some p => okb (P.B p) = true | None => True end) ->
  len bs1 < 4294967296 -> len bs2 < 4294967296 ->
  enc_wbxml tblb (to_blang L) o1 [NElt tag attrs ch] = EOk bs1 ->
  enc_wbxml tblb (to_blang L) o2 [NElt tag attrs ch] = EOk bs2 ->
  exists ev1 ev2, S.decode_lang TBL (l_id L) bs1 = Some ev1 /\ S.decode_lang TBL (l_id L) bs2 = Some ev2 /\
                  merge_chars ev1 = merge_chars ev2.
Proof.
  cbv zeta. intros HW HXO HTB HT HFind Hv1 Hv2 Hn1 Hn0 Hpt Hl1 Hl2 E1 E2.
  assert (PID : forall v s a, header_public_id (enc_env (to_blang L) (mk_opts v s k a)) < 4294967296 /\
                              header_public_id (enc_env (to_blang L) (mk_opts v s k a)) <> 0 /\
                              match header_pid (enc_env (to_blang L) (mk_opts v s k a)) with
                              | Some p => okb p = true | None => True end).
  { intros v s a. unfold header_public_id, header_pid, header_public_id. cbn [e_anonymous enc_env make_env e_lang to_blang bl_pub_num bl_pub_text o_anonymous].
    destruct a; cbn [negb andb].
    - rewrite andb_false_r. split; [lia|]. split; [lia|exact I].
    - split; [exact Hn1|]. split; [exact Hn0|]. destruct ((l_pub_num L =? 1) && true); [|exact I].
      destruct (l_pub_text L); [exact Hpt|exact I]. }
  destruct (PID v1 s1 a1) as (P1 & P2 & P3). destruct (PID v2 s2 a2) as (Q1 & Q2 & Q3).
  destruct (strict_decode_of_encoding_wv tblb TBL L (mk_opts v1 s1 k a1) tag attrs ch bs1 HW HXO HTB HT HFind Hv1 P1 P2 P3 Hl1 E1)
    as (d1 & ev1 & _ & _ & _ & D1' & M1).
  destruct (strict_decode_of_encoding_wv tblb TBL L (mk_opts v2 s2 k a2) tag attrs ch bs2 HW HXO HTB HT HFind Hv2 Q1 Q2 Q3 Hl2 E2)
    as (d2 & ev2 & _ & _ & _ & D2' & M2).
  exists ev1, ev2. split; [exact D1'|]. split; [exact D2'|]. rewrite M1, M2. reflexivity.
Qed.
