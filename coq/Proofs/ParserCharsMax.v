(* C01 (parser core) — every single character-data event of a successful parse is short: at most
   5 |bs| + Kmax + 121 bytes (an inline string or an opaque is part of the document, base64 / typed content at most
   4 times the opaque plus 100, a string-table reference at most the (padded) table, an extension a table string).
   Used for the cubic bound on the output of the whole conversion (Proofs/ConvConcreteProofs.v). *)
From Coq Require Import String Ascii.
From Coq Require Import List NArith ZArith Lia Bool ZifyBool ZifyN.
From Wbxml Require Import Base.Bits Model.Codec Model.TablesDefs Model.Parser Proofs.ParserTotal Proofs.ParserGrowth Proofs.ParserCount.
Import ListNotations.
Local Open Scope N_scope.

Definition chars_le (B : nat) (evs : list event) : Prop :=
  Forall (fun e => match e with EvChars b => (length b <= B)%nat | _ => True end) evs.

Lemma chars_le_app B a b : chars_le B a -> chars_le B b -> chars_le B (a ++ b).
Proof. unfold chars_le. intros Ha Hb. apply Forall_app. split; assumption. Qed.

Lemma chars_le_mono B B' evs : (B <= B')%nat -> chars_le B evs -> chars_le B' evs.
Proof.
  unfold chars_le. intros HB H. induction H as [|e r He Hr IH]; constructor; [|exact IH].
  destruct e; try exact I. lia.
Qed.

Lemma chars_event_le B o : (length (opt_bytes o) <= B)%nat -> chars_le B (chars_event o).
Proof. destruct o as [[|b r]|]; cbn [chars_event opt_bytes]; intros H; repeat constructor. exact H. Qed.

Definition maxc (B : nat) (x : pres (list event * pstate)) : Prop :=
  match x with POk (evs, _) => chars_le B evs | _ => True end.

Section CharsMax.
Variable env : penv.
Variable n0 : nat.                       (* the length of the body: every state reads inside it *)
Let Bm : nat := (4 * n0 + Nn env + 110)%nat.

Lemma string_max r s r' : parse_string env r = POk (s, r') -> (length s <= length r + Nn env)%nat.
Proof.
  unfold parse_string, parse_inline, parse_termstr, parse_tableref.
  destruct r as [|b r]; cbn [is_token]; [discriminate|]. cbn [tl].
  destruct (b =? 3).
  - destruct (conv_term (e_charset env) r) as [[s0 t]|e|] eqn:E; try discriminate. apply conv_term_len in E.
    intros H. injection H as <- _. cbn [length]. lia.
  - destruct (b =? 131); [|discriminate].
    destruct (parse_mb_uint32 r) as [[i r1]|e|]; try discriminate.
    destruct (get_strtbl_reference env i) as [s0|e|] eqn:E; try discriminate. apply (ref_len env) in E.
    intros H. injection H as <- _. lia.
Qed.

Lemma entity_max r s r' : parse_entity r = POk (s, r') -> (length s <= 6)%nat.
Proof.
  unfold parse_entity. destruct (parse_mb_uint32 (tl r)) as [[c r1]|e|]; try discriminate.
  destruct (entity_utf8 c) as [s0|e] eqn:E; [|discriminate]. apply entity_len in E. intros H. injection H as <- _. exact E.
Qed.

Lemma opaque_max r d r' : parse_opaque r = POk (d, r') -> (length d <= length r)%nat.
Proof.
  unfold parse_opaque. destruct r as [|t r0]; [discriminate|]. cbn [tl].
  pose proof (mb_ok r0) as Hm. unfold ok1 in Hm.
  destruct (parse_mb_uint32 r0) as [[len r1]|e|]; try discriminate.
  destruct (blen r1 <? len); [discriminate|]. intros H. injection H as <- _.
  apply sfx_len in Hm. unfold take. rewrite firstn_length. cbn [length]. lia.
Qed.

Lemma extension_max sp st o st' : parse_extension env sp st = POk (o, st') ->
  (length (opt_bytes o) <= length (s_rest st) + Nn env + 10)%nat.
Proof.
  unfold parse_extension.
  pose proof (opt_switch_page_ok0 sp st) as H0. unfold okP in H0.
  destruct (opt_switch_page sp st) as [st1|e|]; try discriminate.
  pose proof (uint8_ok (s_rest st1)) as H1. unfold ok1 in H1.
  destruct (parse_uint8 (s_rest st1)) as [[tok r1]|e|]; try discriminate.
  apply sfx_len in H0. apply sfx_len in H1.
  assert (Hsuf : forall tk : N, (length (if ((tk =? 64) || (tk =? 128))%N then Parser.B ":escape" else if ((tk =? 65) || (tk =? 129))%N then Parser.B ":unesc" else Parser.B ":noesc") <= 7)%nat).
  { intros tk. destruct (_ || _); [vm_compute; lia|]. destruct (_ || _); vm_compute; lia. }
  destruct (is_wml_lang (l_id (e_lang env))).
  - destruct ((tok =? 192) || (tok =? 193) || (tok =? 194)); [intros H; injection H as <- _; cbn; lia|].
    destruct ((tok =? 64) || (tok =? 65) || (tok =? 66)).
    + unfold parse_termstr. destruct (conv_term (e_charset env) r1) as [[s t]|e|] eqn:E; try discriminate.
      apply conv_term_len in E. intros H.
      apply (f_equal (fun x => match x with POk (o', _) => length (opt_bytes o') | _ => 0%nat end)) in H. cbn [opt_bytes] in H.
      rewrite !app_length in H. rewrite <- H.
      clear Hsuf. repeat match goal with |- context [if ?c then _ else _] => destruct c end;
        change (length (Parser.B "$(")) with 2%nat; change (length (Parser.B ")")) with 1%nat;
        change (length (Parser.B ":escape")) with 7%nat; change (length (Parser.B ":unesc")) with 6%nat; change (length (Parser.B ":noesc")) with 6%nat; lia.
    + destruct ((tok =? 128) || (tok =? 129) || (tok =? 130)); [|discriminate].
      destruct (parse_mb_uint32 r1) as [[i r2]|e|]; try discriminate.
      destruct (get_strtbl_reference env i) as [s|e|] eqn:E; try discriminate. apply (ref_len env) in E.
      intros H.
      apply (f_equal (fun x => match x with POk (o', _) => length (opt_bytes o') | _ => 0%nat end)) in H. cbn [opt_bytes] in H.
      rewrite !app_length in H. rewrite <- H.
      clear Hsuf. repeat match goal with |- context [if ?c then _ else _] => destruct c end;
        change (length (Parser.B "$(")) with 2%nat; change (length (Parser.B ")")) with 1%nat;
        change (length (Parser.B ":escape")) with 7%nat; change (length (Parser.B ":unesc")) with 6%nat; change (length (Parser.B ":noesc")) with 6%nat; lia.
  - destruct (is_wv_lang (l_id (e_lang env))).
    + destruct (negb (tok =? 128)); [intros H; injection H as <- _; cbn; lia|].
      destruct (parse_mb_uint32 r1) as [[v r2]|e|]; try discriminate.
      destruct (l_exts (e_lang env)) as [t|] eqn:Et; [|discriminate].
      destruct (find_ext t v) as [row|] eqn:Ef; [|intros H; injection H as <- _; cbn; lia].
      apply find_ext_In in Ef.
      assert (Hk : (length (Parser.B (e_name row)) <= Kexts (e_lang env))%nat).
      { unfold Kexts. rewrite Et. cbn [opt_list]. apply maxl_In. apply (in_map (fun r => slen (e_name r)) t row Ef). }
      intros H. injection H as <- _. cbn [opt_bytes]. pose proof (Kfacts (e_lang env)). unfold Nn. lia.
    + intros H. injection H as <- _. cbn. lia.
Qed.

Lemma pi_max fuel st : maxc Bm (parse_pi fuel env st).
Proof.
  unfold maxc, parse_pi. destruct (parse_attr_start env _) as [[[name start] st1]|e|]; try exact I.
  destruct (pi_values_loop fuel env st1 _) as [[value st2]|e|]; try exact I. repeat constructor.
Qed.

Lemma content_max fuel n pelt st : (length (s_rest st) <= n0)%nat -> maxc Bm (pelt st) -> maxc Bm (parse_content fuel env n pelt st).
Proof.
  intros Hl Hp. unfold parse_content. cbn zeta. destruct (s_rest st) as [|b0 r0] eqn:Er; [exact I|]. rewrite <- Er in *.
  destruct (is_extension (s_rest st)).
  { destruct (parse_extension env TagSpace st) as [[v st1]|e|] eqn:E; try exact I. apply extension_max in E.
    unfold maxc. apply chars_event_le. subst Bm. lia. }
  destruct (is_token (s_rest st) 2).
  { destruct (parse_entity (s_rest st)) as [[s r1]|e|] eqn:E; try exact I. apply entity_max in E.
    unfold maxc. apply chars_event_le. cbn [opt_bytes]. subst Bm. lia. }
  destruct (is_string (s_rest st)).
  { destruct (parse_string env (s_rest st)) as [[s r1]|e|] eqn:E; try exact I. apply string_max in E.
    unfold maxc. apply chars_event_le. cbn [opt_bytes]. subst Bm. lia. }
  destruct (is_token (s_rest st) 195).
  { destruct (parse_opaque (s_rest st)) as [[d r1]|e|] eqn:E; try exact I. apply opaque_max in E.
    destruct (decode_opaque_content env (s_cur st) d) as [d'|e|] eqn:E2; try exact I. apply decode_content_len in E2.
    unfold maxc. apply chars_event_le. cbn [opt_bytes]. subst Bm. lia. }
  destruct (is_token (s_rest st) 67); [apply pi_max|].
  destruct (is_token (s_rest st) 0).
  { destruct (parse_switch_page TagSpace st) as [st1|e|]; try exact I. constructor. }
  destruct (MAX_NESTING_DEPTH <=? n); [exact I|exact Hp].
Qed.

Lemma element_with_max fuel cloop st : (length (s_rest st) <= n0)%nat ->
  (forall st', (length (s_rest st') <= n0)%nat -> maxc Bm (cloop st')) ->
  maxc Bm (parse_element_with fuel env cloop st).
Proof.
  intros Hl Hc. unfold parse_element_with.
  pose proof (opt_switch_page_ok0 TagSpace st) as H0. unfold okP in H0.
  destruct (opt_switch_page TagSpace st) as [st0|e|]; try exact I.
  pose proof (stag_ok1 env st0) as H1. unfold ok1 in H1.
  destruct (parse_stag env st0) as [[[tag elt] r]|e|]; try exact I.
  cbn zeta.
  set (st1 := match elt with TagTok p t _ => set_cur (set_rest st0 r) (Some (p, t)) | TagLit _ => set_rest st0 r end).
  assert (E1 : s_rest st1 = r) by (subst st1; destruct elt; reflexivity). clearbody st1.
  assert (Ha : match (if N.land tag 128 =? 128 then attrs_loop fuel env st1 [] else POk ([], st1)) with
               | POk (al, st2) => (length (s_rest st2) <= length (s_rest st1))%nat
               | _ => True end).
  { destruct (N.land tag 128 =? 128); [|cbn; lia]. pose proof (attrs_loop_cnt env fuel st1 []) as Hx.
    destruct (attrs_loop fuel env st1 []) as [[al st2]|e|]; try exact I. cbn [length] in Hx. lia. }
  destruct (if N.land tag 128 =? 128 then attrs_loop fuel env st1 [] else POk ([], st1)) as [[attrs st2]|e|]; try exact I.
  rewrite E1 in Ha. apply sfx_len in H0. apply sfx_len in H1.
  destruct (N.land tag 64 =? 64).
  - assert (H2 : (length (s_rest st2) <= n0)%nat) by lia.
    specialize (Hc st2 H2). unfold maxc in *. destruct (cloop st2) as [[evs st3]|e|]; try exact I.
    constructor; [exact I|]. apply chars_le_app; [exact Hc|repeat constructor].
  - repeat constructor.
Qed.

Lemma content_loop_max fuel : forall n st, (length (s_rest st) <= n0)%nat -> maxc Bm (content_loop fuel env n st).
Proof.
  induction fuel as [|f IH]; intros n st Hl; cbn [content_loop]; [exact I|].
  destruct (is_token (s_rest st) 1); [constructor|].
  assert (Hp : maxc Bm (parse_element_with f env (content_loop f env (n + 1)) st)).
  { apply element_with_max; [exact Hl|]. intros st' Hl'. apply IH. exact Hl'. }
  assert (Hcn : cntS (parse_element_with f env (content_loop f env (n + 1)) st) st cnt).
  { apply element_with_cnt. intros st'. apply content_loop_cnt. }
  pose proof (content_max f n _ st Hl Hp) as Hm. pose proof (content_cnt env f n _ st Hcn) as Hk. unfold cntS in Hk.
  destruct (parse_content f env n (parse_element_with f env (content_loop f env (n + 1))) st) as [[evs st1]|e|]; try exact I.
  assert (H1 : (length (s_rest st1) <= n0)%nat) by lia.
  specialize (IH n st1 H1). unfold maxc in *. destruct (content_loop f env n st1) as [[evs' st2]|e|]; try exact I.
  apply chars_le_app; assumption.
Qed.

Lemma body_pi_loop_max fuel : forall st, maxc Bm (body_pi_loop fuel env st).
Proof.
  induction fuel as [|f IH]; intros st; cbn [body_pi_loop]; [exact I|].
  destruct (is_token (s_rest st) 67); [|constructor].
  pose proof (pi_max f st) as Hp. unfold maxc in *.
  destruct (parse_pi f env st) as [[evs st1]|e|]; try exact I.
  specialize (IH st1). destruct (body_pi_loop f env st1) as [[evs' st2]|e|]; try exact I.
  apply chars_le_app; assumption.
Qed.

Lemma body_max fuel st : (length (s_rest st) <= n0)%nat -> maxc Bm (parse_body fuel env st).
Proof.
  intros Hl. unfold parse_body.
  pose proof (body_pi_loop_max fuel st) as H1. pose proof (body_pi_loop_cnt env fuel st) as K1. unfold maxc, cntS in *.
  destruct (body_pi_loop fuel env st) as [[e1 st1]|e|]; try exact I.
  assert (L1 : (length (s_rest st1) <= n0)%nat) by lia.
  assert (He : maxc Bm (parse_element fuel env st1)).
  { unfold parse_element. apply element_with_max; [exact L1|]. intros st' Hl'. apply content_loop_max. exact Hl'. }
  unfold maxc in He. destruct (parse_element fuel env st1) as [[e2 st2]|e|]; try exact I.
  pose proof (body_pi_loop_max fuel st2) as H3. unfold maxc in H3.
  destruct (body_pi_loop fuel env st2) as [[e3 st3]|e|]; try exact I.
  apply chars_le_app; [exact H1|]. apply chars_le_app; assumption.
Qed.
End CharsMax.

Theorem parse_chars_max tbl forced meta fuel bs evs :
  parse_with tbl forced meta fuel bs = POk evs -> chars_le (5 * length bs + Kmax tbl + 121) evs.
Proof.
  unfold parse_with. destruct bs as [|b0 bs0] eqn:Ebs; [discriminate|]. rewrite <- Ebs.
  generalize (uint8_ok bs). unfold ok1. destruct (parse_uint8 bs) as [[version r0]|e|]; try discriminate. intros H0.
  generalize (publicid_ok r0). unfold ok1. destruct (parse_publicid r0) as [[[pubid pubidx] r1]|e|]; try discriminate. intros H1.
  set (cs := if version =? 0 then POk (0, r1) else parse_charset meta r1).
  assert (Hcs : ok1 0 cs r1).
  { subst cs. destruct (version =? 0); [cbn; apply sfx_refl|].
    pose proof (charset_ok meta r1) as Hc. unfold ok1 in *. destruct (parse_charset meta r1) as [[c r]|e|]; try tauto.
    apply (sfx_weaken 1 0); [lia|exact Hc]. }
  clearbody cs. unfold ok1 in Hcs. destruct cs as [[charset r2]|e|]; try discriminate.
  destruct (parse_strtbl r2) as [[[strtbl strtbl_len] r3]|e|] eqn:Est; try discriminate.
  destruct (strtbl_size r2 strtbl strtbl_len r3 Est) as [Hsz H3].
  destruct (check_public_id _ _ _ _ _ _ _) as [l|] eqn:Ecp; [|discriminate].
  apply check_public_id_In in Ecp.
  match goal with |- context [parse_body fuel ?env ?st] =>
    pose proof (body_max env (length bs) fuel st) as Hb; set (env0 := env) in *; set (st0 := st) in * end.
  assert (Hr3 : (length (s_rest st0) <= length bs)%nat).
  { subst st0. cbn [s_rest]. apply sfx_len in H0. apply sfx_len in H1. apply sfx_len in Hcs. apply sfx_len in H3. lia. }
  specialize (Hb Hr3). unfold maxc in Hb. destruct (parse_body fuel env0 st0) as [[body st']|e|]; try discriminate.
  intros H. injection H as <-.
  assert (HK : (Klang l <= Kmax tbl)%nat) by (unfold Kmax; apply maxl_In; apply in_map; exact Ecp).
  assert (HB : (4 * length bs + Nn env0 + 110 <= 5 * length bs + Kmax tbl + 121)%nat).
  { unfold Nn, Lenv. subst env0. cbn [e_lang e_strtbl]. apply sfx_len in H0. apply sfx_len in H1. apply sfx_len in Hcs. lia. }
  constructor; [exact I|]. apply chars_le_app; [|repeat constructor]. exact (chars_le_mono _ _ _ HB Hb).
Qed.
