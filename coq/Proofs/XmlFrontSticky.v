(* C02 (front end) — the STRICT reading of "sticky error" holds since /repo c0648d3: whenever an error is recorded, the
   node `current` carries no cached base64 text, so the one thing the end-element callback does before its error check
   (flush_binary) is the identity on every failed context that can arise; all callbacks except the XML declaration and
   the DOCTYPE (which touch tree->orig_charset / tree->lang only) then leave the context exactly as it is. *)
From Coq Require Import List NArith Lia Bool.
From Wbxml Require Import Model.TablesDefs Model.Tables Model.Codec Model.LangSelect Model.EncWbxml Model.XmlFront.
From Wbxml Require Import Proofs.XmlFrontProofs Proofs.XmlFrontBalance Proofs.XmlFrontNoUB.
Import ListNotations.
Local Open Scope N_scope.

(* `current` has no cached base64 text that the end-element callback would decode *)
Definition no_cache (c : ctx) : Prop :=
  match c_spine c with
  | f :: _ => match f_kind f with
              | FElt (TagTok _ _ o _) _ (Some _) => (N.land o WBXML_TAG_OPTION_BINARY =? 0) = true
              | _ => True
              end
  | [] => True
  end.

Lemma no_cache_flush_id c : no_cache c -> flush_binary c = c.
Proof.
  unfold no_cache, flush_binary. destruct (c_spine c) as [|f up]; [reflexivity|].
  destruct (f_kind f) as [[p t o nm|nm] attrs [content|]|]; try reflexivity. intros ->. reflexivity.
Qed.

Lemma no_cache_flush c : no_cache (flush_binary c).
Proof.
  unfold flush_binary. destruct (c_spine c) as [|f up] eqn:S; [unfold no_cache; now rewrite S|].
  destruct (f_kind f) as [[p t o nm|nm] attrs [content|]|] eqn:K; try (unfold no_cache; rewrite S, K; exact I).
  destruct (N.land o WBXML_TAG_OPTION_BINARY =? 0) eqn:B; cbn [negb].
  - unfold no_cache. rewrite S, K. exact B.
  - destruct (buffer_b64_dec content); unfold no_cache; cbn; [|exact I].
    unfold add_text_kid. cbn. destruct (f_rkids f) as [|[] ?]; cbn; exact I.
Qed.

Lemma no_cache_spine c c' : c_spine c' = c_spine c -> no_cache c -> no_cache c'.
Proof. unfold no_cache. now intros ->. Qed.

Lemma no_cache_nil c : c_spine c = [] -> no_cache c.
Proof. unfold no_cache. now intros ->. Qed.

(* the invariant: a failed context has no such cache *)
Definition cache_inv (c : ctx) : Prop := failed c -> no_cache c.

Lemma inv_of_no_cache c : no_cache c -> cache_inv c.
Proof. intros H _. exact H. Qed.

Lemma inv_of_ok c : c_error c = WBXML_OK -> cache_inv c.
Proof. intros E F. now elim F. Qed.

Section S.
  Variable main : list lang.
  Variable sub : bytes -> xtree + N.
  Variable input : bytes.

  Notation step := (step main sub input).
  Notation run := (run main sub input).

  Lemma push_frame_inv c k err : c_error c = WBXML_OK -> cache_inv (push_frame c (mk_frame k []) err).
  Proof.
    intros E. unfold push_frame. destruct (c_spine c) as [|g up] eqn:S; [destruct (c_root c)|].
    - apply inv_of_no_cache, no_cache_nil. exact S.
    - apply inv_of_ok. exact E.
    - apply inv_of_ok. exact E.
  Qed.

  Lemma add_text_inv c t : c_error c = WBXML_OK -> cache_inv (add_text c t).
  Proof.
    intros E. unfold add_text. destruct (c_spine c) as [|g up] eqn:S; [destruct (c_root c)|].
    - apply inv_of_no_cache, no_cache_nil. exact S.
    - apply inv_of_ok. exact E.
    - apply inv_of_ok. exact E.
  Qed.

  Lemma leave_current_inv c : c_error c = WBXML_OK -> cache_inv (leave_current c).
  Proof.
    intros E. unfold leave_current. destruct (c_spine c) as [|f [|p r]] eqn:S.
    - apply inv_of_no_cache, no_cache_nil. exact S.
    - apply inv_of_ok. exact E.
    - destruct (is_cdata_frame f); apply inv_of_ok.
      + destruct (go_up_fields (go_up c)) as (-> & _). destruct (go_up_fields c) as (-> & _). exact E.
      + destruct (go_up_fields c) as (-> & _). exact E.
  Qed.

  (* every callback: started without an error, it ends without one or with a `current` that has no cache *)
  Lemma step_records_clean c e : c_error c = WBXML_OK -> cache_inv (step c e).
  Proof.
    intros E. destruct e as [version encoding|dname sysid pubid| |name attrs byte_index|name byte_index|ch| | |target data]; cbn [XmlFront.step].
    - apply inv_of_ok. destruct (step_decl_fields main sub input c (EvXmlDecl version encoding)) as (_ & _ & X & _). exact (eq_trans X E).
    - apply inv_of_ok. destruct (step_decl_fields main sub input c (EvStartDoctype dname sysid pubid)) as (_ & _ & X & _). exact (eq_trans X E).
    - apply inv_of_ok. exact E.
    - (* start element *)
      unfold on_start_element. rewrite E. cbn [negb N.eqb WBXML_OK].
      destruct (0 <? c_skip_lvl c); [apply inv_of_ok; exact E|].
      match goal with |- context [if negb (c_error ?x =? WBXML_OK) then _ else _] => set (c1 := x) end.
      assert (H1 : (c_error c1 = WBXML_OK) \/ c_spine c1 = []).
      { subst c1. destruct (c_spine c) eqn:S; [|now left]. destruct (c_lang c); [now left|].
        destruct (search_table _ _ _ _); [left; exact E|right; exact S]. }
      destruct (negb (c_error c1 =? WBXML_OK)) eqn:B1.
      { destruct H1 as [X|X]; [rewrite X in B1; discriminate|apply inv_of_no_cache, no_cache_nil; exact X]. }
      assert (E1 : c_error c1 = WBXML_OK) by (destruct (c_error c1 =? WBXML_OK) eqn:Q; [now apply N.eqb_eq|discriminate]).
      clearbody c1. clear H1.
      destruct (is_embedded_name name && _); [apply inv_of_ok; exact E1|].
      pose proof (no_cache_flush c1) as NC. set (cf := flush_binary c1) in *. clearbody cf. unfold start_child.
      destruct (negb (c_error cf =? WBXML_OK)) eqn:BF; [apply inv_of_no_cache; exact NC|].
      assert (EF : c_error cf = WBXML_OK) by (destruct (c_error cf =? WBXML_OK) eqn:Q; [now apply N.eqb_eq|discriminate]).
      destruct (WBXML_MAX_NESTING_DEPTH <=? _); [apply inv_of_no_cache; exact NC|].
      destruct (c_lang cf) as [l|]; [|apply inv_of_no_cache; exact NC].
      destruct (resolve_tag l name) as [tag page]. apply push_frame_inv. exact EF.
    - (* end element *)
      unfold on_end_element. pose proof (no_cache_flush c) as NC. set (cf := flush_binary c) in *. clearbody cf.
      destruct (negb (c_error cf =? WBXML_OK)) eqn:BF; [apply inv_of_no_cache; exact NC|].
      assert (EF : c_error cf = WBXML_OK) by (destruct (c_error cf =? WBXML_OK) eqn:Q; [now apply N.eqb_eq|discriminate]).
      destruct (0 <? c_skip_lvl cf); [|now apply leave_current_inv].
      destruct (c_skip_lvl cf =? 1); [|apply inv_of_ok; exact EF].
      destruct (is_embedded_name name); [|now apply leave_current_inv].
      destruct (c_lang cf) as [tl|]; [|apply inv_of_no_cache; exact NC].
      destruct (beq name n_MgmtTree && negb (l_id tl =? LANG_SYNCML12)); [apply inv_of_no_cache; exact NC|].
      match goal with |- context [match ?t with Some _ => _ | None => _ end] => destruct t as [id|] end; [|apply inv_of_no_cache; exact NC].
      destruct (get_table main id) as [el|]; [|apply inv_of_no_cache; exact NC].
      destruct (embedded_doc _ _ _ _ _) as [doc|]; [|apply inv_of_no_cache; exact NC].
      destruct (sub doc) as [t|e]; [|apply inv_of_no_cache; exact NC].
      destruct (c_spine cf) as [|f up] eqn:S; [destruct (c_root cf); apply inv_of_no_cache, no_cache_nil; exact S|].
      apply inv_of_ok. exact EF.
    - (* characters *)
      unfold on_characters. rewrite E. cbn [negb N.eqb WBXML_OK].
      destruct (0 <? c_skip_lvl c); [apply inv_of_ok; exact E|].
      destruct (syncml_data_type (c_spine c)) as [dt|] eqn:DT.
      2:{ apply inv_of_no_cache. destruct (data_type_none _ DT) as (f0 & SP & CD). unfold no_cache. cbn [c_spine set_error]. rewrite SP.
          unfold is_cdata_frame in CD. destruct (f_kind f0); [discriminate|exact I]. }
      match goal with |- cache_inv (let '(ch1, want_cdata) := ?p in _) => destruct p as [ch1 want] end.
      match goal with |- context [match c_spine ?x with _ => _ end] => set (c1 := x) end.
      assert (E1 : c_error c1 = WBXML_OK).
      { subst c1. destruct (c_spine c) as [|f up] eqn:S; [exact E|]. destruct (want && _ && _); [|exact E].
        unfold push_frame. rewrite S. exact E. }
      clearbody c1.
      destruct (c_spine c1) as [|f up] eqn:S; [now apply add_text_inv|].
      destruct (is_binary_frame f); [|now apply add_text_inv].
      destruct (f_kind f); apply inv_of_ok; exact E1.
    - unfold on_start_cdata. rewrite E. cbn [negb N.eqb WBXML_OK]. destruct (0 <? c_skip_lvl c); [apply inv_of_ok; exact E|].
      now apply push_frame_inv.
    - unfold on_end_cdata. rewrite E. cbn [negb N.eqb WBXML_OK]. destruct (0 <? c_skip_lvl c); [apply inv_of_ok; exact E|].
      destruct (c_spine c) as [|f [|p r]] eqn:S.
      + apply inv_of_no_cache, no_cache_nil. exact S.
      + apply inv_of_ok. exact E.
      + apply inv_of_ok. destruct (go_up_fields c) as (-> & _). exact E.
    - apply inv_of_ok. exact E.
  Qed.

  (* on a failed context without cache every callback but the two declaration callbacks is the identity, and those two keep
     the tree, the error, the skip state and the code page *)
  Lemma step_failed_strict c e :
    failed c -> no_cache c ->
    match e with
    | EvXmlDecl _ _ | EvStartDoctype _ _ _ =>
      let c' := step c e in
      c_root c' = c_root c /\ c_spine c' = c_spine c /\ c_error c' = c_error c /\ c_skip_lvl c' = c_skip_lvl c /\
      c_skip_start c' = c_skip_start c /\ c_page c' = c_page c
    | _ => step c e = c
    end.
  Proof.
    intros F NC. pose proof (step_failed_unchanged main sub input c e F) as U. pose proof (step_decl_fields main sub input c e) as D.
    destruct e; auto. rewrite (step_failed_end_element main sub input c name byte_index F). now apply no_cache_flush_id.
  Qed.

  Theorem cache_inv_step c e : cache_inv c -> cache_inv (step c e).
  Proof.
    intros H. destruct (N.eq_dec (c_error c) WBXML_OK) as [E|E]; [now apply step_records_clean|].
    specialize (H E). pose proof (step_failed_strict c e E H) as S. intros _.
    destruct e; try (rewrite S; exact H); destruct S as (_ & S & _); exact (no_cache_spine _ _ S H).
  Qed.

  Theorem cache_inv_run evs : forall c, cache_inv c -> cache_inv (run c evs).
  Proof. induction evs as [|e r IH]; intros c H; [exact H|]. rewrite run_cons. apply IH. now apply cache_inv_step. Qed.

  Lemma cache_inv_init : cache_inv init_ctx.
  Proof. apply inv_of_ok. reflexivity. Qed.

  (* two contexts that differ at most in tree->orig_charset and tree->lang *)
  Definition same_but_decl (c c' : ctx) : Prop :=
    c_root c' = c_root c /\ c_spine c' = c_spine c /\ c_error c' = c_error c /\ c_skip_lvl c' = c_skip_lvl c /\
    c_skip_start c' = c_skip_start c /\ c_page c' = c_page c.

  Lemma same_but_decl_refl c : same_but_decl c c.
  Proof. repeat split. Qed.

  Lemma same_but_decl_trans a b c : same_but_decl a b -> same_but_decl b c -> same_but_decl a c.
  Proof. unfold same_but_decl. intros (A1 & A2 & A3 & A4 & A5 & A6) (B1 & B2 & B3 & B4 & B5 & B6). rewrite B1, B2, B3, B4, B5, B6. auto 10. Qed.

  (* the strict sticky error: for EVERY event list, once the run from the initial context has failed ... *)
  Theorem sticky_error_strict_step evs e :
    let c := run init_ctx evs in
    failed c ->
    match e with
    | EvXmlDecl _ _ | EvStartDoctype _ _ _ => same_but_decl c (step c e)
    | _ => step c e = c
    end.
  Proof.
    cbv zeta. intros F. pose proof (cache_inv_run evs init_ctx cache_inv_init F) as NC.
    pose proof (step_failed_strict _ e F NC) as S. destruct e; auto.
  Qed.

  (* ... no later events change anything but the charset / language fields *)
  Theorem sticky_error_strict_run evs more :
    let c := run init_ctx evs in failed c -> same_but_decl c (run c more).
  Proof.
    cbv zeta. intros F. set (c := run init_ctx evs) in *.
    assert (NC : no_cache c) by exact (cache_inv_run evs init_ctx cache_inv_init F).
    assert (G : forall more c', same_but_decl c c' -> failed c' -> no_cache c' -> same_but_decl c (run c' more)).
    { induction more0 as [|e r IH]; intros c' SB F' NC'; [exact SB|]. rewrite run_cons.
      pose proof (step_failed_strict c' e F' NC') as S.
      assert (X : same_but_decl c' (step c' e)) by (destruct e; try (rewrite S; apply same_but_decl_refl); exact S).
      apply IH.
      - eapply same_but_decl_trans; eassumption.
      - now apply error_never_cleared_step.
      - destruct X as (_ & X & _). exact (no_cache_spine _ _ X NC'). }
    apply G; [apply same_but_decl_refl|exact F|exact NC].
  Qed.
End S.
