(* wbxml_encoder_set_text_public_id: what the option changes and what it cannot change.  Proofs only. *)
From Coq Require Import List NArith Bool.
From Wbxml Require Import Model.Codec Model.EncWbxml Model.EncWbxmlTextPid Proofs.EncWbxmlAbs5.
From Wbxml Require Model.EncWbxmlTables Model.Spec.
Import ListNotations.
Local Open Scope N_scope.

(* only the numeric public id of the language record changes *)
Lemma with_text_pubid_fields l :
  bl_id (with_text_pubid l) = bl_id l /\ bl_pub_text (with_text_pubid l) = bl_pub_text l /\
  bl_tags (with_text_pubid l) = bl_tags l /\ bl_attrs (with_text_pubid l) = bl_attrs l /\
  bl_vals (with_text_pubid l) = bl_vals l /\ bl_exts (with_text_pubid l) = bl_exts l.
Proof. unfold with_text_pubid. destruct (bl_pub_text l) eqn:E; cbn; rewrite ?E; repeat split. Qed.

Lemma with_text_pubid_idem l : with_text_pubid (with_text_pubid l) = with_text_pubid l.
Proof. unfold with_text_pubid. destruct (bl_pub_text l) eqn:E; cbn; [reflexivity|rewrite E; reflexivity]. Qed.

(* a language without XML public identifier, and a language whose numeric id is 'unknown' already: no change at all *)
Lemma textpid_no_text tbl l o roots : bl_pub_text l = None -> enc_wbxml_textpid tbl l o roots = enc_wbxml tbl l o roots.
Proof. intros H. unfold enc_wbxml_textpid, with_text_pubid. rewrite H. reflexivity. Qed.

Lemma textpid_unknown tbl l o roots : bl_pub_num l = 1 -> enc_wbxml_textpid tbl l o roots = enc_wbxml tbl l o roots.
Proof.
  intros H. unfold enc_wbxml_textpid, with_text_pubid. destruct (bl_pub_text l) eqn:E; [|reflexivity].
  destruct l as [i n t tg at' vl ex]. cbn in *. subst n. rewrite E. reflexivity.
Qed.

Lemma tag_tbl_ok_textpid l o : tag_tbl_ok (enc_env (with_text_pubid l) o) = tag_tbl_ok (enc_env l o).
Proof.
  unfold tag_tbl_ok, enc_env, make_env. cbn [e_lang].
  destruct (with_text_pubid_fields l) as (_ & _ & Ht & _). rewrite Ht. reflexivity.
Qed.

(* with the option set the header carries the identifier as a string-table index whenever the language has one
   and the document is not anonymous: the first header octets are  version, 0x00, mb_u_int32(index) *)
Lemma textpid_header_form l o st p :
  bl_pub_text l = Some p -> o_anonymous o = false ->
  exists idx rest, fill_header (enc_env (with_text_pubid l) o) st = u8 (o_version o) :: 0 :: mb_write idx ++ rest.
Proof.
  intros Hp Ha. unfold fill_header, header_public_id, enc_env, make_env, with_text_pubid. rewrite Hp. cbn [e_lang e_anonymous e_version e_use_strtbl bl_pub_num bl_pub_text].
  rewrite Ha. cbn [negb andb N.eqb Pos.eqb].
  match goal with |- context [if ?b then strtbl_add ?a ?c ?d else ?x] => destruct (if b then strtbl_add a c d else x) as [[idx tbl] tlen] end.
  exists idx. eexists. cbn [app]. reflexivity.
Qed.
