(* C18 — the global ownership invariant over operation sequences (Model/TreeOwn.v) *)
From Coq Require Import List NArith Bool Lia Permutation.
From Wbxml Require Import Model.TreeGraph Model.TreeOwn Proofs.TreeGraphProofs.
Import ListNotations.
Local Open Scope N_scope.

Arguments N.add : simpl never.
Arguments N.eqb : simpl never.

(* ------------------------------------------------------------------ *)
(* heaps that agree on who owns which nested tree                       *)

Definition heq (h h' : heap) : Prop := forall i, node_tree h' i = node_tree h i /\ (h i = None -> h' i = None).

Lemma heq_refl h : heq h h. Proof. intros i. split; auto. Qed.
Lemma heq_trans a b c : heq a b -> heq b c -> heq a c.
Proof. intros H1 H2 i. destruct (H1 i) as [A1 A2], (H2 i) as [B1 B2]. split; [congruence | auto]. Qed.

Lemma get_inv h i nn : get h i = TOk nn -> h i = Some nn.
Proof. unfold get. destruct (h i); [intros [= ->]; reflexivity | discriminate]. Qed.

Lemma node_tree_get h i nn : get h i = TOk nn -> node_tree h i = data_tree (n_data nn).
Proof. intros H. apply get_inv in H. unfold node_tree, data_tree. rewrite H. destruct (n_data nn) as [| | | |lg [tr|]]; reflexivity. Qed.

Lemma node_tree_upd_some h i v j : node_tree (upd h i (Some v)) j = if j =? i then data_tree (n_data v) else node_tree h j.
Proof. unfold node_tree, upd, data_tree. destruct (j =? i); [destruct (n_data v) as [| | | |lg [tr|]]|]; reflexivity. Qed.

Lemma node_tree_upd_none h i j : node_tree (upd h i None) j = if j =? i then None else node_tree h j.
Proof. unfold node_tree, upd. destruct (j =? i); reflexivity. Qed.

Lemma heq_upd h i nn v : get h i = TOk nn -> data_tree (n_data v) = data_tree (n_data nn) -> heq h (upd h i (Some v)).
Proof.
  intros Hg Hd j. rewrite node_tree_upd_some. destruct (N.eqb_spec j i) as [->|Hne].
  - split; [rewrite Hd; symmetry; apply node_tree_get, Hg|]. apply get_inv in Hg. congruence.
  - split; [reflexivity|]. unfold upd. apply N.eqb_neq in Hne. rewrite Hne. auto.
Qed.

Lemma heq_upd_nt h i v : h i <> None -> data_tree (n_data v) = node_tree h i -> heq h (upd h i (Some v)).
Proof.
  intros Hl Hd j. rewrite node_tree_upd_some. destruct (N.eqb_spec j i) as [->|Hne].
  - split; [exact Hd | intros; contradiction].
  - split; [reflexivity|]. unfold upd. apply N.eqb_neq in Hne. rewrite Hne. auto.
Qed.

Lemma heq_free h i : node_tree h i = None -> heq h (upd h i None).
Proof.
  intros Hd j. rewrite node_tree_upd_none. destruct (N.eqb_spec j i) as [->|Hne].
  - split; [symmetry; exact Hd | intros _; apply upd_same].
  - split; [reflexivity|]. unfold upd. apply N.eqb_neq in Hne. rewrite Hne. auto.
Qed.

Ltac heq_chain :=
  repeat first
    [ apply heq_refl
    | eapply heq_trans; [| eapply heq_upd; [eassumption | reflexivity]] ].

Lemma extract_node_heq t n t' : extract_node t n = TOk t' -> heq (heap_of t) (heap_of t').
Proof.
  unfold extract_node. intros H.
  repeat match type of H with
         | context [get ?h ?i] => let E := fresh "E" in destruct (get h i) eqn:E; cbn [bind] in H; try discriminate
         | context [match ?x with _ => _ end] =>
           lazymatch x with
           | context [get] => fail
           | _ => destruct x eqn:?; cbn [bind] in H; try discriminate
           end
         end.
  all: injection H as <-; cbn [heap_of]; heq_chain.
Qed.

Lemma last_sibling_pure : True. Proof. exact I. Qed.

Lemma add_node_heq fuel t p n t' : add_node fuel t p n = TOk t' -> heq (heap_of t) (heap_of t').
Proof.
  unfold add_node. intros H.
  repeat match type of H with
         | context [get ?h ?i] => let E := fresh "E" in destruct (get h i) eqn:E; cbn [bind] in H; try discriminate
         | context [last_sibling ?f ?h ?i] => let E := fresh "L" in destruct (last_sibling f h i) eqn:E; cbn [bind] in H; try discriminate
         | context [match ?x with _ => _ end] =>
           lazymatch x with
           | context [get] => fail
           | context [last_sibling] => fail
           | _ => destruct x eqn:?; cbn [bind] in H; try discriminate
           end
         end.
  all: injection H as <-; cbn [heap_of with_heap]; try solve [heq_chain].
  all: match goal with
       | |- heq ?h0 (upd (upd ?X ?n (Some (set_data ?ak ?d))) ?tmp None) =>
         match X with
         | context [upd h0 n (Some ?v0)] =>
           let h1 := constr:(upd h0 n (Some v0)) in
           assert (H01 : heq h0 h1) by heq_chain;
           assert (H1X : heq h1 X) by heq_chain;
           assert (Nn : node_tree h1 n = None)
             by (match goal with Hg : get h1 n = TOk ?x, Hd : n_data ?x = DText _ |- _ =>
                   rewrite (node_tree_get _ _ _ Hg), Hd; reflexivity end);
           assert (Nt : node_tree h1 tmp = None)
             by (match goal with Hg : get h1 tmp = TOk ?x, Hd : n_data ?x = DText _ |- _ =>
                   rewrite (node_tree_get _ _ _ Hg), Hd; reflexivity end);
           assert (HXY : heq X (upd X n (Some (set_data ak d))))
             by (match goal with Hg : get X n = TOk ak |- _ =>
                   eapply heq_upd; [exact Hg|]; rewrite <- (node_tree_get _ _ _ Hg), (proj1 (H1X n)), Nn; reflexivity end);
           eapply heq_trans; [exact H01|]; eapply heq_trans; [exact H1X|]; eapply heq_trans; [exact HXY|];
           apply heq_free; rewrite (proj1 (HXY tmp)), (proj1 (H1X tmp)); exact Nt
         end
       end.
Qed.

Lemma node_add_attrs_heq h n ats h' : node_add_attrs h n ats = TOk h' -> heq h h'.
Proof.
  unfold node_add_attrs. destruct (get h n) as [nn| |] eqn:E; cbn [bind]; try discriminate.
  destruct (n_data nn) eqn:Ed; intros [= <-]; try apply heq_refl.
  eapply heq_upd; [exact E|]. rewrite Ed. reflexivity.
Qed.

(* ------------------------------------------------------------------ *)
(* what each API function does to the ownership of nested trees          *)

Definition dead_above (t : tstate) : Prop := forall i, fresh t <= i -> heap_of t i = None.
Definition nt_rel (h h' : heap) : Prop := forall i, node_tree h' i = node_tree h i.

Lemma nt_rel_refl h : nt_rel h h. Proof. intros i. reflexivity. Qed.
Lemma nt_rel_trans a b c : nt_rel a b -> nt_rel b c -> nt_rel a c.
Proof. intros H1 H2 i. rewrite H2, H1. reflexivity. Qed.

Lemma node_tree_dead h i : h i = None -> node_tree h i = None.
Proof. unfold node_tree. intros ->. reflexivity. Qed.

Definition is_some {A} (o : option A) : bool := match o with Some _ => true | None => false end.

Lemma add_new_nt fuel t p d t' r : dead_above t -> add_new fuel t p d = TOk (t', r) ->
  dead_above t' /\ fresh t' = fresh t + 1 /\ (forall n, r = Some n -> n = fresh t) /\
  (forall i, node_tree (heap_of t') i =
             if (i =? fresh t) && is_some r then data_tree d else node_tree (heap_of t) i).
Proof.
  intros Hd. unfold add_new, alloc.
  set (n := fresh t). set (h1 := upd (heap_of t) n (Some (mkN d None None None None))).
  set (t1 := mkT h1 (root t) (cur_page t) (n + 1)).
  assert (Hn : heap_of t n = None) by (apply Hd; unfold n; lia).
  destruct (add_node fuel t1 p n) as [t2| |] eqn:E; try discriminate.
  - intros [= <- <-]. pose proof (add_node_heq _ _ _ _ _ E) as Hq. cbn [heap_of t1] in Hq.
    assert (Hfr : fresh t2 = n + 1).
    { clear - E. unfold add_node in E. unfold t1 in E.
      repeat match type of E with
             | context [get ?h ?i] => destruct (get h i); cbn [bind] in E; try discriminate
             | context [last_sibling ?f ?h ?i] => destruct (last_sibling f h i); cbn [bind] in E; try discriminate
             | context [match ?x with _ => _ end] =>
               lazymatch x with
               | context [get] => fail
               | context [last_sibling] => fail
               | _ => destruct x; cbn [bind] in E; try discriminate
               end
             end; injection E as <-; reflexivity. }
    split; [|split; [exact Hfr | split; [intros ? [= <-]; reflexivity|]]].
    + intros i Hi. rewrite Hfr in Hi. apply (proj2 (Hq i)). unfold h1, upd.
      destruct (N.eqb_spec i n); [lia|]. apply Hd. fold n. lia.
    + intros i. rewrite (proj1 (Hq i)). unfold h1. rewrite node_tree_upd_some. cbn [is_some n_data]. rewrite andb_true_r. reflexivity.
  - intros [= <- <-]. cbn [heap_of with_heap fresh t1 is_some]. split; [|split; [reflexivity | split; [discriminate|]]].
    + intros i Hi. cbn [heap_of with_heap fresh t1] in *. unfold free_node, h1, upd. destruct (i =? n); [reflexivity|]. apply Hd. fold n. lia.
    + intros i. rewrite andb_false_r. unfold free_node. rewrite node_tree_upd_none. unfold h1. rewrite node_tree_upd_some.
      destruct (N.eqb_spec i n) as [->|]; [symmetry; apply node_tree_dead, Hn | reflexivity].
Qed.

Lemma add_new_plain fuel t p d t' r : dead_above t -> add_new fuel t p d = TOk (t', r) -> data_tree d = None ->
  dead_above t' /\ nt_rel (heap_of t) (heap_of t').
Proof.
  intros Hd H Hdt. destruct (add_new_nt _ _ _ _ _ _ Hd H) as (D & Hfr & _ & Hnt). split; [exact D|].
  intros i. rewrite Hnt, Hdt. destruct ((i =? fresh t) && is_some r) eqn:E; [|reflexivity].
  apply andb_true_iff in E as [E _]. apply N.eqb_eq in E. subst i. symmetry. apply node_tree_dead, Hd. lia.
Qed.

Lemma heq_nt h h' : heq h h' -> nt_rel h h'.
Proof. intros H i. apply (H i). Qed.

Lemma dead_above_heq t h' : dead_above t -> heq (heap_of t) h' -> dead_above (with_heap t h').
Proof. intros Hd Hq i Hi. cbn [heap_of with_heap fresh] in *. apply (proj2 (Hq i)), Hd, Hi. Qed.

Lemma add_elt_with_attrs_nt fuel t p tag ats t' r : dead_above t -> add_elt_with_attrs fuel t p tag ats = TOk (t', r) ->
  dead_above t' /\ nt_rel (heap_of t) (heap_of t').
Proof.
  intros Hd. unfold add_elt_with_attrs, add_elt.
  destruct (add_new fuel t p (DElt tag [])) as [[t1 [n|]]| |] eqn:E; cbn [bind]; try discriminate.
  - destruct (add_new_plain _ _ _ _ _ _ Hd E eq_refl) as [D1 R1].
    destruct (node_add_attrs (heap_of t1) n ats) as [h2| |] eqn:E2; cbn [bind]; try discriminate. intros [= <- <-].
    pose proof (node_add_attrs_heq _ _ _ _ E2) as Hq. split; [apply dead_above_heq; assumption|].
    cbn [heap_of with_heap]. eapply nt_rel_trans; [exact R1 | apply heq_nt, Hq].
  - intros [= <- <-]. exact (add_new_plain _ _ _ _ _ _ Hd E eq_refl).
Qed.

Lemma add_xml_full_nt fuel l t p name kvs text t' r : dead_above t ->
  add_xml_elt_with_attrs_and_text fuel l t p name kvs text = TOk (t', r) ->
  dead_above t' /\ nt_rel (heap_of t) (heap_of t').
Proof.
  intros Hd. unfold add_xml_elt_with_attrs_and_text, add_xml_elt_with_attrs, add_xml_elt.
  destruct (resolve_xml_elt l name) as [cp tag].
  set (t0 := mkT (heap_of t) (root t) cp (fresh t)).
  assert (Hd0 : dead_above t0) by exact Hd.
  destruct (add_new fuel t0 p (DElt tag [])) as [[t1 [n|]]| |] eqn:E; cbn [bind]; try discriminate.
  - destruct (add_new_plain _ _ _ _ _ _ Hd0 E eq_refl) as [D1 R1]. cbn [heap_of t0] in R1.
    assert (K : forall t2, (match kvs with
                            | [] => TOk (t1, Some n)
                            | _ :: _ => do h <- node_add_xml_attrs l (heap_of t1) n kvs; TOk (with_heap t1 h, Some n)
                            end) = TOk (t2, Some n) \/ True -> True) by (intros; exact I).
    clear K.
    destruct (match kvs with
              | [] => TOk (t1, Some n)
              | _ :: _ => do h <- node_add_xml_attrs l (heap_of t1) n kvs; TOk (with_heap t1 h, Some n)
              end) as [[t2 r2]| |] eqn:E2; cbn [bind]; try discriminate.
    assert (D2 : dead_above t2 /\ nt_rel (heap_of t1) (heap_of t2) /\ r2 = Some n).
    { destruct kvs as [|kv kvs'].
      - injection E2 as <- <-. split; [exact D1 | split; [apply nt_rel_refl | reflexivity]].
      - unfold node_add_xml_attrs in E2.
        destruct (node_add_attrs (heap_of t1) n _) as [h2| |] eqn:E3; cbn [bind] in E2; try discriminate.
        injection E2 as <- <-. pose proof (node_add_attrs_heq _ _ _ _ E3) as Hq.
        split; [apply dead_above_heq; assumption | split; [apply heq_nt, Hq | reflexivity]]. }
    destruct D2 as (D2 & R2 & ->).
    destruct text as [|c0 text'].
    + intros [= <- <-]. split; [exact D2 | eapply nt_rel_trans; eassumption].
    + unfold add_text. destruct (add_new fuel t2 (Some n) (DText (c0 :: text'))) as [[t3 r3]| |] eqn:E4; cbn [bind]; try discriminate.
      destruct (add_new_plain _ _ _ _ _ _ D2 E4 eq_refl) as [D3 R3].
      destruct r3; intros [= <- <-]; (split; [exact D3 | eapply nt_rel_trans; [eapply nt_rel_trans; eassumption | exact R3]]).
  - intros [= <- <-]. destruct (add_new_plain _ _ _ _ _ _ Hd0 E eq_refl) as [D1 R1]. split; assumption.
Qed.

Lemma add_tree_nt fuel t p lang tr t' r : dead_above t -> add_tree fuel t p lang tr = TOk (t', r) ->
  dead_above t' /\
  (forall i, node_tree (heap_of t') i = if (i =? fresh t) && is_some r then Some tr else node_tree (heap_of t) i) /\
  (is_some r = true -> heap_of t' (fresh t) <> None).
Proof.
  intros Hd. unfold add_tree.
  destruct (add_new fuel t p (DTree 0 None)) as [[t1 [n|]]| |] eqn:E; cbn [bind]; try discriminate.
  - destruct (add_new_nt _ _ _ _ _ _ Hd E) as (D1 & Hfr & Hn & Hnt). specialize (Hn n eq_refl). subst n.
    destruct (get (heap_of t1) (fresh t)) as [nn| |] eqn:Eg; cbn [bind]; try discriminate. intros [= <- <-].
    cbn [heap_of with_heap is_some]. split; [|split].
    + intros i Hi. cbn [heap_of with_heap fresh] in *. unfold upd. destruct (N.eqb_spec i (fresh t)); [lia | apply D1, Hi].
    + intros i. rewrite node_tree_upd_some, andb_true_r. destruct (i =? fresh t) eqn:Ei; [reflexivity|].
      rewrite Hnt, Ei. reflexivity.
    + intros _. rewrite upd_same. discriminate.
  - intros [= <- <-]. destruct (add_new_plain _ _ _ _ _ _ Hd E eq_refl) as [D1 R1]. cbn [is_some]. split; [exact D1|].
    split; [|discriminate]. intros i. rewrite andb_false_r. apply R1.
Qed.

(* ------------------------------------------------------------------ *)
(* list lemmas                                                          *)

Lemma nodup_split (l U : list N) : NoDup l -> NoDup U -> incl l U ->
  Permutation U (l ++ filter (fun i => negb (mem i l)) U).
Proof.
  intros Hl HU Hi. apply NoDup_Permutation; [exact HU | |].
  - apply NoDup_app_iff. split; [exact Hl|]. split; [apply NoDup_filter, HU|].
    intros x Hx Hf. apply filter_In in Hf as [_ Hf]. apply negb_true_iff, mem_false in Hf. contradiction.
  - intros x. rewrite in_app_iff, filter_In. split.
    + intros Hx. destruct (mem x l) eqn:E; [left; apply mem_in, E | right; split; [exact Hx | reflexivity]].
    + intros [Hx | [Hx _]]; [apply Hi, Hx | exact Hx].
Qed.

Lemma flat_map_nil {A B} (f : A -> list B) l : (forall x, In x l -> f x = []) -> flat_map f l = [].
Proof. induction l as [|a l IH]; intros H; [reflexivity|]. cbn [flat_map]. rewrite (H a (or_introl eq_refl)), IH; [reflexivity|]. intros; apply H; right; assumption. Qed.

Lemma flat_map_ext_in {A B} (f g : A -> list B) l : (forall x, In x l -> f x = g x) -> flat_map f l = flat_map g l.
Proof. induction l as [|a l IH]; intros H; [reflexivity|]. cbn [flat_map]. rewrite (H a (or_introl eq_refl)), IH; [reflexivity|]. intros; apply H; right; assumption. Qed.

(* one entry of f changes from nothing to [x] *)
Lemma flat_map_set (f f' : N -> list N) n x U : NoDup U -> In n U -> f n = [] ->
  (forall i, f' i = if i =? n then [x] else f i) -> Permutation (flat_map f' U) (x :: flat_map f U).
Proof.
  intros HU Hn Hf Hf'. apply in_split in Hn as (U1 & U2 & ->).
  apply NoDup_remove_2 in HU. rewrite in_app_iff in HU.
  rewrite !flat_map_app. cbn [flat_map]. rewrite Hf, (Hf' n), N.eqb_refl. cbn [app].
  rewrite (flat_map_ext_in f' f U1), (flat_map_ext_in f' f U2).
  - symmetry. apply Permutation_middle.
  - intros i Hi. rewrite Hf'. destruct (N.eqb_spec i n) as [->|]; [tauto | reflexivity].
  - intros i Hi. rewrite Hf'. destruct (N.eqb_spec i n) as [->|]; [tauto | reflexivity].
Qed.

(* the entries of L are emptied *)
Lemma flat_map_clear (f f' : N -> list N) L U : NoDup L -> NoDup U -> incl L U ->
  (forall i, f' i = if mem i L then [] else f i) -> Permutation (flat_map f U) (flat_map f' U ++ flat_map f L).
Proof.
  intros HL HU Hi Hf'. pose proof (nodup_split L U HL HU Hi) as P.
  rewrite (Permutation_flat_map f P), (Permutation_flat_map f' P), !flat_map_app.
  rewrite (flat_map_nil f' L); [|intros i Hx; rewrite Hf'; apply mem_in in Hx; rewrite Hx; reflexivity]. cbn [app].
  rewrite (flat_map_ext_in f' f (filter _ U)).
  - apply Permutation_app_comm.
  - intros i Hx. apply filter_In in Hx as [_ Hx]. apply negb_true_iff in Hx. rewrite Hf', Hx. reflexivity.
Qed.

(* ------------------------------------------------------------------ *)
(* the forest and the heap agree on the nested trees                    *)

Lemma released_app h a b : released_by h (a ++ b) = released_by h a ++ released_by h b.
Proof. apply flat_map_app. Qed.

Lemma rep_trees h :
  (forall t par prev nxt, rep_t h par prev nxt t -> released_by h (ids t) = trees_t t) /\
  (forall ts par prev nxt, rep_l h par prev nxt ts -> released_by h (ids_l ts) = trees_l ts).
Proof.
  apply rt_mut_ind.
  - intros i d cs IH par prev nxt H. apply rep_t_unfold in H as [Hi Hcs].
    rewrite ids_unfold. change (released_by h (i :: ids_l cs)) with (olist (node_tree h i) ++ released_by h (ids_l cs)).
    rewrite (IH _ _ _ Hcs). cbn [trees_t]. f_equal. unfold node_tree, data_tree. rewrite Hi. cbn [n_data].
    destruct d as [| | | |lg [tr|]]; reflexivity.
  - intros; reflexivity.
  - intros t ts IHt IHts par prev nxt H. apply rep_l_cons in H as [Ht Hts].
    rewrite ids_l_cons, released_app, (IHt _ _ _ Ht), (IHts _ _ _ Hts). reflexivity.
Qed.

Lemma forest_trees h F : Forall (rep_t h None None None) F -> released_by h (ids_l F) = trees_l F.
Proof.
  induction 1 as [|t F Ht _ IH]; [reflexivity|]. rewrite ids_l_cons, released_app, IH, (proj1 (rep_trees h) _ _ _ _ Ht). reflexivity.
Qed.

Lemma bridge h F U : Links h F -> NoDup U -> incl (ids_l F) U -> Permutation (released_by h U) (trees_l F).
Proof.
  intros (HF & HN & HC & _) HU Hi. pose proof (nodup_split _ _ HN HU Hi) as P.
  unfold released_by. rewrite (Permutation_flat_map _ P), flat_map_app.
  change (flat_map (fun i => olist (node_tree h i)) (ids_l F)) with (released_by h (ids_l F)).
  rewrite (forest_trees h F HF), flat_map_nil; [rewrite app_nil_r; reflexivity|].
  intros i Hx. apply filter_In in Hx as [_ Hx]. apply negb_true_iff, mem_false in Hx.
  rewrite node_tree_dead; [reflexivity|]. destruct (h i) eqn:E; [|reflexivity]. exfalso. apply Hx, HC. rewrite E. discriminate.
Qed.

Definition cover (F F' : list rt) : list id := ids_l F ++ filter (fun i => negb (mem i (ids_l F))) (ids_l F').

Lemma cover_ok F F' : NoDup (ids_l F) -> NoDup (ids_l F') ->
  NoDup (cover F F') /\ incl (ids_l F) (cover F F') /\ incl (ids_l F') (cover F F').
Proof.
  intros H1 H2. unfold cover. split; [|split].
  - apply NoDup_app_iff. split; [exact H1|]. split; [apply NoDup_filter, H2|].
    intros x Hx Hf. apply filter_In in Hf as [_ Hf]. apply negb_true_iff, mem_false in Hf. contradiction.
  - intros x Hx. apply in_or_app. left. exact Hx.
  - intros x Hx. apply in_or_app. destruct (mem x (ids_l F)) eqn:E; [left; apply mem_in, E|].
    right. apply filter_In. split; [exact Hx | rewrite E; reflexivity || reflexivity].
Qed.

Lemma inv_dead_above t det F : Inv t det F -> dead_above t.
Proof.
  intros ((_ & _ & HC & _) & _ & Hb) i Hi. destruct (heap_of t i) eqn:E; [|reflexivity]. exfalso.
  assert (H : i < fresh t) by (apply Hb, HC; rewrite E; discriminate). lia.
Qed.

(* ------------------------------------------------------------------ *)
(* one operation                                                        *)

Lemma lift_add_inv c r c' b : lift_add c r = TOk (c', b) ->
  exists t1 ro, r = TOk (t1, ro) /\ ts c' = t1 /\ det c' = det c /\ b = is_some ro.
Proof.
  unfold lift_add. destruct r as [[t1 [n|]]| |]; cbn [bind]; try discriminate; intros [= <- <-]; eexists _, _; repeat split.
Qed.

Lemma exec_nt l c o c' b : dead_above (ts c) -> exec l c o = TOk (c', b) ->
  match o with
  | OpAddTree _ _ tr =>
      (forall i, node_tree (heap_of (ts c')) i =
                 if (i =? fresh (ts c)) && b then Some tr else node_tree (heap_of (ts c)) i) /\
      (b = true -> heap_of (ts c') (fresh (ts c)) <> None)
  | OpDestroy _ => True
  | _ => nt_rel (heap_of (ts c)) (heap_of (ts c'))
  end.
Proof.
  intros Hd. destruct c as [t det]. cbn [ts TreeGraph.det] in *.
  destruct o as [p tag ats | p name kvs text | p text | p | p lang tr | d0 | n k v | n | p n | n]; cbn [exec ts TreeGraph.det].
  - destruct (parent_ok (heap_of t) p); [|intros [= <- <-]; apply nt_rel_refl].
    intros H. apply lift_add_inv in H as (t1 & ro & H & <- & _ & _). exact (proj2 (add_elt_with_attrs_nt _ _ _ _ _ _ _ Hd H)).
  - destruct (parent_ok (heap_of t) p); [|intros [= <- <-]; apply nt_rel_refl].
    intros H. apply lift_add_inv in H as (t1 & ro & H & <- & _ & _). exact (proj2 (add_xml_full_nt _ _ _ _ _ _ _ _ _ Hd H)).
  - destruct (parent_ok (heap_of t) p); [|intros [= <- <-]; apply nt_rel_refl].
    intros H. apply lift_add_inv in H as (t1 & ro & H & <- & _ & _). exact (proj2 (add_new_plain _ _ _ _ _ _ Hd H eq_refl)).
  - destruct (parent_ok (heap_of t) p); [|intros [= <- <-]; apply nt_rel_refl].
    intros H. apply lift_add_inv in H as (t1 & ro & H & <- & _ & _). exact (proj2 (add_new_plain _ _ _ _ _ _ Hd H eq_refl)).
  - destruct (parent_ok (heap_of t) p).
    + intros H. apply lift_add_inv in H as (t1 & ro & H & <- & _ & ->).
      destruct (add_tree_nt _ _ _ _ _ _ _ Hd H) as (_ & A & B). split; assumption.
    + intros [= <- <-]. cbn [ts]. split; [|discriminate]. intros i. rewrite andb_false_r. reflexivity.
  - unfold alloc. intros [= <- <-]. cbn [ts heap_of with_heap]. intros i. unfold free_node.
    rewrite node_tree_upd_none, node_tree_upd_some. destruct (N.eqb_spec i (fresh t)) as [->|]; [|reflexivity].
    symmetry. apply node_tree_dead, Hd. lia.
  - destruct (heap_of t n) as [nn|]; [|intros [= <- <-]; apply nt_rel_refl].
    destruct (n_data nn); try (intros [= <- <-]; apply nt_rel_refl).
    unfold node_add_xml_attrs. destruct (node_add_attrs (heap_of t) n _) as [h1| |] eqn:E; cbn [bind]; try discriminate.
    intros [= <- <-]. cbn [ts heap_of with_heap]. apply heq_nt, (node_add_attrs_heq _ _ _ _ E).
  - destruct (heap_of t n); [|intros [= <- <-]; apply nt_rel_refl].
    destruct (mem n det); [intros [= <- <-]; apply nt_rel_refl|].
    destruct (extract_node t n) as [t1| |] eqn:E; cbn [bind]; try discriminate. intros [= <- <-]. cbn [ts].
    apply heq_nt, (extract_node_heq _ _ _ E).
  - match goal with |- context [if ?c then _ else _] => destruct c end; [|intros [= <- <-]; apply nt_rel_refl].
    destruct (add_node (S (fuel_of t)) t p n) as [t1| |] eqn:E; try discriminate; intros [= <- <-]; [|apply nt_rel_refl].
    cbn [ts]. apply heq_nt, (add_node_heq _ _ _ _ _ E).
  - exact (fun _ => I).
Qed.

(* ------------------------------------------------------------------ *)
(* the invariant                                                        *)

Definition OwnInv (s : ostate) : Prop :=
  exists F, Inv (ts (oc s)) (det (oc s)) F /\ NoDup (accepted s) /\
            Permutation (accepted s) (trees_l F ++ released s).

Lemma same_trees h h' F F' : Links h F -> Links h' F' -> nt_rel h h' -> Permutation (trees_l F') (trees_l F).
Proof.
  intros HL HL' Hnt. pose proof HL as (_ & N1 & _). pose proof HL' as (_ & N2 & _).
  destruct (cover_ok F F' N1 N2) as (NU & I1 & I2).
  rewrite <- (bridge h F _ HL NU I1), <- (bridge h' F' _ HL' NU I2).
  unfold released_by. rewrite (flat_map_ext_in _ (fun i => olist (node_tree h i))); [reflexivity|].
  intros i _. rewrite Hnt. reflexivity.
Qed.

Theorem oexec_inv l s o : OwnInv s -> exists s', oexec l s o = TOk s' /\ OwnInv s'.
Proof.
  intros (F & HI & HN & HP). unfold oexec. destruct (issued s o) eqn:Hiss; [|exists s; split; [reflexivity | exists F; auto]].
  destruct (exec_inv l (oc s) o F HI) as (c' & b & F' & Hrun & HI' & _). rewrite Hrun. cbn [bind fst snd].
  eexists. split; [reflexivity|]. exists F'. cbn [oc accepted released]. split; [exact HI'|].
  pose proof (inv_dead_above _ _ _ HI) as Hd. pose proof (exec_nt l (oc s) o c' b Hd Hrun) as Hnt.
  pose proof HI as (HL & Hroots & Hb). pose proof HI' as (HL' & _).
  assert (Gen : nt_rel (heap_of (ts (oc s))) (heap_of (ts c')) ->
                NoDup (accepted s) /\ Permutation (accepted s) (trees_l F' ++ released s ++ [])).
  { intros R. split; [exact HN|]. rewrite app_nil_r, (same_trees _ _ _ _ HL HL' R). exact HP. }
  destruct o as [p tag ats | p name kvs text | p text | p | p lang tr | d0 | n k v | n | p n | n];
    cbn [destroyed_trees]; try (apply Gen; exact Hnt).
  - (* add_tree *)
    rewrite app_nil_r. destruct Hnt as [Hf Hlive]. cbn [issued] in Hiss. apply negb_true_iff, mem_false in Hiss.
    destruct b.
    + split; [constructor; assumption|].
      pose proof HL as (_ & N1 & _). pose proof HL' as (_ & N2 & HC2 & _).
      destruct (cover_ok F F' N1 N2) as (NU & I1 & I2).
      assert (P : Permutation (released_by (heap_of (ts c')) (cover F F')) (tr :: released_by (heap_of (ts (oc s))) (cover F F'))).
      { apply flat_map_set with (n := fresh (ts (oc s))); [exact NU | apply I2, HC2, Hlive; reflexivity | |].
        - rewrite node_tree_dead; [reflexivity | apply Hd; lia].
        - intros i. rewrite Hf, andb_true_r. destruct (i =? fresh (ts (oc s))); reflexivity. }
      rewrite (bridge _ _ _ HL' NU I2), (bridge _ _ _ HL NU I1) in P. rewrite P. cbn [app]. apply perm_skip. exact HP.
    + rewrite <- (app_nil_r (released s)). apply Gen. intros i. rewrite Hf, andb_false_r. reflexivity.
  - (* destruction of a detached sub-tree *)
    destruct s as [[t det] acc rel]. cbn [oc ts TreeGraph.det accepted released heap_of] in *.
    cbn [exec ts TreeGraph.det] in Hrun.
    destruct (mem n det) eqn:Hm.
    2:{ injection Hrun as <- <-. cbn [ts] in *. rewrite app_nil_r. split; [exact HN|].
        rewrite (same_trees _ _ _ _ HL HL' (nt_rel_refl _)). exact HP. }
    apply mem_in in Hm. pose proof (inv_sizes _ _ _ HI) as [_ Hsz2].
    destruct (split_by_rid F n) as (F1 & tn & F2 & -> & Hrid); [rewrite Hroots; apply det_in_roots; exact Hm|]. subst n.
    destruct (destroy_forest (2 * S (fuel_of t) + 2) (heap_of t) F1 tn F2 HL) as (h1 & Hrun1 & _ & E).
    { specialize (Hsz2 tn (in_elt _ _ _)). unfold fuel_of. lia. }
    rewrite Hrun1 in Hrun |- *. cbn [bind fst snd] in Hrun |- *. injection Hrun as <- <-. cbn [ts heap_of with_heap] in *.
    split; [exact HN|].
    pose proof HL as (_ & N1 & _). pose proof HL' as (_ & N2 & _).
    destruct (cover_ok _ F' N1 N2) as (NU & I1 & I2).
    set (L := rev (postorder tn)).
    assert (PL : Permutation L (ids tn)) by (unfold L; rewrite <- Permutation_rev; apply postorder_perm).
    assert (NL : NoDup L).
    { eapply Permutation_NoDup; [symmetry; exact PL|]. rewrite ids_l_mid in N1. apply nodup_mid in N1. tauto. }
    assert (IL : incl L (cover (F1 ++ tn :: F2) F')).
    { intros x Hx. apply I1. rewrite ids_l_mid. apply in_or_app. right. apply in_or_app. left.
      eapply Permutation_in; [exact PL | exact Hx]. }
    assert (Hf' : forall i, olist (node_tree h1 i) = if mem i L then [] else olist (node_tree (heap_of t) i)).
    { intros i. unfold node_tree. rewrite E. unfold hminus.
      assert (Em : mem i L = mem i (ids tn)).
      { destruct (mem i (ids tn)) eqn:E1.
        - apply mem_in. apply mem_in in E1. eapply Permutation_in; [symmetry; exact PL | exact E1].
        - apply mem_false. apply mem_false in E1. intros Hx. apply E1. eapply Permutation_in; [exact PL | exact Hx]. }
      rewrite Em. destruct (mem i (ids tn)); reflexivity. }
    pose proof (flat_map_clear (fun i => olist (node_tree (heap_of t) i)) (fun i => olist (node_tree h1 i)) L _ NL NU IL Hf') as P.
    change (Permutation (released_by (heap_of t) (cover (F1 ++ tn :: F2) F'))
                        (released_by h1 (cover (F1 ++ tn :: F2) F') ++ released_by (heap_of t) L)) in P.
    rewrite (bridge _ _ _ HL NU I1), (bridge _ _ _ HL' NU I2) in P.
    rewrite HP, P, <- !app_assoc. apply Permutation_app_head, Permutation_app_comm.
Qed.

Lemma oinit_inv : OwnInv oinit.
Proof.
  exists []. split; [|split; [constructor | reflexivity]].
  pose proof init_links as HC. apply CLinks_Inv in HC as (F & HI). pose proof HI as (_ & Hr & _).
  destruct F; [exact HI | discriminate].
Qed.

Theorem orun_inv l : forall ops s, OwnInv s -> exists s', orun l s ops = TOk s' /\ OwnInv s'.
Proof.
  induction ops as [|o ops IH]; intros s HS; [exists s; split; [reflexivity | exact HS]|].
  destruct (oexec_inv l s o HS) as (s1 & Hrun & HS1). cbn [orun]. rewrite Hrun. cbn [bind]. apply IH, HS1.
Qed.

(* ------------------------------------------------------------------ *)
(* the theorems                                                         *)

Theorem ownership_invariant l ops :
  exists s, orun l oinit ops = TOk s /\
  exists F, Links (heap_of (ts (oc s))) F /\ map rid F = roots_of (oc s) /\
            NoDup (accepted s) /\ Permutation (accepted s) (trees_l F ++ released s) /\
            NoDup (trees_l F ++ released s).
Proof.
  destruct (orun_inv l ops oinit oinit_inv) as (s & Hrun & F & (HL & Hr & _) & HN & HP).
  exists s. split; [exact Hrun|]. exists F. split; [exact HL|]. split; [exact Hr|]. split; [exact HN|]. split; [exact HP|].
  eapply Permutation_NoDup; [exact HP | exact HN].
Qed.

Theorem destroy_releases_all l ops s : orun l oinit ops = TOk s ->
  exists h' ids trs F,
    ofinish s = TOk (h', ids, trs) /\ (forall i, h' i = None) /\
    Links (heap_of (ts (oc s))) F /\ map rid F = roots_of (oc s) /\
    NoDup ids /\ Permutation ids (ids_l F) /\
    Permutation (accepted s) (released s ++ trs) /\ NoDup (released s ++ trs).
Proof.
  intros Hrun. destruct (orun_inv l ops oinit oinit_inv) as (s' & Hrun' & F & HI & HN & HP).
  rewrite Hrun in Hrun'. injection Hrun' as <-.
  assert (HC : CLinks (oc s)) by (apply CLinks_Inv; exists F; exact HI).
  destruct (finish_spec (oc s) HC) as (h' & rel & F0 & Hfin & HL0 & Hr0 & P0 & N0 & Hemp).
  exists h', rel, (released_by (heap_of (ts (oc s))) rel), F0. unfold ofinish. rewrite Hfin. cbn [bind fst snd].
  split; [reflexivity|]. split; [exact Hemp|]. split; [exact HL0|]. split; [exact Hr0|]. split; [exact N0|]. split; [exact P0|].
  assert (PT : Permutation (released_by (heap_of (ts (oc s))) rel) (trees_l F)).
  { unfold released_by. rewrite (Permutation_flat_map _ P0). fold (released_by (heap_of (ts (oc s))) (ids_l F0)).
    pose proof HL0 as (HF0 & _). rewrite (forest_trees _ _ HF0).
    destruct HI as (HL & _). exact (same_trees _ _ F F0 HL HL0 (nt_rel_refl _)). }
  assert (P : Permutation (accepted s) (released s ++ released_by (heap_of (ts (oc s))) rel)).
  { rewrite PT, HP. apply Permutation_app_comm. }
  split; [exact P|]. eapply Permutation_NoDup; [exact P | exact HN].
Qed.

(* a refused wbxml_tree_add_tree leaves the offered tree with the caller: nothing is accepted or released, and no
   node of the resulting state refers to it *)
Theorem refused_tree_stays_with_caller l ops s p lang tr c' :
  orun l oinit ops = TOk s -> ~ In tr (accepted s) ->
  exec l (oc s) (OpAddTree p lang tr) = TOk (c', false) ->
  oexec l s (OpAddTree p lang tr) = TOk (mkO c' (accepted s) (released s ++ [])) /\
  ~ In tr (released s) /\
  forall F', Links (heap_of (ts c')) F' -> ~ In tr (trees_l F').
Proof.
  intros Hrun Hnot Hex. destruct (orun_inv l ops oinit oinit_inv) as (s0 & Hrun0 & HS). rewrite Hrun in Hrun0. injection Hrun0 as <-.
  assert (Hiss : issued s (OpAddTree p lang tr) = true) by (cbn [issued]; apply negb_true_iff, mem_false, Hnot).
  assert (E : oexec l s (OpAddTree p lang tr) = TOk (mkO c' (accepted s) (released s ++ []))).
  { unfold oexec. rewrite Hiss, Hex. reflexivity. }
  split; [exact E|].
  destruct (oexec_inv l s (OpAddTree p lang tr) HS) as (s1 & E1 & F1 & HI1 & _ & HP1). rewrite E in E1. injection E1 as <-.
  cbn [oc accepted released] in *. split.
  - intros Hin. apply Hnot. eapply Permutation_in; [symmetry; exact HP1|]. apply in_or_app. right. apply in_or_app. left. exact Hin.
  - intros F' HL' Hin. apply Hnot. eapply Permutation_in; [symmetry; exact HP1|]. apply in_or_app. left.
    destruct HI1 as (HL1 & _). eapply Permutation_in; [exact (same_trees _ _ _ _ HL1 HL' (nt_rel_refl _)) | exact Hin].
Qed.

(* non-vacuity: <a><b>TREE(100)</b></a>; a tree offered with a NULL parent on a rooted tree is refused (200);
   <b> is extracted (the caller now holds a sub-tree that owns tree 100); tree 100 cannot be offered again;
   tree 300 is accepted under <a>; the caller destroys the extracted sub-tree (releases 100), then everything *)
Definition own_ex_ops : list op :=
  [OpAddElt None (TagLit [97]) []; OpAddElt (Some 0) (TagLit [98]) []; OpAddTree (Some 1) 5 100;
   OpAddTree None 5 200; OpExtract 1; OpAddTree (Some 0) 5 100; OpAddTree (Some 0) 5 300; OpDestroy 1].

Definition own_ex_summary :=
  match orun l_plain oinit own_ex_ops with
  | TOk s => match ofinish s with
             | TOk (_, ids, trs) => Some (accepted s, released s, roots_of (oc s), ids, trs)
             | _ => None
             end
  | _ => None
  end.

Lemma own_ex : own_ex_summary = Some ([300; 100], [100], [0], [0; 4], [300]).
Proof. vm_compute. reflexivity. Qed.
