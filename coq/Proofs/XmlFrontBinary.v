(* C02 (front end) — the content of a binary-flagged element (ActiveSync MIME, ConversationId, ...), order preserving since
   /repo c0648d3: every run of base64 text between child elements is decoded on its own and stays in place; a run
   that does not decode is refused with WBXML_ERROR_B64_DEC. *)
From Coq Require Import List NArith PeanoNat Lia Bool.
From Wbxml Require Import Model.TablesDefs Model.Tables Model.Codec Model.LangSelect Model.EncWbxml Model.XmlFront.
From Wbxml Require Import Base.Bits Proofs.CodecProofs Proofs.XmlFrontProofs Proofs.XmlFrontBalance Proofs.XmlFrontNoUB Proofs.XmlFrontSticky.
Import ListNotations.
Local Open Scope N_scope.

(* what happens between the start and the end tag of the binary element: runs of character data (as Expat chunks them) and
   empty child elements *)
Inductive item :=
| IRun (chunks : list bytes)
| IChild (name : bytes) (attrs : list (bytes * bytes)) (i i' : N).

Definition item_events (it : item) : list event :=
  match it with
  | IRun chunks => map EvCharacters chunks
  | IChild n a i i' => [EvStartElement n a i; EvEndElement n i']
  end.

Definition child_ok (it : item) : Prop := match it with IChild n _ _ _ => is_embedded_name n = false | IRun _ => True end.

(* wbxml_tree_add_text on a children list (most recent first) *)
Definition add_text_r (rk : list node) (d : bytes) : list node :=
  match rk with NText t :: r => NText (t ++ d) :: r | _ => NText d :: rk end.

(* the cached text becomes a text node; None = it does not decode *)
Definition flush_spec (rk : list node) (cache : option bytes) : option (list node) :=
  match cache with
  | None => Some rk
  | Some b => match buffer_b64_dec b with Some d => Some (add_text_r rk d) | None => None end
  end.

Definition cache_app (cache : option bytes) (ch : bytes) : option bytes :=
  Some (match cache with Some b => b ++ ch | None => ch end).

Section Bin.
  Variable main : list lang.
  Variable sub : bytes -> xtree + N.
  Variable input : bytes.
  Notation step := (step main sub input).
  Notation run := (run main sub input).

  (* the binary element and its position *)
  Variable l : lang.
  Variables p t o : N.
  Variable nm : bytes.
  Variable attrs : list attr.
  Variable up : list frame.
  Hypothesis binary : (N.land o WBXML_TAG_OPTION_BINARY =? 0) = false.
  Hypothesis not_data : beq nm s_Data = false.           (* an AirSync <Data> below <Add> would get the SyncML CDATA hack *)
  Hypothesis depth : (S (List.length up) < 1000)%nat.

  Definition F (rk : list node) (cache : option bytes) : frame := mk_frame (FElt (TagTok p t o nm) attrs cache) rk.

  Definition at_bin (c : ctx) (rk : list node) (cache : option bytes) : Prop :=
    c_error c = WBXML_OK /\ c_skip_lvl c = 0 /\ c_lang c = Some l /\ c_spine c = F rk cache :: up.

  (* the specification: children (most recent first) and cache after the items; None = a run did not decode *)
  Fixpoint spec (items : list item) (rk : list node) (cache : option bytes) : option (list node * option bytes) :=
    match items with
    | [] => Some (rk, cache)
    | IRun chunks :: r => spec r rk (fold_left cache_app chunks cache)
    | IChild n a _ _ :: r =>
      match flush_spec rk cache with
      | None => None
      | Some rk1 => spec r (NElt (fst (resolve_tag l n)) (map (resolve_attr l) a) [] :: rk1) None
      end
    end.

  Lemma data_type_bin rk cache : syncml_data_type (F rk cache :: up) = Some DT_NORMAL.
  Proof. unfold syncml_data_type, F, is_cdata_frame. cbn. now rewrite not_data. Qed.

  Lemma chars_bin c rk cache ch : at_bin c rk cache -> at_bin (step c (EvCharacters ch)) rk (cache_app cache ch).
  Proof.
    intros (E & K & LG & S). cbn. unfold on_characters. rewrite E, K, S, data_type_bin. cbn [negb N.eqb WBXML_OK N.ltb N.compare andb].
    rewrite S. unfold is_binary_frame, F. cbn [f_kind f_rkids]. rewrite binary. cbn [negb].
    unfold at_bin, cache_app, F. cbn. repeat split; auto.
  Qed.

  Lemma run_chars_bin chunks : forall c rk cache,
    at_bin c rk cache -> at_bin (run c (map EvCharacters chunks)) rk (fold_left cache_app chunks cache).
  Proof.
    induction chunks as [|ch r IH]; intros c rk cache H; [exact H|]. cbn [map fold_left]. rewrite run_cons. apply IH. now apply chars_bin.
  Qed.

  (* flush_binary on the binary element *)
  Lemma flush_bin c rk cache : c_spine c = F rk cache :: up ->
    match flush_spec rk cache with
    | Some rk1 => flush_binary c = set_spine c (F rk1 None :: up) \/ (cache = None /\ flush_binary c = c /\ rk1 = rk)
    | None => flush_binary c = set_error (set_spine c (F rk None :: up)) E_B64_DEC
    end.
  Proof.
    intros S. unfold flush_binary, flush_spec. rewrite S. unfold F. cbn [f_kind f_rkids].
    destruct cache as [b|]; [|right; auto]. rewrite binary. cbn [negb].
    destruct (buffer_b64_dec b) as [d|]; [|reflexivity]. left. unfold add_text_kid, add_text_r, F. cbn.
    destruct rk as [|[] ?]; reflexivity.
  Qed.

  Lemma child_bin c rk cache n a i i' :
    at_bin c rk cache -> is_embedded_name n = false ->
    match flush_spec rk cache with
    | Some rk1 => at_bin (run c [EvStartElement n a i; EvEndElement n i'])
                         (NElt (fst (resolve_tag l n)) (map (resolve_attr l) a) [] :: rk1) None
    | None => c_error (step c (EvStartElement n a i)) = E_B64_DEC /\ no_cache (step c (EvStartElement n a i))
    end.
  Proof.
    intros (E & K & LG & S) EM. pose proof (flush_bin c rk cache S) as FB.
    cbn [XmlFront.run fold_left XmlFront.step]. unfold on_start_element. rewrite E, K, S. cbn [negb N.eqb WBXML_OK N.ltb N.compare].
    rewrite E, EM. cbn [negb N.eqb WBXML_OK andb].
    destruct (flush_spec rk cache) as [rk1|].
    - assert (X : exists cf, flush_binary c = cf /\ c_error cf = WBXML_OK /\ c_skip_lvl cf = 0 /\ c_lang cf = Some l /\ c_spine cf = F rk1 None :: up).
      { destruct FB as [FB|(C0 & FB & ->)]; rewrite FB; eexists; split; try reflexivity; cbn; repeat split; auto. now rewrite S, C0. }
      destruct X as (cf & -> & E1 & K1 & L1 & S1). unfold start_child. rewrite E1, S1, L1. cbn [negb N.eqb WBXML_OK].
      assert (D : (WBXML_MAX_NESTING_DEPTH <=? N.of_nat (List.length (F rk1 None :: up))) = false).
      { apply N.leb_gt. unfold WBXML_MAX_NESTING_DEPTH. cbn [List.length]. lia. }
      rewrite D. destruct (resolve_tag l n) as [tag page] eqn:RT. cbn [fst].
      unfold push_frame. cbn [c_spine set_page]. rewrite S1.
      (* the end tag of the child *)
      unfold on_end_element.
      set (child := mk_frame (FElt tag (map (resolve_attr l) a) None) []).
      set (c2 := set_spine (set_page cf page) (child :: F rk1 None :: up)).
      assert (FC : flush_binary c2 = c2) by (apply no_cache_flush_id; unfold no_cache, c2, child; cbn; destruct tag; exact I).
      rewrite FC. assert (E2 : c_error c2 = WBXML_OK) by exact E1. assert (K2 : c_skip_lvl c2 = 0) by exact K1.
      rewrite E2, K2. cbn [negb N.eqb WBXML_OK N.ltb N.compare]. unfold leave_current, c2. cbn [c_spine set_spine is_cdata_frame child f_kind].
      unfold go_up. cbn. unfold at_bin, F, add_kid, reify, kids_of. cbn. repeat split; auto.
    - rewrite FB. unfold start_child. cbn [c_error set_error negb N.eqb E_B64_DEC WBXML_OK]. split; [reflexivity|].
      unfold no_cache, F. cbn. exact I.
  Qed.

  Definition not_decl (e : event) : Prop := match e with EvXmlDecl _ _ | EvStartDoctype _ _ _ => False | _ => True end.

  Lemma failed_run_id evs : Forall not_decl evs -> forall c, failed c -> no_cache c -> run c evs = c.
  Proof.
    induction 1 as [|e r He Hr IH]; intros c FL NC; [reflexivity|]. rewrite run_cons.
    pose proof (step_failed_strict main sub input c e FL NC) as S. destruct e; try contradiction; rewrite S; now apply IH.
  Qed.

  Lemma items_not_decl items : Forall not_decl (flat_map item_events items).
  Proof.
    induction items as [|it r IH]; [constructor|]. cbn [flat_map]. apply Forall_app. split; [|exact IH].
    destruct it as [chunks|n a i i']; cbn; [|repeat constructor]. induction chunks; cbn; constructor; [exact I|assumption].
  Qed.

  (* the items, one after the other *)
  Theorem run_items items : Forall child_ok items -> forall c rk cache, at_bin c rk cache ->
    match spec items rk cache with
    | Some (rk', cache') => at_bin (run c (flat_map item_events items)) rk' cache'
    | None => c_error (run c (flat_map item_events items)) = E_B64_DEC
    end.
  Proof.
    induction 1 as [|it r Hit Hr IH]; intros c rk cache H; [exact H|].
    cbn [flat_map spec]. rewrite run_app. destruct it as [chunks|n a i i'].
    - apply IH. now apply run_chars_bin.
    - pose proof (child_bin c rk cache n a i i' H Hit) as CB. cbn [item_events].
      destruct (flush_spec rk cache) as [rk1|]; [now apply IH|].
      destruct CB as [E NC].
      change (run c [EvStartElement n a i; EvEndElement n i']) with (run (step c (EvStartElement n a i)) [EvEndElement n i']).
      assert (FL : failed (step c (EvStartElement n a i))) by (unfold failed; rewrite E; discriminate).
      rewrite (failed_run_id [EvEndElement n i'] ltac:(repeat constructor) _ FL NC).
      rewrite (failed_run_id _ (items_not_decl r) _ FL NC). exact E.
  Qed.

  (* the end tag of the binary element (not the root): the last run is decoded, the element is complete *)
  Theorem end_bin c rk cache name idx g up' :
    at_bin c rk cache -> up = g :: up' ->
    match flush_spec rk cache with
    | Some rk2 => let c' := step c (EvEndElement name idx) in
                  c_error c' = WBXML_OK /\ c_skip_lvl c' = 0 /\
                  c_spine c' = add_kid g (NElt (TagTok p t o nm) attrs (rev rk2)) :: up'
    | None => c_error (step c (EvEndElement name idx)) = E_B64_DEC
    end.
  Proof.
    intros (E & K & LG & S) UP. pose proof (flush_bin c rk cache S) as FB. cbn [XmlFront.step]. unfold on_end_element.
    destruct (flush_spec rk cache) as [rk2|].
    - assert (X : exists cf, flush_binary c = cf /\ c_error cf = WBXML_OK /\ c_skip_lvl cf = 0 /\ c_spine cf = F rk2 None :: up).
      { destruct FB as [FB|(C0 & FB & ->)]; rewrite FB; eexists; split; try reflexivity; cbn; repeat split; auto. now rewrite S, C0. }
      destruct X as (cf & -> & E1 & K1 & S1). rewrite E1, K1. cbn [negb N.eqb WBXML_OK N.ltb N.compare].
      unfold leave_current. rewrite S1, UP. unfold F at 1. cbn [is_cdata_frame f_kind]. unfold go_up. rewrite S1, UP. cbn.
      unfold reify, kids_of, F. cbn. rewrite rev_append_rev, app_nil_r. auto.
    - rewrite FB. cbn. reflexivity.
  Qed.
End Bin.

(* ------------------------------------------------------------------ payloads written as RFC 4648 text *)

(* the content as the author means it: binary payloads and child elements, no two payloads next to each other (they would be
   one run of text) *)
Inductive piece := PBytes (b : bytes) | PChild (name : bytes) (attrs : list (bytes * bytes)) (i i' : N).

Definition piece_item (x : piece) : item :=
  match x with PBytes b => IRun [rfc4648 b] | PChild n a i i' => IChild n a i i' end.
Definition piece_node (l : lang) (x : piece) : node :=
  match x with PBytes b => NText b | PChild n a _ _ => NElt (fst (resolve_tag l n)) (map (resolve_attr l) a) [] end.
Definition piece_ok (x : piece) : Prop :=
  match x with PBytes b => b <> [] /\ Forall (fun c => c < 256) b | PChild n _ _ _ => is_embedded_name n = false end.

Fixpoint no_adj_payload (l : list piece) : Prop :=
  match l with
  | PBytes _ :: ((PBytes _ :: _) as r) => False
  | _ :: r => no_adj_payload r
  | [] => True
  end.

Lemma plain_nospace l : Forall (fun c => (negb (c =? 0) && negb (is_cspace c)) = true) l -> filter (fun c => negb (is_cspace c)) l = l.
Proof.
  induction 1 as [|c l Hc _ IH]; [reflexivity|]. cbn [filter]. apply andb_true_iff in Hc. destruct Hc as [_ Hc]. now rewrite Hc, IH.
Qed.

Lemma b64_alphabet_plain : forallb (fun i => negb (basis i =? 0) && negb (is_cspace (basis i))) (N_range 64) = true.
Proof. vm_compute. reflexivity. Qed.

(* the library's decoder inverts RFC 4648 on non-empty payloads (C11's round trip, through wbxml_buffer_no_spaces) *)
Lemma buffer_b64_dec_rfc b : b <> [] -> Forall (fun c => c < 256) b -> buffer_b64_dec (rfc4648 b) = Some b.
Proof.
  intros NE BY. unfold buffer_b64_dec. rewrite <- (b64_enc_is_rfc4648 b BY).
  rewrite plain_nospace; [now apply b64_roundtrip|].
  rewrite enc_body_shape by exact BY. apply Forall_app. split.
  - pose proof (sextets_lt b BY) as Hs. induction Hs as [|s r Hs _ IH]; [constructor|]. cbn [map]. constructor; [|exact IH].
    exact (sweep1 _ 64 b64_alphabet_plain s Hs).
  - unfold pad. destruct (Nat.modulo (List.length b) 3) as [|[|[|k]]]; repeat constructor.
Qed.

Lemma spec_pieces l : forall content rk,
  Forall piece_ok content -> no_adj_payload content -> (match rk with NText _ :: _ => False | _ => True end) ->
  match spec l (map piece_item content) rk None with
  | Some (rk', cache') => flush_spec rk' cache' = Some (rev (map (piece_node l) content) ++ rk)
  | None => False
  end.
Proof.
  fix IH 1. intros content rk OK NA HD. destruct content as [|x rest]; [reflexivity|].
  inversion OK as [|? ? Ox Orest]; subst.
  destruct x as [b|n a i i'].
  - destruct Ox as [NE BY]. cbn [map piece_item spec fold_left]. unfold cache_app.
    destruct rest as [|y rest'].
    + cbn [map spec flush_spec]. rewrite (buffer_b64_dec_rfc b NE BY). cbn. destruct rk as [|[] ?]; try reflexivity. contradiction.
    + destruct y as [b'|n a i i']; [contradiction|]. cbn [map piece_item spec flush_spec].
      rewrite (buffer_b64_dec_rfc b NE BY).
      assert (AT : add_text_r rk b = NText b :: rk) by (destruct rk as [|[] ?]; try reflexivity; contradiction). rewrite AT.
      inversion Orest as [|? ? _ Orest']; subst.
      specialize (IH rest' (NElt (fst (resolve_tag l n)) (map (resolve_attr l) a) [] :: NText b :: rk) Orest' NA I).
      destruct (spec l (map piece_item rest') _ None) as [[rk' cache']|]; [|contradiction].
      rewrite IH. cbn [map piece_node rev]. now rewrite <- !app_assoc.
  - cbn [map piece_item spec flush_spec].
    specialize (IH rest (NElt (fst (resolve_tag l n)) (map (resolve_attr l) a) [] :: rk) Orest).
    assert (NA' : no_adj_payload rest) by (destruct rest; exact NA).
    specialize (IH NA' I).
    destruct (spec l (map piece_item rest) _ None) as [[rk' cache']|]; [|contradiction].
    rewrite IH. cbn [map piece_node rev]. now rewrite <- !app_assoc.
Qed.

Lemma child_ok_pieces content : Forall piece_ok content -> Forall child_ok (map piece_item content).
Proof. induction 1 as [|x r Hx _ IH]; [constructor|]. cbn [map]. constructor; [destruct x; [exact I|exact Hx]|exact IH]. Qed.

(* the binary element <MIME>payload child payload ...</MIME>: its children are exactly the decoded payloads and the child
   elements, in document order *)
Theorem binary_runs_in_place main sub input l p t o nm attrs g up' content c name idx :
  (N.land o WBXML_TAG_OPTION_BINARY =? 0) = false -> beq nm s_Data = false -> (S (S (List.length up')) < 1000)%nat ->
  Forall piece_ok content -> no_adj_payload content ->
  c_error c = WBXML_OK -> c_skip_lvl c = 0 -> c_lang c = Some l ->
  c_spine c = mk_frame (FElt (TagTok p t o nm) attrs None) [] :: g :: up' ->
  let c' := run main sub input c (flat_map item_events (map piece_item content) ++ [EvEndElement name idx]) in
  c_error c' = WBXML_OK /\ c_skip_lvl c' = 0 /\
  c_spine c' = add_kid g (NElt (TagTok p t o nm) attrs (map (piece_node l) content)) :: up'.
Proof.
  intros BIN ND DP OK NA E K LG S. cbv zeta. rewrite run_app, run_cons, run_nil.
  assert (AB : at_bin l p t o nm attrs (g :: up') c [] None) by (repeat split; auto).
  pose proof (run_items main sub input l p t o nm attrs (g :: up') BIN ND DP _ (child_ok_pieces _ OK) c [] None AB) as R.
  pose proof (spec_pieces l content [] OK NA I) as SP.
  destruct (spec l (map piece_item content) [] None) as [[rk' cache']|]; [|contradiction].
  pose proof (end_bin main sub input l p t o nm attrs (g :: up') BIN _ rk' cache' name idx g up' R eq_refl) as EB.
  rewrite SP in EB. rewrite app_nil_r, rev_involutive in EB. exact EB.
Qed.

(* a run that does not decode: WBXML_ERROR_B64_DEC, at the child that follows it or at the end tag; no tree *)
Theorem binary_invalid_run_refused main sub input l p t o nm attrs up items c name idx :
  (N.land o WBXML_TAG_OPTION_BINARY =? 0) = false -> beq nm s_Data = false -> (S (List.length up) < 1000)%nat ->
  Forall child_ok items ->
  c_error c = WBXML_OK -> c_skip_lvl c = 0 -> c_lang c = Some l ->
  c_spine c = mk_frame (FElt (TagTok p t o nm) attrs None) [] :: up ->
  match spec l items [] None with
  | None => True
  | Some (rk', cache') => flush_spec rk' cache' = None
  end ->
  c_error (run main sub input c (flat_map item_events items ++ [EvEndElement name idx])) = E_B64_DEC.
Proof.
  intros BIN ND DP OK E K LG S BAD. rewrite run_app, run_cons, run_nil.
  assert (AB : at_bin l p t o nm attrs up c [] None) by (repeat split; auto).
  pose proof (run_items main sub input l p t o nm attrs up BIN ND DP _ OK c [] None AB) as R.
  destruct (spec l items [] None) as [[rk' cache']|].
  - destruct R as (E1 & K1 & L1 & S1). pose proof (flush_bin p t o nm attrs up BIN _ rk' cache' S1) as FB. rewrite BAD in FB.
    cbn [XmlFront.step]. unfold on_end_element. rewrite FB. reflexivity.
  - set (c1 := run main sub input c (flat_map item_events items)) in *.
    assert (FL : failed c1) by (unfold failed; rewrite R; discriminate).
    pose proof (error_never_cleared_step main sub input c1 (EvEndElement name idx) FL) as F2.
    rewrite (step_failed_end_element main sub input c1 name idx FL).
    destruct (flush_binary_fields c1) as (_ & _ & _ & _ & _ & _ & [X|X]); rewrite X; [exact R|reflexivity].
Qed.
