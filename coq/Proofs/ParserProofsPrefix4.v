(* C13 — proper prefixes, part 4: the body and the whole document. *)
From Coq Require Import String Ascii.
From Coq Require Import List NArith ZArith Lia Bool ZifyBool ZifyN.
From Wbxml Require Import Base.Bits Model.Codec Model.TablesDefs Model.Parser Model.Spec
     Proofs.CodecProofs Proofs.ParserProofsBase Proofs.ParserProofsStr Proofs.ParserProofsAttr Proofs.ParserProofsElt
     Proofs.ParserProofsDoc Proofs.ParserProofsReject Proofs.ParserProofsPrefix Proofs.ParserProofsPrefix2
     Proofs.ParserProofsPrefix3 Proofs.ParserTotal.
Import ListNotations.
Local Open Scope N_scope.

Section Body.
Variables (l : lang) (tb : bytes) (ver cs : N).
Hypothesis Hcs : cs_ok cs.
Hypothesis Hwv : wv_premise l.
Hypothesis Hdt : typed_datetime_agree.
Let env := penv_of l tb ver cs.
Let denv := mk_denv l tb.

(* the leading PIs on a prefix: an error, or they are complete and what is left is a prefix of the root *)
Lemma pis_prefix pis : forall dst e dst' fuel P R,
  den_pis denv pis dst = Some (e, dst') -> pp P (flat_map ser_pi pis ++ R) ->
  (forall y, is_token (R ++ y) 67 = false) -> (length P < fuel)%nat ->
  isErr (body_pi_loop fuel env (pst dst P))
  \/ exists e1 st', body_pi_loop fuel env (pst dst P) = POk (e1, st') /\
       (s_rest st' = [] \/ exists P', st' = pst dst' P' /\ pp P' R /\ (length P' <= length P)%nat).
Proof.
  unfold env. induction pis as [|p ps IH]; intros dst e dst' fuel P R H Hp HR Hf.
  - cbn [den_pis] in H. injection H as <- <-. cbn [flat_map app] in Hp. destruct fuel as [|f]; [lia|].
    right. cbn [body_pi_loop pst s_rest].
    assert (H67 : is_token P 67 = false).
    { destruct (is_token P 67) eqn:E; [|reflexivity]. destruct Hp as (Q & _ & EQ).
      apply (is_token_mono P Q) in E. rewrite <- EQ in E. rewrite <- (app_nil_r R) in E. rewrite HR in E. discriminate. }
    rewrite H67. eexists. eexists. split; [reflexivity|]. right. exists P. repeat split; [exact Hp|lia].
  - cbn [den_pis] in H. destruct (den_pi denv p dst) as [[e1 st1]|] eqn:Ep; [|discriminate].
    destruct (den_pis denv ps st1) as [[e2 st2]|] eqn:Eps; [|discriminate]. injection H as <- <-.
    destruct fuel as [|f]; [lia|].
    cbn [flat_map] in Hp. rewrite <- app_assoc in Hp. apply pp_app in Hp. destruct Hp as [Hp|(P1 & -> & Hp1)].
    + destruct P as [|b0 P0] eqn:EP.
      { right. cbn [body_pi_loop pst s_rest is_token]. eexists. eexists. split; [reflexivity|left; reflexivity]. }
      rewrite <- EP in *. assert (Hne : P <> []) by (subst P; discriminate).
      left. pose proof Hp as Hp67. unfold ser_pi in Hp67. apply pp_cons in Hp67. destruct Hp67 as [E0|(P1 & E0 & _)]; [congruence|].
      cbn [body_pi_loop pst s_rest]. rewrite E0. cbn [is_token N.eqb Pos.eqb]. rewrite <- E0.
      destruct (pi_prefix l tb ver cs Hcs p dst e1 st1 f P Ep Hp Hne) as [er He]; [lia|]. rewrite He. eexists. reflexivity.
    + assert (Hl1 : length (ser_pi p) = S (S (length (ser_attr p)))).
      { unfold ser_pi. cbn [length]. rewrite app_length. cbn [length]. lia. }
      rewrite app_length in Hf.
      pose proof (pi_ok l tb ver cs Hcs p dst e1 st1 f P1 Ep) as Hpi.
      cbn [body_pi_loop pst s_rest]. change (ser_pi p) with (67 :: ser_attr p ++ [1]) in *.
      cbn [app is_token N.eqb Pos.eqb] in *. rewrite Hpi by lia.
      destruct (IH st1 e2 st2 f P1 R Eps Hp1 HR) as [[er He]|(e' & st' & He & Hr)]; [lia| |].
      * left. rewrite He. eexists. reflexivity.
      * right. rewrite He. eexists. eexists. split; [reflexivity|].
        destruct Hr as [Hr|(P' & -> & Hp' & Hl')]; [left; exact Hr|right].
        exists P'. repeat split; [exact Hp'|]. cbn [length]. rewrite ?app_length. lia.
Qed.

Lemma body_prefix pis sw tag attrs hasc items dst e1 st1 e2 st2 fuel P :
  den_pis denv pis dst = Some (e1, st1) ->
  den_item denv 0 None (WItemElt sw tag attrs hasc items) st1 = Some (e2, st2) ->
  pp P (flat_map ser_pi pis ++ ser_item (WItemElt sw tag attrs hasc items)) -> (length P < fuel)%nat ->
  isErr (parse_body fuel env (pst dst P)).
Proof.
  unfold env. intros H1 H2 Hp Hf.
  assert (Hroot67 : forall y, is_token (ser_item (WItemElt sw tag attrs hasc items) ++ y) 67 = false).
  { intros y. pose proof H2 as H2'. rewrite den_item_elt in H2'.
    destruct (sw_okb sw && (0 <=? 1000)); [|discriminate].
    destruct (den_named denv tag (apply_sw TagSpace sw st1)) as [x|] eqn:En; [|discriminate].
    rewrite ser_item_elt, tag_bits_of. rewrite <- !app_assoc.
    destruct sw as [pg|]; cbn [ser_sw app]; [reflexivity|].
    destruct (ser_tag_head l tb tag (match attrs with [] => false | _ => true end) hasc _ x
                ((match attrs with [] => [] | _ :: _ => flat_map ser_attr attrs ++ [1] end)
                 ++ (if hasc then flat_map ser_item items ++ [1] else []) ++ y) En)
      as (b & r' & Eb & _ & _ & B67 & _).
    rewrite Eb. cbn [is_token]. exact B67. }
  unfold parse_body.
  destruct (pis_prefix pis dst e1 st1 fuel P _ H1 Hp Hroot67 Hf) as [[er He]|(e' & st' & He & Hr)].
  - unfold env in He. rewrite He. eexists. reflexivity.
  - unfold env in He. rewrite He. destruct Hr as [Hr|(P' & -> & Hp' & Hl')].
    + rewrite (eob_element fuel _ st' Hr). eexists. reflexivity.
    + destruct P' as [|b0 P0] eqn:EP.
      { rewrite eob_element by reflexivity. eexists. reflexivity. }
      rewrite <- EP in *. assert (Hne : P' <> []) by (subst P'; discriminate).
      unfold parse_element.
      destruct (element_prefix l tb ver cs Hcs Hwv Hdt sw tag attrs hasc items 0 None st1 e2 st2 fuel P' H2 Hp' Hne) as [er He2]; [lia|].
      unfold env in He2. rewrite He2. eexists. reflexivity.
Qed.

End Body.

(* public identifier and language selection (as in parse_denote), for any continuation *)
Lemma pubid_ok tbl d cs l rest1 : cs_ok cs ->
  (match wd_pub d with PubNum n => u32_okb n && negb (n =? 0) | PubIdx i => u32_okb i end) = true ->
  lang_of_pub tbl (wd_strtbl d) (wd_pub d) = Some l ->
  exists pubid pubidx,
    parse_publicid (ser_pub (wd_pub d) ++ rest1) = POk (pubid, pubidx, rest1)
    /\ check_public_id tbl 0 pubid pubidx
         (match wd_strtbl d with [] => None | _ => Some (padded (wd_strtbl d)) end)
         (blen (wd_strtbl d)) cs = Some l.
Proof.
  intros Hcs Hpub El. unfold lang_of_pub in El. destruct (wd_pub d) as [n|i]; cbn [ser_pub].
  - apply andb_prop in Hpub. destruct Hpub as [Hn Hn0].
    destruct ((n =? 1) || negb (u32_okb n) || (n =? 0)) eqn:En; [discriminate|].
    destruct (mb_write_head_nz n) as (b & r0 & Emb & Hb0); [lia|apply u32_okb_lt; exact Hn|].
    exists n, NO_INDEX. split.
    + unfold parse_publicid. rewrite Emb. cbn [app]. rewrite Hb0.
      change (b :: r0 ++ rest1) with ((b :: r0) ++ rest1). rewrite <- Emb.
      rewrite parse_mb_ok by (apply u32_okb_lt; exact Hn). reflexivity.
    + unfold check_public_id. cbn [N.eqb andb].
      replace (n =? PUBLIC_ID_UNKNOWN) with false by (unfold PUBLIC_ID_UNKNOWN; lia).
      cbn [andb skipn].
      pose proof (find_lang_pub_find tbl n 0%nat) as Hf. rewrite El in Hf.
      destruct (find_lang_pub tbl n 0) as [r2 i2]. cbn [fst] in Hf. subst r2. reflexivity.
  - destruct (u32_okb i && negb (i =? 4294967295)) eqn:Ei; [|discriminate]. apply andb_prop in Ei. destruct Ei as [Hi Hi1].
    destruct (str_at (wd_strtbl d) i) as [s|] eqn:Es; [|discriminate].
    exists PUBLIC_ID_UNKNOWN, i. split.
    + unfold parse_publicid. cbn [app N.eqb]. rewrite parse_mb_ok by (apply u32_okb_lt; exact Hi). reflexivity.
    + unfold check_public_id. cbn [N.eqb andb].
      replace (i =? NO_INDEX) with false by (unfold NO_INDEX; lia). cbn [andb skipn].
      change (PUBLIC_ID_UNKNOWN =? PUBLIC_ID_UNKNOWN) with true. cbn [andb].
      pose proof (strtbl_ref_ok (mk_lang 0 0 None None None None None None None None) (wd_strtbl d) 0 cs i s Hcs Es) as Hr.
      unfold penv_of in Hr. rewrite Hr. rewrite find_lang_text_find. exact El.
Qed.

(* the public identifier cut short *)
Lemma pubid_prefix p P : (match p with PubNum n => u32_okb n && negb (n =? 0) | PubIdx i => u32_okb i end) = true ->
  pp P (ser_pub p) -> isErr (parse_publicid P).
Proof.
  intros Hpub Hp. destruct p as [n|i]; cbn [ser_pub] in Hp.
  - apply andb_prop in Hpub. destruct Hpub as [Hn Hn0].
    destruct P as [|b P0] eqn:EP; [eexists; reflexivity|]. rewrite <- EP in *.
    destruct (mb_write_head_nz n) as (b' & r0 & Emb & Hb0); [lia|apply u32_okb_lt; exact Hn|].
    assert (Hb : b = b') by (destruct Hp as (Q & _ & EQ); rewrite Emb, EP in EQ; cbn in EQ; congruence).
    unfold parse_publicid. rewrite EP. rewrite Hb, Hb0. rewrite <- Hb, <- EP.
    rewrite (mb_prefix_err n P (u32_okb_lt _ Hn) Hp). eexists. reflexivity.
  - apply pp_cons in Hp. destruct Hp as [->|(P' & -> & Hp)]; [eexists; reflexivity|].
    unfold parse_publicid. cbn [N.eqb]. rewrite (mb_prefix_err i P' (u32_okb_lt _ Hpub) Hp). eexists. reflexivity.
Qed.

Section DocPrefix.
Variable tbl : list lang.
Hypothesis Hwv : forall l, In l tbl -> wv_premise l.
Hypothesis Hdt : typed_datetime_agree.

(* THE GLOBAL STATEMENT: every proper prefix of a well-formed document that ends inside the header, the string
   table, the leading PIs or the root element is refused *)
Theorem parse_prefix_refused (d : wdoc) (evs : list event) (P : bytes) :
  denote tbl d = Some evs ->
  pp P (ser_header d ++ flat_map ser_pi (wd_pis_before d) ++ ser_item (wd_root d)) ->
  exists e, parse tbl (S (length P)) P = PErr e.
Proof.
  unfold denote, denote_with. intros H Hp.
  destruct ((wd_ver d <? 4) && bytes_okb (wd_strtbl d) && u32_okb (blen (wd_strtbl d))
            && match wd_pub d with PubNum n => u32_okb n && negb (n =? 0) | PubIdx i => u32_okb i end) eqn:E0; [|discriminate].
  rewrite !andb_true_iff in E0. destruct E0 as [[[Hver Hb] Hu] Hpub].
  destruct (charset_of d) as [cs|] eqn:Ecs; [|discriminate].
  pose proof (charset_of_ok d cs Ecs) as Hcs.
  destruct (lang_of_pub tbl (wd_strtbl d) (wd_pub d)) as [l|] eqn:El; [|discriminate].
  pose proof (Hwv l (lang_of_pub_In tbl _ _ _ El)) as Hwvl.
  destruct (wd_root d) as [sw tag attrs hasc items|s|p] eqn:Eroot; try discriminate.
  set (denv := mk_denv l (wd_strtbl d)) in *.
  destruct (den_pis denv (wd_pis_before d) (mk_dstate 0 0 None)) as [[e1 st1]|] eqn:E1; [|discriminate].
  destruct (den_item denv 0 None (WItemElt sw tag attrs hasc items) st1) as [[e2 st2]|] eqn:E2; [|discriminate].
  set (body := flat_map ser_pi (wd_pis_before d) ++ ser_item (WItemElt sw tag attrs hasc items)) in *.
  unfold ser_header in Hp. rewrite <- !app_assoc in Hp. cbn [app] in Hp.
  unfold parse, parse_with.
  destruct P as [|v0 P0] eqn:EP; [eexists; reflexivity|].
  apply pp_cons in Hp. destruct Hp as [Hp|(P1 & EP1 & Hp1)]; [discriminate|]. injection EP1 as -> ->.
  cbn [parse_uint8]. set (fuel := S (length (wd_ver d :: P1))).
  (* public identifier *)
  apply pp_app in Hp1. destruct Hp1 as [Hp1|(P2 & -> & Hp2)].
  { destruct (pubid_prefix (wd_pub d) P1 Hpub Hp1) as [er He]. rewrite He. eexists. reflexivity. }
  destruct (pubid_ok tbl d cs l P2 Hcs Hpub El) as (pubid & pubidx & Hpp & Hcp). rewrite Hpp. cbn [N.eqb].
  (* the remaining header fields and the body, for the charset value c0 read and the rest P3 *)
  assert (Hrest : forall c0 P3, (if c0 =? 0 then 106 else c0) = cs ->
            pp P3 (mb_write (blen (wd_strtbl d)) ++ wd_strtbl d ++ body) -> (length P3 < fuel)%nat ->
            exists e,
              match parse_strtbl P3 with
              | POk (strtbl, strtbl_len, r3) =>
                match check_public_id tbl 0 pubid pubidx strtbl strtbl_len (if c0 =? 0 then 106 else c0) with
                | Some l0 =>
                  match parse_body fuel (mk_penv strtbl strtbl_len l0 (wd_ver d) (if c0 =? 0 then 106 else c0)) (mk_pstate r3 0 0 None) with
                  | POk (evs0, _) => POk (EvStartDoc (if c0 =? 0 then 106 else c0) (l_id l0) :: evs0 ++ [EvEndDoc])
                  | PErr e => PErr e | PFuel => PFuel
                  end
                | None => PErr PE_UNKNOWN_PUBLIC_ID
                end
              | PErr e => PErr e | PFuel => PFuel
              end = PErr e).
  { intros c0 P3 Hc0 Hp3 Hf3. rewrite Hc0.
    apply pp_app in Hp3. destruct Hp3 as [Hp3|(P4 & -> & Hp4)].
    - unfold parse_strtbl. rewrite (mb_prefix_err _ P3 (u32_okb_lt _ Hu) Hp3). eexists. reflexivity.
    - apply pp_app in Hp4. destruct Hp4 as [Hp4|(P5 & -> & Hp5)].
      + unfold parse_strtbl. rewrite parse_mb_ok by (apply u32_okb_lt; exact Hu).
        assert (blen P4 < blen (wd_strtbl d)) by (pose proof (pp_len _ _ Hp4); unfold blen; lia).
        replace (0 <? blen (wd_strtbl d)) with true by lia.
        replace (blen P4 <? blen (wd_strtbl d)) with true by lia. eexists. reflexivity.
      + rewrite (parse_strtbl_ok (wd_strtbl d) P5 Hb Hu). rewrite Hcp.
        change (mk_penv (match wd_strtbl d with [] => None | _ :: _ => Some (padded (wd_strtbl d)) end)
                        (blen (wd_strtbl d)) l (wd_ver d) cs) with (penv_of l (wd_strtbl d) (wd_ver d) cs).
        change (mk_pstate P5 0 0 None) with (pst (mk_dstate 0 0 None) P5).
        destruct (body_prefix l (wd_strtbl d) (wd_ver d) cs Hcs Hwvl Hdt (wd_pis_before d) sw tag attrs hasc items
                    (mk_dstate 0 0 None) e1 st1 e2 st2 fuel P5 E1 E2 Hp5) as [er Her].
        * rewrite !app_length in Hf3. lia.
        * rewrite Her. eexists. reflexivity. }
  (* charset field *)
  assert (HfP2 : (length P2 < fuel)%nat) by (subst fuel; cbn [length]; rewrite app_length; lia).
  destruct (charset_of_cases d cs Ecs) as [(Ev & Ec & Ecs') | (Ev & c & Ec & Hc)].
  - replace (wd_ver d =? 0) with true by (rewrite Ev; reflexivity). rewrite Ec in Hp2. cbn [app] in Hp2.
    apply (Hrest 0 P2); [cbn [N.eqb]; symmetry; exact Ecs'|exact Hp2|exact HfP2].
  - replace (wd_ver d =? 0) with false by lia. rewrite Ec in Hp2.
    assert (Hcu : c < 4294967296) by (destruct Hc as [(-> & _)|(-> & [-> | ->])]; lia).
    unfold parse_charset. apply pp_app in Hp2. destruct Hp2 as [Hp2|(P3 & -> & Hp3)].
    + rewrite (mb_prefix_err c P2 Hcu Hp2). eexists. reflexivity.
    + rewrite parse_mb_ok by exact Hcu.
      assert (Hf3 : (length P3 < fuel)%nat) by (rewrite app_length in HfP2; lia).
      destruct Hc as [(-> & ->) | (-> & Hc)].
      * change (charset_known (if 0 =? 0 then if 0 =? 0 then 106 else 0 else 0)) with true. cbv iota.
        apply (Hrest 106 P3); [reflexivity|exact Hp3|exact Hf3].
      * assert (Ecs0 : (cs =? 0) = false) by lia. rewrite Ecs0.
        assert (Hk : charset_known cs = true) by (destruct Hc as [-> | ->]; reflexivity). rewrite Hk.
        apply (Hrest cs P3); [rewrite Ecs0; reflexivity|exact Hp3|exact Hf3].
Qed.

End DocPrefix.

(* the same with firstn: cut the serialized document at any n inside header / table / leading PIs / root *)
Definition upto_root (d : wdoc) : bytes := ser_header d ++ flat_map ser_pi (wd_pis_before d) ++ ser_item (wd_root d).

Lemma serialize_upto d : serialize d = upto_root d ++ flat_map ser_pi (wd_pis_after d).
Proof. unfold serialize, upto_root. rewrite <- !app_assoc. reflexivity. Qed.

Theorem truncated_refused tbl (Hwv : forall l, In l tbl -> wv_premise l) (Hdt : typed_datetime_agree) d evs n :
  denote tbl d = Some evs -> (n < length (upto_root d))%nat ->
  exists e, parse tbl (S n) (firstn n (serialize d)) = PErr e.
Proof.
  intros H Hn.
  assert (Hp : pp (firstn n (serialize d)) (upto_root d)).
  { rewrite serialize_upto. rewrite firstn_app.
    assert (E0 : (n - length (upto_root d) = 0)%nat) by lia. rewrite E0.
    cbn [firstn]. rewrite app_nil_r. exists (skipn n (upto_root d)). split.
    - intros E. pose proof (skipn_length n (upto_root d)) as L. rewrite E in L. cbn [length] in L. lia.
    - symmetry. apply firstn_skipn. }
  destruct (parse_prefix_refused tbl Hwv Hdt d evs _ H Hp) as [e He].
  assert (Hl : length (firstn n (serialize d)) = n).
  { apply firstn_length_le. rewrite serialize_upto, app_length. lia. }
  rewrite Hl in He. exists e. exact He.
Qed.
