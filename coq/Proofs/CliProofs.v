(* C20 — proofs about Model/Cli.v *)
From Coq Require Import List NArith ZArith Bool Lia Arith.
From Wbxml Require Import Model.Cli.
Import ListNotations.
Local Open Scope N_scope.

(* ------------------------------------------------------------------ *)
(* reading in blocks delivers the whole input                          *)

Lemma block_size_pos : (0 < block_size)%nat.
Proof. unfold block_size. lia. Qed.

Opaque block_size.

Lemma read_blocks_gen : forall fuel rest acc,
  (length rest < fuel)%nat -> read_blocks fuel rest acc = Some (acc ++ rest).
Proof.
  induction fuel as [|f IH]; intros rest acc Hlen; [lia|].
  cbn [read_blocks].
  pose proof block_size_pos as Hb.
  destruct (length (firstn block_size rest) <? block_size)%nat eqn:E.
  - apply Nat.ltb_lt in E. rewrite firstn_length in E.
    assert (length rest <= block_size)%nat by lia.
    rewrite firstn_all2 by lia. reflexivity.
  - apply Nat.ltb_ge in E. rewrite firstn_length in E.
    rewrite IH.
    + rewrite <- app_assoc, firstn_skipn. reflexivity.
    + rewrite skipn_length. lia.
Qed.

Lemma read_blocks_all : forall bs, read_blocks (S (length bs)) bs [] = Some bs.
Proof. intros. rewrite read_blocks_gen by lia. reflexivity. Qed.

(* ------------------------------------------------------------------ *)
(* strings                                                             *)

Definition no_nul (s : str) : Prop := Forall (fun b => b <> 0) s.
Definition argv_ok (argv : list str) : Prop := Forall no_nul argv.

Lemma str_eqb_eq : forall a b, str_eqb a b = true <-> a = b.
Proof.
  induction a as [|x a IH]; destruct b as [|y b]; cbn; split; intro H; try congruence; try discriminate.
  - apply andb_true_iff in H. destruct H as [H1 H2]. apply N.eqb_eq in H1. apply IH in H2. congruence.
  - inversion H; subst. rewrite N.eqb_refl. cbn. apply IH. reflexivity.
Qed.

Lemma str_eqb_refl : forall a, str_eqb a a = true.
Proof. intros. apply str_eqb_eq. reflexivity. Qed.

(* ------------------------------------------------------------------ *)
(* the option loop over wbxml_getopt equals the grammar                *)

Section Grammar.
  Variable C : Type.
  Variable apply : N -> option str -> C -> option C.
  Variable opts : str.
  Variable kindof : N -> kind.
  Hypothesis H_kind : forall c,
    (if c =? c_colon then None else opt_lookup opts c) =
    match kindof c with KIllegal => None | KFlag => Some false | KArg => Some true end.
  Hypothesis H_qm : forall oa cfg, apply c_qm oa cfg = None.

  Variable argv : list str.
  Hypothesis H_ok : argv_ok argv.

  Let prog := nth 0 argv [].

  (* what the specification does after the characters cs of the word at position `length pre` *)
  Definition resume (pre rest : list str) (cs : list N) (cfg : C) : parsed C :=
    match scan_cluster apply kindof prog cs (hd_error rest) cfg with
    | CHelp ms => PHelp ms
    | CNext cfg' false => spec_args apply kindof prog argv rest (S (length pre)) cfg'
    | CNext cfg' true =>
        match rest with
        | _ :: rest' => spec_args apply kindof prog argv rest' (S (S (length pre))) cfg'
        | [] => PArgs cfg' argv (S (S (length pre)))
        end
    end.

  Lemma total_len_cons : forall w rest, total_len (w :: rest) = (S (length w) + total_len rest)%nat.
  Proof. reflexivity. Qed.

  Lemma nth_pre : forall (pre : list str) w rest, nth (length pre) (pre ++ w :: rest) [] = w.
  Proof. intros. rewrite app_nth2 by lia. rewrite Nat.sub_diag. reflexivity. Qed.

  Lemma skipn_cons_nth : forall (w : str) j c cs, skipn j w = c :: cs -> ch w j = c /\ skipn (S j) w = cs /\ (j < length w)%nat.
  Proof.
    induction w as [|x w IH]; intros j c cs H.
    - destruct j; discriminate.
    - destruct j as [|j].
      + cbn in H. inversion H; subst. cbn. repeat split. lia.
      + cbn [skipn] in H. apply IH in H. destruct H as (H1 & H2 & H3).
        unfold ch in *. cbn. repeat split; auto. lia.
  Qed.

  Lemma no_nul_skipn : forall (w : str) j, no_nul w -> no_nul (skipn j w).
  Proof.
    unfold no_nul. intros w j H. rewrite <- (firstn_skipn j w) in H. apply Forall_app in H. tauto.
  Qed.

  Lemma word_in : forall pre w rest, argv = pre ++ w :: rest -> no_nul w.
  Proof.
    intros pre w rest E. unfold argv_ok in H_ok. rewrite E in H_ok.
    apply Forall_app in H_ok. destruct H_ok as [_ H]. inversion H; assumption.
  Qed.

  Lemma loop_spec : forall fuel,
    (forall pre rest cfg, argv = pre ++ rest -> (1 <= length pre)%nat -> (total_len rest < fuel)%nat ->
       att_loop apply opts fuel argv (mkG (length pre) 1) cfg =
       spec_args apply kindof prog argv rest (length pre) cfg) /\
    (forall pre w rest j c cs cfg, argv = pre ++ w :: rest -> (1 <= length pre)%nat ->
       ch w 0 = c_dash -> (1 <= j)%nat -> skipn j w = c :: cs ->
       (total_len (w :: rest) - j < fuel)%nat ->
       att_loop apply opts fuel argv (mkG (length pre) j) cfg = resume pre rest (c :: cs) cfg).
  Proof.
    induction fuel as [|f IH].
    - split; intros; lia.
    - destruct IH as [IHA IHB].
      assert (HB : forall pre w rest j c cs cfg, argv = pre ++ w :: rest -> (1 <= length pre)%nat ->
                ch w 0 = c_dash -> (1 <= j)%nat -> skipn j w = c :: cs ->
                (total_len (w :: rest) - j < S f)%nat ->
                att_loop apply opts (S f) argv (mkG (length pre) j) cfg = resume pre rest (c :: cs) cfg).
      { intros pre w rest j c cs cfg E Hpre Hdash Hj Hsk Hfuel.
        pose proof (word_in _ _ _ E) as Hnn.
        rewrite total_len_cons in Hfuel.
        destruct (skipn_cons_nth _ _ _ _ Hsk) as (Hc & Hsk' & Hjl).
        assert (Hc0 : c <> 0).
        { pose proof (no_nul_skipn w j Hnn) as Hs. rewrite Hsk in Hs. inversion Hs; assumption. }
        assert (Hnext : ch w (S j) = hd 0 cs).
        { destruct cs as [|d cs2]; unfold ch.
          - cbn. apply nth_overflow.
            assert (length (skipn (S j) w) = 0%nat) by (rewrite Hsk'; reflexivity).
            rewrite skipn_length in H. lia.
          - destruct (skipn_cons_nth _ _ _ _ Hsk') as (Hd & _ & _). unfold ch in Hd. rewrite Hd. reflexivity. }
        assert (Hcs0 : (hd 0 cs =? 0) = match cs with [] => true | _ => false end).
        { destruct cs as [|d cs2]; cbn; [reflexivity|].
          pose proof (no_nul_skipn w (S j) Hnn) as Hs. rewrite Hsk' in Hs. inversion Hs; subst.
          apply N.eqb_neq. assumption. }
        assert (Hargc : length argv = (length pre + S (length rest))%nat).
        { rewrite E, app_length. reflexivity. }
        assert (Epre : argv = (pre ++ [w]) ++ rest) by (rewrite <- app_assoc; exact E).
        assert (Lpre : length (pre ++ [w]) = S (length pre)) by (rewrite app_length; cbn; lia).
        assert (Hnth : nth (length pre) argv [] = w) by (rewrite E; apply nth_pre).
        cbn [att_loop]. unfold att_getopt. cbn [g_optind g_sp].
        rewrite Hnth. fold prog.
        (* the three early returns do not apply *)
        replace ((length argv <=? length pre)%nat) with false by (symmetry; apply Nat.leb_gt; lia).
        rewrite andb_false_r.
        assert (G2 : ((j =? 1)%nat && (negb (ch w 0 =? c_dash) || (ch w 1 =? 0))) = false).
        { destruct (Nat.eqb_spec j 1) as [->|]; [|reflexivity]. cbn [andb].
          rewrite Hdash, N.eqb_refl. cbn [negb orb]. rewrite Hc. apply N.eqb_neq. assumption. }
        rewrite G2.
        assert (G3 : (negb (j =? 1)%nat && str_eqb w s_dashdash) = false).
        { destruct (Nat.eqb_spec j 1) as [->|Hne]; [reflexivity|]. cbn [negb andb].
          destruct (str_eqb w s_dashdash) eqn:Ew; [|reflexivity].
          apply str_eqb_eq in Ew. rewrite Ew in Hjl. unfold s_dashdash in Hjl. cbn in Hjl. lia. }
        rewrite G3. rewrite Hc, H_kind, Hnext, Hcs0.
        unfold resume. cbn [scan_cluster].
        destruct (kindof c) eqn:K.
        + (* illegal option *)
          rewrite H_qm. reflexivity.
        + (* flag *)
          destruct (apply c None cfg) as [cfg'|] eqn:Ea.
          * destruct cs as [|d cs2].
            -- cbn [scan_cluster]. rewrite <- Lpre. apply IHA; [exact Epre| lia|].
               rewrite ?total_len_cons in *. lia.
            -- change (match scan_cluster apply kindof prog (d :: cs2) (hd_error rest) cfg' with
                       | CHelp ms => PHelp ms
                       | CNext cfg'0 false => spec_args apply kindof prog argv rest (S (length pre)) cfg'0
                       | CNext cfg'0 true => match rest with
                                             | _ :: rest' => spec_args apply kindof prog argv rest' (S (S (length pre))) cfg'0
                                             | [] => PArgs cfg'0 argv (S (S (length pre)))
                                             end
                       end) with (resume pre rest (d :: cs2) cfg').
               apply IHB with (w := w); auto; rewrite ?total_len_cons; lia.
          * destruct cs; reflexivity.
        + (* option with a value *)
          destruct cs as [|d cs2].
          * (* value is the next word *)
            cbn [negb]. rewrite Hargc.
            destruct rest as [|v rest'].
            -- replace ((length pre + S (length (@nil str)) <=? S (length pre))%nat) with true
                 by (symmetry; apply Nat.leb_le; cbn; lia).
               cbn [hd_error]. rewrite H_qm. reflexivity.
            -- replace ((length pre + S (length (v :: rest')) <=? S (length pre))%nat) with false
                 by (symmetry; apply Nat.leb_gt; cbn; lia).
               cbn [hd_error].
               assert (Hv : nth (S (length pre)) argv [] = v).
               { rewrite Epre. rewrite <- Lpre. apply nth_pre. }
               rewrite Hv.
               destruct (apply c (Some v) cfg) as [cfg'|]; [|reflexivity].
               assert (E2 : argv = ((pre ++ [w]) ++ [v]) ++ rest') by (rewrite <- app_assoc; exact Epre).
               assert (L2 : length ((pre ++ [w]) ++ [v]) = S (S (length pre))) by (rewrite app_length, Lpre; cbn; lia).
               rewrite <- L2. apply IHA; [exact E2|lia|].
               rewrite ?total_len_cons in *. lia.
          * (* value is the rest of the word *)
            cbn [negb]. rewrite Hsk'.
            destruct (apply c (Some (d :: cs2)) cfg) as [cfg'|]; [|reflexivity].
            rewrite <- Lpre. apply IHA; [exact Epre|lia|].
            lia. }
      split; [|exact HB].
      intros pre rest cfg E Hpre Hfuel.
      destruct rest as [|a rest].
      + (* all words processed *)
        cbn [att_loop spec_args]. unfold att_getopt. cbn [g_optind g_sp].
        replace ((length argv <=? length pre)%nat) with true
          by (symmetry; apply Nat.leb_le; rewrite E, app_length; cbn; lia).
        reflexivity.
      + pose proof (word_in _ _ _ E) as Hnn.
        cbn [spec_args].
        destruct (is_option_word a) eqn:Ow.
        * destruct a as [|x [|d r]]; try discriminate. cbn in Ow. apply N.eqb_eq in Ow. subst x.
          cbn [tl].
          change (match scan_cluster apply kindof prog (d :: r) (hd_error rest) cfg with
                  | CHelp ms => PHelp ms
                  | CNext cfg' false => spec_args apply kindof prog argv rest (S (length pre)) cfg'
                  | CNext cfg' true => match rest with
                                       | _ :: rest' => spec_args apply kindof prog argv rest' (S (S (length pre))) cfg'
                                       | [] => PArgs cfg' argv (S (S (length pre)))
                                       end
                  end) with (resume pre rest (d :: r) cfg).
          apply HB with (w := c_dash :: d :: r); auto.
          rewrite total_len_cons in *. cbn [length] in *. lia.
        * assert (Hnth : nth (length pre) argv [] = a) by (rewrite E; apply nth_pre).
          cbn [att_loop]. unfold att_getopt. cbn [g_optind g_sp].
          rewrite Hnth.
          replace ((length argv <=? length pre)%nat) with false
            by (symmetry; apply Nat.leb_gt; rewrite E, app_length; cbn; lia).
          cbn [Nat.eqb andb].
          assert (G : (negb (ch a 0 =? c_dash) || (ch a 1 =? 0)) = true).
          { destruct a as [|x [|d r]]; cbn; try reflexivity.
            - apply orb_true_r.
            - cbn in Ow. rewrite Ow. reflexivity. }
          rewrite G. reflexivity.
  Qed.

  Theorem att_equals_spec : forall cfg,
    att_loop apply opts (parse_fuel argv) argv (mkG 1 1) cfg = spec_parse apply kindof argv cfg.
  Proof.
    intros cfg. unfold spec_parse, parse_fuel.
    destruct (loop_spec (S (total_len argv))) as [HA _].
    subst prog.
    destruct argv as [|p args].
    - reflexivity.
    - specialize (HA [p] args cfg). cbn [length nth] in HA. cbn [nth].
      apply HA.
      + reflexivity.
      + lia.
      + rewrite total_len_cons. lia.
  Qed.
End Grammar.

(* ------------------------------------------------------------------ *)
(* the two tools: option strings agree with the documented tables      *)

Lemma w2x_kind_ok : forall c,
  (if c =? c_colon then None else opt_lookup w2x_optstring c) =
  match kind_w2x c with KIllegal => None | KFlag => Some false | KArg => Some true end.
Proof.
  intros c. unfold kind_w2x, w2x_optstring, c_colon. cbn [opt_lookup].
  repeat (match goal with
          | |- context [N.eqb ?a c] => destruct (N.eqb_spec a c); [subst; reflexivity|]
          end).
  repeat (match goal with
          | |- context [N.eqb c ?a] => destruct (N.eqb_spec c a); [congruence|]
          end).
  reflexivity.
Qed.

Lemma x2w_kind_ok : forall c,
  (if c =? c_colon then None else opt_lookup x2w_optstring c) =
  match kind_x2w c with KIllegal => None | KFlag => Some false | KArg => Some true end.
Proof.
  intros c. unfold kind_x2w, x2w_optstring, c_colon. cbn [opt_lookup].
  repeat (match goal with
          | |- context [N.eqb ?a c] => destruct (N.eqb_spec a c); [subst; reflexivity|]
          end).
  repeat (match goal with
          | |- context [N.eqb c ?a] => destruct (N.eqb_spec c a); [congruence|]
          end).
  reflexivity.
Qed.

Lemma w2x_qm : forall oa p, w2x_apply c_qm oa p = None.
Proof. intros oa [w out]. reflexivity. Qed.

Lemma x2w_qm : forall oa p, x2w_apply c_qm oa p = None.
Proof. intros oa [x out]. reflexivity. Qed.

Theorem tool_parse_att_spec : forall t argv, argv_ok argv -> tool_parse t Att argv = tool_spec_parse t argv.
Proof.
  intros t argv Hok. destruct t; unfold tool_parse, tool_spec_parse, run_getopt.
  - rewrite (att_equals_spec _ w2x_apply w2x_optstring kind_w2x w2x_kind_ok w2x_qm argv Hok). reflexivity.
  - rewrite (att_equals_spec _ x2w_apply x2w_optstring kind_x2w x2w_kind_ok x2w_qm argv Hok). reflexivity.
Qed.

(* the glibc flavour reads the same option tables *)
Lemma opt_kind_w2x : forall c, opt_kind w2x_optstring c = kind_w2x c.
Proof.
  intros c. unfold opt_kind. pose proof (w2x_kind_ok c) as H.
  destruct (c =? c_colon) eqn:E1.
  - apply N.eqb_eq in E1. subst c. reflexivity.
  - destruct (c =? 59) eqn:E2.
    + apply N.eqb_eq in E2. subst c. reflexivity.
    + cbn [orb]. rewrite H. destruct (kind_w2x c); reflexivity.
Qed.

Lemma opt_kind_x2w : forall c, opt_kind x2w_optstring c = kind_x2w c.
Proof.
  intros c. unfold opt_kind. pose proof (x2w_kind_ok c) as H.
  destruct (c =? c_colon) eqn:E1.
  - apply N.eqb_eq in E1. subst c. reflexivity.
  - destruct (c =? 59) eqn:E2.
    + apply N.eqb_eq in E2. subst c. reflexivity.
    + cbn [orb]. rewrite H. destruct (kind_x2w c); reflexivity.
Qed.

(* ------------------------------------------------------------------ *)
(* totality and the messages of the option loop                        *)

Definition getopt_msg (m : msg) : Prop :=
  match m with MIllegalOpt _ _ | MReqArg _ _ => True | _ => False end.

Section Loops.
  Variable C : Type.
  Variable apply : N -> option str -> C -> option C.

  Lemma scan_cluster_props : forall kindof prog cs next cfg,
    match scan_cluster apply kindof prog cs next cfg with
    | CHelp ms => Forall getopt_msg ms
    | CNext _ true => next <> None
    | CNext _ false => True
    end.
  Proof.
    induction cs as [|c cs IH]; intros next cfg; cbn [scan_cluster]; [exact I|].
    destruct (kindof c).
    - repeat constructor.
    - destruct (apply c None cfg); [apply IH|constructor].
    - destruct cs as [|d cs2].
      + destruct next as [v|]; [|repeat constructor].
        destruct (apply c (Some v) cfg); [discriminate|constructor].
      + destruct (apply c (Some (d :: cs2)) cfg); [exact I|constructor].
  Qed.

  Lemma posix_scan_props : forall opts prog args done nonopts cfg,
    match posix_scan apply opts prog args done nonopts cfg with
    | PHelp ms => Forall getopt_msg ms
    | PArgs _ _ _ => True
    | POutOfFuel => False
    end.
  Proof.
    intros opts prog. fix IH 1. intros args done nonopts cfg.
    destruct args as [|a rest]; cbn [posix_scan]; [exact I|].
    destruct (str_eqb a s_dashdash); [exact I|].
    destruct (is_option_word a).
    - pose proof (scan_cluster_props (opt_kind opts) prog (tl a) (hd_error rest) cfg) as H.
      destruct (scan_cluster apply (opt_kind opts) prog (tl a) (hd_error rest) cfg) as [ms|cfg' [|]].
      + exact H.
      + destruct rest as [|v rest']; [cbn in H; congruence|]. apply IH.
      + apply IH.
    - apply IH.
  Qed.

  Lemma att_loop_help : forall opts fuel argv st cfg ms,
    att_loop apply opts fuel argv st cfg = PHelp ms -> Forall getopt_msg ms.
  Proof.
    induction fuel as [|f IH]; intros argv st cfg ms H; [discriminate|].
    cbn [att_loop] in H.
    destruct (att_getopt argv opts st) as [[[r st'] oa] ms'] eqn:G.
    destruct r as [|c]; [discriminate|].
    destruct (apply c oa cfg) as [cfg'|]; [eapply IH; exact H|].
    inversion H; subst ms'. clear H. clear IH.
    unfold att_getopt in G.
    repeat match type of G with
           | (if ?b then _ else _) = _ => destruct b
           | match ?x with _ => _ end = _ => destruct x
           end; inversion G; subst; repeat constructor.
  Qed.
End Loops.

Lemma map_parsed_help : forall A B (f : A -> B) p ms, map_parsed f p = PHelp ms -> p = PHelp ms.
Proof. intros A B f p ms H; destruct p; cbn in H; congruence. Qed.

Lemma tool_parse_help : forall t fl argv ms, tool_parse t fl argv = PHelp ms -> Forall getopt_msg ms.
Proof.
  intros t fl argv ms H. destruct t; unfold tool_parse in H; apply map_parsed_help in H;
    destruct fl; unfold run_getopt in H.
  - eapply att_loop_help; exact H.
  - destruct argv as [|p args]; [discriminate|].
    pose proof (posix_scan_props _ w2x_apply w2x_optstring p args [] [] (w2x_default, None)) as P.
    rewrite H in P. exact P.
  - eapply att_loop_help; exact H.
  - destruct argv as [|p args]; [discriminate|].
    pose proof (posix_scan_props _ x2w_apply x2w_optstring p args [] [] (x2w_default, None)) as P.
    rewrite H in P. exact P.
Qed.

Lemma spec_parse_total : forall C (apply : N -> option str -> C -> option C) kindof argv cfg,
  spec_parse apply kindof argv cfg <> POutOfFuel.
Proof.
  intros C apply kindof argv cfg. unfold spec_parse. destruct argv as [|p args]; [discriminate|].
  generalize 1%nat. generalize cfg. generalize (p :: args) at 1. revert args.
  fix IH 1. intros args full cfg0 idx.
  destruct args as [|a rest]; cbn [spec_args]; [discriminate|].
  destruct (is_option_word a); [|discriminate].
  destruct (scan_cluster apply kindof p (tl a) (hd_error rest) cfg0) as [ms|cfg' [|]]; [discriminate| |apply IH].
  destruct rest as [|v rest']; [discriminate|apply IH].
Qed.

Theorem tool_parse_total : forall t fl argv, (fl = Att -> argv_ok argv) -> tool_parse t fl argv <> POutOfFuel.
Proof.
  intros t fl argv Hok. destruct fl.
  - rewrite tool_parse_att_spec by auto.
    destruct t; unfold tool_spec_parse.
    + pose proof (spec_parse_total _ w2x_apply kind_w2x argv (w2x_default, None)).
      destruct (spec_parse w2x_apply kind_w2x argv (w2x_default, None)); cbn; congruence.
    + pose proof (spec_parse_total _ x2w_apply kind_x2w argv (x2w_default, None)).
      destruct (spec_parse x2w_apply kind_x2w argv (x2w_default, None)); cbn; congruence.
  - destruct t; unfold tool_parse, run_getopt; destruct argv as [|p args]; try (cbn; discriminate).
    + pose proof (posix_scan_props _ w2x_apply w2x_optstring p args [] [] (w2x_default, None)) as P.
      destruct (posix_scan w2x_apply w2x_optstring p args [] [] (w2x_default, None)); cbn; [discriminate|discriminate|contradiction].
    + pose proof (posix_scan_props _ x2w_apply x2w_optstring p args [] [] (x2w_default, None)) as P.
      destruct (posix_scan x2w_apply x2w_optstring p args [] [] (x2w_default, None)); cbn; [discriminate|discriminate|contradiction].
Qed.

(* ------------------------------------------------------------------ *)
(* the main flow, characterised                                        *)

Definition out_msgs (w : world) (out : option str) : list msg :=
  match out with
  | Some n => if str_eqb n s_dash then [] else if w_open_out w n then [] else [MFailedOpenOut n]
  | None => []
  end.

Lemma main_char : forall t fl argv w o, tool_main t fl argv w = Done o ->
  match request t fl argv with
  | None => o_call o = None /\ o_exit o = 0 /\ o_sink o = SNone /\ o_stdout o = [] /\
            (exists ms, Forall getopt_msg ms /\ (o_stderr o = ms ++ [MHelp t] \/ o_stderr o = [MMissingArgs; MHelp t]))
  | Some (lo, out, name) =>
      match input_of w name with
      | InBytes bs =>
          o_call o = Some (lo, bs) /\ o_stdout o = [] /\
          o_exit o = fst (w_lib w lo bs) mod 256 /\
          o_sink o = sink_spec w out (fst (w_lib w lo bs)) (snd (w_lib w lo bs)) /\
          o_stderr o = (if fst (w_lib w lo bs) =? 0 then MSucceeded t :: out_msgs w out
                        else [MFailed t (fst (w_lib w lo bs))])
      | InOpenFail =>
          o_call o = None /\ o_exit o = 0 /\ o_sink o = SNone /\ o_stdout o = [] /\
          o_stderr o = [MFailedOpenIn name]
      | InReadErr =>
          o_call o = None /\ o_exit o = 0 /\ o_sink o = SNone /\ o_stdout o = [] /\
          exists n, o_stderr o = [MReadErr n]
      end
  end.
Proof.
  intros t fl argv w o H. unfold tool_main, request in *.
  destruct (tool_parse t fl argv) as [ms|[lo out] argv' i|] eqn:P; [| |discriminate].
  - apply tool_parse_help in P. inversion H; subst; cbn. repeat split; auto.
    exists ms. split; auto.
  - destruct (length argv' <=? i)%nat.
    + inversion H; subst; cbn. repeat split; auto. exists []. split; [constructor|auto].
    + destruct (input_of w (nth i argv' [])) as [| |bs].
      * inversion H; subst; cbn; repeat split; auto.
      * destruct t; inversion H; subst; cbn; repeat split; eauto.
      * rewrite read_blocks_all in H.
        destruct (w_lib w lo bs) as [code outb]. cbn [fst snd].
        unfold sink_spec, out_msgs.
        destruct (code =? 0) eqn:Ec.
        -- apply N.eqb_eq in Ec. subst code. cbn [negb].
           destruct out as [n|]; [destruct (str_eqb n s_dash); [|destruct (w_open_out w n)]|];
             inversion H; subst; cbn; repeat split; auto.
        -- inversion H; subst; cbn. destruct out; repeat split; auto.
Qed.

Theorem main_total : forall t fl argv w, (fl = Att -> argv_ok argv) -> exists o, tool_main t fl argv w = Done o.
Proof.
  intros t fl argv w Hok. pose proof (tool_parse_total t fl argv Hok) as P.
  unfold tool_main.
  destruct (tool_parse t fl argv) as [ms|[lo out] argv' i|]; [eauto| |congruence].
  destruct (length argv' <=? i)%nat; [eauto|].
  destruct (input_of w (nth i argv' [])) as [| |bs]; [eauto|destruct t; eauto|].
  rewrite read_blocks_all. destruct (w_lib w lo bs) as [code outb].
  destruct (code =? 0); [|eauto].
  destruct out as [n|]; [|eauto]. destruct (str_eqb n s_dash); [eauto|]. destruct (w_open_out w n); eauto.
Qed.

(* ------------------------------------------------------------------ *)
(* the sentences of the property                                       *)

Ltac use_char H :=
  let Hc := fresh "Hc" in
  pose proof (main_char _ _ _ _ _ H) as Hc;
  destruct (request _ _ _) as [[[?lo ?out] ?name]|];
  [ destruct (input_of _ _) as [| |?bs] | ].

Theorem exit_status : forall t fl argv w o, tool_main t fl argv w = Done o ->
  match o_call o with
  | Some (lo, data) => o_exit o = fst (w_lib w lo data) mod 256
  | None => o_exit o = 0
  end.
Proof.
  intros t fl argv w o H. use_char H.
  - destruct Hc as (-> & -> & _). reflexivity.
  - destruct Hc as (-> & -> & _). reflexivity.
  - destruct Hc as (-> & _ & -> & _). reflexivity.
  - destruct Hc as (-> & -> & _). reflexivity.
Qed.

Theorem call_is_request : forall t fl argv w o, tool_main t fl argv w = Done o ->
  o_call o = match request t fl argv with
             | Some (lo, _, name) => match input_of w name with InBytes bs => Some (lo, bs) | _ => None end
             | None => None
             end.
Proof.
  intros t fl argv w o H. use_char H; destruct Hc as (-> & _); reflexivity.
Qed.

Lemma not_in_getopt_msgs : forall ms t c, Forall getopt_msg ms -> ~ In (MFailed t c) ms.
Proof.
  intros ms t c F I. rewrite Forall_forall in F. apply F in I. exact I.
Qed.

Theorem failed_line_iff : forall t fl argv w o, tool_main t fl argv w = Done o ->
  forall t' c, In (MFailed t' c) (o_stderr o) <->
               (t' = t /\ c <> 0 /\ exists lo data, o_call o = Some (lo, data) /\ fst (w_lib w lo data) = c).
Proof.
  intros t fl argv w o H t' c. use_char H.
  - destruct Hc as (Hcall & _ & _ & _ & ->). rewrite Hcall. cbn. split.
    + intros [F|[]]; discriminate.
    + intros (_ & _ & lo' & d & F & _); discriminate.
  - destruct Hc as (Hcall & _ & _ & _ & n & ->). rewrite Hcall. cbn. split.
    + intros [F|[]]; discriminate.
    + intros (_ & _ & lo' & d & F & _); discriminate.
  - destruct Hc as (Hcall & _ & _ & _ & ->). rewrite Hcall.
    destruct (fst (w_lib w lo bs) =? 0) eqn:E.
    + apply N.eqb_eq in E. split.
      * cbn. intros [F|I]; [discriminate|].
        unfold out_msgs in I. destruct out as [n|]; [|contradiction].
        destruct (str_eqb n s_dash); [contradiction|]. destruct (w_open_out w n); [contradiction|].
        destruct I as [F|[]]; discriminate.
      * intros (_ & Hne & lo' & d & F & Hf). inversion F; subst. congruence.
    + apply N.eqb_neq in E. split.
      * intros [F|[]]. inversion F; subst. repeat split; auto. eauto.
      * intros (-> & _ & lo' & d & F & Hf). inversion F; subst. left. reflexivity.
  - destruct Hc as (Hcall & _ & _ & _ & ms & Fm & [->| ->]); rewrite Hcall; split.
    + intros I. apply in_app_or in I. destruct I as [I|[F|[]]]; [|discriminate].
      exfalso. eapply not_in_getopt_msgs; eauto.
    + intros (_ & _ & lo' & d & F & _); discriminate.
    + intros [F|[F|[]]]; discriminate.
    + intros (_ & _ & lo' & d & F & _); discriminate.
Qed.

Theorem failed_no_output : forall t fl argv w o, tool_main t fl argv w = Done o ->
  forall t' c, In (MFailed t' c) (o_stderr o) -> o_sink o = SNone /\ o_stdout o = [].
Proof.
  intros t fl argv w o H t' c I.
  pose proof (proj1 (failed_line_iff _ _ _ _ _ H t' c) I) as (_ & Hne & lo' & d & Hcall & Hf).
  use_char H.
  - destruct Hc as (F & _). congruence.
  - destruct Hc as (F & _). congruence.
  - destruct Hc as (Hcall' & -> & _ & -> & _). rewrite Hcall' in Hcall. inversion Hcall; subst.
    split; [|reflexivity]. unfold sink_spec. destruct out; [|reflexivity].
    apply N.eqb_neq in Hne. rewrite Hne. reflexivity.
  - destruct Hc as (F & _). congruence.
Qed.

Theorem output_bytes : forall t fl argv w o, tool_main t fl argv w = Done o ->
  o_sink o = match request t fl argv with
             | Some (lo, out, name) =>
                 match input_of w name with
                 | InBytes bs => sink_spec w out (fst (w_lib w lo bs)) (snd (w_lib w lo bs))
                 | _ => SNone
                 end
             | None => SNone
             end.
Proof.
  intros t fl argv w o H. use_char H.
  - destruct Hc as (_ & _ & -> & _). reflexivity.
  - destruct Hc as (_ & _ & -> & _). reflexivity.
  - destruct Hc as (_ & _ & _ & -> & _). reflexivity.
  - destruct Hc as (_ & _ & -> & _). reflexivity.
Qed.

Lemma sink_spec_stdout : forall w out code outb bs,
  sink_spec w out code outb = SStdout bs <-> (out = Some s_dash /\ code = 0 /\ bs = outb).
Proof.
  intros w out code outb bs. unfold sink_spec. destruct out as [n|].
  - destruct (N.eqb_spec code 0) as [->|Hne]; cbn [negb].
    + destruct (str_eqb n s_dash) eqn:E.
      * apply str_eqb_eq in E. subst n. split; [intros F; inversion F; auto|intros (_ & _ & ->); reflexivity].
      * split; [destruct (w_open_out w n); discriminate|].
        intros (F & _). inversion F; subst. rewrite str_eqb_refl in E. discriminate.
    + split; [discriminate|]. intros (_ & F & _). congruence.
  - split; [discriminate|]. intros (F & _). discriminate.
Qed.

Lemma sink_spec_file : forall w out code outb n bs,
  sink_spec w out code outb = SFile n bs <->
  (out = Some n /\ n <> s_dash /\ code = 0 /\ w_open_out w n = true /\ bs = outb).
Proof.
  intros w out code outb n bs. unfold sink_spec. destruct out as [m|].
  - destruct (N.eqb_spec code 0) as [->|Hne]; cbn [negb].
    + destruct (str_eqb m s_dash) eqn:E.
      * apply str_eqb_eq in E. subst m. split; [discriminate|]. intros (F & Hn & _). inversion F. congruence.
      * destruct (w_open_out w m) eqn:O.
        -- split.
           ++ intros F. inversion F; subst. repeat split; auto.
              intros ->. rewrite str_eqb_refl in E. discriminate.
           ++ intros (F & _ & _ & _ & ->). inversion F; subst. reflexivity.
        -- split; [discriminate|]. intros (F & _ & _ & O' & _). inversion F; subst. congruence.
    + split; [discriminate|]. intros (_ & _ & F & _). congruence.
  - split; [discriminate|]. intros (F & _). discriminate.
Qed.

Theorem always_reports : forall t fl argv w o, tool_main t fl argv w = Done o -> o_stderr o <> [].
Proof.
  intros t fl argv w o H. use_char H.
  - destruct Hc as (_ & _ & _ & _ & ->). discriminate.
  - destruct Hc as (_ & _ & _ & _ & n & ->). discriminate.
  - destruct Hc as (_ & _ & _ & _ & ->). destruct (fst (w_lib w lo bs) =? 0); discriminate.
  - destruct Hc as (_ & _ & _ & _ & ms & _ & [->| ->]); [|discriminate].
    intros F. apply app_eq_nil in F. destruct F; discriminate.
Qed.

Theorem unwritable_output_reported : forall t fl argv w o lo n name bs,
  tool_main t fl argv w = Done o ->
  request t fl argv = Some (lo, Some n, name) -> input_of w name = InBytes bs ->
  fst (w_lib w lo bs) = 0 -> n <> s_dash -> w_open_out w n = false ->
  In (MFailedOpenOut n) (o_stderr o) /\ o_sink o = SNone /\ o_exit o = 0.
Proof.
  intros t fl argv w o lo n name bs H R I L Hn O.
  pose proof (main_char _ _ _ _ _ H) as Hc. rewrite R, I in Hc.
  destruct Hc as (_ & _ & -> & -> & ->). rewrite L. cbn [N.eqb].
  unfold out_msgs, sink_spec. cbn [N.eqb negb].
  destruct (str_eqb n s_dash) eqn:E; [apply str_eqb_eq in E; congruence|].
  rewrite O. cbn. auto.
Qed.

Theorem usage_when_no_request : forall t fl argv w o, tool_main t fl argv w = Done o ->
  request t fl argv = None ->
  In (MHelp t) (o_stderr o) /\ o_exit o = 0 /\ o_sink o = SNone /\ o_stdout o = [] /\ o_call o = None.
Proof.
  intros t fl argv w o H R. pose proof (main_char _ _ _ _ _ H) as Hc. rewrite R in Hc.
  destruct Hc as (-> & -> & -> & -> & ms & _ & [->| ->]); repeat split; auto.
  - apply in_or_app. right. left. reflexivity.
  - right. left. reflexivity.
Qed.

Theorem unreadable_input_reported : forall t fl argv w o lo out name,
  tool_main t fl argv w = Done o -> request t fl argv = Some (lo, out, name) ->
  (forall bs, input_of w name <> InBytes bs) ->
  o_call o = None /\ o_exit o = 0 /\ o_sink o = SNone /\ o_stdout o = [] /\
  (o_stderr o = [MFailedOpenIn name] \/ exists n, o_stderr o = [MReadErr n]).
Proof.
  intros t fl argv w o lo out name H R NB.
  pose proof (main_char _ _ _ _ _ H) as Hc. rewrite R in Hc.
  destruct (input_of w name) as [| |bs] eqn:I.
  - destruct Hc as (-> & -> & -> & -> & ->). repeat split; auto.
  - destruct Hc as (-> & -> & -> & -> & n & ->). repeat split; eauto.
  - exfalso. eapply NB. reflexivity.
Qed.

(* ------------------------------------------------------------------ *)
(* on command lines of the documented form both getopt flavours agree  *)

Section PosixVsSpec.
  Variable C : Type.
  Variable apply : N -> option str -> C -> option C.
  Variable opts : str.
  Variable kindof : N -> kind.
  Hypothesis H_k : forall c, opt_kind opts c = kindof c.
  Variable prog : str.

  Lemma scan_cluster_ext : forall cs next cfg,
    scan_cluster apply (opt_kind opts) prog cs next cfg = scan_cluster apply kindof prog cs next cfg.
  Proof.
    induction cs as [|c cs IH]; intros next cfg; cbn [scan_cluster]; [reflexivity|].
    rewrite H_k. destruct (kindof c); [reflexivity| |reflexivity].
    destruct (apply c None cfg); [apply IH|reflexivity].
  Qed.

  Lemma posix_plain_tail : forall rest done nonopts cfg,
    forallb (fun w => negb (is_option_word w)) rest = true ->
    posix_scan apply opts prog rest done nonopts cfg = PArgs cfg (prog :: done ++ nonopts ++ rest) (S (length done)).
  Proof.
    induction rest as [|a rest IH]; intros done nonopts cfg H; cbn [posix_scan].
    - rewrite app_nil_r. reflexivity.
    - cbn [forallb] in H. apply andb_true_iff in H. destruct H as [Ha Hr].
      apply negb_true_iff in Ha.
      assert (E : str_eqb a s_dashdash = false).
      { destruct (str_eqb a s_dashdash) eqn:E; [|reflexivity]. apply str_eqb_eq in E. subst a. discriminate. }
      rewrite E, Ha. rewrite IH by exact Hr. rewrite <- app_assoc. reflexivity.
  Qed.

  Lemma posix_equals_spec : forall args done full cfg,
    full = prog :: done ++ args ->
    options_first apply kindof prog args cfg = true ->
    posix_scan apply opts prog args done [] cfg = spec_args apply kindof prog full args (S (length done)) cfg.
  Proof.
    fix IH 1. intros args done full cfg Hfull Hof.
    destruct args as [|a rest]; cbn [posix_scan spec_args options_first] in *.
    - rewrite Hfull. reflexivity.
    - destruct (str_eqb a s_dashdash); [discriminate|].
      destruct (is_option_word a) eqn:Ow.
      + rewrite scan_cluster_ext.
        pose proof (scan_cluster_props _ apply kindof prog (tl a) (hd_error rest) cfg) as P.
        destruct (scan_cluster apply kindof prog (tl a) (hd_error rest) cfg) as [ms|cfg' [|]].
        * reflexivity.
        * destruct rest as [|v rest']; [cbn in P; congruence|].
          replace (S (S (S (length done)))) with (S (length (done ++ [a; v]))) by (rewrite app_length; cbn; lia).
          apply IH; [|exact Hof].
          rewrite Hfull, <- app_assoc. reflexivity.
        * replace (S (S (length done))) with (S (length (done ++ [a]))) by (rewrite app_length; cbn; lia).
          apply IH; [|exact Hof].
          rewrite Hfull, <- app_assoc. reflexivity.
      + rewrite posix_plain_tail by exact Hof. rewrite Hfull. reflexivity.
  Qed.
End PosixVsSpec.

Theorem posix_equals_att_on_documented_form : forall t argv,
  argv_ok argv -> documented_form t argv = true -> tool_parse t Posix argv = tool_parse t Att argv.
Proof.
  intros t argv Hok Hdoc. rewrite tool_parse_att_spec by exact Hok.
  destruct argv as [|p args]; [destruct t; reflexivity|].
  destruct t; unfold tool_parse, tool_spec_parse, run_getopt, spec_parse, documented_form in *.
  - rewrite (posix_equals_spec _ w2x_apply w2x_optstring kind_w2x opt_kind_w2x p args [] (p :: args)); auto.
  - rewrite (posix_equals_spec _ x2w_apply x2w_optstring kind_x2w opt_kind_x2w p args [] (p :: args)); auto.
Qed.
