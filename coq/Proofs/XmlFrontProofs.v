(* C02 (front end) — proofs about Model/XmlFront.v, part 1: the error field, refusal, the out-of-model markers.
   (Part 2: Proofs/XmlFrontTree.v — shape of the produced tree and names; part 3: Proofs/XmlFrontBalance.v.) *)
From Coq Require Import List NArith Lia Bool.
From Wbxml Require Import Model.TablesDefs Model.Tables Model.Codec Model.LangSelect Model.EncWbxml Model.XmlFront.
Import ListNotations.
Local Open Scope N_scope.

Ltac ifs := repeat match goal with
                   | |- context [if ?b then _ else _] => destruct b eqn:?
                   end.

Ltac brk := repeat (match goal with
                    | |- context [match ?x with _ => _ end] => destruct x eqn:?
                    end; cbn in * ).

Ltac respine := repeat match goal with
                       | E : c_spine ?c = _ |- context [c_spine ?c] => rewrite E
                       | E : c_root ?c = _ |- context [c_root ?c] => rewrite E
                       end.

  (* ------------------------------------------------------------------ the first part of the end-element callback *)

  (* flush_binary touches only the innermost frame (its cached text and its children) and the error field *)
  Lemma flush_binary_fields c :
    let c' := flush_binary c in
    c_lang c' = c_lang c /\ c_charset c' = c_charset c /\ c_page c' = c_page c /\ c_root c' = c_root c /\
    c_skip_lvl c' = c_skip_lvl c /\ c_skip_start c' = c_skip_start c /\
    (c_error c' = c_error c \/ c_error c' = E_B64_DEC).
  Proof.
    unfold flush_binary. destruct (c_spine c) as [|f up]; cbn; [tauto|].
    destruct (f_kind f) as [[p t o nm|nm] attrs [content|]|]; cbn; try tauto.
    ifs; cbn; try tauto. destruct (buffer_b64_dec content); cbn; tauto.
  Qed.

  Lemma flush_binary_error_nonzero c : c_error c <> WBXML_OK -> c_error (flush_binary c) <> WBXML_OK.
  Proof.
    intros H. destruct (flush_binary_fields c) as (_ & _ & _ & _ & _ & _ & [E|E]); rewrite E; [exact H|discriminate].
  Qed.

  (* the spine keeps its length and everything but the innermost frame *)
  Lemma flush_binary_spine c :
    match c_spine c with
    | [] => c_spine (flush_binary c) = []
    | f :: up => exists f', c_spine (flush_binary c) = f' :: up /\ is_cdata_frame f' = is_cdata_frame f /\
                            frame_name f' = frame_name f
    end.
  Proof.
    unfold flush_binary. destruct (c_spine c) as [|f up] eqn:E; [now rewrite E|].
    destruct (f_kind f) as [[p t o nm|nm] attrs [content|]|] eqn:K; try (rewrite E; exists f; auto).
    destruct (negb (N.land o WBXML_TAG_OPTION_BINARY =? 0)); [|rewrite E; exists f; auto].
    destruct (buffer_b64_dec content); cbn.
    - eexists; split; [reflexivity|]. unfold add_text_kid, add_kid, is_cdata_frame, frame_name; cbn.
      destruct (f_rkids f) as [|[] ?]; cbn; rewrite K; auto.
    - eexists; split; [reflexivity|]. unfold is_cdata_frame, frame_name; cbn. rewrite K; auto.
  Qed.


Section P.
  Variable main : list lang.
  Variable sub : bytes -> xtree + N.
  Variable input : bytes.

  Notation step := (step main sub input).
  Notation run := (run main sub input).

  (* ------------------------------------------------------------------ run *)

  Lemma run_app c a b : run c (a ++ b) = run (run c a) b.
  Proof. unfold XmlFront.run. apply fold_left_app. Qed.

  Lemma run_cons c e r : run c (e :: r) = run (step c e) r.
  Proof. reflexivity. Qed.

  Lemma run_nil c : run c [] = c.
  Proof. reflexivity. Qed.

  (* ------------------------------------------------------------------ (a) the error field *)

  Definition failed (c : ctx) : Prop := c_error c <> WBXML_OK.

  Lemma failed_eqb c : failed c -> negb (c_error c =? WBXML_OK) = true.
  Proof. unfold failed. intros H. destruct (c_error c =? WBXML_OK) eqn:E; [apply N.eqb_eq in E; contradiction|reflexivity]. Qed.

  (* once an error is recorded, the callbacks other than the XML declaration, the DOCTYPE and end-element return at once *)
  Lemma step_failed_unchanged c e :
    failed c ->
    match e with
    | EvXmlDecl _ _ | EvStartDoctype _ _ _ | EvEndElement _ _ => True
    | _ => step c e = c
    end.
  Proof.
    intros H. pose proof (failed_eqb c H) as E.
    destruct e as [version encoding|dname sysid pubid| |name attrs byte_index|name byte_index|ch| | |target data]; cbn; auto; unfold on_start_element, on_characters, on_start_cdata, on_end_cdata, on_pi; now rewrite ?E.
  Qed.

  (* the declaration callbacks have no error check, but they touch only tree->orig_charset / tree->lang *)
  Lemma step_decl_fields c e :
    match e with
    | EvXmlDecl _ _ | EvStartDoctype _ _ _ =>
      let c' := step c e in
      c_root c' = c_root c /\ c_spine c' = c_spine c /\ c_error c' = c_error c /\ c_skip_lvl c' = c_skip_lvl c /\
      c_skip_start c' = c_skip_start c /\ c_page c' = c_page c
    | _ => True
    end.
  Proof.
    destruct e as [version encoding|dname sysid pubid| |name attrs byte_index|name byte_index|ch| | |target data]; cbn; auto.
    - unfold on_xml_decl. destruct version, encoding; cbn; auto 10. destruct (charset_get_mib b0); cbn; auto 10.
    - unfold on_start_doctype. destruct (search_table _ _ _ _); cbn; auto 10.
  Qed.

  (* end-element: the base64 flush runs before the error check, then the callback returns *)
  Lemma step_failed_end_element c name idx :
    failed c -> step c (EvEndElement name idx) = flush_binary c.
  Proof.
    intros H. cbn. unfold on_end_element.
    now rewrite (failed_eqb _ (flush_binary_error_nonzero c H)).
  Qed.

  Theorem error_never_cleared_step c e : failed c -> failed (step c e).
  Proof.
    intros H. pose proof (step_failed_unchanged c e H) as U. pose proof (step_decl_fields c e) as D.
    destruct e as [version encoding|dname sysid pubid| |name attrs byte_index|name byte_index|ch| | |target data]; try (rewrite U; exact H).
    - destruct D as (_ & _ & E & _). unfold failed. now rewrite E.
    - destruct D as (_ & _ & E & _). unfold failed. now rewrite E.
    - rewrite (step_failed_end_element c name byte_index H). now apply flush_binary_error_nonzero.
  Qed.

  Theorem error_never_cleared c evs : failed c -> failed (run c evs).
  Proof.
    revert c. induction evs as [|e r IH]; intros c H; [exact H|].
    rewrite run_cons. apply IH. now apply error_never_cleared_step.
  Qed.

  (* the position of `current` (the spine up to the innermost frame's cache and children) and the skip state never
     change after an error *)
  Theorem failed_cursor_frozen_step c e :
    failed c ->
    let c' := step c e in
    c_root c' = c_root c /\ c_skip_lvl c' = c_skip_lvl c /\ c_skip_start c' = c_skip_start c /\
    List.length (c_spine c') = List.length (c_spine c) /\ tl (c_spine c') = tl (c_spine c).
  Proof.
    intros H. pose proof (step_failed_unchanged c e H) as U. pose proof (step_decl_fields c e) as D.
    destruct e as [version encoding|dname sysid pubid| |name attrs byte_index|name byte_index|ch| | |target data]; try (cbv zeta; rewrite U; auto).
    - destruct D as (R & S & _ & L & T & _). cbv zeta. rewrite R, S, L, T. auto.
    - destruct D as (R & S & _ & L & T & _). cbv zeta. rewrite R, S, L, T. auto.
    - cbv zeta. rewrite (step_failed_end_element c name byte_index H).
      destruct (flush_binary_fields c) as (_ & _ & _ & R & L & T & _).
      pose proof (flush_binary_spine c) as S. rewrite R, L, T.
      destruct (c_spine c) as [|f up]; [rewrite S; auto|]. destruct S as (f' & S & _). rewrite S. auto.
  Qed.

  (* ------------------------------------------------------------------ (b) refusal *)

  Theorem not_well_formed_is_error evs : exists e, tree_from_xml main sub input evs false = inr e.
  Proof. unfold tree_from_xml. destruct input; eexists; reflexivity. Qed.

  Theorem failed_run_is_error evs ok :
    failed (run init_ctx evs) -> exists e, tree_from_xml main sub input evs ok = inr e.
  Proof.
    intros H. unfold tree_from_xml. destruct input; [eexists; reflexivity|].
    destruct ok; cbn; [|eexists; reflexivity].
    fold (run init_ctx evs). rewrite (failed_eqb _ H). eexists; reflexivity.
  Qed.

  (* what Expat can deliver before the root element (the C registers no comment / default handler; white space and
     comments of the prolog are not reported) *)
  Definition prolog_event (e : event) : Prop :=
    match e with
    | EvXmlDecl _ _ | EvEndDoctype | EvPi _ _ => True
    | EvStartDoctype _ sysid pubid => search_table main (option_map str pubid) (option_map str sysid) None = None
    | _ => False
    end.

  Lemma prolog_keeps_init c evs :
    Forall prolog_event evs -> c_lang c = None -> c_spine c = [] -> c_error c = WBXML_OK -> c_skip_lvl c = 0 ->
    let c' := run c evs in
    c_lang c' = None /\ c_spine c' = [] /\ c_error c' = WBXML_OK /\ c_skip_lvl c' = 0.
  Proof.
    intros F. revert c. induction F as [|e r He F IH]; intros c L S E K; [cbn; auto|].
    rewrite run_cons.
    assert (H : c_lang (step c e) = None /\ c_spine (step c e) = [] /\ c_error (step c e) = WBXML_OK /\ c_skip_lvl (step c e) = 0).
    { destruct e as [version encoding|dname sysid pubid| |name attrs byte_index|name byte_index|ch| | |target data];
        cbn in He |- *; try contradiction; auto.
      - unfold on_xml_decl. destruct version, encoding; cbn; auto. destruct (charset_get_mib b0); cbn; auto.
      - unfold on_start_doctype. now rewrite He. }
    destruct H as (L' & S' & E' & K'). now apply IH.
  Qed.

  (* no language from the DOCTYPE (absent, or not in the tables) and none from the root element: always an error *)
  Theorem no_language_is_error prolog name attrs idx rest ok :
    Forall prolog_event prolog ->
    search_table main None None (Some (str name)) = None ->
    exists e, tree_from_xml main sub input (prolog ++ EvStartElement name attrs idx :: rest) ok = inr e.
  Proof.
    intros F R. apply failed_run_is_error.
    rewrite run_app, run_cons. apply error_never_cleared.
    destruct (prolog_keeps_init init_ctx prolog F eq_refl eq_refl eq_refl eq_refl) as (L & S & E & K).
    unfold failed. cbn. unfold on_start_element. rewrite E, K, S, L, R. cbn. discriminate.
  Qed.

  (* ------------------------------------------------------------------ the out-of-model marker *)

  Lemma go_up_fields c :
    c_error (go_up c) = c_error c /\ c_skip_lvl (go_up c) = c_skip_lvl c /\ c_skip_start (go_up c) = c_skip_start c /\
    c_lang (go_up c) = c_lang c.
  Proof. unfold go_up. destruct (c_spine c) as [|f [|p r]]; cbn; auto. Qed.

  (* tree->root != NULL *)
  Definition root_exists (c : ctx) : Prop := c_spine c <> [] \/ c_root c <> None.

  Lemma go_up_root_exists c : root_exists c -> root_exists (go_up c).
  Proof. unfold root_exists, go_up. intros H. destruct (c_spine c) as [|f [|p r]] eqn:S; cbn; rewrite ?S; auto; first [left; discriminate | right; discriminate]. Qed.

  Lemma flush_root_exists c : root_exists c -> root_exists (flush_binary c).
  Proof.
    unfold root_exists. intros H. destruct (flush_binary_fields c) as (_ & _ & _ & R & _). rewrite R.
    pose proof (flush_binary_spine c) as S. destruct (c_spine c); [rewrite S; auto|]. destruct S as (f' & -> & _). left; discriminate.
  Qed.

  Lemma root_exists_step c e : root_exists c -> root_exists (step c e).
  Proof.
    intros H. destruct e as [version encoding|dname sysid pubid| |name attrs byte_index|name byte_index|ch| | |target data]; cbn; auto.
    - unfold on_xml_decl, root_exists in *. brk; auto.
    - unfold on_start_doctype, root_exists in *. brk; auto.
    - assert (T : forall c1, root_exists c1 -> root_exists (start_child c1 name attrs)).
      { intros c1 H1. unfold start_child, push_frame, root_exists in *.
        brk; respine; auto; first [left; discriminate | right; discriminate]. }
      unfold on_start_element. cbv zeta.
      match goal with |- context [flush_binary ?x] => set (c1 := x) end.
      assert (H1 : root_exists c1).
      { subst c1. unfold root_exists in *. brk; respine; auto. }
      clearbody c1.
      repeat match goal with
             | |- root_exists (start_child _ _ _) => apply T, flush_root_exists
             | |- root_exists (match ?x with _ => _ end) => destruct x eqn:?
             | |- root_exists (if ?x then _ else _) => destruct x eqn:?
             end; auto; unfold root_exists in *; cbn; respine; auto; first [left; discriminate | right; discriminate].
    - unfold on_end_element. apply flush_root_exists in H. set (cf := flush_binary c) in *. clearbody cf.
      unfold leave_current.
      repeat match goal with
             | |- root_exists (go_up _) => apply go_up_root_exists
             | |- root_exists (match ?x with _ => _ end) => destruct x eqn:?
             | |- root_exists (if ?x then _ else _) => destruct x eqn:?
             end; auto; unfold root_exists in *; cbn; respine; auto; first [left; discriminate | right; discriminate].
    - unfold on_characters, add_text, push_frame, root_exists in *.
      brk; respine; auto; first [left; discriminate | right; discriminate].
    - unfold on_start_cdata, push_frame, root_exists in *.
      brk; respine; auto; first [left; discriminate | right; discriminate].
    - unfold on_end_cdata. brk; auto. apply go_up_root_exists. unfold root_exists. respine. left; discriminate.
  Qed.

  (* an element is skipped only below an existing root *)
  Definition skip_inv (c : ctx) : Prop := 0 < c_skip_lvl c -> root_exists c.

  Lemma skip_lvl_step c e :
    c_skip_lvl (step c e) = c_skip_lvl c \/ c_skip_lvl (step c e) = 0 \/ 0 < c_skip_lvl c \/
    (c_spine c <> [] /\ c_spine (step c e) = c_spine c).
  Proof.
    destruct e as [version encoding|dname sysid pubid| |name attrs byte_index|name byte_index|ch| | |target data]; cbn; auto.
    - unfold on_xml_decl. brk; auto.
    - unfold on_start_doctype. brk; auto.
    - unfold on_start_element. destruct (negb (c_error c =? WBXML_OK)); auto.
      destruct (0 <? c_skip_lvl c) eqn:K; [apply N.ltb_lt in K; auto|].
      match goal with |- context [if negb (c_error ?x =? WBXML_OK) then _ else _] => set (c1 := x) end.
      assert (H1 : c_spine c1 = c_spine c /\ c_skip_lvl c1 = c_skip_lvl c).
      { subst c1. brk; auto. }
      destruct H1 as (S1 & K1).
      destruct (negb (c_error c1 =? WBXML_OK)); auto.
      destruct (is_embedded_name name && negb match c_spine c1 with [] => true | _ => false end) eqn:EM.
      { right; right; right. apply andb_true_iff in EM. destruct EM as [_ EM]. cbn. rewrite <- S1.
        destruct (c_spine c1); [discriminate|]. split; [discriminate|reflexivity]. }
      destruct (flush_binary_fields c1) as (_ & _ & _ & _ & FK & _).
      set (cf := flush_binary c1) in *. clearbody cf.
      assert (K2 : c_skip_lvl cf = c_skip_lvl c) by congruence.
      unfold start_child. destruct (negb (c_error cf =? WBXML_OK)); auto.
      destruct (WBXML_MAX_NESTING_DEPTH <=? N.of_nat (List.length (c_spine cf))); cbn; auto.
      destruct (c_lang cf); cbn; auto. destruct (resolve_tag l name).
      unfold push_frame. brk; auto.
    - unfold on_end_element. destruct (flush_binary_fields c) as (_ & _ & _ & _ & FK & _).
      set (cf := flush_binary c) in *. clearbody cf.
      destruct (negb (c_error cf =? WBXML_OK)); auto.
      destruct (0 <? c_skip_lvl cf) eqn:K; [rewrite FK in K; apply N.ltb_lt in K; auto|].
      left. rewrite <- FK. unfold leave_current. brk; auto;
      repeat match goal with |- context [go_up ?x] => destruct (go_up_fields x) as (_ & -> & _) end; auto.
    - unfold on_characters, add_text, push_frame. brk; auto.
    - unfold on_start_cdata, push_frame. brk; auto.
    - unfold on_end_cdata. brk; auto. destruct (go_up_fields c) as (_ & -> & _). auto.
  Qed.

  Lemma skip_inv_step c e : skip_inv c -> skip_inv (step c e).
  Proof.
    unfold skip_inv. intros H K.
    destruct (skip_lvl_step c e) as [E|[E|[E|[E1 E2]]]].
    - apply root_exists_step. apply H. now rewrite <- E.
    - rewrite E in K. lia.
    - apply root_exists_step. now apply H.
    - left. now rewrite E2.
  Qed.

  Lemma skip_inv_run c evs : skip_inv c -> skip_inv (run c evs).
  Proof.
    revert c. induction evs as [|e r IH]; intros c H; [exact H|]. rewrite run_cons. apply IH. now apply skip_inv_step.
  Qed.

  (* the error code E_OUTSIDE_MODEL is recorded only if the nested parse returned it *)
  Lemma outside_model_step c e :
    (forall d, sub d <> inr E_OUTSIDE_MODEL) -> skip_inv c ->
    c_error c <> E_OUTSIDE_MODEL -> c_error (step c e) <> E_OUTSIDE_MODEL.
  Proof.
    intros Hsub HI HM. destruct e as [version encoding|dname sysid pubid| |name attrs byte_index|name byte_index|ch| | |target data]; cbn; auto.
    - unfold on_xml_decl. brk; auto.
    - unfold on_start_doctype. brk; auto.
    - assert (T : forall c1, c_error c1 <> E_OUTSIDE_MODEL -> c_error (start_child c1 name attrs) <> E_OUTSIDE_MODEL).
      { intros c1 H1. unfold start_child, push_frame. brk; auto; discriminate. }
      unfold on_start_element. cbv zeta.
      match goal with |- context [flush_binary ?x] => set (c1 := x) end.
      assert (H1 : c_error c1 <> E_OUTSIDE_MODEL). { subst c1. brk; auto; discriminate. }
      clearbody c1.
      assert (H2 : c_error (flush_binary c1) <> E_OUTSIDE_MODEL).
      { destruct (flush_binary_fields c1) as (_ & _ & _ & _ & _ & _ & [E|E]); rewrite E; [exact H1|discriminate]. }
      repeat match goal with |- c_error (if ?x then _ else _) <> _ => destruct x end; cbn; auto.
    - unfold on_end_element.
      assert (HIf : skip_inv (flush_binary c)).
      { unfold skip_inv. destruct (flush_binary_fields c) as (_ & _ & _ & _ & -> & _). intros K. apply flush_root_exists. now apply HI. }
      assert (HMf : c_error (flush_binary c) <> E_OUTSIDE_MODEL).
      { destruct (flush_binary_fields c) as (_ & _ & _ & _ & _ & _ & [E|E]); rewrite E; [exact HM|discriminate]. }
      set (cf := flush_binary c) in *. clearbody cf. clear HI HM.
      destruct (negb (c_error cf =? WBXML_OK)); auto.
      assert (LV : c_error (leave_current cf) <> E_OUTSIDE_MODEL).
      { unfold leave_current. brk; auto; try discriminate;
        repeat match goal with |- context [go_up ?x] => destruct (go_up_fields x) as (-> & _) end; auto. }
      destruct (0 <? c_skip_lvl cf) eqn:K; auto. apply N.ltb_lt in K. specialize (HIf K).
      destruct (c_skip_lvl cf =? 1); auto.
      destruct (is_embedded_name name); auto.
      destruct (c_lang cf); cbn; try discriminate.
      destruct (beq name n_MgmtTree && negb (l_id l =? LANG_SYNCML12)); cbn; try discriminate.
      match goal with |- context [match ?t with Some _ => _ | None => _ end] => destruct t as [id|] end; cbn; try discriminate.
      destruct (get_table main id) as [el|]; cbn; try discriminate.
      destruct (embedded_doc _ _ _ _ _) as [doc|]; cbn; try discriminate.
      destruct (sub doc) eqn:SB; cbn.
      + destruct (c_spine cf) eqn:S; cbn; auto.
        destruct (c_root cf) eqn:R; cbn; try discriminate.
        destruct HIf as [X|X]; contradiction.
      + intros X. apply (Hsub doc). now rewrite SB, X.
    - unfold on_characters, add_text, push_frame. brk; auto; discriminate.
    - unfold on_start_cdata, push_frame. brk; auto; discriminate.
    - unfold on_end_cdata. brk; auto; try discriminate. destruct (go_up_fields c) as (-> & _). auto.
  Qed.

  Theorem outside_model_unreachable evs :
    (forall d, sub d <> inr E_OUTSIDE_MODEL) -> c_error (run init_ctx evs) <> E_OUTSIDE_MODEL.
  Proof.
    intros Hsub.
    assert (G : forall evs c, skip_inv c -> c_error c <> E_OUTSIDE_MODEL -> c_error (run c evs) <> E_OUTSIDE_MODEL).
    { induction evs0 as [|e r IH]; intros c HI HM; [exact HM|]. rewrite run_cons. apply IH.
      - now apply skip_inv_step.
      - now apply outside_model_step. }
    apply G; [|discriminate]. unfold skip_inv. cbn. lia.
  Qed.
End P.
