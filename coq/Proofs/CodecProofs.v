(* C11 — proofs about Model/Codec.v *)
From Coq Require Import List NArith ZArith Lia Bool ZifyBool ZifyN.
From Wbxml Require Import Base.Bits Model.Codec.
Import ListNotations.
Local Open Scope N_scope.
Ltac Zify.zify_post_hook ::= Z.div_mod_to_equations.

Arguments N.mul : simpl never.
Arguments N.add : simpl never.
Arguments N.div : simpl never.
Arguments N.modulo : simpl never.
Arguments N.shiftr : simpl never.
Arguments N.shiftl : simpl never.
Arguments N.land : simpl never.
Arguments N.lor : simpl never.
Arguments N.pow : simpl never.
Arguments N.sub : simpl never.

(* close equalities between short lists of arithmetic expressions *)
Ltac list_lia := repeat (first [ reflexivity | lia | f_equal ]).

(* ------------------------------------------------------------------ *)
(* multi-byte integers                                                  *)

Lemma shiftr7 v : N.shiftr v 7 = v / 128.
Proof. rewrite N.shiftr_div_pow2. reflexivity. Qed.

Lemma cont_byte v : N.lor 128 (N.land v 127) = 128 + v mod 128.
Proof.
  rewrite land_127. apply lor_128. apply N.mod_lt. discriminate.
Qed.

Lemma mb_write_loop_step k value acc :
  mb_write_loop (S k) value acc =
  if N.eqb value 0 then acc else mb_write_loop k (value / 128) ((128 + value mod 128) :: acc).
Proof. cbn [mb_write_loop]. rewrite shiftr7, cont_byte. reflexivity. Qed.

Lemma mb_write_spec v : v < 4294967296 ->
  mb_write v =
    if v <? 128 then [v]
    else if v <? 16384 then [128 + v / 128; v mod 128]
    else if v <? 2097152 then [128 + v / 16384; 128 + (v / 128) mod 128; v mod 128]
    else if v <? 268435456 then
      [128 + v / 2097152; 128 + (v / 16384) mod 128; 128 + (v / 128) mod 128; v mod 128]
    else [128 + v / 268435456; 128 + (v / 2097152) mod 128; 128 + (v / 16384) mod 128;
          128 + (v / 128) mod 128; v mod 128].
Proof.
  intros Hv. unfold mb_write. rewrite shiftr7, land_127.
  rewrite !mb_write_loop_step. cbn [mb_write_loop].
  destruct (v <? 128) eqn:H1.
  { replace (v / 128 =? 0) with true by lia. list_lia. }
  replace (v / 128 =? 0) with false by lia.
  destruct (v <? 16384) eqn:H2.
  { replace (v / 128 / 128 =? 0) with true by lia.
    list_lia. }
  replace (v / 128 / 128 =? 0) with false by lia.
  destruct (v <? 2097152) eqn:H3.
  { replace (v / 128 / 128 / 128 =? 0) with true by lia.
    list_lia. }
  replace (v / 128 / 128 / 128 =? 0) with false by lia.
  destruct (v <? 268435456) eqn:H4.
  { replace (v / 128 / 128 / 128 / 128 =? 0) with true by lia.
    list_lia. }
  replace (v / 128 / 128 / 128 / 128 =? 0) with false by lia.
  list_lia.
Qed.

Lemma land_128_sweep :
  forallb (fun b => N.land b 128 =? (if b <? 128 then 0 else 128)) (N_range 256) = true.
Proof. vm_compute. reflexivity. Qed.

Lemma land_128 b : b < 256 -> N.land b 128 = if b <? 128 then 0 else 128.
Proof.
  intros H. apply N.eqb_eq. apply (sweep1 _ 256 land_128_sweep). exact H.
Qed.

Lemma mb_read_step k u b r : b < 256 ->
  mb_read_loop (S k) u (b :: r) =
  if b <? 128 then Ok (u32 (u * 128 + b), r)
  else mb_read_loop k (u32 (u * 128 + (b - 128))) r.
Proof.
  intros Hb. cbn [mb_read_loop]. rewrite land_128 by exact Hb. rewrite land_127.
  rewrite lor_shiftl_low by (apply N.mod_lt; discriminate).
  change (2 ^ 7) with 128.
  destruct (b <? 128) eqn:Hlt.
  - replace (b mod 128) with b by lia. reflexivity.
  - replace (b mod 128) with (b - 128) by lia. reflexivity.
Qed.

Lemma u32_small u x : u < 33554432 -> x < 128 -> u32 (u * 128 + x) = u * 128 + x.
Proof. intros Hu Hx. unfold u32. apply N.mod_small. lia. Qed.

(* the same step when nothing is truncated: b is a continuation byte 128 + x or a final byte x *)
Lemma mb_read_cont k u x r : u < 33554432 -> x < 128 ->
  mb_read_loop (S k) u ((128 + x) :: r) = mb_read_loop k (u * 128 + x) r.
Proof.
  intros Hu Hx. rewrite mb_read_step by lia. replace (128 + x <? 128) with false by lia.
  replace (128 + x - 128) with x by lia. rewrite u32_small by assumption. reflexivity.
Qed.

Lemma mb_read_last k u x r : u < 33554432 -> x < 128 ->
  mb_read_loop (S k) u (x :: r) = Ok (u * 128 + x, r).
Proof.
  intros Hu Hx. rewrite mb_read_step by lia. replace (x <? 128) with true by lia.
  rewrite u32_small by assumption. reflexivity.
Qed.

Lemma mb_roundtrip v r : v < 4294967296 -> mb_read (mb_write v ++ r) = Ok (v, r).
Proof.
  intros Hv. rewrite mb_write_spec by exact Hv. unfold mb_read.
  destruct (v <? 128) eqn:H1.
  { cbn [app]. rewrite mb_read_last by lia. list_lia. }
  destruct (v <? 16384) eqn:H2.
  { cbn [app]. rewrite mb_read_cont by lia. rewrite mb_read_last by lia. list_lia. }
  destruct (v <? 2097152) eqn:H3.
  { cbn [app]. rewrite mb_read_cont by lia. rewrite mb_read_cont by lia.
    rewrite mb_read_last by lia. list_lia. }
  destruct (v <? 268435456) eqn:H4.
  { cbn [app]. rewrite mb_read_cont by lia. rewrite mb_read_cont by lia. rewrite mb_read_cont by lia.
    rewrite mb_read_last by lia. list_lia. }
  cbn [app]. rewrite mb_read_cont by lia. rewrite mb_read_cont by lia. rewrite mb_read_cont by lia.
  rewrite mb_read_cont by lia. rewrite mb_read_last by lia. list_lia.
Qed.

Lemma mb_write_length v : v < 4294967296 -> length (mb_write v) = mb_len v.
Proof.
  intros Hv. rewrite mb_write_spec by exact Hv. unfold mb_len.
  destruct (v <? 128); [reflexivity|]. destruct (v <? 16384); [reflexivity|].
  destruct (v <? 2097152); [reflexivity|]. destruct (v <? 268435456); reflexivity.
Qed.

(* shortest form: mb_len is the least k with v < 128^k, and the first octet is never a bare 0x80 *)
Lemma mb_len_least v : v < 4294967296 ->
  v < 128 ^ N.of_nat (mb_len v) /\ ((1 < mb_len v)%nat -> 128 ^ N.of_nat (mb_len v - 1) <= v).
Proof.
  intros Hv. unfold mb_len.
  destruct (v <? 128) eqn:H1; [cbn; split; [lia | intro; lia]|].
  destruct (v <? 16384) eqn:H2; [cbn; split; [lia | intro; lia]|].
  destruct (v <? 2097152) eqn:H3; [cbn; split; [lia | intro; lia]|].
  destruct (v <? 268435456) eqn:H4; [cbn; split; [lia | intro; lia]|].
  cbn; split; [lia | intro; lia].
Qed.

Lemma mb_write_no_leading_zero v : v < 4294967296 -> (1 < mb_len v)%nat -> hd 0 (mb_write v) <> 128.
Proof.
  intros Hv. rewrite mb_write_spec by exact Hv. unfold mb_len.
  destruct (v <? 128) eqn:H1; [intro; lia|].
  destruct (v <? 16384) eqn:H2; [cbn [hd]; intros _; lia|].
  destruct (v <? 2097152) eqn:H3; [cbn [hd]; intros _; lia|].
  destruct (v <? 268435456) eqn:H4; cbn [hd]; intros _; lia.
Qed.

(* a sixth byte is never consumed: five continuation bytes are an error whatever follows *)
Lemma mb_read_six b1 b2 b3 b4 b5 r :
  128 <= b1 < 256 -> 128 <= b2 < 256 -> 128 <= b3 < 256 -> 128 <= b4 < 256 -> 128 <= b5 < 256 ->
  mb_read (b1 :: b2 :: b3 :: b4 :: b5 :: r) = Err E_UNVALID_MBUINT32.
Proof.
  intros H1 H2 H3 H4 H5. unfold mb_read.
  rewrite mb_read_step by lia. replace (b1 <? 128) with false by lia.
  rewrite mb_read_step by lia. replace (b2 <? 128) with false by lia.
  rewrite mb_read_step by lia. replace (b3 <? 128) with false by lia.
  rewrite mb_read_step by lia. replace (b4 <? 128) with false by lia.
  rewrite mb_read_step by lia. replace (b5 <? 128) with false by lia.
  reflexivity.
Qed.

(* truncated integers are END_OF_BUFFER, never a value *)
Lemma mb_read_truncated bs : (length bs < 5)%nat -> Forall (fun b => 128 <= b < 256) bs ->
  mb_read bs = Err E_END_OF_BUFFER.
Proof.
  unfold mb_read. generalize 0 at 1 as u. generalize 5%nat as n.
  induction bs as [|b bs IH]; intros n u Hlen Hall.
  - destruct n; [cbn in Hlen; lia | reflexivity].
  - destruct n as [|n]; [cbn in Hlen; lia|].
    inversion Hall as [|? ? Hb Hrest]; subst.
    rewrite mb_read_step by lia. replace (b <? 128) with false by lia.
    apply IH; [cbn in Hlen; lia | exact Hrest].
Qed.

(* ------------------------------------------------------------------ *)
(* hexadecimal                                                          *)

Lemma hex_pair_sweep :
  forallb (fun up => forallb (fun b =>
     (N.lor (hexval (hexit up (N.land (b / 16) 15)) * 16) (hexval (hexit up (b mod 16)))) mod 256 =? b)
     (N_range 256)) [true; false] = true.
Proof. vm_compute. reflexivity. Qed.

Lemma hex_pair up b : b < 256 ->
  u8 (N.lor (hexval (hexit up (N.land (b / 16) 15)) * 16) (hexval (hexit up (b mod 16)))) = b.
Proof.
  intros Hb. unfold u8. pose proof hex_pair_sweep as H. rewrite forallb_forall in H.
  assert (Hin : In up [true; false]) by (destruct up; cbn; auto).
  specialize (H up Hin). apply N.eqb_eq. apply (sweep1 _ 256 H). exact Hb.
Qed.

Lemma hex_roundtrip up bs : Forall (fun b => b < 256) bs -> hex_to_bin (bin_to_hex up bs) = bs.
Proof.
  unfold hex_to_bin, bin_to_hex. induction 1 as [|b bs Hb _ IH]; [reflexivity|].
  cbn [flat_map app map hex_pairs]. rewrite hex_pair by exact Hb. f_equal. exact IH.
Qed.

Lemma hex_back_sweep :
  forallb (fun a => forallb (fun b =>
     negb (is_hex_digit a && is_hex_digit b) ||
     (let v := u8 (N.lor (hexval a * 16) (hexval b)) in
      (hexit true (N.land (v / 16) 15) =? to_upper_hex a) && (hexit true (v mod 16) =? to_upper_hex b)))
     (N_range 256)) (N_range 256) = true.
Proof. vm_compute. reflexivity. Qed.

Fixpoint even_len {A} (l : list A) : bool :=
  match l with [] => true | [_] => false | _ :: _ :: r => even_len r end.

Lemma hex_back cs : Forall (fun c => c < 256) cs -> forallb is_hex_digit cs = true -> even_len cs = true ->
  bin_to_hex true (hex_to_bin cs) = map to_upper_hex cs.
Proof.
  unfold hex_to_bin, bin_to_hex.
  revert cs. fix IH 1. intros cs Hr Hd He.
  destruct cs as [|a [|b r]]; [reflexivity | discriminate |].
  inversion Hr as [|? ? Ha Hr']; subst. inversion Hr' as [|? ? Hb Hr'']; subst.
  cbn [forallb] in Hd. apply andb_prop in Hd as [Hda Hd]. apply andb_prop in Hd as [Hdb Hd].
  cbn [map hex_pairs flat_map app].
  pose proof (sweep2 _ 256 256 hex_back_sweep a b Ha Hb) as Hs. cbv beta in Hs.
  rewrite Hda, Hdb in Hs. cbn [andb negb orb] in Hs.
  apply andb_prop in Hs as [Hs1 Hs2]. apply N.eqb_eq in Hs1, Hs2.
  rewrite Hs1, Hs2. f_equal. f_equal. apply IH; assumption.
Qed.

(* ------------------------------------------------------------------ *)
(* entities -> UTF-8                                                    *)

Lemma lor_cont x : N.lor 128 (N.land x 63) = 128 + x mod 64.
Proof.
  rewrite land_63. change 128 with (2 * 2 ^ 6). apply lor_high_low. apply N.mod_lt. discriminate.
Qed.

Lemma shiftr6 x : N.shiftr x 6 = x / 64.
Proof. rewrite N.shiftr_div_pow2. reflexivity. Qed.

Lemma lor_192 x : x < 32 -> N.lor 192 x = 192 + x.
Proof. intros H. change 192 with (6 * 2 ^ 5). apply lor_high_low. exact H. Qed.
Lemma lor_224 x : x < 16 -> N.lor 224 x = 224 + x.
Proof. intros H. change 224 with (14 * 2 ^ 4). apply lor_high_low. exact H. Qed.
Lemma lor_240 x : x < 8 -> N.lor 240 x = 240 + x.
Proof. intros H. change 240 with (30 * 2 ^ 3). apply lor_high_low. exact H. Qed.
Lemma lor_248 x : x < 4 -> N.lor 248 x = 248 + x.
Proof. intros H. change 248 with (62 * 2 ^ 2). apply lor_high_low. exact H. Qed.
Lemma lor_252 x : x < 2 -> N.lor 252 x = 252 + x.
Proof. intros H. change 252 with (126 * 2 ^ 1). apply lor_high_low. exact H. Qed.

Lemma utf8_loop_step f index code acc :
  utf8_loop (S f) index code acc =
  if N.shiftr 64 (N.of_nat (5 - index)) <=? code
  then utf8_loop f (index - 1) (code / 64) (u8 (128 + code mod 64) :: acc)
  else u8 (N.lor (mask_of index) code) :: acc.
Proof. cbn [utf8_loop]. rewrite shiftr6, lor_cont. reflexivity. Qed.

Lemma cstr_nonzero bs : Forall (fun b => b <> 0) bs -> cstr bs = bs.
Proof.
  induction 1 as [|b bs Hb _ IH]; [reflexivity|]. cbn [cstr].
  destruct (N.eqb_spec b 0); [contradiction|]. f_equal. exact IH.
Qed.

(* the raw loop result, by range *)
Lemma utf8_loop_2 c : 128 <= c < 2048 -> utf8_loop 5 5 c [] = [192 + c / 64; 128 + c mod 64].
Proof.
  intros H. rewrite utf8_loop_step. change (N.shiftr 64 (N.of_nat (5 - 5))) with 64.
  replace (64 <=? c) with true by lia. change (5 - 1)%nat with 4%nat.
  rewrite utf8_loop_step. change (N.shiftr 64 (N.of_nat (5 - 4))) with 32.
  replace (32 <=? c / 64) with false by lia. cbn [mask_of].
  rewrite lor_192 by lia. unfold u8. list_lia.
Qed.

Lemma utf8_loop_3 c : 2048 <= c < 65536 ->
  utf8_loop 5 5 c [] = [224 + c / 4096; 128 + (c / 64) mod 64; 128 + c mod 64].
Proof.
  intros H. rewrite utf8_loop_step. change (N.shiftr 64 (N.of_nat (5 - 5))) with 64.
  replace (64 <=? c) with true by lia. change (5 - 1)%nat with 4%nat.
  rewrite utf8_loop_step. change (N.shiftr 64 (N.of_nat (5 - 4))) with 32.
  replace (32 <=? c / 64) with true by lia. change (4 - 1)%nat with 3%nat.
  rewrite utf8_loop_step. change (N.shiftr 64 (N.of_nat (5 - 3))) with 16.
  replace (16 <=? c / 64 / 64) with false by lia. cbn [mask_of].
  rewrite lor_224 by lia. unfold u8. list_lia.
Qed.

Lemma utf8_loop_4 c : 65536 <= c < 2097152 ->
  utf8_loop 5 5 c [] = [240 + c / 262144; 128 + (c / 4096) mod 64; 128 + (c / 64) mod 64; 128 + c mod 64].
Proof.
  intros H. rewrite utf8_loop_step. change (N.shiftr 64 (N.of_nat (5 - 5))) with 64.
  replace (64 <=? c) with true by lia. change (5 - 1)%nat with 4%nat.
  rewrite utf8_loop_step. change (N.shiftr 64 (N.of_nat (5 - 4))) with 32.
  replace (32 <=? c / 64) with true by lia. change (4 - 1)%nat with 3%nat.
  rewrite utf8_loop_step. change (N.shiftr 64 (N.of_nat (5 - 3))) with 16.
  replace (16 <=? c / 64 / 64) with true by lia. change (3 - 1)%nat with 2%nat.
  rewrite utf8_loop_step. change (N.shiftr 64 (N.of_nat (5 - 2))) with 8.
  replace (8 <=? c / 64 / 64 / 64) with false by lia. cbn [mask_of].
  rewrite lor_240 by lia. unfold u8.
  list_lia.
Qed.

Lemma entity_utf8_correct c : c < 2147483648 -> c <> 0 -> c < 2097152 -> entity_utf8 c = Ok (utf8_spec c).
Proof.
  intros Hhi Hnz Hlt. unfold entity_utf8, utf8_spec.
  replace (2147483648 <=? c) with false by lia.
  destruct (c <? 128) eqn:H1.
  { rewrite cstr_nonzero; [reflexivity|]. constructor; [exact Hnz | constructor]. }
  destruct (c <? 2048) eqn:H2.
  { rewrite utf8_loop_2 by lia. rewrite cstr_nonzero; [reflexivity|].
    repeat constructor; lia. }
  destruct (c <? 65536) eqn:H3.
  { rewrite utf8_loop_3 by lia. rewrite cstr_nonzero; [reflexivity|].
    repeat constructor; lia. }
  rewrite utf8_loop_4 by lia. rewrite cstr_nonzero; [reflexivity|].
  repeat constructor; lia.
Qed.

Lemma entity_utf8_scalar c : is_scalar c = true -> c <> 0 -> entity_utf8 c = Ok (utf8_spec c).
Proof.
  intros Hs Hnz. apply entity_utf8_correct; [| exact Hnz |]; unfold is_scalar in Hs; lia.
Qed.

Lemma entity_utf8_reject c : 2147483648 <= c -> entity_utf8 c = Err E_INVALID_UNICODE.
Proof. intros H. unfold entity_utf8. replace (2147483648 <=? c) with true by lia. reflexivity. Qed.

Lemma entity_utf8_zero : entity_utf8 0 = Ok [].
Proof. reflexivity. Qed.

(* every accepted code terminates within the five iterations with index >= 0: the lead byte fits *)
Lemma entity_utf8_total c : c < 2147483648 -> exists bs, entity_utf8 c = Ok bs.
Proof.
  intros H. unfold entity_utf8. replace (2147483648 <=? c) with false by lia.
  destruct (c <? 128); eexists; reflexivity.
Qed.

(* ------------------------------------------------------------------ *)
(* base64                                                               *)

Lemma sx1_sweep : forallb (fun a => sx1 a =? a / 4) (N_range 256) = true.
Proof. vm_compute. reflexivity. Qed.
Lemma sx4_sweep : forallb (fun c => sx4 c =? c mod 64) (N_range 256) = true.
Proof. vm_compute. reflexivity. Qed.
Lemma sx2_sweep :
  forallb (fun a => forallb (fun b => sx2 a b =? (a mod 4) * 16 + b / 16) (N_range 256)) (N_range 256) = true.
Proof. vm_compute. reflexivity. Qed.
Lemma sx3_sweep :
  forallb (fun b => forallb (fun c => sx3 b c =? (b mod 16) * 4 + c / 64) (N_range 256)) (N_range 256) = true.
Proof. vm_compute. reflexivity. Qed.
Lemma sx2t_sweep : forallb (fun a => N.shiftl (N.land a 3) 4 =? (a mod 4) * 16) (N_range 256) = true.
Proof. vm_compute. reflexivity. Qed.
Lemma sx3t_sweep : forallb (fun b => N.shiftl (N.land b 15) 2 =? (b mod 16) * 4) (N_range 256) = true.
Proof. vm_compute. reflexivity. Qed.

Lemma sx1_eq a : a < 256 -> sx1 a = a / 4.
Proof. intros H. apply N.eqb_eq. apply (sweep1 _ 256 sx1_sweep). exact H. Qed.
Lemma sx4_eq c : c < 256 -> sx4 c = c mod 64.
Proof. intros H. apply N.eqb_eq. apply (sweep1 _ 256 sx4_sweep). exact H. Qed.
Lemma sx2_eq a b : a < 256 -> b < 256 -> sx2 a b = (a mod 4) * 16 + b / 16.
Proof. intros Ha Hb. apply N.eqb_eq. apply (sweep2 _ 256 256 sx2_sweep); assumption. Qed.
Lemma sx3_eq b c : b < 256 -> c < 256 -> sx3 b c = (b mod 16) * 4 + c / 64.
Proof. intros Hb Hc. apply N.eqb_eq. apply (sweep2 _ 256 256 sx3_sweep); assumption. Qed.
Lemma sx2t_eq a : a < 256 -> N.shiftl (N.land a 3) 4 = (a mod 4) * 16.
Proof. intros H. apply N.eqb_eq. apply (sweep1 _ 256 sx2t_sweep). exact H. Qed.
Lemma sx3t_eq b : b < 256 -> N.shiftl (N.land b 15) 2 = (b mod 16) * 4.
Proof. intros H. apply N.eqb_eq. apply (sweep1 _ 256 sx3t_sweep). exact H. Qed.

Lemma b64_enc_is_rfc4648 bs : Forall (fun b => b < 256) bs -> b64_enc_body bs = rfc4648 bs.
Proof.
  revert bs. fix IH 1. intros bs H.
  destruct bs as [|a [|b [|c r]]].
  - reflexivity.
  - inversion H as [|? ? Ha _]; subst. cbn [b64_enc_body rfc4648].
    rewrite sx1_eq, sx2t_eq by exact Ha. cbv zeta.
    list_lia.
  - inversion H as [|? ? Ha H']; subst. inversion H' as [|? ? Hb _]; subst.
    cbn [b64_enc_body rfc4648]. rewrite sx1_eq, sx2_eq, sx3t_eq by assumption. cbv zeta.
    list_lia.
  - inversion H as [|? ? Ha H']; subst. inversion H' as [|? ? Hb H'']; subst.
    inversion H'' as [|? ? Hc Hr]; subst.
    cbn [b64_enc_body rfc4648]. rewrite sx1_eq, sx2_eq, sx3_eq, sx4_eq by assumption. cbv zeta.
    f_equal; [f_equal; lia|]. f_equal; [f_equal; lia|]. f_equal; [f_equal; lia|].
    f_equal; [f_equal; lia|]. apply IH. exact Hr.
Qed.

(* decoding *)
Lemma pr2six_basis_sweep : forallb (fun i => pr2six (basis i) =? i) (N_range 64) = true.
Proof. vm_compute. reflexivity. Qed.
Lemma pr2six_basis i : i < 64 -> pr2six (basis i) = i.
Proof. intros H. apply N.eqb_eq. apply (sweep1 _ 64 pr2six_basis_sweep). exact H. Qed.

(* the table is the inverse of the alphabet and 64 everywhere else *)
Lemma pr2six_inverse_sweep :
  forallb (fun c => if pr2six c <=? 63 then basis (pr2six c) =? c else pr2six c =? 64) (N_range 256) = true.
Proof. vm_compute. reflexivity. Qed.

Lemma pr2six_pad : pr2six 61 = 64. Proof. reflexivity. Qed.

Lemma dec_sweep1 :
  forallb (fun p => forallb (fun q => u8 (N.lor (N.shiftl p 2) (N.shiftr q 4)) =? (p * 4 + q / 16) mod 256)
    (N_range 64)) (N_range 64) = true.
Proof. vm_compute. reflexivity. Qed.
Lemma dec_sweep2 :
  forallb (fun q => forallb (fun r => u8 (N.lor (N.shiftl q 4) (N.shiftr r 2)) =? (q * 16 + r / 4) mod 256)
    (N_range 64)) (N_range 64) = true.
Proof. vm_compute. reflexivity. Qed.
Lemma dec_sweep3 :
  forallb (fun r => forallb (fun s => u8 (N.lor (N.shiftl r 6) s) =? (r * 64 + s) mod 256)
    (N_range 64)) (N_range 64) = true.
Proof. vm_compute. reflexivity. Qed.

Lemma db1_basis p q : p < 64 -> q < 64 -> db1 (basis p) (basis q) = (p * 4 + q / 16) mod 256.
Proof.
  intros Hp Hq. unfold db1. rewrite !pr2six_basis by assumption.
  apply N.eqb_eq. apply (sweep2 _ 64 64 dec_sweep1); assumption.
Qed.
Lemma db2_basis q r : q < 64 -> r < 64 -> db2 (basis q) (basis r) = (q * 16 + r / 4) mod 256.
Proof.
  intros Hq Hr. unfold db2. rewrite !pr2six_basis by assumption.
  apply N.eqb_eq. apply (sweep2 _ 64 64 dec_sweep2); assumption.
Qed.
Lemma db3_basis r s : r < 64 -> s < 64 -> db3 (basis r) (basis s) = (r * 64 + s) mod 256.
Proof.
  intros Hr Hs. unfold db3. rewrite !pr2six_basis by assumption.
  apply N.eqb_eq. apply (sweep2 _ 64 64 dec_sweep3); assumption.
Qed.

(* sextet lists: the encoder output before padding, as numbers < 64 *)
Fixpoint sextets (bs : list N) : list N :=
  match bs with
  | a :: b :: c :: r => a / 4 :: (a mod 4) * 16 + b / 16 :: (b mod 16) * 4 + c / 64 :: c mod 64 :: sextets r
  | [a] => [a / 4; (a mod 4) * 16]
  | [a; b] => [a / 4; (a mod 4) * 16 + b / 16; (b mod 16) * 4]
  | [] => []
  end.

Definition pad (bs : list N) : list N :=
  match (length bs mod 3)%nat with 1%nat => [61; 61] | 2%nat => [61] | _ => [] end.

Lemma sextets_lt bs : Forall (fun b => b < 256) bs -> Forall (fun s => s < 64) (sextets bs).
Proof.
  revert bs. fix IH 1. intros bs H.
  destruct bs as [|a [|b [|c r]]]; cbn [sextets].
  - constructor.
  - inversion H; subst. repeat constructor; lia.
  - inversion H as [|? ? Ha H']; subst. inversion H'; subst. repeat constructor; lia.
  - inversion H as [|? ? Ha H']; subst. inversion H' as [|? ? Hb H'']; subst.
    inversion H'' as [|? ? Hc Hr]; subst.
    constructor; [lia|]. constructor; [lia|]. constructor; [lia|]. constructor; [lia|].
    apply IH. exact Hr.
Qed.

Lemma mod3_step {A} (a b c : A) r : (length (a :: b :: c :: r) mod 3 = length r mod 3)%nat.
Proof.
  cbn [length]. replace (S (S (S (length r)))) with (length r + 1 * 3)%nat by lia.
  apply Nat.mod_add. discriminate.
Qed.

Lemma enc_body_shape bs : Forall (fun b => b < 256) bs ->
  b64_enc_body bs = map basis (sextets bs) ++ pad bs.
Proof.
  revert bs. fix IH 1. intros bs H.
  destruct bs as [|a [|b [|c r]]].
  - reflexivity.
  - inversion H as [|? ? Ha _]; subst. cbn [b64_enc_body sextets map app]. unfold pad. cbn.
    rewrite sx1_eq, sx2t_eq by exact Ha. reflexivity.
  - inversion H as [|? ? Ha H']; subst. inversion H' as [|? ? Hb _]; subst.
    cbn [b64_enc_body sextets map app]. unfold pad. cbn.
    rewrite sx1_eq, sx2_eq, sx3t_eq by assumption. reflexivity.
  - inversion H as [|? ? Ha H']; subst. inversion H' as [|? ? Hb H'']; subst.
    inversion H'' as [|? ? Hc Hr]; subst.
    cbn [b64_enc_body sextets map app]. unfold pad. rewrite mod3_step. fold (pad r).
    rewrite sx1_eq, sx2_eq, sx3_eq, sx4_eq by assumption.
    do 4 f_equal. apply IH. exact Hr.
Qed.

Lemma take_b64_basis ss rest : Forall (fun s => s < 64) ss ->
  (match rest with [] => True | c :: _ => (pr2six c <=? 63) = false end) ->
  take_b64 (map basis ss ++ rest) = map basis ss.
Proof.
  intros H Hrest. induction H as [|s ss Hs _ IH]; cbn [map app take_b64].
  - destruct rest as [|c r]; [reflexivity|]. cbn [take_b64]. rewrite Hrest. reflexivity.
  - rewrite pr2six_basis by exact Hs. replace (s <=? 63) with true by lia. f_equal. exact IH.
Qed.

(* decoding the sextets of bs gives bs back; also the count *)
Lemma dec_body_sextets bs : Forall (fun b => b < 256) bs ->
  b64_dec_body (map basis (sextets bs)) = bs.
Proof.
  revert bs. fix IH 1. intros bs H.
  destruct bs as [|a [|b [|c r]]].
  - reflexivity.
  - inversion H as [|? ? Ha _]; subst. cbn [sextets map b64_dec_body].
    rewrite db1_basis by lia. list_lia.
  - inversion H as [|? ? Ha H']; subst. inversion H' as [|? ? Hb _]; subst.
    cbn [sextets map b64_dec_body].
    rewrite db1_basis, db2_basis by lia. list_lia.
  - inversion H as [|? ? Ha H']; subst. inversion H' as [|? ? Hb H'']; subst.
    inversion H'' as [|? ? Hc Hr]; subst.
    cbn [sextets map]. cbn [b64_dec_body].
    rewrite db1_basis, db2_basis, db3_basis by lia.
    specialize (IH r Hr).
    destruct (map basis (sextets r)) as [|x xs] eqn:Hm.
    + (* r has no sextets: r = [] *)
      destruct r as [|r1 [|r2 [|r3 r']]]; cbn [sextets map] in Hm; try discriminate.
      list_lia.
    + f_equal; [lia|]. f_equal; [lia|]. f_equal; [lia|]. exact IH.
Qed.

Lemma sextets_length bs : length (sextets bs) = ((length bs * 4 + 2) / 3)%nat.
Proof.
  revert bs. fix IH 1. intros bs.
  destruct bs as [|a [|b [|c r]]]; [reflexivity | reflexivity | reflexivity |].
  cbn [sextets length]. rewrite IH.
  replace (S (S (S (length r))) * 4 + 2)%nat with ((length r * 4 + 2) + 4 * 3)%nat by lia.
  rewrite Nat.div_add by discriminate. lia.
Qed.

Lemma dec_count_sextets n : (0 < n)%nat ->
  N.to_nat (b64_dec_count (N.of_nat ((n * 4 + 2) / 3))) = n.
Proof.
  intros Hn. unfold b64_dec_count.
  assert (Hq : exists q k, n = (3 * q + k)%nat /\ (k < 3)%nat).
  { exists (n / 3)%nat, (n mod 3)%nat. split; [apply Nat.div_mod; discriminate | apply Nat.mod_upper_bound; discriminate]. }
  destruct Hq as (q & k & -> & Hk).
  assert (Hs : ((((3 * q + k) * 4 + 2) / 3) = 4 * q + (k * 4 + 2) / 3)%nat).
  { replace ((3 * q + k) * 4 + 2)%nat with ((k * 4 + 2) + (4 * q) * 3)%nat by lia.
    rewrite Nat.div_add by discriminate. lia. }
  rewrite Hs.
  destruct k as [|[|[|k]]]; [| | | lia].
  - change ((0 * 4 + 2) / 3)%nat with 0%nat.
    replace (N.of_nat (4 * q + 0)) with (4 * N.of_nat q) by lia.
    destruct q as [|q]; [lia|].
    set (m := N.of_nat (S q)). assert (0 < m) by lia.
    replace (4 * m =? 0) with false by lia.
    replace ((4 * m - 1) mod 4) with 3 by lia.
    change (N.land (4 - (3 + 1)) 3) with 0. lia.
  - change ((1 * 4 + 2) / 3)%nat with 2%nat.
    replace (N.of_nat (4 * q + 2)) with (4 * N.of_nat q + 2) by lia.
    set (m := N.of_nat q).
    replace (4 * m + 2 =? 0) with false by lia.
    replace ((4 * m + 2 - 1) mod 4) with 1 by lia.
    change (N.land (4 - (1 + 1)) 3) with 2. lia.
  - change ((2 * 4 + 2) / 3)%nat with 3%nat.
    replace (N.of_nat (4 * q + 3)) with (4 * N.of_nat q + 3) by lia.
    set (m := N.of_nat q).
    replace (4 * m + 3 =? 0) with false by lia.
    replace ((4 * m + 3 - 1) mod 4) with 2 by lia.
    change (N.land (4 - (2 + 1)) 3) with 1. lia.
Qed.

Lemma pad_head bs rest :
  match pad bs ++ rest with [] => True | c :: _ => (pr2six c <=? 63) = false end \/ pad bs = [].
Proof.
  unfold pad. destruct (length bs mod 3)%nat as [|[|[|k]]]; cbn; auto.
Qed.

(* decode inverts encode for every non-empty byte string, whatever follows the padding,
   provided what follows does not start with an alphabet character when there is no padding *)
Lemma b64_roundtrip bs : bs <> [] -> Forall (fun b => b < 256) bs ->
  b64_dec (b64_enc_body bs) = Some bs.
Proof.
  intros Hne H. rewrite enc_body_shape by exact H.
  unfold b64_dec. rewrite take_b64_basis.
  2:{ apply sextets_lt. exact H. }
  2:{ unfold pad. destruct (length bs mod 3)%nat as [|[|[|k]]]; cbn; auto. }
  rewrite map_length, sextets_length.
  assert (Hlen : (0 < length bs)%nat) by (destruct bs; [contradiction | cbn; lia]).
  pose proof (dec_count_sextets (length bs) Hlen) as Hc.
  destruct (b64_dec_count (N.of_nat ((length bs * 4 + 2) / 3)) =? 0) eqn:Hz.
  { apply N.eqb_eq in Hz. rewrite Hz in Hc. cbn in Hc. lia. }
  rewrite Hc. rewrite dec_body_sextets by exact H. rewrite firstn_all. reflexivity.
Qed.

Lemma b64_enc_dec bs out : Forall (fun b => b < 256) bs -> b64_enc bs = Some out -> b64_dec out = Some bs.
Proof.
  intros H He. unfold b64_enc in He. destruct bs as [|b r]; [discriminate|].
  injection He as <-. apply (b64_roundtrip (b :: r)); [discriminate | exact H].
Qed.

Lemma b64_enc_rfc bs out : Forall (fun b => b < 256) bs -> b64_enc bs = Some out -> out = rfc4648 bs.
Proof.
  intros H He. unfold b64_enc in He. destruct bs as [|b r]; [discriminate|].
  injection He as <-. apply (b64_enc_is_rfc4648 (b :: r)). exact H.
Qed.

Lemma b64_enc_total bs : bs <> [] -> exists out, b64_enc bs = Some out.
Proof. destruct bs; [contradiction|]. intros _. eexists. reflexivity. Qed.
