From Coq Require Import List NArith ZArith Lia Bool ZifyBool ZifyN ZifyNat.
From Wbxml Require Import Model.Conv.
Import ListNotations.
Local Open Scope N_scope.

Arguments N.mul : simpl never.
Arguments N.add : simpl never.
Arguments N.pow : simpl never.
Arguments N.modulo : simpl never.

Section ConvP.
  Variable tree opts : Type.
  Variable tree_from_doc : opts -> list N -> tree + N.
  Variable encode : opts -> tree -> list N + N.

  Definition contract (r : conv_result) : Prop :=
    match r_status r with
    | ST_OK => exists out, r_out r = Some (out ++ [0]) /\ r_len r = N.of_nat (length out)
    | ST_ERR _ => r_out r = None /\ r_len r = 0
    end.

  Lemma conv_run_contract o doc : contract (conv_run tree opts tree_from_doc encode true o doc).
  Proof.
    unfold contract, conv_run. destruct doc as [|b r]; [cbn; auto|].
    destruct (tree_from_doc o (b :: r)) as [t|e]; [|cbn; auto].
    destruct (encode o t) as [out|e]; [|cbn; auto].
    cbn. exists out. auto.
  Qed.

  Lemma conv_withlen_contract d po doc : contract (conv_withlen tree opts tree_from_doc encode d true po doc).
  Proof. unfold conv_withlen. apply conv_run_contract. Qed.

  (* success exactly when both stages succeed; the error code is the failing stage's *)
  Lemma conv_run_status o doc :
    r_status (conv_run tree opts tree_from_doc encode true o doc) = ST_OK <->
    doc <> [] /\ exists t out, tree_from_doc o doc = inl t /\ encode o t = inl out.
  Proof.
    unfold conv_run. destruct doc as [|b r].
    - cbn. split; [discriminate | intros [H _]; contradiction].
    - destruct (tree_from_doc o (b :: r)) as [t|e].
      + destruct (encode o t) as [out|e] eqn:He; cbn.
        * split; [intros _; split; [discriminate | exists t, out; auto] | auto].
        * split; [discriminate | intros [_ (t' & out & Ht & Ho)]]. injection Ht as <-. congruence.
      + cbn. split; [discriminate | intros [_ (t' & out & Ht & _)]; discriminate].
  Qed.
End ConvP.

(* indentation loop: with a counter wider than the bound it terminates with exactly `bound` blanks *)
Lemma indent_loop_exact bits bound : bound < 2 ^ bits ->
  forall (k : nat) i acc, i <= bound -> N.of_nat k = bound - i ->
  indent_loop bits (S k) i bound acc = Some (repeat 32 k ++ acc).
Proof.
  intros Hb. induction k as [|k IH]; intros i acc Hi Hk.
  - cbn [indent_loop repeat app]. replace (i <? bound) with false by lia. reflexivity.
  - cbn [indent_loop]. replace (i <? bound) with true by lia.
    assert (Hw : wrap bits (i + 1) = i + 1) by (unfold wrap; apply N.mod_small; lia).
    rewrite Hw. change (indent_loop bits (S k) (i + 1) bound (32 :: acc) = Some (repeat 32 (S k) ++ acc)).
    rewrite IH by lia.
    f_equal. cbn [repeat]. change (32 :: acc) with ([32] ++ acc). rewrite app_assoc. rewrite <- repeat_cons. reflexivity.
Qed.

Lemma indent_blanks_32 indent delta : indent < 256 -> delta < 256 ->
  indent_blanks 32 (S (N.to_nat (indent * delta))) indent delta = Some (repeat 32 (N.to_nat (indent * delta))).
Proof.
  intros Hi Hd. unfold indent_blanks.
  rewrite (indent_loop_exact 32 (indent * delta)); [rewrite app_nil_r; reflexivity | | lia | lia].
  change (2 ^ 32) with 4294967296. nia.
Qed.

(* the 8-bit counter of the unrepaired code: the loop never terminates once indent * delta >= 256 *)
Lemma indent_loop8_diverges bound : 256 <= bound ->
  forall fuel i acc, i < 256 -> indent_loop 8 fuel i bound acc = None.
Proof.
  intros Hb. induction fuel as [|f IH]; intros i acc Hi; [reflexivity|].
  cbn [indent_loop]. replace (i <? bound) with true by lia.
  apply IH. unfold wrap. change (2 ^ 8) with 256. apply N.mod_lt. discriminate.
Qed.

Lemma indent_blanks_8_diverges indent delta : 256 <= indent * delta ->
  forall fuel, indent_blanks 8 fuel indent delta = None.
Proof. intros H fuel. unfold indent_blanks. apply indent_loop8_diverges; [exact H | lia]. Qed.
